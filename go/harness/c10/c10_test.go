package c10

// C10 correspondence + monitors on the real app.
//
// Phase 1 (dispatch, stateless per op):
//   op   : disp <kind> <method> <0x-methodId> <writer 0/1> <addr.String()> <disabled entries, comma separated | ->
//   impl : ran | blocked:readonly | blocked:disabled      (from the error the precompile frame returned, traced)
//   model: the Lean dispatcher `runGen` (regenerated step order + regenerated CheckContractAddressIsDisabled program).
// Phase 2 (histories, stateful per sequence; one cache context per sequence, every op a real signed MsgEthereumTx):
//   op   : set shares|bal|allow|pool ...   (initial real state handed to the model)
//          h <kind> <caller> <origin> <addr> <mid> <entries|-> <method> <decimal args>
//   impl : <status> al=<allowance owner->spender> sa=<shares A> sb=<shares B>   |  <status> sa=..  |  <status> pool=id:sender:amount,..
//   model: `runGen` applied to the model world (regenerated closures of approveShares / transferShares /
//          transferFromShares and the regenerated decrementAllowance statement list).
// Monitors (property stated directly on real state):
//   (1) a blocked call leaves every Cosmos store unchanged; (2) a governance list that contains — anywhere, among any
//   number of other entries — the precompile address or address/methodId in any letter case blocks the call (lists are
//   set through the REAL MsgUpdateSwitchParams handler; the expectation is computed from the property text, not from
//   the code); (3) STATICCALL / DELEGATECALL / CALLCODE into a state-changing method changes nothing; (4) portfolios of
//   every account that is not the direct caller (the tx origin included: balance + rewards, shares, allowances granted,
//   queued withdrawals) are never reduced by a call of somebody else, except transferFromShares within the allowance,
//   which drops by exactly the moved shares — per step and over the whole history since the last approval (approved −
//   Σ moved = allowance now, for every approved value incl. 2^256−1); (5) a contract entered through STATICCALL that
//   CALLs a state-changing method must not change state (inherited static context).

import (
	"encoding/hex"
	"fmt"
	"math/big"
	"math/rand"
	"os"
	"path/filepath"
	"regexp"
	"sort"
	"strings"
	"testing"

	sdkmath "cosmossdk.io/math"
	sdk "github.com/cosmos/cosmos-sdk/types"
	authtypes "github.com/cosmos/cosmos-sdk/x/auth/types"
	distrkeeper "github.com/cosmos/cosmos-sdk/x/distribution/keeper"
	distrtypes "github.com/cosmos/cosmos-sdk/x/distribution/types"
	govtypes "github.com/cosmos/cosmos-sdk/x/gov/types"
	stakingtypes "github.com/cosmos/cosmos-sdk/x/staking/types"
	"github.com/ethereum/go-ethereum/common"
	evmtypes "github.com/evmos/ethermint/x/evm/types"

	"github.com/functionx/fx-core/v8/testutil/helpers"
	fxtypes "github.com/functionx/fx-core/v8/types"
	crosschaintypes "github.com/functionx/fx-core/v8/x/crosschain/types"
	erc20types "github.com/functionx/fx-core/v8/x/erc20/types"
	ethtypes "github.com/functionx/fx-core/v8/x/eth/types"
	fxgovtypes "github.com/functionx/fx-core/v8/x/gov/types"
	fxstakingtypes "github.com/functionx/fx-core/v8/x/staking/types"

	"fxverif/harness/evmx"
	"fxverif/harness/hx"
)

type env struct {
	s        *hx.Suite
	signer   *helpers.Signer
	victim   *helpers.Signer
	other    common.Address
	x, y     common.Address // contracts: x calls the precompile (or y); y is the nested frame
	vals     []string
	staking  common.Address
	cross    common.Address
	xTx, vTx []uint64 // queued withdrawals of x and of the victim
	gov      string
}

var cosmosStores = []string{"bank", "staking", "distribution", "eth", "erc20", "slashing", "mint", "bsc", "tron", "transfer", "crosschain"}

var maxU256 = new(big.Int).Sub(new(big.Int).Lsh(big.NewInt(1), 256), big.NewInt(1))

func (e *env) dump(ctx sdk.Context) map[string]string {
	res := map[string]string{}
	keys := e.s.App.GetKVStoreKey()
	for _, n := range cosmosStores {
		if k, ok := keys[n]; ok {
			d, _ := hx.DumpStore(ctx, k)
			res[n] = d
		}
	}
	return res
}

func setup(t *testing.T) *env {
	s := hx.NewSuite(t, 2)
	e := &env{s: s, staking: fxstakingtypes.GetAddress(), cross: crosschaintypes.GetAddress()}
	e.gov = authtypes.NewModuleAddress(govtypes.ModuleName).String()
	e.signer = s.AddTestSigner(100_000)
	e.victim = s.AddTestSigner(100_000)
	e.other = helpers.GenHexAddress()
	e.x = common.BytesToAddress([]byte{0xC1, 0x0A, 0, 0, 0, 0, 0, 0, 0, 0, 0, 0, 0, 0, 0, 0, 0, 0, 0, 1})
	e.y = common.BytesToAddress([]byte{0xC1, 0x0A, 0, 0, 0, 0, 0, 0, 0, 0, 0, 0, 0, 0, 0, 0, 0, 0, 0, 2})
	for _, v := range s.ValAddr {
		e.vals = append(e.vals, v.String())
	}
	big18 := func(n int64) sdkmath.Int { return sdkmath.NewInt(n).Mul(sdkmath.NewInt(1e18)) }
	delegate := func(who sdk.AccAddress, val sdk.ValAddress, amt sdkmath.Int) {
		v, err := s.App.StakingKeeper.GetValidator(s.Ctx, val)
		if err != nil {
			t.Fatal(err)
		}
		if _, err := s.App.StakingKeeper.Delegate(s.Ctx, who, amt, stakingtypes.Unbonded, v, true); err != nil {
			t.Fatal(err)
		}
	}
	bridgeDenom := crosschaintypes.NewBridgeDenom(ethtypes.ModuleName, helpers.GenExternalAddr(ethtypes.ModuleName))
	s.App.EthKeeper.AddBridgeToken(s.Ctx, bridgeDenom, fxtypes.DefaultDenom)
	s.App.EthKeeper.AddBridgeToken(s.Ctx, fxtypes.DefaultDenom, bridgeDenom)
	s.App.EthKeeper.SetLastObservedBlockHeight(s.Ctx, 1000, uint64(s.Ctx.BlockHeight()))
	for _, a := range []common.Address{e.x, e.y} {
		s.MintToken(a.Bytes(), sdk.NewCoin(fxtypes.DefaultDenom, big18(1_000_000)))
		delegate(a.Bytes(), s.ValAddr[0], big18(1000))
		delegate(a.Bytes(), s.ValAddr[1], big18(1000))
	}
	delegate(e.victim.AccAddress(), s.ValAddr[0], big18(5000))
	delegate(e.signer.AccAddress(), s.ValAddr[0], big18(700))
	pool := func(who sdk.AccAddress) uint64 {
		id, err := s.App.EthKeeper.AddToOutgoingPool(s.Ctx, who, helpers.GenExternalAddr(ethtypes.ModuleName),
			sdk.NewCoin(fxtypes.DefaultDenom, sdkmath.NewInt(1000)), sdk.NewCoin(fxtypes.DefaultDenom, sdkmath.NewInt(10)))
		if err != nil {
			t.Fatal(err)
		}
		return id
	}
	// coins that belong to nobody's call: residual balances on the precompile accounts (a plain bank transfer is enough to
	// create them) and on the module accounts the crosschain methods route coins through
	s.MintToken(e.cross.Bytes(), sdk.NewCoin(fxtypes.DefaultDenom, sdkmath.NewInt(777_000)))
	s.MintToken(e.staking.Bytes(), sdk.NewCoin(fxtypes.DefaultDenom, sdkmath.NewInt(555_000)))
	for _, m := range []string{evmtypes.ModuleName, erc20types.ModuleName, ethtypes.ModuleName} {
		s.MintTokenToModule(m, sdk.NewCoin(fxtypes.DefaultDenom, sdkmath.NewInt(333_000)))
	}
	e.xTx = []uint64{pool(e.x.Bytes()), pool(e.x.Bytes()), pool(e.x.Bytes())}
	e.vTx = []uint64{pool(e.victim.AccAddress()), pool(e.victim.AccAddress()), pool(e.victim.AccAddress())}
	s.Commit()
	s.Commit()
	return e
}

// ---------------------------------------------------------------------------------------------------------
// portfolios

type portfolio struct {
	funds  *big.Int // balance + pending rewards
	shares *big.Int // delegation with validator 0
	allow  []*big.Int
	pool   map[uint64]string // id -> amount+fee
	// round 5: tokens in unbonding entries (all validators) and the delegation with validator 1 (the destination of the
	// histories' redelegations) in 10^-18 share units — nobody but the account itself may reduce either
	unbond  *big.Int
	shares1 *big.Int
}

// unbondOn0: tokens in the unbonding entries of `who` with validator 0 (what undelegateV2 of the histories creates)
func (e *env) unbondOn0(ctx sdk.Context, who common.Address) *big.Int {
	sum := new(big.Int)
	if ubd, err := e.s.App.StakingKeeper.GetUnbondingDelegation(ctx, who.Bytes(), e.s.ValAddr[0]); err == nil {
		for _, en := range ubd.Entries {
			sum.Add(sum, en.Balance.BigInt())
		}
	}
	return sum
}

// unbondAll: tokens in all unbonding entries of `who`
func (e *env) unbondAll(ctx sdk.Context, who common.Address) *big.Int {
	sum := new(big.Int)
	if ubds, err := e.s.App.StakingKeeper.GetAllUnbondingDelegations(ctx, who.Bytes()); err == nil {
		for _, ubd := range ubds {
			for _, en := range ubd.Entries {
				sum.Add(sum, en.Balance.BigInt())
			}
		}
	}
	return sum
}

// rawOn1: the delegation of `who` with validator 1 in 10^-18 share units
func (e *env) rawOn1(ctx sdk.Context, who common.Address) *big.Int {
	if len(e.s.ValAddr) < 2 {
		return new(big.Int)
	}
	if d, err := e.s.App.StakingKeeper.GetDelegation(ctx, who.Bytes(), e.s.ValAddr[1]); err == nil {
		return d.Shares.BigInt()
	}
	return new(big.Int)
}

func (e *env) sharesOf(ctx sdk.Context, who common.Address) *big.Int {
	if d, err := e.s.App.StakingKeeper.GetDelegation(ctx, who.Bytes(), e.s.ValAddr[0]); err == nil {
		return d.Shares.TruncateInt().BigInt()
	}
	return new(big.Int)
}

// dustOf: the fractional part of the delegation's shares in 10^-18 units (0 on a validator that was never slashed)
func (e *env) dustOf(ctx sdk.Context, who common.Address) *big.Int {
	if d, err := e.s.App.StakingKeeper.GetDelegation(ctx, who.Bytes(), e.s.ValAddr[0]); err == nil {
		return new(big.Int).Mod(d.Shares.BigInt(), big.NewInt(1e18))
	}
	return new(big.Int)
}

// valRate: bonded tokens and delegator shares (10^-18 units) of validator 0
func (e *env) valRate(ctx sdk.Context) (*big.Int, *big.Int) {
	v, err := e.s.App.StakingKeeper.GetValidator(ctx, e.s.ValAddr[0])
	if err != nil {
		return new(big.Int), new(big.Int)
	}
	return v.Tokens.BigInt(), v.DelegatorShares.BigInt()
}

func (e *env) allowance(ctx sdk.Context, owner, spender common.Address) *big.Int {
	return e.s.App.StakingKeeper.GetAllowance(ctx, e.s.ValAddr[0], owner.Bytes(), spender.Bytes())
}

func (e *env) portfolioOf(ctx sdk.Context, who common.Address, spenders []common.Address) portfolio {
	cctx, _ := ctx.CacheContext()
	app := e.s.App
	p := portfolio{pool: map[uint64]string{}}
	p.funds = app.BankKeeper.GetBalance(cctx, who.Bytes(), fxtypes.DefaultDenom).Amount.BigInt()
	p.shares = e.sharesOf(cctx, who)
	p.unbond, p.shares1 = e.unbondAll(cctx, who), e.rawOn1(cctx, who)
	q := distrkeeper.NewQuerier(app.DistrKeeper)
	for _, v := range e.vals {
		if r, err := q.DelegationRewards(cctx, &distrtypes.QueryDelegationRewardsRequest{DelegatorAddress: sdk.AccAddress(who.Bytes()).String(), ValidatorAddress: v}); err == nil {
			p.funds = new(big.Int).Add(p.funds, r.Rewards.AmountOf(fxtypes.DefaultDenom).TruncateInt().BigInt())
		}
	}
	for _, sp := range spenders {
		p.allow = append(p.allow, e.allowance(cctx, who, sp))
	}
	for _, tx := range app.EthKeeper.GetUnbatchedTransactions(cctx) {
		if tx.Sender == sdk.AccAddress(who.Bytes()).String() {
			p.pool[tx.Id] = tx.Token.Amount.Add(tx.Fee.Amount).String()
		}
	}
	return p
}

// ---------------------------------------------------------------------------------------------------------
// governance switch lists

type sw struct {
	class   string
	entries []string
}

// shouldBlock states the property: some entry, in any letter case, is the address or address/methodId
func shouldBlock(entries []string, addr common.Address, mid string) bool {
	a := strings.ToLower(addr.Hex())
	for _, en := range entries {
		l := strings.ToLower(en)
		if l == a || l == a+"/"+strings.ToLower(mid) {
			return true
		}
	}
	return false
}

func dedup(xs []string) []string {
	seen := map[string]bool{}
	var out []string
	for _, x := range xs {
		if !seen[x] && !strings.ContainsAny(x, ", \t") {
			seen[x] = true
			out = append(out, x)
		}
	}
	return out
}

func switchLists(rng *rand.Rand, to common.Address, mid string, otherAddr common.Address, otherMids []string, nRandom int) []sw {
	addrLower := strings.ToLower(to.Hex())
	mixed := []byte(addrLower + "/" + mid)
	for i := range mixed {
		if rng.Intn(2) == 0 && mixed[i] >= 'a' && mixed[i] <= 'f' {
			mixed[i] -= 32
		}
	}
	om := func(i int) string { return addrLower + "/" + otherMids[i%len(otherMids)] }
	oa := strings.ToLower(otherAddr.Hex())
	up := "0X" + strings.ToUpper(addrLower[2:])
	sws := []sw{
		{"none", nil},
		{"addr-lower", []string{addrLower}},
		{"addr-checksum", []string{to.Hex()}},
		{"addr-upper", []string{up}},
		{"addr-method", []string{addrLower + "/" + mid}},
		{"addr-method-upper", []string{up + "/" + strings.ToUpper(mid)}},
		{"addr-method-mixed", []string{string(mixed)}},
		{"other-method", []string{addrLower + "/deadbeef"}},
		{"other-addr", []string{oa}},
		{"no-0x", []string{addrLower[2:]}},
		{"addr-method-0x", []string{addrLower + "/0x" + mid}},
		{"many", []string{oa + "/" + mid, "junk", to.Hex() + "/" + strings.ToUpper(mid)}},
		// several entries for ONE precompile address: the matching one is not the first
		{"m:othermethod,method", []string{om(0), addrLower + "/" + mid}},
		{"m:method,othermethod", []string{addrLower + "/" + mid, om(0)}},
		{"m:othermethod,addr", []string{om(0), addrLower}},
		{"m:othermethod,othermethod,method", []string{om(0), om(1), addrLower + "/" + mid}},
		{"m:othermethod,otheraddr,METHOD", []string{om(1), oa, up + "/" + strings.ToUpper(mid)}},
		{"m:othermethod,othermethod", []string{om(0), om(1)}},
		{"m:otheraddr,othermethod,junk", []string{oa, om(2), "junk/" + mid}},
		{"m:prefix,suffix", []string{addrLower + "/", addrLower + "/" + mid + "00", addrLower + "0", "/" + mid}},
	}
	poolE := []string{addrLower, up, addrLower + "/" + mid, string(mixed), om(0), om(1), om(2), om(3), oa, oa + "/" + mid, "junk", "",
		addrLower + "/", addrLower + "/" + mid + "00", addrLower[:len(addrLower)-1], mid, "0x/" + mid}
	for i := 0; i < nRandom; i++ {
		k := 2 + rng.Intn(6)
		var l []string
		// biased: start with non-matching entries of the same address, put candidates later
		for j := 0; j < k; j++ {
			if j < k/2 {
				l = append(l, poolE[4+rng.Intn(4)])
			} else {
				l = append(l, poolE[rng.Intn(len(poolE))])
			}
		}
		if rng.Intn(3) == 0 {
			rng.Shuffle(len(l), func(a, b int) { l[a], l[b] = l[b], l[a] })
		}
		l = dedup(l)
		sws = append(sws, sw{fmt.Sprintf("rand%d", len(l)), l})
	}
	for i := range sws {
		sws[i].entries = dedup(sws[i].entries)
	}
	return sws
}

func (e *env) setSwitch(t *testing.T, ctx sdk.Context, entries []string) bool {
	if entries == nil {
		return true
	}
	msg := &fxgovtypes.MsgUpdateSwitchParams{Authority: e.gov, Params: fxgovtypes.SwitchParams{DisablePrecompiles: entries}}
	if _, err := e.s.App.MsgServiceRouter().Handler(msg)(ctx, msg); err != nil {
		return false
	}
	return true
}

func entStr(entries []string) string {
	if len(entries) == 0 {
		return "-"
	}
	var out []string
	for _, x := range entries {
		if x == "" {
			x = " " // not equal to any address; keeps the position
		}
		out = append(out, x)
	}
	return strings.Join(out, ",")
}

// ---------------------------------------------------------------------------------------------------------
// phase 1: dispatch

type callSpec struct {
	method string
	to     common.Address
	data   []byte
	value  *big.Int
	writer bool
	moved  *big.Int // shares moved from the victim (transferFromShares)
	vclass string   // payable methods: how msg.value relates to what the arguments ask for
}

func (e *env) calls(rng *rand.Rand, victim common.Address) []callSpec {
	sabi, cabi := fxstakingtypes.GetABI(), crosschaintypes.GetABI()
	v0, v1 := e.vals[0], e.vals[1]
	amt := func(k int64) *big.Int { return new(big.Int).Mul(big.NewInt(k+int64(rng.Intn(50))), big.NewInt(1e15)) }
	mk := func(to common.Address, writer bool, value *big.Int, m string, args ...interface{}) callSpec {
		ab := sabi
		if to == e.cross {
			ab = cabi
		}
		d, err := ab.Pack(m, args...)
		if err != nil {
			panic(err)
		}
		return callSpec{method: m, to: to, data: d, value: value, writer: writer}
	}
	ext := helpers.GenExternalAddr(ethtypes.ModuleName)
	tfs := amt(10)
	list := []callSpec{
		mk(e.staking, true, nil, "delegateV2", v0, amt(1000)),
		mk(e.staking, true, nil, "undelegateV2", v0, amt(10)),
		mk(e.staking, true, nil, "redelegateV2", v0, v1, amt(10)),
		mk(e.staking, true, nil, "withdraw", v0),
		mk(e.staking, true, nil, "approveShares", v0, victim, amt(5)),
		mk(e.staking, true, nil, "transferShares", v0, victim, amt(10)),
		mk(e.staking, true, nil, "transferFromShares", v0, victim, e.x, tfs),
		mk(e.staking, true, nil, "transferFromShares", v0, victim, victim, tfs),
		mk(e.staking, true, nil, "transferFromShares", v0, e.signer.Address(), e.x, tfs), // from = tx origin
		mk(e.staking, false, nil, "delegation", v0, victim),
		mk(e.staking, false, nil, "allowanceShares", v0, victim, e.x),
		mk(e.cross, true, big.NewInt(1010), "crossChain", common.Address{}, ext, big.NewInt(1000), big.NewInt(10), fxtypes.MustStrToByte32(ethtypes.ModuleName), ""),
		mk(e.cross, true, nil, "cancelSendToExternal", ethtypes.ModuleName, new(big.Int).SetUint64(e.vTx[0])), // somebody else's withdrawal
		mk(e.cross, true, nil, "cancelSendToExternal", ethtypes.ModuleName, new(big.Int).SetUint64(e.xTx[0])),
		mk(e.cross, true, big.NewInt(7), "increaseBridgeFee", ethtypes.ModuleName, new(big.Int).SetUint64(e.vTx[1]), common.Address{}, big.NewInt(7)),
		mk(e.cross, true, big.NewInt(7), "increaseBridgeFee", ethtypes.ModuleName, new(big.Int).SetUint64(e.xTx[1]), common.Address{}, big.NewInt(7)),
		mk(e.cross, true, big.NewInt(2000), "bridgeCall", ethtypes.ModuleName, victim, []common.Address{}, []*big.Int{}, victim, []byte{1}, big.NewInt(0), []byte{}),
		mk(e.cross, true, nil, "executeClaim", ethtypes.ModuleName, big.NewInt(424242)),
		mk(e.cross, false, nil, "hasOracle", ethtypes.ModuleName, victim),
	}
	list[6].moved, list[7].moved, list[8].moved = tfs, tfs, tfs
	// value-carrying calls: msg.value below / equal / above what the arguments ask the method to take
	b32 := fxtypes.MustStrToByte32(ethtypes.ModuleName)
	cc := func(class string, value, amount, fee int64) {
		c := mk(e.cross, true, big.NewInt(value), "crossChain", common.Address{}, ext, big.NewInt(amount), big.NewInt(fee), b32, "")
		c.vclass = class
		list = append(list, c)
	}
	a := int64(500 + rng.Intn(500))
	cc("value=amount+fee", a+10, a, 10)
	cc("value=amount+fee-1", a+9, a, 10)
	cc("value=amount+fee+1", a+11, a, 10)
	cc("value=1,amount=residual-balance", 1, 777_000, 1)
	cc("value=1,amount=part-of-residual", 1, int64(1000+rng.Intn(5000)), 1)
	cc("value>>amount+fee", 50_000, a, 10)
	cc("value=fee,amount>0", 10, a, 10)
	ibf := func(class string, value, fee int64, id uint64) {
		c := mk(e.cross, true, big.NewInt(value), "increaseBridgeFee", ethtypes.ModuleName, new(big.Int).SetUint64(id), common.Address{}, big.NewInt(fee))
		c.vclass = class
		list = append(list, c)
	}
	ibf("value=fee-1", 6, 7, e.xTx[1])
	ibf("value=fee+1", 8, 7, e.xTx[1])
	ibf("value=1,fee=large", 1, 5000, e.vTx[1])
	bc := mk(e.cross, true, big.NewInt(int64(1+rng.Intn(3000))), "bridgeCall", ethtypes.ModuleName, victim, []common.Address{}, []*big.Int{}, victim, []byte{1}, big.NewInt(0), []byte{})
	bc.vclass = "any"
	list = append(list, bc)
	return list
}

func methodIds(to common.Address, staking common.Address) []string {
	ab := crosschaintypes.GetABI()
	if to == staking {
		ab = fxstakingtypes.GetABI()
	}
	var names []string
	for n := range ab.Methods {
		names = append(names, n)
	}
	sort.Strings(names)
	var ids []string
	for _, n := range names {
		ids = append(ids, hex.EncodeToString(ab.Methods[n].ID))
	}
	return ids
}

func otherMids(all []string, mid string) []string {
	var out []string
	for _, m := range all {
		if m != mid {
			out = append(out, m)
		}
	}
	return out
}

func errKind(s string) string {
	switch {
	case s == "":
		return "ran"
	case strings.Contains(s, "write protection"):
		return "blocked:readonly"
	case strings.Contains(s, "is disabled"):
		return "blocked:disabled"
	default:
		return "ran" // dispatched; the method itself returned an error
	}
}

// passive holders: the precompile accounts themselves and the module accounts coins are routed through.  None of them is
// ever the direct caller, so no call may reduce what they held before it.  For the crosschain (eth) module the coins that
// back queued withdrawals are subtracted: cancelling one's own withdrawal legitimately releases exactly its escrow.
type holder struct {
	name   string
	addr   common.Address
	escrow bool
}

func (e *env) passiveHolders() []holder {
	return []holder{
		{"the staking precompile account " + e.staking.Hex(), e.staking, false},
		{"the crosschain precompile account " + e.cross.Hex(), e.cross, false},
		{"module account evm", common.BytesToAddress(authtypes.NewModuleAddress(evmtypes.ModuleName)), false},
		{"module account erc20", common.BytesToAddress(authtypes.NewModuleAddress(erc20types.ModuleName)), false},
		{"module account eth (balance minus escrow of queued withdrawals)", common.BytesToAddress(authtypes.NewModuleAddress(ethtypes.ModuleName)), true},
	}
}

func (e *env) holderFunds(ctx sdk.Context) []*big.Int {
	var out []*big.Int
	for _, h := range e.passiveHolders() {
		b := e.s.App.BankKeeper.GetBalance(ctx, h.addr.Bytes(), fxtypes.DefaultDenom).Amount.BigInt()
		if h.escrow {
			for _, tx := range e.s.App.EthKeeper.GetUnbatchedTransactions(ctx) {
				b = new(big.Int).Sub(b, tx.Token.Amount.Add(tx.Fee.Amount).BigInt())
			}
		}
		out = append(out, b)
	}
	return out
}

func (e *env) compareHolders(out *hx.Out, before, after []*big.Int, desc string) {
	for i, h := range e.passiveHolders() {
		if after[i].Cmp(before[i]) < 0 {
			violate(out, fmt.Sprintf("coins of a non-caller (%s) reduced by %s (%s -> %s): %s", h.name, new(big.Int).Sub(before[i], after[i]), before[i], after[i], desc))
		}
	}
}

// comparePortfolios: account `who` was NOT the direct caller of the op described by desc.
// tfsFrom: the op was transferFromShares(from = who, shares = moved) by spender number spIdx (index into spenders), else moved == nil.
func comparePortfolios(out *hx.Out, who string, pv, pa portfolio, moved *big.Int, spIdx int, succeeded bool, desc string) {
	if pa.funds.Cmp(pv.funds) < 0 {
		violate(out, fmt.Sprintf("funds of a non-caller (%s) reduced by %s (%s -> %s)", who, desc, pv.funds, pa.funds))
	}
	if pv.unbond != nil && pa.unbond != nil && pa.unbond.Cmp(pv.unbond) < 0 {
		violate(out, fmt.Sprintf("unbonding entries of a non-caller (%s) reduced by %s (%s -> %s tokens)", who, desc, pv.unbond, pa.unbond))
	}
	if pv.shares1 != nil && pa.shares1 != nil && pa.shares1.Cmp(pv.shares1) < 0 {
		violate(out, fmt.Sprintf("delegation of a non-caller (%s) with the redelegation destination (validator 1) reduced by %s (%s -> %s, 10^-18 shares)", who, desc, pv.shares1, pa.shares1))
	}
	drop := new(big.Int).Sub(pv.shares, pa.shares)
	if drop.Sign() > 0 {
		if moved == nil || drop.Cmp(pv.allow[spIdx]) > 0 || drop.Cmp(moved) > 0 {
			violate(out, fmt.Sprintf("shares of a non-caller (%s) reduced by %s beyond what it allowed: allowance before %s, requested %v: %s", who, drop, pv.allow[spIdx], moved, desc))
		}
	}
	for i := range pv.allow {
		ad := new(big.Int).Sub(pv.allow[i], pa.allow[i])
		switch {
		case moved != nil && i == spIdx && succeeded:
			if ad.Cmp(moved) != 0 {
				violate(out, fmt.Sprintf("allowance granted by a non-caller (%s) not reduced by exactly the amount moved: allowance before %s after %s, moved %s: %s", who, pv.allow[i], pa.allow[i], moved, desc))
			}
			if moved.Cmp(pv.allow[i]) > 0 {
				violate(out, fmt.Sprintf("more than the allowance moved from a non-caller (%s): allowance before %s, moved %s: %s", who, pv.allow[i], moved, desc))
			}
		case ad.Sign() != 0:
			violate(out, fmt.Sprintf("allowance granted by a non-caller (%s) changed without a transfer by that spender (%s -> %s): %s", who, pv.allow[i], pa.allow[i], desc))
		}
	}
	var ids []int
	for id := range pv.pool {
		ids = append(ids, int(id))
	}
	sort.Ints(ids)
	for _, id := range ids {
		av, ok := pa.pool[uint64(id)]
		if !ok {
			violate(out, fmt.Sprintf("queued withdrawal %d of a non-caller (%s) cancelled by %s", id, who, desc))
		} else if b, _ := new(big.Int).SetString(pv.pool[uint64(id)], 10); b != nil {
			a2, _ := new(big.Int).SetString(av, 10)
			if a2.Cmp(b) < 0 {
				violate(out, fmt.Sprintf("queued withdrawal %d of a non-caller (%s) reduced by %s", id, who, desc))
			}
		}
	}
}

func phaseDispatch(t *testing.T, e *env, rng *rand.Rand, out *hx.Out) {
	app := e.s.App
	victim := e.victim.Address()
	origin := e.signer.Address()
	warm := []common.Address{e.staking, e.cross}
	spenders := []common.Address{e.x, e.y}
	rounds := hx.N(4, 40)
	for r := 0; r < rounds; r++ {
		out.Reset()
		for ci, cs := range e.calls(rng, victim) {
			mid := hex.EncodeToString(cs.data[:4])
			otherAddr := e.staking
			if cs.to == e.staking {
				otherAddr = e.cross
			}
			tfsFrom := victim
			if ci == 8 {
				tfsFrom = origin
			}
			sws := switchLists(rng, cs.to, mid, otherAddr, otherMids(methodIds(cs.to, e.staking), mid), hx.N(4, 12))
			for _, kind := range []evmx.Kind{evmx.KCall, evmx.KStatic, evmx.KDelegate, evmx.KCallCode} {
				for _, w := range sws {
					if w.class != "none" && kind != evmx.KCall && rng.Intn(4) != 0 {
						continue
					}
					if cs.vclass != "" && (w.class != "none" || kind != evmx.KCall) && rng.Intn(8) != 0 {
						continue
					}
					var allowances []*big.Int
					if cs.moved == nil {
						allowances = []*big.Int{nil}
					} else if w.class == "none" && kind == evmx.KCall {
						allowances = []*big.Int{nil, big.NewInt(3e15), new(big.Int).Sub(cs.moved, big.NewInt(1)), cs.moved, new(big.Int).Add(cs.moved, big.NewInt(1)),
							new(big.Int).Mul(big.NewInt(1_000_000), big.NewInt(1e15)), maxU256, new(big.Int).Sub(maxU256, big.NewInt(1))}
					} else {
						allowances = []*big.Int{nil, maxU256}
					}
					for _, allowance := range allowances {
						cctx, _ := e.s.Ctx.CacheContext()
						if allowance != nil {
							app.StakingKeeper.SetAllowance(cctx, e.s.ValAddr[0], tfsFrom.Bytes(), e.x.Bytes(), allowance)
						}
						if !e.setSwitch(t, cctx, w.entries) {
							out.Count("switch-list-rejected")
							continue
						}
						nd := &evmx.Node{Op: "pre", ID: 1, Kind: kind, To: cs.to, Data: cs.data, Swallow: true}
						if kind.HasValue() {
							nd.Value = cs.value
						}
						if err := evmx.InstallTree(cctx, app, e.x, []*evmx.Node{nd}); err != nil {
							t.Fatal(err)
						}
						before := e.dump(cctx)
						pv := e.portfolioOf(cctx, victim, spenders)
						po := e.portfolioOf(cctx, origin, spenders)
						hb := e.holderFunds(cctx)
						tx, err := evmx.SignedTx(cctx, app, e.signer, e.x, nil, nil, 3_000_000, warm)
						if err != nil {
							t.Fatal(err)
						}
						tr := evmx.NewTracer()
						var res *evmtypes.MsgEthereumTxResponse
						if pr := hx.Try(func() error { res, err = evmx.SendTraced(cctx, app, tx, tr); return nil }); pr != "ok" {
							violate(out, fmt.Sprintf("precompile call panicked (%s): method=%s kind=%s switch=%s", pr, cs.method, kind, w.class))
							continue
						}
						if err != nil || res.Failed() || len(tr.Frames) < 2 {
							t.Fatalf("unexpected outer failure: %v %v", err, res)
						}
						obs := errKind(tr.Frames[1].Err)
						succeeded := tr.Frames[1].Err == ""
						after := e.dump(cctx)
						pa := e.portfolioOf(cctx, victim, spenders)
						poa := e.portfolioOf(cctx, origin, spenders)
						changed := hx.DiffDump(before, after)
						wr := 0
						if cs.writer {
							wr = 1
						}
						ent := entStr(w.entries)
						out.Emit(fmt.Sprintf("disp %s %s %s %d %s %s", kind, cs.method, mid, wr, cs.to.Hex(), ent), obs)
						out.Count(fmt.Sprintf("%s:%s", kind, obs))
						match := shouldBlock(w.entries, cs.to, mid)
						swc := w.class
						if strings.HasPrefix(swc, "rand") {
							swc = fmt.Sprintf("rand:match=%v", match)
							out.Count(fmt.Sprintf("switch:entries=%d:match=%v", len(w.entries), match))
						}
						out.Nontrivial(fmt.Sprintf("%s|%d|%s|%s|%s|%v", cs.method, ci, kind, swc, obs, succeeded))
						desc := fmt.Sprintf("method=%s kind=%s switch=%s", cs.method, kind, w.class)
						if obs != "ran" && len(changed) > 0 {
							violate(out, "blocked precompile call changed Cosmos stores "+fmt.Sprint(changed)+" "+desc)
						}
						if match && obs != "blocked:disabled" && obs != "blocked:readonly" {
							violate(out, fmt.Sprintf("disabled precompile executed: %s entries=%s (%d entries, the matching one is number %d)", desc, ent, len(w.entries), firstMatch(w.entries, cs.to, mid)))
						}
						if kind != evmx.KCall && cs.writer && len(changed) > 0 {
							violate(out, "state-changing method changed state through "+kind.String()+": "+desc)
						}
						// third-party portfolios: the victim and the tx origin (neither is the direct caller x)
						var mv, mo *big.Int
						if cs.moved != nil && tfsFrom == victim {
							mv = cs.moved
						}
						if cs.moved != nil && tfsFrom == origin {
							mo = cs.moved
						}
						if allowance != nil {
							out.Count("dispatch:tfs-allowance:" + allowanceClass(allowance, cs.moved))
						}
						comparePortfolios(out, "third party", pv, pa, mv, 0, succeeded, desc)
						comparePortfolios(out, "tx origin", po, poa, mo, 0, succeeded, desc)
						e.compareHolders(out, hb, e.holderFunds(cctx), fmt.Sprintf("%s msg.value=%v", desc, cs.value))
						if cs.vclass != "" {
							out.Count("dispatch:value:" + cs.method + ":" + cs.vclass + ":" + map[bool]string{true: "ok", false: "err"}[succeeded])
						}
					}
				}
			}
			// (5) inherited static context: x --STATICCALL--> y --CALL--> precompile
			if cs.writer && (cs.value == nil || cs.value.Sign() == 0) {
				cctx, _ := e.s.Ctx.CacheContext()
				inner := &evmx.Node{Op: "pre", ID: 2, Kind: evmx.KCall, To: cs.to, Data: cs.data, Swallow: true, Value: new(big.Int)}
				outer := &evmx.Node{Op: "call", ID: 1, Kind: evmx.KStatic, To: e.y, Swallow: true, Body: []*evmx.Node{inner}}
				if err := evmx.InstallTree(cctx, app, e.x, []*evmx.Node{outer}); err != nil {
					t.Fatal(err)
				}
				before := e.dump(cctx)
				tx, _ := evmx.SignedTx(cctx, app, e.signer, e.x, nil, nil, 3_000_000, warm)
				tr := evmx.NewTracer()
				res, err := evmx.SendTraced(cctx, app, tx, tr)
				if err != nil || res.Failed() {
					t.Fatalf("unexpected outer failure: %v", err)
				}
				changed := hx.DiffDump(before, e.dump(cctx))
				out.Stats.Evaluations++
				ran := len(tr.Frames) >= 3 && tr.Frames[2].Err == ""
				out.Count(fmt.Sprintf("nested-static:%s:ran=%v:changed=%v", cs.method, ran, len(changed) > 0))
				if len(changed) > 0 {
					out.ViolateWith(fmt.Sprintf("static context: state-changing method %s executed and changed %v when reached by a plain CALL from a contract that was itself entered through STATICCALL", cs.method, changed),
						[]string{"# x --STATICCALL--> y --CALL(value 0)--> precompile." + cs.method, "# calldata " + hex.EncodeToString(cs.data)})
				}
			}
		}
	}
}

// violate records a monitor violation, at most 3 per class (description with the numbers removed), so that one defect
// cannot fill the report and hide another one
var violClasses = map[string]int{}
var digitsRe = regexp.MustCompile(`[0-9]+`)

func violate(out *hx.Out, desc string) {
	k := digitsRe.ReplaceAllString(desc, "N")
	if len(k) > 90 {
		k = k[:90]
	}
	violClasses[k]++
	if violClasses[k] <= 3 {
		out.Violate(desc)
	}
}

// malformed stream: inputs the dispatcher must reject before any method runs (no store may change, nobody's portfolio moves)
func phaseMalformed(t *testing.T, e *env, rng *rand.Rand, out *hx.Out) {
	app := e.s.App
	victim := e.victim.Address()
	warm := []common.Address{e.staking, e.cross}
	spenders := []common.Address{e.x, e.y}
	out.Reset()
	for _, to := range []common.Address{e.staking, e.cross} {
		ids := methodIds(to, e.staking)
		valid, _ := hex.DecodeString(ids[rng.Intn(len(ids))])
		junk := make([]byte, 36)
		rng.Read(junk)
		inputs := []struct {
			name string
			data []byte
		}{
			{"empty", nil}, {"short1", []byte{valid[0]}}, {"short3", valid[:3]}, {"exactly4", valid},
			{"unknown-id", append([]byte{0xde, 0xad, 0xbe, 0xef}, junk[:32]...)}, {"unknown-id-long", append([]byte{0x00, 0x00, 0x00, 0x01}, junk...)},
		}
		for _, in := range inputs {
			for _, kind := range []evmx.Kind{evmx.KCall, evmx.KStatic, evmx.KDelegate, evmx.KCallCode} {
				cctx, _ := e.s.Ctx.CacheContext()
				nd := &evmx.Node{Op: "pre", ID: 1, Kind: kind, To: to, Data: in.data, Swallow: true}
				if err := evmx.InstallTree(cctx, app, e.x, []*evmx.Node{nd}); err != nil {
					t.Fatal(err)
				}
				before := e.dump(cctx)
				pv := e.portfolioOf(cctx, victim, spenders)
				hb := e.holderFunds(cctx)
				tx, err := evmx.SignedTx(cctx, app, e.signer, e.x, nil, nil, 3_000_000, warm)
				if err != nil {
					t.Fatal(err)
				}
				tr := evmx.NewTracer()
				var res *evmtypes.MsgEthereumTxResponse
				desc := fmt.Sprintf("malformed input %s (%d bytes) kind=%s precompile=%s", in.name, len(in.data), kind, to.Hex())
				if pr := hx.Try(func() error { res, err = evmx.SendTraced(cctx, app, tx, tr); return nil }); pr != "ok" {
					violate(out, "precompile call panicked ("+pr+"): "+desc)
					continue
				}
				if err != nil || res.Failed() || len(tr.Frames) < 2 {
					t.Fatalf("unexpected outer failure: %v %v", err, res)
				}
				obs := "ran"
				if et := tr.Frames[1].Err; strings.Contains(et, "invalid input") || strings.Contains(et, "unknown method") {
					obs = "unknown-method"
				}
				out.Emit(fmt.Sprintf("disp %s malformed:%s %s 0 %s -", kind, in.name, hx.Hex(in.data[:min(len(in.data), 4)]), to.Hex()), obs)
				out.Count("malformed:" + in.name + ":" + obs)
				out.Nontrivial("malformed|" + in.name + "|" + kind.String() + "|" + obs)
				if changed := hx.DiffDump(before, e.dump(cctx)); len(changed) > 0 {
					violate(out, "malformed precompile input changed Cosmos stores "+fmt.Sprint(changed)+": "+desc)
				}
				comparePortfolios(out, "third party", pv, e.portfolioOf(cctx, victim, spenders), nil, 0, false, desc)
				e.compareHolders(out, hb, e.holderFunds(cctx), desc)
			}
		}
	}
}

func firstMatch(entries []string, addr common.Address, mid string) int {
	for i := range entries {
		if shouldBlock(entries[i:i+1], addr, mid) {
			return i + 1
		}
	}
	return 0
}

func allowanceClass(a, moved *big.Int) string {
	switch {
	case a.Cmp(maxU256) == 0:
		return "2^256-1"
	case a.Cmp(new(big.Int).Sub(maxU256, big.NewInt(1))) == 0:
		return "2^256-2"
	case moved != nil && a.Cmp(moved) == 0:
		return "=amount"
	case moved != nil && a.Cmp(moved) < 0:
		return "<amount"
	default:
		return ">amount"
	}
}

// ---------------------------------------------------------------------------------------------------------
// phase 2: histories

type acct struct {
	id     int
	addr   common.Address
	signer *helpers.Signer // nil for contracts / passive accounts
}

type route struct {
	name   string
	caller int // account id of the direct caller of the precompile
	origin int
}

func hStatus(errText string) string {
	switch {
	case errText == "":
		return "ran:ok"
	case strings.Contains(errText, "write protection"):
		return "blocked:readonly"
	case strings.Contains(errText, "is disabled"):
		return "blocked:disabled"
	case strings.Contains(errText, "exceeds allowance"):
		return "ran:err:allowance"
	case strings.Contains(errText, "insufficient shares"), strings.Contains(errText, "no delegation"):
		return "ran:err:shares"
	default:
		return "ran:err"
	}
}

func phaseHistory(t *testing.T, e *env, rng *rand.Rand, out *hx.Out) {
	app := e.s.App
	// 6 and 7: the precompile accounts themselves, passive holders (never callers, never picked as from / to / spender)
	accts := []acct{{1, e.x, nil}, {2, e.y, nil}, {3, e.signer.Address(), e.signer}, {4, e.victim.Address(), e.victim}, {5, e.other, nil},
		{6, e.staking, nil}, {7, e.cross, nil}}
	byID := map[int]acct{}
	var addrs []common.Address
	for _, a := range accts {
		byID[a.id] = a
		addrs = append(addrs, a.addr)
	}
	idOfBech := map[string]int{}
	for _, a := range accts {
		idOfBech[sdk.AccAddress(a.addr.Bytes()).String()] = a.id
	}
	routes := []route{{"signer>x", 1, 3}, {"signer>x>y", 2, 3}, {"signer", 3, 3}, {"victim", 4, 4}, {"victim>x", 1, 4}, {"victim>x>y", 2, 4}}
	warm := []common.Address{e.staking, e.cross}
	sabi, cabi := fxstakingtypes.GetABI(), crosschaintypes.GetABI()
	v0 := e.vals[0]
	stakingMids := methodIds(e.staking, e.staking)
	crossMids := methodIds(e.cross, e.staking)
	e15 := big.NewInt(1e15)
	seqs := hx.N(30, 240)
	opsPer := hx.N(40, 60)
	// corpus/C10/*.ops: witness histories (the `h …` lines of a replay file), each replayed first as its own sequence
	var corpus [][]string
	if dir := os.Getenv("VERIF_CORPUS"); dir != "" {
		files, _ := filepath.Glob(filepath.Join(dir, "*.ops"))
		sort.Strings(files)
		for _, f := range files {
			var hs []string
			for _, l := range hx.ReadLines(f) {
				if strings.HasPrefix(l, "h ") {
					hs = append(hs, l)
				}
			}
			if len(hs) > 0 {
				corpus = append(corpus, hs)
			}
		}
	}
	if rp := hx.ReplayFile(); rp != "" {
		var hs []string
		for _, l := range hx.ReadLines(rp) {
			if strings.HasPrefix(l, "h ") {
				hs = append(hs, l)
			}
		}
		if len(hs) > 0 {
			corpus = append([][]string{hs}, corpus...)
		}
	}
	out.Stats.Extra["corpus_sequences"] = len(corpus)
	seqs += len(corpus)
	for sq := 0; sq < seqs; sq++ {
		cctx, _ := e.s.Ctx.CacheContext()
		out.Reset()
		// scenario class: the validator has been SLASHED before the history starts (one share is worth less than one token), so
		// that "shares moved" and "tokens moved" differ in every allowance-consuming transfer; since round 4 the model world
		// carries the validator's rate (tokens, shares·10^18) and every delegation's fractional shares ("dust")
		slashed := false
		if sq >= len(corpus) && sq%3 == 2 {
			if val, err := app.StakingKeeper.GetValidator(cctx, e.s.ValAddr[0]); err == nil {
				cons, _ := val.GetConsAddr()
				pct := []int64{1, 10, 33, 50}[rng.Intn(4)]
				if r := hx.Try(func() error {
					_, err := app.StakingKeeper.Slash(cctx, cons, cctx.BlockHeight(), val.GetConsensusPower(app.StakingKeeper.PowerReduction(cctx)), sdkmath.LegacyNewDecWithPrec(pct, 2))
					return err
				}); r == "ok" {
					slashed = true
					out.Count(fmt.Sprintf("hist:sequence-on-slashed-validator:%d%%", pct))
				} else {
					out.Count("hist:slash-failed:" + r)
				}
			}
		}
		for _, a := range accts {
			out.Emit(fmt.Sprintf("set shares %d %s", a.id, e.sharesOf(cctx, a.addr)), "ok")
			if d := e.dustOf(cctx, a.addr); d.Sign() != 0 {
				out.Emit(fmt.Sprintf("set dust %d %s", a.id, d), "ok")
			}
			out.Emit(fmt.Sprintf("set bal %d %s", a.id, app.BankKeeper.GetBalance(cctx, a.addr.Bytes(), fxtypes.DefaultDenom).Amount), "ok")
			if u := e.unbondOn0(cctx, a.addr); u.Sign() != 0 {
				out.Emit(fmt.Sprintf("set unb %d %s", a.id, u), "ok")
			}
			if d := e.rawOn1(cctx, a.addr); d.Sign() != 0 {
				out.Emit(fmt.Sprintf("set dst %d %s", a.id, d), "ok")
			}
		}
		{
			vt, vs := e.valRate(cctx)
			out.Emit(fmt.Sprintf("set val %s %s", vt, vs), "ok")
		}
		var poolIDs []uint64
		maxID := uint64(0)
		for _, tx := range app.EthKeeper.GetUnbatchedTransactions(cctx) {
			if id, ok := idOfBech[tx.Sender]; ok {
				out.Emit(fmt.Sprintf("set pool %d %d %s", tx.Id, id, tx.Token.Amount.Add(tx.Fee.Amount)), "ok")
				poolIDs = append(poolIDs, tx.Id)
			}
			if tx.Id > maxID {
				maxID = tx.Id
			}
		}
		out.Emit(fmt.Sprintf("set nextid %d", maxID+1), "ok")
		// ghost: approved amount and moved total per (owner, spender) since the last approval
		type pair struct{ o, s int }
		approved := map[pair]*big.Int{}
		spent := map[pair]*big.Int{}
		undelegations := map[int]int{}
		redelegations := map[int]int{}
		var lastApproved *pair
		slashesLeft := 2
		nOps := opsPer
		if sq < len(corpus) {
			nOps = len(corpus[sq])
		}
		for k := 0; k < nOps; k++ {
			// round 5: the staking module slashes the validator BETWEEN two calls of the history (environment step `slash` of the
			// model, Model/C10Env.lean): allowances are counted in shares and must not be re-valued, nobody's delegation record,
			// unbonding entry or queued withdrawal may move, and the next delegate / undelegate / redelegate runs at the new rate
			if sq >= len(corpus) && slashesLeft > 0 && k > 0 && rng.Intn(12) == 0 {
				if val, err := app.StakingKeeper.GetValidator(cctx, e.s.ValAddr[0]); err == nil {
					cons, _ := val.GetConsAddr()
					pct := []int64{1, 5, 10, 33, 50}[rng.Intn(5)]
					pr := app.StakingKeeper.PowerReduction(cctx)
					power := val.GetConsensusPower(pr)
					if pct <= 10 && rng.Intn(4) == 0 {
						power *= 3 // evidence for a height at which the validator had more power (the burn stays below what it has now)
					}
					before := map[int]portfolio{}
					for _, a := range accts {
						before[a.id] = e.portfolioOf(cctx, a.addr, addrs)
					}
					if r := hx.Try(func() error {
						_, err := app.StakingKeeper.Slash(cctx, cons, cctx.BlockHeight(), power, sdkmath.LegacyNewDecWithPrec(pct, 2))
						return err
					}); r == "ok" {
						slashesLeft--
						slashed = true
						vt, vs := e.valRate(cctx)
						out.Emit(fmt.Sprintf("slash %d %s %d", power, pr, pct), fmt.Sprintf("vt=%s vs=%s", vt, vs))
						out.Count(fmt.Sprintf("hist:slash-between-calls:%d%%", pct))
						out.Nontrivial(fmt.Sprintf("h|slash|%d", pct))
						// the slash itself is not an act of any caller: every record of every account stays as it was
						for _, a := range accts {
							pa := e.portfolioOf(cctx, a.addr, addrs)
							pv := before[a.id]
							if pa.shares.Cmp(pv.shares) != 0 || pa.unbond.Cmp(pv.unbond) < 0 || pa.shares1.Cmp(pv.shares1) != 0 {
								out.Count("hist:slash-between-calls:touched-a-record")
							}
							for i := range pv.allow {
								if pv.allow[i].Cmp(pa.allow[i]) != 0 {
									violate(out, fmt.Sprintf("allowance granted by account %d changed by a slash of the validator (%s -> %s): allowances are counted in shares", a.id, pv.allow[i], pa.allow[i]))
								}
							}
						}
					} else {
						out.Count("hist:slash-between-calls-failed:" + r)
					}
				}
			}
			rt := routes[rng.Intn(len(routes))]
			caller := byID[rt.caller]
			kind := evmx.KCall
			if len(rt.name) > 6 && rng.Intn(7) == 0 { // contract routes only
				kind = []evmx.Kind{evmx.KStatic, evmx.KDelegate, evmx.KCallCode}[rng.Intn(3)]
			}
			sharesOf := func(id int) *big.Int { return e.sharesOf(cctx, byID[id].addr) }
			allowOf := func(o, s int) *big.Int { return e.allowance(cctx, byID[o].addr, byID[s].addr) }
			pickAmt := func(cands ...*big.Int) *big.Int {
				var ok []*big.Int
				for _, c := range cands {
					if c != nil && c.Sign() > 0 && c.Cmp(maxU256) <= 0 {
						ok = append(ok, c)
					}
				}
				if len(ok) == 0 {
					return big.NewInt(1)
				}
				return ok[rng.Intn(len(ok))]
			}
			small := func() *big.Int { return new(big.Int).Mul(big.NewInt(int64(1+rng.Intn(40))), e15) }
			plus := func(a *big.Int, d int64) *big.Int { return new(big.Int).Add(a, big.NewInt(d)) }
			// choose the method
			var method, argStr string
			var data []byte
			var value *big.Int
			to := e.staking
			var tfsFrom int
			var tfsAmt *big.Int
			var approveSp int
			var approveAmt *big.Int
			roll := rng.Intn(100)
			var entries []string
			scripted := sq < len(corpus)
			// round 4: delegate / undelegate / redelegate are drawn on slashed validators too (the model world knows the
			// validator's exchange rate: fractional shares, sdk.Dec rounding) — and more often there
			if slashed && !scripted && roll >= 83 && rng.Intn(2) == 0 {
				roll = 70 + rng.Intn(9)
			}
			if scripted {
				// h <kind> <caller> <origin> <addr> <mid> <entries|-> <method> <args…>
				f := strings.Fields(corpus[sq][k])
				if len(f) < 8 {
					t.Fatalf("corpus line: %q", corpus[sq][k])
				}
				kind = map[string]evmx.Kind{"call": evmx.KCall, "staticcall": evmx.KStatic, "delegatecall": evmx.KDelegate, "callcode": evmx.KCallCode}[f[1]]
				found := false
				for _, r := range routes {
					if fmt.Sprint(r.caller) == f[2] && fmt.Sprint(r.origin) == f[3] {
						rt, found = r, true
					}
				}
				if !found {
					t.Fatalf("corpus line: no route for caller %s origin %s", f[2], f[3])
				}
				caller = byID[rt.caller]
				if f[6] != "-" {
					entries = strings.Split(f[6], ",")
				}
				method = f[7]
				args := f[8:]
				num := func(i int) *big.Int {
					if i >= len(args) {
						t.Fatalf("corpus line: missing argument: %q", corpus[sq][k])
					}
					n, ok := new(big.Int).SetString(args[i], 10)
					if !ok {
						t.Fatalf("corpus line: bad number %q", args[i])
					}
					return n
				}
				acc := func(i int) int {
					n := int(num(i).Int64())
					if _, ok := byID[n]; !ok {
						t.Fatalf("corpus line: bad account %d", n)
					}
					return n
				}
				argStr = strings.Join(args, " ")
				switch method {
				case "approveShares":
					approveSp, approveAmt = acc(0), num(1)
					data, _ = sabi.Pack(method, v0, byID[approveSp].addr, approveAmt)
				case "transferFromShares":
					tfsFrom, tfsAmt = acc(0), num(2)
					data, _ = sabi.Pack(method, v0, byID[tfsFrom].addr, byID[acc(1)].addr, tfsAmt)
				case "transferShares":
					data, _ = sabi.Pack(method, v0, byID[acc(0)].addr, num(1))
				case "delegateV2", "undelegateV2":
					data, _ = sabi.Pack(method, v0, num(0))
				case "redelegateV2":
					data, _ = sabi.Pack(method, v0, e.vals[1], num(0))
				case "withdraw":
					data, _ = sabi.Pack(method, v0)
				case "cancelSendToExternal":
					to = e.cross
					data, _ = cabi.Pack(method, ethtypes.ModuleName, num(0))
				case "increaseBridgeFee":
					to = e.cross
					value = num(1)
					if len(args) > 2 {
						value = num(2)
					} else {
						argStr += " " + value.String()
					}
					data, _ = cabi.Pack(method, ethtypes.ModuleName, num(0), common.Address{}, num(1))
				case "crossChain":
					to = e.cross
					value = num(2)
					data, _ = cabi.Pack(method, common.Address{}, helpers.GenExternalAddr(ethtypes.ModuleName), num(0), num(1), fxtypes.MustStrToByte32(ethtypes.ModuleName), "")
				case "view":
					if argStr == "allowanceShares" {
						data, _ = sabi.Pack("allowanceShares", v0, byID[4].addr, byID[1].addr)
					} else {
						argStr = "delegation"
						data, _ = sabi.Pack("delegation", v0, byID[4].addr)
					}
				default:
					t.Fatalf("corpus line: unknown method %q", method)
				}
				roll = -1
				out.Count("hist:corpus-op")
			}
			// after an approval, prefer the spender's transferFromShares for that pair
			if !scripted && lastApproved != nil && rng.Intn(3) != 0 {
				var cands []route
				for _, r := range routes {
					if r.caller == lastApproved.s {
						cands = append(cands, r)
					}
				}
				if len(cands) > 0 {
					rt = cands[rng.Intn(len(cands))]
					caller = byID[rt.caller]
					if kind != evmx.KCall && len(rt.name) <= 6 {
						kind = evmx.KCall
					}
					roll = 30
				}
			}
			switch {
			case roll < 0: // scripted
			case roll < 25:
				method = "approveShares"
				approveSp = 1 + rng.Intn(5)
				cs := sharesOf(caller.id)
				approveAmt = []*big.Int{new(big.Int), big.NewInt(1), small(), cs, plus(cs, 1), maxU256, plus(maxU256, -1), new(big.Int).Lsh(big.NewInt(1), 255), maxU256, small()}[rng.Intn(10)]
				data, _ = sabi.Pack(method, v0, byID[approveSp].addr, approveAmt)
				argStr = fmt.Sprintf("%d %s", approveSp, approveAmt)
				out.Count("hist:approve:" + allowanceClass(approveAmt, nil))
			case roll < 62:
				method = "transferFromShares"
				// state-aware: mostly (owner, spender) pairs with a live allowance, the spender reached through one of its routes
				type grant struct{ o, s int }
				var grants []grant
				for _, o := range accts {
					for _, sp := range accts[:4] {
						if o.id <= 5 && allowOf(o.id, sp.id).Sign() > 0 {
							grants = append(grants, grant{o.id, sp.id})
						}
					}
				}
				if lastApproved != nil && lastApproved.s == caller.id {
					tfsFrom = lastApproved.o
				} else if len(grants) > 0 && rng.Intn(6) != 0 {
					g := grants[rng.Intn(len(grants))]
					var cands []route
					// mostly: the grantee itself is the direct caller; sometimes: the grantee is only the tx origin and a
					// contract it called (which holds no grant) tries to use the grant on its behalf
					onBehalf := rng.Intn(4) == 0
					for _, r := range routes {
						if (!onBehalf && r.caller == g.s) || (onBehalf && r.origin == g.s && r.caller != g.s) {
							cands = append(cands, r)
						}
					}
					if len(cands) == 0 {
						cands = routes
					}
					if onBehalf {
						out.Count("hist:tfs:contract-on-behalf-of-grantee")
					}
					rt = cands[rng.Intn(len(cands))]
					caller = byID[rt.caller]
					if len(rt.name) <= 6 {
						kind = evmx.KCall
					}
					tfsFrom = g.o
				} else {
					tfsFrom = 1 + rng.Intn(5)
				}
				toID := 1 + rng.Intn(5)
				al, sh := allowOf(tfsFrom, caller.id), sharesOf(tfsFrom)
				lim := al
				if sh.Cmp(lim) < 0 {
					lim = sh
				}
				switch r := rng.Intn(20); {
				case r < 9 && lim.Sign() > 0: // within both bounds
					tfsAmt = pickAmt(big.NewInt(1), small(), small(), new(big.Int).Rsh(lim, 1), new(big.Int).Rsh(lim, 3), new(big.Int).Rsh(lim, 6))
					if tfsAmt.Cmp(lim) > 0 {
						tfsAmt = lim
					}
				case r < 12:
					tfsAmt = pickAmt(lim, al, plus(al, -1))
				default:
					tfsAmt = pickAmt(big.NewInt(1), small(), plus(al, 1), sh, plus(sh, 1), plus(lim, 1))
				}
				data, _ = sabi.Pack(method, v0, byID[tfsFrom].addr, byID[toID].addr, tfsAmt)
				argStr = fmt.Sprintf("%d %d %s", tfsFrom, toID, tfsAmt)
				out.Count("hist:tfs:allowance-" + allowanceClass(al, tfsAmt))
			case roll < 70:
				method = "transferShares"
				toID := 1 + rng.Intn(5)
				sh := sharesOf(caller.id)
				amt := pickAmt(big.NewInt(1), small(), small(), sh, plus(sh, 1), new(big.Int).Rsh(sh, 3))
				data, _ = sabi.Pack(method, v0, byID[toID].addr, amt)
				argStr = fmt.Sprintf("%d %s", toID, amt)
			case roll < 73 && redelegations[caller.id] < 3 && kind == evmx.KCall:
				// round 4: redelegate v0 -> v1 (v0 is never a destination, so no transitive-redelegation refusal; at most 3 per
				// delegator: the SDK keeps at most 7 entries per triple); amounts around what the caller has on v0
				method = "redelegateV2"
				sh := sharesOf(caller.id)
				amt := pickAmt(small(), small(), big.NewInt(1), sh, plus(sh, 1), new(big.Int).Rsh(sh, 2))
				data, _ = sabi.Pack(method, v0, e.vals[1], amt)
				argStr = amt.String()
				redelegations[caller.id]++
				switch {
				case amt.Cmp(sh) > 0:
					out.Count("hist:redelegate:more-than-delegated")
				case amt.Cmp(sh) == 0:
					out.Count("hist:redelegate:everything")
				default:
					out.Count("hist:redelegate:part")
				}
			case roll < 75:
				method = "delegateV2"
				amt := small()
				data, _ = sabi.Pack(method, v0, amt)
				argStr = amt.String()
			case roll < 79 && undelegations[caller.id] < 3 && kind == evmx.KCall:
				method = "undelegateV2"
				amt := small()
				data, _ = sabi.Pack(method, v0, amt)
				argStr = amt.String()
				undelegations[caller.id]++
			case roll < 83:
				method = "withdraw"
				data, _ = sabi.Pack(method, v0)
			case roll < 91 && len(poolIDs) > 0:
				method = "cancelSendToExternal"
				to = e.cross
				id := poolIDs[rng.Intn(len(poolIDs))]
				if rng.Intn(8) == 0 {
					id = 987654
				}
				data, _ = cabi.Pack(method, ethtypes.ModuleName, new(big.Int).SetUint64(id))
				argStr = fmt.Sprint(id)
			case roll < 94 && len(poolIDs) > 0:
				method = "increaseBridgeFee"
				to = e.cross
				id := poolIDs[rng.Intn(len(poolIDs))]
				fee := big.NewInt(int64(2 + rng.Intn(9)))
				value = fee
				vc := "value=fee"
				switch rng.Intn(8) {
				case 0:
					value, vc = plus(fee, -1), "value<fee"
				case 1:
					value, vc = plus(fee, 1), "value>fee"
				case 2:
					fee, value, vc = app.BankKeeper.GetBalance(cctx, e.cross.Bytes(), fxtypes.DefaultDenom).Amount.BigInt(), big.NewInt(1), "value=1,fee=residual-balance"
				}
				out.Count("hist:value:increaseBridgeFee:" + vc)
				data, _ = cabi.Pack(method, ethtypes.ModuleName, new(big.Int).SetUint64(id), common.Address{}, fee)
				argStr = fmt.Sprintf("%d %s %s", id, fee, value)
			case roll < 98:
				method = "crossChain"
				to = e.cross
				amt, fee := big.NewInt(int64(100+rng.Intn(5000))), big.NewInt(int64(1+rng.Intn(20)))
				sum := new(big.Int).Add(amt, fee)
				value = sum
				vc := "value=amount+fee"
				residual := app.BankKeeper.GetBalance(cctx, e.cross.Bytes(), fxtypes.DefaultDenom).Amount.BigInt()
				switch rng.Intn(10) {
				case 0:
					value, vc = plus(sum, -1), "value<amount+fee"
				case 1:
					value, vc = plus(sum, 1), "value>amount+fee"
				case 2:
					amt, value, vc = residual, fee, "value=fee,amount=residual-balance"
				case 3:
					amt, fee, value, vc = new(big.Int).Rsh(residual, uint(1+rng.Intn(4))), big.NewInt(1), big.NewInt(1), "value=1,amount=part-of-residual"
				case 4:
					value, vc = new(big.Int).Mul(sum, big.NewInt(10)), "value>>amount+fee"
				}
				out.Count("hist:value:crossChain:" + vc)
				data, _ = cabi.Pack(method, common.Address{}, helpers.GenExternalAddr(ethtypes.ModuleName), amt, fee, fxtypes.MustStrToByte32(ethtypes.ModuleName), "")
				argStr = fmt.Sprintf("%s %s %s", amt, fee, value)
			default:
				method = "view"
				if rng.Intn(2) == 0 {
					data, _ = sabi.Pack("allowanceShares", v0, byID[4].addr, byID[1].addr)
					argStr = "allowanceShares"
				} else {
					data, _ = sabi.Pack("delegation", v0, byID[4].addr)
					argStr = "delegation"
				}
			}
			if data == nil {
				t.Fatalf("pack %s failed", method)
			}
			lastApproved = nil
			mid := hex.EncodeToString(data[:4])
			// governance list: mostly none
			if !scripted && rng.Intn(8) == 0 {
				oa, om := e.cross, otherMids(stakingMids, mid)
				if to == e.cross {
					oa, om = e.staking, otherMids(crossMids, mid)
				}
				l := switchLists(rng, to, mid, oa, om, 3)
				entries = l[1+rng.Intn(len(l)-1)].entries
			}
			if !e.setSwitch(t, cctx, entriesOrEmpty(entries)) {
				entries = nil
				e.setSwitch(t, cctx, []string{})
			}
			// a call whose own frame returns normally but is dropped by the EVM afterwards (class: "granted / moved in a reverted frame")
			undo := !scripted && strings.HasSuffix(rt.name, ">y") && kind == evmx.KCall && method != "view" && rng.Intn(5) == 0
			// build the transaction along the route
			sender := byID[rt.origin].signer
			var tx *evmtypes.MsgEthereumTx
			var err error
			preFrame := 1
			switch rt.name {
			case "signer", "victim":
				tx, err = evmx.SignedTx(cctx, app, sender, to, value, data, 3_000_000, warm)
				preFrame = 0
			default:
				nd := &evmx.Node{Op: "pre", ID: 2, Kind: kind, To: to, Data: data, Swallow: true}
				if kind.HasValue() {
					nd.Value = value
				}
				nodes := []*evmx.Node{nd}
				if strings.HasSuffix(rt.name, ">y") {
					body := []*evmx.Node{nd}
					if undo {
						// the frame that made the call REVERTs afterwards; its caller catches that and the transaction succeeds
						body = append(body, &evmx.Node{Op: "revert", ID: 3})
					}
					nodes = []*evmx.Node{{Op: "call", ID: 1, Kind: evmx.KCall, To: e.y, Swallow: true, Body: body}}
					preFrame = 2
				}
				if err := evmx.InstallTree(cctx, app, e.x, nodes); err != nil {
					t.Fatal(err)
				}
				tx, err = evmx.SignedTx(cctx, app, sender, e.x, nil, nil, 3_000_000, warm)
			}
			if err != nil {
				t.Fatal(err)
			}
			// portfolios of everybody who is not the direct caller
			before := map[int]portfolio{}
			for _, a := range accts {
				if a.id != caller.id {
					before[a.id] = e.portfolioOf(cctx, a.addr, addrs)
				}
			}
			dumpBefore := e.dump(cctx)
			holdersBefore := e.holderFunds(cctx)
			tr := evmx.NewTracer()
			var res *evmtypes.MsgEthereumTxResponse
			desc := fmt.Sprintf("method=%s(%s) kind=%s route=%s step=%d", method, argStr, kind, rt.name, k)
			if pr := hx.Try(func() error { res, err = evmx.SendTraced(cctx, app, tx, tr); return nil }); pr != "ok" {
				violate(out, "precompile call panicked ("+pr+"): "+desc)
				break
			}
			if err != nil || len(tr.Frames) <= preFrame {
				t.Fatalf("unexpected failure: %v frames=%d %s", err, len(tr.Frames), desc)
			}
			if preFrame > 0 && res.Failed() {
				t.Fatalf("outer frame failed: %s %s", res.VmError, desc)
			}
			errText := tr.Frames[preFrame].Err
			if preFrame == 0 && res.Failed() && errText == "" {
				errText = res.VmError
			}
			status := hStatus(errText)
			if method != "transferShares" && method != "transferFromShares" && strings.HasPrefix(status, "ran:err") {
				status = "ran:err"
			}
			if undo && status == "ran:ok" {
				status = "undone"
			}
			succeeded := status == "ran:ok"
			// observation
			var obs string
			switch method {
			case "approveShares":
				obs = fmt.Sprintf("al=%s sa=%s sb=%s", allowOf(caller.id, approveSp), sharesOf(caller.id), sharesOf(approveSp))
			case "transferShares":
				var toID int
				fmt.Sscan(argStr, &toID)
				obs = fmt.Sprintf("al=%s sa=%s sb=%s", allowOf(caller.id, toID), sharesOf(caller.id), sharesOf(toID))
			case "transferFromShares":
				var f, toID int
				fmt.Sscan(argStr, &f, &toID)
				obs = fmt.Sprintf("al=%s sa=%s sb=%s", allowOf(f, caller.id), sharesOf(f), sharesOf(toID))
			case "delegateV2", "undelegateV2", "redelegateV2":
				vt, _ := e.valRate(cctx)
				obs = fmt.Sprintf("sa=%s du=%s vt=%s ub=%s", sharesOf(caller.id), e.dustOf(cctx, caller.addr), vt, e.unbondOn0(cctx, caller.addr))
				if method == "redelegateV2" {
					// round 5: what arrives at the destination validator (10^-18 shares of the caller there)
					obs += " d1=" + e.rawOn1(cctx, caller.addr).String()
				}
				if method == "undelegateV2" && succeeded {
					out.Count("hist:undelegate:unbonding-entry-compared")
				}
			case "withdraw":
				obs = fmt.Sprintf("sa=%s", sharesOf(caller.id))
			case "cancelSendToExternal", "increaseBridgeFee", "crossChain":
				var parts []string
				txs := app.EthKeeper.GetUnbatchedTransactions(cctx)
				sort.Slice(txs, func(i, j int) bool { return txs[i].Id < txs[j].Id })
				for _, p := range txs {
					if id, ok := idOfBech[p.Sender]; ok {
						parts = append(parts, fmt.Sprintf("%d:%d:%s", p.Id, id, p.Token.Amount.Add(p.Fee.Amount)))
					}
				}
				obs = "pool=" + strings.Join(parts, ",")
				if len(parts) == 0 {
					obs = "pool=-"
				}
				obs += " pb=" + app.BankKeeper.GetBalance(cctx, e.cross.Bytes(), fxtypes.DefaultDenom).Amount.String()
				if method == "crossChain" && succeeded {
					for _, p := range txs {
						known := false
						for _, id := range poolIDs {
							known = known || id == p.Id
						}
						if !known {
							poolIDs = append(poolIDs, p.Id)
						}
					}
				}
			default:
				obs = "-"
			}
			opw := "h"
			if status == "undone" {
				opw = "hu"
			}
			out.Emit(fmt.Sprintf("%s %s %d %d %s %s %s %s %s", opw, kind, rt.caller, rt.origin, to.Hex(), mid, entStr(entries), method, argStr), status+" "+obs)
			out.Count("hist:" + method + ":" + status)
			if slashed {
				out.Count("hist:on-slashed-validator:" + method + ":" + status)
			}
			out.Count("hist:route:" + rt.name + ":" + kind.String())
			out.Nontrivial(fmt.Sprintf("h|%s|%s|%s|%s|%v", method, rt.name, kind, status, len(entries) > 0))
			// monitors
			changed := hx.DiffDump(dumpBefore, e.dump(cctx))
			if status == "undone" && len(changed) > 0 {
				violate(out, "a precompile call made in a frame that REVERTed afterwards (caught by its caller, the transaction succeeded) changed Cosmos stores "+fmt.Sprint(changed)+": what was granted / moved in a dropped frame must not exist: "+desc)
			}
			if strings.HasPrefix(status, "blocked") && len(changed) > 0 {
				violate(out, "blocked precompile call changed Cosmos stores "+fmt.Sprint(changed)+" "+desc)
			}
			if shouldBlock(entries, to, mid) && !strings.HasPrefix(status, "blocked") {
				violate(out, fmt.Sprintf("disabled precompile executed: %s entries=%s (%d entries, the matching one is number %d)", desc, entStr(entries), len(entries), firstMatch(entries, to, mid)))
			}
			if kind != evmx.KCall && method != "view" && len(changed) > 0 {
				violate(out, "state-changing method changed state through "+kind.String()+": "+desc)
			}
			for _, a := range accts {
				if a.id == caller.id {
					continue
				}
				var mv *big.Int
				if method == "transferFromShares" && tfsFrom == a.id {
					mv = tfsAmt
				}
				who := fmt.Sprintf("account %d", a.id)
				if a.id == rt.origin {
					who += ", the tx origin"
				}
				comparePortfolios(out, who, before[a.id], e.portfolioOf(cctx, a.addr, addrs), mv, caller.id-1, succeeded, desc)
			}
			e.compareHolders(out, holdersBefore, e.holderFunds(cctx), fmt.Sprintf("%s msg.value=%v", desc, value))
			// history ghost: approved - Σ moved = allowance now
			if succeeded && method == "approveShares" {
				p := pair{caller.id, approveSp}
				approved[p] = approveAmt
				spent[p] = new(big.Int)
				lastApproved = &p
			}
			if succeeded && method == "transferFromShares" {
				p := pair{tfsFrom, caller.id}
				if _, ok := approved[p]; ok {
					spent[p].Add(spent[p], tfsAmt)
					if rng.Intn(2) == 0 {
						lastApproved = &p // keep draining the same grant
					}
				}
			}
			for p, ap := range approved {
				want := new(big.Int).Sub(ap, spent[p])
				if got := allowOf(p.o, p.s); got.Cmp(want) != 0 {
					violate(out, fmt.Sprintf("allowance granted by account %d to %d not reduced by exactly the amount moved over the history: approved %s, moved since %s, allowance now %s (expected %s); last step %s", p.o, p.s, ap, spent[p], got, want, desc))
					delete(approved, p)
				}
			}
		}
	}
}

func entriesOrEmpty(e []string) []string {
	if e == nil {
		return []string{}
	}
	return e
}

func TestC10(t *testing.T) {
	rng := rand.New(rand.NewSource(hx.Seed()))
	out := hx.NewOut()
	defer out.Close("dispatch: every method of both precompiles (13 state-changing incl. third-party / tx-origin argument variants, 4 views) x CALL/STATICCALL/DELEGATECALL/CALLCODE x governance switch lists set through the real MsgUpdateSwitchParams handler (none, single entries in every letter case, near misses, 2..7 entries with several entries for one precompile address and the matching one at any position) x allowance 0 / amount-1 / amount / amount+1 / large / 2^256-2 / 2^256-1; nested STATICCALL->CALL. histories: sequences of real signed transactions by EOAs directly, contracts, contracts acting for the user that called them (one and two frames deep): approveShares (boundary amounts incl. 2^256-1) / repeated transferFromShares / transferShares / delegate / undelegate / withdraw / cancelSendToExternal / increaseBridgeFee / views, under random call kinds and switch lists; model and real allowance, shares and pool compared after every step; portfolios of every non-caller (tx origin included) before/after. tokens: crossChain with an ERC-20 token (coin-backed WFX, contract-owned TST) by EOAs directly, contracts, contracts one and two frames below the holder that called them, totals at allowance/balance -1/0/+1 and at what the TX ORIGIN could pay; ERC-20 balances and allowances to the precompile of every non-caller before/after, the direct caller's compared with the regenerated ERC-20 leg. non-trivial = distinct (method, kind/route, switch class, outcome)")
	e := setup(t)
	only := os.Getenv("VERIF_C10_PHASE") // debugging aid: "dispatch", "history" or "tokens" runs one phase only
	if only == "tokens" {
		phaseTokens(t, e, rng, out)
		return
	}
	if only != "history" {
		phaseDispatch(t, e, rng, out)
		phaseMalformed(t, e, rng, out)
	}
	if only != "dispatch" {
		phaseHistory(t, e, rng, out)
	}
	if only == "" {
		phaseTokens(t, e, rng, out)
	}
}
