package c10

// C10 phase 3 (round 3): the ERC-20 leg of crossChain.  A holder who ever used crossChain with a token has granted the
// crosschain precompile an ERC-20 allowance; the property says a precompile call "can take value only from the account
// that directly called it" — so no call by anybody else (another account, a contract the holder calls, a contract two
// frames down) may spend that allowance or touch the holder's tokens.
//
//   op   : tkset <token 0=WFX|1=TST> <acct> <token balance> <ERC-20 allowance to the precompile> <coins of the pair's denom>
//          tk <token> <pair kind fx|erc20> <direct caller> <amount + fee>          (crossChain; increaseBridgeFee with amount = fee)
//          tkb <token> <pair kind> <direct caller> <amount>                        (bridgeCall with a one-token list; refund address = somebody else)
//   impl : <ok|err> t=<token balance of the direct caller> a=<its allowance to the precompile>     (after the real signed tx)
//   model: Gen.C10Tok.erc20Leg (handlerERC20Token with convertERC20 inlined, regenerated) interpreted on the model token world
// Monitors: after every transaction, for every account that is not the direct caller (tx origin included): token balance
// and allowance to the precompile of both tokens are not reduced; for the direct caller of a successful call both drop by
// exactly amount + fee; a failed call changes neither.

import (
	"fmt"
	"math/big"
	"math/rand"
	"testing"

	sdkmath "cosmossdk.io/math"
	sdk "github.com/cosmos/cosmos-sdk/types"
	authtypes "github.com/cosmos/cosmos-sdk/x/auth/types"
	"github.com/ethereum/go-ethereum/common"
	evmtypes "github.com/evmos/ethermint/x/evm/types"

	"github.com/functionx/fx-core/v8/contract"
	"github.com/functionx/fx-core/v8/testutil/helpers"
	fxtypes "github.com/functionx/fx-core/v8/types"
	crosschaintypes "github.com/functionx/fx-core/v8/x/crosschain/types"
	erc20types "github.com/functionx/fx-core/v8/x/erc20/types"
	ethtypes "github.com/functionx/fx-core/v8/x/eth/types"

	"fxverif/harness/evmx"
	"fxverif/harness/hx"
)

type tokEnv struct {
	toks  [2]common.Address // 0 = WFX (coin-backed, FX), 1 = TST (contract-owned)
	kinds [2]string
	denom [2]string
}

func (e *env) erc20Bal(ctx sdk.Context, tok, who common.Address) *big.Int {
	var res struct{ Value *big.Int }
	if err := e.s.App.EvmKeeper.QueryContract(ctx, e.signer.Address(), tok, contract.GetFIP20().ABI, "balanceOf", &res, who); err != nil || res.Value == nil {
		return big.NewInt(-1)
	}
	return res.Value
}

func (e *env) erc20Allow(ctx sdk.Context, tok, owner, spender common.Address) *big.Int {
	var res struct{ Value *big.Int }
	if err := e.s.App.EvmKeeper.QueryContract(ctx, e.signer.Address(), tok, contract.GetFIP20().ABI, "allowance", &res, owner, spender); err != nil || res.Value == nil {
		return big.NewInt(-1)
	}
	return res.Value
}

func phaseTokens(t *testing.T, e *env, rng *rand.Rand, out *hx.Out) {
	app := e.s.App
	base, _ := e.s.Ctx.CacheContext()
	fip := contract.GetFIP20()
	big18 := func(n int64) sdkmath.Int { return sdkmath.NewInt(n).Mul(sdkmath.NewInt(1e18)) }
	accts := []acct{{1, e.x, nil}, {2, e.y, nil}, {3, e.signer.Address(), e.signer}, {4, e.victim.Address(), e.victim}, {5, e.other, nil}}
	te := &tokEnv{kinds: [2]string{"fx", "erc20"}}
	// WFX: the ERC-20 face of the default denom
	pair, ok := app.Erc20Keeper.GetTokenPair(base, fxtypes.DefaultDenom)
	if !ok {
		out.Count("tok:setup:no-FX-token-pair")
		return
	}
	te.toks[0], te.denom[0] = pair.GetERC20Contract(), fxtypes.DefaultDenom
	for _, a := range accts[:4] {
		if _, err := app.Erc20Keeper.ConvertCoin(base, &erc20types.MsgConvertCoin{Coin: sdk.NewCoin(fxtypes.DefaultDenom, big18(1000)),
			Receiver: a.addr.Hex(), Sender: sdk.AccAddress(a.addr.Bytes()).String()}); err != nil {
			out.Count("tok:setup:wfx-convert-error:" + err.Error())
			return
		}
	}
	// TST: a contract-owned ERC-20 with an eth bridge alias
	mod := app.Erc20Keeper.ModuleAddress()
	tst, err := app.Erc20Keeper.DeployUpgradableToken(base, mod, "Test token", "TST", 18)
	if err != nil {
		out.Count("tok:setup:tst-deploy-error:" + err.Error())
		return
	}
	for _, a := range accts[:4] {
		if _, err := app.EvmKeeper.ApplyContract(base, mod, tst, nil, fip.ABI, "mint", a.addr, big18(1000).BigInt()); err != nil {
			out.Count("tok:setup:tst-mint-error:" + err.Error())
			return
		}
	}
	alias := crosschaintypes.NewBridgeDenom(ethtypes.ModuleName, helpers.GenExternalAddr(ethtypes.ModuleName))
	app.EthKeeper.AddBridgeToken(base, alias, alias)
	tp, err := app.Erc20Keeper.RegisterNativeERC20(base, tst, alias)
	if err != nil {
		out.Count("tok:setup:tst-register-error:" + err.Error())
		return
	}
	te.toks[1], te.denom[1] = tst, tp.GetDenom()
	modAcc := common.BytesToAddress(authtypes.NewModuleAddress(erc20types.ModuleName))
	warm := []common.Address{e.staking, e.cross}
	cabi := crosschaintypes.GetABI()
	seqs := hx.N(12, 80)
	opsPer := hx.N(14, 30)
	routes := []route{{"signer>x", 1, 3}, {"signer>x>y", 2, 3}, {"signer", 3, 3}, {"victim", 4, 4}, {"victim>x", 1, 4}, {"victim>x>y", 2, 4}}
	for sq := 0; sq < seqs; sq++ {
		cctx, _ := base.CacheContext()
		out.Reset()
		// allowances to the precompile: the victim always has one (it is what a third party would like to spend)
		for ti := 0; ti < 2; ti++ {
			for _, a := range accts[:4] {
				var al *big.Int
				switch rng.Intn(5) {
				case 0:
					al = new(big.Int)
				case 1:
					al = maxU256
				case 2:
					al = big.NewInt(int64(1 + rng.Intn(5000)))
				default:
					al = big18(int64(1 + rng.Intn(500))).BigInt()
				}
				if a.id == 4 && al.Sign() == 0 {
					al = big18(300).BigInt()
				}
				if _, err := app.EvmKeeper.ApplyContract(cctx, a.addr, te.toks[ti], nil, fip.ABI, "approve", e.cross, al); err != nil {
					t.Fatalf("approve: %v", err)
				}
			}
			for _, a := range accts {
				out.Emit(fmt.Sprintf("tkset %d %d %s %s %s", ti, a.id, e.erc20Bal(cctx, te.toks[ti], a.addr), e.erc20Allow(cctx, te.toks[ti], a.addr, e.cross),
					app.BankKeeper.GetBalance(cctx, a.addr.Bytes(), te.denom[ti]).Amount), "ok")
			}
			out.Emit(fmt.Sprintf("tkset %d 8 %s 0 %s", ti, e.erc20Bal(cctx, te.toks[ti], modAcc), app.BankKeeper.GetBalance(cctx, modAcc.Bytes(), te.denom[ti]).Amount), "ok")
			out.Emit(fmt.Sprintf("tkset %d 9 %s 0 %s", ti, e.erc20Bal(cctx, te.toks[ti], te.toks[ti]), app.BankKeeper.GetBalance(cctx, te.toks[ti].Bytes(), te.denom[ti]).Amount), "ok")
		}
		for k := 0; k < opsPer; k++ {
			rt := routes[rng.Intn(len(routes))]
			if rng.Intn(3) == 0 {
				rt = routes[4+rng.Intn(2)] // the holder calls a contract: the contract is the direct caller, the holder the tx origin
			}
			var caller acct
			for _, a := range accts {
				if a.id == rt.caller {
					caller = a
				}
			}
			ti := rng.Intn(2)
			tok := te.toks[ti]
			bal, al := e.erc20Bal(cctx, tok, caller.addr), e.erc20Allow(cctx, tok, caller.addr, e.cross)
			lim := bal
			if al.Cmp(lim) < 0 {
				lim = al
			}
			var total *big.Int
			class := ""
			switch rng.Intn(8) {
			case 0:
				total, class = new(big.Int).Add(lim, big.NewInt(1)), "limit+1"
			case 1:
				total, class = new(big.Int).Set(lim), "limit"
			case 2:
				total, class = new(big.Int).Sub(lim, big.NewInt(1)), "limit-1"
			case 3:
				// what the tx origin (not the caller) could pay: its own allowance / balance
				var org acct
				for _, a := range accts {
					if a.id == rt.origin {
						org = a
					}
				}
				total, class = e.erc20Allow(cctx, tok, org.addr, e.cross), "allowance-of-the-tx-origin"
				if b := e.erc20Bal(cctx, tok, org.addr); b.Cmp(total) < 0 {
					total = b
				}
			case 4:
				total, class = new(big.Int).Add(bal, big.NewInt(1)), "balance+1"
			default:
				total, class = big.NewInt(int64(2+rng.Intn(100000))), "small"
			}
			if total.Cmp(big.NewInt(2)) < 0 {
				total, class = big.NewInt(2), "two"
			}
			fee := big.NewInt(1)
			amt := new(big.Int).Sub(total, fee)
			method := "crossChain"
			data, err := cabi.Pack("crossChain", tok, helpers.GenExternalAddr(ethtypes.ModuleName), amt, fee, fxtypes.MustStrToByte32(ethtypes.ModuleName), "")
			if rng.Intn(4) == 0 {
				// bridgeCall with a token list: the keeper converts the tokens of `holder` with keeper power (no ERC-20 allowance
				// involved) — the holder must be the direct caller, whoever is named as refund address
				method = "bridgeCall"
				refund := e.victim.Address()
				if rt.caller == 4 || rng.Intn(3) == 0 {
					refund = e.other
				}
				data, err = cabi.Pack("bridgeCall", ethtypes.ModuleName, refund, []common.Address{tok}, []*big.Int{total}, helpers.GenHexAddress(), []byte{1}, big.NewInt(0), []byte{})
			}
			if method == "crossChain" && ti == 0 && rng.Intn(5) == 0 {
				// increaseBridgeFee with a token: the same ERC-20 leg with amount = fee, on a queued withdrawal of the victim or of x
				// (anybody may raise anybody's fee — out of its OWN tokens)
				method = "increaseBridgeFee"
				ids := append(append([]uint64{}, e.vTx...), e.xTx...)
				data, err = cabi.Pack("increaseBridgeFee", ethtypes.ModuleName, new(big.Int).SetUint64(ids[rng.Intn(len(ids))]), tok, total)
			}
			if err != nil {
				t.Fatal(err)
			}
			sender := e.signer
			if rt.origin == 4 {
				sender = e.victim
			}
			var tx *evmtypes.MsgEthereumTx
			preFrame := 1
			switch rt.name {
			case "signer", "victim":
				tx, err = evmx.SignedTx(cctx, app, sender, e.cross, nil, data, 3_000_000, warm)
				preFrame = 0
			default:
				nd := &evmx.Node{Op: "pre", ID: 2, Kind: evmx.KCall, To: e.cross, Data: data, Swallow: true, Value: new(big.Int)}
				nodes := []*evmx.Node{nd}
				if rt.name[len(rt.name)-2:] == ">y" {
					nodes = []*evmx.Node{{Op: "call", ID: 1, Kind: evmx.KCall, To: e.y, Swallow: true, Body: []*evmx.Node{nd}}}
					preFrame = 2
				}
				if err := evmx.InstallTree(cctx, app, e.x, nodes); err != nil {
					t.Fatal(err)
				}
				tx, err = evmx.SignedTx(cctx, app, sender, e.x, nil, nil, 3_000_000, warm)
			}
			if err != nil {
				t.Fatal(err)
			}
			type tv struct{ bal, al [2]*big.Int }
			snap := func() map[int]tv {
				m := map[int]tv{}
				for _, a := range accts {
					var v tv
					for j := 0; j < 2; j++ {
						v.bal[j], v.al[j] = e.erc20Bal(cctx, te.toks[j], a.addr), e.erc20Allow(cctx, te.toks[j], a.addr, e.cross)
					}
					m[a.id] = v
				}
				return m
			}
			before := snap()
			tr := evmx.NewTracer()
			var res *evmtypes.MsgEthereumTxResponse
			desc := fmt.Sprintf("%s(token=%s total=%s [%s]) route=%s direct caller=%d tx origin=%d", method, te.kinds[ti], total, class, rt.name, rt.caller, rt.origin)
			if pr := hx.Try(func() error { res, err = evmx.SendTraced(cctx, app, tx, tr); return nil }); pr != "ok" {
				violate(out, "precompile call panicked ("+pr+"): "+desc)
				break
			}
			if err != nil || len(tr.Frames) <= preFrame {
				t.Fatalf("token phase: unexpected failure: %v frames=%d %s", err, len(tr.Frames), desc)
			}
			errText := tr.Frames[preFrame].Err
			if preFrame == 0 && res.Failed() && errText == "" {
				errText = res.VmError
			}
			status := "ok"
			if errText != "" {
				status = "err"
			}
			after := snap()
			opw := "tk"
			if method == "bridgeCall" {
				opw = "tkb"
			}
			out.Emit(fmt.Sprintf("%s %d %s %d %s", opw, ti, te.kinds[ti], rt.caller, total),
				fmt.Sprintf("%s t=%s a=%s", status, after[rt.caller].bal[ti], after[rt.caller].al[ti]))
			out.Count(fmt.Sprintf("tok:%s:%s:%s:%s:%s", method, te.kinds[ti], rt.name, class, status))
			out.Nontrivial(fmt.Sprintf("tok|%s|%s|%s|%s|%s", method, te.kinds[ti], rt.name, class, status))
			for _, a := range accts {
				for j := 0; j < 2; j++ {
					b0, b1, a0, a1 := before[a.id].bal[j], after[a.id].bal[j], before[a.id].al[j], after[a.id].al[j]
					if a.id != rt.caller {
						who := "third party"
						if a.id == rt.origin {
							who = "the tx origin that called the contract"
						}
						if b1.Cmp(b0) < 0 {
							violate(out, fmt.Sprintf("ERC-20 tokens (%s) of a non-caller (%s) reduced from %s to %s: %s", te.kinds[j], who, b0, b1, desc))
						}
						if a1.Cmp(a0) < 0 {
							violate(out, fmt.Sprintf("ERC-20 allowance (%s) that a non-caller (%s) granted to the precompile was spent: %s -> %s: %s", te.kinds[j], who, a0, a1, desc))
						}
						continue
					}
					wantB, wantA := b0, a0
					if status == "ok" && j == ti {
						wantB = new(big.Int).Sub(b0, total)
						if method != "bridgeCall" {
							wantA = new(big.Int).Sub(a0, total)
						}
					}
					if b1.Cmp(wantB) != 0 || a1.Cmp(wantA) != 0 {
						violate(out, fmt.Sprintf("direct caller's ERC-20 (%s) balance / allowance to the precompile after a call that ended %s: %s / %s, expected %s / %s: %s", te.kinds[j], status, b1, a1, wantB, wantA, desc))
					}
				}
			}
		}
	}
}
