package c11

// C11 harness, round 5: staking-precompile calls as SIGNED TRANSACTIONS delivered by real blocks.
//
// The correspondence histories of c11_test.go hand every signed MsgEthereumTx to EvmKeeper.EthereumTx on a cache context
// and produce rewards with direct AllocateTokensToValidator calls, never committing.  Here the calls are made inside REAL
// blocks: the signed transactions run on the state of the open block, then `FinalizeBlock` runs the BEGIN-BLOCKER (mint,
// and distribution's AllocateTokens of inflation + the block's fees by the votes of the last commit: real reward-producing
// blocks, every transfer below happens with rewards pending) and the END-BLOCKER (staking validator-set update, gov, …),
// and `Commit` persists the stores; several calls of one or several accounts share a block.  (The transaction bytes
// themselves cannot be delivered by FinalizeBlock in this snapshot, see runBlock.)  The Lean model has no begin-blocker
// (inflation and the fee split are SDK code), so this phase is MONITOR-ONLY; what it checks after every block on the
// committed state:
//   * a block of transfers moves exactly the shares its successful transactions name (sequentially: sender −x·10^18,
//     recipient +x·10^18, a transfer to oneself nothing), leaves every validator's tokens and total shares unchanged,
//     and changes no other tracked delegation;
//   * allowances: approve sets, a successful transferFromShares needed and used up exactly x (also with from == to),
//     a failed one nothing;
//   * staking / distribution / bank AllInvariants, per-period reference counts, Σ delegations = validator shares;
//   * at the end every user withdraws at every validator and fully undelegates, again through real blocks.

import (
	"fmt"
	"math/big"
	"math/rand"
	"strings"
	"testing"
	"time"

	abci "github.com/cometbft/cometbft/abci/types"
	cmtproto "github.com/cometbft/cometbft/proto/tendermint/types"
	tmtime "github.com/cometbft/cometbft/types/time"
	sdkmath "cosmossdk.io/math"
	cryptocodec "github.com/cosmos/cosmos-sdk/crypto/codec"
	sdk "github.com/cosmos/cosmos-sdk/types"
	slashingtypes "github.com/cosmos/cosmos-sdk/x/slashing/types"
	"github.com/ethereum/go-ethereum/common"
	ethtypes "github.com/ethereum/go-ethereum/core/types"
	evmtypes "github.com/evmos/ethermint/x/evm/types"

	fxtypes "github.com/functionx/fx-core/v8/types"
	"github.com/functionx/fx-core/v8/x/staking/precompile"
	fxstakingtypes "github.com/functionx/fx-core/v8/x/staking/types"

	"fxverif/harness/hx"
)

// one transaction of a block
type btx struct {
	line   string // replay text
	kind   string // transfer | transferFrom | approve | withdraw | delegate | undelegate | redelegate
	signer int
	data   []byte
	from   int // owner of the moved shares (transfer: the signer)
	to     int
	v      int
	x      *big.Int
}

func (w *world) commitInfo() abci.CommitInfo {
	ci := abci.CommitInfo{Round: 1}
	for _, val := range w.s.ValSet.Validators {
		pk, err := cryptocodec.FromCmtPubKeyInterface(val.PubKey)
		if err != nil {
			panic(err)
		}
		ci.Votes = append(ci.Votes, abci.VoteInfo{
			Validator:   abci.Validator{Address: pk.Address(), Power: val.VotingPower},
			BlockIdFlag: cmtproto.BlockIDFlagCommit,
		})
		si := slashingtypes.NewValidatorSigningInfo(sdk.ConsAddress(pk.Address()), w.s.Ctx.BlockHeight(), 0, time.Unix(0, 0), false, 0)
		if err := w.s.App.SlashingKeeper.SetValidatorSigningInfo(w.s.Ctx, sdk.ConsAddress(pk.Address()), si); err != nil {
			panic(err)
		}
	}
	return ci
}

// deliverBlock: FinalizeBlock with the given transactions + Commit, then the next block is opened.
func (w *world) deliverBlock(txs [][]byte) []*abci.ExecTxResult {
	ci := w.commitInfo()
	h := w.s.Ctx.BlockHeight()
	prop := w.s.Ctx.BlockHeader().ProposerAddress
	fres, err := w.s.App.FinalizeBlock(&abci.RequestFinalizeBlock{Height: h, Time: tmtime.Now(), ProposerAddress: prop, DecidedLastCommit: ci, Txs: txs})
	if err != nil {
		panic(err)
	}
	if _, err := w.s.App.Commit(); err != nil {
		panic(err)
	}
	if _, err := w.s.App.ProcessProposal(&abci.RequestProcessProposal{Height: h + 1, Time: tmtime.Now(), ProposerAddress: prop, ProposedLastCommit: ci}); err != nil {
		panic(err)
	}
	w.s.Ctx = w.s.App.GetContextForFinalizeBlock(nil)
	return fres.TxResults
}

var blockGasPrice = big.NewInt(1_000_000_000_000)

// signedBytes: a signed MsgEthereumTx to the staking precompile wrapped into transaction bytes
func (w *world) signedBytes(from int, nonce uint64, data []byte) []byte {
	sg := w.sign[from]
	chainID := fxtypes.EIP155ChainID(w.s.Ctx.ChainID())
	to := w.staked
	msg := evmtypes.NewTx(chainID, nonce, &to, big.NewInt(0), 3_000_000, blockGasPrice, nil, nil, data, nil)
	msg.From = sg.Address().Bytes()
	if err := msg.Sign(ethtypes.LatestSignerForChainID(chainID), sg); err != nil {
		panic(err)
	}
	cfg := w.s.App.GetTxConfig()
	tx, err := msg.BuildTx(cfg.NewTxBuilder(), fxtypes.DefaultDenom)
	if err != nil {
		panic(err)
	}
	bz, err := cfg.TxEncoder()(tx)
	if err != nil {
		panic(err)
	}
	return bz
}

func must(data []byte, err error) []byte {
	if err != nil {
		panic(err)
	}
	return data
}

func (w *world) mkTransfer(from, to, v int, x *big.Int) btx {
	return btx{line: fmt.Sprintf("transfer %d %d %d %s", from, to, v, x), kind: "transfer", signer: from, from: from, to: to, v: v, x: x,
		data: must(precompile.NewTransferSharesMethod(nil).PackInput(fxstakingtypes.TransferSharesArgs{
			Validator: w.vals[v].String(), To: common.BytesToAddress(w.accs[to]), Shares: x}))}
}

func (w *world) mkTransferFrom(sp, from, to, v int, x *big.Int) btx {
	return btx{line: fmt.Sprintf("transferFrom %d %d %d %d %s", sp, from, to, v, x), kind: "transferFrom", signer: sp, from: from, to: to, v: v, x: x,
		data: must(precompile.NewTransferFromSharesMethod(nil).PackInput(fxstakingtypes.TransferFromSharesArgs{
			Validator: w.vals[v].String(), From: common.BytesToAddress(w.accs[from]), To: common.BytesToAddress(w.accs[to]), Shares: x}))}
}

func (w *world) mkApprove(owner, sp, v int, x *big.Int) btx {
	return btx{line: fmt.Sprintf("approve %d %d %d %s", owner, sp, v, x), kind: "approve", signer: owner, from: owner, to: sp, v: v, x: x,
		data: must(precompile.NewApproveSharesMethod(nil).PackInput(fxstakingtypes.ApproveSharesArgs{
			Validator: w.vals[v].String(), Spender: common.BytesToAddress(w.accs[sp]), Shares: x}))}
}

func (w *world) mkWithdraw(d, v int) btx {
	return btx{line: fmt.Sprintf("withdraw %d %d", d, v), kind: "withdraw", signer: d, from: d, to: d, v: v, x: new(big.Int),
		data: must(precompile.NewWithdrawMethod(nil).PackInput(fxstakingtypes.WithdrawArgs{Validator: w.vals[v].String()}))}
}

func (w *world) mkDelegate(d, v int, amt *big.Int) btx {
	return btx{line: fmt.Sprintf("delegate %d %d %s", d, v, amt), kind: "delegate", signer: d, from: d, to: d, v: v, x: amt,
		data: must(precompile.NewDelegateV2Method(nil).PackInput(fxstakingtypes.DelegateV2Args{Validator: w.vals[v].String(), Amount: amt}))}
}

func (w *world) mkUndelegate(d, v int, amt *big.Int) btx {
	return btx{line: fmt.Sprintf("undelegate %d %d %s", d, v, amt), kind: "undelegate", signer: d, from: d, to: d, v: v, x: amt,
		data: must(precompile.NewUndelegateV2Method(nil).PackInput(fxstakingtypes.UndelegateV2Args{Validator: w.vals[v].String(), Amount: amt}))}
}

func (w *world) mkRedelegate(d, src, dst int, amt *big.Int) btx {
	return btx{line: fmt.Sprintf("redelegate %d %d %d %s", d, src, dst, amt), kind: "redelegate", signer: d, from: d, to: dst, v: src, x: amt,
		data: must(precompile.NewRedelegateV2Method(nil).PackInput(fxstakingtypes.RedelegateV2Args{
			ValidatorSrc: w.vals[src].String(), ValidatorDst: w.vals[dst].String(), Amount: amt}))}
}

// runBlock executes the signed transactions on the state of the open block (EVM message server, as `apply` does) and then
// runs the REAL block around them: FinalizeBlock (begin-blocker: mint + AllocateTokens by the votes of the last commit;
// end-blocker) + Commit.  Returns per transaction "ok" or "reverted:<why>".
//
// The transaction BYTES cannot travel through FinalizeBlock in this snapshot of fx-core: the app registers no custom
// GetSigners for MsgEthereumTx, so the tx decoder refuses it ("unexpected field type bytes for field from in message
// ethermint.evm.v1.MsgEthereumTx" — measured: `signedBytes` + Txs gives code != 0 for every transaction); the same
// limitation is recorded by detx (Block.Inject).  The ante handler is therefore not on this path (property C20 covers it).
func (w *world) runBlock(txs []btx) []string {
	var ls []string
	for _, b := range txs {
		ls = append(ls, b.line)
	}
	w.seq = append(w.seq, fmt.Sprintf("# real block %d (signed transactions, then FinalizeBlock + Commit): %s", w.s.Ctx.BlockHeight(), strings.Join(ls, " ; ")))
	out := make([]string, len(txs))
	for i, b := range txs {
		// `apply` runs the signed transaction through the EVM message server on the open block's state AND evaluates every
		// per-op monitor of the correspondence phase (exactness, payouts = rewards accrued up to now — here accrued from the
		// REAL begin-blocker allocations —, fresh starting infos, third parties, chain frame, allowance frame, truthful
		// refusals, failed op changes nothing, invariants); its observation line is not compared with the model here
		kind := strings.SplitN(w.apply(b.line), " | ", 2)[0]
		if w.dead {
			return nil
		}
		switch {
		case kind == "ok":
			out[i] = "ok"
		case kind == "panic":
			w.violate("a staking-precompile transaction panicked inside a real block: " + b.line)
			return nil
		default:
			out[i] = "reverted:" + kind
		}
		w.out.Count("blocktx:" + b.kind + "/" + strings.SplitN(out[i], ":", 2)[0])
	}
	// fees of the block: the ante handler would have collected them; they are what the next begin-blocker allocates
	if len(txs) > 0 {
		fee := sdk.NewCoin(fxtypes.DefaultDenom, sdkmath.NewInt(int64(len(txs))).MulRaw(3e18))
		funder := w.accs[len(w.accs)-1]
		w.s.MintToken(funder, fee)
		if err := w.s.App.BankKeeper.SendCoinsFromAccountToModule(w.s.Ctx, funder, "fee_collector", sdk.NewCoins(fee)); err != nil {
			panic(err)
		}
	}
	if r := hx.Try(func() error { w.deliverBlock(nil); return nil }); r != "ok" {
		w.violate("FinalizeBlock / Commit of a block of staking-precompile transactions failed: " + r)
		return nil
	}
	return out
}

type blockGen struct {
	w   *world
	rng *rand.Rand
}

func (g *blockGen) users() []int {
	var us []int
	for i := range g.w.accs {
		if g.w.user(i) {
			us = append(us, i)
		}
	}
	return us
}

// wholeShares of d at v as of the committed state
func (g *blockGen) wholeShares(d, v int) *big.Int {
	del, err := g.w.s.App.StakingKeeper.GetDelegation(g.w.s.Ctx, g.w.accs[d], g.w.vals[v])
	if err != nil {
		return new(big.Int)
	}
	return del.Shares.TruncateInt().BigInt()
}

func (g *blockGen) part(x *big.Int) *big.Int {
	if x.Sign() == 0 {
		return big.NewInt(1)
	}
	switch g.rng.Intn(5) {
	case 0:
		return new(big.Int).Set(x) // all
	case 1:
		return new(big.Int).Add(x, big.NewInt(1)) // one too many
	case 2:
		return big.NewInt(1)
	default:
		q := new(big.Int).Div(x, big.NewInt(int64(2+g.rng.Intn(4))))
		if q.Sign() == 0 {
			q.SetInt64(1)
		}
		return q
	}
}

// transferBlock: 1-4 transactions among transfer / transferFrom / approve / withdraw
func (g *blockGen) transferBlock() []btx {
	w := g.w
	us := g.users()
	n := 1 + g.rng.Intn(4)
	var txs []btx
	for len(txs) < n {
		v := g.rng.Intn(w.nVal)
		from := hx.Pick(g.rng, us)
		to := hx.Pick(g.rng, us)
		if g.rng.Intn(8) == 0 {
			to = from // a transfer to oneself
		}
		if g.rng.Intn(12) == 0 {
			to = g.rng.Intn(w.nVal) // a validator operator as recipient
		}
		x := g.part(g.wholeShares(from, v))
		switch g.rng.Intn(10) {
		case 0, 1, 2, 3:
			txs = append(txs, w.mkTransfer(from, to, v, x))
		case 4, 5:
			// approve and use it within the same block (the spender's transaction comes later in the block)
			sp := hx.Pick(g.rng, us)
			txs = append(txs, w.mkApprove(from, sp, v, x))
			y := x
			if g.rng.Intn(3) == 0 {
				y = new(big.Int).Add(x, big.NewInt(1)) // more than approved
			}
			txs = append(txs, w.mkTransferFrom(sp, from, to, v, y))
		case 6, 7:
			// use whatever allowance is left from earlier blocks (often none)
			sp := hx.Pick(g.rng, us)
			a := w.s.App.StakingKeeper.GetAllowance(w.s.Ctx, w.vals[v], w.accs[from], w.accs[sp])
			if a.Sign() > 0 && g.rng.Intn(2) == 0 {
				x = g.part(a)
			}
			txs = append(txs, w.mkTransferFrom(sp, from, to, v, x))
		case 8:
			txs = append(txs, w.mkWithdraw(from, v))
		default:
			txs = append(txs, w.mkApprove(from, hx.Pick(g.rng, us), v, x))
		}
	}
	return txs
}

func (g *blockGen) stakingBlock() []btx {
	w := g.w
	us := g.users()
	n := 1 + g.rng.Intn(3)
	var txs []btx
	for i := 0; i < n; i++ {
		d := hx.Pick(g.rng, us)
		v := g.rng.Intn(w.nVal)
		amt := new(big.Int).Mul(big.NewInt(int64(1+g.rng.Intn(900))), one)
		if g.rng.Intn(3) == 0 {
			amt.Add(amt, big.NewInt(int64(g.rng.Intn(1_000_000)))) // not a whole coin
		}
		switch k := g.rng.Intn(6); {
		case k < 3:
			txs = append(txs, w.mkDelegate(d, v, amt))
		case k < 5:
			have := new(big.Int).Mul(g.wholeShares(d, v), big.NewInt(1))
			if have.Sign() > 0 && have.Cmp(amt) < 0 {
				amt = have
			}
			txs = append(txs, w.mkUndelegate(d, v, amt))
		default:
			if w.nVal > 1 {
				dst := (v + 1 + g.rng.Intn(w.nVal-1)) % w.nVal
				txs = append(txs, w.mkRedelegate(d, v, dst, amt))
			} else {
				txs = append(txs, w.mkDelegate(d, v, amt))
			}
		}
	}
	return txs
}

type allowKey struct{ v, owner, sp int }

func (w *world) allowOf(k allowKey) *big.Int {
	return w.s.App.StakingKeeper.GetAllowance(w.s.Ctx, w.vals[k.v], w.accs[k.owner], w.accs[k.sp])
}

// checkTransferBlock: the committed state after a block of transfer / transferFrom / approve / withdraw transactions
// against the sequential effect of its successful transactions.
func (w *world) checkTransferBlock(txs []btx, res []string, before snap, allow0 map[allowKey]*big.Int) {
	after := w.snapshot()
	exp := map[[2]int]sdkmath.LegacyDec{}
	get := func(d, v int) sdkmath.LegacyDec {
		if x, ok := exp[[2]int{d, v}]; ok {
			return x
		}
		return before.sh(d, v)
	}
	allow := map[allowKey]*big.Int{}
	getA := func(k allowKey) *big.Int {
		if a, ok := allow[k]; ok {
			return a
		}
		return allow0[k]
	}
	for i, b := range txs {
		ok := res[i] == "ok"
		X := sdkmath.LegacyNewDecFromBigInt(b.x)
		switch b.kind {
		case "approve":
			if ok {
				allow[allowKey{b.v, b.from, b.to}] = b.x
			}
		case "transfer", "transferFrom":
			k := allowKey{b.v, b.from, b.signer}
			if ok && b.kind == "transferFrom" {
				if getA(k).Cmp(b.x) < 0 {
					w.violate(fmt.Sprintf("block of signed transactions: transferFromShares moved %s shares with allowance %s (more than allowed)", b.x, getA(k)))
					return
				}
				allow[k] = new(big.Int).Sub(getA(k), b.x)
			}
			if ok && get(b.from, b.v).LT(X) {
				w.violate(fmt.Sprintf("block of signed transactions: %s of %s shares succeeded while the sender held %s", b.kind, b.x, get(b.from, b.v)))
				return
			}
			if ok && b.from != b.to {
				exp[[2]int{b.from, b.v}] = get(b.from, b.v).Sub(X)
				exp[[2]int{b.to, b.v}] = get(b.to, b.v).Add(X)
			}
			if !ok && strings.HasPrefix(res[i], "reverted") && b.x.Sign() > 0 && !get(b.from, b.v).LT(X) &&
				(b.kind == "transfer" || getA(k).Cmp(b.x) >= 0) {
				if recv, _ := w.s.App.StakingKeeper.HasReceivingRedelegation(w.s.Ctx, w.accs[b.from], w.vals[b.v]); !recv {
					w.out.Count("blocktx:unexpected-refusal " + firstLines(res[i]))
				}
			}
		}
	}
	for vi := range w.vals {
		if !before.valTok[vi].Equal(after.valTok[vi]) || !before.valShare[vi].Equal(after.valShare[vi]) {
			w.violate(fmt.Sprintf("block of signed transactions: share transfers changed validator %d: tokens %s -> %s, total shares %s -> %s",
				vi, before.valTok[vi], after.valTok[vi], before.valShare[vi], after.valShare[vi]))
			return
		}
		for di := range w.accs {
			if want, got := get(di, vi), after.sh(di, vi); !want.Equal(got) {
				w.violate(fmt.Sprintf("block of signed transactions: after the block account %d holds %s shares at validator %d, the successful transfers of the block (sender -x / recipient +x each, from == to nothing) give %s (before the block: %s)",
					di, got, vi, want, before.sh(di, vi)))
				return
			}
		}
	}
	for k, a0 := range allow0 {
		if want, got := getA(k), w.allowOf(k); want.Cmp(got) != 0 {
			w.violate(fmt.Sprintf("block of signed transactions: allowance (validator:owner:spender) %d:%d:%d is %s after the block, approvals and successful transferFromShares calls (-x each, also with from == to) give %s (before the block: %s)",
				k.v, k.owner, k.sp, got, want, a0))
			return
		}
	}
}

// blockHistory: one history of real blocks
func blockHistory(t *testing.T, out *hx.Out, rng *rand.Rand, nBlocks int) {
	nVal := 1 + rng.Intn(2)
	w := newWorld(t, out, nVal, 3)
	w.seq = []string{fmt.Sprintf("# block phase: nval=%d nusers=3 (accounts %d.. are users); every line is one real block", nVal, nVal)}
	g := &blockGen{w: w, rng: rng}
	us := g.users()
	// block 1: everybody delegates somewhere (two users at validator 0 at least)
	var first []btx
	for i, d := range us {
		v := 0
		if i >= 2 {
			v = rng.Intn(nVal)
		}
		first = append(first, w.mkDelegate(d, v, new(big.Int).Mul(big.NewInt(int64(100+rng.Intn(900))), one)))
	}
	for i, r := range w.runBlock(first) {
		if r != "ok" && !w.dead {
			// a harness problem (fee / nonce / gas), not a property violation: make it visible in the statistics
			out.Count("blocktx:SETUP-FAILED " + first[i].kind + " " + firstLines(r))
		}
	}
	w.invariants("the first block of signed transactions (FinalizeBlock)")
	// probe (measured on every run): can the transaction BYTES of a precompile call be delivered by FinalizeBlock?
	if !w.dead {
		d := us[0]
		raw := w.signedBytes(d, w.s.App.EvmKeeper.GetNonce(w.s.Ctx, w.sign[d].Address()), w.mkWithdraw(d, 0).data)
		if r := hx.Try(func() error {
			for _, tr := range w.deliverBlock([][]byte{raw}) {
				if tr.Code != 0 {
					out.Count("blocktx:delivery-by-FinalizeBlock refused: " + firstLines(tr.Log))
				} else {
					out.Count("blocktx:delivery-by-FinalizeBlock accepted")
				}
			}
			return nil
		}); r != "ok" {
			w.violate("FinalizeBlock with the bytes of a signed staking-precompile transaction failed: " + r)
			return
		}
	}
	allKeys := func() map[allowKey]*big.Int {
		m := map[allowKey]*big.Int{}
		for v := 0; v < nVal; v++ {
			for _, o := range us {
				for _, s := range us {
					k := allowKey{v, o, s}
					m[k] = w.allowOf(k)
				}
			}
		}
		return m
	}
	for b := 0; b < nBlocks && !w.dead; b++ {
		switch k := rng.Intn(10); {
		case k < 6:
			txs := g.transferBlock()
			before := w.snapshot()
			a0 := allKeys()
			res := w.runBlock(txs)
			if w.dead || res == nil {
				return
			}
			w.checkTransferBlock(txs, res, before, a0)
			out.Count("blocks:transfer-block")
			for i, b := range txs {
				if b.kind == "transfer" || b.kind == "transferFrom" {
					cls := "partial"
					if b.from == b.to {
						cls = "self"
					} else if before.sh(b.from, b.v).Equal(sdkmath.LegacyNewDecFromBigInt(b.x)) {
						cls = "all"
					}
					if before.sh(b.to, b.v).IsZero() {
						cls += "/new-recipient"
					} else {
						cls += "/existing-recipient"
					}
					out.Nontrivial("block-" + b.kind + "/" + cls + "/" + strings.SplitN(res[i], ":", 2)[0])
				}
			}
		case k < 9:
			w.runBlock(g.stakingBlock())
			out.Count("blocks:staking-block")
		default:
			w.runBlock(nil)
			out.Count("blocks:empty-block")
		}
		if !w.dead {
			w.invariants("a block of signed transactions (FinalizeBlock)")
		}
	}
	if w.dead {
		return
	}
	// finale: every user withdraws at every validator, then undelegates everything — through real blocks
	var wd []btx
	for _, d := range us {
		for v := 0; v < nVal; v++ {
			if _, err := w.s.App.StakingKeeper.GetDelegation(w.s.Ctx, w.accs[d], w.vals[v]); err == nil {
				wd = append(wd, w.mkWithdraw(d, v))
			}
		}
	}
	for i, r := range w.runBlock(wd) {
		if r != "ok" && !w.dead {
			w.violate(fmt.Sprintf("after a history of real blocks account %d cannot withdraw its rewards at validator %d: %s", wd[i].from, wd[i].v, r))
			return
		}
	}
	var ud []btx
	for _, d := range us {
		for v := 0; v < nVal; v++ {
			del, err := w.s.App.StakingKeeper.GetDelegation(w.s.Ctx, w.accs[d], w.vals[v])
			if err != nil {
				continue
			}
			val, _ := w.s.App.StakingKeeper.GetValidator(w.s.Ctx, w.vals[v])
			amt := val.TokensFromShares(del.Shares).TruncateInt()
			ubd, _ := w.s.App.StakingKeeper.GetUnbondingDelegation(w.s.Ctx, w.accs[d], w.vals[v])
			if amt.IsPositive() && len(ubd.Entries) < 7 {
				ud = append(ud, w.mkUndelegate(d, v, amt.BigInt()))
			}
		}
	}
	for i, r := range w.runBlock(ud) {
		if r != "ok" && !w.dead {
			w.violate(fmt.Sprintf("after a history of real blocks account %d cannot undelegate all of its stake (%s) at validator %d: %s", ud[i].from, ud[i].x, ud[i].v, r))
			return
		}
	}
	if w.dead {
		return
	}
	for _, b := range ud {
		if del, err := w.s.App.StakingKeeper.GetDelegation(w.s.Ctx, w.accs[b.from], w.vals[b.v]); err == nil && del.Shares.GTE(sdkmath.LegacyOneDec()) {
			w.violate(fmt.Sprintf("after undelegating everything through a real block account %d still holds %s shares at validator %d", b.from, del.Shares, b.v))
			return
		}
	}
	w.invariants("the final withdrawals and undelegations in real blocks")
}
