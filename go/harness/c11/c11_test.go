package c11

// C11 correspondence + monitors: share transfers through the REAL staking precompile of the full in-process app
// (signed eth transactions from EOAs to 0x…1003), interleaved with reward allocation, block boundaries and validator
// slashing (real staking keeper Slash with the real distribution hook).
//
//  * every op line is executed on the real app; the observation line is a canonical dump of the real staking and
//    distribution stores (validator tokens/shares, current period / rewards, outstanding, commission, every
//    historical record with reference count and cumulative ratio, every delegation and starting info, slash events,
//    allowances, reward coins gained per account) and is diffed against the Lean model driver (exact, 18-decimal);
//  * monitors on the real state after every op: staking / distribution / bank AllInvariants, Σ delegations =
//    validator shares, exactness of a transfer, a transfer to oneself changes nothing, allowance decremented by
//    exactly the moved shares, refusal while the sender has an incoming redelegation, a failed op changes nothing;
//    at the end of every history every user withdraws and fully undelegates.

import (
	"bytes"
	"fmt"
	"math/big"
	"math/rand"
	"os"
	"path/filepath"
	"sort"
	"strconv"
	"strings"
	"testing"
	"time"

	sdkmath "cosmossdk.io/math"
	sdk "github.com/cosmos/cosmos-sdk/types"
	bankkeeper "github.com/cosmos/cosmos-sdk/x/bank/keeper"
	banktypes "github.com/cosmos/cosmos-sdk/x/bank/types"
	distrkeeper "github.com/cosmos/cosmos-sdk/x/distribution/keeper"
	distrtypes "github.com/cosmos/cosmos-sdk/x/distribution/types"
	stakingkeeper "github.com/cosmos/cosmos-sdk/x/staking/keeper"
	stakingtypes "github.com/cosmos/cosmos-sdk/x/staking/types"
	"github.com/ethereum/go-ethereum/accounts/abi"
	"github.com/ethereum/go-ethereum/common"
	ethtypes "github.com/ethereum/go-ethereum/core/types"
	"github.com/ethereum/go-ethereum/core/vm"
	evmtypes "github.com/evmos/ethermint/x/evm/types"

	"github.com/functionx/fx-core/v8/contract"
	"github.com/functionx/fx-core/v8/testutil/helpers"
	fxtypes "github.com/functionx/fx-core/v8/types"
	"github.com/functionx/fx-core/v8/x/staking/precompile"
	fxstakingtypes "github.com/functionx/fx-core/v8/x/staking/types"

	"fxverif/harness/evmx"
	"fxverif/harness/hx"
)

var one = new(big.Int).Exp(big.NewInt(10), big.NewInt(18), nil)

type world struct {
	t      *testing.T
	s      *hx.Suite
	out    *hx.Out
	nVal   int
	vals   []sdk.ValAddress
	accs   []sdk.AccAddress  // account index -> address (0..nVal-1 operators, then users)
	sign   []*helpers.Signer // nil for operators
	bal0   []sdkmath.Int
	spent  []sdkmath.Int
	staked common.Address
	distr0  sdkmath.Int       // balance of the distribution module account at genesis
	comm0   sdkmath.LegacyDec // community pool at genesis
	supply0 sdkmath.Int       // supply of the staking denom at genesis (after the users were funded)
	minted  sdkmath.Int       // coins minted by the harness since (reward allocations)
	dead   bool     // a monitor fired: the rest of this history is not meaningful
	lastRet []byte  // return data of the last successful eth transaction
	seq    []string // op lines of this history including the one being executed (replay of a violation)
	// block times: the time at which each height began (entries created at height h complete at timeAt[h] + unbonding
	// time); lastJump = the first height after the last jump of the clock (a `mature H` is exact for H >= lastJump)
	timeAt   map[int64]time.Time
	lastJump int64
	// a spender CONTRACT (account index `contract`, no key): its code is re-installed before every multiFrom op and calls
	// the staking precompile once per (validator, shares) pair
	contract     int
	contractAddr common.Address
}

func newWorld(t *testing.T, out *hx.Out, nVal, nUsers int) *world {
	s := hx.NewSuite(t, nVal)
	w := &world{t: t, s: s, out: out, nVal: nVal, staked: common.HexToAddress(contract.StakingAddress)}
	// validators in the order of the suite's ValAddr; operator account = same bytes
	for i := 0; i < nVal; i++ {
		w.vals = append(w.vals, s.ValAddr[i])
		w.accs = append(w.accs, sdk.AccAddress(s.ValAddr[i]))
		w.sign = append(w.sign, nil)
	}
	for i := 0; i < nUsers; i++ {
		sg := helpers.NewSigner(helpers.NewEthPrivKey())
		s.MintToken(sg.AccAddress(), sdk.NewCoin(fxtypes.DefaultDenom, sdkmath.NewInt(1_000_000).MulRaw(1e18)))
		w.accs = append(w.accs, sg.AccAddress())
		w.sign = append(w.sign, sg)
	}
	// the spender contract is the last account of the universe
	w.contractAddr = common.HexToAddress("0x00000000000000000000000000000000C0DE0C11")
	w.contract = len(w.accs)
	w.accs = append(w.accs, sdk.AccAddress(w.contractAddr.Bytes()))
	w.sign = append(w.sign, nil)
	w.timeAt = map[int64]time.Time{s.Ctx.BlockHeight(): s.Ctx.BlockTime()}
	w.lastJump = s.Ctx.BlockHeight()
	for _, a := range w.accs {
		w.bal0 = append(w.bal0, s.App.BankKeeper.GetBalance(s.Ctx, a, fxtypes.DefaultDenom).Amount)
		w.spent = append(w.spent, sdkmath.ZeroInt())
	}
	w.distr0 = w.moduleBal(distrtypes.ModuleName)
	w.comm0 = w.communityPool()
	w.supply0 = s.App.BankKeeper.GetSupply(s.Ctx, fxtypes.DefaultDenom).Amount
	w.minted = sdkmath.ZeroInt()
	return w
}

func (w *world) moduleBal(name string) sdkmath.Int {
	addr := w.s.App.AccountKeeper.GetModuleAddress(name)
	return w.s.App.BankKeeper.GetBalance(w.s.Ctx, addr, fxtypes.DefaultDenom).Amount
}

func (w *world) communityPool() sdkmath.LegacyDec {
	fp, err := w.s.App.DistrKeeper.FeePool.Get(w.s.Ctx)
	if err != nil {
		return sdkmath.LegacyZeroDec()
	}
	return fp.CommunityPool.AmountOf(fxtypes.DefaultDenom)
}

func (w *world) ctx() sdk.Context { return w.s.Ctx }

// syncHeaderInfo: BaseApp sets the block header and the header info together; the redelegation queue reads the time
// from the header info, the unbonding queue from the block header
func (w *world) syncHeaderInfo() {
	hi := w.s.Ctx.HeaderInfo()
	hi.Height = w.s.Ctx.BlockHeight()
	hi.Time = w.s.Ctx.BlockTime()
	w.s.Ctx = w.s.Ctx.WithHeaderInfo(hi)
}

func (w *world) accIdx(a sdk.AccAddress) int {
	for i, x := range w.accs {
		if bytes.Equal(x, a) {
			return i
		}
	}
	return -1
}

func (w *world) valIdx(a sdk.ValAddress) int {
	for i, x := range w.vals {
		if bytes.Equal(x, a) {
			return i
		}
	}
	return -1
}

func decRaw(d sdkmath.LegacyDec) string {
	if d.IsNil() {
		return "0"
	}
	return d.BigInt().String()
}

func decCoinsRaw(dc sdk.DecCoins) string { return decRaw(dc.AmountOf(fxtypes.DefaultDenom)) }

// resetLine describes the genesis for the model: account count, height, tokens:rate per validator.
func (w *world) resetArgs() []string {
	args := []string{strconv.Itoa(len(w.accs)), strconv.FormatInt(w.ctx().BlockHeight(), 10)}
	for _, v := range w.vals {
		val, err := w.s.App.StakingKeeper.GetValidator(w.ctx(), v)
		if err != nil {
			panic(err)
		}
		args = append(args, val.Tokens.String()+":"+decRaw(val.Commission.Rate))
	}
	return args
}

// dump prints the canonical observation of the real stores.
func (w *world) dump() string {
	ctx := w.ctx()
	app := w.s.App
	var sb strings.Builder
	fmt.Fprintf(&sb, "h=%d", ctx.BlockHeight())
	type hrec struct {
		p    uint64
		refs uint32
		r    string
	}
	hist := map[int][]hrec{}
	app.DistrKeeper.IterateValidatorHistoricalRewards(ctx, func(val sdk.ValAddress, period uint64, rw distrtypes.ValidatorHistoricalRewards) bool {
		i := w.valIdx(val)
		hist[i] = append(hist[i], hrec{period, rw.ReferenceCount, decCoinsRaw(rw.CumulativeRewardRatio)})
		return false
	})
	type srec struct {
		h, p uint64
		f    string
	}
	slashes := map[int][]srec{}
	app.DistrKeeper.IterateValidatorSlashEvents(ctx, func(val sdk.ValAddress, height uint64, ev distrtypes.ValidatorSlashEvent) bool {
		i := w.valIdx(val)
		slashes[i] = append(slashes[i], srec{height, ev.ValidatorPeriod, decRaw(ev.Fraction)})
		return false
	})
	for i, v := range w.vals {
		val, err := app.StakingKeeper.GetValidator(ctx, v)
		if err != nil {
			fmt.Fprintf(&sb, " V%d[gone]", i)
			continue
		}
		cur, _ := app.DistrKeeper.GetValidatorCurrentRewards(ctx, v)
		outst, _ := app.DistrKeeper.GetValidatorOutstandingRewards(ctx, v)
		com, _ := app.DistrKeeper.GetValidatorAccumulatedCommission(ctx, v)
		status := "B"
		if val.IsUnbonded() {
			status = fmt.Sprintf("N%d", val.UnbondingHeight)
		} else if !val.IsBonded() {
			status = fmt.Sprintf("U%d", val.UnbondingHeight)
		}
		if val.IsJailed() {
			status += "J"
		}
		fmt.Fprintf(&sb, " V%d[%s t=%s s=%s p=%d c=%s o=%s m=%s", i, status, val.Tokens.String(), decRaw(val.DelegatorShares), cur.Period,
			decCoinsRaw(cur.Rewards), decCoinsRaw(outst.Rewards), decCoinsRaw(com.Commission))
		hs := hist[i]
		sort.Slice(hs, func(a, b int) bool { return hs[a].p < hs[b].p })
		var rs, ds, is, ss []string
		for _, h := range hs {
			rs = append(rs, fmt.Sprintf("%d:%d:%s", h.p, h.refs, h.r))
		}
		for d, a := range w.accs {
			if del, err := app.StakingKeeper.GetDelegation(ctx, a, v); err == nil {
				ds = append(ds, fmt.Sprintf("%d:%s", d, decRaw(del.Shares)))
			}
			if has, _ := app.DistrKeeper.HasDelegatorStartingInfo(ctx, v, a); has {
				si, _ := app.DistrKeeper.GetDelegatorStartingInfo(ctx, v, a)
				is = append(is, fmt.Sprintf("%d:%d:%s:%d", d, si.PreviousPeriod, decRaw(si.Stake), si.Height))
			}
		}
		sl := slashes[i]
		sort.SliceStable(sl, func(a, b int) bool {
			if sl[a].h != sl[b].h {
				return sl[a].h < sl[b].h
			}
			return sl[a].p < sl[b].p
		})
		for _, e := range sl {
			ss = append(ss, fmt.Sprintf("%d:%d:%s", e.h, e.p, e.f))
		}
		fmt.Fprintf(&sb, " R(%s) D(%s) I(%s) S(%s)]", strings.Join(rs, ","), strings.Join(ds, ","), strings.Join(is, ","), strings.Join(ss, ","))
	}
	var al []string
	app.StakingKeeper.IterateAllAllowance(ctx, func(valAddr sdk.ValAddress, owner, spender sdk.AccAddress, allowance *big.Int) bool {
		if allowance.Sign() != 0 {
			al = append(al, fmt.Sprintf("%d:%d:%d:%s", w.valIdx(valAddr), w.accIdx(owner), w.accIdx(spender), allowance.String()))
		}
		return false
	})
	sort.Slice(al, func(a, b int) bool { return alKey(al[a]) < alKey(al[b]) })
	var gs []string
	for i, a := range w.accs {
		bal := app.BankKeeper.GetBalance(ctx, a, fxtypes.DefaultDenom).Amount
		gs = append(gs, bal.Sub(w.bal0[i]).Add(w.spent[i]).String())
	}
	// unbonding-delegation and redelegation entries (number of entries per key; the refusal of a transfer depends on
	// the incoming redelegations, the SDK's max-entries refusals on both)
	var us, rds []string
	for vi, v := range w.vals {
		for d, a := range w.accs {
			if u, err := app.StakingKeeper.GetUnbondingDelegation(ctx, a, v); err == nil && len(u.Entries) > 0 {
				bal := sdkmath.ZeroInt()
				var hs []string
				for _, e := range u.Entries {
					bal = bal.Add(e.Balance)
					hs = append(hs, strconv.FormatInt(e.CreationHeight, 10))
				}
				us = append(us, fmt.Sprintf("%d:%d:%d:%s:%s", d, vi, len(u.Entries), bal, strings.Join(hs, "/")))
			}
		}
	}
	for si, src := range w.vals {
		for di, dst := range w.vals {
			for d, a := range w.accs {
				if r, err := app.StakingKeeper.GetRedelegation(ctx, a, src, dst); err == nil && len(r.Entries) > 0 {
					var hs, bs, shs []string
					for _, e := range r.Entries {
						hs = append(hs, strconv.FormatInt(e.CreationHeight, 10))
						bs = append(bs, e.InitialBalance.String())
						shs = append(shs, decRaw(e.SharesDst))
					}
					rds = append(rds, fmt.Sprintf("%d:%d:%d:%d:%s:%s:%s", d, si, di, len(r.Entries), strings.Join(hs, "/"), strings.Join(bs, "/"), strings.Join(shs, "/")))
				}
			}
		}
	}
	fmt.Fprintf(&sb, " A(%s) G(%s) U(%s) Rd(%s)", strings.Join(al, ","), strings.Join(gs, ","), strings.Join(us, ","), strings.Join(rds, ","))
	// bank side: the two staking pools, the distribution module account and the community pool (relative to genesis),
	// coins burned (supply at genesis + coins minted by the harness - supply now)
	supply := app.BankKeeper.GetSupply(ctx, fxtypes.DefaultDenom).Amount
	fmt.Fprintf(&sb, " P(%s,%s,%s,%s,%s)", w.moduleBal(stakingtypes.BondedPoolName), w.moduleBal(stakingtypes.NotBondedPoolName),
		w.moduleBal(distrtypes.ModuleName).Sub(w.distr0), decRaw(w.communityPool().Sub(w.comm0)), w.supply0.Add(w.minted).Sub(supply))
	return sb.String()
}

func alKey(s string) string {
	p := strings.Split(s, ":")
	return fmt.Sprintf("%04s:%04s:%04s", p[0], p[1], p[2])
}

// ---------------------------------------------------------------------------------------------------------
// real transactions

// ethTx sends a signed eth transaction from the signer to the staking precompile; returns "" on success, else the
// error text.  The whole call runs in a cache context that is only written when it did not panic (as runTx does).
func (w *world) ethTx(from int, data []byte) (errText string) { return w.ethTxTo(from, w.staked, data) }

// ethTxTo: the same to any contract
func (w *world) ethTxTo(from int, to common.Address, data []byte) (errText string) {
	w.lastRet = nil
	sg := w.sign[from]
	cctx, write := w.s.Ctx.CacheContext()
	res := hx.Try(func() error {
		chainID := fxtypes.EIP155ChainID(cctx.ChainID())
		tx := evmtypes.NewTx(chainID, w.s.App.EvmKeeper.GetNonce(cctx, sg.Address()), &to, big.NewInt(0),
			contract.DefaultGasCap, nil, nil, nil, data, nil)
		tx.From = sg.Address().Bytes()
		if err := tx.Sign(ethtypes.LatestSignerForChainID(chainID), sg); err != nil {
			return err
		}
		r, err := w.s.App.EvmKeeper.EthereumTx(cctx, tx)
		if err != nil {
			return err
		}
		if r.Failed() {
			msg := r.VmError
			if r.VmError == vm.ErrExecutionReverted.Error() {
				if cause, e := abi.UnpackRevert(common.CopyBytes(r.Ret)); e == nil {
					msg = cause
				}
			}
			return fmt.Errorf("vm: %s", msg)
		}
		w.lastRet = common.CopyBytes(r.Ret)
		return nil
	})
	if res == "ok" {
		write()
		return ""
	}
	if strings.HasPrefix(res, "panic:") {
		return res
	}
	// the transaction itself is included (nonce), its effects are reverted by the EVM
	write()
	return res
}

func kindOf(errText string, transferLike bool) string {
	switch {
	case errText == "":
		return "ok"
	case strings.HasPrefix(errText, "panic:"):
		return "panic"
	case !transferLike:
		return "err"
	case strings.Contains(errText, "from has receiving redelegation"):
		return "err:recvRedel"
	case strings.Contains(errText, "insufficient shares"):
		return "err:insufficient"
	case strings.Contains(errText, "exceeds allowance"):
		return "err:allowance"
	case strings.Contains(errText, "invalid shares"), strings.Contains(errText, "invalid validator"):
		return "err:badArgs"
	case strings.Contains(errText, "no delegation for (address, validator) tuple"):
		return "err:noDelegation"
	default:
		return "err:other"
	}
}

type snap struct {
	pools    [3]sdkmath.Int // bonded pool, not-bonded pool, distribution module account
	entries  string         // every unbonding-delegation and redelegation entry of the tracked accounts
	digest   map[string]string
	shares   map[[2]int]sdkmath.LegacyDec // (delegator, validator)
	valTok   []sdkmath.Int
	valShare []sdkmath.LegacyDec
	bals     []sdkmath.Int // liquid balance per account
}

func (w *world) snapshot() snap {
	ctx := w.ctx()
	sn := snap{digest: map[string]string{}, shares: map[[2]int]sdkmath.LegacyDec{}}
	for _, a := range w.accs {
		sn.bals = append(sn.bals, w.s.App.BankKeeper.GetBalance(ctx, a, fxtypes.DefaultDenom).Amount)
	}
	sn.pools = [3]sdkmath.Int{w.moduleBal(stakingtypes.BondedPoolName), w.moduleBal(stakingtypes.NotBondedPoolName), w.moduleBal(distrtypes.ModuleName)}
	var es []string
	for _, a := range w.accs {
		ubds, _ := w.s.App.StakingKeeper.GetUnbondingDelegations(ctx, a, 1000)
		for _, u := range ubds {
			es = append(es, u.String())
		}
		reds, _ := w.s.App.StakingKeeper.GetRedelegations(ctx, a, 1000)
		for _, rd := range reds {
			es = append(es, rd.String())
		}
	}
	sn.entries = strings.Join(es, ";")
	for _, name := range []string{stakingtypes.StoreKey, distrtypes.StoreKey, banktypes.StoreKey} {
		d, _ := hx.DumpStore(ctx, w.s.App.GetKey(name))
		sn.digest[name] = d
	}
	for vi, v := range w.vals {
		val, err := w.s.App.StakingKeeper.GetValidator(ctx, v)
		if err != nil {
			sn.valTok = append(sn.valTok, sdkmath.ZeroInt())
			sn.valShare = append(sn.valShare, sdkmath.LegacyZeroDec())
			continue
		}
		sn.valTok = append(sn.valTok, val.Tokens)
		sn.valShare = append(sn.valShare, val.DelegatorShares)
		for di, a := range w.accs {
			if del, err := w.s.App.StakingKeeper.GetDelegation(ctx, a, v); err == nil {
				sn.shares[[2]int{di, vi}] = del.Shares
			}
		}
	}
	return sn
}

func (sn snap) sh(d, v int) sdkmath.LegacyDec {
	if x, ok := sn.shares[[2]int{d, v}]; ok {
		return x
	}
	return sdkmath.LegacyZeroDec()
}

func sameDigest(a, b snap) []string { return hx.DiffDump(a.digest, b.digest) }

// ---------------------------------------------------------------------------------------------------------
// monitors

func (w *world) violate(desc string) {
	w.out.ViolateWith(desc, append([]string{}, w.seq...))
	w.dead = true
}

func (w *world) invariants(after string) {
	ctx, _ := w.ctx().CacheContext()
	app := w.s.App
	res := hx.Try(func() error {
		if msg, broken := stakingkeeper.AllInvariants(app.StakingKeeper.Keeper)(ctx); broken {
			return fmt.Errorf("staking invariant broken after %s: %s", after, firstLines(msg))
		}
		if msg, broken := distrkeeper.AllInvariants(app.DistrKeeper)(ctx); broken {
			return fmt.Errorf("distribution invariant broken after %s: %s", after, firstLines(msg))
		}
		if msg, broken := bankkeeper.AllInvariants(app.BankKeeper)(ctx); broken {
			return fmt.Errorf("bank invariant broken after %s: %s", after, firstLines(msg))
		}
		return nil
	})
	if res != "ok" {
		w.violate(strings.TrimPrefix(res, "err:"))
		return
	}
	w.refcounts(after)
	if w.dead {
		return
	}
	// Σ delegations = validator shares (all delegations in the store, not only the tracked accounts)
	for i, v := range w.vals {
		val, err := app.StakingKeeper.GetValidator(w.ctx(), v)
		if err != nil {
			continue
		}
		dels, _ := app.StakingKeeper.GetValidatorDelegations(w.ctx(), v)
		sum := sdkmath.LegacyZeroDec()
		for _, d := range dels {
			sum = sum.Add(d.Shares)
		}
		if !sum.Equal(val.DelegatorShares) {
			w.violate(fmt.Sprintf("sum of delegations (%s) != validator %d total shares (%s) after %s", sum, i, val.DelegatorShares, after))
			return
		}
	}
}

func firstLines(s string) string {
	s = strings.TrimSpace(s)
	ls := strings.Split(s, "\n")
	if len(ls) > 3 {
		ls = ls[:3]
	}
	return strings.Join(ls, " / ")
}

// ---------------------------------------------------------------------------------------------------------
// op interpreter (the same lines the Lean driver reads)

func bigOf(s string) *big.Int {
	b, ok := new(big.Int).SetString(s, 10)
	if !ok {
		panic("bad number " + s)
	}
	return b
}

func (w *world) user(i int) bool { return i >= 0 && i < len(w.accs) && w.sign[i] != nil }

// apply executes one op line on the real app and returns the observation.
func (w *world) apply(line string) string {
	w.seq = append(w.seq, line)
	f := strings.Fields(line)
	ints := func(n int) []int {
		r := make([]int, n)
		for i := 0; i < n; i++ {
			r[i], _ = strconv.Atoi(f[1+i])
		}
		return r
	}
	app := w.s.App
	before := w.snapshot()
	allowAll0 := w.allowSnap()
	kind := "ok"
	class := f[0]
	ret := ""
	switch f[0] {
	case "dump":
	case "block":
		// end of block: the staking EndBlocker's validator-set update (jailed or powerless validators leave the active
		// set: Bonded -> Unbonding, their tokens move to the not-bonded pool; others come back), then the next height
		if r := hx.Try(func() error {
			_, err := app.StakingKeeper.ApplyAndReturnValidatorSetUpdates(w.s.Ctx)
			return err
		}); r != "ok" {
			w.violate("validator-set update at the end of the block failed: " + r)
		}
		w.s.Ctx = w.s.Ctx.WithBlockHeight(w.s.Ctx.BlockHeight() + 1).WithBlockTime(w.s.Ctx.BlockTime().Add(5 * time.Second))
		w.syncHeaderInfo()
		w.timeAt[w.s.Ctx.BlockHeight()] = w.s.Ctx.BlockTime()
	case "mature":
		// the unbonding period passes, then the whole staking EndBlocker runs: validator-set update, validators whose
		// unbonding period is over become Unbonded, every mature unbonding-delegation entry is paid back from the not-bonded
		// pool, every mature redelegation entry is dropped
		// `mature H`: only the unbonding periods that began at a height <= H are over (the clock is set to the time of block H
		// + the unbonding time; blocks are 5 s apart): entries created later stay, validators that left the active set later
		// stay Unbonding.  `mature` without argument: everything matures.
		ut, err := app.StakingKeeper.UnbondingTime(w.s.Ctx)
		if err != nil {
			panic(err)
		}
		target := w.s.Ctx.BlockTime().Add(ut + time.Second)
		if len(f) > 1 {
			H, _ := strconv.ParseInt(f[1], 10, 64)
			if t0, ok := w.timeAt[H]; ok && H < w.s.Ctx.BlockHeight() {
				target = t0.Add(ut + time.Second)
				if target.Before(w.s.Ctx.BlockTime()) {
					// the clock cannot go back (H lies before the last jump): not generated; the model would differ
					target = w.s.Ctx.BlockTime()
				}
				class = "mature-partial"
			}
		}
		ubdBefore, redBefore := w.entryCounts()
		w.s.Ctx = w.s.Ctx.WithBlockTime(target)
		w.syncHeaderInfo()
		if r := hx.Try(func() error {
			_, err := app.StakingKeeper.BlockValidatorUpdates(w.s.Ctx)
			return err
		}); r != "ok" {
			w.violate("staking EndBlocker after the unbonding period failed: " + r)
		}
		w.s.Ctx = w.s.Ctx.WithBlockHeight(w.s.Ctx.BlockHeight() + 1).WithBlockTime(w.s.Ctx.BlockTime().Add(5 * time.Second))
		w.syncHeaderInfo()
		w.timeAt[w.s.Ctx.BlockHeight()] = w.s.Ctx.BlockTime()
		w.lastJump = w.s.Ctx.BlockHeight()
		ubdAfter, redAfter := w.entryCounts()
		w.out.Count(fmt.Sprintf("maturity:%s/ubd-entries matured=%s left=%s/redelegation-entries matured=%s left=%s", class,
			some(ubdBefore-ubdAfter), some(ubdAfter), some(redBefore-redAfter), some(redAfter)))
	case "alloc":
		a := ints(1)
		amt := sdkmath.NewIntFromBigInt(bigOf(f[2]))
		coin := sdk.NewCoin(fxtypes.DefaultDenom, amt)
		funder := w.accs[len(w.accs)-1]
		w.s.MintToken(funder, coin)
		w.minted = w.minted.Add(amt)
		if err := app.BankKeeper.SendCoinsFromAccountToModule(w.ctx(), funder, distrtypes.ModuleName, sdk.NewCoins(coin)); err != nil {
			panic(err)
		}
		val, _ := app.StakingKeeper.GetValidator(w.ctx(), w.vals[a[0]])
		if err := app.DistrKeeper.AllocateTokensToValidator(w.ctx(), val, sdk.NewDecCoinsFromCoins(coin)); err != nil {
			panic(err)
		}
	case "slash":
		a := ints(2)
		val, _ := app.StakingKeeper.GetValidator(w.ctx(), w.vals[a[0]])
		cons, _ := val.GetConsAddr()
		factor := sdkmath.LegacyNewDecFromBigIntWithPrec(bigOf(f[3]), 18)
		cctx, write := w.s.Ctx.CacheContext()
		r := hx.Try(func() error {
			_, err := app.StakingKeeper.Slash(cctx, cons, cctx.BlockHeight(), int64(a[1]), factor)
			return err
		})
		if r == "ok" {
			write()
		} else {
			kind = kindOf(r, false)
		}
	case "jail", "unjail":
		// real staking keeper Jail / Unjail (what the slashing module calls): the validator drops out of / returns to
		// the power index; its status changes at the end of the block (validator-set update in `block`)
		a := ints(1)
		val, _ := app.StakingKeeper.GetValidator(w.ctx(), w.vals[a[0]])
		cons, _ := val.GetConsAddr()
		if (f[0] == "jail") == val.IsJailed() {
			kind = "err"
			break
		}
		cctx, write := w.s.Ctx.CacheContext()
		r := hx.Try(func() error {
			if f[0] == "jail" {
				return app.StakingKeeper.Jail(cctx, cons)
			}
			return app.StakingKeeper.Unjail(cctx, cons)
		})
		if r == "ok" {
			write()
		} else {
			kind = kindOf(r, false)
		}
	case "rewards", "delegation":
		// the two read-only methods, called through a real transaction of some user
		a := ints(2)
		caller := -1
		for i := range w.accs {
			if w.sign[i] != nil {
				caller = i
				break
			}
		}
		var data []byte
		var err error
		if f[0] == "rewards" {
			data, err = precompile.NewDelegationRewardsMethod(nil).PackInput(fxstakingtypes.DelegationRewardsArgs{
				Validator: w.vals[a[1]].String(), Delegator: common.BytesToAddress(w.accs[a[0]])})
		} else {
			data, err = precompile.NewDelegationMethod(nil).PackInput(fxstakingtypes.DelegationArgs{
				Validator: w.vals[a[1]].String(), Delegator: common.BytesToAddress(w.accs[a[0]])})
		}
		if err != nil {
			panic(err)
		}
		kind = kindOf(w.ethTx(caller, data), false)
		if kind == "ok" {
			if f[0] == "rewards" {
				if r, e := precompile.NewDelegationRewardsMethod(nil).UnpackOutput(w.lastRet); e == nil {
					ret = " ret=" + r.String()
				} else {
					ret = " ret=undecodable"
				}
			} else if sh, amt, e := precompile.NewDelegationMethod(nil).UnpackOutput(w.lastRet); e == nil {
				ret = fmt.Sprintf(" ret=%s:%s", sh, amt)
			} else {
				ret = " ret=undecodable"
			}
			after := w.snapshot()
			for _, name := range []string{stakingtypes.StoreKey, distrtypes.StoreKey} {
				if before.digest[name] != after.digest[name] {
					w.violate(fmt.Sprintf("read-only method %s changed the %s store", f[0], name))
				}
			}
		}
	case "delegate", "undelegate":
		a := ints(2)
		amt := bigOf(f[3])
		var data []byte
		var err error
		if f[0] == "delegate" {
			data, err = precompile.NewDelegateV2Method(nil).PackInput(fxstakingtypes.DelegateV2Args{Validator: w.vals[a[1]].String(), Amount: amt})
		} else {
			data, err = precompile.NewUndelegateV2Method(nil).PackInput(fxstakingtypes.UndelegateV2Args{Validator: w.vals[a[1]].String(), Amount: amt})
		}
		if err != nil {
			panic(err)
		}
		kind = kindOf(w.ethTx(a[0], data), false)
		if kind == "ok" && f[0] == "delegate" {
			w.spent[a[0]] = w.spent[a[0]].Add(sdkmath.NewIntFromBigInt(amt))
		}
		w.checkFrame(f[0], before, kind, a[0], [][2]int{{a[0], a[1]}}, amt, a[1])
	case "redelegate":
		a := ints(3)
		data, err := precompile.NewRedelegateV2Method(nil).PackInput(fxstakingtypes.RedelegateV2Args{
			ValidatorSrc: w.vals[a[1]].String(), ValidatorDst: w.vals[a[2]].String(), Amount: bigOf(f[4])})
		if err != nil {
			panic(err)
		}
		kind = kindOf(w.ethTx(a[0], data), false)
		w.checkFrame(f[0], before, kind, a[0], [][2]int{{a[0], a[1]}, {a[0], a[2]}}, nil, -1)
	case "withdraw":
		a := ints(2)
		data, err := precompile.NewWithdrawMethod(nil).PackInput(fxstakingtypes.WithdrawArgs{Validator: w.vals[a[1]].String()})
		if err != nil {
			panic(err)
		}
		kind = kindOf(w.ethTx(a[0], data), false)
		w.checkFrame(f[0], before, kind, a[0], nil, nil, -1)
	case "approve":
		a := ints(3)
		data, err := precompile.NewApproveSharesMethod(nil).PackInput(fxstakingtypes.ApproveSharesArgs{
			Validator: w.vals[a[2]].String(), Spender: common.BytesToAddress(w.accs[a[1]]), Shares: bigOf(f[4])})
		if err != nil {
			panic(err)
		}
		kind = kindOf(w.ethTx(a[0], data), false)
		w.checkFrame(f[0], before, kind, a[0], nil, nil, -1)
		if kind == "ok" {
			if got := app.StakingKeeper.GetAllowance(w.ctx(), w.vals[a[2]], w.accs[a[0]], w.accs[a[1]]); got.Cmp(bigOf(f[4])) != 0 {
				w.violate(fmt.Sprintf("approveShares(%s) by account %d for spender %d left allowance %s", f[4], a[0], a[1], got))
			}
		}
	case "transfer":
		a := ints(3)
		x := bigOf(f[4])
		from, to, v := a[0], a[1], a[2]
		recv, _ := app.StakingKeeper.HasReceivingRedelegation(w.ctx(), w.accs[from], w.vals[v])
		data, err := precompile.NewTransferSharesMethod(nil).PackInput(fxstakingtypes.TransferSharesArgs{
			Validator: w.vals[v].String(), To: common.BytesToAddress(w.accs[to]), Shares: x})
		if err != nil {
			panic(err)
		}
		erf, ert := w.expectedPayouts(from, to, v)
		bf, bt := w.bal(from), w.bal(to)
		third := w.thirdParties(from, to, v)
		kind = kindOf(w.ethTx(from, data), true)
		w.checkThird("transferShares", kind, from, to, v, third)
		class = w.checkTransfer("transferShares", before, kind, from, to, v, x, recv)
		w.checkPayouts("transferShares", kind, from, to, v, erf, ert, bf, bt)
		w.checkFresh("transferShares", kind, from, to, v)
		ret = w.retOf(kind, precompile.NewTransferSharesMethod(nil).TransferShare)
		w.checkRet("transferShares", kind, from, to, v, x, before, bt)
		w.transferStats(before, kind, from, to, v, x, erf)
	case "transferFrom":
		a := ints(4)
		x := bigOf(f[5])
		sp, from, to, v := a[0], a[1], a[2], a[3]
		recv, _ := app.StakingKeeper.HasReceivingRedelegation(w.ctx(), w.accs[from], w.vals[v])
		allow0 := app.StakingKeeper.GetAllowance(w.ctx(), w.vals[v], w.accs[from], w.accs[sp])
		data, err := precompile.NewTransferFromSharesMethod(nil).PackInput(fxstakingtypes.TransferFromSharesArgs{
			Validator: w.vals[v].String(), From: common.BytesToAddress(w.accs[from]), To: common.BytesToAddress(w.accs[to]), Shares: x})
		if err != nil {
			panic(err)
		}
		erf, ert := w.expectedPayouts(from, to, v)
		bf, bt := w.bal(from), w.bal(to)
		third := w.thirdParties(from, to, v)
		kind = kindOf(w.ethTx(sp, data), true)
		w.checkThird("transferFromShares", kind, from, to, v, third)
		class = w.checkTransfer("transferFromShares", before, kind, from, to, v, x, recv)
		w.checkPayouts("transferFromShares", kind, from, to, v, erf, ert, bf, bt)
		w.checkFresh("transferFromShares", kind, from, to, v)
		ret = w.retOf(kind, precompile.NewTransferFromSharesMethod(nil).TransferShare)
		w.checkRet("transferFromShares", kind, from, to, v, x, before, bt)
		w.transferStats(before, kind, from, to, v, x, erf)
		allow1 := app.StakingKeeper.GetAllowance(w.ctx(), w.vals[v], w.accs[from], w.accs[sp])
		if kind == "ok" {
			if allow0.Cmp(x) < 0 {
				w.violate(fmt.Sprintf("transferFromShares moved %s shares with allowance %s (more than allowed)", x, allow0))
			} else if new(big.Int).Sub(allow0, x).Cmp(allow1) != 0 {
				w.violate(fmt.Sprintf("transferFromShares of %s shares changed the allowance from %s to %s (not decremented by exactly the moved shares)", x, allow0, allow1))
			}
		} else if allow0.Cmp(allow1) != 0 {
			w.violate(fmt.Sprintf("failed transferFromShares changed the allowance from %s to %s", allow0, allow1))
		} else if kind == "err:allowance" && allow0.Cmp(x) >= 0 {
			w.violate(fmt.Sprintf("transferFromShares of %s shares refused as exceeding the allowance although the allowance is %s (using up the whole allowance must be possible)", x, allow0))
		}
	case "multiFrom":
		// ONE transaction of the spender contract: it calls transferFromShares(v, from, to, x) for every (v, x) pair;
		// `atomic`: a failing call makes the contract revert (everything is undone); `each`: the contract swallows the
		// failure of a call (that call alone is undone)
		mode := f[1]
		var nums []int
		for _, x := range f[2:5] {
			n, _ := strconv.Atoi(x)
			nums = append(nums, n)
		}
		sp, from, to := nums[0], nums[1], nums[2]
		if sp != w.contract || (mode != "atomic" && mode != "each") || (len(f)-5)%2 != 0 || len(f)-5 > 12 {
			return "bad-op"
		}
		type item struct {
			v int
			x *big.Int
		}
		var items []item
		var nodes []*evmx.Node
		for i := 5; i+1 < len(f); i += 2 {
			v, _ := strconv.Atoi(f[i])
			x := bigOf(f[i+1])
			if v < 0 || v >= w.nVal {
				return "bad-op"
			}
			data, err := precompile.NewTransferFromSharesMethod(nil).PackInput(fxstakingtypes.TransferFromSharesArgs{
				Validator: w.vals[v].String(), From: common.BytesToAddress(w.accs[from]), To: common.BytesToAddress(w.accs[to]), Shares: x})
			if err != nil {
				panic(err)
			}
			items = append(items, item{v, x})
			// each call is given 4M gas (of the 30M of the transaction): a FAILED precompile call burns all the gas it was
			// given, so forwarding "all" gas would leave the later calls of an `each` group nothing to run on (gas is not modelled)
			nodes = append(nodes, &evmx.Node{Op: "pre", Kind: evmx.KCall, To: w.staked, Data: data, Swallow: mode == "each", Gas: 4_000_000})
		}
		if err := evmx.Install(w.s.Ctx, app, w.contractAddr, evmx.Assemble(nodes)); err != nil {
			panic(err)
		}
		before = w.snapshot()
		allow0 := map[int]*big.Int{}
		for _, it := range items {
			allow0[it.v] = app.StakingKeeper.GetAllowance(w.ctx(), w.vals[it.v], w.accs[from], w.accs[sp])
		}
		caller := g0user(w)
		errText := w.ethTxTo(caller, w.contractAddr, nil)
		if os.Getenv("C11_DEBUG") != "" && errText != "" {
			fmt.Fprintln(os.Stderr, "multiFrom error:", errText)
		}
		kind = kindOf(errText, false)
		after := w.snapshot()
		// per validator: the allowance went down by exactly the shares that left the owner's delegation, the same shares
		// arrived at the recipient, the validator's tokens and total shares did not move
		want := map[int]*big.Int{}
		for _, it := range items {
			if want[it.v] == nil {
				want[it.v] = new(big.Int)
			}
			want[it.v].Add(want[it.v], it.x)
		}
		moved := 0
		for v, total := range want {
			a1 := app.StakingKeeper.GetAllowance(w.ctx(), w.vals[v], w.accs[from], w.accs[sp])
			dAllow := new(big.Int).Sub(allow0[v], a1)
			dFrom := before.sh(from, v).Sub(after.sh(from, v))
			dTo := after.sh(to, v).Sub(before.sh(to, v))
			if from == to {
				if !dFrom.IsZero() {
					w.violate(fmt.Sprintf("multi-call transferFromShares with from == to changed the delegation at validator %d by %s", v, dFrom))
				}
			} else if !dFrom.Equal(dTo) || !dFrom.Equal(sdkmath.LegacyNewDecFromBigInt(dAllow)) {
				w.violate(fmt.Sprintf("multi-call transferFromShares (%s) at validator %d: allowance -%s, sender -%s, recipient +%s (not the same amount)", mode, v, dAllow, dFrom, dTo))
			}
			if mode == "atomic" && kind == "ok" && dAllow.Cmp(total) != 0 {
				w.violate(fmt.Sprintf("successful multi-call transferFromShares used %s of the allowance at validator %d, the calls moved %s", dAllow, v, total))
			}
			if dAllow.Sign() < 0 || dAllow.Cmp(total) > 0 {
				w.violate(fmt.Sprintf("multi-call transferFromShares changed the allowance at validator %d by %s (requested %s)", v, dAllow, total))
			}
			if !after.valTok[v].Equal(before.valTok[v]) || !after.valShare[v].Equal(before.valShare[v]) {
				w.violate(fmt.Sprintf("multi-call transferFromShares changed validator %d tokens/shares", v))
			}
			if dAllow.Sign() > 0 {
				moved++
			}
		}
		class = fmt.Sprintf("multiFrom-%s/validators=%d/calls=%d/moved-at=%d", mode, len(want), len(items), moved)
		w.out.Count("scenario:" + class + ":" + kind)
	default:
		return "bad-op"
	}
	w.checkAllowFrame(f, allowAll0)
	w.out.Count(f[0] + ":" + kind)
	w.out.Nontrivial(class + ":" + kind)
	if kind == "panic" {
		w.violate("panic in " + f[0] + " through the staking precompile")
	}
	if kind != "ok" && !w.dead {
		if diff := sameDigest(before, w.snapshot()); len(diff) > 0 {
			w.violate(fmt.Sprintf("failed %s (%s) changed stores %v", f[0], kind, diff))
		}
	}
	if !w.dead && f[0] != "dump" && f[0] != "block" && f[0] != "rewards" && f[0] != "delegation" {
		w.invariants(f[0])
	}
	return kind + " | " + w.dump() + ret
}

// allowSnap: every allowance record of the store, keyed by (validator, owner, spender) as stored
func (w *world) allowSnap() map[string]string {
	m := map[string]string{}
	w.s.App.StakingKeeper.IterateAllAllowance(w.ctx(), func(valAddr sdk.ValAddress, owner, spender sdk.AccAddress, a *big.Int) bool {
		if a.Sign() != 0 {
			m[fmt.Sprintf("%d:%d:%d", w.valIdx(valAddr), w.accIdx(owner), w.accIdx(spender))] = a.String()
		}
		return false
	})
	return m
}

// checkAllowFrame: an operation changes no allowance other than the one(s) it names — approve: (validator, caller,
// spender); transferFrom / multiFrom: (validator, from, spender) of each call; everything else: none (allowances are per
// validator: an approval or a transfer at one validator leaves the same pair's allowance at every other validator alone)
func (w *world) checkAllowFrame(f []string, before map[string]string) {
	if w.dead {
		return
	}
	named := map[string]bool{}
	switch f[0] {
	case "approve":
		named[fmt.Sprintf("%s:%s:%s", f[3], f[1], f[2])] = true
	case "transferFrom":
		named[fmt.Sprintf("%s:%s:%s", f[4], f[2], f[1])] = true
	case "multiFrom":
		for i := 5; i+1 < len(f); i += 2 {
			named[fmt.Sprintf("%s:%s:%s", f[i], f[3], f[2])] = true
		}
	}
	after := w.allowSnap()
	keys := map[string]bool{}
	for k := range before {
		keys[k] = true
	}
	for k := range after {
		keys[k] = true
	}
	var ks []string
	for k := range keys {
		ks = append(ks, k)
	}
	sort.Strings(ks)
	for _, k := range ks {
		if before[k] != after[k] && !named[k] {
			w.violate(fmt.Sprintf("%s changed an allowance it does not name: (validator:owner:spender) %s from %q to %q", f[0], k, before[k], after[k]))
			return
		}
	}
}

func some(n int) string {
	switch {
	case n <= 0:
		return "0"
	case n == 1:
		return "1"
	default:
		return ">1"
	}
}

// g0user: the first account with a key (sender of the transactions that are not attributed to anybody)
func g0user(w *world) int {
	for i := range w.accs {
		if w.sign[i] != nil {
			return i
		}
	}
	panic("no user")
}

// entryCounts: number of unbonding-delegation / redelegation entries of the tracked accounts
func (w *world) entryCounts() (ubd, red int) {
	for _, a := range w.accs {
		us, _ := w.s.App.StakingKeeper.GetUnbondingDelegations(w.ctx(), a, 1000)
		for _, u := range us {
			ubd += len(u.Entries)
		}
		rs, _ := w.s.App.StakingKeeper.GetRedelegations(w.ctx(), a, 1000)
		for _, r := range rs {
			red += len(r.Entries)
		}
	}
	return
}

// thirdParties: the rewards the SDK computes right now (period ended on a branch of the state) for every delegator of
// validator v other than the two parties of a transfer, as raw 18-decimal strings ("!…" = the calculation fails).
func (w *world) thirdParties(from, to, v int) map[int]string {
	res := map[int]string{}
	for d := range w.accs {
		if d == from || d == to {
			continue
		}
		cctx, _ := w.ctx().CacheContext()
		app := w.s.App
		del, err := app.StakingKeeper.Delegation(cctx, w.accs[d], w.vals[v])
		if err != nil {
			continue
		}
		out := ""
		r := hx.Try(func() error {
			val, err := app.StakingKeeper.Validator(cctx, w.vals[v])
			if err != nil {
				return err
			}
			ending, err := app.DistrKeeper.IncrementValidatorPeriod(cctx, val)
			if err != nil {
				return err
			}
			rw, err := app.DistrKeeper.CalculateDelegationRewards(cctx, val, del, ending)
			if err != nil {
				return err
			}
			out = decCoinsRaw(rw)
			return nil
		})
		if r != "ok" {
			out = "!" + r
		}
		res[d] = out
	}
	return res
}

// checkThird: a transfer leaves every third party's reward entitlement exactly as it was.
func (w *world) checkThird(name, kind string, from, to, v int, before map[int]string) {
	if kind != "ok" || w.dead {
		return
	}
	after := w.thirdParties(from, to, v)
	for d, b := range before {
		if a := after[d]; a != b {
			w.violate(fmt.Sprintf("%s between accounts %d and %d changed the pending rewards of third party %d at validator %d: %s -> %s (raw 18-decimal)",
				name, from, to, d, v, b, a))
			return
		}
	}
	w.out.Count(fmt.Sprintf("transfer-ok:third-parties=%d", len(before)))
}

// checkFrame: a successful delegate / undelegate / redelegate / withdraw / approve sent by `caller` acts for the caller
// only: no delegation other than the allowed (delegator, validator) pairs changes, nobody else's liquid balance
// changes, and a delegation adds exactly the delegated amount to the validator's tokens.
func (w *world) checkFrame(op string, before snap, kind string, caller int, allowed [][2]int, amt *big.Int, v int) {
	if kind != "ok" || w.dead {
		return
	}
	after := w.snapshot()
	ok := func(d, vi int) bool {
		for _, p := range allowed {
			if p[0] == d && p[1] == vi {
				return true
			}
		}
		return false
	}
	for vi := range w.vals {
		for d := range w.accs {
			if !ok(d, vi) && !before.sh(d, vi).Equal(after.sh(d, vi)) {
				w.violate(fmt.Sprintf("%s sent by account %d changed the delegation of account %d at validator %d: %s -> %s (a staking operation through the precompile acts for its caller only)",
					op, caller, d, vi, before.sh(d, vi), after.sh(d, vi)))
				return
			}
		}
	}
	for d := range w.accs {
		if d != caller && !before.bals[d].Equal(after.bals[d]) {
			w.violate(fmt.Sprintf("%s sent by account %d changed the balance of account %d: %s -> %s", op, caller, d, before.bals[d], after.bals[d]))
			return
		}
	}
	if op == "delegate" && amt != nil && v >= 0 {
		if !after.valTok[v].Sub(before.valTok[v]).Equal(sdkmath.NewIntFromBigInt(amt)) {
			w.violate(fmt.Sprintf("delegate of %s changed validator %d tokens %s -> %s", amt, v, before.valTok[v], after.valTok[v]))
		}
	}
}

// retOf: the values a successful transferShares / transferFromShares call returns (token worth of the moved shares,
// reward coins paid to the recipient), compared with the model.
func (w *world) retOf(kind string, m *precompile.TransferShare) string {
	if kind != "ok" {
		return ""
	}
	token, reward, err := m.UnpackOutput(w.lastRet)
	if err != nil {
		return " ret=undecodable"
	}
	return fmt.Sprintf(" ret=%s:%s", token, reward)
}

// checkRet: the call reports the token worth of the moved shares at the validator's exchange rate and exactly the
// reward coins the recipient was paid.
func (w *world) checkRet(name, kind string, from, to, v int, x *big.Int, before snap, bt sdkmath.Int) {
	if kind != "ok" || w.dead {
		return
	}
	token, reward, err := precompile.NewTransferSharesMethod(nil).UnpackOutput(w.lastRet)
	if err != nil {
		w.violate(name + " returned undecodable data")
		return
	}
	val, err := w.s.App.StakingKeeper.GetValidator(w.ctx(), w.vals[v])
	if err != nil {
		return
	}
	if want := val.TokensFromShares(sdkmath.LegacyNewDecFromBigInt(x)).TruncateInt().BigInt(); token.Cmp(want) != 0 {
		w.violate(fmt.Sprintf("%s of %s shares reported token worth %s, TokensFromShares(shares) = %s", name, x, token, want))
		return
	}
	paid := big.NewInt(0)
	if from != to {
		paid = w.bal(to).Sub(bt).BigInt()
	}
	if reward.Cmp(paid) != 0 {
		w.violate(fmt.Sprintf("%s reported %s reward coins for the recipient, who was paid %s", name, reward, paid))
	}
}

// transferStats records the measured distribution of the transfer inputs.
func (w *world) transferStats(before snap, kind string, from, to, v int, x *big.Int, erf *big.Int) {
	if kind != "ok" || from == to {
		return
	}
	ctx := w.ctx()
	slashed := false
	w.s.App.DistrKeeper.IterateValidatorSlashEvents(ctx, func(val sdk.ValAddress, _ uint64, _ distrtypes.ValidatorSlashEvent) bool {
		if bytes.Equal(val, w.vals[v]) {
			slashed = true
			return true
		}
		return false
	})
	if slashed {
		w.out.Count("transfer-ok:validator-slashed-before")
	}
	if val, err := w.s.App.StakingKeeper.GetValidator(ctx, w.vals[v]); err == nil && val.IsUnbonded() {
		w.out.Count("transfer-ok:validator-unbonded")
	}
	if val, err := w.s.App.StakingKeeper.GetValidator(ctx, w.vals[v]); err == nil && !val.IsBonded() {
		w.out.Count("transfer-ok:validator-not-bonded")
		if erf != nil && erf.Sign() > 0 {
			w.out.Count("transfer-ok:validator-not-bonded+sender-rewards-pending")
		}
	}
	if !before.sh(from, v).Equal(before.sh(from, v).TruncateDec()) {
		w.out.Count("transfer-ok:sender-fractional-shares")
	}
	if !before.sh(to, v).IsZero() && !before.sh(to, v).Equal(before.sh(to, v).TruncateDec()) {
		w.out.Count("transfer-ok:recipient-fractional-shares")
	}
	if erf != nil && erf.Sign() > 0 {
		w.out.Count("transfer-ok:sender-rewards-paid")
	}
	if !before.valShare[v].Equal(sdkmath.LegacyNewDecFromInt(before.valTok[v])) {
		w.out.Count("transfer-ok:exchange-rate-not-1")
	}
}

// checkFresh: after a successful transfer between different accounts each party's starting info is exactly the one
// the SDK's own initializeDelegation would write for its new shares now (stake re-derived from the shares at the
// validator's exchange rate, current height, a period whose cumulative ratio equals that of the period just ended),
// the validator's current rewards are zero, and a party without a delegation has no starting info.
func (w *world) checkFresh(name, kind string, from, to, v int) {
	if kind != "ok" || from == to || w.dead {
		return
	}
	ctx := w.ctx()
	app := w.s.App
	val, err := app.StakingKeeper.GetValidator(ctx, w.vals[v])
	if err != nil {
		return
	}
	cur, _ := app.DistrKeeper.GetValidatorCurrentRewards(ctx, w.vals[v])
	if !cur.Rewards.IsZero() {
		w.violate(fmt.Sprintf("%s left validator current rewards %s (the period was not ended)", name, cur.Rewards))
		return
	}
	last, _ := app.DistrKeeper.GetValidatorHistoricalRewards(ctx, w.vals[v], cur.Period-1)
	for _, d := range []int{from, to} {
		who := "sender"
		if d == to {
			who = "recipient"
		}
		has, _ := app.DistrKeeper.HasDelegatorStartingInfo(ctx, w.vals[v], w.accs[d])
		del, err := app.StakingKeeper.GetDelegation(ctx, w.accs[d], w.vals[v])
		if err != nil {
			if has {
				w.violate(fmt.Sprintf("%s left a starting info for the %s who has no delegation any more", name, who))
				return
			}
			continue
		}
		if !has {
			w.violate(fmt.Sprintf("%s left the %s's delegation without a starting info", name, who))
			return
		}
		si, _ := app.DistrKeeper.GetDelegatorStartingInfo(ctx, w.vals[v], w.accs[d])
		want := val.TokensFromSharesTruncated(del.Shares)
		if !si.Stake.Equal(want) {
			w.violate(fmt.Sprintf("%s left the %s with starting stake %s, TokensFromSharesTruncated(its shares %s) = %s (reward entitlement not re-derived from the shares)",
				name, who, si.Stake, del.Shares, want))
			return
		}
		if si.Height != uint64(ctx.BlockHeight()) {
			w.violate(fmt.Sprintf("%s left the %s with starting height %d at block %d", name, who, si.Height, ctx.BlockHeight()))
			return
		}
		rec, _ := app.DistrKeeper.GetValidatorHistoricalRewards(ctx, w.vals[v], si.PreviousPeriod)
		if rec.ReferenceCount == 0 || !decCoinsRawEq(rec.CumulativeRewardRatio, last.CumulativeRewardRatio) {
			w.violate(fmt.Sprintf("%s left the %s starting at period %d (refs %d, ratio %s) while the period just ended is %d (ratio %s)",
				name, who, si.PreviousPeriod, rec.ReferenceCount, decCoinsRaw(rec.CumulativeRewardRatio), cur.Period-1, decCoinsRaw(last.CumulativeRewardRatio)))
			return
		}
	}
}

func decCoinsRawEq(a, b sdk.DecCoins) bool { return decCoinsRaw(a) == decCoinsRaw(b) }

// refcounts: per validator and period, the reference count of the historical record = starting infos pointing at it
// + 1 for the period before the current one + slash events recorded for it (the per-period form of the SDK's
// ReferenceCountInvariant); a delegation exists exactly when a starting info exists.
func (w *world) refcounts(after string) {
	ctx := w.ctx()
	app := w.s.App
	type key struct {
		v int
		p uint64
	}
	want := map[key]uint32{}
	for i, v := range w.vals {
		if cur, err := app.DistrKeeper.GetValidatorCurrentRewards(ctx, v); err == nil && cur.Period > 0 {
			want[key{i, cur.Period - 1}]++
		}
	}
	bad := ""
	app.DistrKeeper.IterateDelegatorStartingInfos(ctx, func(val sdk.ValAddress, del sdk.AccAddress, info distrtypes.DelegatorStartingInfo) bool {
		want[key{w.valIdx(val), info.PreviousPeriod}]++
		if _, err := app.StakingKeeper.GetDelegation(ctx, del, val); err != nil && bad == "" {
			bad = fmt.Sprintf("starting info of account %d at validator %d without a delegation", w.accIdx(del), w.valIdx(val))
		}
		return false
	})
	app.DistrKeeper.IterateValidatorSlashEvents(ctx, func(val sdk.ValAddress, _ uint64, ev distrtypes.ValidatorSlashEvent) bool {
		want[key{w.valIdx(val), ev.ValidatorPeriod}]++
		return false
	})
	got := map[key]uint32{}
	app.DistrKeeper.IterateValidatorHistoricalRewards(ctx, func(val sdk.ValAddress, period uint64, rw distrtypes.ValidatorHistoricalRewards) bool {
		got[key{w.valIdx(val), period}] = rw.ReferenceCount
		return false
	})
	for k, n := range want {
		if got[k] != n && bad == "" {
			bad = fmt.Sprintf("historical record of validator %d period %d has reference count %d, referenced by %d (starting infos + current period + slash events)", k.v, k.p, got[k], n)
		}
	}
	for k, n := range got {
		if want[k] != n && bad == "" {
			bad = fmt.Sprintf("historical record of validator %d period %d has reference count %d, referenced by %d (starting infos + current period + slash events)", k.v, k.p, n, want[k])
		}
	}
	if bad == "" {
		for _, v := range w.vals {
			dels, _ := app.StakingKeeper.GetValidatorDelegations(ctx, v)
			for _, d := range dels {
				da, _ := sdk.AccAddressFromBech32(d.DelegatorAddress)
				if has, _ := app.DistrKeeper.HasDelegatorStartingInfo(ctx, v, da); !has {
					bad = fmt.Sprintf("delegation of account %d at validator %d without a starting info", w.accIdx(da), w.valIdx(v))
				}
			}
		}
	}
	if bad != "" {
		w.violate("reference counts inconsistent after " + after + ": " + bad)
	}
}

// checkTransfer evaluates the transfer clauses of the property on the real state; returns the input class.
// expectedPayout runs the SDK's own WithdrawDelegationRewards for d at validator v on a branch of the state and
// returns the coins it pays (nil if d has no delegation there).
func (w *world) expectedPayouts(from, to, v int) (rf, rt *big.Int) {
	cctx, _ := w.ctx().CacheContext()
	get := func(d int) *big.Int {
		if _, err := w.s.App.StakingKeeper.GetDelegation(cctx, w.accs[d], w.vals[v]); err != nil {
			return nil
		}
		var amt *big.Int
		hx.Try(func() error {
			coins, err := w.s.App.DistrKeeper.WithdrawDelegationRewards(cctx, w.accs[d], w.vals[v])
			if err == nil {
				amt = coins.AmountOf(fxtypes.DefaultDenom).BigInt()
			}
			return err
		})
		return amt
	}
	rf = get(from)
	if to != from {
		rt = get(to)
	}
	return rf, rt
}

// pendingNextBlock: rewards the SDK would compute for d one block later with no allocation in between.
func (w *world) pendingNextBlock(d, v int) (string, bool) {
	cctx, _ := w.ctx().CacheContext()
	cctx = cctx.WithBlockHeight(cctx.BlockHeight() + 1)
	app := w.s.App
	res := "0"
	r := hx.Try(func() error {
		val, err := app.StakingKeeper.Validator(cctx, w.vals[v])
		if err != nil {
			return err
		}
		del, err := app.StakingKeeper.Delegation(cctx, w.accs[d], w.vals[v])
		if err != nil {
			return nil // no delegation left: nothing pending
		}
		ending, err := app.DistrKeeper.IncrementValidatorPeriod(cctx, val)
		if err != nil {
			return err
		}
		rw, err := app.DistrKeeper.CalculateDelegationRewards(cctx, val, del, ending)
		if err != nil {
			return err
		}
		res = decCoinsRaw(rw)
		return nil
	})
	if r != "ok" {
		return r, false
	}
	return res, res == "0"
}

func (w *world) checkTransfer(name string, before snap, kind string, from, to, v int, x *big.Int, recv bool) string {
	after := w.snapshot()
	xs := sdkmath.LegacyNewDecFromBigInt(x)
	class := name
	switch {
	case from == to:
		class += "/self"
	case before.sh(to, v).IsZero():
		class += "/new-recipient"
	default:
		class += "/existing-recipient"
	}
	if before.sh(from, v).Equal(xs) {
		class += "/full"
	} else {
		class += "/partial"
	}
	if recv {
		class += "/incoming-redelegation"
	}
	if kind != "ok" {
		// a refusal must be truthful: the quantifier of the property includes FULL amounts, so "insufficient shares" for a
		// sender that holds at least x (boundary: exactly x) — or a redelegation refusal without an incoming redelegation —
		// denies a transfer the property promises
		if kind == "err:insufficient" && x.Sign() > 0 && before.sh(from, v).GTE(xs) {
			w.violate(fmt.Sprintf("%s of %s shares refused as insufficient although the sender holds %s shares (a transfer of the full amount must be possible)", name, x, before.sh(from, v)))
		}
		if kind == "err:recvRedel" && !recv {
			w.violate(name + " refused because of an incoming redelegation the sender does not have")
		}
		return class
	}
	if recv {
		w.violate(name + " succeeded although the sender has an incoming redelegation at the validator")
		return class
	}
	if !after.valTok[v].Equal(before.valTok[v]) || !after.valShare[v].Equal(before.valShare[v]) {
		w.violate(fmt.Sprintf("%s changed the validator: tokens %s -> %s, shares %s -> %s", name, before.valTok[v], after.valTok[v], before.valShare[v], after.valShare[v]))
		return class
	}
	// the chain around the transfer: no tokens move between or out of the staking pools, no unbonding / redelegation
	// record changes, nothing changes at any other validator, the distribution module account pays exactly what the two
	// parties receive
	if !after.pools[0].Equal(before.pools[0]) || !after.pools[1].Equal(before.pools[1]) {
		w.violate(fmt.Sprintf("%s moved tokens of the staking pools: bonded %s -> %s, not bonded %s -> %s", name, before.pools[0], after.pools[0], before.pools[1], after.pools[1]))
		return class
	}
	if after.entries != before.entries {
		w.violate(name + " changed an unbonding-delegation or redelegation record")
		return class
	}
	for vi := range w.vals {
		if vi == v {
			continue
		}
		if !after.valTok[vi].Equal(before.valTok[vi]) || !after.valShare[vi].Equal(before.valShare[vi]) {
			w.violate(fmt.Sprintf("%s at validator %d changed validator %d", name, v, vi))
			return class
		}
		for d := range w.accs {
			if !before.sh(d, vi).Equal(after.sh(d, vi)) {
				w.violate(fmt.Sprintf("%s at validator %d changed the delegation of account %d at validator %d: %s -> %s", name, v, d, vi, before.sh(d, vi), after.sh(d, vi)))
				return class
			}
		}
	}
	received := sdkmath.ZeroInt()
	for d := range w.accs {
		diff := after.bals[d].Sub(before.bals[d])
		if d != from && d != to && !diff.IsZero() {
			w.violate(fmt.Sprintf("%s between accounts %d and %d changed the balance of account %d by %s", name, from, to, d, diff))
			return class
		}
		received = received.Add(diff)
	}
	if paid := before.pools[2].Sub(after.pools[2]); !paid.Equal(received) {
		w.violate(fmt.Sprintf("%s: the distribution module account paid %s, the two parties received %s", name, paid, received))
		return class
	}
	if from == to {
		if !after.sh(from, v).Equal(before.sh(from, v)) {
			w.violate(fmt.Sprintf("%s with from == to changed the delegation: shares %s -> %s while validator shares stay %s (transfer to oneself must change nothing)",
				name, before.sh(from, v), after.sh(from, v), after.valShare[v]))
			return class
		}
		diff := sameDigest(before, after)
		if name == "transferFromShares" {
			// the spender's allowance (kept in the staking store) is consumed; everything else must stay
			var d2 []string
			for _, d := range diff {
				if d != stakingtypes.StoreKey {
					d2 = append(d2, d)
				}
			}
			diff = d2
		}
		if len(diff) > 0 {
			w.violate(fmt.Sprintf("%s with from == to changed stores %v (transfer to oneself must change nothing)", name, diff))
		}
		return class
	}
	if !before.sh(from, v).Sub(xs).Equal(after.sh(from, v)) || !before.sh(to, v).Add(xs).Equal(after.sh(to, v)) {
		w.violate(fmt.Sprintf("%s of %s shares: sender %s -> %s, recipient %s -> %s (not exactly -x / +x)", name, x,
			before.sh(from, v), after.sh(from, v), before.sh(to, v), after.sh(to, v)))
	}
	return class
}

func (w *world) bal(d int) sdkmath.Int {
	return w.s.App.BankKeeper.GetBalance(w.ctx(), w.accs[d], fxtypes.DefaultDenom).Amount
}

// checkPayouts: each party of a successful transfer between different accounts received exactly what the SDK's own
// WithdrawDelegationRewards pays at that moment, and nothing is pending for either right afterwards.
func (w *world) checkPayouts(name, kind string, from, to, v int, erf, ert *big.Int, bf, bt sdkmath.Int) {
	if kind != "ok" || from == to || w.dead {
		return
	}
	gf := w.bal(from).Sub(bf).BigInt()
	gt := w.bal(to).Sub(bt).BigInt()
	if erf != nil && gf.Cmp(erf) != 0 {
		w.violate(fmt.Sprintf("%s paid the sender %s reward coins, accrued up to now: %s", name, gf, erf))
		return
	}
	want := big.NewInt(0)
	if ert != nil {
		want = ert
	}
	if gt.Cmp(want) != 0 {
		w.violate(fmt.Sprintf("%s paid the recipient %s reward coins, accrued up to now: %s", name, gt, want))
		return
	}
	for _, d := range []int{from, to} {
		if p, ok := w.pendingNextBlock(d, v); !ok {
			w.violate(fmt.Sprintf("%s left pending rewards %s (raw 18-decimal) for a party right after the transfer with no allocation in between (starting info does not point at the period just ended)", name, p))
			return
		}
	}
}

// ---------------------------------------------------------------------------------------------------------
// generator

type gen struct {
	w     *world
	rng   *rand.Rand
	queue []string // lines of a multi-step scenario still to be emitted
}

// allowanceRace: one owner, two spenders, one or two validators, everything within one block: both spenders are
// approved for ALL of the owner's whole shares at each validator, the first moves most of them, the second tries to
// move all (must be refused: the shares are gone, its allowance must stay), then moves exactly the remainder; the same
// interleaved at a second validator when the owner delegates there too (allowances are per validator).
func (g *gen) allowanceRace() []string {
	w, r := g.w, g.rng
	us := g.users()
	if len(us) < 3 {
		return nil
	}
	type pos struct {
		v     int
		whole *big.Int
	}
	var owner int = -1
	var ps []pos
	for _, o := range r.Perm(len(us)) {
		ps = nil
		for v := 0; v < w.nVal; v++ {
			if wh := g.sharesOf(us[o], v).TruncateInt().BigInt(); wh.Cmp(big.NewInt(2)) >= 0 {
				ps = append(ps, pos{v, wh})
			}
		}
		if len(ps) > 0 {
			owner = us[o]
			break
		}
	}
	if owner < 0 {
		return nil
	}
	var others []int
	for _, u := range us {
		if u != owner {
			others = append(others, u)
		}
	}
	r.Shuffle(len(others), func(i, j int) { others[i], others[j] = others[j], others[i] })
	s1, s2 := others[0], others[1]
	to := others[r.Intn(len(others))]
	if r.Intn(5) == 0 {
		to = owner // the two parties coincide: nothing moves, the allowance is still consumed
	}
	if len(ps) > 2 {
		ps = ps[:2]
	}
	var lines []string
	for _, p := range ps {
		lines = append(lines, fmt.Sprintf("approve %d %d %d %s", owner, s1, p.v, p.whole), fmt.Sprintf("approve %d %d %d %s", owner, s2, p.v, p.whole))
	}
	type mv struct {
		v       int
		first   *big.Int
		whole   *big.Int
		remains *big.Int
	}
	var ms []mv
	for _, p := range ps {
		k := new(big.Int).Rand(r, new(big.Int).Rsh(p.whole, 1)) // 0 … whole/2 - 1 stay behind
		ms = append(ms, mv{p.v, new(big.Int).Sub(p.whole, k), p.whole, k})
	}
	for _, m := range ms {
		lines = append(lines, fmt.Sprintf("transferFrom %d %d %d %d %s", s1, owner, to, m.v, m.first))
	}
	for _, m := range ms {
		lines = append(lines, fmt.Sprintf("transferFrom %d %d %d %d %s", s2, owner, to, m.v, m.whole))
	}
	for _, m := range ms {
		if m.remains.Sign() > 0 {
			lines = append(lines, fmt.Sprintf("transferFrom %d %d %d %d %s", s2, owner, to, m.v, m.remains))
		}
	}
	w.out.Count(fmt.Sprintf("scenario:allowance-race/validators=%d", len(ps)))
	return lines
}

// multiScenario: an owner approves the spender CONTRACT at one or more validators; then ONE transaction of the contract
// calls transferFromShares once per (validator, shares) pair: everything within the allowances (all calls succeed), the
// last call one share above its allowance or above the delegation (atomic: the whole transaction, including the calls
// that had succeeded, is undone; each: only that call), the same validator twice (the allowance is shared).
func (g *gen) multiScenario() []string {
	w, r := g.w, g.rng
	us := g.users()
	type pos struct {
		v     int
		whole *big.Int
	}
	owner := -1
	var ps []pos
	for _, o := range r.Perm(len(us)) {
		ps = nil
		for v := 0; v < w.nVal; v++ {
			if wh := g.sharesOf(us[o], v).TruncateInt().BigInt(); wh.Cmp(big.NewInt(4)) >= 0 {
				ps = append(ps, pos{v, wh})
			}
		}
		if len(ps) > 0 {
			owner = us[o]
			break
		}
	}
	if owner < 0 {
		return nil
	}
	to := hx.Pick(r, us)
	if r.Intn(8) == 0 {
		to = owner
	}
	mode := "atomic"
	if r.Intn(3) == 0 {
		mode = "each"
	}
	var lines, calls []string
	bad := r.Intn(3) // 0: some call exceeds its allowance / the delegation
	for i, p := range ps {
		allow := new(big.Int).Add(new(big.Int).Rand(r, p.whole), big.NewInt(1)) // 1 … whole
		if r.Intn(3) == 0 {
			allow = p.whole
		}
		lines = append(lines, fmt.Sprintf("approve %d %d %d %s", owner, w.contract, p.v, allow))
		x := new(big.Int).Set(allow)
		switch {
		case bad == 0 && i == len(ps)-1:
			x.Add(x, big.NewInt(1))
			calls = append(calls, fmt.Sprintf("%d %s", p.v, x))
		case r.Intn(3) == 0 && allow.Cmp(big.NewInt(2)) >= 0:
			// the same validator twice: the two calls share the allowance
			a := new(big.Int).Add(new(big.Int).Rand(r, new(big.Int).Sub(allow, big.NewInt(1))), big.NewInt(1))
			calls = append(calls, fmt.Sprintf("%d %s", p.v, a), fmt.Sprintf("%d %s", p.v, new(big.Int).Sub(allow, a)))
		default:
			calls = append(calls, fmt.Sprintf("%d %s", p.v, x))
		}
	}
	if r.Intn(2) == 0 {
		lines = append(lines, "block")
	}
	lines = append(lines, fmt.Sprintf("multiFrom %s %d %d %d %s", mode, w.contract, owner, to, strings.Join(calls, " ")))
	return lines
}

func (g *gen) users() []int {
	var u []int
	for i := range g.w.accs {
		if g.w.sign[i] != nil {
			u = append(u, i)
		}
	}
	return u
}

func (g *gen) amount() *big.Int {
	r := g.rng
	switch r.Intn(8) {
	case 0:
		return big.NewInt(1)
	case 1:
		return big.NewInt(int64(1 + r.Intn(1000)))
	case 2:
		return new(big.Int).Mul(one, big.NewInt(int64(1+r.Intn(50))))
	case 3:
		return new(big.Int).Add(new(big.Int).Mul(one, big.NewInt(int64(r.Intn(30)))), big.NewInt(r.Int63n(1_000_000_000_000_000_000)))
	case 4:
		return new(big.Int).Mul(one, big.NewInt(int64(100+r.Intn(2000))))
	default:
		return new(big.Int).Add(new(big.Int).Mul(one, big.NewInt(int64(1+r.Intn(20)))), big.NewInt(int64(r.Intn(7))))
	}
}

// delegators of validator v among users
func (g *gen) holders(v int) []int {
	var hs []int
	for _, u := range g.users() {
		if _, err := g.w.s.App.StakingKeeper.GetDelegation(g.w.ctx(), g.w.accs[u], g.w.vals[v]); err == nil {
			hs = append(hs, u)
		}
	}
	return hs
}

func (g *gen) sharesOf(d, v int) sdkmath.LegacyDec {
	del, err := g.w.s.App.StakingKeeper.GetDelegation(g.w.ctx(), g.w.accs[d], g.w.vals[v])
	if err != nil {
		return sdkmath.LegacyZeroDec()
	}
	return del.Shares
}

// transferAmount: boundary-biased number of whole shares
func (g *gen) transferAmount(d, v int) *big.Int {
	sh := g.sharesOf(d, v)
	whole := sh.TruncateInt().BigInt()
	r := g.rng
	switch r.Intn(10) {
	case 0:
		return big.NewInt(1)
	case 1, 2, 3:
		return whole // everything (full when the shares are integral)
	case 4:
		return new(big.Int).Add(whole, big.NewInt(1)) // one too many
	case 5:
		if whole.Sign() > 0 {
			return new(big.Int).Sub(whole, big.NewInt(1))
		}
		return big.NewInt(1)
	case 6:
		return big.NewInt(0) // malformed
	default:
		if whole.Sign() <= 0 {
			return big.NewInt(1)
		}
		return new(big.Int).Add(new(big.Int).Rand(r, whole), big.NewInt(1))
	}
}

func (g *gen) pickTo(from int) int {
	us := g.users()
	if g.rng.Intn(6) == 0 {
		return from // self
	}
	if g.rng.Intn(10) == 0 {
		return g.rng.Intn(len(g.w.accs)) // any account, validator operators (holders of a self-delegation) included
	}
	return hx.Pick(g.rng, us)
}

func (g *gen) next() string {
	w, r := g.w, g.rng
	if len(g.queue) > 0 {
		l := g.queue[0]
		g.queue = g.queue[1:]
		return l
	}
	if r.Intn(30) == 0 {
		if ls := g.allowanceRace(); len(ls) > 0 {
			g.queue = ls[1:]
			return ls[0]
		}
	}
	if r.Intn(22) == 0 {
		if ls := g.multiScenario(); len(ls) > 0 {
			g.queue = ls[1:]
			return ls[0]
		}
	}
	us := g.users()
	v := r.Intn(w.nVal)
	hs := g.holders(v)
	roll := r.Intn(100)
	// the unbonding period passes (unbonding entries are paid back, redelegations complete, Unbonding -> Unbonded)
	if r.Intn(35) == 0 {
		cur := w.ctx().BlockHeight()
		if r.Intn(2) == 0 && w.lastJump < cur {
			// only the unbonding periods that began up to block H are over
			return fmt.Sprintf("mature %d", w.lastJump+r.Int63n(cur-w.lastJump))
		}
		return "mature"
	}
	// validator status changes: a validator with delegators leaves the active set (jailed) and may come back
	if r.Intn(25) == 0 {
		val, _ := w.s.App.StakingKeeper.GetValidator(w.ctx(), w.vals[v])
		if !val.IsJailed() {
			return fmt.Sprintf("jail %d", v)
		}
		return fmt.Sprintf("unjail %d", v)
	}
	if roll >= 16 && roll < 28 {
		// rewards are allocated to bonded validators only
		if val, _ := w.s.App.StakingKeeper.GetValidator(w.ctx(), w.vals[v]); !val.IsBonded() {
			roll = 40 + r.Intn(20) // a transfer instead
		}
	}
	switch {
	case roll < 16 || len(hs) == 0 && roll < 60:
		return fmt.Sprintf("delegate %d %d %s", hx.Pick(r, us), v, g.amount())
	case roll < 28:
		return fmt.Sprintf("alloc %d %s", v, g.amount())
	case roll < 38:
		return "block"
	case roll < 60 && len(hs) > 0:
		from := hx.Pick(r, hs)
		return fmt.Sprintf("transfer %d %d %d %s", from, g.pickTo(from), v, g.transferAmount(from, v))
	case roll < 68:
		owner := hx.Pick(r, us)
		if len(hs) > 0 && r.Intn(4) != 0 {
			owner = hx.Pick(r, hs)
		}
		amt := g.transferAmount(owner, v)
		if r.Intn(3) == 0 {
			amt = new(big.Int).Mul(amt, big.NewInt(3))
		}
		return fmt.Sprintf("approve %d %d %d %s", owner, hx.Pick(r, us), v, amt)
	case roll < 80:
		// transferFrom: prefer an existing allowance
		type al struct{ v, o, s int }
		var als []al
		w.s.App.StakingKeeper.IterateAllAllowance(w.ctx(), func(valAddr sdk.ValAddress, owner, spender sdk.AccAddress, a *big.Int) bool {
			// (the spender contract has no key: its allowances are used by multiFrom only)
			if a.Sign() > 0 && w.user(w.accIdx(spender)) {
				als = append(als, al{w.valIdx(valAddr), w.accIdx(owner), w.accIdx(spender)})
			}
			return false
		})
		if len(als) > 0 && r.Intn(5) != 0 {
			a := hx.Pick(r, als)
			allow := w.s.App.StakingKeeper.GetAllowance(w.ctx(), w.vals[a.v], w.accs[a.o], w.accs[a.s])
			amt := g.transferAmount(a.o, a.v)
			whole := g.sharesOf(a.o, a.v).TruncateInt().BigInt()
			lim := allow
			if whole.Cmp(lim) < 0 {
				lim = whole
			}
			switch r.Intn(6) {
			case 0:
				amt = allow
			case 1:
				amt = new(big.Int).Add(allow, big.NewInt(1))
			case 2, 3:
				amt = lim // as much as both the allowance and the delegation permit
			case 4:
				if lim.Sign() > 0 {
					amt = new(big.Int).Add(new(big.Int).Rand(r, lim), big.NewInt(1))
				}
			}
			return fmt.Sprintf("transferFrom %d %d %d %d %s", a.s, a.o, g.pickTo(a.o), a.v, amt)
		}
		from := hx.Pick(r, us)
		return fmt.Sprintf("transferFrom %d %d %d %d %s", hx.Pick(r, us), from, g.pickTo(from), v, g.transferAmount(from, v))
	case roll < 83:
		return fmt.Sprintf("withdraw %d %d", hx.Pick(r, us), v)
	case roll < 86:
		// read-only queries of anybody's position (operators included)
		if r.Intn(3) == 0 {
			return fmt.Sprintf("delegation %d %d", r.Intn(len(w.accs)), v)
		}
		if len(hs) > 0 && r.Intn(2) == 0 {
			return fmt.Sprintf("rewards %d %d", hx.Pick(r, hs), v)
		}
		return fmt.Sprintf("rewards %d %d", r.Intn(len(w.accs)), v)
	case roll < 91 && len(hs) > 0:
		d := hx.Pick(r, hs)
		val, _ := w.s.App.StakingKeeper.GetValidator(w.ctx(), w.vals[v])
		full := val.TokensFromShares(g.sharesOf(d, v)).TruncateInt().BigInt()
		amt := full
		if r.Intn(2) == 0 && full.Sign() > 0 {
			amt = new(big.Int).Add(new(big.Int).Rand(r, full), big.NewInt(1))
		}
		if r.Intn(8) == 0 {
			amt = new(big.Int).Add(full, big.NewInt(1))
		}
		if amt.Sign() == 0 {
			amt = big.NewInt(1)
		}
		return fmt.Sprintf("undelegate %d %d %s", d, v, amt)
	case roll < 95 && w.nVal > 1 && len(hs) > 0:
		d := hx.Pick(r, hs)
		dst := r.Intn(w.nVal)
		if dst == v && r.Intn(5) != 0 {
			dst = (v + 1) % w.nVal
		}
		val, _ := w.s.App.StakingKeeper.GetValidator(w.ctx(), w.vals[v])
		full := val.TokensFromShares(g.sharesOf(d, v)).TruncateInt().BigInt()
		amt := full
		if r.Intn(2) == 0 && full.Sign() > 0 {
			amt = new(big.Int).Add(new(big.Int).Rand(r, full), big.NewInt(1))
		}
		if amt.Sign() == 0 {
			amt = big.NewInt(1)
		}
		return fmt.Sprintf("redelegate %d %d %d %s", d, v, dst, amt)
	case roll < 98:
		val, _ := w.s.App.StakingKeeper.GetValidator(w.ctx(), w.vals[v])
		power := val.ConsensusPower(sdk.DefaultPowerReduction)
		if power < 1 {
			power = 1
		}
		if r.Intn(3) == 0 && power > 1 {
			power = 1 + r.Int63n(power)
		}
		// smallest factor 10^-6: a fraction at the 10^-18 precision limit makes the SDK's own stake sanity check fail
		// without any share transfer (fixes/C11-sdk-stake-sanity.md, Props.C11.stake_sanity_reachable)
		factors := []string{"10000000000000000", "50000000000000000", "333333333333333333", "500000000000000000", "1000000000000", "123456789012345678"}
		return fmt.Sprintf("slash %d %d %s", v, power, hx.Pick(r, factors))
	default:
		// a holder-less account tries to move shares / unknown holder
		return fmt.Sprintf("transfer %d %d %d %s", hx.Pick(r, us), hx.Pick(r, us), v, g.amount())
	}
}

// genesisRoundTrip: the distribution state the history left behind (with the starting infos and reference counts
// written by hand by handlerTransferShares) is a valid genesis: exported, the store wiped, imported again (InitGenesis
// re-checks the module account against the outstanding rewards and the community pool) it gives the identical store —
// a chain restarted from an export after share transfers keeps every delegator's reward entitlement.
func (w *world) genesisRoundTrip() {
	if w.dead {
		return
	}
	cctx, _ := w.ctx().CacheContext()
	key := w.s.App.GetKey(distrtypes.StoreKey)
	before, n := hx.DumpStore(cctx, key)
	r := hx.Try(func() error {
		gs := w.s.App.DistrKeeper.ExportGenesis(cctx)
		if err := distrtypes.ValidateGenesis(gs); err != nil {
			return fmt.Errorf("exported distribution genesis does not validate: %w", err)
		}
		store := cctx.KVStore(key)
		for _, kv := range hx.RawPrefix(cctx, key, nil) {
			store.Delete(kv[0])
		}
		w.s.App.DistrKeeper.InitGenesis(cctx, *gs)
		return nil
	})
	if r != "ok" {
		w.violate("distribution genesis export / import after the history failed: " + r)
		return
	}
	after, _ := hx.DumpStore(cctx, key)
	if before != after {
		w.violate("distribution store differs after a genesis export / import round trip (state written by share transfers is not restored identically)")
		return
	}
	w.out.Count(fmt.Sprintf("genesis-roundtrip:distribution-ok/keys>=%d", n/10*10))
}

// finale: a new block, then every user withdraws and fully undelegates everywhere; each must succeed.
func (w *world) finale(run func(string) string) {
	if w.dead {
		return
	}
	w.genesisRoundTrip()
	run("block")
	for d := range w.accs {
		if !w.user(d) {
			continue
		}
		for v := range w.vals {
			if w.dead {
				return
			}
			del, err := w.s.App.StakingKeeper.GetDelegation(w.ctx(), w.accs[d], w.vals[v])
			if err != nil {
				continue
			}
			if obs := run(fmt.Sprintf("withdraw %d %d", d, v)); !strings.HasPrefix(obs, "ok") && !w.dead {
				w.violate(fmt.Sprintf("final withdraw of delegator %d at validator %d failed: %s", d, v, strings.SplitN(obs, " |", 2)[0]))
				return
			}
			val, _ := w.s.App.StakingKeeper.GetValidator(w.ctx(), w.vals[v])
			amt := val.TokensFromShares(del.Shares).TruncateInt()
			if !amt.IsPositive() {
				continue // dust shares worth less than one base unit cannot be unbonded (SDK rule)
			}
			full, _ := w.s.App.StakingKeeper.HasMaxUnbondingDelegationEntries(w.ctx(), w.accs[d], w.vals[v])
			obs := run(fmt.Sprintf("undelegate %d %d %s", d, v, amt))
			if !strings.HasPrefix(obs, "ok") && !full && !w.dead && amt.GT(sdkmath.OneInt()) {
				// SDK rounding: TokensFromShares(shares) is rounded half-even at 18 decimals, so the displayed balance can
				// be one base unit more than the shares are worth and ValidateUnbondAmount refuses it; one unit less
				// must work (the remaining dust is worth less than one base unit)
				w.out.Count("finale:undelegate-balance-minus-one")
				obs = run(fmt.Sprintf("undelegate %d %d %s", d, v, amt.SubRaw(1)))
			}
			if !strings.HasPrefix(obs, "ok") && !full && !w.dead {
				w.violate(fmt.Sprintf("final full undelegate of delegator %d at validator %d failed: %s", d, v, strings.SplitN(obs, " |", 2)[0]))
				return
			}
		}
	}
}

// ---------------------------------------------------------------------------------------------------------

func TestC11(t *testing.T) {
	fxtypes.SetConfig(true)
	seed := hx.Seed()
	rng := rand.New(rand.NewSource(seed))
	out := hx.NewOut()
	defer out.Close("correspondence: random histories of delegate/undelegate/redelegate/withdraw/approve/transfer/transferFrom through the real staking precompile (signed eth txs), reward allocation, blocks and validator slashing on the full app; exact comparison of the staking + distribution stores with the Lean model after every op; monitors: staking/distribution/bank AllInvariants, sum of delegations = validator shares, transfer exactness, self-transfer no-op, allowance exactness, redelegation refusal, failed op changes nothing, final withdraw + full undelegate by every user. non-trivial = distinct (op / transfer input class, outcome)")

	runSeq := func(nVal, nUsers int, lines []string, n int) {
		w := newWorld(t, out, nVal, nUsers)
		out.Reset(w.resetArgs()...)
		w.seq = []string{"reset " + strings.Join(w.resetArgs(), " ")}
		run := func(line string) string {
			obs := w.apply(line)
			out.Emit(line, obs)
			return obs
		}
		run("dump")
		if lines != nil {
			for _, l := range lines {
				if w.dead {
					break
				}
				run(l)
			}
		} else {
			g := &gen{w: w, rng: rng}
			for i := 0; i < n && !w.dead; i++ {
				run(g.next())
			}
		}
		w.finale(run)
	}

	// corpus / replay files: "# nval=2 nusers=3" header, then op lines
	var files []string
	if rp := hx.ReplayFile(); rp != "" {
		files = append(files, rp)
	}
	if dir := os.Getenv("VERIF_CORPUS"); dir != "" {
		fs, _ := filepath.Glob(filepath.Join(dir, "*.ops"))
		sort.Strings(fs)
		files = append(files, fs...)
	}
	for _, f := range files {
		nVal, nUsers := 2, 3
		var ls []string
		for _, l := range hx.ReadLines(f) {
			if strings.HasPrefix(l, "#") {
				for _, kv := range strings.Fields(l) {
					if strings.HasPrefix(kv, "nval=") {
						nVal, _ = strconv.Atoi(strings.TrimPrefix(kv, "nval="))
					}
					if strings.HasPrefix(kv, "nusers=") {
						nUsers, _ = strconv.Atoi(strings.TrimPrefix(kv, "nusers="))
					}
				}
				continue
			}
			if strings.HasPrefix(l, "reset") || l == "dump" {
				if strings.HasPrefix(l, "reset") {
					// replay written by bin/check: "reset nAcc h tok:rate…" — recover the configuration
					fs := strings.Fields(l)
					if len(fs) > 3 {
						nVal = len(fs) - 3
						if n, err := strconv.Atoi(fs[1]); err == nil {
							nUsers = n - nVal - 1 // the last account is the spender contract
						}
					}
				}
				continue
			}
			ls = append(ls, l)
		}
		runSeq(nVal, nUsers, ls, 0)
	}

	nSeq := hx.N(50, 400)
	for i := 0; i < nSeq; i++ {
		nVal := 1 + rng.Intn(3)
		nUsers := 2 + rng.Intn(3)
		n := 25 + rng.Intn(40)
		if hx.Tier() == "thorough" {
			n = 30 + rng.Intn(120)
		}
		runSeq(nVal, nUsers, nil, n)
	}

	// round 5: the same calls as signed transactions in real blocks (FinalizeBlock + Commit), monitor-only (c11blocks_test.go)
	if hx.ReplayFile() == "" {
		for i, nb := 0, hx.N(8, 60); i < nb; i++ {
			blockHistory(t, out, rng, 6+rng.Intn(10))
		}
	}
}
