package c08

// Side observation (i): `ConvertERC20NativeToken` mints as many coins as the message names without checking how many
// tokens the module account actually received.  An externally-owned ERC-20 whose `transfer` keeps a fee (a
// fee-on-transfer token, hand-assembled below: no Solidity compiler in the sandbox) therefore leaves the module's escrow
// BELOW the coin supply.  Run only with VERIF_C08_FEE_TOKEN=1 (a genuine, unlisted finding would otherwise be a VIOLATION
// on the unchanged tree); see fixes/C08-fee-on-transfer.md.

import (
	"fmt"
	"math/big"
	"os"

	sdk "github.com/cosmos/cosmos-sdk/types"
	"github.com/ethereum/go-ethereum/common"
	"github.com/ethereum/go-ethereum/crypto"

	erc20types "github.com/functionx/fx-core/v8/x/erc20/types"

	bx "fxverif/harness/bridgex"
)

type asm struct {
	code   []byte
	labels map[string]int
	fixups map[int]string
}

func (a *asm) op(b ...byte) *asm { a.code = append(a.code, b...); return a }
func (a *asm) push1(v byte) *asm { return a.op(0x60, v) }
func (a *asm) jumpTo(l string, cond bool) *asm {
	a.op(0x61, 0, 0)
	a.fixups[len(a.code)-2] = l
	if cond {
		return a.op(0x57)
	}
	return a.op(0x56)
}
func (a *asm) label(l string) *asm { a.labels[l] = len(a.code); return a.op(0x5b) }
func (a *asm) key() *asm { // addr -> storage key addr + 2^160
	k := make([]byte, 21)
	k[0] = 1
	return a.op(0x74).op(k...).op(0x01)
}
func (a *asm) retWord() *asm { return a.push1(0).op(0x52).push1(0x20).push1(0).op(0xf3) } // MSTORE(0, top); RETURN(0,32)
func (a *asm) retString(s string) *asm {
	w := make([]byte, 32)
	copy(w, s)
	a.push1(0x20).push1(0).op(0x52)
	a.push1(byte(len(s))).push1(0x20).op(0x52)
	a.op(0x7f).op(w...).push1(0x40).op(0x52)
	return a.push1(0x60).push1(0).op(0xf3)
}
func (a *asm) build() []byte {
	for pos, l := range a.fixups {
		a.code[pos], a.code[pos+1] = byte(a.labels[l]>>8), byte(a.labels[l])
	}
	return a.code
}

// feeTokenCode: name / symbol / decimals / totalSupply / balanceOf / mint(to, amt) (anyone) / transfer(to, amt) that
// credits amt − amt/10 and burns the fee.
func feeTokenCode(name, symbol string) []byte {
	a := &asm{labels: map[string]int{}, fixups: map[int]string{}}
	sel := func(sig string) []byte { return crypto.Keccak256([]byte(sig))[:4] }
	a.push1(0).op(0x35).push1(0xe0).op(0x1c) // selector
	for _, f := range [][2]string{{"name()", "name"}, {"symbol()", "symbol"}, {"decimals()", "decimals"}, {"totalSupply()", "supply"},
		{"balanceOf(address)", "balanceOf"}, {"mint(address,uint256)", "mint"}, {"transfer(address,uint256)", "transfer"}} {
		a.op(0x80).op(0x63).op(sel(f[0])...).op(0x14).jumpTo(f[1], true)
	}
	a.label("revert").push1(0).push1(0).op(0xfd)
	a.label("name").retString(name)
	a.label("symbol").retString(symbol)
	a.label("decimals").push1(18).retWord()
	a.label("supply").push1(0).op(0x54).retWord()
	a.label("balanceOf").push1(4).op(0x35).key().op(0x54).retWord()
	// mint
	a.label("mint").push1(0x24).op(0x35) // amt
	a.op(0x80).push1(0).op(0x54).op(0x01).push1(0).op(0x55) // supply += amt
	a.push1(4).op(0x35).key()                                // amt key
	a.op(0x80).op(0x54).op(0x82).op(0x01)                    // amt key bal+amt
	a.op(0x90).op(0x55).op(0x50).op(0x00)                    // SWAP1 SSTORE POP STOP
	// transfer
	a.label("transfer").push1(0x24).op(0x35) // amt
	a.op(0x33).key().op(0x54)                // amt b
	a.op(0x81).op(0x81).op(0x10).jumpTo("revert", true)
	a.op(0x81).op(0x90).op(0x03)       // amt (b-amt)
	a.op(0x33).key().op(0x55)          // amt
	a.push1(10).op(0x81).op(0x04)      // amt fee
	a.op(0x80).push1(0).op(0x54).op(0x03) // amt fee (supply-fee)
	a.push1(0).op(0x55)                // amt fee
	a.op(0x90).op(0x03)                // net
	a.push1(4).op(0x35).key()          // net tokey
	a.op(0x80).op(0x54)                // net tokey tobal
	a.op(0x82).op(0x01)                // net tokey tobal+net
	a.op(0x90).op(0x55).op(0x50)       // SWAP1 SSTORE POP
	a.push1(1).retWord()
	return a.build()
}

var feeTokenAddr = common.HexToAddress("0x00000000000000000000000000000000000c08fe")

// feeOnTransfer: register the fee token as an externally-owned pair, convert 50 of it into coins.
func (r *run) feeOnTransfer() {
	if os.Getenv("VERIF_C08_FEE_TOKEN") != "1" {
		return
	}
	const d = 7
	k := r.w.S.App.Erc20Keeper
	if k.IsDenomRegistered(r.ctx(), baseName(d)) {
		return
	}
	if err := r.w.S.App.EvmKeeper.CreateContractWithCode(r.ctx(), feeTokenAddr, feeTokenCode("Fee Token", symbol(d))); err != nil {
		panic(err)
	}
	replay := []string{"deploy <fee-on-transfer ERC-20: transfer credits amount − amount/10>"}
	if err := r.msg(&erc20types.MsgRegisterERC20{Authority: r.gov, Erc20Address: feeTokenAddr.Hex()}); err != nil {
		r.out.Stats.Extra["fee-token:register"] = err.Error()
		return
	}
	replay = append(replay, "MsgRegisterERC20 <fee token>")
	mint := append(crypto.Keccak256([]byte("mint(address,uint256)"))[:4], append(common.LeftPadBytes(r.users[0].Address().Bytes(), 32), common.LeftPadBytes(big.NewInt(100).Bytes(), 32)...)...)
	if err := r.atomic(func(ctx sdk.Context) error {
		_, err := r.w.S.App.EvmKeeper.CallEVMWithoutGas(ctx, r.owner.Address(), &feeTokenAddr, nil, mint, true)
		return err
	}); err != nil {
		r.out.Stats.Extra["fee-token:mint"] = err.Error()
		return
	}
	replay = append(replay, "mint 100 fee tokens to user 0")
	err := r.msg(&erc20types.MsgConvertERC20{ContractAddress: feeTokenAddr.Hex(), Amount: si(50), Receiver: r.users[0].AccAddress().String(), Sender: r.users[0].Address().Hex()})
	replay = append(replay, "MsgConvertERC20 50 fee tokens user 0 -> user 0")
	esc := r.balOf(feeTokenAddr, bx.Erc20ModuleAddr())
	sup := r.w.S.App.BankKeeper.GetSupply(r.ctx(), baseName(d)).Amount.BigInt()
	got := r.w.S.App.BankKeeper.GetBalance(r.ctx(), r.users[0].AccAddress(), baseName(d)).Amount
	r.out.Stats.Extra["fee-token"] = fmt.Sprintf("convert 50: err=%v, module escrow %s, coin supply %s, coins received %s", err, esc, sup, got)
	r.out.Count("fee-token:" + errKind(err))
	if esc.Cmp(sup) != 0 {
		r.out.ViolateWith(fmt.Sprintf("I_external: fee-on-transfer externally-owned token: MsgConvertERC20 of 50 minted %s coins while the module account received %s tokens (escrow %s < coin supply %s)", got, esc, esc, sup), replay)
	}
}
