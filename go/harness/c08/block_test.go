package c08

// Round 5: mixed transactions as REAL DELIVERED TRANSACTIONS — a signed MsgEthereumTx (EIP-2930, non-zero gas price) wrapped
// into a Cosmos tx (ExtensionOptionsEthereumTx), put into a block and run by the real `FinalizeBlock` (ante handler:
// signature, nonce, fee deduction, gas limit against the block limit; then the evm message server: ApplyTransaction with
// the transaction-level StateDB, post-tx hooks, gas refund) followed by `Commit` and `ProcessProposal`, instead of the
// keeper-level `EvmKeeper.CallEVM` on a cache context.  The op line and the observation are the same for both paths, so
// the StateDB cache / journal model is compared with what a node would execute.

import (
	"fmt"
	"math/big"
	"time"

	sdkmath "cosmossdk.io/math"
	abci "github.com/cometbft/cometbft/abci/types"
	tenderminttypes "github.com/cometbft/cometbft/proto/tendermint/types"
	tmtime "github.com/cometbft/cometbft/types/time"
	cryptocodec "github.com/cosmos/cosmos-sdk/crypto/codec"
	sdk "github.com/cosmos/cosmos-sdk/types"
	slashingtypes "github.com/cosmos/cosmos-sdk/x/slashing/types"
	"github.com/cosmos/gogoproto/proto"
	"github.com/ethereum/go-ethereum/common"
	ethtypes "github.com/ethereum/go-ethereum/core/types"
	evmtypes "github.com/evmos/ethermint/x/evm/types"

	"github.com/functionx/fx-core/v8/testutil/helpers"
	fxtypes "github.com/functionx/fx-core/v8/types"
)

// blockSigner: an account of its own that pays the fees of the delivered transactions (so that no tracked user's FX
// balance moves); funded on first use.
func (r *run) blockSigner() *helpers.Signer {
	if r.blkSigner == nil {
		r.blkSigner = helpers.NewSigner(helpers.NewEthPrivKey())
		fund, _ := new(big.Int).SetString("1000000000000000000000000", 10)
		r.w.S.MintToken(r.blkSigner.AccAddress(), sdk.NewCoin(fxtypes.DefaultDenom, sdkmath.NewIntFromBigInt(fund)))
	}
	return r.blkSigner
}

// deliver: one real block containing one signed MsgEthereumTx from the block signer to `to` with empty calldata.
// Returns (vmFailed / rejected as an error, nil on success).
func (r *run) deliver(to common.Address, gasLimit uint64) error {
	s := r.w.S
	signer := r.blockSigner()
	ctx := s.Ctx
	chainID := fxtypes.EIP155ChainID(ctx.ChainID())
	price := big.NewInt(0)
	if bf := s.App.FeeMarketKeeper.GetBaseFee(ctx); bf != nil && bf.Cmp(price) > 0 {
		price = bf
	}
	if mp := s.App.FeeMarketKeeper.GetParams(ctx).MinGasPrice.TruncateInt().BigInt(); mp.Cmp(price) > 0 {
		price = mp
	}
	price = new(big.Int).Add(price, big.NewInt(1))
	nonce := s.App.EvmKeeper.GetNonce(ctx, signer.Address())
	al := ethtypes.AccessList{}
	tx := evmtypes.NewTx(chainID, nonce, &to, big.NewInt(0), gasLimit, price, nil, nil, nil, &al)
	tx.From = signer.Address().Bytes()
	if err := tx.Sign(ethtypes.LatestSignerForChainID(chainID), signer); err != nil {
		return fmt.Errorf("harness: sign: %w", err)
	}
	cfg := s.App.GetTxConfig()
	built, err := tx.BuildTx(cfg.NewTxBuilder(), fxtypes.DefaultDenom)
	if err != nil {
		return fmt.Errorf("harness: build: %w", err)
	}
	bz, err := cfg.TxEncoder()(built)
	if err != nil {
		return fmt.Errorf("harness: encode: %w", err)
	}
	ci := abci.CommitInfo{Round: 1}
	for _, val := range s.ValSet.Validators {
		pk, err := cryptocodec.FromCmtPubKeyInterface(val.PubKey)
		if err != nil {
			return fmt.Errorf("harness: %w", err)
		}
		ci.Votes = append(ci.Votes, abci.VoteInfo{Validator: abci.Validator{Address: pk.Address(), Power: val.VotingPower}, BlockIdFlag: tenderminttypes.BlockIDFlagCommit})
		info := slashingtypes.NewValidatorSigningInfo(sdk.ConsAddress(pk.Address()), s.App.LastBlockHeight(), 0, time.Unix(0, 0), false, 0)
		if err = s.App.SlashingKeeper.SetValidatorSigningInfo(s.Ctx, sdk.ConsAddress(pk.Address()), info); err != nil {
			return fmt.Errorf("harness: %w", err)
		}
	}
	h := s.App.LastBlockHeight() + 1
	now := tmtime.Now()
	proposer := s.Ctx.BlockHeader().ProposerAddress
	res, err := s.App.FinalizeBlock(&abci.RequestFinalizeBlock{Height: h, Time: now, ProposerAddress: proposer, DecidedLastCommit: ci, Txs: [][]byte{bz}})
	if err != nil {
		panic(fmt.Sprintf("FinalizeBlock: %v", err))
	}
	if _, err = s.App.Commit(); err != nil {
		panic(fmt.Sprintf("Commit: %v", err))
	}
	if _, err = s.App.ProcessProposal(&abci.RequestProcessProposal{Height: h + 1, Time: now, ProposerAddress: proposer, ProposedLastCommit: ci}); err != nil {
		panic(fmt.Sprintf("ProcessProposal: %v", err))
	}
	s.Ctx = s.App.GetContextForFinalizeBlock(nil)
	r.w.Height = s.Ctx.BlockHeight()
	if len(res.TxResults) != 1 {
		return fmt.Errorf("harness: %d tx results", len(res.TxResults))
	}
	tr := res.TxResults[0]
	if tr.Code != 0 {
		// rejected by the ante handler or failed in the message server: never expected for a well-formed transaction — the
		// text is kept so that a harness problem is visible in stats
		return fmt.Errorf("deliver: code %d: %s", tr.Code, tr.Log)
	}
	var md sdk.TxMsgData
	if err := proto.Unmarshal(tr.Data, &md); err != nil || len(md.MsgResponses) != 1 {
		return fmt.Errorf("harness: tx data: %v", err)
	}
	var resp evmtypes.MsgEthereumTxResponse
	if err := proto.Unmarshal(md.MsgResponses[0].Value, &resp); err != nil {
		return fmt.Errorf("harness: response: %w", err)
	}
	if resp.Failed() {
		return fmt.Errorf("vm: %s", resp.VmError)
	}
	return nil
}

// probeDelivery: can a MsgEthereumTx be delivered in a block at all?  One plain signed transaction (a call of an account
// without code) is put into a real block.  In the snapshot under test the ante handler accepts it (signature, nonce, fee)
// and `runTx` then fails BEFORE the message server with code 1 `unexpected field type bytes for field from in message
// ethermint.evm.v1.MsgEthereumTx` (baseapp calls tx.GetMsgsV2; cosmossdk.io/x/tx v0.13.5 derives signers only from
// string / message fields and the app registers no custom GetSigners for the fork's `bytes from`) — C17's transaction
// stream records the same (`tx:evm:transfer(as-tx) => undefined/1`).  The outcome is written to stats; mixed transactions
// go through real blocks only if the probe succeeds.
func (r *run) probeDelivery() bool {
	err := r.deliver(sinkAddr, 100_000)
	if err == nil {
		r.out.Count("mixed:probe:MsgEthereumTx deliverable through FinalizeBlock")
		return true
	}
	r.out.Count("mixed:probe:MsgEthereumTx NOT deliverable through FinalizeBlock in this snapshot")
	r.out.Stats.Extra["mixed:probe:FinalizeBlock"] = err.Error()
	return false
}
