package c08

// C08 correspondence + monitors on the REAL app: erc20 message handlers through the real message router
// (MsgConvertCoin / MsgConvertERC20 / MsgConvertDenom, MsgRegisterCoin / MsgRegisterERC20 / MsgToggleTokenConversion /
// MsgUpdateDenomAlias / MsgUpdateParams with the gov authority), real bank, real EVM (FIP20 / WFX contracts).
//
// Everything is addressed the way the messages address it: coin DENOMINATIONS (base denominations 0..7, bridge / alias
// denominations 100+10g+c, any of which may be made an alias of any registered denomination) and ERC-20 CONTRACTS
// (numbered in order of appearance).  After EVERY op the observation is
//     <ok | err:kind> | balances of 3 users + erc20 module + WFX contract in every denomination and every contract,
//                       supplies | raw erc20 store prefixes 0x01/0x02/0x03/0x05 + bank metadata aliases [+ off]
// and is compared with the Lean model (Model/C08U.lean) line by line.
//   * monitors on real state after every op: convert_exact (user-level balance deltas of a conversion), I_sum, I_module,
//     I_external (per-op deltas of the book equations), I_index (three indexes + alias index + metadata, disjointness),
//     frame (index ops leave every balance alone, conversions leave the indexes alone);
//   * mixed transactions on the real EVM (mixed.go): a contract mixes direct token calls with the crosschain
//     precompiles bridgeCall (keeper-level nested conversion) / crossChain (conversion through the running EVM) on the
//     same token; the post-state is compared with the StateDB cache model (Model/C08Cache.lean).

import (
	"bytes"
	"errors"
	"fmt"
	"math/big"
	"math/rand"
	"sort"
	"strings"
	"testing"

	sdkmath "cosmossdk.io/math"
	sdk "github.com/cosmos/cosmos-sdk/types"
	sdkerrors "github.com/cosmos/cosmos-sdk/types/errors"
	authtypes "github.com/cosmos/cosmos-sdk/x/auth/types"
	banktypes "github.com/cosmos/cosmos-sdk/x/bank/types"
	govtypes "github.com/cosmos/cosmos-sdk/x/gov/types"
	"github.com/ethereum/go-ethereum/common"
	evmtypes "github.com/evmos/ethermint/x/evm/types"

	"github.com/functionx/fx-core/v8/contract"
	"github.com/functionx/fx-core/v8/testutil/helpers"
	fxtypes "github.com/functionx/fx-core/v8/types"
	crosschaintypes "github.com/functionx/fx-core/v8/x/crosschain/types"
	erc20types "github.com/functionx/fx-core/v8/x/erc20/types"

	bx "fxverif/harness/bridgex"
	"fxverif/harness/hx"
)

const (
	nG      = 8  // base denominations 0..7 (0 = FX)
	nCt     = 48 // contract ids printed by the model
	unknown = 47 // contract id of an address that was never deployed
)

type run struct {
	last     map[string]string // last reported book differences (a break is reported once, when it appears)
	w        *bx.World
	out      *hx.Out
	rng      *rand.Rand
	users    []*helpers.Signer
	owner    *helpers.Signer
	gov      string
	contract map[int]common.Address // contract id -> address
	ctOf     map[string]int         // address -> contract id
	nextCt   int
	extOf    map[int]int    // denom -> id of the external contract deployed for it (symbol = the denom's symbol)
	mdKind   map[int]string // denom -> who wrote its bank metadata ("coin" / "erc")
	dead     map[int]bool
	seenIdx  map[string]bool
	styleOf  map[int]style // raw test tokens: how they signal success / failure
	blkSigner *helpers.Signer // pays the fees of transactions delivered in real blocks (block_test.go)
	tainted  bool          // a genesis round trip changed the indexes: reported once; later book / index breaks of this sequence follow from it
}

func si(n int) sdkmath.Int { return sdkmath.NewInt(int64(n)) }

func baseName(d int) string {
	if d == 0 {
		return fxtypes.DefaultDenom
	}
	return fmt.Sprintf("tk%c", 'a'+d)
}

func symbol(d int) string { return strings.ToUpper(baseName(d)) }

// denomName: ids below 100 are base denominations, 100+10g+c is a bridge denomination on chain c
func denomName(a int) string {
	if a < 100 {
		return baseName(a)
	}
	c := a % 10
	return bx.Chains[c%3] + common.BigToAddress(big.NewInt(int64(a))).Hex()
}

var denomIDs = func() map[string]int {
	m := map[string]int{}
	for a := 0; a < 100+10*nG+10; a++ {
		if a >= nG && a < 100 {
			continue
		}
		m[denomName(a)] = a
	}
	return m
}()

func denomID(s string) int {
	if id, ok := denomIDs[s]; ok {
		return id
	}
	return -1
}

// coin denominations the observation tracks (same list as the model driver)
var coinIDs = func() []int {
	var l []int
	for d := 0; d < nG; d++ {
		l = append(l, d)
	}
	for g := 0; g < nG; g++ {
		for c := 0; c < 3; c++ {
			l = append(l, 100+10*g+c)
		}
	}
	return l
}()

func (r *run) ctx() sdk.Context { return r.w.S.Ctx }

// ---- running messages ------------------------------------------------------------------------------------

func (r *run) atomic(f func(ctx sdk.Context) error) (err error) {
	r.w.Height++
	r.w.S.Ctx = r.w.S.Ctx.WithBlockHeight(r.w.Height)
	cctx, write := r.w.S.Ctx.CacheContext()
	defer func() {
		if rec := recover(); rec != nil {
			err = fmt.Errorf("panic:%v", rec)
		}
	}()
	if err = f(cctx); err == nil {
		write()
	}
	return err
}

func (r *run) msg(m sdk.Msg) error {
	return r.atomic(func(ctx sdk.Context) error {
		h := r.w.S.App.MsgServiceRouter().Handler(m)
		if h == nil {
			return fmt.Errorf("no handler")
		}
		_, err := h(ctx, m)
		return err
	})
}

// errKind canonicalises an error to the model's error kinds
func errKind(err error) string {
	switch {
	case err == nil:
		return "ok"
	case strings.HasPrefix(err.Error(), "panic:"):
		return "err:panic"
	case errors.Is(err, erc20types.ErrTokenPairNotFound):
		return "err:notfound"
	case errors.Is(err, erc20types.ErrERC20Disabled), errors.Is(err, erc20types.ErrERC20TokenPairDisabled):
		return "err:disabled"
	case errors.Is(err, sdkerrors.ErrInsufficientFunds), errors.Is(err, evmtypes.ErrVMExecution):
		return "err:funds"
	}
	return "err:invalid"
}

// ---- observation ---------------------------------------------------------------------------------------

func (r *run) balOf(t common.Address, a common.Address) *big.Int {
	v, err := r.w.S.App.EvmKeeper.ERC20BalanceOf(r.ctx(), t, a)
	if err != nil {
		return big.NewInt(0) // no code at the address any more
	}
	return v
}

func (r *run) totalSupply(t common.Address) *big.Int {
	var res struct{ Value *big.Int }
	if err := r.w.S.App.EvmKeeper.QueryContract(r.ctx(), r.owner.Address(), t, contract.GetFIP20().ABI, "totalSupply", &res); err != nil {
		return big.NewInt(0)
	}
	return res.Value
}

func (r *run) coinBal(acc sdk.AccAddress, d int) *big.Int {
	return r.w.S.App.BankKeeper.GetBalance(r.ctx(), acc, denomName(d)).Amount.BigInt()
}

func (r *run) coinSupply(d int) *big.Int {
	return r.w.S.App.BankKeeper.GetSupply(r.ctx(), denomName(d)).Amount.BigInt()
}

func (r *run) wfx() common.Address { return r.contract[0] }

func (r *run) ctIDs() []int {
	var l []int
	for id := range r.contract {
		if id < nCt && id != unknown {
			l = append(l, id)
		}
	}
	sort.Ints(l)
	return l
}

type acct struct {
	n string
	a sdk.AccAddress
}

// parties a message may name as receiver (same numbering as Model/C08U.lean partyAddr): 0-2 users, 3 the erc20 module
// account, 4 the eth crosschain module account, 5 the fee collector, 6 the gov module account (the only module account
// that is not on the bank's blocked list), 7 the crosschain precompile address, 8 the zero address, 1000+ct the account of
// contract ct (1000 = the WFX contract).  The same 20 bytes serve as bech32 account and as EVM address.
const (
	pErc20Mod = 3
	pEthMod   = 4
	pFeeColl  = 5
	pGov      = 6
	pPrecomp  = 7
	pZero     = 8
	pContract = 1000
)

func (r *run) party(p int) []byte {
	switch {
	case p < 3:
		return r.users[p].AccAddress().Bytes()
	case p == pErc20Mod:
		return bx.ModuleAddr(erc20types.ModuleName).Bytes()
	case p == pEthMod:
		return bx.ModuleAddr("eth").Bytes()
	case p == pFeeColl:
		return bx.ModuleAddr(authtypes.FeeCollectorName).Bytes()
	case p == pGov:
		return bx.ModuleAddr(govtypes.ModuleName).Bytes()
	case p == pPrecomp:
		return crosschaintypes.GetAddress().Bytes()
	case p == pZero:
		return make([]byte, 20)
	case p >= pContract:
		return r.contract[p-pContract].Bytes()
	}
	panic("party")
}

func (r *run) partyName(p int) string {
	switch {
	case p < 3:
		return fmt.Sprintf("u%d", p)
	case p == pContract:
		return "w"
	case p >= pContract:
		return "" // not printed
	}
	return map[int]string{pErc20Mod: "e", pEthMod: "m", pFeeColl: "f", pGov: "g", pPrecomp: "p", pZero: "z"}[p]
}

func (r *run) accts() []acct {
	var l []acct
	for i, u := range r.users {
		l = append(l, acct{fmt.Sprintf("u%d", i), u.AccAddress()})
	}
	l = append(l, acct{"e", bx.ModuleAddr(erc20types.ModuleName)}, acct{"w", sdk.AccAddress(r.wfx().Bytes())})
	for _, p := range []int{pEthMod, pFeeColl, pGov, pPrecomp, pZero} {
		l = append(l, acct{r.partyName(p), sdk.AccAddress(r.party(p))})
	}
	return l
}

// snapshot: every tracked (account, asset) balance and every supply, keyed as the observation prints them
func (r *run) snapshot() (map[string]*big.Int, []string) {
	m := map[string]*big.Int{}
	var order []string
	put := func(k string, v *big.Int) {
		if v.Sign() != 0 {
			m[k] = v
			order = append(order, k)
		}
	}
	cts := r.ctIDs()
	for _, a := range r.accts() {
		for _, d := range coinIDs {
			if d == 0 && len(a.n) == 1 && a.n != "e" && a.n != "w" {
				continue // module accounts hold native coin for their own purposes
			}
			put(fmt.Sprintf("%s.d%d", a.n, d), r.coinBal(a.a, d))
		}
		for _, ct := range cts {
			put(fmt.Sprintf("%s.c%d", a.n, ct), r.balOf(r.contract[ct], common.BytesToAddress(a.a.Bytes())))
		}
	}
	for _, d := range coinIDs {
		if d != 0 {
			put(fmt.Sprintf("s.d%d", d), r.coinSupply(d))
		}
	}
	for _, ct := range cts {
		put(fmt.Sprintf("s.c%d", ct), r.totalSupply(r.contract[ct]))
	}
	return m, order
}

func showSnap(m map[string]*big.Int, order []string) string {
	var out []string
	for _, k := range order {
		out = append(out, k+"="+m[k].String())
	}
	return strings.Join(out, " ")
}

type pairRec struct {
	id       string
	d, ct    int
	en, ext  int
	denom    string
	contract common.Address
}

func (r *run) ctID(a common.Address) int {
	if id, ok := r.ctOf[a.Hex()]; ok {
		return id
	}
	return -1
}

// dumpIdx reads the raw erc20 store and the bank metadata; also evaluates I_index on the real state.
func (r *run) dumpIdx(op string) string { return r.dumpIdxM(op, true) }

// dumpIdxM: `monitor` = evaluate I_index (off for the snapshot taken before an op: same state as after the previous op)
func (r *run) dumpIdxM(op string, monitor bool) string {
	ctx := r.ctx()
	violate := func(d string) {
		// a broken index stays broken: report each kind of break once per sequence, at the op that caused it
		cls := strings.SplitN(d, " after ", 2)[0]
		if monitor && !r.seenIdx[cls] && !r.tainted {
			r.seenIdx[cls] = true
			r.out.Violate(d)
		}
	}
	key := r.w.S.App.GetKey(erc20types.StoreKey)
	pairs := map[string]pairRec{}
	var ps, ds, es, as, ms []string
	for _, kv := range hx.RawPrefix(ctx, key, erc20types.KeyPrefixTokenPair) {
		var p erc20types.TokenPair
		r.w.S.App.AppCodec().MustUnmarshal(kv[1], &p)
		id := string(kv[0][len(erc20types.KeyPrefixTokenPair):])
		rec := pairRec{id: id, d: denomID(p.Denom), ct: r.ctID(p.GetERC20Contract()), denom: p.Denom, contract: p.GetERC20Contract()}
		if p.Enabled {
			rec.en = 1
		}
		if p.IsNativeERC20() {
			rec.ext = 1
		}
		pairs[id] = rec
		if !bytes.Equal(p.GetID(), []byte(id)) {
			violate("index: pair stored under a key that is not its id after " + op)
		}
	}
	var recs []pairRec
	for _, p := range pairs {
		recs = append(recs, p)
	}
	sort.Slice(recs, func(i, j int) bool { return recs[i].d < recs[j].d })
	for _, p := range recs {
		ps = append(ps, fmt.Sprintf("P%d:%d:%d:%d", p.d, p.ct, p.en, p.ext))
	}
	idStr := func(id []byte) string {
		if p, ok := pairs[string(id)]; ok {
			return fmt.Sprintf("%d:%d", p.d, p.ct)
		}
		return "?"
	}
	type kv2 struct {
		k int
		s string
	}
	var dl, el, al []kv2
	byDenom := map[string]string{}
	for _, kv := range hx.RawPrefix(ctx, key, erc20types.KeyPrefixTokenPairByDenom) {
		d := string(kv[0][len(erc20types.KeyPrefixTokenPairByDenom):])
		byDenom[d] = string(kv[1])
		dl = append(dl, kv2{denomID(d), fmt.Sprintf("D%d>%s", denomID(d), idStr(kv[1]))})
		if p, ok := pairs[string(kv[1])]; !ok || p.denom != d {
			violate("index: denom index entry without a matching pair after " + op)
		}
	}
	byErc := map[string]string{}
	for _, kv := range hx.RawPrefix(ctx, key, erc20types.KeyPrefixTokenPairByERC20) {
		a := common.BytesToAddress(kv[0][len(erc20types.KeyPrefixTokenPairByERC20):])
		byErc[a.Hex()] = string(kv[1])
		el = append(el, kv2{r.ctID(a), fmt.Sprintf("E%d>%s", r.ctID(a), idStr(kv[1]))})
		if p, ok := pairs[string(kv[1])]; !ok || p.contract != a {
			violate("index: contract index entry without a matching pair after " + op)
		}
	}
	for _, p := range pairs {
		if byDenom[p.denom] != p.id || byErc[p.contract.Hex()] != p.id {
			violate("index: pair not reachable through both the denom and the contract index after " + op)
		}
	}
	aliasIdx := map[string]string{}
	for _, kv := range hx.RawPrefix(ctx, key, erc20types.KeyPrefixAliasDenom) {
		a := string(kv[0][len(erc20types.KeyPrefixAliasDenom):])
		aliasIdx[a] = string(kv[1])
		al = append(al, kv2{denomID(a), fmt.Sprintf("A%d>%d", denomID(a), denomID(string(kv[1])))})
		if _, reg := byDenom[a]; reg {
			violate("index: a denomination is both a registered base denomination and an alias after " + op)
		}
	}
	// bank metadata of every denom the model tracks
	mdAliases := map[string][]string{}
	r.w.S.App.BankKeeper.IterateAllDenomMetaData(ctx, func(md banktypes.Metadata) bool {
		if denomID(md.Base) < 0 {
			return false
		}
		var al []string
		if len(md.DenomUnits) > 0 {
			al = md.DenomUnits[0].Aliases
		}
		mdAliases[md.Base] = al
		return false
	})
	var mdKeys []string
	for k := range mdAliases {
		mdKeys = append(mdKeys, k)
	}
	sort.Slice(mdKeys, func(i, j int) bool { return denomID(mdKeys[i]) < denomID(mdKeys[j]) })
	for _, k := range mdKeys {
		var ids []string
		for _, a := range mdAliases[k] {
			ids = append(ids, fmt.Sprint(denomID(a)))
		}
		ms = append(ms, fmt.Sprintf("M%d=%s", denomID(k), strings.Join(ids, ",")))
	}
	// I_index, alias part: alias index == aliases in the metadata of registered denoms
	for a, d := range aliasIdx {
		found := false
		for _, x := range mdAliases[d] {
			if x == a {
				found = true
			}
		}
		if _, reg := byDenom[d]; !reg || !found {
			violate("index: alias index entry that the bank metadata of a registered denom does not list (stale alias) after " + op)
		}
	}
	for d := range byDenom {
		for _, a := range mdAliases[d] {
			if aliasIdx[a] != d {
				violate("index: metadata alias of a registered denom missing from the alias index (or indexed under another denom) after " + op)
			}
		}
	}
	srt := func(l []kv2) []string {
		sort.Slice(l, func(i, j int) bool { return l[i].k < l[j].k })
		var o []string
		for _, x := range l {
			o = append(o, x.s)
		}
		return o
	}
	ds, es, as = srt(dl), srt(el), srt(al)
	all := append(append(append(append(ps, ds...), es...), as...), ms...)
	s := strings.Join(all, " ")
	if !r.w.S.App.Erc20Keeper.GetEnableErc20(ctx) {
		s += " off"
	}
	return s
}

// books evaluates I_sum, I_module, I_external on the real state.  `report` = the op is a message of the module (a
// change of a book difference is a violation); otherwise (environment ops) the new differences are only recorded.
// `aliasShift` (for MsgUpdateDenomAlias on an externally-owned denomination) is the change the alias set itself makes
// to the right-hand side of I_external: ± the current supply of the alias.
func (r *run) books(op string, report bool, aliasShift map[string]*big.Int) {
	ctx := r.ctx()
	report = report && !r.tainted
	for _, p := range r.w.S.App.Erc20Keeper.GetAllTokenPairs(ctx) {
		t := p.GetERC20Contract()
		if r.dead[r.ctID(t)] {
			continue
		}
		ts := r.totalSupply(t)
		sum := new(big.Int)
		holders := []common.Address{r.owner.Address(), mixerAddr, sinkAddr}
		for p := 0; p <= pZero; p++ {
			holders = append(holders, common.BytesToAddress(r.party(p)))
		}
		for _, ct := range r.ctIDs() {
			holders = append(holders, r.contract[ct])
		}
		for _, h := range holders {
			sum.Add(sum, r.balOf(t, h))
		}
		kind := "module-owned"
		if p.IsNativeERC20() {
			kind = "externally-owned"
		}
		if d := new(big.Int).Sub(sum, ts).String(); r.changed("sum:"+p.Denom+t.Hex(), d) && report {
			r.out.Violate(fmt.Sprintf("I_sum: ERC-20 balances of %s token sum to %s but totalSupply=%s after %s", kind, sum, ts, op))
		}
		escrow := r.w.S.App.BankKeeper.GetBalance(ctx, bx.ModuleAddr(erc20types.ModuleName), p.Denom).Amount.BigInt()
		if p.IsNativeCoin() {
			if p.Denom == fxtypes.DefaultDenom {
				escrow = r.w.S.App.BankKeeper.GetBalance(ctx, sdk.AccAddress(t.Bytes()), p.Denom).Amount.BigInt()
			}
			modDiff := new(big.Int).Sub(escrow, ts)
			if sh, ok := aliasShift["mod:"+p.Denom]; ok {
				// a donation: coins released by an ERC-20 -> coin conversion straight to the pair's own escrow account
				old, _ := new(big.Int).SetString(r.lastOf("mod:"+p.Denom+t.Hex()), 10)
				if new(big.Int).Add(old, sh).Cmp(modDiff) == 0 {
					r.last["mod:"+p.Denom+t.Hex()] = modDiff.String()
					r.out.Count("books:donation-to-the-escrow-account(escrow>supply)")
					modDiff = nil
				}
			}
			if modDiff != nil {
				if d := modDiff.String(); r.changed("mod:"+p.Denom+t.Hex(), d) && report {
					r.out.Violate(fmt.Sprintf("I_module: escrowed coins %s != ERC-20 totalSupply %s after %s", escrow, ts, op))
				}
			}
			// the denominations of a module-owned coin: every alias coin the module escrows is matched by minted base
			// coins, i.e. (supply of the base coin − Σ alias coins held by the module) is moved by no message
			fam := r.w.S.App.BankKeeper.GetSupply(ctx, p.Denom).Amount.BigInt()
			if md, ok := r.w.S.App.BankKeeper.GetDenomMetaData(ctx, p.Denom); ok && len(md.DenomUnits) > 0 {
				for _, a := range md.DenomUnits[0].Aliases {
					fam.Sub(fam, r.w.S.App.BankKeeper.GetBalance(ctx, bx.ModuleAddr(erc20types.ModuleName), a).Amount.BigInt())
				}
			}
			if sh, ok := aliasShift["fam:"+p.Denom]; ok {
				old, _ := new(big.Int).SetString(r.lastOf("fam:"+p.Denom+t.Hex()), 10)
				if new(big.Int).Add(old, sh).Cmp(fam) == 0 {
					r.last["fam:"+p.Denom+t.Hex()] = fam.String()
					continue
				}
			}
			if d := fam.String(); r.changed("fam:"+p.Denom+t.Hex(), d) && report {
				r.out.Violate(fmt.Sprintf("I_family: (supply of the base coin − alias coins escrowed by the module) of a module-owned token changed to %s after %s", d, strings.SplitN(op, " ", 2)[0]))
			}
		} else {
			coinSupply := r.w.S.App.BankKeeper.GetSupply(ctx, p.Denom).Amount.BigInt()
			if md, ok := r.w.S.App.BankKeeper.GetDenomMetaData(ctx, p.Denom); ok && len(md.DenomUnits) > 0 {
				for _, a := range md.DenomUnits[0].Aliases {
					coinSupply.Add(coinSupply, r.w.S.App.BankKeeper.GetSupply(ctx, a).Amount.BigInt())
				}
			}
			esc := r.balOf(t, bx.Erc20ModuleAddr())
			diff := new(big.Int).Sub(esc, coinSupply)
			if sh, ok := aliasShift[p.Denom]; ok {
				// expected: old difference shifted by exactly the alias's supply
				old, _ := new(big.Int).SetString(r.lastOf("ext:"+p.Denom+t.Hex()), 10)
				if new(big.Int).Add(old, sh).Cmp(diff) == 0 {
					r.last["ext:"+p.Denom+t.Hex()] = diff.String()
					continue
				}
			}
			if d := diff.String(); r.changed("ext:"+p.Denom+t.Hex(), d) && report {
				cls := "conversion"
				if strings.HasPrefix(op, "cden") {
					cls = "MsgConvertDenom"
				}
				r.out.Violate(fmt.Sprintf("I_external: module's ERC-20 escrow %s != coin supply over base+aliases %s after %s", esc, coinSupply, cls))
			}
		}
	}
}

func (r *run) lastOf(key string) string {
	if v, ok := r.last[key]; ok {
		return v
	}
	return "0"
}

// changed records the current difference and tells whether it differs from the last one seen.  The first observation
// of a pair is its baseline (coins of a denomination may exist before the pair is registered: environment).
func (r *run) changed(key, d string) bool {
	old, seen := r.last[key]
	r.last[key] = d
	if !seen {
		if d != "0" {
			r.out.Count("books:nonzero-baseline-at-registration")
		}
		return false
	}
	return old != d
}

// op runs one operation and emits `<res> | ledger | indexes`; `check` (optional) is a monitor evaluated on the
// snapshots before and after.
type opts struct {
	env        bool // an environment operation (funding, deployment, self-destruct): books are only re-based
	aliasShift map[string]*big.Int
	check      func(res string, pre, post map[string]*big.Int, preIdx, postIdx string)
}

func (r *run) op(line string, f func() error, o opts) string {
	var pre map[string]*big.Int
	var preIdx string
	if o.check != nil {
		pre, _ = r.snapshot()
		preIdx = r.dumpIdxM(line, false)
	}
	err := f()
	res := errKind(err)
	kind := strings.SplitN(line, " ", 2)[0]
	if err != nil {
		if _, seen := r.out.Stats.Extra["first "+kind+" "+res]; !seen {
			e := err.Error()
			if len(e) > 160 {
				e = e[:160]
			}
			r.out.Stats.Extra["first "+kind+" "+res] = line + " => " + e
		}
	}
	post, order := r.snapshot()
	idx := r.dumpIdx(kind)
	r.out.Emit(line, res+" | "+showSnap(post, order)+" | "+idx)
	r.out.Count("op:" + kind + ":" + res)
	r.out.Nontrivial(kind + "|" + res)
	if res == "err:panic" {
		r.out.Violate("panic in the message handler of " + kind)
	}
	if o.check != nil {
		o.check(res, pre, post, preIdx, idx)
	}
	r.books(line, !o.env, o.aliasShift)
	return res
}

// deltas of the user accounts between two snapshots (module account, WFX contract and supplies excluded)
func userDeltas(pre, post map[string]*big.Int) map[string]string {
	d := map[string]string{}
	keys := map[string]bool{}
	for k := range pre {
		keys[k] = true
	}
	for k := range post {
		keys[k] = true
	}
	for k := range keys {
		if strings.HasPrefix(k, "e.") || strings.HasPrefix(k, "w.") || strings.HasPrefix(k, "s.") {
			continue // the module account, the WFX contract and the supplies are the subject of the book monitors
		}
		a, b := pre[k], post[k]
		if a == nil {
			a = new(big.Int)
		}
		if b == nil {
			b = new(big.Int)
		}
		if a.Cmp(b) != 0 {
			d[k] = new(big.Int).Sub(b, a).String()
		}
	}
	return d
}

func sameDeltas(a, b map[string]string) bool {
	if len(a) != len(b) {
		return false
	}
	for k, v := range a {
		if b[k] != v {
			return false
		}
	}
	return true
}

func addDelta(m map[string]*big.Int, k string, n int) {
	if m[k] == nil {
		m[k] = new(big.Int)
	}
	m[k].Add(m[k], big.NewInt(int64(n)))
}

func want(pairs ...interface{}) map[string]string {
	m := map[string]*big.Int{}
	for i := 0; i+1 < len(pairs); i += 2 {
		addDelta(m, pairs[i].(string), pairs[i+1].(int))
	}
	out := map[string]string{}
	for k, v := range m {
		if v.Sign() != 0 {
			out[k] = v.String()
		}
	}
	return out
}

func showDeltas(d map[string]string) string {
	var ks []string
	for k := range d {
		ks = append(ks, k)
	}
	sort.Strings(ks)
	var out []string
	for _, k := range ks {
		out = append(out, k+":"+d[k])
	}
	return "{" + strings.Join(out, " ") + "}"
}

func ledgerEq(a, b map[string]*big.Int) bool {
	if len(a) != len(b) {
		return false
	}
	for k, v := range a {
		if b[k] == nil || b[k].Cmp(v) != 0 {
			return false
		}
	}
	return true
}

// ---- ops ---------------------------------------------------------------------------------------------

func listStr(as []int) string {
	if len(as) == 0 {
		return "-"
	}
	var p []string
	for _, a := range as {
		p = append(p, fmt.Sprint(a))
	}
	return strings.Join(p, ",")
}

// frame monitor of the index operations: no balance, no supply moves
func (r *run) idxFrame(kind string) func(string, map[string]*big.Int, map[string]*big.Int, string, string) {
	return func(res string, pre, post map[string]*big.Int, preIdx, postIdx string) {
		if !ledgerEq(pre, post) {
			r.out.Violate("frame: " + kind + " changed a balance or a supply")
		}
		if res != "ok" && preIdx != postIdx {
			r.out.Violate("frame: failed " + kind + " changed the indexes")
		}
	}
}

func (r *run) regcoin(d int, aliases []int) {
	ct := r.nextCt
	var al []string
	for _, a := range aliases {
		al = append(al, denomName(a))
	}
	md := fxtypes.GetCrossChainMetadataManyToOne("Token "+symbol(d), symbol(d), 18, al...)
	if d == 0 {
		md = fxtypes.GetFXMetaData()
	}
	r.op(fmt.Sprintf("regcoin %d %d %s", d, ct, listStr(aliases)), func() error {
		err := r.msg(&erc20types.MsgRegisterCoin{Authority: r.gov, Metadata: md})
		if err == nil {
			if p, ok := r.w.S.App.Erc20Keeper.GetTokenPair(r.ctx(), baseName(d)); ok {
				if _, known := r.ctOf[p.GetERC20Contract().Hex()]; !known {
					r.contract[ct] = p.GetERC20Contract()
					r.ctOf[p.GetERC20Contract().Hex()] = ct
					r.nextCt++
				}
			}
			if _, ok := r.mdKind[d]; !ok {
				r.mdKind[d] = "coin"
			}
		}
		return err
	}, opts{check: r.idxFrame("MsgRegisterCoin")})
}

// deploy: an ERC-20 owned by an external account, symbol = the denom's symbol (environment)
func (r *run) deploy(d int) int {
	ct := r.nextCt
	r.op(fmt.Sprintf("deploy %d", ct), func() error {
		fip := contract.GetFIP20()
		a, err := r.w.S.App.EvmKeeper.DeployUpgradableContract(r.ctx(), r.owner.Address(), fip.Address, nil, &fip.ABI, "Token "+symbol(d), symbol(d), uint8(18), bx.Erc20ModuleAddr())
		if err != nil {
			panic(err)
		}
		r.contract[ct] = a
		r.ctOf[a.Hex()] = ct
		r.extOf[d] = ct
		r.nextCt++
		return nil
	}, opts{env: true})
	return ct
}

func (r *run) regerc(d int, aliases []int) {
	ct, ok := r.extOf[d]
	if !ok || (r.dead[ct] && r.rng.Intn(2) == 0) {
		if r.nextCt >= unknown-1 {
			return
		}
		if r.rng.Intn(2) == 0 {
			ct = r.deploys(d, allStyles[r.rng.Intn(len(allStyles))])
		} else {
			ct = r.deploy(d)
		}
	}
	var al []string
	for _, a := range aliases {
		al = append(al, denomName(a))
	}
	r.op(fmt.Sprintf("regerc %d %d %s", d, ct, listStr(aliases)), func() error {
		err := r.msg(&erc20types.MsgRegisterERC20{Authority: r.gov, Erc20Address: r.contract[ct].Hex(), Aliases: al})
		if err == nil {
			r.mdKind[d] = "erc"
		}
		return err
	}, opts{check: r.idxFrame("MsgRegisterERC20")})
}

func (r *run) toggle(d int) {
	r.op(fmt.Sprintf("toggle %d", d), func() error {
		return r.msg(&erc20types.MsgToggleTokenConversion{Authority: r.gov, Token: baseName(d)})
	}, opts{check: r.idxFrame("MsgToggleTokenConversion")})
}

func (r *run) upalias(d, a int) {
	// what the alias set itself does to the right-hand side of I_external of `d`
	shift := map[string]*big.Int{}
	k := r.w.S.App.Erc20Keeper
	if p, ok := k.GetTokenPair(r.ctx(), baseName(d)); ok {
		s := r.coinSupply(a)
		key := p.Denom
		if p.IsNativeCoin() {
			// I_family: the alias coins the module already holds enter / leave the sum
			s = r.coinBal(bx.ModuleAddr(erc20types.ModuleName), a)
			key = "fam:" + p.Denom
		}
		if cur, found := k.GetAliasDenom(r.ctx(), denomName(a)); !found {
			shift[key] = new(big.Int).Neg(s) // alias added: the coin supply side grows by its supply
		} else if cur == baseName(d) {
			shift[key] = s
		}
	}
	r.op(fmt.Sprintf("upalias %d %d", d, a), func() error {
		return r.msg(&erc20types.MsgUpdateDenomAlias{Authority: r.gov, Denom: baseName(d), Alias: denomName(a)})
	}, opts{aliasShift: shift, check: r.idxFrame("MsgUpdateDenomAlias")})
}

func (r *run) enable(b bool) {
	n := 0
	if b {
		n = 1
	}
	r.op(fmt.Sprintf("enable %d", n), func() error {
		p := r.w.S.App.Erc20Keeper.GetParams(r.ctx())
		p.EnableErc20 = b
		return r.msg(&erc20types.MsgUpdateParams{Authority: r.gov, Params: p})
	}, opts{check: r.idxFrame("MsgUpdateParams")})
}

func (r *run) fundc(d, u, n int) {
	r.op(fmt.Sprintf("fundc %d %d %d", d, u, n), func() error {
		r.w.S.MintToken(r.users[u].AccAddress(), sdk.NewCoin(denomName(d), si(n)))
		return nil
	}, opts{env: true})
}

func (r *run) funde(ct, u, n int) {
	r.op(fmt.Sprintf("funde %d %d %d", ct, u, n), func() error {
		if _, err := r.w.S.App.EvmKeeper.ApplyContract(r.ctx(), r.owner.Address(), r.contract[ct], nil, contract.GetFIP20().ABI, "mint", r.users[u].Address(), big.NewInt(int64(n))); err != nil {
			panic(err)
		}
		return nil
	}, opts{env: true})
}

// kill: the contract's account disappears (what a SELFDESTRUCT leaves behind)
func (r *run) kill(ct int) {
	r.op(fmt.Sprintf("kill %d", ct), func() error {
		if err := r.w.S.App.EvmKeeper.DeleteAccount(r.ctx(), r.contract[ct]); err != nil {
			panic(err)
		}
		r.dead[ct] = true
		return nil
	}, opts{env: true})
}

// pairs registered before the op, for the convert_exact monitor
type pr struct {
	d, ct int
}

func (r *run) pairList() []pr {
	var l []pr
	for _, p := range r.w.S.App.Erc20Keeper.GetAllTokenPairs(r.ctx()) {
		l = append(l, pr{denomID(p.Denom), r.ctID(p.GetERC20Contract())})
	}
	return l
}

// convert_exact, coin -> ERC-20: the sender loses exactly n of the pair's coin, the receiver gains exactly n of the
// pair's ERC-20, no other user balance in any denomination or contract moves
// disabledFor tells whether conversions of the token are switched off (module parameter or the pair's flag)
func (r *run) disabledFor(token string) bool {
	if !r.w.S.App.Erc20Keeper.GetEnableErc20(r.ctx()) {
		return true
	}
	p, ok := r.w.S.App.Erc20Keeper.GetTokenPair(r.ctx(), token)
	return ok && !p.Enabled
}

func (r *run) ccoin(d, u, rc, n int) {
	pairs := r.pairList()
	off := r.disabledFor(denomName(d))
	recv := common.BytesToAddress(r.party(rc))
	blocked := r.w.S.App.BankKeeper.BlockedAddr(r.party(rc))
	// what the receiver holds of the ERC-20 of the pair registered for the denomination (directly from the contract)
	recvBal := func() *big.Int {
		if p, ok := r.w.S.App.Erc20Keeper.GetTokenPair(r.ctx(), denomName(d)); ok {
			return r.balOf(p.GetERC20Contract(), recv)
		}
		return big.NewInt(0)
	}
	before := recvBal()
	r.out.Count("ccoin:receiver:" + r.partyClass(rc))
	r.op(fmt.Sprintf("ccoin %d %d %d %d", d, u, rc, n), func() error {
		return r.msg(&erc20types.MsgConvertCoin{Coin: sdk.NewCoin(denomName(d), si(n)), Receiver: recv.Hex(), Sender: r.users[u].AccAddress().String()})
	}, opts{check: func(res string, pre, post map[string]*big.Int, preIdx, postIdx string) {
		got := userDeltas(pre, post)
		if res == "ok" && off {
			r.out.Violate("toggle: MsgConvertCoin succeeded although conversion is switched off (module parameter or pair flag)")
		}
		if res == "ok" && blocked {
			r.out.Violate(fmt.Sprintf("blocked receiver: MsgConvertCoin to a blocked address (%s) was accepted", r.partyClass(rc)))
		}
		if res != "ok" || preIdx != postIdx {
			if len(got) != 0 || (res != "ok" && preIdx != postIdx) {
				r.out.Violate("convert_exact: MsgConvertCoin that failed (or removed a dead pair) moved balances " + showDeltas(got))
			}
			return
		}
		if gain := new(big.Int).Sub(recvBal(), before); gain.Cmp(big.NewInt(int64(n))) != 0 {
			r.out.Violate(fmt.Sprintf("convert_exact: MsgConvertCoin of %d to receiver class %s: the sender lost the coins but the receiver's ERC-20 balance grew by %s", n, r.partyClass(rc), gain))
		}
		for _, p := range pairs {
			w := []interface{}{fmt.Sprintf("u%d.d%d", u, p.d), -n}
			if nm := r.partyName(rc); nm != "" && nm != "e" && nm != "w" {
				w = append(w, fmt.Sprintf("%s.c%d", nm, p.ct), n)
			}
			if p.d == d && sameDeltas(got, want(w...)) {
				return
			}
		}
		r.out.Violate(fmt.Sprintf("convert_exact: MsgConvertCoin of %d in denomination class %s moved %s, not (sender -n of a registered pair's coin, receiver +n of its ERC-20)", n, denomClass(d), showDeltas(got)))
	}})
}

// partyClass names the class of a receiver for the statistics and the violation texts
func (r *run) partyClass(p int) string {
	switch {
	case p < 3:
		return "user"
	case p == pContract:
		return "WFX contract"
	case p >= pContract:
		return "token contract"
	}
	return map[int]string{pErc20Mod: "erc20 module account", pEthMod: "crosschain module account", pFeeColl: "fee collector", pGov: "gov module account",
		pPrecomp: "precompile address", pZero: "zero address"}[p]
}

func denomClass(d int) string {
	if d < 100 {
		return "base"
	}
	return "alias"
}

func (r *run) cerc(ct, u, rc, n int) {
	pairs := r.pairList()
	t := r.contract[ct]
	off := r.disabledFor(t.Hex())
	recv := sdk.AccAddress(r.party(rc))
	blocked := r.w.S.App.BankKeeper.BlockedAddr(recv)
	pair, found := r.w.S.App.Erc20Keeper.GetTokenPair(r.ctx(), t.Hex())
	recvBal := func() *big.Int {
		if found {
			return r.w.S.App.BankKeeper.GetBalance(r.ctx(), recv, pair.Denom).Amount.BigInt()
		}
		return big.NewInt(0)
	}
	before := recvBal()
	// the coins of an ERC-20 -> coin conversion may be sent to the pair's own escrow account (only the WFX contract can be
	// named: the erc20 module account is blocked): a donation, escrow − supply grows by n
	shift := map[string]*big.Int{}
	if found && pair.IsNativeCoin() && pair.Denom == fxtypes.DefaultDenom && rc == pContract && !r.dead[ct] {
		shift["mod:"+pair.Denom] = big.NewInt(int64(n))
	}
	r.out.Count("cerc:receiver:" + r.partyClass(rc))
	r.op(fmt.Sprintf("cerc %d %d %d %d", ct, u, rc, n), func() error {
		return r.msg(&erc20types.MsgConvertERC20{ContractAddress: t.Hex(), Amount: si(n), Receiver: recv.String(), Sender: r.users[u].Address().Hex()})
	}, opts{aliasShift: shift, check: func(res string, pre, post map[string]*big.Int, preIdx, postIdx string) {
		got := userDeltas(pre, post)
		if res == "ok" && off {
			r.out.Violate("toggle: MsgConvertERC20 succeeded although conversion is switched off (module parameter or pair flag)")
		}
		if res == "ok" && blocked {
			r.out.Violate(fmt.Sprintf("blocked receiver: MsgConvertERC20 to a blocked address (%s) was accepted", r.partyClass(rc)))
		}
		if res != "ok" || preIdx != postIdx {
			if len(got) != 0 || (res != "ok" && preIdx != postIdx) {
				r.out.Violate("convert_exact: MsgConvertERC20 that failed (or removed a dead pair) moved balances " + showDeltas(got))
			}
			return
		}
		if gain := new(big.Int).Sub(recvBal(), before); gain.Cmp(big.NewInt(int64(n))) != 0 && !(rc == pContract && pair.Denom == fxtypes.DefaultDenom) {
			r.out.Violate(fmt.Sprintf("convert_exact: MsgConvertERC20 of %d to receiver class %s: the sender lost the tokens but the receiver's coin balance grew by %s", n, r.partyClass(rc), gain))
		}
		for _, p := range pairs {
			w := []interface{}{fmt.Sprintf("u%d.c%d", u, p.ct), -n}
			if nm := r.partyName(rc); nm != "" && nm != "e" && nm != "w" && !(p.d == 0 && rc >= 3) {
				w = append(w, fmt.Sprintf("%s.d%d", nm, p.d), n)
			}
			if p.ct == ct && sameDeltas(got, want(w...)) {
				return
			}
		}
		r.out.Violate(fmt.Sprintf("convert_exact: MsgConvertERC20 of %d moved %s, not (sender -n of the ERC-20, receiver +n of the pair's coin)", n, showDeltas(got)))
	}})
}

// xfer: a direct token.transfer(party, n) by a user — not a message of the erc20 module (environment)
func (r *run) xfer(ct, u, p, n int) {
	to := common.BytesToAddress(r.party(p))
	r.out.Count("xfer:to:" + r.partyClass(p))
	r.op(fmt.Sprintf("xfer %d %d %d %d", ct, u, p, n), func() error {
		return r.atomic(func(ctx sdk.Context) error {
			_, err := r.w.S.App.EvmKeeper.ApplyContract(ctx, r.users[u].Address(), r.contract[ct], nil, contract.GetFIP20().ABI, "transfer", to, big.NewInt(int64(n)))
			return err
		})
	}, opts{env: true})
}

// cden: MsgConvertDenom of coin denomination d towards target t (-1 = the erc20 module, i.e. the base denomination)
func (r *run) cden(d, u, rc, n, t int) {
	tn, target := "E", "erc20"
	if t >= 0 {
		tn, target = fmt.Sprint(t), bx.Chains[t]
	}
	// the family of d on the real state: base denomination + metadata aliases
	fam := map[int]bool{}
	k := r.w.S.App.Erc20Keeper
	base := denomName(d)
	if !k.IsDenomRegistered(r.ctx(), base) {
		base, _ = k.GetAliasDenom(r.ctx(), base)
	}
	if md, ok := r.w.S.App.BankKeeper.GetDenomMetaData(r.ctx(), base); ok && len(md.DenomUnits) > 0 {
		fam[denomID(base)] = true
		for _, a := range md.DenomUnits[0].Aliases {
			fam[denomID(a)] = true
		}
	}
	r.op(fmt.Sprintf("cden %d %d %d %d %s", d, u, rc, n, tn), func() error {
		return r.msg(&erc20types.MsgConvertDenom{Sender: r.users[u].AccAddress().String(), Receiver: r.users[rc].AccAddress().String(), Coin: sdk.NewCoin(denomName(d), si(n)), Target: target})
	}, opts{check: func(res string, pre, post map[string]*big.Int, preIdx, postIdx string) {
		got := userDeltas(pre, post)
		if preIdx != postIdx {
			r.out.Violate("frame: MsgConvertDenom changed the indexes")
		}
		if res != "ok" {
			if len(got) != 0 {
				r.out.Violate("convert_exact: failed MsgConvertDenom moved balances " + showDeltas(got))
			}
			return
		}
		for x := range fam {
			if x != d && sameDeltas(got, want(fmt.Sprintf("u%d.d%d", u, d), -n, fmt.Sprintf("u%d.d%d", rc, x), n)) {
				return
			}
		}
		r.out.Violate(fmt.Sprintf("convert_exact: MsgConvertDenom of %d moved %s, not (sender -n of the coin, receiver +n of another denomination of the same token)", n, showDeltas(got)))
	}})
}

// ---- driver of the test ----------------------------------------------------------------------------------

func TestC08(t *testing.T) {
	seed := hx.Seed()
	rng := rand.New(rand.NewSource(seed))
	out := hx.NewOut()
	defer out.Close("correspondence: after every op <outcome kind | balances of 3 users + erc20 module + WFX contract in every denomination and ERC-20 contract + supplies | raw erc20 store indexes + bank metadata aliases + EnableErc20> against Model/C08U.lean; monitors convert_exact, I_sum, I_module, I_external, I_index, frame on real state; mixed transactions (direct token calls + precompile bridgeCall / crossChain on the same token in one EVM transaction) against the StateDB cache model Model/C08Cache.lean. non-trivial = distinct (op, outcome)")
	nSeq := hx.N(14, 50)
	nOps := 90
	nMix := 60
	if hx.Tier() == "thorough" {
		nOps = 180
		nMix = 200
	}
	for seq := 0; seq <= nSeq; seq++ {
		s := hx.NewSuite(t, 1)
		w := &bx.World{S: s, Height: s.Ctx.BlockHeight()}
		r := &run{w: w, out: out, rng: rng, gov: authtypes.NewModuleAddress(govtypes.ModuleName).String(), contract: map[int]common.Address{}, ctOf: map[string]int{},
			nextCt: 10, last: map[string]string{}, extOf: map[int]int{}, mdKind: map[int]string{}, dead: map[int]bool{}, seenIdx: map[string]bool{}, styleOf: map[int]style{}}
		for i := 0; i < 3; i++ {
			u := helpers.NewSigner(helpers.NewEthPrivKey())
			s.MintToken(u.AccAddress(), sdk.NewCoin(fxtypes.DefaultDenom, si(1000)))
			r.users = append(r.users, u)
		}
		r.owner = helpers.NewSigner(helpers.NewEthPrivKey())
		w.Owner = r.owner
		s.MintToken(r.owner.AccAddress(), sdk.NewCoin(fxtypes.DefaultDenom, si(1)))
		fxPair, _ := s.App.Erc20Keeper.GetTokenPair(s.Ctx, fxtypes.DefaultDenom)
		r.contract[0] = fxPair.GetERC20Contract()
		r.ctOf[fxPair.GetERC20Contract().Hex()] = 0
		r.mdKind[0] = "coin"
		ua := common.BigToAddress(big.NewInt(7047))
		r.contract[unknown] = ua
		r.ctOf[ua.Hex()] = unknown
		out.Reset()
		if seq%3 == 0 && seq != nSeq {
			// genesis export / import on a state without aliases: a module-owned pair with a non-trivial book survives it
			var al7 []int
			if genesisAliasesOn() && seq%2 == 0 {
				// round 5: the pair that is SWITCHED OFF during the round trip owns aliases as well (alias index entries of a
				// disabled pair must come back like those of any other pair)
				al7 = []int{170, 171}
				r.out.Count("genesis:scenario:switched-off pair with aliases")
			}
			r.regcoin(7, al7)
			r.fundc(7, 0, 30)
			r.ccoin(7, 0, 1, 10)
			if seq%2 == 0 {
				r.toggle(7) // a pair that is switched off goes through the round trip as well
			}
			r.genesis()
			if seq%2 == 0 {
				r.ccoin(7, 0, 1, 1)
				r.toggle(7)
			}
			r.ccoin(7, 0, 1, 5)
			r.cerc(r.ctOfDenom(7), 1, 0, 3)
			r.rawSlots(r.contract[r.ctOfDenom(7)], []common.Address{r.users[0].Address(), r.users[1].Address(), bx.Erc20ModuleAddr()}, nil, "after conversions and a genesis round trip")
		}
		// fixed prefix: one module-owned token with two aliases, one externally-owned with one alias
		r.regcoin(1, []int{110, 111})
		r.regerc(2, []int{120})
		r.fundc(1, 0, 200)
		r.funde(r.extOf[2], 1, 200)
		r.fundc(110, 2, 50)
		if seq == nSeq {
			// dedicated last sequence: mixed transactions leave the token's books broken when the defect is present
			r.feeOnTransfer()
			r.mixed(nMix)
			continue
		}
		if seq == 0 {
			ct1, ct2 := r.ctOfDenom(1), r.extOf[2]
			r.ccoin(1, 0, 1, 30)
			r.cerc(ct2, 1, 1, 40)
			r.cden(2, 1, 1, 10, 0) // externally-owned base -> alias: breaks I_external (witness of the Lean theorem)
			r.rawSlots(r.contract[ct1], []common.Address{r.users[0].Address(), r.users[1].Address(), r.users[2].Address(), bx.Erc20ModuleAddr()}, nil, "after MsgConvertCoin")
			if genesisAliasesOn() {
				// genesis export / import with aliases registered: the alias index (prefix 0x05) is not part of the erc20 genesis
				r.genesis()
				r.cden(110, 2, 2, 3, -1)
				r.upalias(1, 110)
				r.upalias(1, 110)
			}
			// receivers that are not users: blocked module accounts (EVM form / bech32 form), the gov module account, a
			// precompile address, the zero address, the token contract itself, the WFX contract
			r.ccoin(2, 1, pErc20Mod, 4) // externally-owned pair, receiver = the module that escrows the tokens
			r.ccoin(1, 0, pErc20Mod, 2)
			r.ccoin(1, 0, pEthMod, 2)
			r.ccoin(1, 0, pFeeColl, 2)
			r.ccoin(1, 0, pGov, 2)
			r.ccoin(1, 0, pPrecomp, 2)
			r.ccoin(1, 0, pZero, 2)
			r.ccoin(1, 0, pContract+ct1, 2)
			r.ccoin(1, 0, pContract, 2)
			r.cerc(ct2, 1, pErc20Mod, 3)
			r.cerc(ct2, 1, pEthMod, 3)
			r.cerc(ct2, 1, pGov, 3)
			r.cerc(ct2, 1, pZero, 3)
			r.ccoin(0, 0, 0, 20)
			r.cerc(0, 0, pContract, 5) // WFX -> FX with the WFX contract as receiver: the FX comes straight back (donation)
			r.xfer(ct2, 1, pErc20Mod, 5) // a direct transfer to the module account: escrow > coin supply
			r.ccoin(110, 2, 2, 5)  // a bridge denomination is not a registered coin
			r.upalias(2, 110)      // an alias owned by another denomination
			r.upalias(2, 112)      // a foreign bridge denomination nobody owns: becomes an alias of denomination 2
			r.fundc(112, 0, 9)
			r.cden(112, 0, 1, 4, -1)
			r.cerc(ct1, 1, 2, 30)
			r.toggle(1)
			r.ccoin(1, 0, 0, 1)
			r.toggle(1)
			r.enable(false)
			r.ccoin(1, 0, 0, 1)
			r.regcoin(3, nil)
			r.enable(true)
			// the denominations of a module-owned coin: alias -> base (escrows the alias), alias -> alias (paid out of
			// the escrow), base -> alias, with and without a different receiver
			r.fundc(111, 2, 20)
			r.cden(110, 2, 2, 6, -1)
			r.cden(111, 2, 0, 7, -1)
			r.cden(110, 2, 1, 3, 1)
			r.cden(1, 2, 2, 2, 0)
			// registrations naming an alias that another denomination owns
			r.regerc(3, []int{110})
			r.regcoin(4, []int{140, 120})
			// removing the first of several aliases, adding it back
			r.upalias(1, 110)
			r.upalias(1, 110)
			// a module-deployed contract and an external contract self-destruct: the next conversion removes the pair
			r.regcoin(5, []int{150, 151})
			r.fundc(5, 0, 20)
			r.ccoin(5, 0, 1, 8)
			ct5 := r.ctOfDenom(5)
			r.kill(ct5)
			r.ccoin(5, 0, 0, 1)
			r.cerc(ct5, 1, 1, 1)
			r.regcoin(5, []int{150, 151})
			r.regerc(6, []int{160, 161})
			ct6 := r.extOf[6]
			r.funde(ct6, 1, 30)
			r.cerc(ct6, 1, 1, 10)
			r.kill(ct6)
			r.cerc(ct6, 1, 1, 5)
			r.ccoin(6, 1, 1, 1)
		}
		if seq >= 1 && seq <= 2 {
			// every signalling style of an externally-owned token, three per sequence, at the balance / escrow boundaries
			for k := 0; k < 3; k++ {
				r.styleScenario(3+k, allStyles[(seq-1)*3+k])
			}
		}
		for i := 0; i < nOps; i++ {
			r.randomOp()
		}
	}
}

func (r *run) ctOfDenom(d int) int {
	if p, ok := r.w.S.App.Erc20Keeper.GetTokenPair(r.ctx(), baseName(d)); ok {
		return r.ctID(p.GetERC20Contract())
	}
	return unknown
}

// amount: boundary-biased around `lim` (a balance / an escrow): lim, lim+1, lim-1, 1, small random
func (r *run) amount(lim *big.Int, cls string) int {
	l := 0
	if lim.IsInt64() && lim.Int64() < 1_000_000 {
		l = int(lim.Int64())
	}
	var n int
	switch k := r.rng.Intn(10); {
	case k < 2 && l > 0:
		n = l
		r.out.Count("amount:" + cls + ":=limit")
	case k == 2 || l == 0:
		n = l + 1
		r.out.Count("amount:" + cls + ":limit+1")
	case k < 5 && l > 1:
		n = l - 1
		r.out.Count("amount:" + cls + ":limit-1")
	case k < 6:
		n = 1
		r.out.Count("amount:" + cls + ":1")
	default:
		m := 25
		if l > 0 && l < m {
			m = l
		}
		n = 1 + r.rng.Intn(m)
		r.out.Count("amount:" + cls + ":small")
	}
	return n
}

type regState struct {
	regd    []int         // registered base denominations
	unreg   []int         // unregistered base denominations (1..7)
	aliases map[int][]int // registered denom -> metadata aliases
	idxAl   []int         // aliases in the alias index
}

func (r *run) regState() regState {
	k := r.w.S.App.Erc20Keeper
	st := regState{aliases: map[int][]int{}}
	for d := 0; d < nG; d++ {
		if k.IsDenomRegistered(r.ctx(), baseName(d)) {
			st.regd = append(st.regd, d)
			if md, ok := r.w.S.App.BankKeeper.GetDenomMetaData(r.ctx(), baseName(d)); ok && len(md.DenomUnits) > 0 {
				for _, a := range md.DenomUnits[0].Aliases {
					st.aliases[d] = append(st.aliases[d], denomID(a))
				}
			}
		} else if d > 0 {
			st.unreg = append(st.unreg, d)
		}
	}
	for _, a := range coinIDs {
		if a >= 100 && k.IsAliasDenomRegistered(r.ctx(), denomName(a)) {
			st.idxAl = append(st.idxAl, a)
		}
	}
	return st
}

func pick(rng *rand.Rand, l []int, def int) int {
	if len(l) == 0 {
		return def
	}
	return l[rng.Intn(len(l))]
}

func (r *run) randomOp() {
	rng := r.rng
	u, rc := rng.Intn(3), rng.Intn(3)
	if rng.Intn(3) == 0 {
		rc = u
	}
	st := r.regState()
	anyAlias := func() int { return 100 + 10*rng.Intn(nG) + rng.Intn(3) }
	if rng.Intn(70) == 0 && r.genesisOK() {
		r.genesis()
		return
	}
	// disabled states are left again quickly, so that most conversions run against an enabled module / pair
	if !r.w.S.App.Erc20Keeper.GetEnableErc20(r.ctx()) && rng.Intn(3) == 0 {
		r.enable(true)
		return
	}
	if rng.Intn(8) == 0 {
		for _, d := range st.regd {
			if p, ok := r.w.S.App.Erc20Keeper.GetTokenPair(r.ctx(), baseName(d)); ok && !p.Enabled {
				r.toggle(d)
				return
			}
		}
	}
	// receivers of the coin <-> ERC-20 conversions: mostly users, three times out of ten a module account / blocked
	// address, the gov module account, a precompile address, the zero address or a contract account
	special := func() int {
		cts := r.ctIDs()
		switch c := rng.Intn(10); {
		case c < 2:
			return pErc20Mod
		case c < 3:
			return pEthMod
		case c < 4:
			return pFeeColl
		case c < 5:
			return pGov
		case c < 6:
			return pPrecomp
		case c < 7:
			return pZero
		case c < 8:
			return pContract // the WFX contract
		}
		return pContract + cts[rng.Intn(len(cts))]
	}
	rcv := rc
	if rng.Intn(10) < 3 {
		rcv = special()
	}
	// a sender that holds the asset, three times out of four
	holder := func(bal func(u int) *big.Int) int {
		if rng.Intn(4) != 0 {
			var hs []int
			for i := range r.users {
				if bal(i).Sign() > 0 {
					hs = append(hs, i)
				}
			}
			if len(hs) > 0 {
				return hs[rng.Intn(len(hs))]
			}
		}
		return u
	}
	switch k := rng.Intn(100); {
	case k < 20: // MsgConvertCoin
		var d int
		cls := ""
		switch c := rng.Intn(20); {
		case c < 13:
			d, cls = pick(rng, st.regd, 1), "registered-base"
		case c < 17:
			d, cls = pick(rng, st.idxAl, anyAlias()), "alias-of-registered" // a bridge denomination of a registered coin
		case c < 18:
			d, cls = pick(rng, st.unreg, 7), "unregistered-base"
		default:
			d, cls = anyAlias(), "any-alias"
		}
		r.out.Count("ccoin:denom:" + cls)
		u = holder(func(i int) *big.Int { return r.coinBal(r.users[i].AccAddress(), d) })
		r.ccoin(d, u, rcv, r.amount(r.coinBal(r.users[u].AccAddress(), d), "ccoin"))
	case k < 40: // MsgConvertERC20
		var ct int
		switch c := rng.Intn(20); {
		case c < 17:
			ct = r.ctOfDenom(pick(rng, st.regd, 1))
			r.out.Count("cerc:contract:registered")
		case c < 19:
			ct = pick(rng, r.ctIDs(), unknown)
			r.out.Count("cerc:contract:any-deployed")
		default:
			ct = unknown
			r.out.Count("cerc:contract:unknown")
		}
		u = holder(func(i int) *big.Int { return r.balOf(r.contract[ct], r.users[i].Address()) })
		r.cerc(ct, u, rcv, r.amount(r.balOf(r.contract[ct], r.users[u].Address()), "cerc"))
	case k < 56: // MsgConvertDenom
		var d int
		// denominations of registered tokens that somebody holds
		var held []int
		for _, x := range append(append([]int{}, st.regd...), st.idxAl...) {
			for i := range r.users {
				if x != 0 && r.coinBal(r.users[i].AccAddress(), x).Sign() > 0 {
					held = append(held, x)
					break
				}
			}
		}
		switch c := rng.Intn(20); {
		case c < 10 && len(held) > 0:
			d = held[rng.Intn(len(held))]
			r.out.Count("cden:denom:held-by-a-user")
		case c < 8:
			d = pick(rng, st.regd, 1)
			r.out.Count("cden:denom:registered-base")
		case c < 17:
			d = pick(rng, st.idxAl, anyAlias())
			r.out.Count("cden:denom:indexed-alias")
		default:
			d = anyAlias()
			r.out.Count("cden:denom:any-alias")
		}
		t := rng.Intn(4) - 1
		if d >= 100 && t == d%10%3 && rng.Intn(5) != 0 {
			t = -1 // mostly a target other than the chain the coin already is on
		}
		u = holder(func(i int) *big.Int { return r.coinBal(r.users[i].AccAddress(), d) })
		lim := r.coinBal(r.users[u].AccAddress(), d)
		if rng.Intn(3) == 0 {
			// what the module holds of the target denomination bounds the conversions it pays out of its escrow
			fam := d
			if b, ok := r.w.S.App.Erc20Keeper.GetAliasDenom(r.ctx(), denomName(d)); ok {
				fam = denomID(b)
			}
			tgt := fam
			for _, a := range st.aliases[fam] {
				if t >= 0 && a >= 100 && a%10%3 == t {
					tgt = a
					break
				}
			}
			if e := r.coinBal(bx.ModuleAddr(erc20types.ModuleName), tgt); e.Sign() > 0 && e.Cmp(lim) < 0 {
				lim = e
				r.out.Count("cden:limit=module-escrow-of-target")
			}
		}
		r.cden(d, u, rc, r.amount(lim, "cden"), t)
	case k < 62: // registrations
		d := pick(rng, st.unreg, 1+rng.Intn(nG-1))
		if rng.Intn(8) == 0 {
			d = pick(rng, st.regd, d) // already registered
		}
		var al []int
		for c := 0; c < 3; c++ {
			if rng.Intn(2) == 0 {
				al = append(al, 100+10*d+c)
			}
		}
		switch c := rng.Intn(12); {
		case c == 0:
			al = append(al, pick(rng, st.idxAl, 110)) // an alias another denomination owns
		case c == 1:
			al = append(al, pick(rng, st.regd, 1)) // a registered base denomination as alias
		case c == 2:
			al = append(al, anyAlias()) // a foreign bridge denomination
		case c == 3:
			al = append(al, d) // itself
		}
		// stateless validation (Metadata.Validate, run by the message router) rejects duplicate aliases
		seen := map[int]bool{}
		var uniq []int
		for _, a := range al {
			if !seen[a] {
				seen[a] = true
				uniq = append(uniq, a)
			}
		}
		al = uniq
		asCoin := rng.Intn(2) == 0
		if r.mdKind[d] == "erc" {
			asCoin = false // modelling restriction: metadata is its alias list only (EqualMetadata compares every field)
		}
		if asCoin {
			if md, ok := r.w.S.App.BankKeeper.GetDenomMetaData(r.ctx(), baseName(d)); ok && len(md.DenomUnits) > 0 && rng.Intn(4) != 0 {
				// re-registration after a pair was removed: the stored metadata must be presented again
				al = nil
				for _, a := range md.DenomUnits[0].Aliases {
					al = append(al, denomID(a))
				}
				r.out.Count("regcoin:existing-metadata")
			}
			r.regcoin(d, al)
		} else {
			r.regerc(d, al)
		}
	case k < 68:
		r.toggle(rng.Intn(nG))
	case k < 84: // MsgUpdateDenomAlias, by class
		d := pick(rng, st.regd, 1)
		var a int
		switch c := rng.Intn(20); {
		case c < 6:
			a = 100 + 10*d + rng.Intn(3)
			r.out.Count("upalias:own-family")
		case c < 10:
			a = pick(rng, st.aliases[d], 100+10*d)
			r.out.Count("upalias:currently-own(remove)")
		case c < 14:
			a = pick(rng, st.idxAl, anyAlias())
			r.out.Count("upalias:indexed(maybe-other-owner)")
		case c < 17:
			a = anyAlias()
			r.out.Count("upalias:any-alias")
		case c < 18:
			a = pick(rng, st.regd, 1)
			r.out.Count("upalias:registered-base-as-alias")
		case c < 19:
			d = pick(rng, st.unreg, 7)
			a = anyAlias()
			r.out.Count("upalias:unregistered-denom")
		default:
			a = pick(rng, st.unreg, 7)
			r.out.Count("upalias:unregistered-base-as-alias")
		}
		if owner, ok := r.w.S.App.Erc20Keeper.GetAliasDenom(r.ctx(), denomName(a)); ok && owner != baseName(d) {
			r.out.Count("upalias:HIT-alias-owned-by-other-denom")
		}
		r.upalias(d, a)
	case k < 91: // coins appear (bridge deposits, mint): any tracked denomination
		d := coinIDs[1+rng.Intn(len(coinIDs)-1)]
		if rng.Intn(4) != 0 {
			d = pick(rng, append(append([]int{}, st.idxAl...), st.regd...), d)
		}
		if d == 0 {
			d = 1
		}
		r.fundc(d, u, 1+rng.Intn(50))
	case k < 94: // external tokens are minted by their owner
		var ext []int
		for _, ct := range r.extOf {
			if !r.dead[ct] {
				ext = append(ext, ct)
			}
		}
		sort.Ints(ext)
		if len(ext) > 0 {
			r.funde(ext[rng.Intn(len(ext))], u, 1+rng.Intn(50))
		}
	case k < 96:
		// a holder moves tokens directly (token.transfer), in particular to the module account that escrows them
		ct := r.ctOfDenom(pick(rng, st.regd, 1))
		if r.dead[ct] {
			return
		}
		u = holder(func(i int) *big.Int { return r.balOf(r.contract[ct], r.users[i].Address()) })
		to := special()
		if rng.Intn(2) == 0 {
			to = pErc20Mod
		}
		r.xfer(ct, u, to, r.amount(r.balOf(r.contract[ct], r.users[u].Address()), "xfer"))
	case k < 98:
		on := r.w.S.App.Erc20Keeper.GetEnableErc20(r.ctx())
		if on {
			r.enable(rng.Intn(4) == 0) // mostly a no-op update
		} else {
			r.enable(rng.Intn(4) != 0)
		}
	default:
		var alive []int
		for _, ct := range r.ctIDs() {
			if ct != 0 && !r.dead[ct] {
				alive = append(alive, ct)
			}
		}
		if len(alive) > 0 && rng.Intn(2) == 0 {
			r.kill(alive[rng.Intn(len(alive))])
		}
	}
}
