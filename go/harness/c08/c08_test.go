package c08

// C08 correspondence + monitors on the REAL app: erc20 message handlers through the real message router
// (MsgConvertCoin / MsgConvertERC20 / MsgConvertDenom, MsgRegisterCoin / MsgRegisterERC20 / MsgToggleTokenConversion /
// MsgUpdateDenomAlias with the gov authority), real bank, real EVM (FIP20 / WFX contracts).
//   * after every ledger op: balances of every user, the erc20 module account and the WFX contract in every
//     representation + supplies, compared with the Lean model;
//   * after every index op: raw dump of the erc20 store prefixes 0x01/0x02/0x03/0x05 + bank metadata aliases, compared
//     with the Lean index model;
//   * monitors on real state: I_sum, I_module, I_external, I_index;
//   * mixed-transaction experiment on the real EVM: a contract transfers the token (dirtying its storage in the
//     running StateDB) and then calls the crosschain precompile `bridgeCall` converting the same token.

import (
	"bytes"
	"fmt"
	"math/big"
	"math/rand"
	"sort"
	"strings"
	"testing"

	sdkmath "cosmossdk.io/math"
	sdk "github.com/cosmos/cosmos-sdk/types"
	authtypes "github.com/cosmos/cosmos-sdk/x/auth/types"
	banktypes "github.com/cosmos/cosmos-sdk/x/bank/types"
	govtypes "github.com/cosmos/cosmos-sdk/x/gov/types"
	"github.com/ethereum/go-ethereum/common"

	"github.com/functionx/fx-core/v8/contract"
	"github.com/functionx/fx-core/v8/testutil/helpers"
	fxtypes "github.com/functionx/fx-core/v8/types"
	crosschaintypes "github.com/functionx/fx-core/v8/x/crosschain/types"
	erc20types "github.com/functionx/fx-core/v8/x/erc20/types"

	bx "fxverif/harness/bridgex"
	"fxverif/harness/hx"
)

const nG = 8

type run struct {
	last     map[string]string // last reported book differences (a break is reported once, when it appears)
	w        *bx.World
	out      *hx.Out
	rng      *rand.Rand
	users    []*helpers.Signer
	owner    *helpers.Signer
	gov      string
	contract map[int]common.Address // contract id -> address
	ctOf     map[string]int         // address -> contract id
	nextCt   int
}

func si(n int) sdkmath.Int { return sdkmath.NewInt(int64(n)) }

func baseName(d int) string {
	if d == 0 {
		return fxtypes.DefaultDenom
	}
	return fmt.Sprintf("tk%c", 'a'+d)
}

func symbol(d int) string { return strings.ToUpper(baseName(d)) }

func aliasName(a int) string {
	if a < 100 {
		return baseName(a)
	}
	c := a % 10
	return bx.Chains[c%3] + common.BigToAddress(big.NewInt(int64(a))).Hex()
}

func aliasID(s string) int {
	for a := 0; a < 100+10*nG+10; a++ {
		if aliasName(a) == s {
			return a
		}
	}
	return -1
}

func denomID(s string) int {
	for d := 0; d < 100; d++ {
		if baseName(d) == s {
			return d
		}
	}
	return -1
}

func (r *run) ctx() sdk.Context { return r.w.S.Ctx }

// ---- observation ---------------------------------------------------------------------------------------

func (r *run) erc20Of(g int) (common.Address, bool) {
	p, ok := r.w.S.App.Erc20Keeper.GetTokenPair(r.ctx(), baseName(g))
	if !ok {
		return common.Address{}, false
	}
	return p.GetERC20Contract(), true
}

func (r *run) assetBal(g, k int, acc sdk.AccAddress) *big.Int {
	switch {
	case k == 0:
		return r.w.S.App.BankKeeper.GetBalance(r.ctx(), acc, baseName(g)).Amount.BigInt()
	case k <= 3:
		return r.w.S.App.BankKeeper.GetBalance(r.ctx(), acc, aliasName(100+10*g+k-1)).Amount.BigInt()
	default:
		t, ok := r.erc20Of(g)
		if !ok {
			if a, ok2 := r.contract[g+1000]; ok2 { // external token deployed but not yet registered
				t = a
			} else {
				return big.NewInt(0)
			}
		}
		return r.w.BalanceOf(t, common.BytesToAddress(acc.Bytes()))
	}
}

func (r *run) assetSupply(g, k int) *big.Int {
	switch {
	case k == 0:
		return r.w.S.App.BankKeeper.GetSupply(r.ctx(), baseName(g)).Amount.BigInt()
	case k <= 3:
		return r.w.S.App.BankKeeper.GetSupply(r.ctx(), aliasName(100+10*g+k-1)).Amount.BigInt()
	default:
		t, ok := r.erc20Of(g)
		if !ok {
			if a, ok2 := r.contract[g+1000]; ok2 {
				t = a
			} else {
				return big.NewInt(0)
			}
		}
		return r.w.TotalSupply(t)
	}
}

var assetNames = []string{"B", "b0", "b1", "b2", "T"}

func (r *run) wfx() common.Address {
	t, _ := r.erc20Of(0)
	return t
}

func (r *run) dumpLedger() string {
	type ac struct {
		n string
		a sdk.AccAddress
	}
	var accts []ac
	for i, u := range r.users {
		accts = append(accts, ac{fmt.Sprintf("u%d", i), u.AccAddress()})
	}
	accts = append(accts, ac{"e", bx.ModuleAddr(erc20types.ModuleName)}, ac{"w", sdk.AccAddress(r.wfx().Bytes())})
	var out []string
	for _, a := range accts {
		for g := 0; g < nG; g++ {
			for k := 0; k < 5; k++ {
				if v := r.assetBal(g, k, a.a); v.Sign() != 0 {
					out = append(out, fmt.Sprintf("%s.g%d%s=%s", a.n, g, assetNames[k], v))
				}
			}
		}
	}
	for g := 0; g < nG; g++ {
		for k := 0; k < 5; k++ {
			if g == 0 && k == 0 {
				continue
			}
			if v := r.assetSupply(g, k); v.Sign() != 0 {
				out = append(out, fmt.Sprintf("s.g%d%s=%s", g, assetNames[k], v))
			}
		}
	}
	return strings.Join(out, " ")
}

type pairRec struct {
	id       string
	d, ct    int
	en, ext  int
	denom    string
	contract common.Address
}

func (r *run) ctID(a common.Address) int {
	if id, ok := r.ctOf[a.Hex()]; ok {
		return id
	}
	return -1
}

// dumpIdx reads the raw erc20 store and the bank metadata; also evaluates I_index on the real state.
func (r *run) dumpIdx(op string) string {
	ctx := r.ctx()
	key := r.w.S.App.GetKey(erc20types.StoreKey)
	pairs := map[string]pairRec{}
	var ps, ds, es, as, ms []string
	for _, kv := range hx.RawPrefix(ctx, key, erc20types.KeyPrefixTokenPair) {
		var p erc20types.TokenPair
		r.w.S.App.AppCodec().MustUnmarshal(kv[1], &p)
		id := string(kv[0][len(erc20types.KeyPrefixTokenPair):])
		rec := pairRec{id: id, d: denomID(p.Denom), ct: r.ctID(p.GetERC20Contract()), denom: p.Denom, contract: p.GetERC20Contract()}
		if p.Enabled {
			rec.en = 1
		}
		if p.IsNativeERC20() {
			rec.ext = 1
		}
		pairs[id] = rec
		if !bytes.Equal(p.GetID(), []byte(id)) {
			r.out.Violate("index: pair stored under a key that is not its id after " + op)
		}
	}
	var recs []pairRec
	for _, p := range pairs {
		recs = append(recs, p)
	}
	sort.Slice(recs, func(i, j int) bool { return recs[i].d < recs[j].d })
	for _, p := range recs {
		ps = append(ps, fmt.Sprintf("P%d:%d:%d:%d", p.d, p.ct, p.en, p.ext))
	}
	idStr := func(id []byte) string {
		if p, ok := pairs[string(id)]; ok {
			return fmt.Sprintf("%d:%d", p.d, p.ct)
		}
		return "?"
	}
	type kv2 struct {
		k int
		s string
	}
	var dl, el, al []kv2
	byDenom := map[string]string{}
	for _, kv := range hx.RawPrefix(ctx, key, erc20types.KeyPrefixTokenPairByDenom) {
		d := string(kv[0][len(erc20types.KeyPrefixTokenPairByDenom):])
		byDenom[d] = string(kv[1])
		dl = append(dl, kv2{denomID(d), fmt.Sprintf("D%d>%s", denomID(d), idStr(kv[1]))})
		if p, ok := pairs[string(kv[1])]; !ok || p.denom != d {
			r.out.Violate("index: denom index entry without a matching pair after " + op)
		}
	}
	byErc := map[string]string{}
	for _, kv := range hx.RawPrefix(ctx, key, erc20types.KeyPrefixTokenPairByERC20) {
		a := common.BytesToAddress(kv[0][len(erc20types.KeyPrefixTokenPairByERC20):])
		byErc[a.Hex()] = string(kv[1])
		el = append(el, kv2{r.ctID(a), fmt.Sprintf("E%d>%s", r.ctID(a), idStr(kv[1]))})
		if p, ok := pairs[string(kv[1])]; !ok || p.contract != a {
			r.out.Violate("index: contract index entry without a matching pair after " + op)
		}
	}
	for _, p := range pairs {
		if byDenom[p.denom] != p.id || byErc[p.contract.Hex()] != p.id {
			r.out.Violate("index: pair not reachable through both the denom and the contract index after " + op)
		}
	}
	aliasIdx := map[string]string{}
	for _, kv := range hx.RawPrefix(ctx, key, erc20types.KeyPrefixAliasDenom) {
		a := string(kv[0][len(erc20types.KeyPrefixAliasDenom):])
		aliasIdx[a] = string(kv[1])
		al = append(al, kv2{aliasID(a), fmt.Sprintf("A%d>%d", aliasID(a), denomID(string(kv[1])))})
	}
	// bank metadata of every denom the model tracks
	mdAliases := map[string][]string{}
	r.w.S.App.BankKeeper.IterateAllDenomMetaData(ctx, func(md banktypes.Metadata) bool {
		if denomID(md.Base) < 0 {
			return false
		}
		var al []string
		if len(md.DenomUnits) > 0 {
			al = md.DenomUnits[0].Aliases
		}
		mdAliases[md.Base] = al
		return false
	})
	var mdKeys []string
	for k := range mdAliases {
		mdKeys = append(mdKeys, k)
	}
	sort.Slice(mdKeys, func(i, j int) bool { return denomID(mdKeys[i]) < denomID(mdKeys[j]) })
	for _, k := range mdKeys {
		var ids []string
		for _, a := range mdAliases[k] {
			ids = append(ids, fmt.Sprint(aliasID(a)))
		}
		ms = append(ms, fmt.Sprintf("M%d=%s", denomID(k), strings.Join(ids, ",")))
	}
	// I_index, alias part: alias index == aliases in the metadata of registered denoms
	for a, d := range aliasIdx {
		found := false
		for _, x := range mdAliases[d] {
			if x == a {
				found = true
			}
		}
		if _, reg := byDenom[d]; !reg || !found {
			r.out.Violate("index: alias index entry that the bank metadata of a registered denom does not list (stale alias) after " + op)
		}
	}
	for d := range byDenom {
		for _, a := range mdAliases[d] {
			if aliasIdx[a] != d {
				r.out.Violate("index: metadata alias of a registered denom missing from the alias index after " + op)
			}
		}
	}
	srt := func(l []kv2) []string {
		sort.Slice(l, func(i, j int) bool { return l[i].k < l[j].k })
		var o []string
		for _, x := range l {
			o = append(o, x.s)
		}
		return o
	}
	ds, es, as = srt(dl), srt(el), srt(al)
	all := append(append(append(append(ps, ds...), es...), as...), ms...)
	return strings.Join(all, " ")
}

// monitors on the ledger: I_sum, I_module, I_external
func (r *run) books(op string) {
	ctx := r.ctx()
	for _, p := range r.w.S.App.Erc20Keeper.GetAllTokenPairs(ctx) {
		t := p.GetERC20Contract()
		ts := r.w.TotalSupply(t)
		sum := new(big.Int)
		holders := []common.Address{bx.Erc20ModuleAddr(), r.owner.Address(), mixerAddr, sinkAddr}
		for _, u := range r.users {
			holders = append(holders, u.Address())
		}
		for _, h := range holders {
			sum.Add(sum, r.w.BalanceOf(t, h))
		}
		kind := "module-owned"
		if p.IsNativeERC20() {
			kind = "externally-owned"
		}
		if d := new(big.Int).Sub(sum, ts).String(); r.changed("sum:"+p.Denom, d) && d != "0" {
			r.out.Violate(fmt.Sprintf("I_sum: ERC-20 balances of %s token sum to %s but totalSupply=%s after %s", kind, sum, ts, op))
		}
		escrow := r.w.S.App.BankKeeper.GetBalance(ctx, bx.ModuleAddr(erc20types.ModuleName), p.Denom).Amount.BigInt()
		if p.IsNativeCoin() {
			if p.Denom == fxtypes.DefaultDenom {
				escrow = r.w.S.App.BankKeeper.GetBalance(ctx, sdk.AccAddress(t.Bytes()), p.Denom).Amount.BigInt()
			}
			if d := new(big.Int).Sub(escrow, ts).String(); r.changed("mod:"+p.Denom, d) && d != "0" {
				r.out.Violate(fmt.Sprintf("I_module: escrowed coins %s != ERC-20 totalSupply %s after %s", escrow, ts, op))
			}
		} else {
			coinSupply := r.w.S.App.BankKeeper.GetSupply(ctx, p.Denom).Amount.BigInt()
			if md, ok := r.w.S.App.BankKeeper.GetDenomMetaData(ctx, p.Denom); ok && len(md.DenomUnits) > 0 {
				for _, a := range md.DenomUnits[0].Aliases {
					coinSupply.Add(coinSupply, r.w.S.App.BankKeeper.GetSupply(ctx, a).Amount.BigInt())
				}
			}
			esc := r.w.BalanceOf(t, bx.Erc20ModuleAddr())
			if d := new(big.Int).Sub(esc, coinSupply).String(); r.changed("ext:"+p.Denom, d) && d != "0" {
				cls := "conversion"
				if strings.HasPrefix(op, "cden") {
					cls = "MsgConvertDenom"
				}
				r.out.Violate(fmt.Sprintf("I_external: module's ERC-20 escrow %s != coin supply over base+aliases %s after %s", esc, coinSupply, cls))
			}
		}
	}
}

// changed records the current difference and tells whether it differs from the last one seen (initially "0")
func (r *run) changed(key, d string) bool {
	old, ok := r.last[key]
	if !ok {
		old = "0"
	}
	r.last[key] = d
	return old != d
}

func (r *run) ledgerOp(line string, f func() string) {
	res := f()
	k := "ok"
	if res != "ok" {
		k = "err"
	}
	r.out.Emit(line, k+" "+r.dumpLedger())
	op := strings.SplitN(line, " ", 2)[0]
	r.out.Count("op:" + op + ":" + k)
	r.out.Nontrivial(op + "|" + k)
	if k == "err" {
		if _, ok := r.out.Stats.Extra["err:"+op]; !ok {
			e := res
			if len(e) > 150 {
				e = e[:150]
			}
			r.out.Stats.Extra["err:"+op] = line + " => " + e
		}
	}
	r.books(line)
}

func (r *run) idxOp(line string, f func() string) string {
	res := f()
	k := "ok"
	if res != "ok" {
		k = "err"
	}
	op := strings.SplitN(line, " ", 2)[0]
	r.out.Emit(line, k+" "+r.dumpIdx(op))
	r.out.Count("op:" + op + ":" + k)
	r.out.Nontrivial(op + "|" + k)
	if k == "err" {
		if _, ok := r.out.Stats.Extra["err:"+op]; !ok {
			e := res
			if len(e) > 150 {
				e = e[:150]
			}
			r.out.Stats.Extra["err:"+op] = line + " => " + e
		}
	}
	return res
}

// ---- ops ---------------------------------------------------------------------------------------------

func listStr(as []int) string {
	if len(as) == 0 {
		return "-"
	}
	var p []string
	for _, a := range as {
		p = append(p, fmt.Sprint(a))
	}
	return strings.Join(p, ",")
}

func (r *run) regcoin(d int, aliases []int) {
	ct := r.nextCt
	var al []string
	for _, a := range aliases {
		al = append(al, aliasName(a))
	}
	md := fxtypes.GetCrossChainMetadataManyToOne("Token "+symbol(d), symbol(d), 18, al...)
	if d == 0 {
		md = fxtypes.GetFXMetaData()
	}
	res := r.idxOpPre(fmt.Sprintf("regcoin %d %d %s", d, ct, listStr(aliases)), func() string {
		return r.w.Msg(&erc20types.MsgRegisterCoin{Authority: r.gov, Metadata: md})
	}, func() {
		if p, ok := r.w.S.App.Erc20Keeper.GetTokenPair(r.ctx(), baseName(d)); ok {
			if _, known := r.ctOf[p.GetERC20Contract().Hex()]; !known {
				r.contract[ct] = p.GetERC20Contract()
				r.ctOf[p.GetERC20Contract().Hex()] = ct
				r.nextCt++
			}
		}
	})
	_ = res
}

// idxOpPre runs the op, then `after` (which may learn new contract ids) before the dump is taken
func (r *run) idxOpPre(line string, f func() string, after func()) string {
	return r.idxOp(line, func() string {
		res := f()
		if res == "ok" {
			after()
		}
		return res
	})
}

func (r *run) regerc(d int, aliases []int) {
	// deploy (once per denom) an ERC-20 owned by an external account, symbol = denom's symbol
	addr, ok := r.contract[d+1000]
	if !ok {
		fip := contract.GetFIP20()
		a, err := r.w.S.App.EvmKeeper.DeployUpgradableContract(r.ctx(), r.owner.Address(), fip.Address, nil, &fip.ABI, "Token "+symbol(d), symbol(d), uint8(18), bx.Erc20ModuleAddr())
		if err != nil {
			panic(err)
		}
		addr = a
		r.contract[d+1000] = a
		r.ctOf[a.Hex()] = r.nextCt
		r.contract[r.nextCt] = a
		r.nextCt++
	}
	ct := r.ctOf[addr.Hex()]
	var al []string
	for _, a := range aliases {
		al = append(al, aliasName(a))
	}
	r.idxOp(fmt.Sprintf("regerc %d %d %s", d, ct, listStr(aliases)), func() string {
		return r.w.Msg(&erc20types.MsgRegisterERC20{Authority: r.gov, Erc20Address: addr.Hex(), Aliases: al})
	})
}

func (r *run) toggle(d int) {
	r.idxOp(fmt.Sprintf("toggle %d", d), func() string {
		return r.w.Msg(&erc20types.MsgToggleTokenConversion{Authority: r.gov, Token: baseName(d)})
	})
}

func (r *run) upalias(d, a int) {
	r.idxOp(fmt.Sprintf("upalias %d %d", d, a), func() string {
		return r.w.Msg(&erc20types.MsgUpdateDenomAlias{Authority: r.gov, Denom: baseName(d), Alias: aliasName(a)})
	})
}

func (r *run) fund(k, g, u, n int) {
	r.ledgerOp(fmt.Sprintf("fund %d %d %d %d", k, g, u, n), func() string {
		switch {
		case k == 0:
			r.w.S.MintToken(r.users[u].AccAddress(), sdk.NewCoin(baseName(g), si(n)))
		case k <= 3:
			r.w.S.MintToken(r.users[u].AccAddress(), sdk.NewCoin(aliasName(100+10*g+k-1), si(n)))
		default:
			t := r.contract[g+1000]
			if _, err := r.w.S.App.EvmKeeper.ApplyContract(r.ctx(), r.owner.Address(), t, nil, contract.GetFIP20().ABI, "mint", r.users[u].Address(), big.NewInt(int64(n))); err != nil {
				panic(err)
			}
		}
		return "ok"
	})
}

func (r *run) ccoin(g, u, rc, n int) {
	r.ledgerOp(fmt.Sprintf("ccoin %d %d %d %d", g, u, rc, n), func() string {
		return r.w.Msg(&erc20types.MsgConvertCoin{Coin: sdk.NewCoin(baseName(g), si(n)), Receiver: r.users[rc].Address().Hex(), Sender: r.users[u].AccAddress().String()})
	})
}

func (r *run) cerc(g, u, rc, n int) {
	t, ok := r.erc20Of(g)
	if !ok {
		t = common.BigToAddress(big.NewInt(int64(7000 + g)))
	}
	r.ledgerOp(fmt.Sprintf("cerc %d %d %d %d", g, u, rc, n), func() string {
		return r.w.Msg(&erc20types.MsgConvertERC20{ContractAddress: t.Hex(), Amount: si(n), Receiver: r.users[rc].AccAddress().String(), Sender: r.users[u].Address().Hex()})
	})
}

func (r *run) cden(g, u, rc, n, src, dst int) {
	name := func(d int) string {
		if d < 0 {
			return "B"
		}
		return fmt.Sprint(d)
	}
	denom := func(d int) string {
		if d < 0 {
			return baseName(g)
		}
		return aliasName(100 + 10*g + d)
	}
	target := "erc20"
	if dst >= 0 {
		target = bx.Chains[dst]
	}
	r.ledgerOp(fmt.Sprintf("cden %d %d %d %d %s %s", g, u, rc, n, name(src), name(dst)), func() string {
		return r.w.Msg(&erc20types.MsgConvertDenom{Sender: r.users[u].AccAddress().String(), Receiver: r.users[rc].AccAddress().String(), Coin: sdk.NewCoin(denom(src), si(n)), Target: target})
	})
}

// ---- the mixed-transaction experiment --------------------------------------------------------------------

var (
	mixerAddr = common.HexToAddress("0x00000000000000000000000000000000000c0801")
	sinkAddr  = common.HexToAddress("0x00000000000000000000000000000000000c0802")
)

// mixerCode: runtime bytecode that CALLs `a1` with data1, then `a2` with data2 (both embedded after the code), and
// reverts if either call fails.
func mixerCode(a1 common.Address, data1 []byte, a2 common.Address, data2 []byte) []byte {
	build := func(off1, off2 int) []byte {
		var c []byte
		p2 := func(n int) []byte { return []byte{0x61, byte(n >> 8), byte(n)} }
		call := func(off, ln int, to common.Address) {
			c = append(c, p2(ln)...)  // size
			c = append(c, p2(off)...) // code offset
			c = append(c, 0x60, 0x00) // mem dest
			c = append(c, 0x39)       // CODECOPY
			c = append(c, 0x60, 0x00, 0x60, 0x00) // retSize retOff
			c = append(c, p2(ln)...)              // argsSize
			c = append(c, 0x60, 0x00)             // argsOff
			c = append(c, 0x60, 0x00)             // value
			c = append(c, 0x73)                   // PUSH20
			c = append(c, to.Bytes()...)
			c = append(c, 0x5a, 0xf1) // GAS CALL
			c = append(c, 0x15)       // ISZERO
			c = append(c, 0x61, 0xff, 0xff, 0x57) // PUSH2 fail JUMPI (patched)
		}
		call(off1, len(data1), a1)
		call(off2, len(data2), a2)
		c = append(c, 0x00) // STOP
		fail := len(c)
		c = append(c, 0x5b, 0x60, 0x00, 0x60, 0x00, 0xfd) // JUMPDEST PUSH1 0 PUSH1 0 REVERT
		for i := 0; i+3 < len(c); i++ {
			if c[i] == 0x61 && c[i+1] == 0xff && c[i+2] == 0xff && c[i+3] == 0x57 {
				c[i+1], c[i+2] = byte(fail>>8), byte(fail)
			}
		}
		return c
	}
	n := len(build(0, 0))
	code := build(n, n+len(data1))
	code = append(code, data1...)
	code = append(code, data2...)
	return code
}

func (r *run) mixedExperiment() {
	w := r.w
	ctx := r.ctx()
	const g = 1
	tokenContract := common.BigToAddress(big.NewInt(110)).Hex()
	pair, ok := w.S.App.Erc20Keeper.GetTokenPair(ctx, baseName(g))
	if !ok {
		return
	}
	token := pair.GetERC20Contract()
	eth := w.S.App.EthKeeper
	if err := eth.AddBridgeTokenExecuted(ctx, &crosschaintypes.MsgBridgeTokenClaim{TokenContract: tokenContract, Name: "Token", Symbol: symbol(g), Decimals: 18, ChainName: "eth"}); err != nil {
		r.out.Stats.Extra["mixed:setup"] = err.Error()
		return
	}
	eth.SetLastObservedBlockHeight(ctx, 1000, uint64(ctx.BlockHeight()))
	// 100 tokens arrive over the bridge for user 0, who converts them into ERC-20 held by the mixer contract
	res := w.Atomic(func(c sdk.Context) error {
		return eth.SendToFxExecuted(c, &crosschaintypes.MsgSendToFxClaim{EventNonce: 1, BlockHeight: 1, TokenContract: tokenContract, Amount: si(100),
			Sender: helpers.GenExternalAddr("eth"), Receiver: r.users[0].AccAddress().String(), TargetIbc: "", ChainName: "eth"})
	})
	if res != "ok" {
		r.out.Stats.Extra["mixed:deposit"] = res
		return
	}
	res = w.Msg(&erc20types.MsgConvertCoin{Coin: sdk.NewCoin(baseName(g), si(100)), Receiver: mixerAddr.Hex(), Sender: r.users[0].AccAddress().String()})
	if res != "ok" {
		r.out.Stats.Extra["mixed:convert"] = res
		return
	}
	d1, _ := contract.GetFIP20().ABI.Pack("transfer", sinkAddr, big.NewInt(10))
	d2, err := crosschaintypes.GetABI().Pack("bridgeCall", "eth", r.users[0].Address(), []common.Address{token}, []*big.Int{big.NewInt(50)}, common.Address{}, []byte{}, big.NewInt(0), []byte{})
	if err != nil {
		panic(err)
	}
	for _, variant := range []string{"plain", "mixed"} {
		var code []byte
		if variant == "plain" {
			// control: the same precompile call without touching the token first (balanceOf is a read)
			d0, _ := contract.GetFIP20().ABI.Pack("balanceOf", sinkAddr)
			code = mixerCode(token, d0, crosschaintypes.GetAddress(), d2)
		} else {
			code = mixerCode(token, d1, crosschaintypes.GetAddress(), d2)
		}
		if err := w.S.App.EvmKeeper.CreateContractWithCode(r.ctx(), mixerAddr, code); err != nil {
			panic(err)
		}
		before := w.BalanceOf(token, mixerAddr)
		res = w.CallEVM(r.users[0].Address(), mixerAddr, big.NewInt(0), nil)
		after := w.BalanceOf(token, mixerAddr)
		ts := w.TotalSupply(token)
		r.out.Stats.Extra["mixed:"+variant] = fmt.Sprintf("res=%s mixer %s -> %s, sink %s, totalSupply %s, escrow %s", res, before, after, w.BalanceOf(token, sinkAddr), ts,
			w.S.App.BankKeeper.GetBalance(r.ctx(), bx.ModuleAddr(erc20types.ModuleName), baseName(g)).Amount)
		r.out.Count("mixed:" + variant + ":" + strings.SplitN(res, ":", 2)[0])
		// invariants after the transaction
		sum := new(big.Int)
		for _, h := range []common.Address{mixerAddr, sinkAddr, bx.Erc20ModuleAddr(), r.users[0].Address(), r.users[1].Address(), r.users[2].Address()} {
			sum.Add(sum, w.BalanceOf(token, h))
		}
		escrow := w.S.App.BankKeeper.GetBalance(r.ctx(), bx.ModuleAddr(erc20types.ModuleName), baseName(g)).Amount.BigInt()
		if sum.Cmp(ts) != 0 || escrow.Cmp(ts) != 0 {
			r.out.Violate(fmt.Sprintf("mixed transaction (%s): precompile=bridgeCall, token dirtied by caller before call: ERC-20 balances sum %s, totalSupply %s, escrow %s", variant, sum, ts, escrow))
		}
	}
}

// ---- driver of the test ----------------------------------------------------------------------------------

func TestC08(t *testing.T) {
	seed := hx.Seed()
	rng := rand.New(rand.NewSource(seed))
	out := hx.NewOut()
	defer out.Close("correspondence: ledger (3 users + erc20 module + WFX contract x every representation + supplies) after every conversion message, raw erc20 store indexes + bank metadata after every registration / toggle / alias update; monitors I_sum, I_module, I_external, I_index on real state; mixed-transaction experiment (token.transfer then precompile bridgeCall of the same token in one EVM transaction). non-trivial = distinct (op, outcome)")
	nSeq := hx.N(8, 40)
	nOps := 70
	if hx.Tier() == "thorough" {
		nOps = 160
	}
	nSeq++ // + one dedicated sequence for the mixed-transaction experiment
	for seq := 0; seq < nSeq; seq++ {
		s := hx.NewSuite(t, 1)
		w := &bx.World{S: s, Height: s.Ctx.BlockHeight()}
		if seq == nSeq-1 {
			nOps = 0
		}
		r := &run{w: w, out: out, rng: rng, gov: authtypes.NewModuleAddress(govtypes.ModuleName).String(), contract: map[int]common.Address{}, ctOf: map[string]int{}, nextCt: 10, last: map[string]string{}}
		for i := 0; i < 3; i++ {
			u := helpers.NewSigner(helpers.NewEthPrivKey())
			s.MintToken(u.AccAddress(), sdk.NewCoin(fxtypes.DefaultDenom, si(1000)))
			r.users = append(r.users, u)
		}
		r.owner = helpers.NewSigner(helpers.NewEthPrivKey())
		w.Owner = r.owner
		s.MintToken(r.owner.AccAddress(), sdk.NewCoin(fxtypes.DefaultDenom, si(1)))
		fxPair, _ := s.App.Erc20Keeper.GetTokenPair(s.Ctx, fxtypes.DefaultDenom)
		r.contract[0] = fxPair.GetERC20Contract()
		r.ctOf[fxPair.GetERC20Contract().Hex()] = 0
		out.Reset()
		// fixed prefix: one module-owned token with two aliases, one externally-owned with one alias
		r.regcoin(1, []int{110, 111})
		r.regerc(2, []int{120})
		r.fund(0, 1, 0, 200)
		r.fund(4, 2, 1, 200)
		r.fund(1, 1, 2, 50)
		if seq == 0 {
			r.ccoin(1, 0, 1, 30)
			r.cerc(2, 1, 1, 40)
			r.cden(2, 1, 1, 10, -1, 0) // externally-owned base -> alias: breaks I_external (witness of the Lean theorem)
		}
		for i := 0; i < nOps; i++ {
			r.randomOp()
		}
		if seq == nSeq-1 {
			// dedicated last sequence: the experiment leaves the token's books broken when the defect is present
			r.mixedExperiment()
		}
	}
}

func (r *run) randomOp() {
	rng := r.rng
	u, rc := rng.Intn(3), rng.Intn(3)
	g := []int{0, 1, 1, 1, 2, 2, 2, 3, 4}[rng.Intn(9)]
	n := 1 + rng.Intn(25)
	switch k := rng.Intn(100); {
	case k < 22:
		r.ccoin(g, u, rc, n)
	case k < 44:
		r.cerc(g, u, rc, n)
	case k < 56:
		dens := []int{-1, 0, 1, 2}
		gg := 1 + rng.Intn(2)
		// externally-owned base<->alias conversions are a listed finding; keep them rare but present
		r.cden(gg, u, rc, 1+rng.Intn(10), dens[rng.Intn(4)], dens[rng.Intn(4)])
	case k < 62:
		d := 3 + rng.Intn(4)
		var al []int
		for c := 0; c < 3; c++ {
			if rng.Intn(2) == 0 {
				al = append(al, 100+10*d+c)
			}
		}
		if rng.Intn(6) == 0 && r.w.S.App.Erc20Keeper.IsAliasDenomRegistered(r.ctx(), aliasName(110)) {
			al = append(al, 110) // alias of another denom (only while it is registered: coins of it exist)
		}
		if rng.Intn(10) == 0 {
			al = append(al, 1) // a registered base denom as alias
		}
		if rng.Intn(2) == 0 {
			r.regcoin(d, al)
		} else {
			r.regerc(d, al)
		}
	case k < 70:
		r.toggle(rng.Intn(7))
	case k < 88:
		d := rng.Intn(7)
		a := 100 + 10*d + rng.Intn(3)
		if rng.Intn(5) == 0 {
			// an alias of another group; kept among denominations 3..6, which the conversion ops only use with their own
			// aliases (modelling assumption of the ledger slice: an alias converts within its own token group)
			d = 3 + rng.Intn(4)
			a = 100 + 10*(3+rng.Intn(4)) + rng.Intn(3)
		}
		if rng.Intn(15) == 0 {
			a = rng.Intn(7)
		}
		r.upalias(d, a)
	case k < 94:
		kinds := []int{0, 1, 2, 3}
		r.fund(kinds[rng.Intn(4)], 1, u, 1+rng.Intn(50)) // coins are only created for the module-owned token
	default:
		if a, ok := r.contract[1000+g]; ok && func() bool { t, reg := r.erc20Of(g); return reg && t == a }() {
			r.fund(4, g, u, 1+rng.Intn(50))
		} else {
			r.fund(0, 1, u, 1+rng.Intn(50))
		}
	}
}
