package c08

// Mixed transactions on the real EVM: one transaction in which a contract ("mixer") makes direct calls on a token
// (transfer, approve, balanceOf) and calls the crosschain precompiles `bridgeCall` (conversion through the erc20
// keeper = keeper-level nested EVM execution) and `crossChain` (conversion through the running EVM) with the same
// token.  Every transaction is one op line
//     mix <kind> <mixer> <sink> <module> <totalSupply> <allowance(mixer -> precompile)> <escrowed coins> <step>*
// carrying the token's state before the transaction; the observation is the state after it, compared with the
// StateDB cache model (Model/C08Cache.lean), which predicts the numbers of the defect as well as the coherent runs.

import (
	"fmt"
	"math/big"
	"os"
	"sort"
	"strings"

	sdk "github.com/cosmos/cosmos-sdk/types"
	"github.com/ethereum/go-ethereum/common"

	"github.com/functionx/fx-core/v8/contract"
	"github.com/functionx/fx-core/v8/testutil/helpers"
	fxtypes "github.com/functionx/fx-core/v8/types"
	crosschaintypes "github.com/functionx/fx-core/v8/x/crosschain/types"
	erc20types "github.com/functionx/fx-core/v8/x/erc20/types"

	bx "fxverif/harness/bridgex"
)

var (
	mixerAddr = common.HexToAddress("0x00000000000000000000000000000000000c0801")
	sinkAddr  = common.HexToAddress("0x00000000000000000000000000000000000c0802")
)

type call struct {
	to   common.Address
	data []byte
}

// mixerCode: runtime bytecode that CALLs each target with its calldata (embedded after the code) in order and reverts
// if any call fails.
func mixerCode(calls []call) []byte {
	build := func(offs []int) []byte {
		var c []byte
		p2 := func(n int) []byte { return []byte{0x61, byte(n >> 8), byte(n)} }
		for i, cl := range calls {
			ln := len(cl.data)
			c = append(c, p2(ln)...)      // size
			c = append(c, p2(offs[i])...) // code offset
			c = append(c, 0x60, 0x00)     // mem dest
			c = append(c, 0x39)           // CODECOPY
			c = append(c, 0x60, 0x00, 0x60, 0x00) // retSize retOff
			c = append(c, p2(ln)...)              // argsSize
			c = append(c, 0x60, 0x00)             // argsOff
			c = append(c, 0x60, 0x00)             // value
			c = append(c, 0x73)                   // PUSH20
			c = append(c, cl.to.Bytes()...)
			c = append(c, 0x5a, 0xf1)             // GAS CALL
			c = append(c, 0x15)                   // ISZERO
			c = append(c, 0x61, 0xff, 0xff, 0x57) // PUSH2 fail JUMPI (patched)
		}
		c = append(c, 0x00) // STOP
		fail := len(c)
		c = append(c, 0x5b, 0x60, 0x00, 0x60, 0x00, 0xfd) // JUMPDEST PUSH1 0 PUSH1 0 REVERT
		for i := 0; i+3 < len(c); i++ {
			if c[i] == 0x61 && c[i+1] == 0xff && c[i+2] == 0xff && c[i+3] == 0x57 {
				c[i+1], c[i+2] = byte(fail>>8), byte(fail)
			}
		}
		return c
	}
	zero := make([]int, len(calls))
	n := len(build(zero))
	offs := make([]int, len(calls))
	off := n
	for i, cl := range calls {
		offs[i] = off
		off += len(cl.data)
	}
	code := build(offs)
	for _, cl := range calls {
		code = append(code, cl.data...)
	}
	return code
}

type mixState struct{ m, s, e, ts, al, esc *big.Int }

func (r *run) mixState(token common.Address) mixState {
	var res struct{ Value *big.Int }
	al := big.NewInt(0)
	if err := r.w.S.App.EvmKeeper.QueryContract(r.ctx(), r.owner.Address(), token, contract.GetFIP20().ABI, "allowance", &res, mixerAddr, crosschaintypes.GetAddress()); err == nil {
		al = res.Value
	}
	esc := r.w.S.App.BankKeeper.GetBalance(r.ctx(), bx.ModuleAddr(erc20types.ModuleName), baseName(1)).Amount.BigInt()
	return mixState{r.balOf(token, mixerAddr), r.balOf(token, sinkAddr), r.balOf(token, bx.Erc20ModuleAddr()), r.totalSupply(token), al, esc}
}

func (s mixState) String() string {
	return fmt.Sprintf("m=%s s=%s e=%s ts=%s al=%s esc=%s", s.m, s.s, s.e, s.ts, s.al, s.esc)
}

func (r *run) mixed(nTx int) {
	const g = 1
	ctx := r.ctx()
	tokenContract := common.BigToAddress(big.NewInt(110)).Hex() // the external contract behind bridge denomination 110
	pair, ok := r.w.S.App.Erc20Keeper.GetTokenPair(ctx, baseName(g))
	if !ok {
		return
	}
	token := pair.GetERC20Contract()
	eth := r.w.S.App.EthKeeper
	if err := eth.AddBridgeTokenExecuted(ctx, &crosschaintypes.MsgBridgeTokenClaim{TokenContract: tokenContract, Name: "Token", Symbol: symbol(g), Decimals: 18, ChainName: "eth"}); err != nil {
		r.out.Stats.Extra["mixed:setup"] = err.Error()
		return
	}
	eth.SetLastObservedBlockHeight(ctx, 1000, uint64(ctx.BlockHeight()))
	// tokens arrive over the bridge for user 0, who converts them into ERC-20 held by the mixer contract
	if err := r.atomic(func(c sdk.Context) error {
		return eth.SendToFxExecuted(c, &crosschaintypes.MsgSendToFxClaim{EventNonce: 1, BlockHeight: 1, TokenContract: tokenContract, Amount: si(1_000_000),
			Sender: helpers.GenExternalAddr("eth"), Receiver: r.users[0].AccAddress().String(), TargetIbc: "", ChainName: "eth"})
	}); err != nil {
		r.out.Stats.Extra["mixed:deposit"] = err.Error()
		return
	}
	refill := func() bool {
		if r.balOf(token, mixerAddr).Cmp(big.NewInt(60)) >= 0 {
			return true
		}
		err := r.msg(&erc20types.MsgConvertCoin{Coin: sdk.NewCoin(baseName(g), si(200)), Receiver: mixerAddr.Hex(), Sender: r.users[0].AccAddress().String()})
		if err != nil {
			r.out.Stats.Extra["mixed:convert"] = err.Error()
			return false
		}
		return true
	}
	fip := contract.GetFIP20().ABI
	pending := map[uint64]int64{} // id -> amount + fee of the mixer's transfers waiting in the outgoing pool
	syncPending := func() {
		cur := map[uint64]int64{}
		for _, tx := range eth.GetUnbatchedTransactions(r.ctx()) {
			if tx.Sender == sdk.AccAddress(mixerAddr.Bytes()).String() {
				cur[tx.Id] = tx.Token.Amount.Int64() + tx.Fee.Amount.Int64()
			}
		}
		pending = cur
	}
	pack := func(step string) (call, bool) {
		var n int64
		if len(step) > 1 && step[0] != 'r' {
			fmt.Sscan(step[1:], &n)
		}
		switch step[0] {
		case 't':
			d, _ := fip.Pack("transfer", sinkAddr, big.NewInt(n))
			return call{token, d}, true
		case 'r':
			who := mixerAddr
			if step == "rs" {
				who = sinkAddr
			}
			d, _ := fip.Pack("balanceOf", who)
			return call{token, d}, true
		case 'a':
			d, _ := fip.Pack("approve", crosschaintypes.GetAddress(), big.NewInt(n))
			return call{token, d}, true
		case 'b':
			d, err := crosschaintypes.GetABI().Pack("bridgeCall", "eth", r.users[0].Address(), []common.Address{token}, []*big.Int{big.NewInt(n)}, common.Address{}, []byte{}, big.NewInt(0), []byte{})
			if err != nil {
				panic(err)
			}
			return call{crosschaintypes.GetAddress(), d}, true
		case 'c':
			// cancel the oldest pending transfer of exactly n (amount + fee) made by the mixer
			for id, amt := range pending {
				if amt == n {
					d, err := crosschaintypes.GetABI().Pack("cancelSendToExternal", "eth", big.NewInt(int64(id)))
					if err != nil {
						panic(err)
					}
					return call{crosschaintypes.GetAddress(), d}, true
				}
			}
			return call{}, false
		case 'x':
			d, err := crosschaintypes.GetABI().Pack("crossChain", token, helpers.GenExternalAddr("eth"), big.NewInt(n-1), big.NewInt(1), fxtypes.MustStrToByte32("eth"), "")
			if err != nil {
				panic(err)
			}
			return call{crosschaintypes.GetAddress(), d}, true
		}
		return call{}, false
	}
	fixed := [][]string{
		{"rs", "b50"},           // control: the caller only read another holder's balance
		{"t10", "b50"},          // the token's balance slot is dirty in the running StateDB when bridgeCall converts
		{"rm", "b20", "t5"},     // the slot is only cached (read) before the call and written after it
		{"a30", "x30"},          // crossChain converts through the running EVM: coherent
		{"t7", "a20", "x20"},    // dirty slot, then a conversion through the running EVM: coherent
		{"b10"},                 // no direct call at all
		{"b10", "t3"},           // first touch after the call: loads the fresh value
		{"a25", "x25"},          // leaves a transfer of 25 pending in the outgoing pool
		{"t5", "c25"},           // dirty balance slot, then cancelSendToExternal refunds through a keeper-level mint (*)
		{"a12", "x12"},
		{"rs", "c12"}, // control: the refund without a prior touch of the mixer's balance
	}
	for i := 0; i < nTx; i++ {
		if !refill() {
			return
		}
		syncPending()
		pre := r.mixState(token)
		m := int(pre.m.Int64())
		var steps []string
		if i < len(fixed) {
			steps = fixed[i]
		} else {
			rng := r.rng
			amt := func() int {
				switch rng.Intn(6) {
				case 0:
					return m // the whole balance
				case 1:
					return m + 1 // one more than there is: the transaction reverts
				}
				return 2 + rng.Intn(30)
			}
			for k, nSteps := 0, 1+rng.Intn(4); k < nSteps; k++ {
				switch c := rng.Intn(14); {
				case c >= 12:
					// cancel one of the pending transfers, if any (smallest id first: deterministic)
					var ids []uint64
					for id := range pending {
						ids = append(ids, id)
					}
					if len(ids) == 0 {
						steps = append(steps, "rm")
						break
					}
					sort.Slice(ids, func(a, b int) bool { return ids[a] < ids[b] })
					id := ids[rng.Intn(len(ids))]
					already := false
					for _, s := range steps {
						if s == fmt.Sprintf("c%d", pending[id]) {
							already = true
						}
					}
					if !already {
						steps = append(steps, fmt.Sprintf("c%d", pending[id]))
					}
				case c < 3:
					steps = append(steps, fmt.Sprintf("t%d", amt()))
				case c < 4:
					steps = append(steps, "rm")
				case c < 5:
					steps = append(steps, "rs")
				case c < 8:
					steps = append(steps, fmt.Sprintf("b%d", amt()))
				case c < 9:
					steps = append(steps, fmt.Sprintf("a%d", amt()))
				default:
					n := amt()
					if rng.Intn(5) != 0 {
						steps = append(steps, fmt.Sprintf("a%d", n))
					}
					steps = append(steps, fmt.Sprintf("x%d", n))
				}
			}
		}
		if os.Getenv("VERIF_C08_CANCEL_DIRTY") != "1" {
			// (*) cancelSendToExternal after the caller touched the token is a further manifestation of the known
			// nested-EVM defect (fixes/C08-mixed-nested-evm.md); until it is listed in known_findings.json the refund is
			// exercised only where the running StateDB holds nothing of the token yet: cancels go first
			var cs, rest []string
			for _, s := range steps {
				if s[0] == 'c' {
					cs = append(cs, s)
				} else {
					rest = append(rest, s)
				}
			}
			steps = append(cs, rest...)
		}
		var calls []call
		var kept []string
		for _, s := range steps {
			if c, ok := pack(s); ok {
				calls = append(calls, c)
				kept = append(kept, s)
			}
		}
		steps = kept
		if len(steps) == 0 {
			continue
		}
		if err := r.w.S.App.EvmKeeper.CreateContractWithCode(r.ctx(), mixerAddr, mixerCode(calls)); err != nil {
			panic(err)
		}
		preSum, preEsc := r.mixBooks(token, g)
		err := r.atomic(func(c sdk.Context) error {
			res, err := r.w.S.App.EvmKeeper.CallEVM(c, r.users[0].Address(), &mixerAddr, big.NewInt(0), 3_000_000, nil, true)
			if err != nil {
				return err
			}
			if res.Failed() {
				return fmt.Errorf("vm: %s", res.VmError)
			}
			return nil
		})
		post := r.mixState(token)
		res := "ok"
		if err != nil {
			res = "err"
			if _, seen := r.out.Stats.Extra["mixed:first-error"]; !seen {
				r.out.Stats.Extra["mixed:first-error"] = strings.Join(steps, " ") + " => " + err.Error()
			}
		}
		line := fmt.Sprintf("mix 0 %s %s %s %s %s %s %s", pre.m, pre.s, pre.e, pre.ts, pre.al, pre.esc, strings.Join(steps, " "))
		r.out.Emit(line, res+" "+post.String())
		// classes of the program.  The keeper-level conversion that matters is the first one that runs while the running
		// StateDB already holds the mixer's balance slot (dirtied by a transfer of the caller or by crossChain's own
		// transferFrom, or cached by a read), else the first one.
		firstB, dirtyBefore, readBefore, writeAfter, hasX, hasC := -1, false, false, false, false, false
		for k, s := range steps {
			if s[0] == 'b' || s[0] == 'c' {
				touched := false
				for _, q := range steps[:k] {
					if q[0] == 't' || q[0] == 'x' || q == "rm" {
						touched = true
					}
				}
				if firstB < 0 || (touched && !func() bool { // keep the earliest touched one
					for _, q := range steps[:firstB] {
						if q[0] == 't' || q[0] == 'x' || q == "rm" {
							return true
						}
					}
					return false
				}()) {
					firstB = k
				}
			}
			hasC = hasC || s[0] == 'c'
			hasX = hasX || s[0] == 'x'
		}
		for k, s := range steps {
			if firstB >= 0 && k < firstB && s[0] == 't' {
				dirtyBefore = true
			}
			if firstB >= 0 && k < firstB && (s == "rm" || s[0] == 't') {
				readBefore = true
			}
			if firstB >= 0 && k > firstB && s[0] == 't' {
				writeAfter = true
			}
		}
		cls := fmt.Sprintf("bridgeCall/cancel=%v cancel=%v crossChain=%v dirtyBefore=%v readBefore+writeAfter=%v", firstB >= 0, hasC, hasX, dirtyBefore, readBefore && writeAfter)
		r.out.Count("mixed:" + res + ":" + cls)
		r.out.Nontrivial("mix|" + res + "|" + cls)
		// invariants of the token after the transaction: a change of (Σ balances − totalSupply) or (escrow − totalSupply)
		postSum, postEsc := r.mixBooks(token, g)
		if preSum.Cmp(postSum) != 0 || preEsc.Cmp(postEsc) != 0 {
			pc := "crossChain"
			if firstB >= 0 {
				pc = "bridgeCall"
				if steps[firstB][0] == 'c' {
					pc = "cancelSendToExternal"
				}
			}
			r.out.Violate(fmt.Sprintf("mixed transaction (mixed): precompile=%s, token dirtied by caller before call=%v, balance slot cached by a caller read before the call and written after it=%v, crossChain in the same transaction=%v: steps [%s] from %s: Σ balances − totalSupply %s -> %s, escrow − totalSupply %s -> %s",
				pc, dirtyBefore, readBefore && writeAfter, hasX && firstB >= 0, strings.Join(steps, " "), pre, preSum, postSum, preEsc, postEsc))
		}
	}
}

// mixBooks: Σ balances − totalSupply and escrowed coins − totalSupply of the module-owned token
func (r *run) mixBooks(token common.Address, g int) (*big.Int, *big.Int) {
	ts := r.totalSupply(token)
	sum := new(big.Int)
	for _, h := range []common.Address{mixerAddr, sinkAddr, bx.Erc20ModuleAddr(), r.owner.Address(), r.users[0].Address(), r.users[1].Address(), r.users[2].Address()} {
		sum.Add(sum, r.balOf(token, h))
	}
	escrow := r.w.S.App.BankKeeper.GetBalance(r.ctx(), bx.ModuleAddr(erc20types.ModuleName), baseName(g)).Amount.BigInt()
	return sum.Sub(sum, ts), escrow.Sub(escrow, ts)
}
