package c08

// Mixed transactions on the real EVM: one transaction in which a contract ("mixer") makes direct calls on a token
// (transfer, approve, balanceOf) and calls the crosschain precompiles `bridgeCall` (conversion through the erc20
// keeper = keeper-level nested EVM execution) and `crossChain` (conversion through the running EVM) with the same
// token.  Every transaction is one op line
//     mix <kind> <mixer> <sink> <module> <totalSupply> <allowance(mixer -> precompile)> <escrowed coins> <step>*
// carrying the token's state before the transaction; the observation is the state after it, compared with the
// StateDB cache model (Model/C08Cache.lean), which predicts the numbers of the defect as well as the coherent runs.

import (
	"encoding/hex"
	"fmt"
	"math/big"
	"os"
	"sort"
	"strings"

	sdkmath "cosmossdk.io/math"
	sdk "github.com/cosmos/cosmos-sdk/types"
	"github.com/ethereum/go-ethereum/common"

	"github.com/functionx/fx-core/v8/contract"
	"github.com/functionx/fx-core/v8/testutil/helpers"
	fxtypes "github.com/functionx/fx-core/v8/types"
	crosschaintypes "github.com/functionx/fx-core/v8/x/crosschain/types"
	erc20types "github.com/functionx/fx-core/v8/x/erc20/types"

	bx "fxverif/harness/bridgex"
	"fxverif/harness/evmx"
)

var (
	mixerAddr = common.HexToAddress("0x00000000000000000000000000000000000c0801")
	sinkAddr  = common.HexToAddress("0x00000000000000000000000000000000000c0802")
)

type call struct {
	to   common.Address
	data []byte
}

// mixerCode: runtime bytecode that CALLs each target with its calldata (embedded after the code) in order and reverts
// if any call fails.
func mixerCode(calls []call) []byte {
	build := func(offs []int) []byte {
		var c []byte
		p2 := func(n int) []byte { return []byte{0x61, byte(n >> 8), byte(n)} }
		for i, cl := range calls {
			ln := len(cl.data)
			c = append(c, p2(ln)...)      // size
			c = append(c, p2(offs[i])...) // code offset
			c = append(c, 0x60, 0x00)     // mem dest
			c = append(c, 0x39)           // CODECOPY
			c = append(c, 0x60, 0x00, 0x60, 0x00) // retSize retOff
			c = append(c, p2(ln)...)              // argsSize
			c = append(c, 0x60, 0x00)             // argsOff
			c = append(c, 0x60, 0x00)             // value
			c = append(c, 0x73)                   // PUSH20
			c = append(c, cl.to.Bytes()...)
			c = append(c, 0x5a, 0xf1)             // GAS CALL
			c = append(c, 0x15)                   // ISZERO
			c = append(c, 0x61, 0xff, 0xff, 0x57) // PUSH2 fail JUMPI (patched)
		}
		c = append(c, 0x00) // STOP
		fail := len(c)
		c = append(c, 0x5b, 0x60, 0x00, 0x60, 0x00, 0xfd) // JUMPDEST PUSH1 0 PUSH1 0 REVERT
		for i := 0; i+3 < len(c); i++ {
			if c[i] == 0x61 && c[i+1] == 0xff && c[i+2] == 0xff && c[i+3] == 0x57 {
				c[i+1], c[i+2] = byte(fail>>8), byte(fail)
			}
		}
		return c
	}
	zero := make([]int, len(calls))
	n := len(build(zero))
	offs := make([]int, len(calls))
	off := n
	for i, cl := range calls {
		offs[i] = off
		off += len(cl.data)
	}
	code := build(offs)
	for _, cl := range calls {
		code = append(code, cl.data...)
	}
	return code
}

// item of a mixer program: one call that must succeed, or a frame (a group of calls run in a sub-call of the mixer to
// itself: any failing call reverts the frame, the mixer swallows the failure and goes on)
type item struct {
	calls []call
	frame bool
}

// mixerCodeX: runtime bytecode.  Entered with empty calldata it runs the items in order (a failing plain call reverts the
// transaction; a frame is `CALL(self, calldata = [index])` whose result is dropped).  Entered with calldata (only the
// mixer itself does that) it runs the calls of frame calldata[0] and reverts if one fails.  msg.sender of every token /
// precompile call is the mixer in both cases.
func mixerCodeX(items []item) []byte {
	a := &asm{labels: map[string]int{}, fixups: map[int]string{}}
	p2 := func(n int) { a.op(0x61, byte(n>>8), byte(n)) }
	emitCall := func(cl call) {
		for off := 0; off < len(cl.data); off += 32 {
			w := make([]byte, 32)
			copy(w, cl.data[off:])
			a.op(0x7f).op(w...)
			p2(off)
			a.op(0x52) // MSTORE
		}
		a.push1(0).push1(0)
		p2(len(cl.data))
		a.push1(0).push1(0)
		a.op(0x73).op(cl.to.Bytes()...)
		// a fixed gas allowance per call: a precompile that returns an error burns all the gas it was given, so handing
		// every call "all but 1/64th" would let two failing frames starve the rest of the transaction (gas is not modelled)
		a.op(0x62, 0x0f, 0x42, 0x40) // PUSH3 1_000_000
		a.op(0xf1, 0x15)             // CALL ISZERO
		a.jumpTo("fail", true)
	}
	a.op(0x36).jumpTo("dispatch", true) // CALLDATASIZE != 0
	nf := 0
	for _, it := range items {
		if !it.frame {
			emitCall(it.calls[0])
			continue
		}
		a.push1(byte(nf)).push1(0).op(0x53)                   // MSTORE8(0, index)
		a.push1(0).push1(0).push1(1).push1(0).push1(0).op(0x30) // ret 0 0, args 0 1, value 0, ADDRESS
		a.op(0x5a, 0xf1, 0x50)                                  // GAS CALL POP
		nf++
	}
	a.op(0x00)
	a.label("fail").push1(0).push1(0).op(0xfd)
	a.label("dispatch").push1(0).op(0x35).push1(0xf8).op(0x1c) // calldata[0]
	for i := 0; i < nf; i++ {
		a.op(0x80).push1(byte(i)).op(0x14).jumpTo(fmt.Sprintf("frame%d", i), true)
	}
	a.jumpTo("fail", false)
	nf = 0
	for _, it := range items {
		if !it.frame {
			continue
		}
		a.label(fmt.Sprintf("frame%d", nf)).op(0x50)
		for _, cl := range it.calls {
			emitCall(cl)
		}
		a.op(0x00)
		nf++
	}
	return a.build()
}

type mixState struct{ m, s, e, ts, al, esc, u, ua *big.Int }

func (r *run) mixState(token common.Address) mixState { return r.mixStateK(token, 0, 1) }

// mixStateK: kind 0 (module-owned token of denomination g): esc = coins of g escrowed by the erc20 module; kind 1
// (externally-owned token): esc = supply of the pair's coin summed over its denominations (base + bridge denomination
// 100+10g) — the quantity the module's ERC-20 escrow `e` has to equal
func (r *run) mixStateK(token common.Address, kind, g int) mixState {
	var res struct{ Value *big.Int }
	al := big.NewInt(0)
	if err := r.w.S.App.EvmKeeper.QueryContract(r.ctx(), r.owner.Address(), token, contract.GetFIP20().ABI, "allowance", &res, mixerAddr, crosschaintypes.GetAddress()); err == nil {
		al = res.Value
	}
	esc := r.w.S.App.BankKeeper.GetBalance(r.ctx(), bx.ModuleAddr(erc20types.ModuleName), baseName(g)).Amount.BigInt()
	if kind == 1 {
		esc = new(big.Int).Add(r.coinSupply(g), r.coinSupply(100+10*g))
	}
	// the holder (user 2) who approved the mixer
	ua := big.NewInt(0)
	if err := r.w.S.App.EvmKeeper.QueryContract(r.ctx(), r.owner.Address(), token, contract.GetFIP20().ABI, "allowance", &res, r.users[2].Address(), mixerAddr); err == nil {
		ua = res.Value
	}
	return mixState{r.balOf(token, mixerAddr), r.balOf(token, sinkAddr), r.balOf(token, bx.Erc20ModuleAddr()), r.totalSupply(token), al, esc, r.balOf(token, r.users[2].Address()), ua}
}

func (s mixState) String() string {
	return fmt.Sprintf("m=%s s=%s e=%s ts=%s al=%s u=%s ua=%s esc=%s", s.m, s.s, s.e, s.ts, s.al, s.u, s.ua, s.esc)
}

func (r *run) mixed(nTx int) {
	ext := os.Getenv("VERIF_C08_MIX_EXTERNAL") != "0"
	if ext {
		// the externally-owned token of the second part: a fresh FIP20 contract owned by r.owner, registered by governance
		// with one bridge denomination on eth.  Both are op lines of the unified model, so they come BEFORE the first mixed
		// transaction (mixed transactions move balances the unified model does not follow)
		r.deploy(3)
		r.regerc(3, []int{130})
	}
	r.mixedKind(0, nTx)
	if ext {
		// round 5: the same on an EXTERNALLY-owned token (kind 1: the module escrows the ERC-20 and mints / burns the coin)
		r.mixedKind(1, nTx/2)
	}
}

func (r *run) mixedKind(kind, nTx int) {
	g := 1
	if kind == 1 {
		g = 3
	}
	ctx := r.ctx()
	tokenContract := common.BigToAddress(big.NewInt(int64(100 + 10*g))).Hex() // the external contract behind the bridge denomination 100+10g
	pair, ok := r.w.S.App.Erc20Keeper.GetTokenPair(ctx, baseName(g))
	if !ok {
		return
	}
	token := pair.GetERC20Contract()
	eth := r.w.S.App.EthKeeper
	if err := eth.AddBridgeTokenExecuted(ctx, &crosschaintypes.MsgBridgeTokenClaim{TokenContract: tokenContract, Name: "Token", Symbol: symbol(g), Decimals: 18, ChainName: "eth"}); err != nil {
		r.out.Stats.Extra["mixed:setup"] = err.Error()
		return
	}
	eth.SetLastObservedBlockHeight(ctx, 1000, 1) // fx height 1: the real blocks of block_test.go run at the true (small) height
	// tokens arrive over the bridge for user 0, who converts them into ERC-20 held by the mixer contract
	if err := r.atomic(func(c sdk.Context) error {
		if kind == 1 {
			return nil // an externally-owned token is minted by its owner (refill)
		}
		return eth.SendToFxExecuted(c, &crosschaintypes.MsgSendToFxClaim{EventNonce: 1, BlockHeight: 1, TokenContract: tokenContract, Amount: si(1_000_000),
			Sender: helpers.GenExternalAddr("eth"), Receiver: r.users[0].AccAddress().String(), TargetIbc: "", ChainName: "eth"})
	}); err != nil {
		r.out.Stats.Extra["mixed:deposit"] = err.Error()
		return
	}
	fip := contract.GetFIP20().ABI
	holder := r.users[2]
	ownerMint := func(to common.Address, n int64) error {
		return r.atomic(func(c sdk.Context) error {
			_, err := r.w.S.App.EvmKeeper.ApplyContract(c, r.owner.Address(), token, nil, fip, "mint", to, big.NewInt(n))
			return err
		})
	}
	refill := func() bool {
		if kind == 1 {
			if r.balOf(token, mixerAddr).Cmp(big.NewInt(60)) < 0 {
				if err := ownerMint(mixerAddr, 200); err != nil {
					r.out.Stats.Extra["mixed:ext:mint"] = err.Error()
					return false
				}
			}
			if r.balOf(token, holder.Address()).Cmp(big.NewInt(60)) < 0 {
				if err := ownerMint(holder.Address(), 150); err != nil {
					r.out.Stats.Extra["mixed:ext:mint-holder"] = err.Error()
					return false
				}
			}
		} else if r.balOf(token, mixerAddr).Cmp(big.NewInt(60)) < 0 {
			err := r.msg(&erc20types.MsgConvertCoin{Coin: sdk.NewCoin(baseName(g), si(200)), Receiver: mixerAddr.Hex(), Sender: r.users[0].AccAddress().String()})
			if err != nil {
				r.out.Stats.Extra["mixed:convert"] = err.Error()
				return false
			}
		}
		// the holder: a user with tokens who has approved the mixer (transferFrom by the mixer)
		if kind == 0 && r.balOf(token, holder.Address()).Cmp(big.NewInt(60)) < 0 {
			if err := r.msg(&erc20types.MsgConvertCoin{Coin: sdk.NewCoin(baseName(g), si(150)), Receiver: holder.Address().Hex(), Sender: r.users[0].AccAddress().String()}); err != nil {
				r.out.Stats.Extra["mixed:convert-holder"] = err.Error()
				return false
			}
		}
		if st := r.mixStateK(token, kind, g); st.ua.Cmp(big.NewInt(40)) < 0 {
			if err := r.atomic(func(c sdk.Context) error {
				_, err := r.w.S.App.EvmKeeper.ApplyContract(c, holder.Address(), token, nil, fip, "approve", mixerAddr, big.NewInt(100))
				return err
			}); err != nil {
				r.out.Stats.Extra["mixed:approve-holder"] = err.Error()
				return false
			}
		}
		return true
	}
	pending := map[uint64]int64{} // id -> amount + fee of the mixer's transfers waiting in the outgoing pool
	syncPending := func() {
		cur := map[uint64]int64{}
		for _, tx := range eth.GetUnbatchedTransactions(r.ctx()) {
			if tx.Sender == sdk.AccAddress(mixerAddr.Bytes()).String() {
				cur[tx.Id] = tx.Token.Amount.Int64() + tx.Fee.Amount.Int64()
			}
		}
		pending = cur
	}
	claimNonce := uint64(5000)
	pack := func(step string) (call, bool) {
		var n int64
		if len(step) > 1 && step[0] != 'r' {
			fmt.Sscan(step[1:], &n)
		}
		switch step[0] {
		case 't':
			d, _ := fip.Pack("transfer", sinkAddr, big.NewInt(n))
			return call{token, d}, true
		case 'f':
			d, _ := fip.Pack("transferFrom", holder.Address(), sinkAddr, big.NewInt(n))
			return call{token, d}, true
		case 'r':
			who := mixerAddr
			if step == "rs" {
				who = sinkAddr
			}
			d, _ := fip.Pack("balanceOf", who)
			return call{token, d}, true
		case 'a':
			d, _ := fip.Pack("approve", crosschaintypes.GetAddress(), big.NewInt(n))
			return call{token, d}, true
		case 'b':
			d, err := crosschaintypes.GetABI().Pack("bridgeCall", "eth", r.users[0].Address(), []common.Address{token}, []*big.Int{big.NewInt(n)}, common.Address{}, []byte{}, big.NewInt(0), []byte{})
			if err != nil {
				panic(err)
			}
			return call{crosschaintypes.GetAddress(), d}, true
		case 'c':
			// cancel the oldest pending transfer of exactly n (amount + fee) made by the mixer
			for id, amt := range pending {
				if amt == n {
					d, err := crosschaintypes.GetABI().Pack("cancelSendToExternal", "eth", big.NewInt(int64(id)))
					if err != nil {
						panic(err)
					}
					return call{crosschaintypes.GetAddress(), d}, true
				}
			}
			return call{}, false
		case 'e':
			// executeClaim of a bridge deposit of n addressed to the mixer with target erc20: attested, parked for execution
			claimNonce++
			eth.SavePendingExecuteClaim(r.ctx(), &crosschaintypes.MsgSendToFxClaim{EventNonce: claimNonce, BlockHeight: 1, TokenContract: tokenContract, Amount: sdkmath.NewInt(n),
				Sender: helpers.GenExternalAddr("eth"), Receiver: sdk.AccAddress(mixerAddr.Bytes()).String(), TargetIbc: hex.EncodeToString([]byte(fxtypes.LegacyERC20Target)), ChainName: "eth"})
			d, err := crosschaintypes.GetABI().Pack("executeClaim", "eth", new(big.Int).SetUint64(claimNonce))
			if err != nil {
				panic(err)
			}
			return call{crosschaintypes.GetAddress(), d}, true
		case 'x':
			d, err := crosschaintypes.GetABI().Pack("crossChain", token, helpers.GenExternalAddr("eth"), big.NewInt(n-1), big.NewInt(1), fxtypes.MustStrToByte32("eth"), "")
			if err != nil {
				panic(err)
			}
			return call{crosschaintypes.GetAddress(), d}, true
		}
		return call{}, false
	}
	fixed := [][]string{
		{"rs", "b50"},        // control: the caller only read another holder's balance
		{"t10", "b50"},       // the token's balance slot is dirty in the running StateDB when bridgeCall converts
		{"rm", "b20", "t5"},  // the slot is only cached (read) before the call and written after it
		{"a30", "x30"},       // crossChain converts through the running EVM: coherent
		{"t7", "a20", "x20"}, // dirty slot, then a conversion through the running EVM: coherent
		{"b10"},              // no direct call at all
		{"b10", "t3"},        // first touch after the call: loads the fresh value
		{"a25", "x25"},       // leaves a transfer of 25 pending in the outgoing pool
		{"t5", "c25"},        // dirty balance slot, then cancelSendToExternal refunds through a keeper-level mint (*)
		{"a12", "x12"},
		{"rs", "c12"}, // control: the refund without a prior touch of the mixer's balance
		// transferFrom by the mixer out of a third holder's balance (allowance slot + two balance slots)
		{"f9"},
		{"f7", "b20"},   // touches the holder's and the sink's slots, not the mixer's: coherent
		{"f999"},        // more than the allowance: the transaction reverts
		{"e15"},         // executeClaim: a parked bridge deposit is credited as ERC-20 through a keeper-level mint
		{"rs", "e15", "t4"}, // control: first touch of the mixer's balance after the nested mint
		{"e9", "b9"},        // two keeper-level calls, nothing cached
		// sub-call frames whose failure the mixer swallows (journal revert)
		{"[", "t99999", "]", "t5"},             // a failed frame, then a plain transfer: as if the frame had not run
		{"[", "t4", "a10", "x10", "]", "t3"},   // a successful frame
		{"[", "t6", "b99999", "]", "rs"},       // the frame writes, then its bridgeCall fails: everything of the frame reverted
		{"[", "b99999", "]", "b10"},            // a failing keeper-level conversion alone in a frame: nothing cached
		{"[", "a5", "x9", "]", "t2"},           // crossChain above the allowance inside a frame
		{"[", "f999", "]", "f5"},               // transferFrom above the allowance inside a frame
		{"[", "t99999", "]", "b20", "t5"},      // the failed frame READ the balance: cached; bridgeCall; transfer from the stale value (*)
		{"[", "t10", "b99999", "]", "b50", "t5"}, // the reverted write stays in dirtyStorage with the old value (*)
		{"[", "b20", "t99999", "]", "t5"},      // a keeper-level burn inside a frame that then fails: its result is cached although reverted (*)
		{"[", "a8", "x8", "t99999", "]", "rs"}, // crossChain succeeds inside a frame that then fails: tokens, coins and the pool entry all come back
		{"[", "a6", "x6", "f999", "]", "t3"},   // the same, the frame failing in a transferFrom above the allowance; then a plain transfer
		{"[", "e7", "f999", "]", "rs"},         // executeClaim succeeds inside a frame that then fails: the claim stays parked, nothing is credited
	}
	claimDirty := os.Getenv("VERIF_C08_CLAIM_DIRTY") == "1"
	if claimDirty {
		fixed = append(fixed, []string{"t5", "e15"}, []string{"rm", "e10", "t2"})
	}
	deliverable := os.Getenv("VERIF_C08_BLOCKS") != "0" && r.probeDelivery()
	for i := 0; i < nTx; i++ {
		if !refill() {
			return
		}
		syncPending()
		pre := r.mixStateK(token, kind, g)
		m := int(pre.m.Int64())
		var steps []string
		if i < len(fixed) {
			steps = fixed[i]
		} else {
			rng := r.rng
			amt := func() int {
				switch rng.Intn(6) {
				case 0:
					return m // the whole balance
				case 1:
					return m + 1 // one more than there is: the transaction (or the frame) reverts
				}
				return 2 + rng.Intn(30)
			}
			var gen func(depth int) []string
			gen = func(depth int) []string {
				var out []string
				for k, nSteps := 0, 1+rng.Intn(4); k < nSteps; k++ {
					switch c := rng.Intn(20); {
					case c >= 18 && depth == 0:
						// a frame: mostly one that fails (an amount above the balance / allowance somewhere in it)
						in := gen(1)
						if rng.Intn(3) != 0 {
							fail := []string{fmt.Sprintf("t%d", m+1+rng.Intn(5)), "b99999", "f999", fmt.Sprintf("x%d", 99999)}[rng.Intn(4)]
							pos := rng.Intn(len(in) + 1)
							in = append(append(append([]string{}, in[:pos]...), fail), in[pos:]...)
							r.out.Count("mixed:frame:with-failing-step:" + fail[:1])
						}
						out = append(append(append(out, "["), in...), "]")
					case c >= 16:
						// cancel one of the pending transfers, if any (smallest id first: deterministic)
						var ids []uint64
						for id := range pending {
							ids = append(ids, id)
						}
						if len(ids) == 0 {
							out = append(out, "rm")
							break
						}
						sort.Slice(ids, func(a, b int) bool { return ids[a] < ids[b] })
						id := ids[rng.Intn(len(ids))]
						already := false
						for _, s := range append(append([]string{}, steps...), out...) {
							if s == fmt.Sprintf("c%d", pending[id]) {
								already = true
							}
						}
						if !already {
							out = append(out, fmt.Sprintf("c%d", pending[id]))
						}
					case c < 3:
						out = append(out, fmt.Sprintf("t%d", amt()))
					case c < 4:
						out = append(out, "rm")
					case c < 5:
						out = append(out, "rs")
					case c < 8:
						out = append(out, fmt.Sprintf("b%d", amt()))
					case c < 9:
						out = append(out, fmt.Sprintf("a%d", amt()))
					case c < 11:
						// transferFrom by the mixer: at, above, below the holder's allowance
						ua := int(pre.ua.Int64())
						out = append(out, fmt.Sprintf("f%d", []int{ua, ua + 1, 1 + rng.Intn(20), 3}[rng.Intn(4)]))
					case c < 13 && depth == 0:
						out = append(out, fmt.Sprintf("e%d", 1+rng.Intn(40)))
					default:
						n := amt()
						if rng.Intn(5) != 0 {
							out = append(out, fmt.Sprintf("a%d", n))
						}
						out = append(out, fmt.Sprintf("x%d", n))
					}
				}
				return out
			}
			steps = gen(0)
		}
		// a cancel may appear once per transaction and only at the top level (the pool entry is gone after the first)
		depth := 0
		var filtered []string
		for _, s := range steps {
			if s == "[" {
				depth++
			} else if s == "]" {
				depth--
			} else if s[0] == 'c' && depth > 0 {
				continue
			} else if kind == 1 && (s[0] == 'c' || s[0] == 'e') {
				// refunds / inbound claims of an externally-owned token need coins locked by earlier outbound transfers: not driven
				continue
			}
			filtered = append(filtered, s)
		}
		steps = filtered
		front := func(kind byte) {
			var cs, rest []string
			d := 0
			for _, s := range steps {
				if s == "[" {
					d++
				} else if s == "]" {
					d--
				}
				if d == 0 && s[0] == kind {
					cs = append(cs, s)
				} else {
					rest = append(rest, s)
				}
			}
			steps = append(cs, rest...)
		}
		if os.Getenv("VERIF_C08_CANCEL_DIRTY") != "1" {
			// (*) cancelSendToExternal after the caller touched the token is a further manifestation of the known
			// nested-EVM defect (fixes/C08-mixed-nested-evm.md); until it is listed in known_findings.json the refund is
			// exercised only where the running StateDB holds nothing of the token yet: cancels go first
			front('c')
		}
		if !claimDirty {
			// the same for executeClaim (a third precompile that converts through a keeper-level nested mint): until that
			// manifestation is listed the claim is executed before the caller touches the token
			front('e')
		}
		var items []item
		var kept []string
		depth = 0
		var cur []call
		var curW []string
		for _, s := range steps {
			switch s {
			case "[":
				depth, cur, curW = 1, nil, nil
				continue
			case "]":
				depth = 0
				if len(cur) > 0 {
					items = append(items, item{cur, true})
					kept = append(append(append(kept, "["), curW...), "]")
				}
				continue
			}
			c, ok := pack(s)
			if !ok {
				continue
			}
			if depth > 0 {
				cur, curW = append(cur, c), append(curW, s)
			} else {
				items = append(items, item{[]call{c}, false})
				kept = append(kept, s)
			}
		}
		steps = kept
		if len(steps) == 0 {
			continue
		}
		if err := r.w.S.App.EvmKeeper.CreateContractWithCode(r.ctx(), mixerAddr, mixerCodeX(items)); err != nil {
			panic(err)
		}
		pre = r.mixStateK(token, kind, g)
		preSum, preEsc := r.mixBooksK(token, kind, g)
		var err error
		if odd := os.Getenv("VERIF_C08_BLOCKS") != "0" && i%2 == 1; odd && deliverable {
			// a signed MsgEthereumTx in a real block (ante handler, FinalizeBlock, Commit): block_test.go
			err = r.deliver(mixerAddr, 25_000_000)
			r.out.Count("mixed:path:signed MsgEthereumTx through FinalizeBlock")
			if err != nil && !strings.HasPrefix(err.Error(), "vm: ") {
				r.out.Stats.Extra["mixed:block:first-non-vm-error"] = strings.Join(steps, " ") + " => " + err.Error()
				r.out.Count("mixed:path:FinalizeBlock:rejected-or-harness-error")
			}
		} else if odd {
			// the outermost layer a MsgEthereumTx reaches in this snapshot (see probeDelivery): a SIGNED transaction handed to
			// the EVM message server (EthereumTx -> ApplyTransaction: transaction-level StateDB with the tx hash / index,
			// the gas limit of the transaction, post-tx hooks, gas refund, logs) on a transaction-like branch
			r.out.Count("mixed:path:signed MsgEthereumTx through the EVM message server (ApplyTransaction)")
			err = r.atomic(func(c sdk.Context) error {
				tx, err := evmx.SignedTx(c, r.w.S.App, r.users[0], mixerAddr, nil, nil, 25_000_000, []common.Address{crosschaintypes.GetAddress(), token})
				if err != nil {
					return fmt.Errorf("harness: %w", err)
				}
				res, err := evmx.Send(c, r.w.S.App, tx)
				if err != nil {
					return err
				}
				if res.Failed() {
					return fmt.Errorf("vm: %s", res.VmError)
				}
				return nil
			})
		} else {
			r.out.Count("mixed:path:EvmKeeper.CallEVM on a cache context")
			err = r.atomic(func(c sdk.Context) error {
				res, err := r.w.S.App.EvmKeeper.CallEVM(c, r.users[0].Address(), &mixerAddr, big.NewInt(0), 40_000_000, nil, true)
				if err != nil {
					return err
				}
				if res.Failed() {
					return fmt.Errorf("vm: %s", res.VmError)
				}
				return nil
			})
		}
		post := r.mixStateK(token, kind, g)
		res := "ok"
		if err != nil {
			res = "err"
			if _, seen := r.out.Stats.Extra["mixed:first-error"]; !seen {
				r.out.Stats.Extra["mixed:first-error"] = strings.Join(steps, " ") + " => " + err.Error()
			}
		}
		line := fmt.Sprintf("mixx "+fmt.Sprint(kind)+" %s %s %s %s %s %s %s %s %s", pre.m, pre.s, pre.e, pre.ts, pre.al, pre.esc, pre.u, pre.ua, strings.Join(steps, " "))
		r.out.Emit(line, res+" "+post.String())
		// classes of the program.  The keeper-level conversion that matters is the first one that runs while the running
		// StateDB already holds the mixer's balance slot (dirtied by a transfer of the caller or by crossChain's own
		// transferFrom, or cached by a read — a read or write inside a frame that is later reverted caches it as well),
		// else the first one.
		var flat []string
		var frameOf []int // frame number of each flat step, -1 = top level
		hasFrame, inFrame, nestedInFrame, nFrames := false, false, false, 0
		for _, s := range steps {
			if s == "[" {
				hasFrame, inFrame = true, true
				nFrames++
				continue
			}
			if s == "]" {
				inFrame = false
				continue
			}
			if inFrame && (s[0] == 'b' || s[0] == 'e') {
				nestedInFrame = true
			}
			flat = append(flat, s)
			if inFrame {
				frameOf = append(frameOf, nFrames)
			} else {
				frameOf = append(frameOf, -1)
			}
		}
		touches := func(q string) bool { return q[0] == 't' || q[0] == 'x' || q == "rm" }
		firstB, dirtyBefore, readBefore, writeAfter, hasX, hasC, hasE, hasF := -1, false, false, false, false, false, false, false
		for k, s := range flat {
			if s[0] == 'b' || s[0] == 'c' || s[0] == 'e' {
				touched := false
				for _, q := range flat[:k] {
					if touches(q) {
						touched = true
					}
				}
				if firstB < 0 || (touched && !func() bool { // keep the earliest touched one
					for _, q := range flat[:firstB] {
						if touches(q) {
							return true
						}
					}
					return false
				}()) {
					firstB = k
				}
			}
			hasC = hasC || s[0] == 'c'
			hasX = hasX || s[0] == 'x'
			hasE = hasE || s[0] == 'e'
			hasF = hasF || s[0] == 'f'
		}
		// no keeper-level call ran after a touch: then the one that matters is a keeper-level call INSIDE a frame that is
		// followed, in the same frame, by a step touching the balance slot (if the frame then fails, the slot stays cached
		// with the value the reverted call left)
		if firstB >= 0 {
			touchedBefore := false
			for _, q := range flat[:firstB] {
				touchedBefore = touchedBefore || touches(q)
			}
			if !touchedBefore {
				for k, s := range flat {
					if (s[0] == 'b' || s[0] == 'e') && frameOf[k] >= 0 {
						later := false
						for j := k + 1; j < len(flat) && frameOf[j] == frameOf[k]; j++ {
							later = later || touches(flat[j])
						}
						if later {
							firstB = k
							break
						}
					}
				}
			}
		}
		for k, s := range flat {
			if firstB >= 0 && k < firstB && s[0] == 't' {
				dirtyBefore = true
			}
			if firstB >= 0 && k < firstB && (s == "rm" || s[0] == 't') {
				readBefore = true
			}
			if firstB >= 0 && k > firstB && s[0] == 't' {
				writeAfter = true
			}
		}
		cls := fmt.Sprintf("bridgeCall/cancel/executeClaim=%v cancel=%v executeClaim=%v crossChain=%v transferFrom=%v frame=%v keeper-call-in-frame=%v dirtyBefore=%v readBefore+writeAfter=%v",
			firstB >= 0, hasC, hasE, hasX, hasF, hasFrame, nestedInFrame, dirtyBefore, readBefore && writeAfter)
		if kind == 1 {
			cls = "token=externally-owned " + cls
		}
		r.out.Count("mixed:" + res + ":" + cls)
		r.out.Nontrivial("mix|" + res + "|" + cls)
		// invariants of the token after the transaction: a change of (Σ balances − totalSupply) or (escrow − totalSupply)
		postSum, postEsc := r.mixBooksK(token, kind, g)
		r.rawSlots(token, []common.Address{mixerAddr, sinkAddr, holder.Address(), bx.Erc20ModuleAddr()},
			[][2]common.Address{{mixerAddr, crosschaintypes.GetAddress()}, {holder.Address(), mixerAddr}}, "after a mixed transaction")
		if preSum.Cmp(postSum) != 0 || preEsc.Cmp(postEsc) != 0 {
			pc := "crossChain"
			if firstB >= 0 {
				pc = map[byte]string{'b': "bridgeCall", 'c': "cancelSendToExternal", 'e': "executeClaim"}[flat[firstB][0]]
			}
			r.out.Violate(fmt.Sprintf("mixed transaction (mixed): precompile=%s, token dirtied by caller before call=%v, balance slot cached by a caller read before the call and written after it=%v, crossChain in the same transaction=%v, sub-call frame with swallowed failure=%v, token=%s: steps [%s] from %s: Σ balances − totalSupply %s -> %s, %s %s -> %s",
				pc, dirtyBefore, readBefore && writeAfter, hasX && firstB >= 0, hasFrame, []string{"module-owned", "externally-owned"}[kind], strings.Join(steps, " "), pre, preSum, postSum,
				[]string{"escrow − totalSupply", "ERC-20 escrowed by the module − coin supply over all denominations"}[kind], preEsc, postEsc))
		}
	}
}

// mixBooks: Σ balances − totalSupply and escrowed coins − totalSupply of the module-owned token
func (r *run) mixBooksK(token common.Address, kind, g int) (*big.Int, *big.Int) {
	if kind == 0 {
		return r.mixBooks(token, g)
	}
	ts := r.totalSupply(token)
	sum := new(big.Int)
	for _, h := range []common.Address{mixerAddr, sinkAddr, bx.Erc20ModuleAddr(), r.owner.Address(), r.users[0].Address(), r.users[1].Address(), r.users[2].Address()} {
		sum.Add(sum, r.balOf(token, h))
	}
	coins := new(big.Int).Add(r.coinSupply(g), r.coinSupply(100+10*g))
	return sum.Sub(sum, ts), new(big.Int).Sub(r.balOf(token, bx.Erc20ModuleAddr()), coins)
}

func (r *run) mixBooks(token common.Address, g int) (*big.Int, *big.Int) {
	ts := r.totalSupply(token)
	sum := new(big.Int)
	for _, h := range []common.Address{mixerAddr, sinkAddr, bx.Erc20ModuleAddr(), r.owner.Address(), r.users[0].Address(), r.users[1].Address(), r.users[2].Address()} {
		sum.Add(sum, r.balOf(token, h))
	}
	escrow := r.w.S.App.BankKeeper.GetBalance(r.ctx(), bx.ModuleAddr(erc20types.ModuleName), baseName(g)).Amount.BigInt()
	return sum.Sub(sum, ts), escrow.Sub(escrow, ts)
}
