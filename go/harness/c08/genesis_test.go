package c08

// Round 4:
//   * `genesis`: ExportGenesis of the erc20 module, the erc20 store wiped, InitGenesis of the exported state (what an
//     export / import of the chain does to this module; the bank metadata is the bank module's and stays) — the raw store
//     dump after it is compared with Model/C08Gen.lean `genesisRoundTrip`, I_index is evaluated on the real state, and a
//     dedicated monitor compares the dump before and after;
//   * raw storage slots of the FIP20 tokens: the slot numbers of `_totalSupply` / `_balanceOf` / `_allowance` derived from
//     the state-variable order regenerated from FIP20Upgradable.sol (facts "C08.fip20.layout") are read straight from the
//     EVM state and compared with totalSupply() / balanceOf() / allowance().

import (
	"encoding/json"
	"math/big"
	"os"

	storetypes "cosmossdk.io/store/types"
	sdk "github.com/cosmos/cosmos-sdk/types"
	"github.com/ethereum/go-ethereum/common"
	"github.com/ethereum/go-ethereum/crypto"

	"github.com/functionx/fx-core/v8/contract"
	erc20types "github.com/functionx/fx-core/v8/x/erc20/types"
)

func genesisAliasesOn() bool { return os.Getenv("VERIF_C08_GENESIS_ALIASES") == "1" }

// anyAliases: some registered denomination has aliases in its bank metadata
func (r *run) anyAliases() bool {
	st := r.regState()
	for _, d := range st.regd {
		if len(st.aliases[d]) > 0 {
			return true
		}
	}
	return false
}

// genesisOK: until the loss of the alias index is listed (or repaired), the round trip runs only on states without aliases
func (r *run) genesisOK() bool { return genesisAliasesOn() || !r.anyAliases() }

func (r *run) genesis() {
	cls := "without-aliases"
	if r.anyAliases() {
		cls = "with-aliases"
	}
	r.out.Count("genesis:" + cls)
	r.op("genesis", func() error {
		return r.atomic(func(ctx sdk.Context) error {
			k := r.w.S.App.Erc20Keeper
			gs := k.ExportGenesis(ctx)
			store := ctx.KVStore(r.w.S.App.GetKey(erc20types.StoreKey))
			var keys [][]byte
			it := storetypes.KVStorePrefixIterator(store, nil)
			for ; it.Valid(); it.Next() {
				keys = append(keys, append([]byte{}, it.Key()...))
			}
			it.Close()
			for _, key := range keys {
				store.Delete(key)
			}
			k.InitGenesis(ctx, *gs)
			return nil
		})
	}, opts{check: func(res string, pre, post map[string]*big.Int, preIdx, postIdx string) {
		if !ledgerEq(pre, post) {
			r.out.Violate("frame: genesis export/import changed a balance or a supply")
		}
		if res != "ok" {
			r.out.Violate("genesis round trip: ExportGenesis + InitGenesis into an empty erc20 store failed: " + res)
		} else if preIdx != postIdx {
			r.tainted = true
			r.out.Violate("genesis round trip: the erc20 store differs after ExportGenesis + InitGenesis into an empty store (pairs / denom index / contract index / alias index): before [" + preIdx + "] after [" + postIdx + "]")
		}
	}})
}

// ---- raw storage slots -------------------------------------------------------------------------------------

// OpenZeppelin's upgradeable base contracts (Initializable, ContextUpgradeable, ERC1967UpgradeUpgradeable, UUPSUpgradeable,
// OwnableUpgradeable with their __gap arrays) occupy slots 0..200; FIP20Upgradable's own variables start at 201.  Not in
// the repository (node_modules): an assumption, checked here against the deployed token on every run.
const fip20BaseSlot = 201

var fip20Layout = func() map[string]int {
	m := map[string]int{}
	if p := os.Getenv("VERIF_FACTS"); p != "" {
		if bz, err := os.ReadFile(p); err == nil {
			var all map[string]json.RawMessage
			if json.Unmarshal(bz, &all) == nil {
				_ = json.Unmarshal(all["C08.fip20.layout"], &m)
			}
		}
	}
	return m
}()

func slotKey(slot int64, keys ...common.Address) common.Hash {
	h := common.BigToHash(big.NewInt(slot))
	for _, k := range keys {
		h = crypto.Keccak256Hash(common.LeftPadBytes(k.Bytes(), 32), h.Bytes())
	}
	return h
}

// rawSlots compares the raw storage of a module-deployed FIP20 token with what its view methods answer
func (r *run) rawSlots(token common.Address, holders []common.Address, allow [][2]common.Address, where string) {
	ts, okT := fip20Layout["_totalSupply"]
	bl, okB := fip20Layout["_balanceOf"]
	al, okA := fip20Layout["_allowance"]
	if !okT || !okB || !okA {
		r.out.Count("rawslots:no-layout-facts")
		return
	}
	ek := r.w.S.App.EvmKeeper
	get := func(h common.Hash) *big.Int { return new(big.Int).SetBytes(ek.GetState(r.ctx(), token, h).Bytes()) }
	if v := get(slotKey(int64(fip20BaseSlot + ts))); v.Cmp(r.totalSupply(token)) != 0 {
		r.out.Violate("storage layout: raw slot of _totalSupply (regenerated from FIP20Upgradable.sol) holds " + v.String() + " but totalSupply() = " + r.totalSupply(token).String() + " " + where)
	}
	r.out.Count("rawslots:totalSupply")
	for _, h := range holders {
		if v := get(slotKey(int64(fip20BaseSlot+bl), h)); v.Cmp(r.balOf(token, h)) != 0 {
			r.out.Violate("storage layout: raw slot of _balanceOf[holder] (regenerated from FIP20Upgradable.sol) holds " + v.String() + " but balanceOf() = " + r.balOf(token, h).String() + " " + where)
		}
		r.out.Count("rawslots:balanceOf")
	}
	for _, p := range allow {
		// _allowance[owner][spender]: keccak(spender . keccak(owner . slot))
		v := get(slotKey(int64(fip20BaseSlot+al), p[0], p[1]))
		var res struct{ Value *big.Int }
		if err := ek.QueryContract(r.ctx(), r.owner.Address(), token, contract.GetFIP20().ABI, "allowance", &res, p[0], p[1]); err == nil {
			if v.Cmp(res.Value) != 0 {
				r.out.Violate("storage layout: raw slot of _allowance[owner][spender] (regenerated from FIP20Upgradable.sol) holds " + v.String() + " but allowance() = " + res.Value.String() + " " + where)
			}
			r.out.Count("rawslots:allowance")
		}
	}
}
