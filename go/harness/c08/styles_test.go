package c08

// Externally-owned test tokens of every signalling style EIP-20 allows or the wild contains (hand-assembled, no solc):
// success signalled by returning `true` or by returning nothing; failure (insufficient balance, zero address) signalled by
// reverting, by returning `false`, or by returning nothing.  The erc20 module reaches them only through the evm keeper's
// wrappers (ERC20Transfer): what the wrappers make of the signal is regenerated into Gen/C08c.lean and evaluated by the
// model (Model/C08U.lean stepUA).

import (
	"fmt"
	"math/big"

	"github.com/ethereum/go-ethereum/common"
	"github.com/ethereum/go-ethereum/crypto"
)

type style struct{ ok, fail int } // ok: 0 true, 1 nothing; fail: 0 revert, 1 false, 2 nothing

var allStyles = []style{{0, 1}, {1, 0}, {0, 2}, {0, 0}, {1, 1}, {1, 2}}

func (s style) String() string {
	return []string{"ok=true", "ok=nothing"}[s.ok] + "/" + []string{"fail=revert", "fail=false", "fail=nothing"}[s.fail]
}

// styledTokenCode: name / symbol / decimals / totalSupply / balanceOf / mint(to, amt) (anyone) / transfer(to, amt)
func styledTokenCode(name, symbol string, st style) []byte {
	a := &asm{labels: map[string]int{}, fixups: map[int]string{}}
	sel := func(sig string) []byte { return crypto.Keccak256([]byte(sig))[:4] }
	a.push1(0).op(0x35).push1(0xe0).op(0x1c) // selector
	for _, f := range [][2]string{{"name()", "name"}, {"symbol()", "symbol"}, {"decimals()", "decimals"}, {"totalSupply()", "supply"},
		{"balanceOf(address)", "balanceOf"}, {"mint(address,uint256)", "mint"}, {"transfer(address,uint256)", "transfer"}} {
		a.op(0x80).op(0x63).op(sel(f[0])...).op(0x14).jumpTo(f[1], true)
	}
	a.label("revert").push1(0).push1(0).op(0xfd)
	a.label("name").retString(name)
	a.label("symbol").retString(symbol)
	a.label("decimals").push1(18).retWord()
	a.label("supply").push1(0).op(0x54).retWord()
	a.label("balanceOf").push1(4).op(0x35).key().op(0x54).retWord()
	a.label("mint").push1(0x24).op(0x35)
	a.op(0x80).push1(0).op(0x54).op(0x01).push1(0).op(0x55)
	a.push1(4).op(0x35).key()
	a.op(0x80).op(0x54).op(0x82).op(0x01)
	a.op(0x90).op(0x55).op(0x50).op(0x00)
	// transfer
	a.label("transfer").push1(4).op(0x35).op(0x15).jumpTo("tfail", true) // to == 0
	a.push1(0x24).op(0x35)                                                // amt
	a.op(0x33).key().op(0x54)                                             // amt b
	a.op(0x81).op(0x81).op(0x10).jumpTo("tfail", true)                    // b < amt
	a.op(0x81).op(0x90).op(0x03)                                          // amt (b-amt)
	a.op(0x33).key().op(0x55)                                             // amt
	a.push1(4).op(0x35).key()                                             // amt tokey
	a.op(0x80).op(0x54).op(0x82).op(0x01)                                 // amt tokey tobal+amt
	a.op(0x90).op(0x55).op(0x50)                                          // SWAP1 SSTORE POP
	if st.ok == 0 {
		a.push1(1).retWord()
	} else {
		a.op(0x00)
	}
	a.label("tfail")
	switch st.fail {
	case 0:
		a.push1(0).push1(0).op(0xfd)
	case 1:
		a.push1(0).retWord()
	default:
		a.op(0x00)
	}
	return a.build()
}

// deploys: a raw externally-owned token of the given style for denomination d (environment)
func (r *run) deploys(d int, st style) int {
	ct := r.nextCt
	r.out.Count("deploys:" + st.String())
	r.op(fmt.Sprintf("deploys %d %d %d", ct, st.ok, st.fail), func() error {
		addr := common.BigToAddress(big.NewInt(int64(0xc08100 + ct)))
		if err := r.w.S.App.EvmKeeper.CreateContractWithCode(r.ctx(), addr, styledTokenCode("Token "+symbol(d), symbol(d), st)); err != nil {
			panic(err)
		}
		r.contract[ct] = addr
		r.ctOf[addr.Hex()] = ct
		r.extOf[d] = ct
		r.styleOf[ct] = st
		r.nextCt++
		return nil
	}, opts{env: true})
	return ct
}

// styleScenario: for one style, conversions at balance − 1, balance + 1, balance, and back at the escrow boundary
func (r *run) styleScenario(d int, st style) {
	ct := r.deploys(d, st)
	r.regerc(d, nil)
	r.funde(ct, 1, 10)
	r.cerc(ct, 1, 1, 9)  // balance − 1
	r.cerc(ct, 1, 2, 2)  // balance + 1 (of what is left)
	r.cerc(ct, 1, 1, 1)  // = balance
	r.cerc(ct, 2, 2, 3)  // a sender that owns nothing
	r.ccoin(d, 1, 1, 4)  // back: the module releases escrowed tokens
	r.fundc(d, 0, 20)    // coins of the denomination that no escrow stands behind (environment)
	esc := int(r.balOf(r.contract[ct], common.BytesToAddress(r.party(pErc20Mod))).Int64())
	r.ccoin(d, 0, 0, esc+1) // escrow + 1: the module's own transfer fails in the token's style
	if esc > 0 {
		r.ccoin(d, 0, 0, esc) // = escrow
	}
	r.xfer(ct, 2, 1, 1) // a direct transfer by a holder of nothing: fails in the token's style
}
