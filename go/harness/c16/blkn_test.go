package c16

// Round 5: whole blocks of MULTI-MESSAGE, MULTI-SIGNER transactions through the real FinalizeBlock + Commit: privileged
// messages with their own authority strings, x/authz MsgExec wrapping a privileged message, bank sends in front of /
// behind / between them (succeeding and failing), signed by one or two keys in the right or the wrong order, with a
// signature missing.  `blkn` lines, compared with `txRunN` / `blockRunN` of Model/C16Blk.lean (which IS the regenerated
// runTx statement list on these inputs: theorem tx_run_n_is_regenerated_pipeline); theorems multi_tx_needs_governance_key,
// block_n_effect_is_marked_txs, block_full_foreign_is_empty_block.

import (
	"fmt"
	"math/rand"
	"regexp"
	"strconv"
	"strings"

	sdkmath "cosmossdk.io/math"
	abci "github.com/cometbft/cometbft/abci/types"
	clienttx "github.com/cosmos/cosmos-sdk/client/tx"
	sdk "github.com/cosmos/cosmos-sdk/types"
	"github.com/cosmos/cosmos-sdk/types/tx/signing"
	authsigning "github.com/cosmos/cosmos-sdk/x/auth/signing"
	"github.com/cosmos/cosmos-sdk/x/authz"
	banktypes "github.com/cosmos/cosmos-sdk/x/bank/types"

	"github.com/functionx/fx-core/v8/testutil/helpers"
	fxtypes "github.com/functionx/fx-core/v8/types"

	"fxverif/harness/hx"
)

// signedBy builds a transaction with the given messages carrying one SIGN_MODE_DIRECT signature per entry of `bys`, in
// that order (the fee is paid by the first signer of the messages).
func (w *txWorld) signedBy(bys []*helpers.Signer, msgs ...sdk.Msg) (sdk.Tx, error) {
	ctx := w.s.Ctx
	txb := w.txc.NewTxBuilder()
	if err := txb.SetMsgs(msgs...); err != nil {
		return nil, err
	}
	txb.SetGasLimit(3_000_000)
	txb.SetFeeAmount(sdk.NewCoins(sdk.NewCoin(fxtypes.DefaultDenom, sdkmath.NewInt(4e12).MulRaw(3_000_000))))
	mode := signing.SignMode_SIGN_MODE_DIRECT
	sigs := make([]signing.SignatureV2, len(bys))
	nums, seqs := make([]uint64, len(bys)), make([]uint64, len(bys))
	for i, by := range bys {
		if acc := w.s.App.AccountKeeper.GetAccount(ctx, by.AccAddress()); acc != nil {
			nums[i], seqs[i] = acc.GetAccountNumber(), acc.GetSequence()
		}
		sigs[i] = signing.SignatureV2{PubKey: by.PrivKey().PubKey(), Data: &signing.SingleSignatureData{SignMode: mode}, Sequence: seqs[i]}
	}
	if err := txb.SetSignatures(sigs...); err != nil {
		return nil, err
	}
	for i, by := range bys {
		sd := authsigning.SignerData{Address: by.AccAddress().String(), ChainID: ctx.ChainID(), AccountNumber: nums[i], Sequence: seqs[i], PubKey: by.PrivKey().PubKey()}
		sig, err := clienttx.SignWithPrivKey(ctx, mode, sd, txb, by.PrivKey(), w.txc, seqs[i])
		if err != nil {
			return nil, err
		}
		sigs[i] = sig
	}
	if err := txb.SetSignatures(sigs...); err != nil {
		return nil, err
	}
	return txb.GetTx(), nil
}

var msgIndexRe = regexp.MustCompile(`message index: (\d+)`)

type blknTx struct {
	shape  int
	keys   []*helpers.Signer
	seq0   []uint64
	rcpts  []sdk.AccAddress // recipients of the sibling sends that would succeed on their own
	vbBad  bool             // a DIRECT message fails its ValidateBasic (runTx validates only those)
	kinds  []string
	nMsgs  int
	hasGov bool
}

func (w *txWorld) blockStreamN(rng *rand.Rand, cases []txCase, junk []cand, other string) {
	out, app := w.out, w.s.App
	if len(w.emptyBlockChanges) == 0 {
		before := hx.DumpAll(w.s.Ctx, w.keys)
		var ferr error
		if res := hx.Try(func() error { _, ferr = w.finalize(nil); return nil }); res != "ok" || ferr != nil {
			out.Violate("an empty block could not be finalized: " + fmt.Sprint(res, ferr))
			return
		}
		for _, st := range hx.DiffDump(before, hx.DumpAll(w.s.Ctx, w.keys)) {
			w.emptyBlockChanges[st] = true
		}
	}
	signers := append([]*helpers.Signer{w.alice, w.bob}, w.more...)
	for len(signers) < 6 {
		sg := w.s.AddTestSigner(10_000)
		w.more = append(w.more, sg)
		signers = append(signers, sg)
	}
	w.topUp(signers)
	rng.Shuffle(len(signers), func(i, j int) { signers[i], signers[j] = signers[j], signers[i] })
	nTx := 2 + rng.Intn(2)
	var txs []blknTx
	var raw [][]byte
	var words []string
	for i := 0; i < nTx; i++ {
		A, B := signers[2*i], signers[2*i+1]
		t := blknTx{shape: rng.Intn(11)}
		var msgs []sdk.Msg
		var ws []string
		// a privileged message whose authority is drawn relative to the account `x` that would have to sign it
		priv := func(x *helpers.Signer, forceSigner bool) sdk.Msg {
			tc := cases[rng.Intn(len(cases))]
			m := cloneMsg(tc.m)
			if m == nil {
				return nil
			}
			me := x.AccAddress().String()
			cs := []cand{{"signer", me}, {"signer", me}, {"signer", me}, {"signer-upper", strings.ToUpper(me)}, {"gov", w.gov}, {"GOV-upper", strings.ToUpper(w.gov)},
				{"other-account", helpers.GenAccAddress().String()}, {"other-account-upper", strings.ToUpper(helpers.GenAccAddress().String())}, {"module", other}, junk[rng.Intn(len(junk))]}
			c := cs[rng.Intn(len(cs))]
			if forceSigner {
				c = cs[3*rng.Intn(2)]
			}
			setAuthority(m, c.val)
			t.kinds = append(t.kinds, c.kind)
			if a, err := sdk.AccAddressFromBech32(c.val); err == nil && a.String() == w.gov {
				t.hasGov = true
			}
			pk := 0
			if tc.payloadOk {
				pk = 1
			}
			ws = append(ws, fmt.Sprintf("%s %s %d %s %d %s", msgKey(m), dash(hx.HexS(c.val)), pk, tc.chain, tc.govOk, tc.lists))
			return m
		}
		addPriv := func(x *helpers.Signer, forceSigner bool) bool {
			m := priv(x, forceSigner)
			if m == nil {
				return false
			}
			if v, ok := m.(sdk.HasValidateBasic); ok && v.ValidateBasic() != nil {
				t.vbBad = true
			}
			msgs = append(msgs, m)
			ws[len(ws)-1] = "p " + ws[len(ws)-1]
			return true
		}
		addExec := func(x *helpers.Signer) bool {
			m := priv(x, false)
			if m == nil {
				return false
			}
			ex := authz.NewMsgExec(x.AccAddress(), []sdk.Msg{m})
			msgs = append(msgs, &ex)
			ws[len(ws)-1] = "x " + hx.Hex(x.AccAddress()) + " " + ws[len(ws)-1]
			return true
		}
		addSend := func(x *helpers.Signer, ok bool) {
			rcpt := helpers.GenAccAddress()
			amt := sdkmath.NewInt(7)
			res := "ok"
			if !ok {
				amt, res = sdkmath.NewInt(1e18).MulRaw(1e12), "err"
			} else {
				t.rcpts = append(t.rcpts, rcpt)
			}
			msgs = append(msgs, banktypes.NewMsgSend(x.AccAddress(), rcpt, sdk.NewCoins(sdk.NewCoin(fxtypes.DefaultDenom, amt))))
			ws = append(ws, "s "+hx.Hex(x.AccAddress())+" "+res)
		}
		good := true
		t.keys = []*helpers.Signer{A}
		switch t.shape {
		case 0:
			good = addPriv(A, false)
		case 1:
			addSend(A, true)
			good = addPriv(A, false)
		case 2: // the sibling BEHIND the privileged message
			good = addPriv(A, true)
			addSend(A, true)
		case 3: // two privileged messages, two signers
			good = addPriv(A, true) && addPriv(B, false)
			t.keys = []*helpers.Signer{A, B}
		case 4: // a privileged message of a second signer between two sends of the first
			addSend(A, true)
			good = addPriv(B, false)
			addSend(A, true)
			t.keys = []*helpers.Signer{A, B}
		case 5: // x/authz inside a block
			good = addExec(A)
		case 6:
			addSend(A, true)
			good = addExec(A)
			addSend(A, true)
		case 7: // a failing sibling in front
			addSend(A, false)
			good = addPriv(A, true)
		case 8: // the right keys in the wrong order
			good = addPriv(A, true) && addPriv(B, true)
			t.keys = []*helpers.Signer{B, A}
		case 9: // a signature missing
			good = addPriv(A, true) && addPriv(B, true)
		case 10: // a MsgExec and a direct privileged message of another signer
			good = addExec(A) && addPriv(B, false)
			t.keys = []*helpers.Signer{A, B}
		}
		if !good || len(msgs) == 0 {
			continue
		}
		tx, err := w.signedBy(t.keys, msgs...)
		if err != nil {
			out.Count("blkn:cannot-build")
			continue // an authority no signer can be computed for: the transaction cannot even be built
		}
		bz, err := w.txc.TxEncoder()(tx)
		if err != nil {
			out.Count("blkn:cannot-encode")
			continue
		}
		var ks []string
		for _, k := range t.keys {
			ks = append(ks, hx.Hex(k.AccAddress()))
			t.seq0 = append(t.seq0, w.seq(k.AccAddress()))
		}
		t.nMsgs = len(msgs)
		txs = append(txs, t)
		raw = append(raw, bz)
		words = append(words, "T "+strings.Join(ks, ",")+" "+strings.Join(ws, " "))
	}
	if len(txs) == 0 {
		return
	}
	before := hx.DumpAll(w.s.Ctx, w.keys)
	var res *abci.ResponseFinalizeBlock
	var ferr error
	if r := hx.Try(func() error { res, ferr = w.finalize(raw); return nil }); r != "ok" || ferr != nil || res == nil || len(res.TxResults) != len(txs) {
		out.Violate("a block of multi-message transactions carrying privileged messages could not be finalized: " + fmt.Sprint(r, ferr))
		return
	}
	changed := hx.DiffDump(before, hx.DumpAll(w.s.Ctx, w.keys))
	var obs []string
	for i, t := range txs {
		r := res.TxResults[i]
		seq1 := w.seq(t.keys[0].AccAddress())
		ob := "ok"
		switch {
		case r.Code == 0:
		case seq1 == t.seq0[0] && t.vbBad:
			ob = "rejected:basic"
		case seq1 == t.seq0[0]:
			ob = "rejected:ante"
			w.anteCode("blkn", r, len(t.kinds) > 0 && strings.HasPrefix(t.kinds[0], "signer") && (t.shape <= 2 || t.shape == 7))
		default:
			ob = "failed"
			if m := msgIndexRe.FindStringSubmatch(r.Log); m != nil {
				if n, err := strconv.Atoi(m[1]); err == nil {
					ob = fmt.Sprintf("failed-at:%d", n)
				}
			}
		}
		obs = append(obs, ob)
		out.Count(fmt.Sprintf("blkn:shape-%d:%s", t.shape, strings.SplitN(ob, ":", 2)[0]))
		out.Count(fmt.Sprintf("blkn:msgs-per-tx:%d", t.nMsgs))
		out.Count(fmt.Sprintf("blkn:signers-per-tx:%d", len(t.keys)))
		for _, k := range t.kinds {
			out.Count("blkn:authority:" + k)
		}
		out.Nontrivial(fmt.Sprintf("blkn|%d|%s|%s", t.shape, strings.Join(t.kinds, ","), ob))
		// monitors: no key is the governance key (it has none), every transaction carries a privileged message
		if r.Code == 0 {
			out.Violate(fmt.Sprintf("a multi-message block transaction (shape %d, %d messages, %d ordinary signers) carrying privileged message(s) with authority kinds %v succeeded", t.shape, t.nMsgs, len(t.keys), t.kinds))
		}
		for j, k := range t.keys {
			if s1 := w.seq(k.AccAddress()); s1 > t.seq0[j]+1 || (ob == "rejected:ante" || ob == "rejected:basic") && s1 != t.seq0[j] {
				out.Violate(fmt.Sprintf("a signer's sequence number moved from %d to %d for one %s transaction in a block", t.seq0[j], s1, ob))
			}
		}
		if r.Code != 0 {
			for _, rc := range t.rcpts {
				if bal := app.BankKeeper.GetBalance(w.s.Ctx, rc, fxtypes.DefaultDenom); !bal.IsZero() {
					out.Violate(fmt.Sprintf("a multi-message transaction (shape %d) whose privileged message was refused (authority kinds %v) kept the effect of a sibling bank send (%s arrived)", t.shape, t.kinds, bal))
				}
			}
		}
	}
	out.Emit("blkn "+hx.HexS(w.gov)+" "+strings.Join(words, " "), strings.Join(obs, " "))
	out.Count(fmt.Sprintf("blkn:txs-per-block:%d", len(txs)))
	allowed := map[string]bool{"acc": true, "bank": true, "distribution": true, "feemarket": true}
	for _, st := range changed {
		if !w.emptyBlockChanges[st] && !allowed[st] {
			out.Violate(fmt.Sprintf("a block of multi-message transactions whose privileged messages were all refused changed stores beyond what an empty block, the fee payments, the sequence numbers and the gas accounting change: %v (empty block: %v)", changed, keysOf(w.emptyBlockChanges)))
			break
		}
	}
}
