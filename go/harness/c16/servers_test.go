package c16

// Handler level: the Msg servers REGISTERED by the running app, captured by running the app's own RegisterServices a
// second time against a recording configurator (so dependency modules are included and nothing is looked up by name),
// and called directly through the generated method handlers — the router's ValidateBasic, circuit breaker and branch are
// bypassed.  Used for
//   * the `hcall` correspondence lines (the Lean model runs `exec` on the regenerated statement lists of the concrete
//     type that is registered: no ValidateBasic stage in front);
//   * the handler-level monitor (defence in depth: a look-alike spelling the router would stop must also be refused by the
//     handler itself);
//   * the tie of `Gen.C16Sem.registrations` (which concrete type serves which Msg service) to the running app.

import (
	"context"
	"reflect"
	"sort"
	"strings"

	"github.com/cosmos/cosmos-sdk/types/module"
	gogogrpc "github.com/cosmos/gogoproto/grpc"
	"google.golang.org/grpc"

	sdk "github.com/cosmos/cosmos-sdk/types"
)

type capSvc struct {
	desc *grpc.ServiceDesc
	impl interface{}
}

type capServer struct{ svcs *[]capSvc }

func (c capServer) RegisterService(sd *grpc.ServiceDesc, ss interface{}) {
	*c.svcs = append(*c.svcs, capSvc{sd, ss})
}

type capCfg struct{ msg, qry capServer }

// modules that implement appmodule.HasServices register on the configurator itself; the SDK's configurator sorts the
// service into Msg / Query by its proto option, here every method whose request is an sdk.Msg counts (captureServers)
func (c capCfg) RegisterService(sd *grpc.ServiceDesc, ss interface{}) { c.msg.RegisterService(sd, ss) }
func (c capCfg) Error() error                                         { return nil }
func (c capCfg) MsgServer() gogogrpc.Server                           { return c.msg }
func (c capCfg) QueryServer() gogogrpc.Server                         { return c.qry }
func (c capCfg) RegisterMigration(string, uint64, module.MigrationHandler) error {
	return nil
}

// served: one method of a registered Msg service
type served struct {
	service  string // proto service name
	method   grpc.MethodDesc
	impl     interface{}
	implType string // "<pkg path relative to the module>.<Type>" of the registered value
	url      string // type URL of the request
}

func typeKey(x interface{}) string {
	t := reflect.TypeOf(x)
	for t != nil && t.Kind() == reflect.Ptr {
		t = t.Elem()
	}
	if t == nil {
		return "<nil>"
	}
	return strings.TrimPrefix(t.PkgPath(), modPath) + "." + t.Name()
}

func noopInterceptor(context.Context, interface{}, *grpc.UnaryServerInfo, grpc.UnaryHandler) (interface{}, error) {
	return nil, nil
}

// captureServers re-runs the app's service registration against a recorder: request type URL -> served method.
func captureServers(reg func(module.Configurator) error) (map[string]served, []capSvc, string) {
	var ms, qs []capSvc
	cfg := capCfg{capServer{&ms}, capServer{&qs}}
	var rerr error
	res := tryS(func() { rerr = reg(cfg) })
	if rerr != nil {
		res += " err:" + rerr.Error()
	}
	out := map[string]served{}
	for _, sv := range ms {
		for _, md := range sv.desc.Methods {
			var url string
			func() {
				defer func() { _ = recover() }()
				_, _ = md.Handler(nil, context.Background(), func(i interface{}) error {
					if m, ok := i.(sdk.Msg); ok {
						url = sdk.MsgTypeURL(m)
					}
					return nil
				}, noopInterceptor)
			}()
			if url != "" {
				out[url] = served{sv.desc.ServiceName, md, sv.impl, typeKey(sv.impl), url}
			}
		}
	}
	return out, ms, res
}

func tryS(f func()) (res string) {
	defer func() {
		if r := recover(); r != nil {
			res = "panic"
		}
	}()
	f()
	return ""
}

// direct calls the method of `impl` that serves m with m itself as the request: no ValidateBasic, no branch.
func direct(ctx sdk.Context, sv served, impl interface{}, m sdk.Msg) (err error) {
	goCtx := context.WithValue(context.Background(), sdk.SdkContextKey, ctx.WithEventManager(sdk.NewEventManager()))
	_, err = sv.method.Handler(impl, goCtx, func(i interface{}) error {
		reflect.ValueOf(i).Elem().Set(reflect.ValueOf(m).Elem())
		return nil
	}, nil)
	return err
}

func sortedKeys[V any](m map[string]V) []string {
	ks := make([]string, 0, len(m))
	for k := range m {
		ks = append(ks, k)
	}
	sort.Strings(ks)
	return ks
}
