package c16

// Who has to have signed: privileged messages inside SIGNED TRANSACTIONS through the real baseapp runTx (decoding with
// signer extraction, ValidateBasic, the fx-core ante handler with signature verification, the message on its branch),
// inside an x/authz MsgExec signed by the grantee, and inside governance proposals (MsgSubmitProposal's signer check, the
// votes, the real fx-core governance end-blocker).  Lines `tx` / `authz` / `gprop`, compared with Model/C16Tx.lean.

import (
	"errors"
	"fmt"
	"math/rand"
	"os"
	"sort"
	"strings"
	"time"

	errorsmod "cosmossdk.io/errors"
	sdkmath "cosmossdk.io/math"
	storetypes "cosmossdk.io/store/types"
	abci "github.com/cometbft/cometbft/abci/types"
	cmtproto "github.com/cometbft/cometbft/proto/tendermint/types"
	"github.com/cosmos/cosmos-sdk/client"
	clienttx "github.com/cosmos/cosmos-sdk/client/tx"
	cryptocodec "github.com/cosmos/cosmos-sdk/crypto/codec"
	sdk "github.com/cosmos/cosmos-sdk/types"
	sdkerrors "github.com/cosmos/cosmos-sdk/types/errors"
	"github.com/cosmos/cosmos-sdk/types/tx/signing"
	authsigning "github.com/cosmos/cosmos-sdk/x/auth/signing"
	"github.com/cosmos/cosmos-sdk/x/authz"
	banktypes "github.com/cosmos/cosmos-sdk/x/bank/types"
	govtypes "github.com/cosmos/cosmos-sdk/x/gov/types"
	govv1 "github.com/cosmos/cosmos-sdk/x/gov/types/v1"
	slashingtypes "github.com/cosmos/cosmos-sdk/x/slashing/types"

	"github.com/functionx/fx-core/v8/testutil/helpers"
	fxtypes "github.com/functionx/fx-core/v8/types"
	fxgov "github.com/functionx/fx-core/v8/x/gov"

	"fxverif/harness/hx"
)

type txWorld struct {
	s          *hx.Suite
	out        *hx.Out
	txc        client.TxConfig
	alice, bob *helpers.Signer
	more       []*helpers.Signer // further funded signers for whole blocks (one transaction per signer and block)
	gov        string
	keys       map[string]*storetypes.KVStoreKey
	// stores a block WITHOUT transactions changes (begin / end blockers): learnt from real empty blocks
	emptyBlockChanges map[string]bool
}

func newTxWorld(s *hx.Suite, out *hx.Out, gov string) *txWorld {
	w := &txWorld{s: s, out: out, txc: s.App.GetTxConfig(), gov: gov, keys: s.App.GetKVStoreKey()}
	w.alice, w.bob = s.AddTestSigner(100_000_000), s.AddTestSigner(1000)
	for i := 0; i < 3; i++ {
		w.more = append(w.more, s.AddTestSigner(10_000))
	}
	w.emptyBlockChanges = map[string]bool{}
	return w
}

func (w *txWorld) seq(a sdk.AccAddress) uint64 {
	acc := w.s.App.AccountKeeper.GetAccount(w.s.Ctx, a)
	if acc == nil {
		return 0
	}
	return acc.GetSequence()
}

// signed builds a transaction with the given messages, signed (SIGN_MODE_DIRECT) with the key of `by` only.
func (w *txWorld) signed(by *helpers.Signer, msgs ...sdk.Msg) (sdk.Tx, error) {
	ctx := w.s.Ctx
	txb := w.txc.NewTxBuilder()
	if err := txb.SetMsgs(msgs...); err != nil {
		return nil, err
	}
	txb.SetGasLimit(3_000_000)
	txb.SetFeeAmount(sdk.NewCoins(sdk.NewCoin(fxtypes.DefaultDenom, sdkmath.NewInt(4e12).MulRaw(3_000_000))))
	acc := w.s.App.AccountKeeper.GetAccount(ctx, by.AccAddress())
	var num, seq uint64
	if acc != nil {
		num, seq = acc.GetAccountNumber(), acc.GetSequence()
	}
	mode := signing.SignMode_SIGN_MODE_DIRECT
	sig := signing.SignatureV2{PubKey: by.PrivKey().PubKey(), Data: &signing.SingleSignatureData{SignMode: mode}, Sequence: seq}
	if err := txb.SetSignatures(sig); err != nil {
		return nil, err
	}
	sd := authsigning.SignerData{Address: by.AccAddress().String(), ChainID: ctx.ChainID(), AccountNumber: num, Sequence: seq, PubKey: by.PrivKey().PubKey()}
	sig, err := clienttx.SignWithPrivKey(ctx, mode, sd, txb, by.PrivKey(), w.txc, seq)
	if err != nil {
		return nil, err
	}
	if err := txb.SetSignatures(sig); err != nil {
		return nil, err
	}
	return txb.GetTx(), nil
}

// deliver runs the transaction through baseapp.runTx in finalize mode (what FinalizeBlock does per transaction).
func (w *txWorld) deliver(tx sdk.Tx) (err error, panicked string) {
	res := hx.Try(func() error { _, _, err = w.s.App.SimDeliver(w.txc.TxEncoder(), tx); return nil })
	if res != "ok" {
		panicked = res
		w.out.Count("deliver-panic:" + res)
	}
	return
}

type txCase struct {
	m         sdk.Msg
	payloadOk bool
	govOk     int
	chain     string
	lists     string
}

func (w *txWorld) cands(rng *rand.Rand, junk []cand, other string) []cand {
	a, b := w.alice.AccAddress().String(), w.bob.AccAddress().String()
	cs := []cand{
		{"signer", a}, {"signer-upper", strings.ToUpper(a)}, {"gov", w.gov}, {"GOV-upper", strings.ToUpper(w.gov)},
		{"other-account", b}, {"module", other}, {"unknown-account", helpers.GenAccAddress().String()},
	}
	cs = append(cs, junk[rng.Intn(len(junk))], junk[1])
	return cs
}

// txStream: each case inside a transaction signed by alice, and inside a MsgExec signed by alice.
func (w *txWorld) txStream(rng *rand.Rand, cases []txCase, junk []cand, other string) {
	out, app := w.out, w.s.App
	alice := w.alice.AccAddress()
	for _, tc := range cases {
		m := tc.m
		for _, kind := range []string{"tx", "authz"} {
			for _, c := range w.cands(rng, junk, other) {
				setAuthority(m, c.val)
				var inner sdk.Msg = m
				if kind == "authz" {
					ex := authz.NewMsgExec(alice, []sdk.Msg{m})
					inner = &ex
				}
				before := hx.DumpAll(w.s.Ctx, w.keys)
				seq0 := w.seq(alice)
				tx, berr := w.signed(w.alice, inner)
				var err error
				var panicked string
				if berr == nil {
					err, panicked = w.deliver(tx)
				}
				seq1 := w.seq(alice)
				changed := hx.DiffDump(before, hx.DumpAll(w.s.Ctx, w.keys))
				obs := "past-guard"
				vbBad := false
				if v, ok := m.(sdk.HasValidateBasic); ok && v.ValidateBasic() != nil {
					vbBad = true
				}
				switch {
				case berr != nil:
					obs = "cannot-build:" + strings.ReplaceAll(berr.Error(), " ", "_")
				case panicked != "":
					obs = "panic"
				case err == nil:
				case errors.Is(err, sdkerrors.ErrTxDecode):
					obs = "rejected:tx-decode"
				case seq1 == seq0 && vbBad:
					obs = "rejected:basic" // runTx validates every message of the transaction before the ante handler
				case seq1 == seq0:
					obs = "rejected:ante"
				case kind == "authz" && vbBad:
					obs = "rejected:basic" // x/authz validates the inner messages in its Exec handler
				case kind == "authz" && strings.Count(err.Error(), "failed to execute message") < 2:
					obs = "rejected:authz" // never handed to the router (the authz keeper wraps handler errors a second time)
				case errors.Is(err, govtypes.ErrInvalidSigner):
					obs = "rejected:signer"
				}
				pk := 0
				if tc.payloadOk {
					pk = 1
				}
				out.Emit(fmt.Sprintf("%s %s %s %s %s %d %s %d %s", kind, msgKey(m), hx.HexS(w.gov), dash(hx.HexS(c.val)), hx.Hex(alice), pk, tc.chain, tc.govOk, tc.lists), obs)
				out.Count(kind + ":" + c.kind + ":" + obs)
				if os.Getenv("C16_DEBUG") != "" && err != nil {
					e := err.Error()
					if len(e) > 160 {
						e = e[:160]
					}
					out.Count(fmt.Sprintf("DBG %s %s %s seq%d->%d :: %s", kind, c.kind, obs, seq0, seq1, e))
				}
				out.Nontrivial(kind + "|" + msgKey(m) + "|" + c.kind + "|" + obs)
				// property monitors: a transaction signed by an ordinary account never makes a privileged message take effect;
				// when it fails before the messages nothing at all changes; when it fails in the messages only the fee payment
				// and the signer's sequence number remain
				if err == nil && berr == nil && panicked == "" {
					out.Violate(fmt.Sprintf("privileged message %s took effect inside a %s transaction signed by an ordinary account, authority kind=%s (%q)", msgKey(m), kind, c.kind, c.val))
				} else if seq1 == seq0 && len(changed) > 0 {
					out.Violate(fmt.Sprintf("a %s transaction with privileged message %s (authority kind=%s) was rejected before its messages ran but changed stores %v", kind, msgKey(m), c.kind, changed))
				} else {
					for _, st := range changed {
						if st != "acc" && st != "bank" {
							out.Violate(fmt.Sprintf("a failed %s transaction with privileged message %s (authority kind=%s) left changes outside the fee payment and the sequence number: stores %v", kind, msgKey(m), c.kind, changed))
							break
						}
					}
				}
			}
		}
	}
	// there is no grant by the governance module account (nobody can sign its MsgGrant): assumption of authzRun
	n := 0
	app.AuthzKeeper.IterateGrants(w.s.Ctx, func(granter, _ sdk.AccAddress, _ authz.Grant) bool {
		if granter.String() == w.gov {
			n++
		}
		return false
	})
	if n > 0 {
		out.Violate(fmt.Sprintf("the governance module account has %d authz grants", n))
	}
}

// propStream: each case as the only message of a governance proposal submitted by alice, voted through, executed by the
// real fx-core governance end-blocker (all on a branch of the state that is dropped afterwards).
func (w *txWorld) propStream(rng *rand.Rand, cases []txCase, junk []cand, other string) {
	out, app := w.out, w.s.App
	for _, tc := range cases {
		m := tc.m
		cs := []cand{{"gov", w.gov}, {"GOV-upper", strings.ToUpper(w.gov)}, {"signer", w.alice.AccAddress().String()}, {"module", other}, junk[1], junk[rng.Intn(len(junk))]}
		for _, c := range cs {
			setAuthority(m, c.val)
			cctx, _ := w.s.Ctx.CacheContext()
			params, err := app.GovKeeper.Params.Get(cctx)
			if err != nil {
				return
			}
			var dep sdk.Coins
			for _, d := range params.MinDeposit {
				dep = dep.Add(sdk.NewCoin(d.Denom, d.Amount.MulRaw(100)))
			}
			obs := "past-guard"
			sub, err := govv1.NewMsgSubmitProposal([]sdk.Msg{m}, dep, w.alice.AccAddress().String(), "", "privileged message", "privileged message", false)
			if err != nil {
				continue
			}
			pid, _ := app.GovKeeper.ProposalID.Peek(cctx)
			var serr error
			res := hx.Try(func() error { _, serr = app.MsgServiceRouter().Handler(sub)(cctx, sub); return nil })
			passed := false
			switch {
			case res != "ok":
				obs = "panic"
			case serr != nil:
				obs = "rejected:submit"
				if v, ok := m.(sdk.HasValidateBasic); ok && v.ValidateBasic() != nil {
					obs = "rejected:basic"
				}
			default:
				vals, _ := app.StakingKeeper.GetBondedValidatorsByPower(cctx)
				for _, v := range vals {
					vb, _ := sdk.ValAddressFromBech32(v.GetOperator())
					_ = app.GovKeeper.AddVote(cctx, pid, sdk.AccAddress(vb), govv1.NewNonSplitVoteOption(govv1.OptionYes), "")
				}
				p, err := app.GovKeeper.Proposals.Get(cctx, pid)
				if err != nil || p.VotingEndTime == nil {
					obs = "not-in-voting"
					break
				}
				ectx := cctx.WithBlockTime(p.VotingEndTime.Add(time.Second))
				var eerr error
				res = hx.Try(func() error { eerr = fxgov.EndBlocker(ectx, app.GovKeeper); return nil })
				if eerr != nil || res != "ok" {
					obs = "endblocker-failed"
					out.Violate("governance end-blocker failed or panicked while executing a proposal with " + msgKey(m) + ": " + fmt.Sprint(eerr, res))
					break
				}
				p, _ = app.GovKeeper.Proposals.Get(cctx, pid)
				switch p.Status {
				case govv1.StatusPassed:
					passed = true
				case govv1.StatusFailed:
					if strings.Contains(p.FailedReason, govtypes.ErrInvalidSigner.Error()) {
						obs = "rejected:signer"
					}
				default:
					obs = "status:" + p.Status.String()
				}
			}
			pk := 0
			if tc.payloadOk {
				pk = 1
			}
			out.Emit(fmt.Sprintf("gprop %s %s %s - %d %s %d %s", msgKey(m), hx.HexS(w.gov), dash(hx.HexS(c.val)), pk, tc.chain, tc.govOk, tc.lists), obs)
			out.Count("gprop:" + c.kind + ":" + obs)
			out.Nontrivial("gprop|" + msgKey(m) + "|" + c.kind + "|" + obs)
			if passed {
				out.Count("gprop-passed:" + msgKey(m) + ":" + c.kind)
				if a, err := sdk.AccAddressFromBech32(c.val); err != nil || a.String() != w.gov {
					out.Violate(fmt.Sprintf("a governance proposal executed privileged message %s whose authority kind=%s (%q) is not the governance module account", msgKey(m), c.kind, c.val))
				}
			}
		}
	}
}

// ---- whole blocks: several signed transactions in ONE block through the real FinalizeBlock (begin-blocker, every
// transaction through runTx on the block's state, end-blocker) and Commit.  `blk` lines, compared with `blockRun` of
// Model/C16Tx.lean (theorems block_needs_governance_key / block_effect_is_governance_txs).

// finalize runs one block with the given transactions on the suite's pending block state and commits it (what
// helpers.BaseSuite.Commit does for an empty block).
func (w *txWorld) finalize(txs [][]byte) (*abci.ResponseFinalizeBlock, error) {
	s := w.s
	ctx := s.Ctx
	commitInfo := abci.CommitInfo{Round: 1}
	for _, val := range s.ValSet.Validators {
		pk, err := cryptocodec.FromCmtPubKeyInterface(val.PubKey)
		if err != nil {
			return nil, err
		}
		commitInfo.Votes = append(commitInfo.Votes, abci.VoteInfo{Validator: abci.Validator{Address: pk.Address(), Power: val.VotingPower}, BlockIdFlag: cmtproto.BlockIDFlagCommit})
		info := slashingtypes.NewValidatorSigningInfo(sdk.ConsAddress(pk.Address()), ctx.BlockHeight(), 0, time.Unix(0, 0), false, 0)
		if err := s.App.SlashingKeeper.SetValidatorSigningInfo(ctx, sdk.ConsAddress(pk.Address()), info); err != nil {
			return nil, err
		}
	}
	h := ctx.BlockHeight()
	res, err := s.App.FinalizeBlock(&abci.RequestFinalizeBlock{Height: h, Time: time.Now().UTC(), ProposerAddress: ctx.BlockHeader().ProposerAddress, DecidedLastCommit: commitInfo, Txs: txs})
	if err != nil {
		return nil, err
	}
	if _, err := s.App.Commit(); err != nil {
		return nil, err
	}
	if _, err := s.App.ProcessProposal(&abci.RequestProcessProposal{Height: h + 1, Time: time.Now().UTC(), ProposerAddress: ctx.BlockHeader().ProposerAddress, ProposedLastCommit: commitInfo}); err != nil {
		return nil, err
	}
	s.Ctx = s.App.GetContextForFinalizeBlock(nil)
	return res, nil
}

// topUp keeps every block signer able to pay its fees: a transaction refused by the ante handler for lack of funds would be
// an `rejected:ante` the model cannot know about (false alarm of the thorough tier after round 5: the 1000-token signer
// paid its 84th fee).  Minting happens between blocks, before the dumps the monitors compare.
func (w *txWorld) topUp(signers []*helpers.Signer) {
	low := sdkmath.NewInt(1e18).MulRaw(500)
	for _, sg := range signers {
		if bal := w.s.App.BankKeeper.GetBalance(w.s.Ctx, sg.AccAddress(), fxtypes.DefaultDenom); bal.Amount.LT(low) {
			w.s.MintToken(sg.AccAddress(), helpers.NewStakingCoin(100_000, 18))
			w.out.Count("blk:signer-topped-up")
		}
	}
}

// anteCode records WHY the ante handler refused (statistics; `sdk/5` / `sdk/13` would be funds, not the authority)
// `own`: the fee payer is the account whose key signed (otherwise it is whatever account the authority spells — a module
// account, a fresh account — and lacking funds is an expected reason)
func (w *txWorld) anteCode(kind string, r *abci.ExecTxResult, own bool) {
	w.out.Count(fmt.Sprintf("%s:ante-code:%s/%d", kind, r.Codespace, r.Code))
	if own && r.Codespace == sdkerrors.ErrInsufficientFunds.Codespace() && (r.Code == sdkerrors.ErrInsufficientFunds.ABCICode() || r.Code == sdkerrors.ErrInsufficientFee.ABCICode()) {
		w.out.Count(kind + ":SIGNER-out-of-funds(generator-environment-defect)")
	}
}

func (w *txWorld) blockStream(rng *rand.Rand, cases []txCase, junk []cand, other string) {
	out, app := w.out, w.s.App
	w.topUp(append([]*helpers.Signer{w.alice, w.bob}, w.more...))
	// an empty block first: what the begin / end blockers change on their own
	before := hx.DumpAll(w.s.Ctx, w.keys)
	var ferr error
	if res := hx.Try(func() error { _, ferr = w.finalize(nil); return nil }); res != "ok" || ferr != nil {
		out.Violate("an empty block could not be finalized: " + fmt.Sprint(res, ferr))
		return
	}
	for _, st := range hx.DiffDump(before, hx.DumpAll(w.s.Ctx, w.keys)) {
		w.emptyBlockChanges[st] = true
	}
	signers := append([]*helpers.Signer{w.alice, w.bob}, w.more...)
	rng.Shuffle(len(signers), func(i, j int) { signers[i], signers[j] = signers[j], signers[i] })
	nTx := 2 + rng.Intn(len(signers)-1)
	type one struct {
		by    *helpers.Signer
		m     sdk.Msg
		tc    txCase
		c     cand
		seq0  uint64
		rcpt  sdk.AccAddress
		vbBad bool
	}
	var ones []one
	var raw [][]byte
	var words []string
	for i := 0; i < nTx; i++ {
		tc := cases[rng.Intn(len(cases))]
		m := cloneMsg(tc.m)
		if m == nil {
			continue
		}
		by := signers[i]
		me := by.AccAddress().String()
		cs := []cand{{"signer", me}, {"signer", me}, {"signer-upper", strings.ToUpper(me)}, {"gov", w.gov}, {"GOV-upper", strings.ToUpper(w.gov)},
			{"other-account", signers[(i+1)%len(signers)].AccAddress().String()}, {"other-account-upper", strings.ToUpper(signers[(i+1)%len(signers)].AccAddress().String())},
			{"module", other}, junk[rng.Intn(len(junk))], junk[len(junk)-1]}
		c := cs[rng.Intn(len(cs))]
		setAuthority(m, c.val)
		o := one{by: by, m: m, tc: tc, c: c, seq0: w.seq(by.AccAddress())}
		if v, ok := m.(sdk.HasValidateBasic); ok && v.ValidateBasic() != nil {
			o.vbBad = true
		}
		msgs := []sdk.Msg{m}
		if rng.Intn(2) == 0 { // a sibling message of the same signer BEFORE the privileged one: must not survive its failure
			o.rcpt = helpers.GenAccAddress()
			msgs = []sdk.Msg{banktypes.NewMsgSend(by.AccAddress(), o.rcpt, sdk.NewCoins(sdk.NewCoin(fxtypes.DefaultDenom, sdkmath.NewInt(7)))), m}
		}
		tx, err := w.signed(by, msgs...)
		if err != nil {
			continue // an authority no signer can be computed for: the transaction cannot even be built
		}
		bz, err := w.txc.TxEncoder()(tx)
		if err != nil {
			continue
		}
		pk := 0
		if tc.payloadOk {
			pk = 1
		}
		ones = append(ones, o)
		raw = append(raw, bz)
		words = append(words, fmt.Sprintf("t %s %s %s %d %s %d %s", msgKey(m), dash(hx.HexS(c.val)), hx.Hex(by.AccAddress()), pk, tc.chain, tc.govOk, tc.lists))
	}
	if len(ones) == 0 {
		return
	}
	before = hx.DumpAll(w.s.Ctx, w.keys)
	var res *abci.ResponseFinalizeBlock
	if r := hx.Try(func() error { res, ferr = w.finalize(raw); return nil }); r != "ok" || ferr != nil || res == nil || len(res.TxResults) != len(ones) {
		out.Violate("a block of transactions carrying privileged messages could not be finalized: " + fmt.Sprint(r, ferr))
		return
	}
	changed := hx.DiffDump(before, hx.DumpAll(w.s.Ctx, w.keys))
	_, sigCode, _ := errorsmod.ABCIInfo(govtypes.ErrInvalidSigner, false)
	var obs []string
	for i, o := range ones {
		r := res.TxResults[i]
		seq1 := w.seq(o.by.AccAddress())
		ob := "past-guard"
		switch {
		case r.Code == 0:
		case seq1 == o.seq0 && o.vbBad:
			ob = "rejected:basic"
		case seq1 == o.seq0:
			ob = "rejected:ante"
			w.anteCode("blk", r, strings.HasPrefix(o.c.kind, "signer"))
		case r.Codespace == govtypes.ErrInvalidSigner.Codespace() && r.Code == sigCode:
			ob = "rejected:signer"
		}
		obs = append(obs, ob)
		out.Count("blk:" + o.c.kind + ":" + ob)
		out.Nontrivial("blk|" + msgKey(o.m) + "|" + o.c.kind + "|" + ob)
		if r.Code == 0 {
			out.Violate(fmt.Sprintf("privileged message %s took effect inside a block transaction signed by an ordinary account, authority kind=%s (%q)", msgKey(o.m), o.c.kind, o.c.val))
		}
		if seq1 > o.seq0+1 {
			out.Violate("a signer's sequence number advanced by more than one for one transaction in a block")
		}
		if o.rcpt != nil {
			if bal := app.BankKeeper.GetBalance(w.s.Ctx, o.rcpt, fxtypes.DefaultDenom); r.Code != 0 && !bal.IsZero() {
				out.Violate(fmt.Sprintf("a transaction whose privileged message %s was refused (authority kind=%s) kept the effect of its sibling bank send (%s arrived)", msgKey(o.m), o.c.kind, bal))
			}
			out.Count("blk:with-sibling-send")
		}
	}
	out.Emit("blk "+hx.HexS(w.gov)+" "+strings.Join(words, " "), strings.Join(obs, " "))
	out.Count(fmt.Sprintf("blk:txs-per-block:%d", len(ones)))
	// nothing but what an empty block changes, the fee payments (bank; collected fees are allocated by x/distribution),
	// the sequence numbers (acc) and the gas accounting of the block (feemarket base fee)
	allowed := map[string]bool{"acc": true, "bank": true, "distribution": true, "feemarket": true}
	for _, st := range changed {
		if !w.emptyBlockChanges[st] && !allowed[st] {
			out.Violate(fmt.Sprintf("a block whose transactions with privileged messages were all refused changed stores beyond what an empty block, the fee payments, the sequence numbers and the gas accounting change: %v (empty block: %v)", changed, keysOf(w.emptyBlockChanges)))
			break
		}
	}
	out.Stats.Extra["stores_changed_by_empty_blocks"] = keysOf(w.emptyBlockChanges)
}

func keysOf(m map[string]bool) []string {
	var ks []string
	for k := range m {
		ks = append(ks, k)
	}
	sort.Strings(ks)
	return ks
}
