package c16

// C16 correspondence + monitors: sweeps the REAL message router of the full app.
//  * correspondence stream: the fx-core authority-carrying messages with valid payloads and bech32 authority
//    candidates; observation `rejected` / `past-guard`, compared with the Lean model run over the regenerated handler
//    table; plus raw-store compare-and-set sequences (MsgUpdateStore) compared with the Lean KV model;
//  * monitor stream: EVERY routed message type with an `Authority` string field (found by reflection: SDK, IBC,
//    ethermint ones included), zero and valid payloads, junk / look-alike authorities: must be an error and leave all
//    stores byte-for-byte unchanged;
//  * table check: the fx-core authority messages on the router must be exactly the regenerated table.

import (
	"encoding/hex"
	"encoding/json"
	"errors"
	"fmt"
	"math/rand"
	"os"
	"reflect"
	"sort"
	"strings"
	"testing"
	"time"

	sdkmath "cosmossdk.io/math"
	sdk "github.com/cosmos/cosmos-sdk/types"
	authtypes "github.com/cosmos/cosmos-sdk/x/auth/types"
	banktypes "github.com/cosmos/cosmos-sdk/x/bank/types"
	distrtypes "github.com/cosmos/cosmos-sdk/x/distribution/types"
	govtypes "github.com/cosmos/cosmos-sdk/x/gov/types"
	"github.com/cosmos/gogoproto/proto"

	"github.com/functionx/fx-core/v8/testutil/helpers"
	fxtypes "github.com/functionx/fx-core/v8/types"
	crosschaintypes "github.com/functionx/fx-core/v8/x/crosschain/types"
	erc20types "github.com/functionx/fx-core/v8/x/erc20/types"
	ethtypes "github.com/functionx/fx-core/v8/x/eth/types"
	fxevmtypes "github.com/functionx/fx-core/v8/x/evm/types"
	fxgovtypes "github.com/functionx/fx-core/v8/x/gov/types"

	"fxverif/harness/hx"
)

const modPath = "github.com/functionx/fx-core/v8/"

func msgKey(m sdk.Msg) string {
	t := reflect.TypeOf(m).Elem()
	return strings.TrimPrefix(t.PkgPath(), modPath) + "." + t.Name()
}

func setAuthority(m sdk.Msg, a string) {
	reflect.ValueOf(m).Elem().FieldByName("Authority").SetString(a)
}

func hasAuthority(m proto.Message) bool {
	v := reflect.ValueOf(m)
	if v.Kind() != reflect.Ptr || v.Elem().Kind() != reflect.Struct {
		return false
	}
	f := v.Elem().FieldByName("Authority")
	return f.IsValid() && f.Kind() == reflect.String
}

func TestC16(t *testing.T) {
	seed := hx.Seed()
	rng := rand.New(rand.NewSource(seed))
	out := hx.NewOut()
	defer out.Close("correspondence: 11 fx-core authority messages x valid payloads x bech32 authority candidates (gov, GOV upper, other module accounts, random accounts, upper-case variants) + UpdateStore CAS sequences; monitor: every routed Msg with an Authority field x zero/valid payload x junk and look-alike authorities. non-trivial = distinct (message type, authority kind, outcome)")

	s := hx.NewSuite(t, 1+rng.Intn(3))
	app := s.App
	gov := authtypes.NewModuleAddress(govtypes.ModuleName).String()
	chains := crosschaintypes.GetSupportChains()

	// ---- all routed messages with an Authority field
	urls := app.InterfaceRegistry().ListImplementations(sdk.MsgInterfaceProtoName)
	sort.Strings(urls)
	var authMsgs []string
	fxRouted := map[string]bool{}
	for _, u := range urls {
		m, err := app.InterfaceRegistry().Resolve(u)
		if err != nil || !hasAuthority(m) {
			continue
		}
		sm, ok := m.(sdk.Msg)
		if !ok || app.MsgServiceRouter().Handler(sm) == nil {
			continue
		}
		authMsgs = append(authMsgs, u)
		if strings.HasPrefix(reflect.TypeOf(m).Elem().PkgPath(), modPath) {
			fxRouted[msgKey(sm)] = true
		}
	}
	out.Stats.Extra["routed_authority_messages"] = authMsgs

	// ---- table check against the regenerated facts
	if fp := os.Getenv("VERIF_FACTS"); fp != "" {
		bz, err := os.ReadFile(fp)
		if err == nil {
			var facts map[string]json.RawMessage
			_ = json.Unmarshal(bz, &facts)
			var hs []map[string]string
			_ = json.Unmarshal(facts["C16.handlers"], &hs)
			tbl := map[string]bool{}
			for _, h := range hs {
				tbl[h["msg"]] = true
			}
			for k := range fxRouted {
				if !tbl[k] {
					out.Violate("router has authority message " + k + " that the extracted handler table does not list")
				}
			}
			for k := range tbl {
				if !fxRouted[k] {
					out.Violate("extracted handler table lists " + k + " which is not routed")
				}
			}
		}
	}

	// ---- valid payload builders for the fx-core messages
	ctx0 := s.Ctx
	valid := func(rng *rand.Rand) []sdk.Msg {
		chain := hx.Pick(rng, chains)
		cp := crosschaintypes.DefaultParams()
		cp.GravityId = fmt.Sprintf("fx-%s-bridge", chain)
		cp.Oracles = nil
		vp := time.Duration(1+rng.Intn(1000)) * time.Second
		sw := fxgovtypes.SwitchParams{}
		if rng.Intn(2) == 0 {
			sw.DisableMsgTypes = []string{sdk.MsgTypeURL(&banktypes.MsgSend{})}
		}
		key := []byte{0xFE, byte(rng.Intn(4))}
		return []sdk.Msg{
			&crosschaintypes.MsgUpdateParams{ChainName: chain, Params: cp},
			&crosschaintypes.MsgUpdateChainOracles{ChainName: chain, Oracles: []string{helpers.GenAccAddress().String(), helpers.GenAccAddress().String()}},
			&erc20types.MsgUpdateParams{Params: erc20types.DefaultParams()},
			&erc20types.MsgRegisterCoin{Metadata: fxtypes.GetCrossChainMetadataManyToOne("Test Token", "TT"+strings.ToUpper(helpers.NewRandSymbol()), 18)},
			&erc20types.MsgRegisterERC20{Erc20Address: helpers.GenHexAddress().String()},
			&erc20types.MsgToggleTokenConversion{Token: fxtypes.DefaultDenom},
			&erc20types.MsgUpdateDenomAlias{Denom: fxtypes.DefaultDenom, Alias: "alias" + helpers.NewRandDenom()},
			&fxevmtypes.MsgCallContract{ContractAddress: helpers.GenHexAddress().String(), Data: "01"},
			&fxgovtypes.MsgUpdateStore{UpdateStores: []fxgovtypes.UpdateStore{{Space: "erc20", Key: hex.EncodeToString(key), OldValue: "", Value: "01"}}},
			&fxgovtypes.MsgUpdateSwitchParams{Params: sw},
			&fxgovtypes.MsgUpdateCustomParams{MsgUrl: sdk.MsgTypeURL(&distrtypes.MsgCommunityPoolSpend{}), CustomParams: *fxgovtypes.NewCustomParams("0.5", vp, "0.3")},
		}
	}
	_ = ethtypes.ModuleName

	upper := strings.ToUpper
	candidates := func(rng *rand.Rand) [][2]string {
		other := authtypes.NewModuleAddress(hx.Pick(rng, []string{"erc20", "eth", "bsc", "tron", "distribution", "evm", "bonded_tokens_pool", "mint", "fee_collector", "crosschain"})).String()
		acc := helpers.GenAccAddress().String()
		return [][2]string{
			{"gov", gov}, {"GOV-upper", upper(gov)}, {"module", other}, {"module-upper", upper(other)},
			{"account", acc}, {"account-upper", upper(acc)},
		}
	}
	junk := func(rng *rand.Rand) [][2]string {
		govBz := authtypes.NewModuleAddress(govtypes.ModuleName)
		mixed := []byte(gov)
		for i := len(mixed) - 1; i > 3; i-- {
			if mixed[i] >= 'a' && mixed[i] <= 'z' {
				mixed[i] -= 32
				break
			}
		}
		longS := strings.Replace(gov, "s", "ſ", 1) // U+017F folds to 's' under strings.EqualFold
		kelvin := strings.Replace(gov, "k", "K", 1)
		otherHrp := "cosmos"
		if strings.HasPrefix(gov, "cosmos1") {
			otherHrp = "fx"
		}
		cosmosPrefix, _ := sdk.Bech32ifyAddressBytes(otherHrp, govBz)
		return [][2]string{
			{"empty", ""}, {"hex", "0x" + hex.EncodeToString(govBz)}, {"hex-noprefix", hex.EncodeToString(govBz)},
			{"mixed-case", string(mixed)}, {"long-s", longS}, {"kelvin", kelvin}, {"other-hrp", cosmosPrefix},
			{"gov-space", gov + " "}, {"space-gov", " " + gov}, {"module-name", "gov"}, {"gov-nul", gov + "\x00"},
			{"valoper", sdk.ValAddress(govBz).String()},
		}
	}
	foldEq := func(a, b string) bool { return strings.EqualFold(a, b) && isASCII(a) && isASCII(b) }

	keys := app.GetKVStoreKey()
	n := hx.N(40, 600)
	for it := 0; it < n; it++ {
		out.Reset()
		// ---------------- correspondence stream
		for _, m := range valid(rng) {
			for _, c := range candidates(rng) {
				setAuthority(m, c[1])
				vb := 1
				if v, ok := m.(sdk.HasValidateBasic); ok && v.ValidateBasic() != nil {
					vb = 0
				}
				cctx, _ := s.Ctx.CacheContext()
				before := hx.DumpAll(cctx, keys)
				var err error
				res := hx.Try(func() error {
					_, err = app.MsgServiceRouter().Handler(m)(cctx, m)
					return nil
				})
				after := hx.DumpAll(cctx, keys)
				changed := hx.DiffDump(before, after)
				obs := "past-guard"
				if strings.HasPrefix(res, "panic") {
					obs = res
				} else if err != nil && (errors.Is(err, govtypes.ErrInvalidSigner) || vb == 0) {
					obs = "rejected"
					if len(changed) > 0 {
						obs = "rejected-but-changed:" + strings.Join(changed, ",")
					}
				}
				out.Emit(fmt.Sprintf("call %s %s %s %d 1", msgKey(m), hx.HexS(gov), hx.HexS(c[1]), vb), obs)
				out.Count("corr:" + c[0] + ":" + obs)
				out.Nontrivial(msgKey(m) + "|" + c[0] + "|" + obs)
				// property monitor
				if !foldEq(gov, c[1]) && err == nil {
					out.Violate(fmt.Sprintf("privileged message %s took effect with non-governance authority kind=%s (%q)", msgKey(m), c[0], c[1]))
				}
			}
		}
		// ---------------- monitor stream: every routed authority message, junk + candidates, zero and valid payloads
		vmsgs := valid(rng)
		for _, u := range authMsgs {
			pm, _ := app.InterfaceRegistry().Resolve(u)
			zero := pm.(sdk.Msg)
			list := []sdk.Msg{zero}
			for _, vm := range vmsgs {
				if sdk.MsgTypeURL(vm) == u {
					list = append(list, vm)
				}
			}
			for _, m := range list {
				for _, c := range append(junk(rng), candidates(rng)[2:]...) {
					if foldEq(gov, c[1]) {
						continue
					}
					setAuthority(m, c[1])
					cctx, _ := s.Ctx.CacheContext()
					before := hx.DumpAll(cctx, keys)
					var err error
					res := hx.Try(func() error {
						_, err = app.MsgServiceRouter().Handler(m)(cctx, m)
						return nil
					})
					after := hx.DumpAll(cctx, keys)
					out.Stats.Evaluations++
					out.Count("mon:" + c[0])
					out.Nontrivial(u + "|" + c[0])
					if strings.HasPrefix(res, "panic") {
						out.Count("mon-panic:" + u)
						continue // panics are C20's subject; recovered by baseapp, state discarded
					}
					if err == nil {
						out.ViolateWith(fmt.Sprintf("privileged message %s took effect with non-governance authority kind=%s (%q)", u, c[0], c[1]),
							[]string{"# monitor: router.Handler(" + u + ") with Authority=" + fmt.Sprintf("%q", c[1]) + " returned no error"})
					} else if ch := hx.DiffDump(before, after); len(ch) > 0 {
						out.Count("mon-rejected-after-writes:" + u)
					}
				}
			}
		}
		// ---------------- raw store compare-and-set sequences
		casSeq(s, out, rng, gov, ctx0)
	}
}

func isASCII(s string) bool {
	for i := 0; i < len(s); i++ {
		if s[i] >= 0x80 {
			return false
		}
	}
	return true
}

// casSeq drives MsgUpdateStore with the governance authority over a scratch key range (erc20 store, prefix 0xFE) with
// right / wrong old values and unknown store spaces, committing a message's writes only on success as baseapp does.
func casSeq(s *hx.Suite, out *hx.Out, rng *rand.Rand, gov string, _ sdk.Context) {
	app := s.App
	ekey := app.GetKey(erc20types.StoreKey)
	// start from a clean scratch range
	for _, kv := range hx.RawPrefix(s.Ctx, ekey, []byte{0xFE}) {
		s.Ctx.KVStore(ekey).Delete(kv[0])
	}
	out.Emit("casreset", "ok")
	cur := map[string]string{}
	steps := 3 + rng.Intn(6)
	for i := 0; i < steps; i++ {
		nEnt := 1 + rng.Intn(3)
		var ups []fxgovtypes.UpdateStore
		var parts []string
		shadow := map[string]string{}
		for k, v := range cur {
			shadow[k] = v
		}
		casOk := true // every entry's stated old value equals the value current when that entry is applied
		for j := 0; j < nEnt; j++ {
			key := hex.EncodeToString([]byte{0xFE, byte(rng.Intn(3))})
			old := shadow[key]
			switch rng.Intn(5) {
			case 0:
				old = hex.EncodeToString([]byte{byte(rng.Intn(3))}) // probably wrong
			case 1:
				old = ""
			}
			val := hex.EncodeToString([]byte{byte(1 + rng.Intn(3))})
			if rng.Intn(6) == 0 {
				val = ""
			}
			space := "erc20"
			spaceOk := 1
			if rng.Intn(8) == 0 {
				space, spaceOk = "nosuchstore", 0
			}
			if old != shadow[key] || spaceOk == 0 {
				casOk = false
			}
			ups = append(ups, fxgovtypes.UpdateStore{Space: space, Key: key, OldValue: old, Value: val})
			parts = append(parts, fmt.Sprintf("%d:%s:%s:%s", spaceOk, key, dash(old), dash(val)))
			shadow[key] = val
		}
		auth := gov
		authOk := 1
		if rng.Intn(5) == 0 {
			auth, authOk = helpers.GenAccAddress().String(), 0
		}
		m := &fxgovtypes.MsgUpdateStore{Authority: auth, UpdateStores: ups}
		cctx, write := s.Ctx.CacheContext()
		var err error
		res := hx.Try(func() error { _, err = app.MsgServiceRouter().Handler(m)(cctx, m); return nil })
		if err == nil && res == "ok" {
			write()
		}
		// observe the scratch range
		var obs []string
		for _, kv := range hx.RawPrefix(s.Ctx, ekey, []byte{0xFE}) {
			obs = append(obs, hex.EncodeToString(kv[0])+"="+dash(hex.EncodeToString(kv[1])))
		}
		r := "ok"
		if err != nil {
			r = "err"
		}
		if res != "ok" {
			r = res
		}
		if err == nil {
			cur = shadow
		}
		out.Emit(fmt.Sprintf("cas %d %s", authOk, strings.Join(parts, " ")), r+" "+strings.Join(obs, ","))
		out.Count("cas:" + r)
		out.Nontrivial("cas|" + r + "|" + fmt.Sprint(nEnt) + "|" + fmt.Sprint(authOk))
		if authOk == 0 && err == nil {
			out.Violate("raw store update applied with a non-governance authority")
		}
		if !casOk && err == nil && res == "ok" {
			out.Violate("raw store update applied although an entry's stated old value differs from the value current when it is applied (or its store space is unknown)")
		}
	}
	_ = sdkmath.ZeroInt
}

func dash(s string) string {
	if s == "" {
		return "-"
	}
	return s
}
