package c16

// C16 correspondence + monitors: sweeps the REAL message router of the full app.
//  * correspondence stream (`call` lines): the fx-core authority-carrying messages, valid and zero-valued payloads, with
//    authority candidates of every kind (governance, its upper-case spelling, other module accounts, the module account
//    of every name in the payload, every address in the payload, random accounts, look-alike / malformed encodings);
//    observation = the stage the message ends in (`rejected:authority-format` by ValidateBasic's address decoding,
//    `rejected:payload`, `rejected:signer` by the handler's guard, `past-guard`), compared with the Lean model, which
//    evaluates the regenerated ValidateBasic facts, bech32 decoding, the regenerated dispatch tables (method promotion)
//    and the regenerated guard expressions;
//  * `bech` / `fold` lines: sdk.AccAddressFromBech32 and strings.EqualFold on mutated spellings of the governance
//    address against the Lean bech32 / case-folding model;
//  * `cas` lines: MsgUpdateStore sequences over scratch ranges of several stores (same key twice, stale old values,
//    unknown spaces, foreign and malformed authorities); observation = the scratch ranges after the message AND the
//    handler's own context after a failure (partial writes), compared with the Lean interpreter of the regenerated loop;
//  * `prop` lines: passed governance proposals with several MsgUpdateStore messages through the real end-blocker;
//  * monitor stream: EVERY routed message type with an `Authority` string field (found by reflection: SDK, IBC,
//    ethermint ones included), zero and valid payloads, junk / look-alike authorities: must be an error and leave all
//    stores byte-for-byte unchanged;
//  * table check: the fx-core authority messages on the router must be exactly the regenerated table.

import (
	"encoding/hex"
	"encoding/json"
	"errors"
	"fmt"
	"math/rand"
	"os"
	"reflect"
	"sort"
	"strings"
	"testing"
	"time"

	sdkmath "cosmossdk.io/math"
	storetypes "cosmossdk.io/store/types"
	sdk "github.com/cosmos/cosmos-sdk/types"
	"github.com/cosmos/cosmos-sdk/types/bech32"
	authtypes "github.com/cosmos/cosmos-sdk/x/auth/types"
	banktypes "github.com/cosmos/cosmos-sdk/x/bank/types"
	distrtypes "github.com/cosmos/cosmos-sdk/x/distribution/types"
	govtypes "github.com/cosmos/cosmos-sdk/x/gov/types"
	govv1 "github.com/cosmos/cosmos-sdk/x/gov/types/v1"
	"github.com/cosmos/gogoproto/proto"
	"github.com/ethereum/go-ethereum/common"

	"github.com/functionx/fx-core/v8/contract"
	"github.com/functionx/fx-core/v8/testutil/helpers"
	fxtypes "github.com/functionx/fx-core/v8/types"
	crosschaintypes "github.com/functionx/fx-core/v8/x/crosschain/types"
	erc20types "github.com/functionx/fx-core/v8/x/erc20/types"
	fxevmtypes "github.com/functionx/fx-core/v8/x/evm/types"
	fxgov "github.com/functionx/fx-core/v8/x/gov"
	fxgovtypes "github.com/functionx/fx-core/v8/x/gov/types"

	"fxverif/harness/hx"
)

const modPath = "github.com/functionx/fx-core/v8/"

func msgKey(m sdk.Msg) string {
	t := reflect.TypeOf(m).Elem()
	return strings.TrimPrefix(t.PkgPath(), modPath) + "." + t.Name()
}

func setAuthority(m sdk.Msg, a string) {
	reflect.ValueOf(m).Elem().FieldByName("Authority").SetString(a)
}

func hasAuthority(m proto.Message) bool {
	v := reflect.ValueOf(m)
	if v.Kind() != reflect.Ptr || v.Elem().Kind() != reflect.Struct {
		return false
	}
	f := v.Elem().FieldByName("Authority")
	return f.IsValid() && f.Kind() == reflect.String
}

// payloadStrings collects every string in the payload of a message (fields other than Authority, nested structs, slices).
func payloadStrings(m sdk.Msg) []string {
	var out []string
	var walk func(v reflect.Value, depth int)
	walk = func(v reflect.Value, depth int) {
		if depth > 4 {
			return
		}
		switch v.Kind() {
		case reflect.Ptr, reflect.Interface:
			if !v.IsNil() {
				walk(v.Elem(), depth+1)
			}
		case reflect.Struct:
			for i := 0; i < v.NumField(); i++ {
				if v.Type().Field(i).Name == "Authority" && depth == 0 {
					continue
				}
				if v.Type().Field(i).PkgPath != "" {
					continue
				}
				walk(v.Field(i), depth+1)
			}
		case reflect.Slice:
			for i := 0; i < v.Len() && i < 4; i++ {
				walk(v.Index(i), depth+1)
			}
		case reflect.String:
			if s := v.String(); s != "" && len(s) < 100 {
				out = append(out, s)
			}
		}
	}
	walk(reflect.ValueOf(m).Elem(), 0)
	return out
}

type cand struct{ kind, val string }

func TestC16(t *testing.T) {
	seed := hx.Seed()
	rng := rand.New(rand.NewSource(seed))
	out := hx.NewOut()
	defer out.Close("correspondence: fx-core authority messages x valid/zero payloads x authority candidates (gov, GOV upper, module accounts incl. those named in the payload, payload addresses, random accounts, look-alike and malformed encodings), observation = stage (authority-format / payload / signer / past-guard); bech32 and EqualFold on mutated spellings; UpdateStore CAS sequences over several stores with the handler's own context after failures; proposals through the real end-blocker; monitor: every routed Msg with an Authority field x zero/valid payload x junk and look-alike authorities. non-trivial = distinct (message type, authority kind, outcome)")

	s := hx.NewSuite(t, 1+rng.Intn(3))
	app := s.App
	gov := authtypes.NewModuleAddress(govtypes.ModuleName).String()
	chains := crosschaintypes.GetSupportChains()
	keys := app.GetKVStoreKey()

	// ---- address configuration and store spaces of the running app (environment of the model)
	prefix := sdk.GetConfig().GetBech32AccountAddrPrefix()
	minLen, maxLen := -1, -1
	for n := 0; n <= 300; n++ {
		if sdk.VerifyAddressFormat(make([]byte, n)) == nil {
			if minLen < 0 {
				minLen = n
			}
			maxLen = n
		}
	}
	var spaceNames []string
	for name := range keys {
		spaceNames = append(spaceNames, name)
	}
	sort.Strings(spaceNames)
	envLines := func() {
		out.Emit(fmt.Sprintf("cfg %s %d %d", hx.HexS(prefix), minLen, maxLen), "ok")
		out.Emit("spaces "+strings.Join(spaceNames, " "), "ok")
	}
	if gov != strings.ToLower(gov) || !isASCII(gov) {
		out.Violate("the governance authority string is not lower-case ASCII (hypothesis of routed_only_governance_string): " + gov)
	}

	// ---- all routed messages with an Authority field
	urls := app.InterfaceRegistry().ListImplementations(sdk.MsgInterfaceProtoName)
	sort.Strings(urls)
	var authMsgs []string
	fxRouted := map[string]bool{}
	fxURL := map[string]string{}
	for _, u := range urls {
		m, err := app.InterfaceRegistry().Resolve(u)
		if err != nil || !hasAuthority(m) {
			continue
		}
		sm, ok := m.(sdk.Msg)
		if !ok || app.MsgServiceRouter().Handler(sm) == nil {
			continue
		}
		authMsgs = append(authMsgs, u)
		if strings.HasPrefix(reflect.TypeOf(m).Elem().PkgPath(), modPath) {
			fxRouted[msgKey(sm)] = true
			fxURL[u] = msgKey(sm)
		}
	}
	out.Stats.Extra["routed_authority_messages"] = authMsgs

	// ---- table check against the regenerated facts
	if fp := os.Getenv("VERIF_FACTS"); fp != "" {
		bz, err := os.ReadFile(fp)
		if err == nil {
			var facts map[string]json.RawMessage
			_ = json.Unmarshal(bz, &facts)
			var hs []map[string]string
			_ = json.Unmarshal(facts["C16.handlers"], &hs)
			tbl := map[string]bool{}
			for _, h := range hs {
				tbl[h["msg"]] = true
			}
			for k := range fxRouted {
				if !tbl[k] {
					out.Violate("router has authority message " + k + " that the extracted handler table does not list")
				}
			}
			for k := range tbl {
				if !fxRouted[k] {
					out.Violate("extracted handler table lists " + k + " which is not routed")
				}
			}
			// the semantic table: every routed fx-core authority message must be a method of a registered service there
			var impls []map[string]string
			if json.Unmarshal(facts["C16.impls"], &impls) == nil && len(impls) > 0 {
				served := map[string]bool{}
				for _, im := range impls {
					served[im["msg"]] = true
				}
				for k := range fxRouted {
					if !served[k] {
						out.Violate("router has authority message " + k + " for which the extractor found no implementation")
					}
				}
			}
			var routes []string
			if json.Unmarshal(facts["C16.routes"], &routes) == nil && len(routes) > 0 {
				rs := map[string]bool{}
				for _, r := range routes {
					rs[r] = true
				}
				for _, c := range chains {
					if !rs[c] {
						out.Violate("supported chain " + c + " is not among the regenerated crosschain routes")
					}
				}
			}
		}
	}

	// ---- the Msg servers the app registers (captured by re-running its RegisterServices against a recorder)
	servers, _, capRes := captureServers(app.RegisterServices)
	if capRes != "" {
		out.Violate("re-running the app's RegisterServices against a recording configurator failed: " + capRes)
	}
	{
		regImpl := map[string]string{}
		if fp := os.Getenv("VERIF_FACTS"); fp != "" {
			if bz, err := os.ReadFile(fp); err == nil {
				var facts map[string]json.RawMessage
				_ = json.Unmarshal(bz, &facts)
				var regs []map[string]string
				_ = json.Unmarshal(facts["C16.registrations"], &regs)
				for _, r := range regs {
					regImpl[r["service"]] = r["impl"]
				}
			}
		}
		implTypes := map[string]string{}
		for _, u := range authMsgs {
			sv, ok := servers[u]
			if !ok {
				out.Violate("routed authority message " + u + " is served by no Msg service the app's RegisterServices registers (captured " + fmt.Sprint(len(servers)) + " methods)")
				continue
			}
			implTypes[u] = sv.implType
			if k, fx := fxURL[u]; fx && len(regImpl) > 0 {
				svc := k[:strings.LastIndex(k, ".")]
				if want, ok := regImpl[svc]; !ok {
					out.Violate("the regenerated registrations list no RegisterMsgServer site for service " + svc + " (message " + k + ")")
				} else if want != sv.implType {
					out.Violate("the running app serves " + k + " with a value of type " + sv.implType + ", the regenerated registrations say " + want)
				}
			}
		}
		out.Stats.Extra["registered_server_types"] = implTypes
	}
	// ---- the dependency handlers the translator read from the module cache: every routed authority message that is not
	// an fx-core type must be among them, served by the type and method it found
	depImpl := map[string][2]string{} // Go message type -> (receiver type, method)
	if fp := os.Getenv("VERIF_FACTS"); fp != "" {
		if bz, err := os.ReadFile(fp); err == nil {
			var facts map[string]json.RawMessage
			_ = json.Unmarshal(bz, &facts)
			var dis []map[string]string
			if json.Unmarshal(facts["C16.depImpls"], &dis) == nil && len(dis) > 0 {
				for _, d := range dis {
					depImpl[d["msg"]] = [2]string{d["recv"], d["method"]}
				}
				for _, u := range authMsgs {
					if _, fx := fxURL[u]; fx {
						continue
					}
					pm, _ := app.InterfaceRegistry().Resolve(u)
					k := msgKey(pm.(sdk.Msg))
					d, ok := depImpl[k]
					if !ok {
						out.Violate("routed authority message " + u + " (" + k + ") of a dependency has no handler in the regenerated dependency table")
						continue
					}
					if sv, ok := servers[u]; ok {
						if sv.method.MethodName != d[1] {
							out.Violate("dependency message " + k + " is served by method " + sv.method.MethodName + ", the regenerated table says " + d[1])
						}
						if !strings.HasPrefix(sv.implType, "x/") && sv.implType != d[0] {
							out.Violate("dependency message " + k + " is served by a value of type " + sv.implType + ", the regenerated table says " + d[0])
						}
					}
				}
			}
		}
	}

	// ---- who the running codec takes as the signer of every routed authority message: the account the authority
	// decodes to, and nothing else (the .proto signer options are regenerated into Gen/C16Proto.lean)
	{
		protoSigners := map[string][]string{}
		if fp := os.Getenv("VERIF_FACTS"); fp != "" {
			if bz, err := os.ReadFile(fp); err == nil {
				var facts map[string]json.RawMessage
				_ = json.Unmarshal(bz, &facts)
				_ = json.Unmarshal(facts["C16.protoSigners"], &protoSigners)
			}
		}
		probe := helpers.GenAccAddress()
		for _, u := range authMsgs {
			pm, _ := app.InterfaceRegistry().Resolve(u)
			m := pm.(sdk.Msg)
			setAuthority(m, probe.String())
			signers, _, err := app.AppCodec().GetMsgV1Signers(m)
			if err != nil || len(signers) != 1 || !probe.Equals(sdk.AccAddress(signers[0])) {
				out.Violate(fmt.Sprintf("the running codec does not take the authority of %s as its only signer (signers %x, err %v)", u, signers, err))
			}
			out.Count("signer-is-authority")
			if _, fx := fxURL[u]; fx && len(protoSigners) > 0 {
				if sg, ok := protoSigners[strings.TrimPrefix(u, "/")]; !ok || len(sg) != 1 || sg[0] != "authority" {
					out.Violate(fmt.Sprintf("the regenerated .proto facts do not declare `authority` as the signer of %s: %v", u, sg))
				}
			}
		}
	}
	// ---- the authority every keeper of the running app holds (any keeper field with a GetAuthority method)
	{
		kv := reflect.ValueOf(app.AppKeepers)
		if kv.Kind() == reflect.Ptr {
			kv = kv.Elem()
		}
		n := 0
		for i := 0; kv.Kind() == reflect.Struct && i < kv.NumField(); i++ {
			f := kv.Field(i)
			if !f.CanInterface() {
				continue
			}
			cands := []reflect.Value{f}
			if f.CanAddr() {
				cands = append(cands, f.Addr())
			}
			for _, v := range cands {
				mth := v.MethodByName("GetAuthority")
				if !mth.IsValid() || mth.Type().NumIn() != 0 || mth.Type().NumOut() != 1 {
					continue
				}
				var got string
				if res := hx.Try(func() error {
					r := mth.Call(nil)[0].Interface()
					if st, ok := r.(fmt.Stringer); ok {
						got = st.String()
					} else {
						got = fmt.Sprint(r)
					}
					return nil
				}); res != "ok" {
					break
				}
				n++
				out.Count("keeper-authority-checked:" + kv.Type().Field(i).Name)
				if got != gov {
					out.Violate("keeper " + kv.Type().Field(i).Name + " of the running app holds authority " + got + ", not the governance module account " + gov)
				}
				break
			}
		}
		out.Stats.Extra["keepers_with_authority_getter"] = n
	}

	// ---- the governance module account as the x/auth STATE has it (hypotheses of dependency_exception_rejects: SDK
	// MsgExecLegacyContent compares the authority with the address of the account it reads from state)
	{
		acc := app.AccountKeeper.GetAccount(s.Ctx, govBz0())
		ma, isMod := acc.(sdk.ModuleAccountI)
		switch {
		case acc == nil:
			out.Violate("the x/auth state holds no account at the governance module address (GetModuleAccount would create one inside MsgExecLegacyContent before its authority check)")
		case !isMod || ma.GetName() != govtypes.ModuleName:
			out.Violate("the account at the governance module address in the x/auth state is not the module account named gov")
		case acc.GetAddress().String() != gov:
			out.Violate("the governance module account in the x/auth state has address " + acc.GetAddress().String() + ", not " + gov)
		default:
			out.Count("state-gov-account-is-module-address")
		}
	}

	// ---- valid payload builders for the fx-core messages
	// a contract that exists, so that a governance-authorised MsgCallContract really takes effect
	callee := helpers.GenHexAddress()
	if err := app.EvmKeeper.CreateContractWithCode(s.Ctx, callee, []byte{0x00}); err != nil {
		t.Fatalf("install callee: %v", err)
	}
	// an ERC-20 contract that exists and is not registered, so that a governance-authorised MsgRegisterERC20 takes effect
	token, err := app.Erc20Keeper.DeployUpgradableToken(s.Ctx, common.BytesToAddress(authtypes.NewModuleAddress(erc20types.ModuleName)), "Sample Token", "SMPL", 18)
	if err != nil {
		t.Fatalf("deploy token: %v", err)
	}
	tokenAddr := func(rng *rand.Rand) string {
		if rng.Intn(4) == 0 {
			return helpers.GenHexAddress().String()
		}
		return token.String()
	}
	calleeAddr := func(rng *rand.Rand) string {
		if rng.Intn(4) == 0 {
			return helpers.GenHexAddress().String() // no such contract: fails after the guard
		}
		return callee.String()
	}
	valid := func(rng *rand.Rand) []sdk.Msg {
		chain := hx.Pick(rng, chains)
		cp := crosschaintypes.DefaultParams()
		cp.GravityId = fmt.Sprintf("fx-%s-bridge", chain)
		cp.Oracles = nil
		vp := time.Duration(1+rng.Intn(1000)) * time.Second
		sw := fxgovtypes.SwitchParams{}
		if rng.Intn(2) == 0 {
			sw.DisableMsgTypes = []string{sdk.MsgTypeURL(&banktypes.MsgSend{})}
		}
		key := []byte{0xFD, byte(rng.Intn(4))}
		custom := *fxgovtypes.NewCustomParams("0.5", vp, "0.3")
		if rng.Intn(3) == 0 {
			custom = fxgovtypes.CustomParams{} // the "delete the entry" early return
		}
		return []sdk.Msg{
			&crosschaintypes.MsgUpdateParams{ChainName: chain, Params: cp},
			&crosschaintypes.MsgUpdateChainOracles{ChainName: chain, Oracles: []string{helpers.GenAccAddress().String(), helpers.GenAccAddress().String()}},
			&erc20types.MsgUpdateParams{Params: erc20types.DefaultParams()},
			&erc20types.MsgRegisterCoin{Metadata: fxtypes.GetCrossChainMetadataManyToOne("Test Token", "TT"+strings.ToUpper(helpers.NewRandSymbol()), 18)},
			&erc20types.MsgRegisterERC20{Erc20Address: tokenAddr(rng)},
			&erc20types.MsgToggleTokenConversion{Token: fxtypes.DefaultDenom},
			&erc20types.MsgUpdateDenomAlias{Denom: fxtypes.DefaultDenom, Alias: "alias" + helpers.NewRandDenom()},
			&fxevmtypes.MsgCallContract{ContractAddress: calleeAddr(rng), Data: "01"},
			&fxgovtypes.MsgUpdateStore{UpdateStores: []fxgovtypes.UpdateStore{{Space: "erc20", Key: hex.EncodeToString(key), OldValue: "", Value: "01"}}},
			&fxgovtypes.MsgUpdateSwitchParams{Params: sw},
			&fxgovtypes.MsgUpdateCustomParams{MsgUrl: sdk.MsgTypeURL(&distrtypes.MsgCommunityPoolSpend{}), CustomParams: custom},
		}
	}
	zeros := func() []sdk.Msg {
		var ms []sdk.Msg
		for _, u := range authMsgs {
			if _, ok := fxURL[u]; ok {
				pm, _ := app.InterfaceRegistry().Resolve(u)
				ms = append(ms, pm.(sdk.Msg))
			}
		}
		return ms
	}

	upper := strings.ToUpper
	moduleNames := []string{"erc20", "eth", "bsc", "tron", "distribution", "evm", "bonded_tokens_pool", "mint", "fee_collector", "crosschain", "gov", "polygon", "avalanche", "arbitrum", "optimism", "layer2", "migrate", "transfer", "feemarket"}
	for _, sn := range spaceNames { // every store key of the running app names a module
		known := false
		for _, mn := range moduleNames {
			known = known || mn == sn
		}
		if !known {
			moduleNames = append(moduleNames, sn)
		}
	}
	govBz := authtypes.NewModuleAddress(govtypes.ModuleName)
	modCursor := map[string]int{}
	candidates := func(rng *rand.Rand, m sdk.Msg) []cand {
		// module accounts are cycled through PER MESSAGE TYPE (not drawn), two per call, so that every message type
		// meets every module account within ten calls
		nextModule := func() string {
			k := msgKey(m)
			modCursor[k]++
			if moduleNames[modCursor[k]%len(moduleNames)] == "gov" {
				modCursor[k]++
			}
			return authtypes.NewModuleAddress(moduleNames[modCursor[k]%len(moduleNames)]).String()
		}
		other, other2 := nextModule(), nextModule()
		acc := helpers.GenAccAddress().String()
		cs := []cand{
			{"gov", gov}, {"GOV-upper", upper(gov)}, {"module", other}, {"module", other2}, {"module-upper", upper(other2)},
			{"account", acc}, {"account-upper", upper(acc)},
		}
		// the module account of every name the message's own type URL is made of (a handler that also lets "its own"
		// module through: /cosmos.upgrade.v1beta1.MsgCancelUpgrade -> the upgrade module account)
		for _, seg := range strings.FieldsFunc(sdk.MsgTypeURL(m), func(r rune) bool { return r == '/' || r == '.' }) {
			if a := authtypes.NewModuleAddress(seg).String(); a != gov && seg == strings.ToLower(seg) {
				cs = append(cs, cand{"own-module", a})
			}
		}
		ps := payloadStrings(m)
		rng.Shuffle(len(ps), func(i, j int) { ps[i], ps[j] = ps[j], ps[i] })
		if len(ps) > 5 {
			ps = ps[:5]
		}
		for _, p := range ps {
			if _, err := sdk.AccAddressFromBech32(p); err == nil {
				cs = append(cs, cand{"payload-address", p})
			} else if len(p) <= 32 {
				cs = append(cs, cand{"payload-module", authtypes.NewModuleAddress(p).String()})
			}
		}
		return cs
	}
	junk := func(rng *rand.Rand) []cand {
		mixed := []byte(gov)
		for i := len(mixed) - 1; i > 3; i-- {
			if mixed[i] >= 'a' && mixed[i] <= 'z' {
				mixed[i] -= 32
				break
			}
		}
		longS := strings.Replace(gov, "s", "ſ", 1)  // U+017F folds to 's' under strings.EqualFold
		kelvin := strings.Replace(gov, "k", "K", 1) // U+212A folds to 'k'
		otherHrp := "cosmos"
		if strings.HasPrefix(gov, "cosmos1") {
			otherHrp = "fx"
		}
		otherPrefix, _ := sdk.Bech32ifyAddressBytes(otherHrp, govBz)
		long, _ := sdk.Bech32ifyAddressBytes(prefix, append(append([]byte{}, govBz...), make([]byte, 12)...))
		// valid account addresses of OTHER lengths that contain the governance bytes (a guard that truncates, pads or
		// takes a window of the decoded bytes — common.BytesToAddress keeps the last 20, a [20]byte copy the first 20 —
		// identifies them with the governance account); drawn per call, boundary lengths 21 / 32 / maxLen
		embed := func() cand {
			rnd := func(n int) []byte { b := make([]byte, n); rng.Read(b); return b }
			cat := func(xs ...[]byte) []byte {
				var o []byte
				for _, x := range xs {
					o = append(o, x...)
				}
				return o
			}
			var kind string
			var bz []byte
			switch rng.Intn(9) {
			case 0:
				kind, bz = "gov-suffix-32-zero-padded", cat(make([]byte, 12), govBz)
			case 1:
				kind, bz = "gov-suffix-32", cat(rnd(12), govBz)
			case 2:
				kind, bz = "gov-suffix-21", cat(rnd(1), govBz)
			case 3:
				kind, bz = "gov-suffix-maxlen", cat(rnd(maxLen-len(govBz)), govBz)
			case 4:
				kind, bz = "gov-prefix-21", cat(govBz, rnd(1))
			case 5:
				kind, bz = "gov-prefix-32", cat(govBz, rnd(12))
			case 6:
				kind, bz = "gov-twice-40", cat(govBz, govBz)
			case 7:
				kind, bz = "gov-middle-32", cat(rnd(6), govBz, rnd(6))
			default:
				kind, bz = "gov-truncated-19", govBz[1:]
			}
			a, err := sdk.Bech32ifyAddressBytes(prefix, bz)
			if err != nil {
				return cand{"32-byte", long}
			}
			return cand{kind, a}
		}
		e1, e2 := embed(), embed()
		return []cand{
			{"empty", ""}, {"hex", "0x" + hex.EncodeToString(govBz)}, {"hex-noprefix", hex.EncodeToString(govBz)},
			{"mixed-case", string(mixed)}, {"long-s", longS}, {"kelvin", kelvin}, {"other-hrp", otherPrefix},
			{"gov-space", gov + " "}, {"space-gov", " " + gov}, {"module-name", "gov"}, {"gov-nul", gov + "\x00"},
			{"valoper", sdk.ValAddress(govBz).String()}, {"32-byte", long}, {"spaces", "   "}, e1, e2,
		}
	}
	foldEq := func(a, b string) bool { return strings.EqualFold(a, b) && isASCII(a) && isASCII(b) }

	// one routed call on a fresh branch: observation stage, error, stores changed
	baseDump := map[string]string{}
	base := s.Ctx
	route := func(m sdk.Msg) (err error, panicked string, changed []string) {
		cctx, _ := base.CacheContext()
		res := hx.Try(func() error {
			_, err = app.MsgServiceRouter().Handler(m)(cctx, m)
			return nil
		})
		if strings.HasPrefix(res, "panic") {
			panicked = res
		}
		changed = hx.DiffDump(baseDump, hx.DumpAll(cctx, keys))
		return
	}
	stage := func(m sdk.Msg, payloadOk bool, err error) string {
		if err == nil {
			return "past-guard"
		}
		if v, ok := m.(sdk.HasValidateBasic); ok {
			if verr := v.ValidateBasic(); verr != nil {
				if payloadOk || strings.HasPrefix(verr.Error(), "authority") {
					return "rejected:authority-format"
				}
				return "rejected:payload"
			}
		}
		if errors.Is(err, govtypes.ErrInvalidSigner) {
			return "rejected:signer"
		}
		return "past-guard" // failed later, for a reason that is not the authority
	}
	chainOf := func(m sdk.Msg) string {
		if c, ok := m.(interface{ GetChainName() string }); ok && c.GetChainName() != "" {
			return c.GetChainName()
		}
		return "-"
	}

	tw := newTxWorld(s, out, gov)
	s2 := hx.NewSuite(t, 1+rng.Intn(3))
	tw2 := newTxWorld(s2, out, gov)
	tw2.keys = s2.App.GetKVStoreKey()
	proposer := helpers.GenAccAddress()
	s.MintToken(proposer, sdk.NewCoin(fxtypes.DefaultDenom, sdkmath.NewInt(1e18).MulRaw(1e9)))

	// ---- payload classes accepted by governance: vary one field of a valid payload at a time (lists empty / one or two
	// well-formed entries from a pool of well-formed strings of every kind the handlers parse, scalars replaced, booleans
	// flipped, numbers at small values) and keep every variant that is valid and takes effect under the governance authority
	pool := []string{
		"0x0000000000000000000000000000000000001001", "0x0000000000000000000000000000000000001002", "0x0000000000000000000000000000000000001003",
		"0x0000000000000000000000000000000000001004", "0x0000000000000000000000000000000000001005", callee.String(), token.String(),
		"0x0000000000000000000000000000000000001004/a9059cbb", callee.String() + "/00000000",
		helpers.GenAccAddress().String(), helpers.GenAccAddress().String(),
		sdk.MsgTypeURL(&banktypes.MsgSend{}), sdk.MsgTypeURL(&distrtypes.MsgCommunityPoolSpend{}), sdk.MsgTypeURL(&erc20types.MsgConvertCoin{}),
		sdk.MsgTypeURL(&crosschaintypes.MsgSendToExternal{}), fxtypes.DefaultDenom, "usdt", "alias" + helpers.NewRandDenom(), "eth", "bsc", "tron",
		"0.5", "0.25", "1", "01", "a9059cbb", "Some Name", "SYM",
	}
	if pair, found := app.Erc20Keeper.GetTokenPair(s.Ctx, fxtypes.DefaultDenom); found {
		pool = append(pool, pair.Erc20Address)
	}
	effective := map[string][]sdk.Msg{}
	seenPayload := map[string]bool{}
	baseDump = hx.DumpAll(s.Ctx, keys)
	tried := 0
	for round := 0; round < 2; round++ {
		for _, bm := range valid(rng) {
			k := msgKey(bm)
			for _, v := range append([]sdk.Msg{bm}, variants(rng, bm, pool, 70)...) {
				setAuthority(v, gov)
				if vb, ok := v.(sdk.HasValidateBasic); ok && vb.ValidateBasic() != nil {
					continue
				}
				bz, err := proto.Marshal(v)
				if err != nil || seenPayload[string(bz)] {
					continue
				}
				seenPayload[string(bz)] = true
				tried++
				if gerr, gp, _ := route(v); gerr == nil && gp == "" {
					effective[k] = append(effective[k], v)
				}
			}
		}
	}
	var effKeys []string
	effCount := map[string]int{}
	for k := range fxRouted {
		effKeys = append(effKeys, k)
		effCount[k] = len(effective[k])
		out.Count(fmt.Sprintf("effective-payloads-under-governance:%s:%d", k, len(effective[k])))
	}
	sort.Strings(effKeys)
	out.Stats.Extra["distinct_payloads_effective_under_governance"] = effCount
	out.Stats.Extra["payload_variants_tried"] = tried

	n := hx.N(24, 200)
	for it := 0; it < n; it++ {
		out.Reset()
		envLines()
		// the state the sweep starts from: the committed state, or (odd iterations) a branch on which one round of
		// governance-authorised privileged messages has already taken effect (a multi-step history)
		base = s.Ctx
		var appliedMsgs []sdk.Msg
		if it%2 == 1 {
			bctx, _ := s.Ctx.CacheContext()
			applied := 0
			for _, m := range valid(rng) {
				setAuthority(m, gov)
				var err error
				if res := hx.Try(func() error { _, err = app.MsgServiceRouter().Handler(m)(bctx, m); return nil }); res == "ok" && err == nil {
					applied++
					appliedMsgs = append(appliedMsgs, m)
				}
			}
			out.Count(fmt.Sprintf("history:gov-messages-applied:%d", applied))
			base = bctx
		}
		baseDump = hx.DumpAll(base, keys)
		// ---------------- correspondence stream
		var msgs []sdk.Msg
		msgs = append(msgs, valid(rng)...)
		// the governance address in a payload field (a guard reading the wrong field would accept it there)
		for _, m := range valid(rng) {
			v := reflect.ValueOf(m).Elem()
			for i := 0; i < v.NumField(); i++ {
				if v.Field(i).Kind() == reflect.String && v.Type().Field(i).Name != "Authority" {
					bz, err := proto.Marshal(m)
					c, ok := reflect.New(v.Type()).Interface().(sdk.Msg)
					if err != nil || !ok || proto.Unmarshal(bz, c) != nil {
						continue
					}
					reflect.ValueOf(c).Elem().Field(i).SetString(gov)
					msgs = append(msgs, c)
					out.Count("payload-field-is-gov:" + msgKey(m) + "." + v.Type().Field(i).Name)
				}
			}
		}
		if it%3 == 0 {
			msgs = append(msgs, zeros()...)
		}
		// REPLAYS: the very messages governance has just applied on this branch (payloads that describe the CURRENT state: a
		// handler that skips its check when "nothing changes" or "the set only shrinks" lets a foreign authority re-send
		// them), whole and with every string list cut down to its first entry
		for _, am := range appliedMsgs {
			if c := cloneMsg(am); c != nil {
				msgs = append(msgs, c)
				out.Count("replay-of-applied:" + msgKey(am))
			}
			v := reflect.ValueOf(am).Elem()
			for i := 0; i < v.NumField(); i++ {
				if f := v.Field(i); f.Kind() == reflect.Slice && f.Type().Elem().Kind() == reflect.String && f.Len() > 1 {
					if c := cloneMsg(am); c != nil {
						cf := reflect.ValueOf(c).Elem().Field(i)
						cf.Set(cf.Slice(0, 1))
						msgs = append(msgs, c)
						out.Count("replay-of-applied-shrunk:" + msgKey(am) + "." + v.Type().Field(i).Name)
					}
				}
			}
		}
		// payloads found to be valid AND effective under governance (one field of a valid payload varied), rotated
		for _, k := range effKeys {
			ps := effective[k]
			for j := 0; j < 2 && j < len(ps); j++ {
				if c := cloneMsg(ps[(it*2+j)%len(ps)]); c != nil {
					msgs = append(msgs, c)
				}
			}
		}
		for _, m := range msgs {
			setAuthority(m, gov)
			payloadOk := true
			if v, ok := m.(sdk.HasValidateBasic); ok && v.ValidateBasic() != nil {
				payloadOk = false
			}
			govOk := 0
			if payloadOk {
				if gerr, gp, _ := route(m); gerr == nil && gp == "" {
					govOk = 1
				}
			}
			lists := nonEmptyLists(m)
			cs := candidates(rng, m)
			if rng.Intn(2) == 0 || !payloadOk {
				cs = append(cs, junk(rng)...)
			} else {
				j := junk(rng)
				cs = append(cs, j[rng.Intn(len(j))], j[rng.Intn(len(j))], j[len(j)-1]) // always one address embedding the governance bytes
			}
			for _, c := range cs {
				setAuthority(m, c.val)
				err, panicked, changed := route(m)
				obs := stage(m, payloadOk, err)
				if panicked != "" {
					obs = panicked
				} else if strings.HasPrefix(obs, "rejected") && len(changed) > 0 {
					obs = "rejected-but-changed:" + strings.Join(changed, ",")
				}
				pk := 0
				if payloadOk {
					pk = 1
				}
				out.Emit(fmt.Sprintf("call %s %s %s %d %s %d %s", msgKey(m), hx.HexS(gov), dash(hx.HexS(c.val)), pk, chainOf(m), govOk, lists), obs)
				out.Count("corr:" + c.kind + ":" + obs)
				out.Nontrivial(msgKey(m) + "|" + c.kind + "|" + obs)
				if c.kind == "gov" && payloadOk {
					if err == nil {
						out.Count("gov-takes-effect:" + msgKey(m))
					} else {
						out.Count("gov-fails-later:" + msgKey(m))
					}
				}
				// property monitor
				if !foldEq(gov, c.val) && err == nil {
					out.Violate(fmt.Sprintf("privileged message %s took effect with non-governance authority kind=%s (%q)", msgKey(m), c.kind, c.val))
				}
				if !foldEq(gov, c.val) && err != nil && len(changed) > 0 {
					out.Violate(fmt.Sprintf("privileged message %s with non-governance authority kind=%s was rejected but changed stores %v", msgKey(m), c.kind, changed))
				}
			}
		}
		// ---------------- handler level: the registered Msg servers called directly (no ValidateBasic, no branch), and the
		// per-chain crosschain servers behind the crosschain router
		hmsgs := append([]sdk.Msg{}, msgs...)
		for _, m := range valid(rng)[:2] { // chain names the crosschain router has no route for
			if f := reflect.ValueOf(m).Elem().FieldByName("ChainName"); f.IsValid() {
				f.SetString(hx.Pick(rng, []string{"", "gov", "nosuch", "ETH", "erc20", "ethx", "et"}))
				hmsgs = append(hmsgs, m)
			}
		}
		for mi, m := range hmsgs {
			sv, ok := servers[sdk.MsgTypeURL(m)]
			if !ok {
				continue
			}
			setAuthority(m, gov)
			payloadOk := true
			if v, ok := m.(sdk.HasValidateBasic); ok && v.ValidateBasic() != nil {
				payloadOk = false
			}
			govOk := 0
			if payloadOk {
				if gerr, gp, _ := route(m); gerr == nil && gp == "" {
					govOk = 1
				}
			}
			lists := nonEmptyLists(m)
			cs := candidates(rng, m)
			if (mi+it)%3 == 0 || !payloadOk {
				cs = append(cs, junk(rng)...)
			} else {
				j := junk(rng)
				cs = append(cs, j[1], j[rng.Intn(len(j))], j[rng.Intn(len(j))], j[len(j)-1]) // always the 0x spelling of the governance account and one address embedding its bytes
			}
			type target struct {
				T    string
				impl interface{}
			}
			targets := []target{{sv.implType, sv.impl}}
			chain := chainOf(m)
			_, chainMsg := m.(interface{ GetChainName() string })
			hasRoute := chainMsg && app.CrosschainRouterKeeper.Router().HasRoute(chain)
			if hasRoute {
				ps := app.CrosschainRouterKeeper.Router().GetRoute(chain).MsgServer
				targets = append(targets, target{typeKey(ps), ps})
			}
			for ti, tg := range targets {
				for _, c := range cs {
					setAuthority(m, c.val)
					cctx, _ := base.CacheContext()
					var err error
					res := hx.Try(func() error { err = direct(cctx, sv, tg.impl, m); return nil })
					changed := hx.DiffDump(baseDump, hx.DumpAll(cctx, keys))
					obs := "past-guard"
					switch {
					case res != "ok":
						out.Count("hcall-panic:" + msgKey(m)) // a zero payload under the governance authority: fails after the guard
					case err == nil:
					case ti == 0 && chainMsg && !hasRoute:
						obs = "rejected:no-route"
					case errors.Is(err, govtypes.ErrInvalidSigner):
						obs = "rejected:signer"
					}
					if strings.HasPrefix(obs, "rejected") && len(changed) > 0 {
						obs = "rejected-but-changed:" + strings.Join(changed, ",")
					}
					out.Emit(fmt.Sprintf("hcall %s %s %s %s %s %d %s", tg.T, msgKey(m), hx.HexS(gov), dash(hx.HexS(c.val)), chain, govOk, lists), obs)
					out.Count("hcorr:" + c.kind + ":" + obs)
					out.Nontrivial("h|" + tg.T + "|" + msgKey(m) + "|" + c.kind + "|" + obs)
					// property monitor, handler level: only the canonical spelling of the governance address or a case variant
					// of it (what the weakest comparison in use, strings.EqualFold, identifies with it) may get past the handler
					// (only for the REGISTERED server: the per-chain servers behind the crosschain router are internal — a guard
					// hoisted to the router entry would be just as good; they are compared with the model, not monitored)
					if err == nil && res == "ok" && ti == 0 {
						if !strings.EqualFold(gov, c.val) {
							out.Violate(fmt.Sprintf("handler level: privileged message %s delivered directly to the registered Msg server %s (the router's ValidateBasic bypassed) took effect with non-governance authority kind=%s (%q)", msgKey(m), tg.T, c.kind, c.val))
						} else if !foldEq(gov, c.val) {
							out.Count("handler-level:non-ascii-case-fold-spelling-accepted:" + msgKey(m))
						}
					}
				}
			}
		}
		// ---------------- bech32 / EqualFold on mutated spellings
		for k := 0; k < 40; k++ {
			sp := mutate(rng, gov, prefix, govBz)
			_, derr := sdk.AccAddressFromBech32(sp)
			obs := "err"
			if derr == nil {
				a, _ := sdk.AccAddressFromBech32(sp)
				obs = "ok:" + dash(hex.EncodeToString(a))
			}
			out.Emit("bech "+dash(hx.HexS(sp)), obs)
			out.Count("bech:" + obs[:2])
			out.Emit(fmt.Sprintf("fold %s %s", hx.HexS(gov), dash(hx.HexS(sp))), fmt.Sprint(strings.EqualFold(gov, sp)))
			out.Count("fold:" + fmt.Sprint(strings.EqualFold(gov, sp)))
			// the other decoders a guard could put in front of its comparison (hand-modelled: parseAddress, evmAddr): the
			// lenient fxtypes.ParseAddress and common.BytesToAddress of the sdk-decoded bytes
			if contract.ValidateEthereumAddress(sp) == nil {
				out.Emit("eip55 "+hx.HexS(sp), "ok") // environment of the model: Keccak-256 is not modelled
				out.Count("parse:eip55-spelling")
			}
			pobs := "err"
			if pa, _, perr := fxtypes.ParseAddress(sp); perr == nil {
				pobs = "ok:" + dash(hex.EncodeToString(pa))
			}
			out.Emit("parse "+dash(hx.HexS(sp)), pobs)
			out.Count("parse:" + pobs[:2])
			da, _ := sdk.AccAddressFromBech32(sp)
			out.Emit("evm20 "+dash(hx.HexS(sp)), hex.EncodeToString(common.BytesToAddress(da).Bytes()))
			out.Count(fmt.Sprintf("evm20:decoded-len:%d", len(da)))
		}
		// ---------------- monitor stream: every routed authority message, junk + candidates, zero and valid payloads
		vmsgs := valid(rng)
		for _, u := range authMsgs {
			pm, _ := app.InterfaceRegistry().Resolve(u)
			zero := pm.(sdk.Msg)
			list := []sdk.Msg{zero}
			for _, vm := range vmsgs {
				if sdk.MsgTypeURL(vm) == u {
					list = append(list, vm)
				}
			}
			if _, fx := fxURL[u]; fx && it%4 != 0 {
				continue // the fx-core messages are swept by the correspondence stream above in every iteration
			}
			for _, m := range list {
				for _, c := range append(junk(rng), candidates(rng, m)[2:]...) {
					if foldEq(gov, c.val) {
						continue
					}
					setAuthority(m, c.val)
					err, panicked, changed := route(m)
					out.Stats.Evaluations++
					out.Count("mon:" + c.kind)
					out.Nontrivial(u + "|" + c.kind)
					if panicked != "" {
						out.Count("mon-panic:" + u)
						continue // panics are C20's subject; recovered by baseapp, state discarded
					}
					if err == nil {
						out.ViolateWith(fmt.Sprintf("privileged message %s took effect with non-governance authority kind=%s (%q)", u, c.kind, c.val),
							[]string{"# monitor: router.Handler(" + u + ") with Authority=" + fmt.Sprintf("%q", c.val) + " returned no error"})
					} else if len(changed) > 0 {
						out.Count("mon-rejected-after-writes:" + u)
					}
					// the same message delivered to the registered Msg server directly
					if sv, ok := servers[u]; ok {
						hctx, _ := base.CacheContext()
						var herr error
						hres := hx.Try(func() error { herr = direct(hctx, sv, sv.impl, m); return nil })
						out.Stats.Evaluations++
						out.Count("hmon:" + c.kind)
						if hres != "ok" {
							out.Count("hmon-panic:" + u)
						} else if d, dep := depImpl[msgKey(m)]; dep {
							// correspondence with the model of the regenerated dependency handler
							obs := "rejected"
							if herr == nil {
								obs = "past-guard"
							} else if ch := hx.DiffDump(baseDump, hx.DumpAll(hctx, keys)); len(ch) > 0 {
								obs = "rejected-but-changed:" + strings.Join(ch, ",")
							}
							out.Emit(fmt.Sprintf("dcall %s %s %s %s", d[0], d[1], hx.HexS(gov), dash(hx.HexS(c.val))), obs)
							out.Count("dcall:" + obs)
						}
						if hres == "ok" && herr == nil && !strings.EqualFold(gov, c.val) {
							out.ViolateWith(fmt.Sprintf("handler level: privileged message %s delivered directly to the registered Msg server %s took effect with non-governance authority kind=%s (%q)", u, sv.implType, c.kind, c.val),
								[]string{"# monitor: " + sv.service + "/" + sv.method.MethodName + " on " + sv.implType + " with Authority=" + fmt.Sprintf("%q", c.val) + " returned no error"})
						}
					}
				}
			}
		}
		// ---------------- raw store compare-and-set sequences, then proposals on the same scratch state
		cur := casSeq(s, out, rng, gov, junk(rng))
		propSeq(s, out, rng, gov, proposer, cur)
		// ---------------- who has to have signed: signed transactions through runTx, MsgExec, governance proposals
		{
			var cases []txCase
			pool := valid(rng)
			if it%4 == 3 {
				pool = append(pool, zeros()...)
			}
			for j := 0; j < 3; j++ {
				m := pool[(it*3+j)%len(pool)]
				setAuthority(m, gov)
				tc := txCase{m: m, payloadOk: true, chain: chainOf(m), lists: nonEmptyLists(m)}
				if v, ok := m.(sdk.HasValidateBasic); ok && v.ValidateBasic() != nil {
					tc.payloadOk = false
				}
				if tc.payloadOk {
					cctx, _ := s.Ctx.CacheContext()
					var gerr error
					if res := hx.Try(func() error { _, gerr = app.MsgServiceRouter().Handler(m)(cctx, m); return nil }); res == "ok" && gerr == nil {
						tc.govOk = 1
					}
				}
				cases = append(cases, tc)
			}
			other := authtypes.NewModuleAddress(moduleNames[it%len(moduleNames)]).String()
			if other == gov {
				other = authtypes.NewModuleAddress("erc20").String()
			}
			tw.txStream(rng, cases, junk(rng), other)
			tw.propStream(rng, cases[:2], junk(rng), other)
			// whole blocks: several of these transactions in one block through FinalizeBlock + Commit
			// (on a second app instance: after a Commit the pending block state has no block gas meter until the next
			// FinalizeBlock, so runTx outside a block — the tx / authz lines above — is only possible before the first one)
			tw2.blockStream(rng, cases, junk(rng), other)
			// round 5: blocks of multi-message, multi-signer transactions, MsgExec inside blocks (blkn lines)
			tw2.blockStreamN(rng, cases, junk(rng), other)
		}
	}
}

func govBz0() sdk.AccAddress { return authtypes.NewModuleAddress(govtypes.ModuleName) }

func cloneMsg(m sdk.Msg) sdk.Msg {
	bz, err := proto.Marshal(m)
	c, ok := reflect.New(reflect.TypeOf(m).Elem()).Interface().(sdk.Msg)
	if err != nil || !ok || proto.Unmarshal(bz, c) != nil {
		return nil
	}
	return c
}

// fieldPaths lists the settable fields of a message down to two levels of nested structs: dotted path -> accessor.
func fieldPaths(v reflect.Value, prefix string, depth int, f func(path string, fv reflect.Value)) {
	for i := 0; i < v.NumField(); i++ {
		sf := v.Type().Field(i)
		if sf.PkgPath != "" || (prefix == "" && sf.Name == "Authority") || strings.HasPrefix(sf.Name, "XXX_") {
			continue
		}
		fv := v.Field(i)
		f(prefix+sf.Name, fv)
		if fv.Kind() == reflect.Struct && depth < 2 {
			fieldPaths(fv, prefix+sf.Name+".", depth+1, f)
		}
	}
}

// nonEmptyLists: the dotted paths of the non-empty slice fields of a message, comma separated ("-" if none).
func nonEmptyLists(m sdk.Msg) string {
	var ps []string
	fieldPaths(reflect.ValueOf(m).Elem(), "", 0, func(path string, fv reflect.Value) {
		if fv.Kind() == reflect.Slice && fv.Type().Elem().Kind() != reflect.Uint8 && fv.Len() > 0 {
			ps = append(ps, path)
		}
	})
	sort.Strings(ps)
	if len(ps) == 0 {
		return "-"
	}
	return strings.Join(ps, ",")
}

// variants: copies of a valid payload with ONE field varied.
func variants(rng *rand.Rand, m sdk.Msg, pool []string, max int) []sdk.Msg {
	type edit struct {
		path string
		set  func(fv reflect.Value)
		list bool
	}
	var edits []edit
	fieldPaths(reflect.ValueOf(m).Elem(), "", 0, func(path string, fv reflect.Value) {
		switch fv.Kind() {
		case reflect.Slice:
			if fv.Type().Elem().Kind() == reflect.String {
				edits = append(edits, edit{path: path, set: func(x reflect.Value) { x.Set(reflect.Zero(x.Type())) }})
				for _, p := range pool {
					p := p
					edits = append(edits, edit{path: path, set: func(x reflect.Value) { x.Set(reflect.ValueOf([]string{p})) }})
				}
				for k := 0; k < 4; k++ {
					a, b := pool[rng.Intn(len(pool))], pool[rng.Intn(len(pool))]
					edits = append(edits, edit{path: path, set: func(x reflect.Value) { x.Set(reflect.ValueOf([]string{a, b})) }})
				}
			} else if fv.Len() > 0 {
				edits = append(edits, edit{path: path, set: func(x reflect.Value) { x.Set(reflect.AppendSlice(x, x)) }}) // entries twice
			}
		case reflect.String:
			for _, p := range pool {
				p := p
				edits = append(edits, edit{path: path, set: func(x reflect.Value) { x.SetString(p) }})
			}
		case reflect.Bool:
			edits = append(edits, edit{path: path, set: func(x reflect.Value) { x.SetBool(!x.Bool()) }})
		case reflect.Uint64, reflect.Uint32, reflect.Uint8:
			for _, n := range []uint64{0, 1, 2} {
				n := n
				edits = append(edits, edit{path: path, set: func(x reflect.Value) { x.SetUint(n) }})
			}
			edits = append(edits, edit{path: path, set: func(x reflect.Value) { x.SetUint(x.Uint() + 1) }})
		case reflect.Int64, reflect.Int32:
			for _, n := range []int64{0, 1} {
				n := n
				edits = append(edits, edit{path: path, set: func(x reflect.Value) { x.SetInt(n) }})
			}
			edits = append(edits, edit{path: path, set: func(x reflect.Value) { x.SetInt(x.Int() + 1) }})
		}
	})
	rng.Shuffle(len(edits), func(i, j int) { edits[i], edits[j] = edits[j], edits[i] })
	// the list edits first: they are the payload classes a handler-side entry validation distinguishes
	for i := range edits {
		fv := reflect.Value{}
		fieldPaths(reflect.ValueOf(m).Elem(), "", 0, func(path string, x reflect.Value) {
			if path == edits[i].path {
				fv = x
			}
		})
		edits[i].list = fv.IsValid() && fv.Kind() == reflect.Slice
	}
	sort.SliceStable(edits, func(i, j int) bool { return edits[i].list && !edits[j].list })
	if len(edits) > max {
		edits = edits[:max]
	}
	var out []sdk.Msg
	for _, e := range edits {
		c := cloneMsg(m)
		if c == nil {
			continue
		}
		var target reflect.Value
		fieldPaths(reflect.ValueOf(c).Elem(), "", 0, func(path string, fv reflect.Value) {
			if path == e.path {
				target = fv
			}
		})
		if target.IsValid() && target.CanSet() {
			func() {
				defer func() { _ = recover() }()
				e.set(target)
				out = append(out, c)
			}()
		}
	}
	return out
}

func isASCII(s string) bool {
	for i := 0; i < len(s); i++ {
		if s[i] >= 0x80 {
			return false
		}
	}
	return true
}

// mutate returns a spelling near the governance address: case changes, substitutions, truncations, other payloads.
func mutate(rng *rand.Rand, gov, prefix string, govBz []byte) string {
	r := []rune(gov)
	switch rng.Intn(15) {
	case 12: // 0x spellings: EIP-55, lower case, upper-case digits, of the governance bytes or of random ones
		bz := govBz
		if rng.Intn(3) == 0 {
			bz = make([]byte, 20)
			rng.Read(bz)
		}
		h := common.BytesToAddress(bz).Hex()
		switch rng.Intn(4) {
		case 0:
			return strings.ToLower(h)
		case 1:
			return "0X" + h[2:]
		case 2:
			return h[2:]
		}
		return h
	case 13: // a valid account address of another length that embeds the governance bytes
		pad := make([]byte, []int{1, 12, 12, 44, 235}[rng.Intn(5)])
		if rng.Intn(2) == 0 {
			rng.Read(pad)
		}
		bz := append(append([]byte{}, pad...), govBz...)
		if rng.Intn(3) == 0 {
			bz = append(append([]byte{}, govBz...), pad...)
		}
		a, err := sdk.Bech32ifyAddressBytes(prefix, bz)
		if err != nil {
			return gov
		}
		return a
	case 14: // bech32 of short / empty payloads under any prefix (the lenient decoder checks neither prefix nor length)
		bz := make([]byte, rng.Intn(3))
		rng.Read(bz)
		a, err := bech32.ConvertAndEncode([]string{prefix, "fx", "x"}[rng.Intn(3)], bz)
		if err != nil {
			return gov
		}
		return a
	case 0:
		return gov
	case 1:
		return strings.ToUpper(gov)
	case 2: // one letter upper-cased
		i := rng.Intn(len(r))
		r[i] = []rune(strings.ToUpper(string(r[i])))[0]
		return string(r)
	case 3: // one character replaced by another charset character (checksum breaks, or not a charset character)
		i := rng.Intn(len(r))
		r[i] = rune("qpzry9x8gf2tvdw0s3jn54khce6mua7lbio1"[rng.Intn(36)])
		return string(r)
	case 4:
		return gov[:rng.Intn(len(gov))]
	case 5:
		return gov + string(rune("qpzl1 "[rng.Intn(6)]))
	case 6: // non-ASCII look-alike
		i := rng.Intn(len(r))
		r[i] = []rune{'ſ', 'K', 'é', 'İ', 'ı', 'Σ'}[rng.Intn(6)]
		return string(r)
	case 7: // a valid address of another length / payload
		bz := make([]byte, []int{0, 1, 19, 20, 21, 32, 33, 255, 256}[rng.Intn(9)])
		rng.Read(bz)
		a, err := sdk.Bech32ifyAddressBytes(prefix, bz)
		if err != nil {
			return prefix + "1"
		}
		if rng.Intn(2) == 0 {
			return strings.ToUpper(a)
		}
		return a
	case 8: // other prefix, same bytes
		a, _ := sdk.Bech32ifyAddressBytes([]string{"fx", "cosmos", "fxvaloper", "x", prefix + "1"}[rng.Intn(5)], govBz)
		return a
	case 9: // whitespace
		return []string{" ", "\t", "", gov + "\n", " ", " " + gov}[rng.Intn(6)]
	case 10: // upper-case with one lower
		u := []rune(strings.ToUpper(gov))
		i := rng.Intn(len(u))
		u[i] = []rune(strings.ToLower(string(u[i])))[0]
		return string(u)
	default: // swap two characters
		i, j := rng.Intn(len(r)), rng.Intn(len(r))
		r[i], r[j] = r[j], r[i]
		return string(r)
	}
}

var casSpaces = []string{"erc20", "gov", "bank"}

func scratchDump(ctx sdk.Context, getKey func(string) *storetypes.KVStoreKey) string {
	var obs []string
	for _, sp := range casSpaces {
		for _, kv := range hx.RawPrefix(ctx, getKey(sp), []byte{0xFE}) {
			obs = append(obs, sp+"/"+hex.EncodeToString(kv[0])+"="+dash(hex.EncodeToString(kv[1])))
		}
	}
	sort.Strings(obs)
	if len(obs) == 0 {
		return "-"
	}
	return strings.Join(obs, ",")
}

type entryGen struct {
	ups   []fxgovtypes.UpdateStore
	parts []string
	casOk bool
	after map[string]string
}

// genEntries builds 1..4 entries over few keys of few spaces, biased to repeat a key and to state the value the key had
// at the START of the message (stale) as old value.
func genEntries(rng *rand.Rand, cur map[string]string) entryGen {
	g := entryGen{casOk: true, after: map[string]string{}}
	for k, v := range cur {
		g.after[k] = v
	}
	nEnt := 1 + rng.Intn(4)
	for j := 0; j < nEnt; j++ {
		space := casSpaces[rng.Intn(len(casSpaces))]
		if rng.Intn(3) > 0 {
			space = casSpaces[0]
		}
		key := hex.EncodeToString([]byte{0xFE, byte(rng.Intn(3))})
		if j > 0 && rng.Intn(2) == 0 { // same space and key as the previous entry
			space, key = g.ups[j-1].Space, g.ups[j-1].Key
		}
		spaceOk := true
		if rng.Intn(20) == 0 {
			space, spaceOk = "nosuchstore", false
		}
		id := space + "/" + key
		old := g.after[id]
		switch rng.Intn(12) {
		case 0:
			old = hex.EncodeToString([]byte{byte(rng.Intn(3))}) // probably wrong
		case 1:
			old = ""
		case 2, 3:
			old = cur[id] // value at the start of the message (stale if an earlier entry wrote the key)
		}
		val := hex.EncodeToString([]byte{byte(1 + rng.Intn(3))})
		if rng.Intn(6) == 0 {
			val = ""
		}
		if old != g.after[id] || !spaceOk {
			g.casOk = false
		}
		g.ups = append(g.ups, fxgovtypes.UpdateStore{Space: space, Key: key, OldValue: old, Value: val})
		g.parts = append(g.parts, fmt.Sprintf("%s:%s:%s:%s", space, key, dash(old), dash(val)))
		if g.casOk {
			g.after[id] = val
		}
	}
	return g
}

// casSeq drives MsgUpdateStore over scratch key ranges (prefix 0xFE of several stores), committing a message's writes
// only on success as baseapp does; observes the scratch ranges after the message and, after a failure, the handler's
// own context.
func casSeq(s *hx.Suite, out *hx.Out, rng *rand.Rand, gov string, junk []cand) map[string]string {
	app := s.App
	for _, sp := range casSpaces {
		k := app.GetKey(sp)
		for _, kv := range hx.RawPrefix(s.Ctx, k, []byte{0xFE}) {
			s.Ctx.KVStore(k).Delete(kv[0])
		}
	}
	out.Emit("casreset", "ok")
	cur := map[string]string{}
	steps := 4 + rng.Intn(6)
	for i := 0; i < steps; i++ {
		g := genEntries(rng, cur)
		auth, authKind := gov, "gov"
		switch rng.Intn(8) {
		case 0:
			auth, authKind = helpers.GenAccAddress().String(), "account"
		case 1:
			j := junk[rng.Intn(len(junk))]
			auth, authKind = j.val, j.kind
		case 2:
			auth, authKind = strings.ToUpper(gov), "GOV-upper"
		}
		m := &fxgovtypes.MsgUpdateStore{Authority: auth, UpdateStores: g.ups}
		cctx, write := s.Ctx.CacheContext()
		var err error
		res := hx.Try(func() error { _, err = app.MsgServiceRouter().Handler(m)(cctx, m); return nil })
		ctxDump := scratchDump(cctx, app.GetKey)
		if err == nil && res == "ok" {
			write()
		}
		r := "ok"
		if err != nil {
			r = "err"
		}
		if res != "ok" {
			r = "err" // a panic is recovered by baseapp and fails the message
			out.Count("cas-panic")
		}
		obs := r + " " + scratchDump(s.Ctx, app.GetKey)
		if r == "err" {
			obs += " ctx=" + ctxDump
		}
		if err == nil && res == "ok" {
			cur = g.after
		}
		out.Emit(fmt.Sprintf("cas %s %s %s", hx.HexS(gov), dash(hx.HexS(auth)), strings.Join(g.parts, " ")), obs)
		out.Count("cas:" + r + ":" + authKind)
		out.Nontrivial(fmt.Sprintf("cas|%s|%d|%s|%v", r, len(g.ups), authKind, g.casOk))
		if auth != gov && err == nil && res == "ok" {
			out.Violate("raw store update applied with a non-governance authority kind=" + authKind)
		}
		if !g.casOk && err == nil && res == "ok" {
			out.Violate("raw store update applied although an entry's stated old value differs from the value current when it is applied (or its store space is unknown)")
		}
	}
	_ = sdkmath.ZeroInt
	return cur
}

// propSeq submits governance proposals of 1..3 MsgUpdateStore messages, lets every validator vote yes and runs the
// real fx-core governance end-blocker after the voting period: all messages take effect, or none.
func propSeq(s *hx.Suite, out *hx.Out, rng *rand.Rand, gov string, proposer sdk.AccAddress, cur map[string]string) {
	app := s.App
	for round := 0; round < 2; round++ {
		nMsg := 1 + rng.Intn(3)
		var msgs []sdk.Msg
		var words []string
		allOk := true
		state := cur
		for i := 0; i < nMsg; i++ {
			g := genEntries(rng, state)
			if !allOk {
				g.casOk = false
			}
			msgs = append(msgs, &fxgovtypes.MsgUpdateStore{Authority: gov, UpdateStores: g.ups})
			words = append(words, "m "+hx.HexS(gov)+" "+strings.Join(g.parts, " "))
			if !g.casOk {
				allOk = false
			} else {
				state = g.after
			}
		}
		op := "prop " + hx.HexS(gov) + " " + strings.Join(words, " ")
		cctx, write := s.Ctx.CacheContext()
		params, err := app.GovKeeper.Params.Get(cctx)
		if err != nil {
			out.Emit(op, "no-params")
			return
		}
		var dep sdk.Coins
		for _, c := range params.MinDeposit {
			dep = dep.Add(sdk.NewCoin(c.Denom, c.Amount.MulRaw(100)))
		}
		sub, err := govv1.NewMsgSubmitProposal(msgs, dep, proposer.String(), "", "raw store update", "raw store update", false)
		if err != nil {
			out.Emit(op, "no-submit:"+strings.ReplaceAll(err.Error(), " ", "_"))
			return
		}
		pid, _ := app.GovKeeper.ProposalID.Peek(cctx)
		var serr error
		res := hx.Try(func() error { _, serr = app.MsgServiceRouter().Handler(sub)(cctx, sub); return nil })
		if serr != nil || res != "ok" {
			out.Emit(op, "submit-failed:"+strings.ReplaceAll(fmt.Sprint(serr, res), " ", "_"))
			out.Count("prop:submit-failed")
			return
		}
		vals, _ := app.StakingKeeper.GetBondedValidatorsByPower(cctx)
		for _, v := range vals {
			vb, _ := sdk.ValAddressFromBech32(v.GetOperator())
			_ = app.GovKeeper.AddVote(cctx, pid, sdk.AccAddress(vb), govv1.NewNonSplitVoteOption(govv1.OptionYes), "")
		}
		p, err := app.GovKeeper.Proposals.Get(cctx, pid)
		if err != nil || p.VotingEndTime == nil {
			out.Emit(op, "not-in-voting")
			out.Count("prop:not-in-voting")
			return
		}
		ectx := cctx.WithBlockTime(p.VotingEndTime.Add(time.Second))
		var eerr error
		res = hx.Try(func() error { eerr = fxgov.EndBlocker(ectx, app.GovKeeper); return nil })
		if eerr != nil || res != "ok" {
			out.Emit(op, "endblocker-failed:"+strings.ReplaceAll(fmt.Sprint(eerr, res), " ", "_"))
			out.Violate("governance end-blocker failed or panicked while executing a raw store update proposal: " + fmt.Sprint(eerr, res))
			return
		}
		p, _ = app.GovKeeper.Proposals.Get(cctx, pid)
		write()
		st := map[govv1.ProposalStatus]string{govv1.StatusPassed: "passed", govv1.StatusFailed: "failed", govv1.StatusRejected: "rejected"}[p.Status]
		if st == "" {
			st = p.Status.String()
		}
		dump := scratchDump(s.Ctx, app.GetKey)
		out.Emit(op, st+" "+dump)
		out.Count("prop:" + st)
		out.Nontrivial(fmt.Sprintf("prop|%s|%d", st, nMsg))
		if st == "passed" {
			if !allOk {
				out.Violate("a proposal of raw store updates passed execution although one of its entries states an old value that differs from the value current when it is applied")
			}
			cur = state
		} else if st == "failed" {
			// nothing of any message may remain
			want := map[string]string{}
			for k, v := range cur {
				want[k] = v
			}
			if dump != dumpOf(want) {
				out.Violate("a failed proposal of raw store updates left writes of its earlier messages/entries in the stores: " + dump + " vs " + dumpOf(want))
			}
		}
	}
}

func dumpOf(m map[string]string) string {
	var obs []string
	for k, v := range m {
		obs = append(obs, k+"="+dash(v))
	}
	sort.Strings(obs)
	if len(obs) == 0 {
		return "-"
	}
	return strings.Join(obs, ",")
}

func dash(s string) string {
	if s == "" {
		return "-"
	}
	return s
}
