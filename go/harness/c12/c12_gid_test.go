package c12

// C12 round 5 follow-up — class *gravity-id change after the object exists*: a batch / bridge call / oracle set is created
// through the REAL builders (BuildOutgoingTxBatch, BuildOutgoingBridgeCall + AddOutgoingBridgeCallWithoutBuild,
// GetCurrentOracleSet + AddOracleSetRequest), then the chain's gravity id is changed through the REAL MsgUpdateParams (message
// router, governance authority), then for every object:
//   * a confirm carrying the oracle's signature over the digest the bridge contract recomputed BEFORE the change must be refused
//     ("signatures for one chain id are never valid for another");
//   * the honest confirm over the digest the contract recomputes NOW (recomputed independently of the code under test) must be
//     accepted ("the checkpoint fxcore signs over is the digest the contract recomputes").
// The whole history runs on a branch of the state that is dropped afterwards and emits no op lines (monitors only): anything the
// code remembers about an object from the time it was built (a stored or cached checkpoint, a cached gravity id) shows here.

import (
	"bytes"
	"encoding/hex"
	"fmt"

	sdkmath "cosmossdk.io/math"
	authtypes "github.com/cosmos/cosmos-sdk/x/auth/types"
	govtypes "github.com/cosmos/cosmos-sdk/x/gov/types"
	"github.com/ethereum/go-ethereum/common"

	"github.com/functionx/fx-core/v8/testutil/helpers"
	"github.com/functionx/fx-core/v8/x/crosschain/types"

	"fxverif/harness/hx"
)

func (h *hCtx) gidChange(c *chainT) {
	rng := h.rng
	saved, savedGid := h.ctx, c.gid
	defer func() { h.ctx, c.gid = saved, savedGid }()
	bctx, _ := h.ctx.CacheContext()
	style := map[bool]string{true: "tron", false: "eth-style"}[c.tron]
	// an oracle whose registry entries agree (index -> record with this external address)
	var or *oracleT
	bridger := ""
	for _, o := range c.oracles {
		if oa, found := c.k.GetOracleAddrByExternalAddr(bctx, o.ext); found {
			if rec, found := c.k.GetOracle(bctx, oa); found && rec.ExternalAddress == o.ext && oa.Equals(o.addr) {
				or, bridger = o, rec.BridgerAddress
				break
			}
		}
	}
	if or == nil {
		h.out.Count("gid-change:no-consistent-oracle")
		return
	}
	// an ordinary environment for the builders
	p := c.k.GetParams(bctx)
	p.AverageBlockTime, p.AverageExternalBlockTime = 7000, 12000
	p.ExternalBatchTimeout, p.BridgeCallTimeout = 43200000, 604800000
	if err := c.k.SetParams(bctx, &p); err != nil {
		h.out.Count("gid-change:params-rejected")
		return
	}
	height := int64(20_000_000 + rng.Intn(1_000_000))
	c.k.SetLastObservedBlockHeight(bctx, 5_000_000, uint64(height-10))
	bctx = bctx.WithBlockHeight(height)
	h.ctx = bctx
	h.setCounter(c, types.KeyLastOutgoingBatchID, uint64(7_000_000+rng.Intn(1_000_000)))
	h.setCounter(c, types.KeyLastBridgeCallID, uint64(7_000_000+rng.Intn(1_000_000)))
	var objs []keyT
	// batch: the real builder
	{
		tb := make([]byte, 20)
		rng.Read(tb)
		token := c.addrStr(tb)
		ok := true
		for j := 0; j < 1+rng.Intn(3); j++ {
			tx := &types.OutgoingTransferTx{Id: 1<<41 + uint64(rng.Int63n(1<<30)), Sender: helpers.GenAccAddress().String(), DestAddress: c.addrStr(genAddr20(rng)),
				Token: types.ERC20Token{Contract: token, Amount: genAmount(rng)}, Fee: types.ERC20Token{Contract: token, Amount: sdkmath.NewInt(int64(1 + rng.Intn(1000)))}}
			if err := c.k.AddUnbatchedTx(bctx, tx); err != nil {
				ok = false
			}
		}
		if ok {
			var b *types.OutgoingTxBatch
			res := hx.Try(func() error {
				var err error
				b, err = c.k.BuildOutgoingTxBatch(bctx, token, c.addrStr(genAddr20(rng)), 100, sdkmath.ZeroInt(), sdkmath.ZeroInt())
				return err
			})
			if res == "ok" && b != nil {
				objs = append(objs, keyT{"batch", token, b.BatchNonce})
			} else {
				h.out.Count("gid-change:batch-build-failed")
			}
		}
	}
	// bridge call: the real builder
	{
		var toks []types.ERC20Token
		for j := genLen(rng, 4); j > 0; j-- {
			toks = append(toks, types.ERC20Token{Contract: c.addrStr(genAddr20(rng)), Amount: genAmount(rng)})
		}
		var bc *types.OutgoingBridgeCall
		res := hx.Try(func() error {
			var err error
			bc, err = c.k.BuildOutgoingBridgeCall(bctx, common.BytesToAddress(genAddr20(rng)), common.BytesToAddress(genAddr20(rng)), toks,
				common.BytesToAddress(genAddr20(rng)), genBytes(rng, 100), genBytes(rng, 50), genSafeU64(rng))
			if err == nil {
				c.k.AddOutgoingBridgeCallWithoutBuild(bctx, bc)
			}
			return err
		})
		if res == "ok" && bc != nil {
			objs = append(objs, keyT{"bcall", "", bc.Nonce})
		} else {
			h.out.Count("gid-change:bcall-build-failed")
		}
	}
	// oracle set: the real request path when the chain has powered oracles, else a stored set
	{
		var os *types.OracleSet
		res := hx.Try(func() error {
			os = c.k.GetCurrentOracleSet(bctx)
			if c.k.GetOracleSet(bctx, os.Nonce) != nil {
				os = nil // the nonce is taken by a hand-stored set of this sequence: the request would replace it
				return nil
			}
			if len(os.Members) > 0 {
				c.k.AddOracleSetRequest(bctx, os)
			}
			return nil
		})
		if res == "ok" && os != nil && len(os.Members) > 0 && os.Nonce < 1<<63 {
			objs = append(objs, keyT{"oset", "", os.Nonce})
			h.out.Count("gid-change:oset-via-request")
		} else {
			n := uint64(8_000_000 + rng.Intn(1_000_000))
			if c.k.GetOracleSet(bctx, n) == nil {
				c.k.StoreOracleSet(bctx, h.genOracleSet(c, n, true))
				objs = append(objs, keyT{"oset", "", n})
				h.out.Count("gid-change:oset-stored")
			}
		}
	}
	// digests under the id the chain has now
	oldD := map[string][]byte{}
	for _, k := range objs {
		oldD[k.str()] = h.liveDigest(c, k.kind, k.token, k.nonce)
	}
	// the REAL parameter update
	newGid := genGid(rng)
	var oldW, newW [32]byte
	copy(oldW[:], savedGid)
	copy(newW[:], newGid)
	if oldW == newW {
		h.out.Count("gid-change:same-word")
		return
	}
	p2 := c.k.GetParams(bctx)
	p2.GravityId = newGid
	upd := &types.MsgUpdateParams{ChainName: c.name, Authority: authtypes.NewModuleAddress(govtypes.ModuleName).String(), Params: p2}
	if res := hx.Try(func() error {
		if err := upd.ValidateBasic(); err != nil {
			return err
		}
		_, err := h.s.App.MsgServiceRouter().Handler(upd)(bctx, upd)
		return err
	}); res != "ok" {
		h.out.Count("gid-change:update-params-rejected")
		return
	}
	c.gid = newGid
	if got := c.k.GetParams(bctx).GravityId; got != newGid {
		h.out.Violate("MsgUpdateParams was accepted but the chain's gravity-id parameter did not change")
		return
	}
	deliver := func(k keyT, digest []byte, write bool) string {
		msg := h.mkMsg(c, k, bridger, or.ext, hex.EncodeToString(c.sign(digest, or.key)))
		cctx, w := bctx.CacheContext()
		res := hx.Try(func() error {
			_, err := h.s.App.MsgServiceRouter().Handler(msg)(cctx, msg)
			return err
		})
		if res == "ok" && write {
			w()
		}
		if res != "ok" && len(res) > 4 {
			return errKind(fmt.Errorf("%s", res[4:]))
		}
		return res
	}
	for _, k := range objs {
		od := oldD[k.str()]
		nd := h.liveDigest(c, k.kind, k.token, k.nonce)
		if od == nil || nd == nil {
			h.out.Count("gid-change:no-digest:" + k.kind)
			continue
		}
		already := false
		switch k.kind {
		case "oset":
			already = c.k.GetOracleSetConfirm(bctx, k.nonce, or.addr) != nil
		case "batch":
			already = c.k.GetBatchConfirm(bctx, k.token, k.nonce, or.addr) != nil
		default:
			already = c.k.HasBridgeCallConfirm(bctx, k.nonce, or.addr)
		}
		if already {
			h.out.Count("gid-change:already-confirmed:" + k.kind)
			continue
		}
		if bytes.Equal(od, nd) {
			h.out.Violate(fmt.Sprintf("the digest the bridge contract recomputes for a %s did not change with the gravity id", k.kind))
			continue
		}
		rOld := deliver(k, od, false)
		rNew := deliver(k, nd, true)
		h.out.Count(fmt.Sprintf("gid-change:%s:%s:old=%s:new=%s", k.kind, style, rOld, rNew))
		h.out.Nontrivial("gid-change|" + k.kind + "|" + style + "|" + rOld + "|" + rNew)
		if rOld == "ok" {
			h.out.Violate(fmt.Sprintf("a %s confirm carrying the oracle's signature over the checkpoint under the gravity id the %s chain had BEFORE its parameters were changed (MsgUpdateParams after the object was built) was accepted: a signature for one chain id is valid for another", k.kind, style))
		}
		if rNew != "ok" {
			h.out.Violate(fmt.Sprintf("after a gravity-id change through MsgUpdateParams the honest %s confirm over the digest the bridge contract recomputes under the chain's CURRENT gravity id was refused (%s) on the %s chain: the handler verifies against a checkpoint remembered from before the change", k.kind, rNew, style))
		}
	}
	h.out.Count("gid-change")
}
