package c12

// C12 round 5:
//   * op `vbasic`: the real `ValidateBasic` of every confirm message the other streams send, and of a dedicated malformed
//     stream (bad chain name / bech32 / external address and token contract spellings / signature texts), against the model's
//     interpretation of the regenerated check list; the dependency predicates (router membership, bech32, address validity)
//     are evaluated by the harness's OWN checks (regex + go-ethereum EIP-55 rendering, gotron base58 round trip, the SDK's
//     bech32 decoder), not by the code under test;
//   * branches of the state: an object is created and honestly confirmed on a branch (`CacheContext`: a failed multi-message
//     transaction, CheckTx, a simulation) that is then DISCARDED; a different object is stored under the same key on the
//     surviving state and honestly confirmed; the signature made for the branch object is presented against it;
//   * half-stored batch: `StoreBatch` writes the batch under its key BEFORE the one-batch-per-block check — a second build in
//     the same block fails with the batch already written on that branch; the branch is dropped (as baseapp drops the message's
//     cache) and nothing of it may be left: no batch under the key, counter unchanged, an honest confirm naming it rejected.

import (
	"encoding/hex"
	"fmt"
	"regexp"
	"strings"

	sdkmath "cosmossdk.io/math"
	sdk "github.com/cosmos/cosmos-sdk/types"
	"github.com/ethereum/go-ethereum/common"
	tronaddress "github.com/fbsobreira/gotron-sdk/pkg/address"

	"github.com/functionx/fx-core/v8/testutil/helpers"
	"github.com/functionx/fx-core/v8/x/crosschain/types"

	"fxverif/harness/hx"
)

var ownEthRe = regexp.MustCompile("^0x[0-9a-fA-F]{40}$")

// ownExtOk: is the text the canonical spelling of an address of the chain's style (harness's own check)
func ownExtOk(tron bool, s string) bool {
	if tron {
		a, err := tronaddress.Base58ToAddress(s)
		return err == nil && len(s) == 34 && len(a) == 21 && a.String() == s
	}
	return ownEthRe.MatchString(s) && common.HexToAddress(s).Hex() == s
}

func ownBech32Ok(s string) bool {
	if strings.TrimSpace(s) == "" {
		return false
	}
	b, err := sdk.GetFromBech32(s, sdk.GetConfig().GetBech32AccountAddrPrefix())
	return err == nil && sdk.VerifyAddressFormat(b) == nil
}

func bit(b bool) string {
	if b {
		return "1"
	}
	return "0"
}

var chainStyles = map[string]bool{"eth": false, "bsc": false, "polygon": false, "avalanche": false, "arbitrum": false, "optimism": false, "layer2": false, "tron": true}

// emitVBasic: op `vbasic <kind> <registered> <bech32 ok> <external ok> <token ok|-> <sig hex|!|->`, observation `ok` or
// `rej:<head of the error text>`
func (h *hCtx) emitVBasic(chainName string, k keyT, bridger, ext, sigText string) {
	tron, reg := chainStyles[chainName]
	tokOk := "-"
	if k.kind == "batch" {
		tokOk = bit(reg && ownExtOk(tron, k.token))
	}
	sigField := "-"
	if sigText != "" {
		if b, err := hex.DecodeString(sigText); err != nil {
			sigField = "!"
		} else {
			sigField = hex.EncodeToString(b)
		}
	}
	var msg interface{ ValidateBasic() error }
	switch k.kind {
	case "oset":
		msg = &types.MsgOracleSetConfirm{Nonce: k.nonce, BridgerAddress: bridger, ExternalAddress: ext, Signature: sigText, ChainName: chainName}
	case "batch":
		msg = &types.MsgConfirmBatch{Nonce: k.nonce, TokenContract: k.token, BridgerAddress: bridger, ExternalAddress: ext, Signature: sigText, ChainName: chainName}
	default:
		msg = &types.MsgBridgeCallConfirm{Nonce: k.nonce, BridgerAddress: bridger, ExternalAddress: ext, Signature: sigText, ChainName: chainName}
	}
	obs := "ok"
	var err error
	if res := hx.Try(func() error { err = msg.ValidateBasic(); return err }); res != "ok" && err == nil {
		obs = res // a panic
	} else if err != nil {
		head := err.Error()
		if i := strings.IndexByte(head, ':'); i >= 0 {
			head = head[:i]
		}
		obs = "rej:" + strings.ReplaceAll(strings.TrimSpace(head), " ", "-")
	}
	h.out.Emit(fmt.Sprintf("vbasic %s %s %s %s %s %s", k.kind, bit(reg), bit(ownBech32Ok(bridger)), bit(reg && ownExtOk(tron, ext)), tokOk, sigField), obs)
	h.out.Count("vbasic:" + k.kind + ":" + obs)
}

// vbStream: malformed and boundary confirm messages, `ValidateBasic` only
func (h *hCtx) vbStream(c *chainT) {
	rng := h.rng
	if len(c.oracles) == 0 {
		return
	}
	or := c.oracles[rng.Intn(len(c.oracles))]
	goodExt := c.addrStr(genAddr20(rng))
	goodTok := c.addrStr(c.tokens[rng.Intn(2)])
	otherStyle := "TXYZopYRdj2D9XRtbG411XZZ3kM5VkAeBf"
	if c.tron {
		otherStyle = common.BytesToAddress(genAddr20(rng)).Hex()
	}
	mutAddr := func(s string) string {
		if len(s) < 10 {
			return "0x"
		}
		switch rng.Intn(8) {
		case 0:
			return strings.ToLower(s)
		case 1:
			return strings.ToUpper(s)
		case 2:
			return strings.TrimPrefix(s, "0x")
		case 3:
			return s[:len(s)-1]
		case 4:
			return s + "0"
		case 5:
			return ""
		case 6:
			return otherStyle
		default:
			return " " + s
		}
	}
	mutBech := func(s string) string {
		if len(s) < 10 {
			return "fx1"
		}
		switch rng.Intn(6) {
		case 0:
			return ""
		case 1:
			return strings.ToUpper(s) // bech32 admits all-upper-case
		case 2:
			return s[:len(s)-1] + "q"
		case 3:
			return "cosmos1" + s[3:]
		case 4:
			return sdk.AccAddress(make([]byte, 20)).String()
		default:
			return s + " "
		}
	}
	sigs := []string{"", "zz", "abc", "00", strings.Repeat("ab", 65), strings.Repeat("AB", 65), "0x" + strings.Repeat("ab", 65), strings.Repeat("ab", 66)}
	for i := 0; i < 12; i++ {
		kind := []string{"oset", "batch", "bcall"}[rng.Intn(3)]
		k := keyT{kind: kind, nonce: uint64(rng.Intn(5))}
		if kind == "batch" {
			k.token = goodTok
		}
		chain, bridger, ext, sig := c.name, or.bridger.String(), goodExt, sigs[4]
		// one field wrong (sometimes two): the FIRST failing check in source order must be the one reported
		for n := 1 + rng.Intn(2); n > 0; n-- {
			switch rng.Intn(5) {
			case 0:
				chain = []string{"", "nochain", "ETH", "eth ", "crosschain"}[rng.Intn(5)]
			case 1:
				bridger = mutBech(bridger)
			case 2:
				ext = mutAddr(goodExt)
			case 3:
				if kind == "batch" {
					k.token = mutAddr(goodTok)
				} else {
					sig = sigs[rng.Intn(len(sigs))]
				}
			default:
				sig = sigs[rng.Intn(len(sigs))]
			}
		}
		h.emitVBasic(chain, k, bridger, ext, sig)
	}
	h.out.Count("vbstream")
}

// honest sends the confirm of oracle `or` over object `o` with the oracle's genuine signature
func (h *hCtx) honest(c *chainT, o *objT, or *oracleT, class string) {
	bridger := or.bridger.String()
	if rec, found := c.k.GetOracle(h.ctx, or.addr); found {
		bridger = rec.BridgerAddress
	}
	h.sendConfirm(c, o.key(), bridger, or.ext, hex.EncodeToString(c.sign(o.digest, or.key)), o.digest, class)
}

func (h *hCtx) storeOfKind(c *chainT, kind string, tok []byte, nonce uint64) *objT {
	switch kind {
	case "oset":
		return h.storeOracleSet(c, nonce, true)
	case "batch":
		return h.storeBatch(c, tok, nonce, true)
	default:
		return h.storeBridgeCall(c, nonce, true)
	}
}

// discardedBranch: see the header
func (h *hCtx) discardedBranch(c *chainT) {
	rng := h.rng
	if len(c.oracles) == 0 {
		return
	}
	kind := []string{"oset", "batch", "bcall"}[rng.Intn(3)]
	nonce := uint64(3_000_000 + rng.Intn(1_000_000))
	tok := c.tokens[rng.Intn(2)]
	tokS := ""
	if kind == "batch" {
		tokS = c.addrStr(tok)
	}
	if c.has(kind, tokS, nonce) {
		return
	}
	or := c.oracles[rng.Intn(len(c.oracles))]
	saved := h.ctx
	nObjs, blockNo, txID := len(c.objs), c.blockNo, c.txID
	bctx, write := h.ctx.CacheContext()
	h.ctx = bctx
	h.out.Emit("branch", "ok")
	o1 := h.storeOfKind(c, kind, tok, nonce)
	if o1 == nil || o1.digest == nil {
		h.ctx = saved
		h.out.Emit("discard", "ok")
		return
	}
	h.honest(c, o1, or, "on-branch")
	k := o1.key()
	if rng.Intn(6) == 0 {
		// the branch is kept after all (a successful transaction): everything on it is part of the state
		write()
		h.ctx = saved
		h.out.Emit("commit", "ok")
		h.out.Count("branch:committed")
		if h.liveDigest(c, k.kind, k.token, k.nonce) == nil {
			h.out.Violate(fmt.Sprintf("a %s stored on a branch of the state that was committed is not stored afterwards", kind))
		}
		return
	}
	// discard: harness bookkeeping back to the state before the branch
	h.ctx = saved
	c.objs = c.objs[:nObjs]
	delete(c.ledger, o1.keyStr())
	c.blockNo, c.txID = blockNo, txID
	h.out.Emit("discard", "ok")
	h.out.Count("branch:discarded:" + kind)
	if h.liveDigest(c, k.kind, k.token, k.nonce) != nil {
		h.out.Violate(fmt.Sprintf("a %s stored on a branch of the state that was discarded is still stored", kind))
	}
	for _, e := range h.scanAll(c) {
		if e.key == k {
			h.out.Violate(fmt.Sprintf("a %s confirm accepted on a branch of the state that was discarded is still stored", kind))
		}
	}
	// a confirm naming the discarded object: nothing is stored under the key now
	h.honest(c, o1, or, "discarded-object")
	// a DIFFERENT object under the same key on the surviving state, honestly confirmed; then the signature made for the branch
	// object by another (or the same) oracle presented against it
	o2 := h.storeOfKind(c, kind, tok, nonce)
	if o2 == nil || o2.digest == nil {
		return
	}
	or2 := c.oracles[rng.Intn(len(c.oracles))]
	first, second := or, or2
	if rng.Intn(2) == 0 {
		first, second = or2, or
	}
	h.honest(c, o2, first, "after-discarded-branch")
	bridger2 := second.bridger.String()
	if rec, found := c.k.GetOracle(h.ctx, second.addr); found {
		bridger2 = rec.BridgerAddress
	}
	h.sendConfirm(c, o2.key(), bridger2, second.ext, hex.EncodeToString(c.sign(o1.digest, second.key)), o1.digest, "discarded-object-sig")
	h.honest(c, o2, second, "after-discarded-branch")
}

// halfStoredBatch: a second real BuildOutgoingTxBatch at a block height that already has a batch
func (h *hCtx) halfStoredBatch(c *chainT, height int64) {
	rng := h.rng
	if len(c.oracles) == 0 {
		return
	}
	cur, set := h.readCounter(c, types.KeyLastOutgoingBatchID)
	if !set || cur >= 1<<63 {
		return
	}
	tb := make([]byte, 20)
	rng.Read(tb)
	token := c.addrStr(tb)
	bctx, _ := h.ctx.CacheContext()
	bctx = bctx.WithBlockHeight(height)
	for j := 0; j < 2; j++ {
		tx := &types.OutgoingTransferTx{Id: 1<<40 + uint64(rng.Int63n(1<<30)), Sender: helpers.GenAccAddress().String(), DestAddress: c.addrStr(genAddr20(rng)),
			Token: types.ERC20Token{Contract: token, Amount: genAmount(rng)}, Fee: types.ERC20Token{Contract: token, Amount: sdkmath.NewInt(int64(1 + rng.Intn(1000)))}}
		if err := c.k.AddUnbatchedTx(bctx, tx); err != nil {
			return
		}
	}
	_, err := c.k.BuildOutgoingTxBatch(bctx, token, c.addrStr(genAddr20(rng)), 100, sdkmath.ZeroInt(), sdkmath.ZeroInt())
	if err == nil {
		h.out.Count("half-stored-batch:second-build-accepted")
		return // the branch is dropped anyway
	}
	if !strings.Contains(err.Error(), "has batch request") {
		h.out.Count("half-stored-batch:other-error")
		return
	}
	// observation (in-keeper, on the failing branch): the batch is already written under its key when the check fails
	if c.k.GetOutgoingTxBatch(bctx, token, cur) != nil {
		h.out.Count("half-stored-batch:written-on-failing-branch")
	} else {
		h.out.Count("half-stored-batch:not-written-on-failing-branch")
	}
	// the failing message's branch is dropped (baseapp runMsgs / the precompile's snapshot revert): nothing may be left
	if c.k.GetOutgoingTxBatch(h.ctx, token, cur) != nil {
		h.out.Violate("a batch build that failed at the one-batch-per-block check left the batch stored under its key after its branch of the state was dropped")
	}
	if after, _ := h.readCounter(c, types.KeyLastOutgoingBatchID); after != cur {
		h.out.Violate("a batch build that failed at the one-batch-per-block check advanced the batch id counter after its branch of the state was dropped")
	}
	// an honest-looking confirm naming the key of the half-stored batch: no such object
	or := c.oracles[rng.Intn(len(c.oracles))]
	d := make([]byte, 32)
	rng.Read(d)
	h.sendConfirm(c, keyT{"batch", token, cur}, or.bridger.String(), or.ext, hex.EncodeToString(c.sign(d, or.key)), d, "half-stored-batch")
}

// aliasPair: objects of one kind whose nonces agree in all but one byte (n, n + 2^8k) and a direct neighbour, all honestly
// confirmed by the SAME oracle — a store key that drops or truncates part of the nonce files them under one key (the second
// honest confirm is then a "duplicate", or replaces the first)
func (h *hCtx) aliasPair(c *chainT) {
	rng := h.rng
	if len(c.oracles) == 0 {
		return
	}
	kind := []string{"oset", "batch", "bcall"}[rng.Intn(3)]
	tok := c.tokens[rng.Intn(2)]
	tokS := ""
	if kind == "batch" {
		tokS = c.addrStr(tok)
	}
	base := uint64(5_000_000 + rng.Intn(1_000_000))
	shift := uint([]int{8, 16, 24, 32, 40, 48, 56}[rng.Intn(7)])
	or := c.oracles[rng.Intn(len(c.oracles))]
	for _, n := range []uint64{base, base + 1<<shift, base + 1} {
		if n >= 1<<63 || c.has(kind, tokS, n) {
			continue
		}
		if o := h.storeOfKind(c, kind, tok, n); o != nil && o.digest != nil {
			h.honest(c, o, or, "alias-pair")
		}
	}
	h.out.Count(fmt.Sprintf("alias-pair:%s:shift=%d", kind, shift))
}
