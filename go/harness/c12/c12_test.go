package c12

// C12 correspondence + monitors, all against the REAL code of the full in-process app (hx.NewSuite):
//
//  * checkpoint stream: random oracle sets / batches / bridge calls (empty and long member / transfer / token lists,
//    long data and memo, boundary numbers 0, 2^63-1, 2^63, 2^64-1, amounts up to 2^256-1, random gravity ids) are
//    stored through the real keepers of an eth-style chain, a second eth-style chain and tron; the observation is the
//    real `GetCheckpoint` (eth) / `trontypes.GetCheckpoint*` (tron); the Lean driver answers Keccak-256 of the ABI
//    pre-image it builds from the regenerated Go / tron layout, and whether that pre-image equals the Solidity one;
//  * confirm stream: real secp256k1 external keys, oracles bonded through the real MsgBondedOracle (plus registry
//    states written directly: dangling / mismatching index entries, lower-case external address); confirms through the
//    real message router with valid signatures, v+27, malleated (s -> n-s), bad v, truncated / over-long / zero
//    signatures, signatures over another object / nonce / gravity id / chain prefix, by another oracle's key, by the
//    wrong bridger, for unknown external addresses, missing objects, non-hex text, duplicates; observation = result
//    kind + the confirms stored for the object;
//  * monitors on the real state after every confirm: every stored confirm re-verifies (go-ethereum SigToPub over the
//    prefixed real checkpoint of the real stored object) under the external address registered for the oracle it is
//    stored under, and carries that oracle's bridger; an accepted confirm adds exactly one entry, a rejected one
//    changes nothing (so no confirm is ever replaced: one per oracle and object);
//  * transaction stream (real signed txs through FinalizeBlock): a confirm signed by an account that is not the
//    oracle's bridger (directly, or wrapped in MsgConfirm) must not store anything;
//  * one-coordinate-wrong confirms for every confirm type: right in everything but the token contract (another live
//    batch's token, a fresh one, another spelling of the same address), the nonce (a neighbouring live object, +-1), the
//    chain (delivered to another chain that may hold an object with the same key, the same content, the same gravity id
//    and an oracle with the same key), the external address / bridger of another oracle, the signed object (a neighbour),
//    an object that never existed / was pruned; clusters of neighbouring objects (same nonce across kinds and tokens,
//    consecutive nonces, twins on a second chain) make each of them meaningful;
//  * pruning through the real sites (OutgoingTxBatchExecuted incl. the batches it cancels, CancelOutgoingTxBatch, the
//    DeleteOracleSet+DeleteOracleSetConfirm pair of pruneOracleSet, DeleteOutgoingBridgeCallRecord), bridger changes
//    through the real MsgEditBridger, offline oracles;
//  * WHOLE-STORE monitors: after every message the three confirm stores of the chain are scanned: a rejected message
//    changes nothing anywhere; an accepted one adds exactly one entry, filed under exactly the key the message names
//    (kind, token contract, nonce) and the oracle its external address is registered to; that key names an object that is
//    stored; the entry's signature verifies (own recovery) under that oracle's registered external key over the checkpoint
//    recomputed from the object READ BACK from the real store under that key; at the end of every sequence every entry of
//    every store is re-verified against the object that was stored under its key.

import (
	"bytes"
	"crypto/ecdsa"
	"encoding/hex"
	"encoding/json"
	"fmt"
	"math/big"
	"math/rand"
	"os"
	"sort"
	"strings"
	"testing"

	sdkmath "cosmossdk.io/math"
	abci "github.com/cometbft/cometbft/abci/types"
	tmtime "github.com/cometbft/cometbft/types/time"
	codectypes "github.com/cosmos/cosmos-sdk/codec/types"
	simtestutil "github.com/cosmos/cosmos-sdk/testutil/sims"
	sdk "github.com/cosmos/cosmos-sdk/types"
	"github.com/ethereum/go-ethereum/accounts/abi"
	"github.com/ethereum/go-ethereum/common"
	"github.com/ethereum/go-ethereum/core/vm"
	"github.com/ethereum/go-ethereum/crypto"
	tronaddress "github.com/fbsobreira/gotron-sdk/pkg/address"

	"github.com/functionx/fx-core/v8/testutil/helpers"
	fxtypes "github.com/functionx/fx-core/v8/types"
	crosschainkeeper "github.com/functionx/fx-core/v8/x/crosschain/keeper"
	"github.com/functionx/fx-core/v8/x/crosschain/types"
	trontypes "github.com/functionx/fx-core/v8/x/tron/types"

	"fxverif/harness/hx"
)

var secpN, _ = new(big.Int).SetString("fffffffffffffffffffffffffffffffebaaedce6af48a03bbfd25e8cd0364141", 16)

type oracleT struct {
	id      int
	addr    sdk.AccAddress
	bridger sdk.AccAddress
	key     *ecdsa.PrivateKey
	ext     string // as registered
}

type objT struct {
	kind    string // oset | batch | bcall
	nonce   uint64
	token   string // batch only
	cp      func(gid string) ([]byte, error)
	digest  []byte
	sol     map[string]any // values the relayer submits, by canonical contract parameter name
	removed bool
	proto   any // the stored proto object (to store a twin on another eth-style chain)
	indep   bool   // digest was recomputed independently of the code under test (go-ethereum ABI packer over the Solidity argument list)
	eq      string // "eq": all uint64 fields fit an int64 (Go bytes = Solidity bytes), "ne" otherwise
}

func (o *objT) keyStr() string { return fmt.Sprintf("%s/%s/%d", o.kind, o.token, o.nonce) }

type chainT struct {
	name    string
	tron    bool
	k       crosschainkeeper.Keeper
	gid     string
	oracles []*oracleT
	objs    []*objT          // live objects
	gone    []*objT          // removed objects
	ledger  map[string]*objT // every object ever stored, by key
	accRec  map[string]types.Oracle // oracle record at the time a confirm was accepted, by store key
	tokens  [][]byte
	blockNo uint64
	txID    uint64
	freeBridgers []sdk.AccAddress // bridger accounts oracles of this chain held earlier
	noModel bool // a history built through the real handlers only (no op lines): monitors only
}

func (c *chainT) addrStr(b []byte) string { return types.ExternalAddrToStr(c.name, b) }

func (c *chainT) prefix() []byte {
	if c.tron {
		return []byte("\x19TRON Signed Message:\n32")
	}
	return []byte("\x19Ethereum Signed Message:\n32")
}

func (c *chainT) sign(digest []byte, key *ecdsa.PrivateKey) []byte {
	h := crypto.Keccak256(append(append([]byte{}, c.prefix()...), digest...))
	sig, err := crypto.Sign(h, key)
	if err != nil {
		panic(err)
	}
	return sig
}

// recoverOwn is the harness's own signature recovery (independent of x/crosschain/types/eth_signer.go): 65 bytes,
// v in {0,1,27,28}, keccak(prefix ++ digest), go-ethereum SigToPub, address text of the chain.
func (c *chainT) recoverOwn(digest, sig []byte) string {
	if len(sig) != 65 {
		return "-"
	}
	s := append([]byte{}, sig...)
	if s[64] == 27 || s[64] == 28 {
		s[64] -= 27
	}
	h := crypto.Keccak256(append(append([]byte{}, c.prefix()...), digest...))
	pub, err := crypto.SigToPub(h, s)
	if err != nil {
		return "-"
	}
	return c.addrStr(crypto.PubkeyToAddress(*pub).Bytes())
}

func addr20Hex(c *chainT, s string) string {
	if c.tron {
		a, err := tronaddress.Base58ToAddress(s)
		if err != nil || len(a) != 21 {
			panic("bad tron address " + s)
		}
		return hex.EncodeToString(a[1:])
	}
	return hex.EncodeToString(common.HexToAddress(s).Bytes())
}

// ---- generators --------------------------------------------------------------------------------------------------

func genU64(rng *rand.Rand) uint64 {
	switch rng.Intn(10) {
	case 0:
		return 0
	case 1:
		return 1<<63 - 1
	case 2:
		return 1 << 63
	case 3:
		return 1<<64 - 1
	case 4:
		return rng.Uint64()
	default:
		return uint64(rng.Intn(100000))
	}
}

func genSafeU64(rng *rand.Rand) uint64 {
	switch rng.Intn(6) {
	case 0:
		return 0
	case 1:
		return 1<<63 - 1
	default:
		return uint64(rng.Intn(100000))
	}
}

func genAmount(rng *rand.Rand) sdkmath.Int {
	switch rng.Intn(8) {
	case 0:
		return sdkmath.ZeroInt()
	case 1:
		return sdkmath.NewIntFromBigInt(new(big.Int).Sub(new(big.Int).Lsh(big.NewInt(1), 256), big.NewInt(1)))
	case 2:
		return sdkmath.NewIntFromBigInt(new(big.Int).Lsh(big.NewInt(1), 255))
	case 3:
		return sdkmath.NewIntFromBigInt(new(big.Int).Lsh(big.NewInt(1), 64))
	case 4:
		b := make([]byte, 1+rng.Intn(32))
		rng.Read(b)
		return sdkmath.NewIntFromBigInt(new(big.Int).SetBytes(b))
	default:
		return sdkmath.NewInt(int64(rng.Intn(1000000)))
	}
}

func genAddr20(rng *rand.Rand) []byte {
	b := make([]byte, 20)
	switch rng.Intn(12) {
	case 0: // zero address
	case 1:
		for i := range b {
			b[i] = 0xff
		}
	case 2:
		b[19] = 1
	default:
		rng.Read(b)
	}
	return b
}

func genLen(rng *rand.Rand, big_ int) int {
	switch rng.Intn(8) {
	case 0:
		return 0
	case 1:
		return 1
	case 2:
		return big_
	default:
		return rng.Intn(6)
	}
}

func genBytes(rng *rand.Rand, big_ int) []byte {
	var n int
	switch rng.Intn(10) {
	case 0:
		n = 0
	case 1:
		n = 31
	case 2:
		n = 32
	case 3:
		n = 33
	case 4:
		n = big_
	default:
		n = rng.Intn(100)
	}
	b := make([]byte, n)
	rng.Read(b)
	return b
}

func genGid(rng *rand.Rand) string {
	const cs = "abcdefghijklmnopqrstuvwxyzABCDEFGHIJKLMNOPQRSTUVWXYZ0123456789-_"
	n := 1 + rng.Intn(32)
	if rng.Intn(4) == 0 {
		n = 32
	}
	b := make([]byte, n)
	for i := range b {
		b[i] = cs[rng.Intn(len(cs))]
	}
	// what Params.ValidateBasic admits beyond plain ASCII: NUL bytes (trailing ones are indistinguishable from the padding),
	// any other byte value, multi-byte UTF-8 (the limit is 32 BYTES)
	switch rng.Intn(10) {
	case 0:
		if n > 1 {
			b[n-1] = 0
		}
	case 1:
		b[rng.Intn(n)] = 0
	case 2:
		b[rng.Intn(n)] = byte(128 + rng.Intn(128))
	case 3:
		return strings.Repeat("é", 1+rng.Intn(16))
	}
	return string(b)
}

// gidHex: the gravity-id TEXT as hex (the model packs it with the regenerated StrToByte32)
func gidHex(g string) string { return hx.HexS(g) }

// ---- the digest the contract recomputes (monitor) -----------------------------------------------------------------
// Independent of the Lean model: go-ethereum's ABI packer over the argument list read from the Solidity source
// (facts C12.solSites), values looked up by the contract parameter names (relayer convention).

type solArgT struct {
	Expr string `json:"expr"`
	Ty   string `json:"ty"`
	Lit  string `json:"lit"`
}

type solSiteT struct {
	File string    `json:"file"`
	Func string    `json:"func"`
	Args []solArgT `json:"args"`
}

var solFuncOfKind = map[string]string{"oset": "makeCheckpoint", "batch": "submitBatch", "bcall": "bridgeCallSigHash"}

func loadSolSites() []solSiteT {
	fp := os.Getenv("VERIF_FACTS")
	if fp == "" {
		return nil
	}
	bz, err := os.ReadFile(fp)
	if err != nil {
		return nil
	}
	var facts map[string]json.RawMessage
	if json.Unmarshal(bz, &facts) != nil {
		return nil
	}
	var sites []solSiteT
	_ = json.Unmarshal(facts["C12.solSites"], &sites)
	return sites
}

func loadSolPrefix() map[string][]byte {
	res := map[string][]byte{}
	bz, err := os.ReadFile(os.Getenv("VERIF_FACTS"))
	if err != nil {
		return res
	}
	var facts map[string]json.RawMessage
	if json.Unmarshal(bz, &facts) != nil {
		return res
	}
	var m map[string]string
	_ = json.Unmarshal(facts["C12.solSignPrefix"], &m)
	for f, hx := range m {
		if b, err := hex.DecodeString(hx); err == nil && len(b) > 0 {
			res[f] = b
		}
	}
	return res
}

type solPackedT struct {
	Kind string `json:"kind"`
	Lit  []byte `json:"lit"`
	Name string `json:"name"`
	Ty   string `json:"ty"`
}

// solVerifyT: verifySig of one contract file as the translator read it (facts C12.solVerifySigs)
type solVerifyT struct {
	File   string        `json:"file"`
	PackFn string        `json:"packFn"`
	Packed []solPackedT  `json:"packed"`
	Params [][2]string   `json:"params"`
	EcArgs []string      `json:"ecArgs"`
	RetLhs string        `json:"retLhs"`
	RetOp  string        `json:"retOp"`
}

func loadSolVerify() []solVerifyT {
	var res []solVerifyT
	bz, err := os.ReadFile(os.Getenv("VERIF_FACTS"))
	if err != nil {
		return res
	}
	var facts map[string]json.RawMessage
	if json.Unmarshal(bz, &facts) != nil {
		return res
	}
	_ = json.Unmarshal(facts["C12.solVerifySigs"], &res)
	return res
}

// message: the bytes verifySig hashes for _theHash = hash, following the encoding function of the source: abi.encodePacked
// concatenates (string literal: its bytes; bytes32: 32 bytes); abi.encode is the head/tail ABI encoding of (string, bytes32)
func (v solVerifyT) message(hash []byte) ([]byte, error) {
	switch v.PackFn {
	case "abi.encodePacked":
		var out []byte
		for _, p := range v.Packed {
			if p.Kind == "lit" {
				out = append(out, p.Lit...)
			} else if p.Ty == "bytes32" && len(v.Params) > 1 && p.Name == v.Params[1][1] {
				out = append(out, hash...)
			} else {
				return nil, fmt.Errorf("argument %s of abi.encodePacked is not the hash parameter", p.Name)
			}
		}
		return out, nil
	case "abi.encode":
		var args abi.Arguments
		var vals []any
		for _, p := range v.Packed {
			if p.Kind == "lit" {
				t, _ := abi.NewType("string", "", nil)
				args, vals = append(args, abi.Argument{Type: t}), append(vals, string(p.Lit))
			} else if p.Ty == "bytes32" && len(v.Params) > 1 && p.Name == v.Params[1][1] {
				t, _ := abi.NewType("bytes32", "", nil)
				var w [32]byte
				copy(w[:], hash)
				args, vals = append(args, abi.Argument{Type: t}), append(vals, w)
			} else {
				return nil, fmt.Errorf("argument %s of abi.encode is not the hash parameter", p.Name)
			}
		}
		return args.Pack(vals...)
	}
	return nil, fmt.Errorf("verifySig hashes through %q", v.PackFn)
}

// verify: verifySig(signer, hash, v, r, s) with go-ethereum's ecrecover precompile; the source must hand ecrecover the hash
// variable and its own v, r, s parameters and compare the result with its first parameter
func (v solVerifyT) verify(hash, sig []byte, signer common.Address) (bool, error) {
	if len(v.Params) != 5 || len(v.EcArgs) != 4 || v.EcArgs[1] != v.Params[2][1] || v.EcArgs[2] != v.Params[3][1] || v.EcArgs[3] != v.Params[4][1] ||
		v.RetLhs != v.Params[0][1] || v.RetOp != "==" {
		return false, fmt.Errorf("verifySig of %s no longer has the shape `return _signer == ecrecover(digest, _v, _r, _s)`", v.File)
	}
	msg, err := v.message(hash)
	if err != nil {
		return false, err
	}
	return contractVerifyMsg(crypto.Keccak256(msg), sig, signer), nil
}

func canonName(s string) string {
	s = strings.TrimPrefix(s, "input.")
	s = strings.TrimLeft(s, "_")
	return strings.ToLower(s)
}

func solDigest(site solSiteT, vals map[string]any) ([]byte, error) {
	var args abi.Arguments
	var vs []any
	for _, a := range site.Args {
		ty := a.Ty
		if ty == "literal" {
			ty = "uint256" // a 64-digit hex literal is encoded as a 32-byte word
		}
		t, err := abi.NewType(ty, "", nil)
		if err != nil {
			return nil, fmt.Errorf("type %q of %s: %w", a.Ty, a.Expr, err)
		}
		args = append(args, abi.Argument{Type: t})
		if a.Lit != "" {
			n, ok := new(big.Int).SetString(strings.TrimPrefix(a.Lit, "0x"), 16)
			if !ok {
				return nil, fmt.Errorf("literal %s", a.Lit)
			}
			if ty == "bytes32" {
				var w [32]byte
				n.FillBytes(w[:])
				vs = append(vs, w)
			} else {
				vs = append(vs, n)
			}
			continue
		}
		v, ok := vals[canonName(a.Expr)]
		if !ok {
			return nil, fmt.Errorf("no value for contract argument %s", a.Expr)
		}
		vs = append(vs, v)
	}
	packed, err := args.Pack(vs...)
	if err != nil {
		return nil, err
	}
	return crypto.Keccak256(packed), nil
}

func u256(x uint64) *big.Int { return new(big.Int).SetUint64(x) }

// values the relayer submits to the contract for an object, by canonical contract parameter name (relayer convention);
// second result: do all uint64 fields fit an int64
func solOfOracleSet(c *chainT, os *types.OracleSet) (map[string]any, bool) {
	solAddrs, solPowers := []common.Address{}, []*big.Int{}
	safe := os.Nonce < 1<<63
	for _, m := range os.Members {
		solAddrs, solPowers = append(solAddrs, common.BytesToAddress(b20(c, m.ExternalAddress))), append(solPowers, u256(m.Power))
		safe = safe && m.Power < 1<<63
	}
	return map[string]any{"oraclesetnonce": u256(os.Nonce), "oracles": solAddrs, "powers": solPowers}, safe
}

func solOfBatch(c *chainT, b *types.OutgoingTxBatch) (map[string]any, bool) {
	solAm, solDst, solFee := []*big.Int{}, []common.Address{}, []*big.Int{}
	for _, t := range b.Transactions {
		solAm, solDst, solFee = append(solAm, t.Token.Amount.BigInt()), append(solDst, common.BytesToAddress(b20(c, t.DestAddress))), append(solFee, t.Fee.Amount.BigInt())
	}
	return map[string]any{"amounts": solAm, "destinations": solDst, "fees": solFee, "batchnonce": u256(b.BatchNonce), "noncearray[1]": u256(b.BatchNonce),
		"tokencontract": common.BytesToAddress(b20(c, b.TokenContract)), "batchtimeout": u256(b.BatchTimeout), "feereceive": common.BytesToAddress(b20(c, b.FeeReceive))}, b.BatchNonce < 1<<63 && b.BatchTimeout < 1<<63
}

func solOfBridgeCall(c *chainT, bc *types.OutgoingBridgeCall) (map[string]any, bool) {
	solTok, solAmt := []common.Address{}, []*big.Int{}
	for _, t := range bc.Tokens {
		solTok, solAmt = append(solTok, common.BytesToAddress(b20(c, t.Contract))), append(solAmt, t.Amount.BigInt())
	}
	data, _ := hex.DecodeString(bc.Data)
	memo, _ := hex.DecodeString(bc.Memo)
	return map[string]any{"sender": common.BytesToAddress(b20(c, bc.Sender)), "refund": common.BytesToAddress(b20(c, bc.Refund)), "tokens": solTok, "amounts": solAmt,
		"to": common.BytesToAddress(b20(c, bc.To)), "data": data, "memo": memo, "nonce": u256(bc.Nonce), "timeout": u256(bc.Timeout), "eventnonce": u256(bc.EventNonce)}, bc.Nonce < 1<<63 && bc.Timeout < 1<<63 && bc.EventNonce < 1<<63
}

// contractDigest: the digest FxBridgeLogic.sol recomputes for these values under the chain's gravity id — go-ethereum's ABI
// packer over the abi.encode argument list read from the Solidity source; nil when the facts are not loaded
func (h *hCtx) contractDigest(c *chainT, kind string, sol map[string]any) []byte {
	var gidW [32]byte
	copy(gidW[:], c.gid)
	sol["fxbridgeid"], sol["state_fxbridgeid"] = gidW, gidW
	for _, site := range h.sites {
		if site.Func == solFuncOfKind[kind] && site.File == "FxBridgeLogic.sol" {
			if d, err := solDigest(site, sol); err == nil {
				return d
			}
		}
	}
	return nil
}

// contractVerifySig evaluates FxBridgeLogic.verifySig with go-ethereum's ecrecover precompile: input = digest32 ++ v(32) ++
// r ++ s, v must be 27 or 28 (anything else makes the precompile return nothing = address(0)).
func contractVerifySig(prefix, hash, sig []byte, signer common.Address) bool {
	return contractVerifyMsg(crypto.Keccak256(append(append([]byte{}, prefix...), hash...)), sig, signer)
}

func contractVerifyMsg(msg, sig []byte, signer common.Address) bool {
	if len(sig) < 65 {
		return false
	}
	v := sig[64]
	if v < 27 {
		v += 27 // the relayer submits v in the contract's convention
	}
	in := make([]byte, 128)
	copy(in[0:32], msg)
	in[63] = v
	copy(in[64:96], sig[0:32])
	copy(in[96:128], sig[32:64])
	pc, ok := vm.PrecompiledContractsHomestead[common.BytesToAddress([]byte{1})]
	if !ok {
		return false
	}
	out, err := pc.Run(nil, &vm.Contract{Input: in}, true)
	if err != nil || len(out) != 32 {
		return false
	}
	return len(sig) == 65 && common.BytesToAddress(out[12:]) == signer && signer != (common.Address{})
}

// emitVerifySig: op `verifysig <file> <digest> <sig65> <signer> <msgHash> <rec|->`, observation = what verifySig returns when
// ecrecover is go-ethereum's precompile; (v, r, s) as the relayer splits them (v = 27 + normalised recovery byte).
func (h *hCtx) emitVerifySig(digest, sig []byte, signerText string) {
	const file = "FxBridgeLogic.sol"
	pfx, ok := h.solPrefix[file]
	if !ok || len(digest) != 32 {
		return
	}
	msg := crypto.Keccak256(append(append([]byte{}, pfx...), digest...))
	v := int(sig[64])
	if v == 27 || v == 28 {
		v -= 27
	}
	v += 27
	rec := "-"
	var recAddr common.Address
	if v <= 255 {
		in := make([]byte, 128)
		copy(in[0:32], msg)
		in[63] = byte(v)
		copy(in[64:96], sig[0:32])
		copy(in[96:128], sig[32:64])
		if pc, ok := vm.PrecompiledContractsHomestead[common.BytesToAddress([]byte{1})]; ok {
			if out, err := pc.Run(nil, &vm.Contract{Input: in}, true); err == nil && len(out) == 32 {
				recAddr = common.BytesToAddress(out[12:])
				rec = hex.EncodeToString(out[12:])
			}
		}
	}
	signer := common.HexToAddress(signerText)
	res := recAddr == signer
	h.out.Emit(fmt.Sprintf("verifysig %s %s %s %s %s %s", file, hex.EncodeToString(digest), hex.EncodeToString(sig), hex.EncodeToString(signer.Bytes()), hex.EncodeToString(msg), rec),
		fmt.Sprintf("%t", res))
	h.out.Count(fmt.Sprintf("verifysig:%t", res))
}

// ---- objects -----------------------------------------------------------------------------------------------------

type hCtx struct {
	t    *testing.T
	s    *hx.Suite
	out  *hx.Out
	rng  *rand.Rand
	ctx   sdk.Context
	big_  int
	sites []solSiteT
	solPrefix map[string][]byte // per Solidity file: first argument of abi.encodePacked(...) in verifySig
	solVerify []solVerifyT
}

func allSafe(xs ...uint64) string {
	for _, x := range xs {
		if x >= 1<<63 {
			return "ne"
		}
	}
	return "eq"
}

func b20(c *chainT, text string) []byte {
	b, err := hex.DecodeString(addr20Hex(c, text))
	if err != nil {
		panic(err)
	}
	return b
}

func (h *hCtx) genOracleSet(c *chainT, nonce uint64, safe bool) *types.OracleSet {
	rng := h.rng
	n := genLen(rng, h.big_)
	os := &types.OracleSet{Nonce: nonce, Height: uint64(rng.Intn(1000))}
	for i := 0; i < n; i++ {
		a := genAddr20(rng)
		if i < len(c.oracles) && rng.Intn(2) == 0 {
			a = crypto.PubkeyToAddress(c.oracles[i].key.PublicKey).Bytes()
		}
		p := genU64(rng)
		if safe {
			p = genSafeU64(rng)
		}
		os.Members = append(os.Members, types.BridgeValidator{Power: p, ExternalAddress: c.addrStr(a)})
	}
	return os
}

func (h *hCtx) putOracleSet(c *chainT, os *types.OracleSet) *objT {
	var parts []string
	pw := []uint64{os.Nonce}
	for _, m := range os.Members {
		a := b20(c, m.ExternalAddress)
		pw = append(pw, m.Power)
		parts = append(parts, fmt.Sprintf("%s:%d", hex.EncodeToString(a), m.Power))
	}
	cp := func(gid string) ([]byte, error) {
		if c.tron {
			return trontypes.GetCheckpointOracleSet(os, gid)
		}
		return os.GetCheckpoint(gid)
	}
	c.k.StoreOracleSet(h.ctx, os)
	sol, _ := solOfOracleSet(c, os)
	o := &objT{kind: "oset", nonce: os.Nonce, cp: cp, sol: sol, proto: os}
	h.emitStore(c, o, fmt.Sprintf("oset %s %d %s", c.name, os.Nonce, joinOrDash(parts)), allSafe(pw...))
	return o
}

func (h *hCtx) storeOracleSet(c *chainT, nonce uint64, safe bool) *objT {
	return h.putOracleSet(c, h.genOracleSet(c, nonce, safe))
}

func joinOrDash(p []string) string {
	if len(p) == 0 {
		return "-"
	}
	return strings.Join(p, ",")
}

func (h *hCtx) genBatch(c *chainT, token []byte, nonce uint64, safe bool) *types.OutgoingTxBatch {
	rng := h.rng
	n := genLen(rng, h.big_)
	timeout := genU64(rng)
	if safe {
		timeout = genSafeU64(rng)
	}
	fr := genAddr20(rng)
	b := &types.OutgoingTxBatch{BatchNonce: nonce, BatchTimeout: timeout, TokenContract: c.addrStr(token), FeeReceive: c.addrStr(fr)}
	for i := 0; i < n; i++ {
		d := genAddr20(rng)
		am, fee := genAmount(rng), genAmount(rng)
		b.Transactions = append(b.Transactions, &types.OutgoingTransferTx{Sender: helpers.GenAccAddress().String(), DestAddress: c.addrStr(d),
			Token: types.ERC20Token{Contract: b.TokenContract, Amount: am}, Fee: types.ERC20Token{Contract: b.TokenContract, Amount: fee}})
	}
	return b
}

func (h *hCtx) putBatch(c *chainT, b0 *types.OutgoingTxBatch) *objT {
	// per chain: its own block number and transaction ids (a cancelled batch puts its transactions back into the pool)
	b := *b0
	c.blockNo++
	b.Block = c.blockNo
	b.Transactions = nil
	var parts []string
	for _, t0 := range b0.Transactions {
		t := *t0
		c.txID++
		t.Id = c.txID
		b.Transactions = append(b.Transactions, &t)
		d := b20(c, t.DestAddress)
		parts = append(parts, fmt.Sprintf("%s:%s:%s", t.Token.Amount.String(), hex.EncodeToString(d), t.Fee.Amount.String()))
	}
	cp := func(gid string) ([]byte, error) {
		if c.tron {
			return trontypes.GetCheckpointConfirmBatch(&b, gid)
		}
		return b.GetCheckpoint(gid)
	}
	if err := c.k.StoreBatch(h.ctx, &b); err != nil {
		h.t.Fatalf("StoreBatch: %v", err)
	}
	return h.emitBatch(c, &b, b0, parts, cp)
}

func (h *hCtx) emitBatch(c *chainT, b, b0 *types.OutgoingTxBatch, parts []string, cp func(gid string) ([]byte, error)) *objT {
	token, fr := b20(c, b.TokenContract), b20(c, b.FeeReceive)
	sol, _ := solOfBatch(c, b)
	o := &objT{kind: "batch", nonce: b.BatchNonce, token: b.TokenContract, cp: cp, sol: sol, proto: b0}
	h.emitStore(c, o, fmt.Sprintf("batch %s %s %s %d %d %s %s", c.name, b.TokenContract, hex.EncodeToString(token), b.BatchNonce, b.BatchTimeout,
		hex.EncodeToString(fr), joinOrDash(parts)), allSafe(b.BatchNonce, b.BatchTimeout))
	return o
}

// registerBatch: a batch the real builder has already stored joins the chain's objects (no second store)
func (h *hCtx) registerBatch(c *chainT, b, b0 *types.OutgoingTxBatch) *objT {
	var parts []string
	for _, t := range b.Transactions {
		parts = append(parts, fmt.Sprintf("%s:%s:%s", t.Token.Amount.String(), hex.EncodeToString(b20(c, t.DestAddress)), t.Fee.Amount.String()))
	}
	cp := func(gid string) ([]byte, error) {
		if c.tron {
			return trontypes.GetCheckpointConfirmBatch(b, gid)
		}
		return b.GetCheckpoint(gid)
	}
	return h.emitBatch(c, b, b0, parts, cp)
}

func (h *hCtx) storeBatch(c *chainT, token []byte, nonce uint64, safe bool) *objT {
	return h.putBatch(c, h.genBatch(c, token, nonce, safe))
}

func (h *hCtx) genBridgeCall(c *chainT, nonce uint64, safe bool) *types.OutgoingBridgeCall {
	rng := h.rng
	n := genLen(rng, h.big_)
	timeout, evn := genU64(rng), genU64(rng)
	if safe {
		timeout, evn = genSafeU64(rng), genSafeU64(rng)
	}
	sd, rf, to := genAddr20(rng), genAddr20(rng), genAddr20(rng)
	data, memo := genBytes(rng, h.big_*40), genBytes(rng, h.big_*10)
	bc := &types.OutgoingBridgeCall{Sender: c.addrStr(sd), Refund: c.addrStr(rf), To: c.addrStr(to), Data: hex.EncodeToString(data), Memo: hex.EncodeToString(memo),
		Nonce: nonce, Timeout: timeout, BlockHeight: uint64(rng.Intn(1000)), EventNonce: evn}
	for i := 0; i < n; i++ {
		bc.Tokens = append(bc.Tokens, types.ERC20Token{Contract: c.addrStr(genAddr20(rng)), Amount: genAmount(rng)})
	}
	return bc
}

func (h *hCtx) putBridgeCall(c *chainT, bc *types.OutgoingBridgeCall) *objT {
	var parts []string
	for _, t := range bc.Tokens {
		ct := b20(c, t.Contract)
		parts = append(parts, fmt.Sprintf("%s:%s", hex.EncodeToString(ct), t.Amount.String()))
	}
	cp := func(gid string) ([]byte, error) {
		if c.tron {
			return trontypes.GetCheckpointBridgeCall(bc, gid)
		}
		return bc.GetCheckpoint(gid)
	}
	c.k.SetOutgoingBridgeCall(h.ctx, bc)
	sd, rf, to := b20(c, bc.Sender), b20(c, bc.Refund), b20(c, bc.To)
	data, _ := hex.DecodeString(bc.Data)
	memo, _ := hex.DecodeString(bc.Memo)
	sol, _ := solOfBridgeCall(c, bc)
	o := &objT{kind: "bcall", nonce: bc.Nonce, cp: cp, sol: sol, proto: bc}
	h.emitStore(c, o, fmt.Sprintf("bcall %s %d %s %s %s %s %s %d %d %s", c.name, bc.Nonce, hex.EncodeToString(sd), hex.EncodeToString(rf), hex.EncodeToString(to),
		hx.Hex(data), hx.Hex(memo), bc.Timeout, bc.EventNonce, joinOrDash(parts)), allSafe(bc.Nonce, bc.Timeout, bc.EventNonce))
	return o
}

func (h *hCtx) storeBridgeCall(c *chainT, nonce uint64, safe bool) *objT {
	return h.putBridgeCall(c, h.genBridgeCall(c, nonce, safe))
}

// putTwin stores the same object (same key, same content) on another eth-style chain.
func (h *hCtx) putTwin(c2 *chainT, o *objT) *objT {
	switch p := o.proto.(type) {
	case *types.OracleSet:
		return h.putOracleSet(c2, p)
	case *types.OutgoingTxBatch:
		return h.putBatch(c2, p)
	case *types.OutgoingBridgeCall:
		return h.putBridgeCall(c2, p)
	}
	return nil
}

func (h *hCtx) emitStore(c *chainT, o *objT, op, eq string) {
	d, err := o.cp(c.gid)
	if err != nil {
		h.out.Emit(op, "err:"+err.Error())
		return
	}
	o.digest, o.eq = d, eq
	c.objs = append(c.objs, o)
	c.ledger[o.keyStr()] = o
	h.out.Emit(op, hex.EncodeToString(d)+" "+eq)
	if eq == "eq" && o.sol != nil {
		// from here on the digest the oracles of the harness SIGN is the one recomputed independently of the code under test
		// (the contract's abi.encode argument list, go-ethereum's packer); a deviation of the real encoder is reported below
		if cd := h.contractDigest(c, o.kind, o.sol); cd != nil {
			o.digest, o.indep = cd, true
			h.out.Count("digest:independent")
		}
	}
	// monitor: what is read back from the real store under the object's key has this checkpoint
	if rd := h.liveDigest(c, o.kind, o.token, o.nonce); !bytes.Equal(rd, o.digest) {
		h.out.Violate(fmt.Sprintf("a stored %s read back from the store under its own key has another checkpoint than the object that was stored", o.kind))
	}
	if eq == "eq" && o.sol != nil {
		// monitor: the checkpoint fxcore signs is the digest the contract recomputes (uint64 fields within int64)
		var gidW [32]byte
		copy(gidW[:], c.gid)
		o.sol["fxbridgeid"], o.sol["state_fxbridgeid"] = gidW, gidW
		style := map[bool]string{true: "tron", false: "eth-style"}[c.tron]
		for _, site := range h.sites {
			if site.Func != solFuncOfKind[o.kind] {
				continue
			}
			sd, err := solDigest(site, o.sol)
			h.out.Count("sol-digest:" + site.File + ":" + o.kind)
			if err != nil {
				h.out.Violate(fmt.Sprintf("the digest of a stored %s cannot be recomputed from %s:%s abi.encode(...): %v", o.kind, site.File, site.Func, err))
			} else if !bytes.Equal(sd, d) {
				h.out.Violate(fmt.Sprintf("checkpoint of a stored %s (%s chain) differs from the digest %s:%s recomputes with abi.encode for the same object and gravity id", o.kind, style, site.File, site.Func))
			}
		}
	}
	h.out.Count("store:" + o.kind + ":" + map[bool]string{true: "tron", false: "eth"}[c.tron] + ":" + eq)
}

// liveDigest reads the object back from the REAL store under exactly (kind, token, nonce) and recomputes its checkpoint
// under the gravity id of the chain's parameters; nil when no such object is stored.  When every uint64 field fits an int64
// the digest is recomputed INDEPENDENTLY of the code under test (the contract's abi.encode list, go-ethereum's packer, own
// base58 / hex address decoding) on every chain style; above 2^63 (Go and Solidity differ by design) by the real encoder.
func (h *hCtx) liveDigest(c *chainT, kind, token string, nonce uint64) []byte {
	gid := c.gid
	var d []byte
	var err error
	switch kind {
	case "oset":
		os := c.k.GetOracleSet(h.ctx, nonce)
		if os == nil {
			return nil
		}
		if sol, safe := solOfOracleSet(c, os); safe {
			if cd := h.contractDigest(c, kind, sol); cd != nil {
				return cd
			}
		}
		if c.tron {
			d, err = trontypes.GetCheckpointOracleSet(os, gid)
		} else {
			d, err = os.GetCheckpoint(gid)
		}
	case "batch":
		b := c.k.GetOutgoingTxBatch(h.ctx, token, nonce)
		if b == nil {
			return nil
		}
		if sol, safe := solOfBatch(c, b); safe {
			if cd := h.contractDigest(c, kind, sol); cd != nil {
				return cd
			}
		}
		if c.tron {
			d, err = trontypes.GetCheckpointConfirmBatch(b, gid)
		} else {
			d, err = b.GetCheckpoint(gid)
		}
	default:
		bc, found := c.k.GetOutgoingBridgeCallByNonce(h.ctx, nonce)
		if !found {
			return nil
		}
		if sol, safe := solOfBridgeCall(c, bc); safe {
			if cd := h.contractDigest(c, kind, sol); cd != nil {
				return cd
			}
		}
		if c.tron {
			d, err = trontypes.GetCheckpointBridgeCall(bc, gid)
		} else {
			d, err = bc.GetCheckpoint(gid)
		}
	}
	if err != nil {
		return nil
	}
	return d
}

// ---- confirms ----------------------------------------------------------------------------------------------------

func errKind(err error) string {
	if err == nil {
		return "ok"
	}
	s := err.Error()
	switch {
	case strings.Contains(s, "couldn't find"):
		return "err:notfound"
	case strings.Contains(s, "signature decoding"):
		return "err:sigdecode"
	case strings.Contains(s, types.ErrNoFoundOracle.Error()):
		return "err:nooracle"
	case strings.Contains(s, "signature verification failed"):
		return "err:sig"
	case strings.Contains(s, "duplicate confirm"):
		return "err:dup"
	case strings.Contains(s, "got ") && strings.Contains(s, "expected "):
		return "err:mismatch"
	}
	return "err:other:" + strings.ReplaceAll(s, "\n", " ")
}

// keyT: what a confirm message names
type keyT struct {
	kind  string
	token string
	nonce uint64
}

func (k keyT) str() string { return fmt.Sprintf("%s/%s/%d", k.kind, k.token, k.nonce) }
func (o *objT) key() keyT  { return keyT{o.kind, o.token, o.nonce} }

// entryT: one entry of a confirm store, key parsed
type entryT struct {
	key      keyT
	oracle   sdk.AccAddress
	storeKey string
	raw      []byte
	bridger  string
	ext      string
	sig      string
	msgKey   keyT // what the stored message itself names
}

// scanAll reads the three confirm stores of the chain completely.
func (h *hCtx) scanAll(c *chainT) []entryT {
	var res []entryT
	cdc := h.s.App.AppCodec()
	sk := h.s.App.GetKey(c.name)
	for _, kv := range hx.RawPrefix(h.ctx, sk, types.OracleSetConfirmKey) {
		k := kv[0][len(types.OracleSetConfirmKey):]
		e := entryT{storeKey: string(kv[0]), raw: kv[1]}
		if len(k) >= 8 {
			e.key, e.oracle = keyT{"oset", "", sdk.BigEndianToUint64(k[:8])}, sdk.AccAddress(k[8:])
		}
		var m types.MsgOracleSetConfirm
		cdc.MustUnmarshal(kv[1], &m)
		e.bridger, e.ext, e.sig, e.msgKey = m.BridgerAddress, m.ExternalAddress, m.Signature, keyT{"oset", "", m.Nonce}
		res = append(res, e)
	}
	for _, kv := range hx.RawPrefix(h.ctx, sk, types.BatchConfirmKey) {
		k := kv[0][len(types.BatchConfirmKey):]
		e := entryT{storeKey: string(kv[0]), raw: kv[1]}
		if len(k) >= 28 {
			e.key = keyT{"batch", string(k[:len(k)-28]), sdk.BigEndianToUint64(k[len(k)-28 : len(k)-20])}
			e.oracle = sdk.AccAddress(k[len(k)-20:])
		}
		var m types.MsgConfirmBatch
		cdc.MustUnmarshal(kv[1], &m)
		e.bridger, e.ext, e.sig, e.msgKey = m.BridgerAddress, m.ExternalAddress, m.Signature, keyT{"batch", m.TokenContract, m.Nonce}
		res = append(res, e)
	}
	for _, kv := range hx.RawPrefix(h.ctx, sk, types.BridgeCallConfirmKey) {
		k := kv[0][len(types.BridgeCallConfirmKey):]
		e := entryT{storeKey: string(kv[0]), raw: kv[1]}
		if len(k) >= 8 {
			e.key, e.oracle = keyT{"bcall", "", sdk.BigEndianToUint64(k[:8])}, sdk.AccAddress(k[8:])
		}
		var m types.MsgBridgeCallConfirm
		cdc.MustUnmarshal(kv[1], &m)
		e.bridger, e.ext, e.sig, e.msgKey = m.BridgerAddress, m.ExternalAddress, m.Signature, keyT{"bcall", "", m.Nonce}
		res = append(res, e)
	}
	return res
}

func (h *hCtx) oracleID(c *chainT, a sdk.AccAddress) int {
	for _, o := range c.oracles {
		if o.addr.Equals(a) {
			return o.id
		}
	}
	return 9999
}

// showStored: canonical text of the entries filed under one key
func (h *hCtx) showStored(c *chainT, all []entryT, k keyT) string {
	type e struct {
		id  int
		sig string
	}
	var es []e
	for _, st := range all {
		if st.key != k {
			continue
		}
		sg := st.sig
		if len(sg) > 8 {
			sg = sg[:8]
		}
		if sg == "" {
			sg = "-"
		}
		// oracle, first signature bytes, and the bridger / external address the stored message carries
		es = append(es, e{h.oracleID(c, st.oracle), strings.ToLower(sg) + ":" + st.bridger + ":" + st.ext})
	}
	sort.Slice(es, func(i, j int) bool { return es[i].id < es[j].id })
	var p []string
	for _, x := range es {
		p = append(p, fmt.Sprintf("%d:%s", x.id, x.sig))
	}
	return "[" + strings.Join(p, ",") + "]"
}

// verifyEntry: the property, stated on one entry of the real confirm store.
func (h *hCtx) verifyEntry(c *chainT, e entryT, class string) {
	kind := e.key.kind
	if e.msgKey != e.key {
		h.out.Violate(fmt.Sprintf("a stored %s confirm is filed under another key (token contract / nonce) than the object the stored message names (after %s)", kind, class))
	}
	o := c.ledger[e.key.str()]
	if o == nil {
		h.out.Violate(fmt.Sprintf("a stored %s confirm is filed under a key (token contract / nonce) that names no %s ever stored: its signature was not verified against the object it names (after %s)", kind, kind, class))
		return
	}
	digest := h.liveDigest(c, e.key.kind, e.key.token, e.key.nonce)
	if digest == nil {
		if !o.removed {
			h.out.Violate(fmt.Sprintf("a stored %s confirm names an object that is no longer stored although nothing removed it (after %s)", kind, class))
		}
		digest = o.digest
	}
	rec, snap := c.accRec[e.storeKey]
	if !snap {
		var found bool
		rec, found = c.k.GetOracle(h.ctx, e.oracle)
		if !found {
			h.out.Violate(fmt.Sprintf("stored %s confirm under an oracle address without oracle record (after %s)", kind, class))
			return
		}
	}
	sig, err := hex.DecodeString(e.sig)
	if err != nil {
		h.out.Violate(fmt.Sprintf("stored %s confirm carries a non-hex signature (after %s)", kind, class))
		return
	}
	if got := c.recoverOwn(digest, sig); got != rec.ExternalAddress {
		h.out.Violate(fmt.Sprintf("stored %s confirm does not verify under the oracle's registered external key over the checkpoint of the stored object it is filed under (after %s)", kind, class))
	}
	if !c.tron && len(h.solPrefix) > 0 {
		// the contract's own check: verifySig(_signer, _theHash, v, r, s) = (_signer == ecrecover(keccak256(abi.encodePacked(
		// <prefix read from the Solidity source>, _theHash)), v, r, s)), with go-ethereum's ECRECOVER PRECOMPILE (address 0x01)
		// as ecrecover and (v, r, s) split off the stored signature as the relayer does (v = 27 / 28)
		for file, pfx := range h.solPrefix {
			h.out.Count("contract-verifySig:" + file)
			if !contractVerifySig(pfx, digest, sig, common.HexToAddress(rec.ExternalAddress)) {
				h.out.Violate(fmt.Sprintf("stored %s confirm does not pass %s:verifySig (ecrecover precompile over keccak256(abi.encodePacked(prefix, digest)) with v,r,s split off the stored signature) for the oracle's registered external address: the accepted confirmation is not usable on the bridge contract (after %s)", kind, file, class))
			}
		}
	}
	if !c.tron {
		// … and verifySig of EVERY contract variant evaluated as its source spells it (encoding function, argument list,
		// ecrecover arguments, comparison: facts C12.solVerifySigs)
		for _, v := range h.solVerify {
			h.out.Count("contract-verifySig-as-written:" + v.File)
			ok, err := v.verify(digest, sig, common.HexToAddress(rec.ExternalAddress))
			if err != nil {
				h.out.Violate(fmt.Sprintf("stored %s confirm cannot be checked against %s:verifySig as written: %v (after %s)", kind, v.File, err, class))
			} else if !ok {
				h.out.Violate(fmt.Sprintf("stored %s confirm does not pass %s:verifySig evaluated as its source spells it (%s of the literal and the digest, ecrecover precompile, v,r,s split off the stored signature) for the oracle's registered external address: the accepted confirmation is not usable on that bridge contract (after %s)", kind, v.File, v.PackFn, class))
			}
		}
	}
	if e.ext != rec.ExternalAddress {
		h.out.Violate(fmt.Sprintf("stored %s confirm names an external address that is not the oracle's (after %s)", kind, class))
	}
	if e.bridger != rec.BridgerAddress {
		h.out.Violate(fmt.Sprintf("stored %s confirm was submitted by a bridger that is not the oracle's (after %s)", kind, class))
	}
	h.out.Count("verify-entry:" + kind)
}

// verifyAll: every entry of every confirm store of the chain (end of a sequence)
func (h *hCtx) verifyAll(c *chainT) {
	seen := map[string]bool{}
	for _, e := range h.scanAll(c) {
		h.verifyEntry(c, e, "end of sequence")
		slot := e.key.str() + "/" + e.oracle.String()
		if seen[slot] {
			h.out.Violate("two confirmations of one oracle for one object are stored")
		}
		seen[slot] = true
	}
}

func (h *hCtx) mkMsg(c *chainT, k keyT, bridger, ext, sig string) sdk.Msg {
	switch k.kind {
	case "oset":
		return &types.MsgOracleSetConfirm{Nonce: k.nonce, BridgerAddress: bridger, ExternalAddress: ext, Signature: sig, ChainName: c.name}
	case "batch":
		return &types.MsgConfirmBatch{Nonce: k.nonce, TokenContract: k.token, BridgerAddress: bridger, ExternalAddress: ext, Signature: sig, ChainName: c.name}
	default:
		return &types.MsgBridgeCallConfirm{Nonce: k.nonce, BridgerAddress: bridger, ExternalAddress: ext, Signature: sig, ChainName: c.name}
	}
}

func keyArgs(k keyT) string {
	if k.kind == "batch" {
		return fmt.Sprintf("batch %s %d", k.token, k.nonce)
	}
	return fmt.Sprintf("%s %d", k.kind, k.nonce)
}

func entriesByKey(es []entryT) map[string]entryT {
	m := map[string]entryT{}
	for _, e := range es {
		m[e.storeKey] = e
	}
	return m
}

// sendConfirm delivers one confirm through the real router and emits op + observation, then runs the monitors.
func (h *hCtx) sendConfirm(c *chainT, k keyT, bridger, ext, sigText string, signedDigest []byte, class string) {
	msg := h.mkMsg(c, k, bridger, ext, sigText)
	sigField := sigText
	var sigBytes []byte
	if b, err := hex.DecodeString(sigText); err != nil {
		sigField = "!"
	} else {
		sigBytes = b
		sigField = hx.Hex(b)
	}
	h.emitVBasic(c.name, k, bridger, ext, sigText)
	type vb interface{ ValidateBasic() error }
	direct := false
	if err := msg.(vb).ValidateBasic(); err != nil {
		// a transaction with this message never reaches the handler; call the keeper as an in-process caller would
		h.out.Count("basic-reject:" + class)
		direct = true
	}
	before := h.scanAll(c)
	var res string
	cctx, write := h.ctx.CacheContext()
	saved := h.ctx
	if direct {
		res = hx.Try(func() error { return c.k.ConfirmHandler(cctx, msg.(types.Confirm)) })
	} else {
		res = hx.Try(func() error {
			_, err := h.s.App.MsgServiceRouter().Handler(msg)(cctx, msg)
			return err
		})
	}
	kind := res
	if strings.HasPrefix(res, "err:") {
		kind = errKind(fmt.Errorf("%s", res[4:]))
	}
	if res == "ok" {
		write()
	}
	h.ctx = saved
	after := h.scanAll(c)
	a := "-"
	if sigBytes != nil {
		a = c.recoverOwn(signedDigest, sigBytes)
	}
	op := fmt.Sprintf("confirm %s %s %s %s %s %s %s", c.name, keyArgs(k), bridger, ext, sigField, hx.Hex(signedDigest), a)
	h.out.Emit(op, fmt.Sprintf("%s %s n=%d", kind, h.showStored(c, after, k), len(after)))
	h.out.Count("confirm:" + class + ":" + kind)
	if !c.tron && len(sigBytes) == 65 && strings.HasPrefix(ext, "0x") && len(ext) == 42 {
		// the contract's verifySig on this very signature (model: `solVerifySig` over the regenerated source structure with
		// its own Keccak; implementation side: go-ethereum's ecrecover precompile), over the digest of the named live object
		// when there is one, else over the digest the signature was made for
		vd := signedDigest
		if ld := h.liveDigest(c, k.kind, k.token, k.nonce); ld != nil && h.rng.Intn(2) == 0 {
			vd = ld
		}
		h.emitVerifySig(vd, sigBytes, ext)
	}
	h.out.Nontrivial(k.kind + "|" + class + "|" + kind + "|" + map[bool]string{true: "tron", false: "eth"}[c.tron])
	// whole-store monitors
	bm, am := entriesByKey(before), entriesByKey(after)
	var added []entryT
	for sk, e := range am {
		if b, ok := bm[sk]; !ok {
			added = append(added, e)
		} else if !bytes.Equal(b.raw, e.raw) {
			h.out.Violate(fmt.Sprintf("a stored %s confirm was replaced by a later confirm (%s): more than one confirmation per oracle and object was effective", e.key.kind, class))
		}
	}
	for sk, b := range bm {
		if _, ok := am[sk]; !ok {
			h.out.Violate(fmt.Sprintf("a stored %s confirm was removed by a later confirm (%s)", b.key.kind, class))
		}
	}
	if kind == "ok" {
		if len(added) != 1 {
			h.out.Violate(fmt.Sprintf("accepted %s confirm (%s) did not add exactly one entry to the confirm stores", k.kind, class))
		}
	} else if len(added) != 0 {
		h.out.Violate(fmt.Sprintf("rejected %s confirm (%s) changed the confirm store", k.kind, class))
	}
	// monitor (the other direction of "the checkpoint fxcore signs is the digest the contract recomputes"): a confirm that
	// names a live object, is submitted by the bridger of the oracle its external address is registered to, carries a 65-byte
	// signature that recovers (own recovery) to that external address over the digest the CONTRACT recomputes for that object
	// (recomputed independently), with no confirmation of that oracle for the object stored yet, must be accepted — a handler
	// that rejects it verifies signatures against another checkpoint than the one the oracles sign and the contract checks.
	if o := c.ledger[k.str()]; o != nil && !o.removed && o.indep && sigBytes != nil && len(sigBytes) == 65 {
		if oa, found := c.k.GetOracleAddrByExternalAddr(h.ctx, ext); found {
			if rec, found := c.k.GetOracle(h.ctx, oa); found && rec.ExternalAddress == ext && rec.BridgerAddress == bridger {
				dup := false
				for _, b := range before {
					if b.key == k && b.oracle.Equals(oa) {
						dup = true
					}
				}
				ld := h.liveDigest(c, k.kind, k.token, k.nonce)
				if !dup && ld != nil && c.recoverOwn(ld, sigBytes) == ext {
					h.out.Count("honest-confirm:" + k.kind + ":" + map[bool]string{true: "tron", false: "eth"}[c.tron] + ":" + kind)
					if kind != "ok" {
						h.out.Violate(fmt.Sprintf("a %s confirm (%s) carrying the oracle's signature over the digest the bridge contract recomputes for the stored object it names, submitted by that oracle's bridger, first for that oracle and object, was rejected (%s) on the %s chain: the handler verifies signatures against another checkpoint than the contract's",
							k.kind, class, kind, map[bool]string{true: "tron", false: "eth-style"}[c.tron]))
					}
				}
			}
		}
	}
	for _, e := range added {
		if e.key != k {
			h.out.Violate(fmt.Sprintf("an accepted %s confirm (%s) was filed under another key (token contract / nonce) than the message names", k.kind, class))
		}
		if oa, found := c.k.GetOracleAddrByExternalAddr(h.ctx, ext); !found || !oa.Equals(e.oracle) {
			h.out.Violate(fmt.Sprintf("an accepted %s confirm (%s) was filed under another oracle than the one its external address is registered to", k.kind, class))
		}
		if rec, found := c.k.GetOracle(h.ctx, e.oracle); found {
			c.accRec[e.storeKey] = rec
		}
		if h.liveDigest(c, e.key.kind, e.key.token, e.key.nonce) == nil {
			h.out.Violate(fmt.Sprintf("an accepted %s confirm (%s) is filed under a key (token contract / nonce) under which no %s is stored", k.kind, class, k.kind))
		}
		h.verifyEntry(c, e, class)
	}
}

// otherEncoder applies the checkpoint encoder of the other chain style to the stored proto object.
func otherEncoder(c *chainT, o *objT, gid string) (d []byte, err error) {
	defer func() {
		if r := recover(); r != nil {
			d, err = nil, fmt.Errorf("panic: %v", r)
		}
	}()
	switch p := o.proto.(type) {
	case *types.OracleSet:
		if c.tron {
			return p.GetCheckpoint(gid)
		}
		return trontypes.GetCheckpointOracleSet(p, gid)
	case *types.OutgoingTxBatch:
		if c.tron {
			return p.GetCheckpoint(gid)
		}
		return trontypes.GetCheckpointConfirmBatch(p, gid)
	case *types.OutgoingBridgeCall:
		if c.tron {
			return p.GetCheckpoint(gid)
		}
		return trontypes.GetCheckpointBridgeCall(p, gid)
	}
	return nil, fmt.Errorf("no proto")
}

func malleate(sig []byte) []byte {
	out := append([]byte{}, sig...)
	s := new(big.Int).SetBytes(sig[32:64])
	s.Sub(secpN, s)
	sb := s.Bytes()
	copy(out[32:64], make([]byte, 32))
	copy(out[64-len(sb):64], sb)
	out[64] ^= 1
	return out
}

func pickObj(rng *rand.Rand, objs []*objT, pred func(*objT) bool) *objT {
	var cand []*objT
	for _, o := range objs {
		if pred(o) {
			cand = append(cand, o)
		}
	}
	if len(cand) == 0 {
		return nil
	}
	return cand[rng.Intn(len(cand))]
}

// otherSpelling: the same 20-byte address in another text form (eth-style chains: lower case / upper case hex)
func otherSpelling(rng *rand.Rand, s string) string {
	if !strings.HasPrefix(s, "0x") {
		return s
	}
	if rng.Intn(2) == 0 {
		return strings.ToLower(s)
	}
	return "0x" + strings.ToUpper(s[2:])
}

// gravity ids each chain had earlier in this process (a signature made under an id the chain no longer has must fail)
var gidHistory = map[string][]string{}

var confirmClasses = []string{"valid", "valid", "valid", "valid", "valid", "v27", "malleated", "malleated27", "vbad", "truncated", "overlong", "zero", "other-object", "other-gid",
	"other-prefix", "other-key", "other-chain-checkpoint", "wrong-bridger", "unknown-ext", "missing-object", "nothex", "empty", "swapped-identity", "random65", "no-prefix",
	// right in all but one coordinate
	"wrong-token", "wrong-token", "wrong-token-spelling", "wrong-nonce", "wrong-nonce", "wrong-chain", "wrong-chain", "ext-of-other-oracle", "bridger-of-other-oracle",
	"neighbour-sig", "neighbour-sig", "pruned-object", "pruned-object", "other-kind-same-nonce", "ext-spelling", "earlier-gid", "self-made-identity",
	"other-encoder", "other-encoder"}

func (h *hCtx) randomConfirm(c *chainT, others []*chainT) { h.confirmOfClass(c, others, "", "") }

// sweep: every confirm class once against an object of every kind, oracle 0 (a bonded one) — the systematic part of the
// generator: each run contains every (class, kind) combination at least once, whatever the seed.
func (h *hCtx) sweep(c *chainT, others []*chainT) {
	seen := map[string]bool{}
	for _, class := range confirmClasses {
		if seen[class] {
			continue
		}
		seen[class] = true
		for _, kind := range []string{"oset", "batch", "bcall"} {
			h.confirmOfClass(c, others, class, kind)
		}
	}
	h.out.Count("sweep")
}

// confirmOfClass sends one confirm of the given class ("" = random) against an object of the given kind ("" = any).
func (h *hCtx) confirmOfClass(c *chainT, others []*chainT, forceClass, forceKind string) {
	rng := h.rng
	if len(c.objs) == 0 || len(c.oracles) == 0 {
		return
	}
	o := c.objs[rng.Intn(len(c.objs))]
	or := c.oracles[rng.Intn(len(c.oracles))]
	if forceKind != "" {
		if o = pickObj(rng, c.objs, func(x *objT) bool { return x.kind == forceKind }); o == nil {
			return
		}
		or = c.oracles[0]
	}
	bridger, ext := or.bridger.String(), or.ext
	if rec, found := c.k.GetOracle(h.ctx, or.addr); found {
		bridger = rec.BridgerAddress // after a bridger change the current one is the valid submitter
	}
	valid := c.sign(o.digest, or.key)
	class := confirmClasses[rng.Intn(len(confirmClasses))]
	if forceClass != "" {
		class = forceClass
	}
	sig := valid
	digest := o.digest
	k := o.key()
	target := c
	switch class {
	case "v27":
		sig = append([]byte{}, valid...)
		sig[64] += 27
	case "malleated":
		sig = malleate(valid)
	case "malleated27":
		sig = malleate(valid)
		sig[64] += 27
	case "vbad":
		sig = append([]byte{}, valid...)
		sig[64] = []byte{2, 3, 4, 26, 29, 30, 255}[rng.Intn(7)]
	case "truncated":
		sig = valid[:[]int{64, 63, 33, 32, 1}[rng.Intn(5)]]
	case "overlong":
		sig = append(append([]byte{}, valid...), byte(rng.Intn(256)))
		if rng.Intn(2) == 0 {
			sig = append(sig, valid...)
		}
	case "zero":
		sig = make([]byte, 65)
	case "random65":
		sig = make([]byte, 65)
		rng.Read(sig)
		sig[64] = byte(rng.Intn(2))
	case "other-object":
		o2 := c.objs[rng.Intn(len(c.objs))]
		if o2 == o {
			return
		}
		digest = o2.digest
		sig = c.sign(digest, or.key)
	case "neighbour-sig":
		// a valid signature of this oracle over the NEIGHBOURING object: same kind, nonce +-1, or same nonce / other token
		o2 := pickObj(rng, c.objs, func(x *objT) bool {
			return x != o && x.kind == o.kind && (x.nonce == o.nonce || x.nonce == o.nonce+1 || x.nonce+1 == o.nonce)
		})
		if o2 == nil {
			return
		}
		digest = o2.digest
		sig = c.sign(digest, or.key)
	case "other-kind-same-nonce":
		// a valid signature over the object of ANOTHER kind that has the same nonce
		o2 := pickObj(rng, c.objs, func(x *objT) bool { return x.kind != o.kind && x.nonce == o.nonce })
		if o2 == nil {
			return
		}
		digest = o2.digest
		sig = c.sign(digest, or.key)
	case "other-gid":
		g := genGid(rng)
		if g == c.gid {
			return
		}
		d, err := o.cp(g)
		if err != nil {
			return
		}
		digest = d
		sig = c.sign(digest, or.key)
	case "earlier-gid":
		// the oracle's signature over this very object under a gravity id this chain had before its parameter changed
		hist := gidHistory[c.name]
		if len(hist) < 2 {
			return
		}
		g := hist[0]
		if rng.Intn(2) == 0 {
			g = hist[len(hist)-2]
		}
		if g == c.gid {
			return
		}
		d, err := o.cp(g)
		if err != nil {
			return
		}
		digest = d
		sig = c.sign(digest, or.key)
	case "other-encoder":
		// the oracle's signature over what the encoder of the OTHER chain style yields for this very object and gravity id
		// (tron chain: the eth-style GetCheckpoint, which reads base58 address text through HexToAddress; eth-style chain: the
		// tron encoder, when it accepts hex address text at all)
		d, err := otherEncoder(c, o, c.gid)
		if err != nil || d == nil || bytes.Equal(d, o.digest) {
			h.out.Count("other-encoder:n/a")
			return
		}
		digest = d
		sig = c.sign(digest, or.key)
	case "other-chain-checkpoint":
		oc := others[rng.Intn(len(others))]
		if len(oc.objs) == 0 {
			return
		}
		digest = oc.objs[rng.Intn(len(oc.objs))].digest
		sig = c.sign(digest, or.key)
	case "no-prefix":
		// signature over the bare checkpoint, without the signed-message prefix the contract hashes
		b, err := crypto.Sign(digest, or.key)
		if err != nil {
			return
		}
		sig = b
	case "other-prefix":
		oc := &chainT{name: c.name, tron: !c.tron}
		sig = oc.sign(digest, or.key)
	case "other-key":
		k2, _ := crypto.GenerateKey()
		if len(c.oracles) > 1 && rng.Intn(2) == 0 {
			k2 = c.oracles[(or.id+1)%len(c.oracles)].key
		}
		sig = c.sign(digest, k2)
	case "wrong-bridger":
		if len(c.oracles) > 1 && rng.Intn(2) == 0 {
			bridger = c.oracles[(or.id+1)%len(c.oracles)].bridger.String()
		} else {
			bridger = helpers.GenAccAddress().String()
		}
		if bridger == or.bridger.String() {
			return
		}
	case "bridger-of-other-oracle":
		// everything of oracle A, submitted under the bridger of oracle B
		if len(c.oracles) < 2 {
			return
		}
		b := c.oracles[(or.id+1+rng.Intn(len(c.oracles)-1))%len(c.oracles)]
		if rec, found := c.k.GetOracle(h.ctx, b.addr); found {
			bridger = rec.BridgerAddress
		} else {
			bridger = b.bridger.String()
		}
	case "ext-of-other-oracle":
		// A's bridger and A's signature under the external address of oracle B
		if len(c.oracles) < 2 {
			return
		}
		ext = c.oracles[(or.id+1+rng.Intn(len(c.oracles)-1))%len(c.oracles)].ext
	case "ext-spelling":
		ext = otherSpelling(rng, ext)
		if ext == or.ext {
			return
		}
	case "swapped-identity":
		// oracle A's valid signature presented under oracle B's external address and bridger
		if len(c.oracles) < 2 {
			return
		}
		b := c.oracles[(or.id+1)%len(c.oracles)]
		bridger, ext = b.bridger.String(), b.ext
	case "self-made-identity":
		// a consistent but unregistered identity: a fresh key, ITS address as external address, its signature over the
		// right checkpoint — submitted by a registered oracle's bridger
		k2, _ := crypto.GenerateKey()
		ext = c.addrStr(crypto.PubkeyToAddress(k2.PublicKey).Bytes())
		sig = c.sign(digest, k2)
	case "unknown-ext":
		ext = c.addrStr(genAddr20(rng))
	case "missing-object":
		k.nonce = o.nonce + 1000003
		digest = c.objs[0].digest
	case "wrong-token":
		// a batch confirm right in everything (live nonce, the oracle's valid signature over that live batch) but the
		// token contract: another live batch's token, the chain's other token, or a fresh address
		o = pickObj(rng, c.objs, func(x *objT) bool { return x.kind == "batch" })
		if o == nil {
			return
		}
		k, digest = o.key(), o.digest
		sig = c.sign(digest, or.key)
		switch rng.Intn(3) {
		case 0:
			if o2 := pickObj(rng, c.objs, func(x *objT) bool { return x.kind == "batch" && x.token != o.token }); o2 != nil {
				k.token = o2.token
			} else {
				k.token = c.addrStr(genAddr20(rng))
			}
		case 1:
			k.token = c.addrStr(c.tokens[rng.Intn(len(c.tokens))])
		default:
			k.token = c.addrStr(genAddr20(rng))
		}
		if k.token == o.token {
			return
		}
	case "wrong-token-spelling":
		o = pickObj(rng, c.objs, func(x *objT) bool { return x.kind == "batch" })
		if o == nil {
			return
		}
		k, digest = o.key(), o.digest
		sig = c.sign(digest, or.key)
		k.token = otherSpelling(rng, o.token)
		if k.token == o.token {
			return
		}
	case "wrong-nonce":
		// right in everything but the nonce: a neighbouring nonce (live or not), signature over the object really meant
		switch rng.Intn(4) {
		case 0:
			k.nonce = o.nonce + 1
		case 1:
			k.nonce = o.nonce - 1
		default:
			o2 := pickObj(rng, c.objs, func(x *objT) bool { return x.kind == o.kind && x.token == o.token && x.nonce != o.nonce })
			if o2 == nil {
				return
			}
			k.nonce = o2.nonce
		}
	case "wrong-chain":
		// the confirm that is valid on this chain, delivered to another chain (which may hold an object under the same
		// key, even with the same content and gravity id, and an oracle with the same external key and bridger)
		target = others[rng.Intn(len(others))]
		if target.tron != c.tron {
			return
		}
		if rng.Intn(4) > 0 {
			// prefer an operator that also runs an oracle on the target chain (same external key)
			var shared []*oracleT
			for _, a := range c.oracles {
				for _, b := range target.oracles {
					if a.key == b.key {
						shared = append(shared, a)
					}
				}
			}
			if len(shared) > 0 {
				or = shared[rng.Intn(len(shared))]
				bridger, ext = or.bridger.String(), or.ext
				if rec, found := c.k.GetOracle(h.ctx, or.addr); found {
					bridger = rec.BridgerAddress
				}
			}
		}
		if o2 := pickObj(rng, c.objs, func(x *objT) bool { return target.has(x.kind, x.token, x.nonce) }); o2 != nil && rng.Intn(4) > 0 {
			o = o2
		}
		k, digest = o.key(), o.digest
		sig = c.sign(digest, or.key)
	case "pruned-object":
		// the oracle's valid signature over an object that was stored and has been removed
		if o = pickObj(rng, c.gone, func(x *objT) bool { return forceKind == "" || x.kind == forceKind }); o == nil {
			return
		}
		k, digest = o.key(), o.digest
		sig = c.sign(digest, or.key)
	case "nothex":
		h.sendConfirm(c, k, bridger, ext, "zz"+hex.EncodeToString(valid)[2:], digest, class)
		return
	case "empty":
		sig = nil
	}
	h.sendConfirm(target, k, bridger, ext, hex.EncodeToString(sig), digest, class)
}

// ---- pruning and registry changes ---------------------------------------------------------------------------------

func (h *hCtx) markRemoved(c *chainT, o *objT) {
	o.removed = true
	for i, x := range c.objs {
		if x == o {
			c.objs = append(c.objs[:i], c.objs[i+1:]...)
			break
		}
	}
	c.gone = append(c.gone, o)
}

func (h *hCtx) emitRemove(c *chainT, site string, o *objT, res string, before []entryT) {
	after := h.scanAll(c)
	live := 0
	if h.liveDigest(c, o.kind, o.token, o.nonce) != nil {
		live = 1
	}
	obs := fmt.Sprintf("%s %s live=%d n=%d", res, h.showStored(c, after, o.key()), live, len(after))
	h.out.Emit(fmt.Sprintf("remove %s %s %s", c.name, site, keyArgs(o.key())), obs)
	h.out.Count("remove:" + site + ":" + res)
	if res == "ok" && live == 0 {
		h.markRemoved(c, o)
	}
}

// randomRemove removes one live object through a real pruning site (in a cache context: a failing site changes nothing).
func (h *hCtx) randomRemove(c *chainT) {
	rng := h.rng
	if len(c.objs) < 3 {
		return
	}
	o := c.objs[rng.Intn(len(c.objs))]
	before := h.scanAll(c)
	bm := entriesByKey(before)
	removedKeys := map[string]bool{o.key().str(): true}
	saved := h.ctx
	cctx, write := h.ctx.CacheContext()
	site := ""
	var lower []*objT
	var f func() error
	switch o.kind {
	case "oset":
		// the two calls of pruneOracleSet (unexported, end-blocker only), in its order
		site = "pruneOracleSet"
		f = func() error {
			c.k.DeleteOracleSet(cctx, o.nonce)
			c.k.DeleteOracleSetConfirm(cctx, o.nonce)
			return nil
		}
	case "bcall":
		site = "DeleteOutgoingBridgeCallRecord"
		f = func() error { c.k.DeleteOutgoingBridgeCallRecord(cctx, o.nonce); return nil }
	default:
		if rng.Intn(2) == 0 {
			site = "CancelOutgoingTxBatch"
			f = func() error { return c.k.CancelOutgoingTxBatch(cctx, o.token, o.nonce) }
		} else {
			// executing a batch cancels every live batch of the same token with a lower nonce
			site = "OutgoingTxBatchExecuted"
			for _, x := range c.objs {
				if x.kind == "batch" && x.token == o.token && x.nonce < o.nonce {
					lower = append(lower, x)
					removedKeys[x.key().str()] = true
				}
			}
			f = func() error { c.k.OutgoingTxBatchExecuted(cctx, o.token, o.nonce); return nil }
		}
	}
	res := hx.Try(f)
	if res != "ok" {
		h.out.Count("remove-failed:" + site)
		h.out.Stats.Extra["remove_failed_"+site] = res
		return
	}
	write()
	h.ctx = saved
	h.emitRemove(c, site, o, "ok", before)
	for _, x := range lower {
		h.emitRemove(c, "CancelOutgoingTxBatch", x, "ok", before)
	}
	// monitor: pruning touches only the confirmations filed under the removed keys
	am := entriesByKey(h.scanAll(c))
	for sk, b := range bm {
		if a, ok := am[sk]; (!ok || !bytes.Equal(a.raw, b.raw)) && !removedKeys[b.key.str()] {
			h.out.Violate(fmt.Sprintf("pruning a %s removed or changed a confirmation filed under another object", o.kind))
		}
	}
	for sk := range am {
		if _, ok := bm[sk]; !ok {
			h.out.Violate(fmt.Sprintf("pruning a %s added a confirmation", o.kind))
		}
	}
}

// editBridger changes an oracle's bridger through the real MsgEditBridger.
func (h *hCtx) editBridger(c *chainT) {
	or := c.oracles[h.rng.Intn(len(c.oracles))]
	rec, found := c.k.GetOracle(h.ctx, or.addr)
	if !found {
		return
	}
	nb := helpers.GenAccAddress()
	if len(c.freeBridgers) > 0 && h.rng.Intn(2) == 0 {
		// a bridger account another oracle of this chain held earlier (free again): confirmations stored under that oracle
		// still carry it
		nb = c.freeBridgers[h.rng.Intn(len(c.freeBridgers))]
		h.out.Count("edit-bridger:reuse-freed")
	}
	msg := &types.MsgEditBridger{ChainName: c.name, OracleAddress: or.addr.String(), BridgerAddress: nb.String()}
	cctx, write := h.ctx.CacheContext()
	// MsgEditBridger.ValidateBasic parses bridger_address as a VALIDATOR address while the handler parses it as an
	// account address, so the message router rejects every well-formed MsgEditBridger in this snapshot (recorded, not
	// a C12 matter); the real handler is called directly
	if err := msg.ValidateBasic(); err != nil {
		h.out.Count("edit-bridger:basic-reject")
	}
	res := hx.Try(func() error {
		_, err := crosschainkeeper.NewMsgServerImpl(c.k).EditBridger(cctx, msg)
		return err
	})
	h.out.Count("edit-bridger:" + strings.SplitN(res, ":", 2)[0])
	if res != "ok" {
		h.out.Stats.Extra["edit_bridger_error"] = res
		return
	}
	write()
	for i, fb := range c.freeBridgers {
		if fb.Equals(nb) {
			c.freeBridgers = append(c.freeBridgers[:i], c.freeBridgers[i+1:]...)
			break
		}
	}
	if old, err := sdk.AccAddressFromBech32(rec.BridgerAddress); err == nil {
		c.freeBridgers = append(c.freeBridgers, old)
	}
	or.bridger = nb
	h.out.Emit(fmt.Sprintf("oracle %s %d %s %s", c.name, or.id, nb.String(), rec.ExternalAddress), "ok")
}

// genesisRoundTrip: ExportGenesis of the chain, the module store wiped, InitGenesis of what was exported — in a throw-away
// context.  Monitor: the import must not file a confirmation under an oracle / object that had none (a confirmation the
// oracle never submitted), nor change one; confirmations that do not survive are counted.
func (h *hCtx) genesisRoundTrip(c *chainT) {
	before := h.scanAll(c)
	cctx, _ := h.ctx.CacheContext()
	res := hx.Try(func() error {
		state := crosschainkeeper.ExportGenesis(cctx, c.k)
		st := cctx.KVStore(h.s.App.GetKey(c.name))
		var keys [][]byte
		it := st.Iterator(nil, nil)
		for ; it.Valid(); it.Next() {
			keys = append(keys, append([]byte{}, it.Key()...))
		}
		it.Close()
		for _, k := range keys {
			st.Delete(k)
		}
		crosschainkeeper.InitGenesis(cctx, c.k, state)
		return nil
	})
	h.out.Count("genesis-round-trip:" + strings.SplitN(res, ":", 2)[0])
	if res != "ok" {
		h.out.Stats.Extra["genesis_round_trip_error"] = res
		return
	}
	saved := h.ctx
	h.ctx = cctx
	after := h.scanAll(c)
	h.ctx = saved
	bm := entriesByKey(before)
	kept := 0
	for _, e := range after {
		b, ok := bm[e.storeKey]
		switch {
		case !ok:
			h.out.Violate(fmt.Sprintf("after a genesis export / import round trip a %s confirmation is stored for an oracle and object that had none: a confirmation that oracle never submitted (the import files confirmations by bridger address)", e.key.kind))
		case !bytes.Equal(b.raw, e.raw):
			h.out.Violate(fmt.Sprintf("a genesis export / import round trip changed a stored %s confirmation", e.key.kind))
		default:
			kept++
		}
	}
	h.out.Stats.Extra["genesis_round_trip_confirms_kept_of"] = fmt.Sprintf("%d/%d", kept, len(before))
	// correspondence: the model's round trip (regenerated export lists + import comparison) keeps the same number per kind
	cnt := map[string]int{}
	for _, e := range after {
		cnt[e.key.kind]++
	}
	if !c.noModel {
		h.out.Emit("genesis "+c.name, fmt.Sprintf("oset=%d batch=%d bcall=%d of=%d", cnt["oset"], cnt["batch"], cnt["bcall"], len(before)))
	}
	for _, b := range before {
		found := false
		for _, e := range after {
			if e.storeKey == b.storeKey {
				found = true
			}
		}
		if !found {
			h.out.Count("genesis-round-trip:lost:" + b.key.kind)
		}
	}
}

// genesisBridgerReuse: a deterministic history through the real handlers only — oracle A (bridger X) confirms an oracle set;
// A goes offline, leaves the proposal oracles and unbonds (real MsgUnbondedOracle: record and indexes deleted, its
// confirmations stay); a new oracle B bonds with the now free bridger account X (real MsgBondedOracle); the chain is exported
// and imported.  Monitor as in genesisRoundTrip: no confirmation may appear under an oracle that never submitted one.
func (h *hCtx) genesisBridgerReuse() {
	s := h.s
	k := s.App.EthKeeper
	name := "eth"
	cctx, _ := s.Ctx.CacheContext()
	h.ctx = cctx
	c := &chainT{name: name, k: k, ledger: map[string]*objT{}, accRec: map[string]types.Oracle{}, gid: k.GetGravityID(cctx), noModel: true}
	keyA, _ := crypto.GenerateKey()
	a := &oracleT{id: 0, addr: helpers.GenAccAddress(), bridger: helpers.GenAccAddress(), key: keyA}
	a.ext = c.addrStr(crypto.PubkeyToAddress(keyA.PublicKey).Bytes())
	threshold := k.GetOracleDelegateThreshold(cctx)
	bond := func(o *oracleT) string {
		s.MintToken(o.addr, threshold)
		msg := &types.MsgBondedOracle{OracleAddress: o.addr.String(), BridgerAddress: o.bridger.String(), ExternalAddress: o.ext,
			ValidatorAddress: s.ValAddr[0].String(), DelegateAmount: threshold, ChainName: name}
		return hx.Try(func() error {
			if err := msg.ValidateBasic(); err != nil {
				return err
			}
			_, err := s.App.MsgServiceRouter().Handler(msg)(cctx, msg)
			return err
		})
	}
	k.SetProposalOracle(cctx, &types.ProposalOracle{Oracles: []string{a.addr.String()}})
	if r := bond(a); r != "ok" {
		h.out.Stats.Extra["genesis_reuse"] = "bond A: " + r
		return
	}
	os := &types.OracleSet{Nonce: 777001, Height: 3, Members: []types.BridgeValidator{{Power: 100, ExternalAddress: a.ext}}}
	k.StoreOracleSet(cctx, os)
	cp, err := os.GetCheckpoint(c.gid)
	if err != nil {
		return
	}
	conf := &types.MsgOracleSetConfirm{Nonce: os.Nonce, BridgerAddress: a.bridger.String(), ExternalAddress: a.ext, Signature: hex.EncodeToString(c.sign(cp, keyA)), ChainName: name}
	if r := hx.Try(func() error { _, err := s.App.MsgServiceRouter().Handler(conf)(cctx, conf); return err }); r != "ok" {
		h.out.Stats.Extra["genesis_reuse"] = "confirm A: " + r
		return
	}
	// A is taken out of the oracle set by governance (UpdateChainOracles: offline + undelegated) …
	k.SetProposalOracle(cctx, &types.ProposalOracle{Oracles: []string{}})
	rec, _ := k.GetOracle(cctx, a.addr)
	rec.Online = false
	k.SetOracle(cctx, rec)
	// … its delegation is released (the staking unbonding period is not simulated: the delegation record is what the
	// handler looks at, an unbonding entry must not exist)
	un := &types.MsgUnbondedOracle{OracleAddress: a.addr.String(), ChainName: name}
	if r := hx.Try(func() error { _, err := s.App.MsgServiceRouter().Handler(un)(cctx, un); return err }); r != "ok" {
		h.out.Stats.Extra["genesis_reuse"] = "unbond A: " + r
		h.out.Count("genesis-reuse:unbond-failed")
		return
	}
	keyB, _ := crypto.GenerateKey()
	b := &oracleT{id: 1, addr: helpers.GenAccAddress(), bridger: a.bridger, key: keyB}
	b.ext = c.addrStr(crypto.PubkeyToAddress(keyB.PublicKey).Bytes())
	k.SetProposalOracle(cctx, &types.ProposalOracle{Oracles: []string{b.addr.String()}})
	if r := bond(b); r != "ok" {
		h.out.Stats.Extra["genesis_reuse"] = "bond B: " + r
		return
	}
	c.oracles = []*oracleT{a, b}
	h.out.Count("genesis-reuse:history-built")
	h.genesisRoundTrip(c)
}

// ---- set-up ------------------------------------------------------------------------------------------------------

func (h *hCtx) setupChain(name string, k crosschainkeeper.Keeper, nOracles int, prev []*chainT) *chainT {
	rng := h.rng
	c := &chainT{name: name, tron: name == trontypes.ModuleName, k: k, ledger: map[string]*objT{}, accRec: map[string]types.Oracle{}}
	c.tokens = [][]byte{genAddr20(rng), genAddr20(rng)}
	for _, pc := range prev {
		// token contracts shared with an earlier chain of the same address style (twins need the same token text)
		if pc.tron == c.tron && rng.Intn(2) == 0 {
			c.tokens = pc.tokens
		}
	}
	params := k.GetParams(h.ctx)
	params.GravityId = genGid(rng)
	if err := k.SetParams(h.ctx, &params); err != nil {
		h.t.Fatalf("SetParams: %v", err)
	}
	// the gravity id is taken from the parameters that were set, NOT read back through the keeper: the monitors must not
	// inherit a stale or otherwise wrong id from the code under test
	c.gid = params.GravityId
	if got := k.GetGravityID(h.ctx); got != c.gid {
		h.out.Violate(fmt.Sprintf("the gravity id the %s handlers compute checkpoints under is not the chain's gravity-id parameter (after the parameter was changed)", map[bool]string{true: "tron", false: "eth-style"}[c.tron]))
	}
	gidHistory[name] = append(gidHistory[name], c.gid)
	h.out.Emit(fmt.Sprintf("chain %s %s %s", name, map[bool]string{true: "tron", false: "eth"}[c.tron], gidHex(c.gid)), "ok")
	po := &types.ProposalOracle{}
	for i := 0; i < nOracles; i++ {
		key, _ := crypto.GenerateKey()
		or := &oracleT{id: i, addr: helpers.GenAccAddress(), bridger: helpers.GenAccAddress(), key: key}
		// the same operator on several chains: same external key and same bridger account
		for _, pc := range prev {
			if i < len(pc.oracles) && rng.Intn(2) == 0 {
				or.key, or.bridger = pc.oracles[i].key, pc.oracles[i].bridger
				h.out.Count("oracle:shared-identity")
			}
		}
		or.ext = c.addrStr(crypto.PubkeyToAddress(or.key.PublicKey).Bytes())
		c.oracles = append(c.oracles, or)
		po.Oracles = append(po.Oracles, or.addr.String())
	}
	k.SetProposalOracle(h.ctx, po)
	threshold := k.GetOracleDelegateThreshold(h.ctx)
	for i, or := range c.oracles {
		mode := "bonded"
		if i > 0 && rng.Intn(3) == 0 {
			mode = []string{"direct", "lowercase", "index-mismatch", "dangling-index", "offline"}[rng.Intn(5)]
		}
		if c.tron && mode == "lowercase" {
			mode = "direct"
		}
		switch mode {
		case "bonded":
			h.s.MintToken(or.addr, threshold)
			msg := &types.MsgBondedOracle{OracleAddress: or.addr.String(), BridgerAddress: or.bridger.String(), ExternalAddress: or.ext,
				ValidatorAddress: h.s.ValAddr[0].String(), DelegateAmount: threshold, ChainName: name}
			if err := msg.ValidateBasic(); err != nil {
				h.t.Fatalf("MsgBondedOracle.ValidateBasic: %v", err)
			}
			if _, err := h.s.App.MsgServiceRouter().Handler(msg)(h.ctx, msg); err != nil {
				h.t.Fatalf("BondedOracle: %v", err)
			}
			h.out.Emit(fmt.Sprintf("oracle %s %d %s %s", name, or.id, or.bridger.String(), or.ext), "ok")
			h.out.Emit(fmt.Sprintf("index %s %s %d", name, or.ext, or.id), "ok")
		case "direct", "lowercase", "offline":
			if mode == "lowercase" {
				or.ext = strings.ToLower(or.ext)
			}
			k.SetOracle(h.ctx, types.Oracle{OracleAddress: or.addr.String(), BridgerAddress: or.bridger.String(), ExternalAddress: or.ext, DelegateAmount: sdkmath.NewInt(1), Online: mode != "offline"})
			k.SetOracleAddrByBridgerAddr(h.ctx, or.bridger, or.addr)
			k.SetOracleAddrByExternalAddr(h.ctx, or.ext, or.addr)
			h.out.Emit(fmt.Sprintf("oracle %s %d %s %s", name, or.id, or.bridger.String(), or.ext), "ok")
			h.out.Emit(fmt.Sprintf("index %s %s %d", name, or.ext, or.id), "ok")
		case "index-mismatch":
			// the index maps this external address to an oracle whose record names another external address
			other := c.addrStr(genAddr20(rng))
			k.SetOracle(h.ctx, types.Oracle{OracleAddress: or.addr.String(), BridgerAddress: or.bridger.String(), ExternalAddress: other, DelegateAmount: sdkmath.NewInt(1), Online: true})
			k.SetOracleAddrByExternalAddr(h.ctx, or.ext, or.addr)
			h.out.Emit(fmt.Sprintf("oracle %s %d %s %s", name, or.id, or.bridger.String(), other), "ok")
			h.out.Emit(fmt.Sprintf("index %s %s %d", name, or.ext, or.id), "ok")
		case "dangling-index":
			k.SetOracleAddrByExternalAddr(h.ctx, or.ext, or.addr)
			h.out.Emit(fmt.Sprintf("index %s %s %d", name, or.ext, or.id), "ok")
		}
		h.out.Count("oracle:" + mode)
	}
	return c
}

func (c *chainT) has(kind, token string, nonce uint64) bool {
	_, ok := c.ledger[keyT{kind, token, nonce}.str()]
	return ok
}

func (h *hCtx) populate(c *chainT, nObj int) {
	rng := h.rng
	for i := 0; i < nObj; i++ {
		safe := rng.Intn(3) > 0
		nonce := genU64(rng)
		if safe {
			nonce = genSafeU64(rng)
		}
		kind := rng.Intn(3)
		tok := c.tokens[rng.Intn(2)]
		switch kind {
		case 0:
			if !c.has("oset", "", nonce) {
				h.storeOracleSet(c, nonce, safe)
			}
		case 1:
			if !c.has("batch", c.addrStr(tok), nonce) {
				h.storeBatch(c, tok, nonce, safe)
			}
		default:
			if !c.has("bcall", "", nonce) {
				h.storeBridgeCall(c, nonce, safe)
			}
		}
	}
}

// populateCluster stores NEIGHBOURING objects: every kind at nonce b and b+1, batches of both tokens at the same nonce and
// of one token at consecutive nonces; and twins (same key, same content) of some of them on another chain of the same
// address style.
func (h *hCtx) populateCluster(c *chainT, twinOn *chainT) {
	rng := h.rng
	b := uint64(1000 + rng.Intn(1000000))
	if rng.Intn(4) == 0 {
		b = 1<<63 - 2 // the cluster straddles the int64 boundary: b+1 = 2^63-1 is the last safe nonce
	}
	var made []*objT
	add := func(o *objT) {
		if o != nil {
			made = append(made, o)
		}
	}
	for _, n := range []uint64{b, b + 1} {
		if !c.has("oset", "", n) {
			add(h.storeOracleSet(c, n, true))
		}
		if !c.has("bcall", "", n) {
			add(h.storeBridgeCall(c, n, true))
		}
		if !c.has("batch", c.addrStr(c.tokens[0]), n) {
			add(h.storeBatch(c, c.tokens[0], n, true))
		}
	}
	if !c.has("batch", c.addrStr(c.tokens[1]), b) {
		add(h.storeBatch(c, c.tokens[1], b, true))
	}
	h.out.Count("cluster")
	if twinOn == nil || twinOn.tron != c.tron {
		return
	}
	for _, o := range made {
		if rng.Intn(2) == 0 && !twinOn.has(o.kind, o.token, o.nonce) {
			h.putTwin(twinOn, o)
			h.out.Count("twin:" + o.kind)
		}
	}
}

// ---- real transactions -------------------------------------------------------------------------------------------

func (h *hCtx) realTxs() {
	s := h.s
	k := s.App.EthKeeper
	name := "eth"
	ext, _ := crypto.GenerateKey()
	extAddr := crypto.PubkeyToAddress(ext.PublicKey).Hex()
	oracle := helpers.GenAccAddress()
	bridgerY := s.AddTestSigner(1000)
	attackerX := s.AddTestSigner(1000)
	bridgerZ := s.AddTestSigner(1000) // bridger of the oracle of case 4a
	k.SetOracle(s.Ctx, types.Oracle{OracleAddress: oracle.String(), BridgerAddress: bridgerY.AccAddress().String(), ExternalAddress: extAddr, DelegateAmount: sdkmath.NewInt(1), Online: true})
	k.SetOracleAddrByBridgerAddr(s.Ctx, bridgerY.AccAddress(), oracle)
	k.SetOracleAddrByExternalAddr(s.Ctx, extAddr, oracle)
	sets := []*types.OracleSet{}
	for n := uint64(1); n <= 4; n++ {
		os := &types.OracleSet{Nonce: 900000 + n, Height: 3, Members: []types.BridgeValidator{{Power: 100, ExternalAddress: extAddr}}}
		k.StoreOracleSet(s.Ctx, os)
		sets = append(sets, os)
	}
	gid := k.GetGravityID(s.Ctx)
	s.Commit()
	txc := s.App.GetTxConfig()
	fee := sdk.NewCoins(sdk.NewCoin(fxtypes.DefaultDenom, sdkmath.NewInt(4e12).MulRaw(500000)))
	height := s.Ctx.BlockHeight()
	deliver := func(signer *helpers.Signer, msg sdk.Msg) (uint32, string) {
		ctx := s.App.GetContextForFinalizeBlock(nil)
		acc := s.App.AccountKeeper.GetAccount(ctx, signer.AccAddress())
		tx, err := simtestutil.GenSignedMockTx(h.rng, txc, []sdk.Msg{msg}, fee, 500000, ctx.ChainID(), []uint64{acc.GetAccountNumber()}, []uint64{acc.GetSequence()}, signer.PrivKey())
		if err != nil {
			return 9999, "build: " + err.Error()
		}
		bz, err := txc.TxEncoder()(tx)
		if err != nil {
			return 9999, "encode: " + err.Error()
		}
		res, err := s.App.FinalizeBlock(&abci.RequestFinalizeBlock{Height: height, Time: tmtime.Now(), ProposerAddress: s.Ctx.BlockHeader().ProposerAddress, Txs: [][]byte{bz}})
		if err != nil {
			h.t.Fatalf("FinalizeBlock: %v", err)
		}
		if _, err := s.App.Commit(); err != nil {
			h.t.Fatalf("Commit: %v", err)
		}
		height++
		// prepare the next block's finalize state (as helpers.BaseSuite.Commit does)
		if _, err := s.App.ProcessProposal(&abci.RequestProcessProposal{Height: height, Time: tmtime.Now(), ProposerAddress: s.Ctx.BlockHeader().ProposerAddress}); err != nil {
			h.t.Fatalf("ProcessProposal: %v", err)
		}
		return res.TxResults[0].Code, res.TxResults[0].Log
	}
	stored := func(nonce uint64) bool {
		return k.GetOracleSetConfirm(s.App.GetContextForFinalizeBlock(nil), nonce, oracle) != nil
	}
	mk := func(os *types.OracleSet, bridger string) *types.MsgOracleSetConfirm {
		cp, err := os.GetCheckpoint(gid)
		if err != nil {
			h.t.Fatal(err)
		}
		sig, _ := types.NewEthereumSignature(cp, ext)
		return &types.MsgOracleSetConfirm{Nonce: os.Nonce, BridgerAddress: bridger, ExternalAddress: extAddr, Signature: hex.EncodeToString(sig), ChainName: name}
	}
	y := bridgerY.AccAddress().String()
	x := attackerX.AccAddress().String()
	// 1. plain confirm naming bridger Y, transaction signed by X
	code, _ := deliver(attackerX, mk(sets[0], y))
	h.out.Count(fmt.Sprintf("tx:plain-signed-by-stranger:code=%d", code))
	if stored(sets[0].Nonce) {
		h.out.ViolateWith("a confirm transaction signed by an account that is not the oracle's bridger stored a confirmation (plain MsgOracleSetConfirm, signer X, bridger_address Y)",
			[]string{"tx MsgOracleSetConfirm{bridger_address: Y} signed by X"})
	}
	// 2. MsgConfirm wrapper: wrapper bridger X (the required signer), inner bridger Y
	any1, _ := codectypes.NewAnyWithValue(mk(sets[1], y))
	code, _ = deliver(attackerX, &types.MsgConfirm{ChainName: name, BridgerAddress: x, Confirm: any1})
	h.out.Count(fmt.Sprintf("tx:wrapper-signed-by-stranger:code=%d", code))
	if stored(sets[1].Nonce) {
		h.out.ViolateWith("a confirm transaction signed by an account that is not the oracle's bridger stored a confirmation (MsgConfirm wrapper: bridger_address X signs, inner confirm names bridger Y)",
			[]string{"tx MsgConfirm{bridger_address: X, confirm: MsgOracleSetConfirm{bridger_address: Y, valid oracle signature}} signed by X"})
	}
	// 3. MsgConfirm wrapper on another chain name than the inner confirm
	any2, _ := codectypes.NewAnyWithValue(mk(sets[2], y))
	code, _ = deliver(bridgerY, &types.MsgConfirm{ChainName: "bsc", BridgerAddress: y, Confirm: any2})
	h.out.Count(fmt.Sprintf("tx:wrapper-other-chain:code=%d", code))
	if s.App.BscKeeper.GetOracleSetConfirm(s.App.GetContextForFinalizeBlock(nil), sets[2].Nonce, oracle) != nil {
		h.out.ViolateWith("a MsgConfirm routed to another chain than its inner confirm stored a confirmation there", []string{"tx MsgConfirm{chain_name: bsc, confirm{chain_name: eth}}"})
	}
	// 4. the honest transaction: plain confirm signed by Y
	code, log := deliver(bridgerY, mk(sets[3], y))
	h.out.Count(fmt.Sprintf("tx:plain-signed-by-bridger:code=%d", code))
	if code != 0 || !stored(sets[3].Nonce) {
		h.out.Stats.Extra["honest_tx_log"] = log
		h.out.ViolateWith("a confirm transaction signed by the oracle's bridger carrying the oracle's valid signature over the stored object was rejected (no confirmation can be stored)", []string{log})
	}
	// 4a. (round 5) message validation gates the handler for TRANSACTIONS: an oracle whose registry entry (written directly)
	// spells its external address in lower case — the handler alone would accept its confirm (index, record and recovered
	// signer all agree on that text); `ValidateBasic` (run by baseapp before any handler) admits only the canonical spelling
	{
		ext2, _ := crypto.GenerateKey()
		low := strings.ToLower(crypto.PubkeyToAddress(ext2.PublicKey).Hex())
		oracle2 := helpers.GenAccAddress()
		z := bridgerZ.AccAddress().String()
		os6 := &types.OracleSet{Nonce: 900020, Height: 3, Members: []types.BridgeValidator{{Power: 100, ExternalAddress: extAddr}}}
		// registry and object are written through a transaction-free route on the finalize state, then committed with an empty block
		fctx := s.App.GetContextForFinalizeBlock(nil)
		k.SetOracle(fctx, types.Oracle{OracleAddress: oracle2.String(), BridgerAddress: z, ExternalAddress: low, DelegateAmount: sdkmath.NewInt(1), Online: true})
		k.SetOracleAddrByBridgerAddr(fctx, bridgerZ.AccAddress(), oracle2)
		k.SetOracleAddrByExternalAddr(fctx, low, oracle2)
		k.StoreOracleSet(fctx, os6)
		cp6, _ := os6.GetCheckpoint(gid)
		sig6, _ := types.NewEthereumSignature(cp6, ext2)
		m6 := &types.MsgOracleSetConfirm{Nonce: os6.Nonce, BridgerAddress: z, ExternalAddress: low, Signature: hex.EncodeToString(sig6), ChainName: name}
		// in-process, the handler alone (on a branch): accepted?
		bctx, _ := fctx.CacheContext()
		inproc := hx.Try(func() error { return k.ConfirmHandler(bctx, m6) })
		if strings.HasPrefix(inproc, "err:") {
			inproc = errKind(fmt.Errorf("%s", inproc[4:]))
		}
		h.out.Count("tx:noncanonical-external:handler-alone=" + inproc)
		code, _ := deliver(bridgerZ, m6)
		h.out.Count(fmt.Sprintf("tx:noncanonical-external:code=%d", code))
		if k.GetOracleSetConfirm(s.App.GetContextForFinalizeBlock(nil), os6.Nonce, oracle2) != nil {
			h.out.ViolateWith("a confirm transaction naming a non-canonical spelling of the external address (message validation must reject it: the confirmation would be filed and de-duplicated under a second text for one address) stored a confirmation",
				[]string{"registry entry with lower-case external address; tx MsgOracleSetConfirm{external_address: lower-case hex, valid signature} signed by the oracle's bridger"})
		}
		// an empty signature text never reaches the handler either
		m7 := &types.MsgOracleSetConfirm{Nonce: os6.Nonce, BridgerAddress: y, ExternalAddress: extAddr, Signature: "", ChainName: name}
		code, _ = deliver(bridgerY, m7)
		h.out.Count(fmt.Sprintf("tx:empty-signature:code=%d", code))
		if code == 0 {
			h.out.ViolateWith("a confirm transaction with an empty signature text was accepted", []string{"tx MsgOracleSetConfirm{signature: \"\"} signed by the oracle's bridger"})
		}
	}
	s.Ctx = s.App.GetContextForFinalizeBlock(nil)
	// 5. in-process only (not a transaction): the router called with a wrapper whose Any was built in memory.  The wrapper's
	// bridger_address is never compared with the inner one; recorded, not a violation (no transaction reaches this).
	os5 := &types.OracleSet{Nonce: 900009, Height: 3, Members: []types.BridgeValidator{{Power: 100, ExternalAddress: extAddr}}}
	cctx, _ := s.Ctx.CacheContext()
	k.StoreOracleSet(cctx, os5)
	any5, _ := codectypes.NewAnyWithValue(mk(os5, y))
	w5 := &types.MsgConfirm{ChainName: name, BridgerAddress: x, Confirm: any5}
	_, err5 := s.App.MsgServiceRouter().Handler(w5)(cctx, w5)
	res5 := "rejected"
	if err5 == nil && k.GetOracleSetConfirm(cctx, os5.Nonce, oracle) != nil {
		res5 = "stored"
	}
	h.out.Count("inproc:wrapper-mismatch:" + res5)
	h.out.Stats.Extra["inproc_wrapper_bridger_mismatch"] = res5
}

// ---- test --------------------------------------------------------------------------------------------------------

func TestC12(t *testing.T) {
	seed := hx.Seed()
	rng := rand.New(rand.NewSource(seed))
	out := hx.NewOut()
	defer out.Close("correspondence: real GetCheckpoint (eth-style x2, tron) vs Keccak-256 of the model's ABI pre-image from the regenerated Go/tron/Solidity layouts; real confirm handlers through the message router vs the handler model (result kind + stored confirms); monitors: stored confirm re-verifies under the oracle's registered key and bridger, one entry per oracle and object never replaced, transactions not signed by the oracle's bridger store nothing. non-trivial = distinct (object kind, signature class, outcome, chain style)")

	s := hx.NewSuite(t, 1)
	sites := loadSolSites()
	out.Stats.Extra["solidity_sites_loaded"] = len(sites)
	solPrefix := loadSolPrefix()
	out.Stats.Extra["solidity_verifySig_prefixes_loaded"] = len(solPrefix)
	solVerify := loadSolVerify()
	out.Stats.Extra["solidity_verifySig_loaded"] = len(solVerify)
	nSeq := hx.N(40, 300)
	big_ := 40
	nObj, nConf := 8, 90
	if hx.Tier() == "thorough" {
		big_, nObj, nConf = 150, 12, 150
	}
	for q := 0; q < nSeq; q++ {
		out.Reset()
		cctx, _ := s.Ctx.CacheContext()
		h := &hCtx{t: t, s: s, out: out, rng: rng, ctx: cctx, big_: big_, sites: sites, solPrefix: solPrefix, solVerify: solVerify}
		var chains []*chainT
		chains = append(chains, h.setupChain("eth", s.App.EthKeeper, 1+rng.Intn(4), chains))
		chains = append(chains, h.setupChain("bsc", s.App.BscKeeper, 1+rng.Intn(3), chains))
		chains = append(chains, h.setupChain("tron", s.App.TronKeeper, 1+rng.Intn(4), chains))
		if rng.Intn(3) == 0 {
			// same gravity id on two chains: only the objects' content separates them
			p := chains[1].k.GetParams(h.ctx)
			p.GravityId = chains[0].gid
			_ = chains[1].k.SetParams(h.ctx, &p)
			chains[1].gid = chains[0].gid
			gidHistory["bsc"] = append(gidHistory["bsc"], chains[1].gid)
			if got := chains[1].k.GetGravityID(h.ctx); got != chains[1].gid {
				out.Violate("the gravity id the eth-style handlers compute checkpoints under is not the chain's gravity-id parameter (after the parameter was changed)")
			}
			out.Emit(fmt.Sprintf("chain bsc eth %s", gidHex(chains[1].gid)), "ok")
			out.Count("same-gravity-id")
			// the model re-creates the chain: replay its registry
			for _, or := range chains[1].oracles {
				rec, found := chains[1].k.GetOracle(h.ctx, or.addr)
				if found {
					out.Emit(fmt.Sprintf("oracle bsc %d %s %s", or.id, rec.BridgerAddress, rec.ExternalAddress), "ok")
				}
				if a, ok := chains[1].k.GetOracleAddrByExternalAddr(h.ctx, or.ext); ok && a.Equals(or.addr) {
					out.Emit(fmt.Sprintf("index bsc %s %d", or.ext, or.id), "ok")
				}
			}
		}
		if rng.Intn(3) == 0 {
			// a padding twin: tron / bsc gets the gravity id of eth followed by NUL bytes — another text, the same bytes32
			h.paddingTwin(chains[0], chains[1+rng.Intn(2)])
		}
		for _, c := range chains {
			h.populate(c, nObj)
		}
		h.gidStream()
		for _, c := range chains {
			h.timeoutStream(c)
			h.buildStream(c)
			h.vbStream(c)
		}
		h.populateCluster(chains[0], chains[1])
		if rng.Intn(2) == 0 {
			h.populateCluster(chains[1], chains[0])
		}
		if rng.Intn(2) == 0 {
			h.populateCluster(chains[2], nil)
		}
		if q < 3 {
			// systematic part: on chain q, a few prunings first (so that pruned objects exist), then every class x kind
			ci := q % len(chains)
			var others []*chainT
			for j, c := range chains {
				if j != ci {
					others = append(others, c)
				}
			}
			for i := 0; i < 6; i++ {
				h.randomRemove(chains[ci])
			}
			h.sweep(chains[ci], others)
		}
		for i := 0; i < nConf; i++ {
			ci := rng.Intn(len(chains))
			var others []*chainT
			for j, c := range chains {
				if j != ci {
					others = append(others, c)
				}
			}
			switch r := rng.Intn(100); {
			case r < 6:
				h.randomRemove(chains[ci])
			case r < 9:
				h.editBridger(chains[ci])
			case r < 13:
				h.discardedBranch(chains[ci])
			default:
				h.randomConfirm(chains[ci], others)
			}
		}
		// systematic: one discarded branch on the chain of this sequence's turn
		h.discardedBranch(chains[q%len(chains)])
		h.aliasPair(chains[(q+1)%len(chains)])
		for _, c := range chains {
			h.gidChange(c)
		}
		for _, c := range chains {
			h.verifyAll(c)
		}
		if q%4 == 0 {
			for _, c := range chains {
				h.genesisRoundTrip(c)
			}
		}
	}
	out.Reset()
	h := &hCtx{t: t, s: s, out: out, rng: rng, ctx: s.Ctx}
	if os.Getenv("VERIF_C12_GENESIS_REUSE") == "1" {
		h.genesisBridgerReuse()
		out.Reset()
		h.ctx = s.Ctx
	}
	h.realTxs()
}
