package c12

// C12 round 4: where the padded and cast values of the checkpoints come from, against the REAL code:
//
//  * gid stream: arbitrary texts (empty, 1 byte, 31/32/33 bytes, NUL bytes, non-ASCII, multi-byte UTF-8, pairs sharing their
//    first 32 bytes, pairs differing in padding only) through the real fxtypes.StrToByte32 and Params.ValidateBasic vs the
//    model's regenerated `StrToByte32` / gravity-id checks; monitors: an admitted id is packed as its text right-padded with
//    zeros to 32 bytes; two admitted ids that differ in a non-padding byte are never packed as the same bytes32;
//  * timeout stream: the real CalExternalTimeoutHeight under boundary heights and parameters (wrap-arounds included) vs the
//    regenerated statement list;
//  * build stream: objects produced by the REAL builders — BuildOutgoingBridgeCall + AddOutgoingBridgeCallWithoutBuild,
//    BuildOutgoingTxBatch (pool filled through AddUnbatchedTx), GetCurrentOracleSet + AddOracleSetRequest — under chosen
//    counters / heights / parameters, vs the model's field sources; monitor: in an ordinary environment (counters and event
//    nonce below 2^63, external height below 2^62) no uint64 field of a built object reaches 2^63; the built objects then
//    join the chain's objects and are confirmed by the ordinary confirm stream.

import (
	"bytes"
	"encoding/binary"
	"encoding/hex"
	"fmt"
	"math"
	"math/rand"
	"sort"
	"strings"

	sdkmath "cosmossdk.io/math"
	sdk "github.com/cosmos/cosmos-sdk/types"
	"github.com/ethereum/go-ethereum/common"

	"github.com/functionx/fx-core/v8/testutil/helpers"
	fxtypes "github.com/functionx/fx-core/v8/types"
	crosschainkeeper "github.com/functionx/fx-core/v8/x/crosschain/keeper"
	"github.com/functionx/fx-core/v8/x/crosschain/types"

	"fxverif/harness/hx"
)

func stripNul(s string) string { return strings.TrimRight(s, "\x00") }

func genText(rng *rand.Rand) string {
	var n int
	switch rng.Intn(10) {
	case 0:
		n = 0
	case 1:
		n = 1
	case 2:
		n = 31
	case 3:
		n = 32
	case 4:
		n = 33
	case 5:
		n = 34 + rng.Intn(40)
	default:
		n = 1 + rng.Intn(32)
	}
	b := make([]byte, n)
	for i := range b {
		switch rng.Intn(12) {
		case 0:
			b[i] = 0
		case 1:
			b[i] = byte(128 + rng.Intn(128))
		default:
			b[i] = byte(33 + rng.Intn(90))
		}
	}
	return string(b)
}

// paramsWithGid: the default parameters with another gravity id (what a genesis / MsgUpdateParams would be validated as)
func paramsWithGid(g string) *types.Params {
	p := types.DefaultParams()
	p.GravityId = g
	return &p
}

func (h *hCtx) gidObserve(text string) (word []byte, valid bool) {
	w, err := fxtypes.StrToByte32(text)
	obs := "err"
	if err == nil {
		word = w[:]
		obs = hex.EncodeToString(word)
	}
	valid = paramsWithGid(text).ValidateBasic() == nil
	h.out.Emit("gid "+hx.HexS(text), obs+" "+map[bool]string{true: "valid", false: "invalid"}[valid])
	h.out.Count(fmt.Sprintf("gid:len=%s:%v", lenClass(len(text)), valid))
	if valid {
		// monitor: the bytes32 of an admitted gravity id is its text right-padded with zeros (how the bridge contract's
		// state_fxBridgeId is configured from the same text)
		own := make([]byte, 32)
		copy(own, text)
		if len(text) > 32 || word == nil || !bytes.Equal(own, word) {
			h.out.Violate("a gravity id admitted by Params.ValidateBasic is not packed as its text right-padded with zero bytes to 32 bytes (StrToByte32)")
		}
	}
	return word, valid
}

func lenClass(n int) string {
	switch {
	case n == 0:
		return "0"
	case n < 31:
		return "1-30"
	case n <= 33:
		return fmt.Sprint(n)
	}
	return ">33"
}

func (h *hCtx) gidStream() {
	rng := h.rng
	for i := 0; i < 4; i++ {
		h.gidObserve(genText(rng))
	}
	// pairs: boundary-biased relatives of one text
	for i := 0; i < 3; i++ {
		a := genText(rng)
		if len(a) == 0 {
			a = "x"
		}
		var b string
		switch rng.Intn(6) {
		case 0:
			b = a + "\x00" // padding only
		case 1:
			b = a + "\x00\x00\x00"
		case 2: // same first 32 bytes, different tails
			base := (a + strings.Repeat("p", 32))[:32]
			a, b = base+"A", base+"B"
		case 3: // same first 31 bytes, differ in byte 32
			base := (a + strings.Repeat("q", 32))[:31]
			a, b = base+"A", base+"B"
		case 4:
			b = a[:len(a)-1]
		default:
			bb := []byte(a)
			bb[len(bb)-1] ^= 1
			b = string(bb)
		}
		wa, va := h.gidObserve(a)
		wb, vb := h.gidObserve(b)
		if va && vb && wa != nil && bytes.Equal(wa, wb) {
			if stripNul(a) != stripNul(b) {
				h.out.Violate("two gravity ids admitted by Params.ValidateBasic that differ in a non-padding byte are packed as the same bytes32: every signature for one of the two chain ids is valid for the other")
			} else if a != b {
				h.out.Count("gid:padding-collision-admitted")
			}
		}
	}
}

// paddingTwin gives chain c2 the gravity id of c1 followed by NUL bytes (another text, admitted, the same bytes32).
func (h *hCtx) paddingTwin(c1, c2 *chainT) {
	if len(c1.gid) >= 32 {
		return
	}
	g := c1.gid + strings.Repeat("\x00", 1+h.rng.Intn(32-len(c1.gid)))
	p := c2.k.GetParams(h.ctx)
	p.GravityId = g
	if err := c2.k.SetParams(h.ctx, &p); err != nil {
		h.out.Count("padding-twin:rejected")
		return
	}
	c2.gid = g
	gidHistory[c2.name] = append(gidHistory[c2.name], g)
	h.out.Emit(fmt.Sprintf("chain %s %s %s", c2.name, map[bool]string{true: "tron", false: "eth"}[c2.tron], gidHex(g)), "ok")
	h.out.Count("padding-twin-gravity-id")
	for _, or := range c2.oracles {
		rec, found := c2.k.GetOracle(h.ctx, or.addr)
		if found {
			h.out.Emit(fmt.Sprintf("oracle %s %d %s %s", c2.name, or.id, rec.BridgerAddress, rec.ExternalAddress), "ok")
		}
		if a, ok := c2.k.GetOracleAddrByExternalAddr(h.ctx, or.ext); ok && a.Equals(or.addr) {
			h.out.Emit(fmt.Sprintf("index %s %s %d", c2.name, or.ext, or.id), "ok")
		}
	}
}

// ---- CalExternalTimeoutHeight -------------------------------------------------------------------------------------------

type tinT struct {
	fx                        int64
	last, ext, ab, ae, tparam uint64
}

func pickU(rng *rand.Rand, xs ...uint64) uint64 { return xs[rng.Intn(len(xs))] }

func genTin(rng *rand.Rand, bcall, ordinary bool) tinT {
	var t tinT
	t.fx = int64(pickU(rng, 1, 2, 1000, uint64(1+rng.Intn(1000000)), 1<<62, math.MaxInt64))
	t.last = pickU(rng, 0, 1, uint64(t.fx)-1, uint64(t.fx), uint64(t.fx)+5, uint64(rng.Intn(1000)), math.MaxUint64)
	if ordinary {
		t.ext = pickU(rng, 1, 2, uint64(1+rng.Intn(100000000)), 1<<62-1, 1<<61)
	} else {
		t.ext = pickU(rng, 0, 1, uint64(rng.Intn(100000000)), 1<<62-1, 1<<62, 1<<63-1, 1<<63, math.MaxUint64, 1<<63-uint64(rng.Intn(1<<20)))
	}
	t.ab = pickU(rng, 100, 101, 7000, uint64(100+rng.Intn(100000)), math.MaxUint64)
	t.ae = pickU(rng, 100, 101, 12000, uint64(100+rng.Intn(100000)), math.MaxUint64)
	min := uint64(60000)
	if bcall {
		min = 3_600_001
	}
	t.tparam = pickU(rng, min, min+1, 43_200_000, min+uint64(rng.Intn(1<<30)), math.MaxUint64)
	return t
}

func (t tinT) args() string {
	return fmt.Sprintf("%d %d %d %d %d %d", t.fx, t.last, t.ext, t.ab, t.ae, t.tparam)
}

// apply writes the inputs CalExternalTimeoutHeight reads; the gravity id of the chain is kept
func (h *hCtx) applyTin(ctx sdk.Context, c *chainT, t tinT, bcall bool) (sdk.Context, bool) {
	p := c.k.GetParams(ctx)
	p.AverageBlockTime, p.AverageExternalBlockTime = t.ab, t.ae
	if bcall {
		p.BridgeCallTimeout = t.tparam
	} else {
		p.ExternalBatchTimeout = t.tparam
	}
	if err := c.k.SetParams(ctx, &p); err != nil {
		return ctx, false
	}
	c.k.SetLastObservedBlockHeight(ctx, t.ext, t.last)
	return ctx.WithBlockHeight(t.fx), true
}

func (h *hCtx) timeoutStream(c *chainT) {
	for i := 0; i < 3; i++ {
		bcall := h.rng.Intn(2) == 0
		t := genTin(h.rng, bcall, false)
		cctx, _ := h.ctx.CacheContext()
		cctx, ok := h.applyTin(cctx, c, t, bcall)
		if !ok {
			h.out.Count("timeout:params-rejected")
			continue
		}
		cb := crosschainkeeper.GetExternalBatchTimeout
		if bcall {
			cb = crosschainkeeper.GetBridgeCallTimeout
		}
		var got uint64
		res := hx.Try(func() error { got = c.k.CalExternalTimeoutHeight(cctx, cb); return nil })
		obs := fmt.Sprint(got)
		if res != "ok" {
			obs = "panic"
		}
		h.out.Emit("timeout "+t.args(), obs)
		switch {
		case got >= 1<<63:
			h.out.Count("timeout:above-int64")
		case t.last > uint64(t.fx):
			h.out.Count("timeout:wrapped-product")
		default:
			h.out.Count("timeout:plain")
		}
		if res == "ok" && got >= 1<<63 && t.ext < 1<<62 {
			h.out.Violate("CalExternalTimeoutHeight yields a timeout above 2^63-1 although the last observed external height is below 2^62 and the parameters passed validation: the int64 cast of the checkpoint encoders makes the signed digest differ from the contract's")
		}
	}
}

// ---- the real builders ---------------------------------------------------------------------------------------------------

func (h *hCtx) setCounter(c *chainT, key []byte, v uint64) {
	st := h.ctx.KVStore(h.s.App.GetKey(c.name))
	st.Set(key, sdk.Uint64ToBigEndian(v))
}

func (h *hCtx) readCounter(c *chainT, key []byte) (uint64, bool) {
	bz := h.ctx.KVStore(h.s.App.GetKey(c.name)).Get(key)
	if bz == nil {
		return 0, false
	}
	return binary.BigEndian.Uint64(bz), true
}

func genCounter(rng *rand.Rand, ordinary bool) uint64 {
	if ordinary {
		return pickU(rng, 2, uint64(2+rng.Intn(100000)), 1<<63-1, 1<<62)
	}
	return pickU(rng, 1<<63, 1<<63+uint64(rng.Intn(1000)), math.MaxUint64-1)
}

func (h *hCtx) buildStream(c *chainT) {
	rng := h.rng
	saved := h.ctx
	defer func() { h.ctx = saved }()
	for i := 0; i < 4; i++ {
		ordinary := rng.Intn(4) > 0
		switch rng.Intn(3) {
		case 0:
			h.buildBridgeCall(c, ordinary)
		case 1:
			h.buildBatch(c, ordinary)
		default:
			h.buildOracleSet(c, ordinary)
		}
		h.ctx = saved
	}
}

func (h *hCtx) builtMonitor(kind string, ordinary bool, fields ...uint64) {
	for _, f := range fields {
		if f >= 1<<63 && ordinary {
			h.out.Violate(fmt.Sprintf("a %s produced by the real builder in an ordinary environment (counters and event nonce below 2^63, last observed external height below 2^62, validated parameters) has a uint64 field above 2^63-1: the checkpoint fxcore signs for it (int64 cast) is not the digest the bridge contract recomputes", kind))
			return
		}
	}
}

// counterAdvanced: after a builder drew nonce n the stored counter is n+1, so the next object gets another key
func (h *hCtx) counterAdvanced(c *chainT, key []byte, n uint64, kind string) {
	if v, ok := h.readCounter(c, key); !ok || v != n+1 {
		h.out.Violate(fmt.Sprintf("after a %s was built with nonce n the id counter is not n+1: the next %s is stored under the key of this one, whose confirmations then name another object than the one they were verified against", kind, kind))
	}
}

func buildErr(err error) string {
	if strings.Contains(err.Error(), "timeout height") {
		return "err:timeout"
	}
	return "err:other:" + strings.ReplaceAll(err.Error(), " ", "_")
}

func (h *hCtx) buildBridgeCall(c *chainT, ordinary bool) {
	rng := h.rng
	t := genTin(rng, true, ordinary)
	cnt, cntArg := uint64(0), "-"
	if cur, set := h.readCounter(c, types.KeyLastBridgeCallID); set && rng.Intn(2) == 0 {
		cnt, cntArg = cur, fmt.Sprint(cur) // the counter runs on from the previous build
		h.out.Count("build:bcall:counter-runs-on")
	} else if set || rng.Intn(3) > 0 {
		cnt = genCounter(rng, ordinary || rng.Intn(2) == 0)
		h.setCounter(c, types.KeyLastBridgeCallID, cnt)
		cntArg = fmt.Sprint(cnt)
	}
	expectNonce := cnt
	if cntArg == "-" {
		expectNonce = 1
	}
	if c.has("bcall", "", expectNonce) {
		h.out.Count("build:bcall:skipped-key-in-use")
		return
	}
	evn := genSafeU64(rng)
	if !ordinary && rng.Intn(2) == 0 {
		evn = genU64(rng)
	}
	ctx, ok := h.applyTin(h.ctx, c, t, true)
	if !ok {
		h.out.Count("build:params-rejected")
		return
	}
	h.ctx = ctx
	var toks []types.ERC20Token
	for j := genLen(rng, 5); j > 0; j-- {
		toks = append(toks, types.ERC20Token{Contract: c.addrStr(genAddr20(rng)), Amount: genAmount(rng)})
	}
	bc, err := c.k.BuildOutgoingBridgeCall(ctx, common.BytesToAddress(genAddr20(rng)), common.BytesToAddress(genAddr20(rng)), toks,
		common.BytesToAddress(genAddr20(rng)), genBytes(rng, 200), genBytes(rng, 100), evn)
	op := fmt.Sprintf("build bcall %s %s %d", cntArg, t.args(), evn)
	if err != nil {
		h.out.Emit(op, buildErr(err))
		h.out.Count("build:bcall:err")
		return
	}
	h.out.Emit(op, fmt.Sprintf("%d %d %d", bc.Nonce, bc.Timeout, bc.EventNonce))
	h.counterAdvanced(c, types.KeyLastBridgeCallID, bc.Nonce, "bridge call")
	c.k.AddOutgoingBridgeCallWithoutBuild(ctx, bc)
	env := ordinary && cnt < 1<<63 && evn < 1<<63 && t.ext < 1<<62
	h.builtMonitor("bridge call", env, bc.Nonce, bc.Timeout, bc.EventNonce)
	h.out.Count(fmt.Sprintf("build:bcall:ordinary=%v", env))
	h.putBridgeCall(c, bc)
}

func (h *hCtx) buildBatch(c *chainT, ordinary bool) {
	rng := h.rng
	t := genTin(rng, false, ordinary)
	cnt, cntArg := uint64(0), "-"
	if cur, set := h.readCounter(c, types.KeyLastOutgoingBatchID); set && rng.Intn(2) == 0 {
		cnt, cntArg = cur, fmt.Sprint(cur)
		h.out.Count("build:batch:counter-runs-on")
	} else if set || rng.Intn(3) > 0 {
		cnt = genCounter(rng, ordinary || rng.Intn(2) == 0)
		h.setCounter(c, types.KeyLastOutgoingBatchID, cnt)
		cntArg = fmt.Sprint(cnt)
	}
	expectNonce := cnt
	if cntArg == "-" {
		expectNonce = 1
	}
	tb := make([]byte, 20) // a token of its own (never one of the special addresses): no earlier batch to be more profitable than
	rng.Read(tb)
	token := c.addrStr(tb)
	if c.has("batch", token, expectNonce) {
		return
	}
	// one batch per block (StoreBatch): stay clear of the block numbers the hand-made batches use, never re-use a height
	if t.fx < 1_000_000 {
		t.fx += 1_000_000
	}
	if h.ctx.KVStore(h.s.App.GetKey(c.name)).Has(types.GetOutgoingTxBatchBlockKey(uint64(t.fx))) {
		h.out.Count("build:batch:skipped-block-in-use")
		return
	}
	ctx, ok := h.applyTin(h.ctx, c, t, false)
	if !ok {
		h.out.Count("build:params-rejected")
		return
	}
	h.ctx = ctx
	n := 1 + genLen(rng, 6)
	for j := 0; j < n; j++ {
		c.txID++
		tx := &types.OutgoingTransferTx{Id: c.txID, Sender: helpers.GenAccAddress().String(), DestAddress: c.addrStr(genAddr20(rng)),
			Token: types.ERC20Token{Contract: token, Amount: genAmount(rng)}, Fee: types.ERC20Token{Contract: token, Amount: sdkmath.NewInt(int64(rng.Intn(1000000)))}} // fees are summed (256-bit checked)
		if err := c.k.AddUnbatchedTx(ctx, tx); err != nil {
			h.t.Fatalf("AddUnbatchedTx: %v", err)
		}
	}
	b, err := c.k.BuildOutgoingTxBatch(ctx, token, c.addrStr(genAddr20(rng)), 100, sdkmath.ZeroInt(), sdkmath.ZeroInt())
	op := fmt.Sprintf("build batch %s %s 0", cntArg, t.args())
	if err != nil {
		h.out.Emit(op, buildErr(err))
		h.out.Count("build:batch:err")
		return
	}
	h.out.Emit(op, fmt.Sprintf("%d %d -", b.BatchNonce, b.BatchTimeout))
	h.counterAdvanced(c, types.KeyLastOutgoingBatchID, b.BatchNonce, "batch")
	env := ordinary && cnt < 1<<63 && t.ext < 1<<62
	h.builtMonitor("batch", env, b.BatchNonce, b.BatchTimeout)
	h.out.Count(fmt.Sprintf("build:batch:ordinary=%v", env))
	h.registerBatch(c, b, b)
	h.halfStoredBatch(c, ctx.BlockHeight())
}

func (h *hCtx) buildOracleSet(c *chainT, ordinary bool) {
	rng := h.rng
	latest := pickU(rng, 0, 1, uint64(rng.Intn(100000)), 1<<63-2)
	if !ordinary {
		latest = pickU(rng, 1<<63-1, 1<<63, math.MaxUint64-1)
	}
	if c.has("oset", "", latest+1) {
		return
	}
	c.k.SetLatestOracleSetNonce(h.ctx, latest)
	var ps []string
	var total uint64
	for _, or := range c.k.GetAllOracles(h.ctx, true) {
		p := or.GetPower()
		if p.IsPositive() {
			total += p.Uint64()
		}
		ps = append(ps, p.String())
	}
	var os *types.OracleSet
	res := hx.Try(func() error { os = c.k.GetCurrentOracleSet(h.ctx); return nil })
	op := fmt.Sprintf("curoset %d %s", latest, joinOrDash(ps))
	if res != "ok" {
		h.out.Emit(op, "panic")
		return
	}
	var vs []uint64
	for _, m := range os.Members {
		vs = append(vs, m.Power)
	}
	sort.Slice(vs, func(i, j int) bool { return vs[i] < vs[j] })
	var vt []string
	for _, v := range vs {
		vt = append(vt, fmt.Sprint(v))
	}
	h.out.Emit(op, fmt.Sprintf("%d %s", os.Nonce, joinOrDash(vt)))
	h.out.Count(fmt.Sprintf("build:oset:members=%d:ordinary=%v", len(os.Members), ordinary))
	h.builtMonitor("oracle set", ordinary && total > 0, append([]uint64{os.Nonce}, vs...)...)
	if len(os.Members) == 0 {
		return
	}
	c.k.AddOracleSetRequest(h.ctx, os)
	h.putOracleSet(c, os)
}
