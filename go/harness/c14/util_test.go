package c14

import (
	stakingkeeper "github.com/cosmos/cosmos-sdk/x/staking/keeper"
)

func stakingQuerier(w *world) stakingkeeper.Querier {
	return stakingkeeper.NewQuerier(w.s.App.StakingKeeper.Keeper)
}
