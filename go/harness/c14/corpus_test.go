package c14

// corpus replay: an op-line interpreter for the plain operations of the C14 script language (the lines the harness emits and the
// Lean driver reads).  A corpus file (corpus/C14/*.ops) is executed on a fresh world — same actors as every generated sequence
// (1..6 users, 7..9 vesting, 11..13 ethereum-key, 14..16 dual, 17/18 addresses without account), no random funding: the file's
// own `mint` lines fund the accounts — through the same executors and monitors as the generated sequences, and every line is
// compared with the model.  `#` starts a comment; set-up lines (reset / val / key / acct / vest) are produced by the world, not read.

import (
	"fmt"
	"math/rand"
	"os"
	"path/filepath"
	"sort"
	"strconv"
	"strings"
	"testing"

	sdkmath "cosmossdk.io/math"
	sdk "github.com/cosmos/cosmos-sdk/types"
	authtypes "github.com/cosmos/cosmos-sdk/x/auth/types"
	banktypes "github.com/cosmos/cosmos-sdk/x/bank/types"
	distrtypes "github.com/cosmos/cosmos-sdk/x/distribution/types"
	govtypes "github.com/cosmos/cosmos-sdk/x/gov/types"
	govv1 "github.com/cosmos/cosmos-sdk/x/gov/types/v1"
	govv1beta1 "github.com/cosmos/cosmos-sdk/x/gov/types/v1beta1"
	stakingtypes "github.com/cosmos/cosmos-sdk/x/staking/types"
	sdktx "github.com/cosmos/cosmos-sdk/types/tx"

	"fxverif/harness/hx"
)

func replayCorpus(t *testing.T, out *hx.Out) {
	dir := os.Getenv("VERIF_CORPUS")
	if dir == "" {
		return
	}
	files, _ := filepath.Glob(filepath.Join(dir, "*.ops"))
	sort.Strings(files)
	for _, f := range files {
		bz, err := os.ReadFile(f)
		if err != nil {
			continue
		}
		w := newWorld(t, out, rand.New(rand.NewSource(20260930)))
		w.bare = true
		w.reset()
		name := strings.TrimSuffix(filepath.Base(f), ".ops")
		out.Count("corpus:" + name)
		for n, line := range strings.Split(string(bz), "\n") {
			if i := strings.Index(line, "#"); i >= 0 {
				line = line[:i]
			}
			ws := strings.Fields(line)
			if len(ws) == 0 {
				continue
			}
			if !w.replayLine(ws) {
				out.Violate(fmt.Sprintf("harness: corpus %s line %d is not a replayable op line: %s", name, n+1, strings.Join(ws, " ")))
				break
			}
		}
	}
}

func (w *world) replayLine(ws []string) bool {
	num := func(i int) (int, bool) {
		if i >= len(ws) {
			return 0, false
		}
		n, err := strconv.Atoi(ws[i])
		return n, err == nil
	}
	amt := func(i int) (sdkmath.Int, bool) {
		if i >= len(ws) {
			return sdkmath.Int{}, false
		}
		return sdkmath.NewIntFromString(ws[i])
	}
	act := func(i int) *actor {
		id, ok := num(i)
		if !ok {
			return nil
		}
		return w.byID[id]
	}
	val := func(i int) (int, bool) {
		id, ok := num(i)
		if !ok || id < 100 || id >= 100+len(w.vals) {
			return 0, false
		}
		return id - 100, true
	}
	switch ws[0] {
	case "reset", "val", "key", "acct", "vest":
		return true // produced by the world itself
	case "mint":
		a := act(1)
		di, ok1 := num(2)
		n, ok2 := amt(3)
		if a == nil || !ok1 || !ok2 || di >= len(w.denoms) {
			return false
		}
		w.s.MintToken(a.addr, sdk.NewCoin(w.denoms[di], n))
		w.emit(fmt.Sprintf("mint %d %d %s", a.id, di, n), "ok")
	case "send":
		a, b := act(1), act(2)
		di, ok1 := num(3)
		n, ok2 := amt(4)
		if a == nil || b == nil || !ok1 || !ok2 || di >= len(w.denoms) {
			return false
		}
		res := w.exec(&banktypes.MsgSend{FromAddress: a.addr.String(), ToAddress: b.addr.String(), Amount: sdk.NewCoins(sdk.NewCoin(w.denoms[di], n))})
		w.emit(fmt.Sprintf("send %d %d %d %s", a.id, b.id, di, n), kind(res))
	case "delegate":
		a := act(1)
		vi, ok1 := val(2)
		n, ok2 := amt(3)
		if a == nil || !ok1 || !ok2 {
			return false
		}
		res, rw := w.withReward(a, func() sdkmath.Int { return n }, func() string {
			return w.exec(&stakingtypes.MsgDelegate{DelegatorAddress: a.addr.String(), ValidatorAddress: w.valStr(vi), Amount: w.coin(n)})
		})
		w.emit(fmt.Sprintf("delegate %d %d %s %s", a.id, 100+vi, n, rw), kind(res))
	case "undelegate":
		a := act(1)
		vi, ok1 := val(2)
		n, ok2 := amt(3)
		if a == nil || !ok1 || !ok2 {
			return false
		}
		res, rw := w.withReward(a, func() sdkmath.Int { return sdkmath.ZeroInt() }, func() string {
			return w.exec(&stakingtypes.MsgUndelegate{DelegatorAddress: a.addr.String(), ValidatorAddress: w.valStr(vi), Amount: w.coin(n)})
		})
		w.emit(fmt.Sprintf("undelegate %d %d %s %s", a.id, 100+vi, n, rw), kind(res))
	case "redelegate":
		a := act(1)
		src, ok1 := val(2)
		dst, ok2 := val(3)
		n, ok3 := amt(4)
		if a == nil || !ok1 || !ok2 || !ok3 {
			return false
		}
		res, rw := w.withReward(a, func() sdkmath.Int { return sdkmath.ZeroInt() }, func() string {
			return w.exec(&stakingtypes.MsgBeginRedelegate{DelegatorAddress: a.addr.String(), ValidatorSrcAddress: w.valStr(src), ValidatorDstAddress: w.valStr(dst), Amount: w.coin(n)})
		})
		w.emit(fmt.Sprintf("redelegate %d %d %d %s %s 0", a.id, 100+src, 100+dst, n, rw), kind(res))
	case "withdraw":
		a := act(1)
		vi, ok1 := val(2)
		if a == nil || !ok1 {
			return false
		}
		res, rw := w.withReward(a, func() sdkmath.Int { return sdkmath.ZeroInt() }, func() string {
			return w.exec(&distrtypes.MsgWithdrawDelegatorReward{DelegatorAddress: a.addr.String(), ValidatorAddress: w.valStr(vi)})
		})
		w.emit(fmt.Sprintf("withdraw %d %d %s", a.id, 100+vi, rw), kind(res))
	case "setwd":
		a, b := act(1), act(2)
		if a == nil || b == nil {
			return false
		}
		res := w.exec(&distrtypes.MsgSetWithdrawAddress{DelegatorAddress: a.addr.String(), WithdrawAddress: b.addr.String()})
		if res != "ok" {
			return false
		}
		w.emit(fmt.Sprintf("setwd %d %d", a.id, b.id), "ok")
	case "submit":
		a := act(1)
		dep, ok := amt(2)
		if a == nil || !ok {
			return false
		}
		content, _ := govv1beta1.ContentFromProposalType("title", "description", "Text")
		legacy, err := govv1.NewLegacyContent(content, authtypes.NewModuleAddress(govtypes.ModuleName).String())
		must(err)
		anys, err := sdktx.SetMsgs([]sdk.Msg{legacy})
		must(err)
		res := w.exec(&govv1.MsgSubmitProposal{Messages: anys, InitialDeposit: sdk.NewCoins(w.coin(dep)), Proposer: a.addr.String(), Title: "title", Summary: "description"})
		w.emit(fmt.Sprintf("submit %d %s", a.id, dep), kind(res))
	case "deposit":
		a := act(1)
		id, ok1 := num(2)
		n, ok2 := amt(3)
		if a == nil || !ok1 || !ok2 {
			return false
		}
		res := w.exec(&govv1.MsgDeposit{ProposalId: uint64(id), Depositor: a.addr.String(), Amount: sdk.NewCoins(w.coin(n))})
		w.emit(fmt.Sprintf("deposit %d %d %s", a.id, id, n), kind(res))
	case "vote":
		a := act(1)
		id, ok1 := num(2)
		if a == nil || !ok1 {
			return false
		}
		res := w.exec(&govv1.MsgVote{ProposalId: uint64(id), Voter: a.addr.String(), Option: govv1.OptionYes})
		w.emit(fmt.Sprintf("vote %d %d", a.id, id), kind(res))
	case "block":
		dt, ok := num(1)
		if !ok || dt < 1 {
			return false
		}
		w.opBlock(int64(dt))
	case "setperiods":
		dp, ok1 := num(1)
		vp, ok2 := num(2)
		if !ok1 || !ok2 {
			return false
		}
		w.setPeriods(int64(dp), int64(vp))
	case "setunbond":
		n, ok := num(1)
		if !ok {
			return false
		}
		w.opUnbondTime(int64(n))
	case "genesis":
		w.opGenesisRoundTrip()
	case "migrate":
		// migrate <from> <to> <signer> <order>: the pair signature is made by <signer>'s ethereum key (0 = no signature) over
		// prefix ++ from ++ to (order ft) or prefix ++ to ++ from (order tf)
		fromID, ok1 := num(1)
		to := act(2)
		signer, ok2 := num(3)
		if !ok1 || !ok2 || to == nil || len(ws) != 5 || (ws[4] != "ft" && ws[4] != "tf") {
			return false
		}
		var fromAddr sdk.AccAddress
		if fromID == 100 {
			fromAddr = sdk.AccAddress(w.vals[0])
		} else if a := w.byID[fromID]; a != nil {
			fromAddr = a.addr
		} else {
			return false
		}
		mode, sig := "ok", ""
		switch {
		case signer == 0:
			mode = "none"
		default:
			sa := w.byID[signer]
			if sa == nil || sa.eth == nil {
				return false
			}
			if ws[4] == "tf" {
				mode = "swap"
				sig = w.sign(sa.eth, to.addr, fromAddr)
			} else {
				if signer != to.id {
					mode = "other"
				}
				sig = w.sign(sa.eth, fromAddr, to.addr)
			}
		}
		w.migrate(fromID, fromAddr, to, signer, ws[4], sig, mode)
	default:
		return false
	}
	return true
}
