// Package c14: correspondence harness for property C14 (account migration).  Drives the real in-process fxcore app
// (real bank, staking, distribution, gov, migrate) through random portfolios, governance involvement at every stage of
// a proposal's life, migrations signed by the real ethereum key of the target, and later activity with real blocks
// whose time passes the unbonding period.  After every op it prints a canonical observation of exactly the records the
// Lean model tracks (read from the raw stores) and evaluates the property monitors on the real state.
package c14

import (
	"bytes"
	"crypto/ecdsa"
	"encoding/binary"
	"encoding/hex"
	"fmt"
	"math/big"
	"math/rand"
	"os"
	"sort"
	"strings"
	"testing"
	"time"

	"cosmossdk.io/collections"
	sdkmath "cosmossdk.io/math"
	abci "github.com/cometbft/cometbft/abci/types"
	cmtproto "github.com/cometbft/cometbft/proto/tendermint/types"
	cryptocodec "github.com/cosmos/cosmos-sdk/crypto/codec"
	"github.com/cosmos/cosmos-sdk/crypto/keys/secp256k1"
	sdk "github.com/cosmos/cosmos-sdk/types"
	"github.com/cosmos/cosmos-sdk/types/bech32"
	sdktx "github.com/cosmos/cosmos-sdk/types/tx"
	authtypes "github.com/cosmos/cosmos-sdk/x/auth/types"
	vestingtypes "github.com/cosmos/cosmos-sdk/x/auth/vesting/types"
	banktypes "github.com/cosmos/cosmos-sdk/x/bank/types"
	distrtypes "github.com/cosmos/cosmos-sdk/x/distribution/types"
	govtypes "github.com/cosmos/cosmos-sdk/x/gov/types"
	govv1 "github.com/cosmos/cosmos-sdk/x/gov/types/v1"
	govv1beta1 "github.com/cosmos/cosmos-sdk/x/gov/types/v1beta1"
	slashingtypes "github.com/cosmos/cosmos-sdk/x/slashing/types"
	stakingtypes "github.com/cosmos/cosmos-sdk/x/staking/types"
	"github.com/ethereum/go-ethereum/common"
	"github.com/ethereum/go-ethereum/crypto"
	ethermint "github.com/evmos/ethermint/types"

	"context"

	"github.com/cosmos/cosmos-sdk/types/tx/signing"
	authsigning "github.com/cosmos/cosmos-sdk/x/auth/signing"
	clienttx "github.com/cosmos/cosmos-sdk/client/tx"

	"fxverif/harness/hx"

	fxcontract "github.com/functionx/fx-core/v8/contract"
	fxtypes "github.com/functionx/fx-core/v8/types"
	migratemodule "github.com/functionx/fx-core/v8/x/migrate"
	migratetypes "github.com/functionx/fx-core/v8/x/migrate/types"
)

const (
	unbondSecs = 300
	depSecs    = 200
	voteSecs   = 400
	idBonded   = 901
	idNotBond  = 902
	idGov      = 904
)

var e18 = sdkmath.NewInt(1_000_000_000_000_000_000)

type actor struct {
	id   int
	addr sdk.AccAddress
	eth  *ecdsa.PrivateKey // non-nil for ethereum-key accounts (possible targets)
	dual bool              // an ethereum-key account that also has an auth account with a secp256k1 key (possible source AND target)
	vest *vestSpec         // non-nil for vesting accounts (they only send, receive and migrate)
	priv *secp256k1.PrivKey // the secp256k1 key of the auth account (users, vesting and dual accounts): signs transactions
}

// a vesting schedule, times in seconds relative to the world's clock, denominations as indexes into world.denoms
type vestSpec struct {
	kind        int // 0 delayed, 1 continuous, 2 periodic, 3 permanently locked
	start, stop int64
	orig        []sdkmath.Int   // per denom index (zero = none)
	periods     []vestPeriod    // periodic only
}

type vestPeriod struct {
	length int64
	amt    []sdkmath.Int
}

type migRec struct{ from, to *actor }

type world struct {
	t      *testing.T
	s      *hx.Suite
	out    *hx.Out
	rng    *rand.Rand
	t0     time.Time
	now    int64
	actors []*actor // users (1..), eth accounts (11..)
	byID   map[int]*actor
	idOf   map[string]int // raw 20 bytes -> id
	vals   []sdk.ValAddress
	denoms []string
	minDep sdkmath.Int
	gone   map[int]bool // addresses already used in a migration
	hist   []migRec     // accepted migrations, in order
	spell  *spelling    // how the next migration spells its target (nil = canonical EIP-55 hex, the CLI's form)
	junk   int          // ids handed to addresses that are no actor (what HexToAddress makes of a non-hex string)
	bare   bool         // corpus replay: no random funding at reset (the corpus file's own mint lines fund the accounts)
	mute   bool         // op lines are no longer emitted (the history left the model's scope: a validator was slashed); monitors still run
}

// a spelling of the target string of MsgMigrateAccount
type spelling struct {
	name string
	str  string
}

// every spelling class of a 20-byte target: hex (checksummed / lower / upper / without 0x), bech32 (account prefix / another
// prefix / upper case), and strings that spell nothing (empty, too short, too long)
func (w *world) spellings(addr sdk.AccAddress) []spelling {
	canon := common.BytesToAddress(addr).Hex()
	other, err := bech32.ConvertAndEncode("cosmos", addr)
	must(err)
	return []spelling{
		{"hex-checksum", canon},
		{"hex-lower", strings.ToLower(canon)},
		{"hex-upper", "0x" + strings.ToUpper(canon[2:])},
		{"hex-bare", canon[2:]},
		{"bech32-account", addr.String()},
		{"bech32-other-hrp", other},
		{"bech32-upper", strings.ToUpper(addr.String())},
		{"empty", ""},
		{"short", canon[:12]},
		{"long", canon + "00"},
	}
}

// class of a spelling, decided by the dependency functions themselves: 0 = canonical hex (ValidateEthereumAddress accepts),
// 1 = another hex spelling (IsHexAddress), 2 = bech32 of 20 bytes with the account prefix, 3 = nothing of these;
// the bytes it spells; and what HexToAddress (total) makes of it
func (w *world) classify(str string) (cls int, bytesID int, hexID int) {
	hexAddr := common.HexToAddress(str)
	hexID = w.idOrJunk(hexAddr.Bytes())
	switch {
	case fxcontract.ValidateEthereumAddress(str) == nil:
		return 0, hexID, hexID
	case common.IsHexAddress(str):
		return 1, hexID, hexID
	}
	if a, err := sdk.AccAddressFromBech32(str); err == nil && len(a) == common.AddressLength {
		return 2, w.idOrJunk(a), hexID
	}
	return 3, 0, hexID
}

func (w *world) idOrJunk(b []byte) int {
	if i, ok := w.idOf[string(b)]; ok {
		return i
	}
	w.junk++
	w.idOf[string(b)] = 200 + w.junk
	return 200 + w.junk
}

func (w *world) time() time.Time { return w.t0.Add(time.Duration(w.now) * time.Second) }

func (w *world) id(b []byte) int {
	if i, ok := w.idOf[string(b)]; ok {
		return i
	}
	return -1
}

// ---------------------------------------------------------------------------------------------------------
// blocks with controlled time

func (w *world) commitInfo() abci.CommitInfo {
	ci := abci.CommitInfo{Round: 1}
	for _, val := range w.s.ValSet.Validators {
		pk, err := cryptocodec.FromCmtPubKeyInterface(val.PubKey)
		if err != nil {
			panic(err)
		}
		ci.Votes = append(ci.Votes, abci.VoteInfo{
			Validator:   abci.Validator{Address: pk.Address(), Power: val.VotingPower},
			BlockIdFlag: cmtproto.BlockIDFlagCommit,
		})
		si := slashingtypes.NewValidatorSigningInfo(sdk.ConsAddress(pk.Address()), w.s.Ctx.BlockHeight(), 0, time.Unix(0, 0), false, 0)
		if err := w.s.App.SlashingKeeper.SetValidatorSigningInfo(w.s.Ctx, sdk.ConsAddress(pk.Address()), si); err != nil {
			panic(err)
		}
	}
	return ci
}

// endBlock finalises the current block at the current time (begin/end blockers of every module run on the real app),
// commits, and opens the next block dt seconds later.
func (w *world) endBlock(dt int64) { w.endBlockTxs(dt, nil) }

// endBlockTxs: as endBlock, the block carrying the given signed transactions (delivered by the real FinalizeBlock: ante
// handler with signature verification, ValidateBasic, message router)
func (w *world) endBlockTxs(dt int64, txs [][]byte) []*abci.ExecTxResult {
	ci := w.commitInfo()
	h := w.s.Ctx.BlockHeight()
	prop := w.s.Ctx.BlockHeader().ProposerAddress
	fres, err := w.s.App.FinalizeBlock(&abci.RequestFinalizeBlock{Height: h, Time: w.time(), ProposerAddress: prop, DecidedLastCommit: ci, Txs: txs})
	if err != nil {
		panic(err)
	}
	if _, err := w.s.App.Commit(); err != nil {
		panic(err)
	}
	w.now += dt
	if _, err := w.s.App.ProcessProposal(&abci.RequestProcessProposal{Height: h + 1, Time: w.time(), ProposerAddress: prop, ProposedLastCommit: ci}); err != nil {
		panic(err)
	}
	w.s.Ctx = w.s.App.GetContextForFinalizeBlock(nil)
	return fres.TxResults
}

// ---------------------------------------------------------------------------------------------------------
// set-up

func newWorld(t *testing.T, out *hx.Out, rng *rand.Rand) *world {
	w := &world{t: t, out: out, rng: rng, byID: map[int]*actor{}, idOf: map[string]int{}, gone: map[int]bool{}}
	w.s = hx.NewSuite(t, 3)
	w.t0 = time.Unix(1_800_000_000, 0).UTC()
	w.denoms = []string{fxtypes.DefaultDenom, "usdx", "eurx"}
	// first real block brings the app into the normal regime with our clock
	w.s.Commit()
	w.endBlock(1)
	w.now = 0
	w.t0 = w.t0.Add(time.Second)
	ctx := w.s.Ctx

	sp, err := w.s.App.StakingKeeper.GetParams(ctx)
	must(err)
	sp.UnbondingTime = unbondSecs * time.Second
	must(w.s.App.StakingKeeper.SetParams(ctx, sp))

	gp, err := w.s.App.GovKeeper.Keeper.Params.Get(ctx)
	must(err)
	w.minDep = sdkmath.NewInt(1000).Mul(e18)
	gp.MinDeposit = sdk.NewCoins(sdk.NewCoin(fxtypes.DefaultDenom, w.minDep))
	d1, d2 := depSecs*time.Second, voteSecs*time.Second
	gp.MaxDepositPeriod = &d1
	gp.VotingPeriod = &d2
	gp.MinInitialDepositRatio = "0"
	gp.MinDepositRatio = "0"
	gp.BurnVoteQuorum = false
	gp.BurnProposalDepositPrevote = false
	must(w.s.App.GovKeeper.Keeper.Params.Set(ctx, gp))

	for i, v := range w.s.ValAddr {
		w.vals = append(w.vals, v)
		w.idOf[string(v)] = 100 + i
	}
	for i := 0; i < 6; i++ {
		secret := make([]byte, 32)
		rng.Read(secret)
		pk := secp256k1.GenPrivKeyFromSecret(secret)
		a := &actor{id: 1 + i, addr: sdk.AccAddress(pk.PubKey().Address().Bytes()), priv: pk}
		var pub = pk.PubKey()
		if i == 5 {
			pub = nil // an account without public key: cannot be a migration source
		}
		acc := &ethermint.EthAccount{
			BaseAccount: authtypes.NewBaseAccount(a.addr, pub, w.s.App.AccountKeeper.NextAccountNumber(ctx), 0),
			CodeHash:    common.BytesToHash(crypto.Keccak256(nil)).String(),
		}
		w.s.App.AccountKeeper.SetAccount(ctx, acc)
		w.add(a)
	}
	// vesting accounts 7, 8, 9 (secp256k1 key: plausible sources) with schedules around the time scale of a sequence
	for i := 0; i < 3; i++ {
		secret := make([]byte, 32)
		rng.Read(secret)
		pk := secp256k1.GenPrivKeyFromSecret(secret)
		a := &actor{id: 7 + i, addr: sdk.AccAddress(pk.PubKey().Address().Bytes())}
		a.vest = w.newVestSpec(i)
		base := authtypes.NewBaseAccount(a.addr, pk.PubKey(), w.s.App.AccountKeeper.NextAccountNumber(ctx), 0)
		w.s.App.AccountKeeper.SetAccount(ctx, w.vestingAccount(base, a.vest))
		w.add(a)
	}
	for i := 0; i < 8; i++ { // 11..13 ethereum-key accounts, 14..16 dual, 17 and 18 ethereum addresses that do not exist on chain (never funded)
		var k *ecdsa.PrivateKey
		for k == nil {
			bz := make([]byte, 32)
			rng.Read(bz)
			k, _ = crypto.ToECDSA(bz)
		}
		a := &actor{id: 11 + i, addr: sdk.AccAddress(crypto.PubkeyToAddress(k.PublicKey).Bytes()), eth: k}
		if i >= 3 && i < 6 {
			// dual: the address also carries an auth account with a secp256k1 key, so that it can stand on either side of
			// a migration (old source as target, old target as source, a pair reversed)
			secret := make([]byte, 32)
			rng.Read(secret)
			pk := secp256k1.GenPrivKeyFromSecret(secret)
			a.dual = true
			a.priv = pk
			w.s.App.AccountKeeper.SetAccount(ctx, &ethermint.EthAccount{
				BaseAccount: authtypes.NewBaseAccount(a.addr, pk.PubKey(), w.s.App.AccountKeeper.NextAccountNumber(ctx), 0),
				CodeHash:    common.BytesToHash(crypto.Keccak256(nil)).String(),
			})
		}
		w.add(a)
	}
	// the operator account of validator 0 gets a public key so that the validator check (not the account check) answers
	{
		secret := make([]byte, 32)
		rng.Read(secret)
		pk := secp256k1.GenPrivKeyFromSecret(secret)
		old := w.s.App.AccountKeeper.GetAccount(ctx, sdk.AccAddress(w.vals[0]))
		if old != nil && old.GetPubKey() == nil {
			must(old.SetPubKey(pk.PubKey()))
			w.s.App.AccountKeeper.SetAccount(ctx, old)
		}
	}
	return w
}

// newVestSpec: schedule kinds and boundaries are drawn per world; amounts are whole tokens and the linear schedules
// last 100/200/500/1000 s so that the SDK's decimal arithmetic is exact
func (w *world) newVestSpec(i int) *vestSpec {
	v := &vestSpec{}
	switch i {
	case 0:
		v.kind = 1 + w.rng.Intn(2) // continuous | periodic
	case 1:
		v.kind = []int{0, 0, 0, 3}[w.rng.Intn(4)] // delayed | permanently locked
	default:
		v.kind = w.rng.Intn(4)
	}
	v.orig = []sdkmath.Int{w.amt(100 + w.rng.Int63n(800)), sdkmath.ZeroInt(), sdkmath.ZeroInt()}
	if w.rng.Intn(2) == 0 {
		v.orig[1] = w.amt(10 + w.rng.Int63n(90))
	}
	v.start = hx.Pick(w.rng, []int64{0, 0, 30})
	switch v.kind {
	case 0:
		v.stop = hx.Pick(w.rng, []int64{40, 150, 400, 900})
	case 1:
		v.stop = v.start + hx.Pick(w.rng, []int64{100, 200, 500, 1000})
	case 2:
		n := 2 + w.rng.Intn(2)
		left := append([]sdkmath.Int{}, v.orig...)
		t := v.start
		for k := 0; k < n; k++ {
			p := vestPeriod{length: hx.Pick(w.rng, []int64{40, 100, 150}), amt: make([]sdkmath.Int, len(v.orig))}
			for di := range v.orig {
				if k == n-1 {
					p.amt[di] = left[di]
				} else {
					p.amt[di] = left[di].QuoRaw(int64(n - k)).Quo(e18).Mul(e18)
				}
				left[di] = left[di].Sub(p.amt[di])
			}
			t += p.length
			v.periods = append(v.periods, p)
		}
		v.stop = t
	case 3:
		v.stop = 0
	}
	return v
}

func (w *world) coinsOf(amts []sdkmath.Int) sdk.Coins {
	var cs sdk.Coins
	for di, a := range amts {
		if a.IsPositive() {
			cs = cs.Add(sdk.NewCoin(w.denoms[di], a))
		}
	}
	return cs
}

func (w *world) vestingAccount(base *authtypes.BaseAccount, v *vestSpec) sdk.AccountI {
	orig := w.coinsOf(v.orig)
	unix := func(t int64) int64 { return w.t0.Unix() + t }
	var acc sdk.AccountI
	var err error
	switch v.kind {
	case 0:
		acc, err = vestingtypes.NewDelayedVestingAccount(base, orig, unix(v.stop))
	case 1:
		acc, err = vestingtypes.NewContinuousVestingAccount(base, orig, unix(v.start), unix(v.stop))
	case 2:
		var ps vestingtypes.Periods
		for _, p := range v.periods {
			ps = append(ps, vestingtypes.Period{Length: p.length, Amount: w.coinsOf(p.amt)})
		}
		acc, err = vestingtypes.NewPeriodicVestingAccount(base, orig, unix(v.start), ps)
	default:
		acc, err = vestingtypes.NewPermanentLockedAccount(base, orig)
	}
	must(err)
	return acc
}

func coinsLine(amts []sdkmath.Int) string {
	var out []string
	for di, a := range amts {
		if a.IsPositive() {
			out = append(out, fmt.Sprintf("%d:%s", di, a))
		}
	}
	if len(out) == 0 {
		return "-"
	}
	return strings.Join(out, ",")
}

func (v *vestSpec) line(id int) string {
	per := "-"
	if len(v.periods) > 0 {
		var ps []string
		for _, p := range v.periods {
			ps = append(ps, fmt.Sprintf("%d/%s", p.length, coinsLine(p.amt)))
		}
		per = strings.Join(ps, ";")
	}
	return fmt.Sprintf("vest %d %d %d %d %s %s", id, v.kind, v.start, v.stop, coinsLine(v.orig), per)
}

func (w *world) add(a *actor) {
	w.actors = append(w.actors, a)
	w.byID[a.id] = a
	w.idOf[string(a.addr)] = a.id
}

func must(err error) {
	if err != nil {
		panic(err)
	}
}

// ---------------------------------------------------------------------------------------------------------
// reading the real state

func readLP(b []byte) ([]byte, []byte) { // length-prefixed field
	if len(b) == 0 || len(b) < 1+int(b[0]) {
		return nil, nil
	}
	return b[1 : 1+int(b[0])], b[1+int(b[0]):]
}

type item struct {
	k []int64
	s string
}

func show(tag string, items []item) string {
	sort.Slice(items, func(i, j int) bool {
		a, b := items[i].k, items[j].k
		for x := 0; x < len(a) && x < len(b); x++ {
			if a[x] != b[x] {
				return a[x] < b[x]
			}
		}
		return len(a) < len(b)
	})
	ss := make([]string, len(items))
	for i, it := range items {
		ss[i] = it.s
	}
	return tag + "[" + strings.Join(ss, " ") + "]"
}

func (w *world) secs(t time.Time) int64 { return int64(t.Sub(w.t0) / time.Second) }

func (w *world) fx(c sdk.Coins) sdkmath.Int { return c.AmountOf(fxtypes.DefaultDenom) }

func (w *world) observedAccounts() []struct {
	id   int
	addr sdk.AccAddress
} {
	var res []struct {
		id   int
		addr sdk.AccAddress
	}
	for _, a := range w.actors {
		res = append(res, struct {
			id   int
			addr sdk.AccAddress
		}{a.id, a.addr})
	}
	for id, name := range map[int]string{idBonded: stakingtypes.BondedPoolName, idNotBond: stakingtypes.NotBondedPoolName, idGov: govtypes.ModuleName} {
		res = append(res, struct {
			id   int
			addr sdk.AccAddress
		}{id, authtypes.NewModuleAddress(name)})
	}
	return res
}

func (w *world) observe() string {
	ctx := w.s.Ctx
	app := w.s.App
	cdc := app.AppCodec()
	sk := app.GetKey(stakingtypes.StoreKey)
	dk := app.GetKey(distrtypes.StoreKey)
	var parts []string
	parts = append(parts, fmt.Sprintf("T=%d", w.now))

	var it []item
	for _, a := range w.observedAccounts() {
		for di, d := range w.denoms {
			amt := app.BankKeeper.GetBalance(ctx, a.addr, d).Amount
			if amt.IsPositive() {
				it = append(it, item{[]int64{int64(a.id), int64(di)}, fmt.Sprintf("%d/%d=%s", a.id, di, amt)})
			}
		}
	}
	parts = append(parts, show("B", it))

	it = nil
	for i, v := range w.vals {
		val, err := app.StakingKeeper.GetValidator(ctx, v)
		must(err)
		it = append(it, item{[]int64{int64(100 + i)}, fmt.Sprintf("%d=%s", 100+i, val.Tokens)})
	}
	parts = append(parts, show("VT", it))

	it = nil
	for _, kv := range hx.RawPrefix(ctx, sk, stakingtypes.DelegationKey) {
		d, rest := readLP(kv[0][1:])
		v, _ := readLP(rest)
		di, vi := w.id(d), w.id(v)
		if di < 0 || di >= 100 {
			continue
		}
		del := stakingtypes.MustUnmarshalDelegation(cdc, kv[1])
		it = append(it, item{[]int64{int64(di), int64(vi)}, fmt.Sprintf("%d/%d=%s", di, vi, del.Shares.TruncateInt())})
		w.checkValueOwner("delegation", del.DelegatorAddress, d)
	}
	parts = append(parts, show("D", it))

	it = nil
	for _, kv := range hx.RawPrefix(ctx, sk, stakingtypes.DelegationByValIndexKey) {
		v, rest := readLP(kv[0][1:])
		di, vi := w.id(rest), w.id(v)
		if di < 0 || di >= 100 {
			continue
		}
		it = append(it, item{[]int64{int64(vi), int64(di)}, fmt.Sprintf("%d/%d", vi, di)})
	}
	parts = append(parts, show("DI", it))

	it = nil
	for _, kv := range hx.RawPrefix(ctx, dk, distrtypes.DelegatorStartingInfoPrefix) {
		v, d := distrtypes.GetDelegatorStartingInfoAddresses(kv[0])
		di, vi := w.id(d), w.id(v)
		if di < 0 || di >= 100 {
			continue
		}
		var si distrtypes.DelegatorStartingInfo
		cdc.MustUnmarshal(kv[1], &si)
		it = append(it, item{[]int64{int64(vi), int64(di)}, fmt.Sprintf("%d/%d=%d/%s", vi, di, si.PreviousPeriod, si.Stake.TruncateInt())})
	}
	parts = append(parts, show("SI", it))

	it = nil
	for _, kv := range hx.RawPrefix(ctx, sk, stakingtypes.UnbondingDelegationKey) {
		d, rest := readLP(kv[0][1:])
		v, _ := readLP(rest)
		ubd := stakingtypes.MustUnmarshalUBD(cdc, kv[1])
		var es []string
		for _, e := range ubd.Entries {
			es = append(es, fmt.Sprintf("%d:%s:%d", w.secs(e.CompletionTime), e.Balance, e.UnbondingId))
		}
		it = append(it, item{[]int64{int64(w.id(d)), int64(w.id(v))}, fmt.Sprintf("%d/%d=%s", w.id(d), w.id(v), strings.Join(es, ";"))})
		w.checkValueOwner("unbonding delegation", ubd.DelegatorAddress, d)
	}
	parts = append(parts, show("U", it))

	it = nil
	for _, kv := range hx.RawPrefix(ctx, sk, stakingtypes.UnbondingDelegationByValIndexKey) {
		v, rest := readLP(kv[0][1:])
		d, _ := readLP(rest)
		it = append(it, item{[]int64{int64(w.id(v)), int64(w.id(d))}, fmt.Sprintf("%d/%d", w.id(v), w.id(d))})
	}
	parts = append(parts, show("UI", it))

	it = nil
	for _, kv := range hx.RawPrefix(ctx, sk, stakingtypes.UnbondingQueueKey) {
		ts, err := sdk.ParseTimeBytes(kv[0][1:])
		must(err)
		var ps stakingtypes.DVPairs
		cdc.MustUnmarshal(kv[1], &ps)
		var es []string
		for _, p := range ps.Pairs {
			es = append(es, fmt.Sprintf("%d/%d", w.idBech(p.DelegatorAddress), w.idVal(p.ValidatorAddress)))
		}
		it = append(it, item{[]int64{w.secs(ts)}, fmt.Sprintf("%d=%s", w.secs(ts), strings.Join(es, ";"))})
	}
	parts = append(parts, show("UQ", it))

	it = nil
	for _, kv := range hx.RawPrefix(ctx, sk, stakingtypes.RedelegationKey) {
		d, rest := readLP(kv[0][1:])
		a, rest := readLP(rest)
		b, _ := readLP(rest)
		red := stakingtypes.MustUnmarshalRED(cdc, kv[1])
		var es []string
		for _, e := range red.Entries {
			es = append(es, fmt.Sprintf("%d:%s:%d", w.secs(e.CompletionTime), e.InitialBalance, e.UnbondingId))
		}
		it = append(it, item{[]int64{int64(w.id(d)), int64(w.id(a)), int64(w.id(b))}, fmt.Sprintf("%d/%d/%d=%s", w.id(d), w.id(a), w.id(b), strings.Join(es, ";"))})
		w.checkValueOwner("redelegation", red.DelegatorAddress, d)
	}
	parts = append(parts, show("R", it))

	for _, x := range []struct {
		tag string
		pfx []byte
	}{{"RS", stakingtypes.RedelegationByValSrcIndexKey}, {"RD", stakingtypes.RedelegationByValDstIndexKey}} {
		it = nil
		for _, kv := range hx.RawPrefix(ctx, sk, x.pfx) {
			a, rest := readLP(kv[0][1:])
			d, rest := readLP(rest)
			b, _ := readLP(rest)
			it = append(it, item{[]int64{int64(w.id(a)), int64(w.id(d)), int64(w.id(b))}, fmt.Sprintf("%d/%d/%d", w.id(a), w.id(d), w.id(b))})
		}
		parts = append(parts, show(x.tag, it))
	}

	it = nil
	for _, kv := range hx.RawPrefix(ctx, sk, stakingtypes.RedelegationQueueKey) {
		ts, err := sdk.ParseTimeBytes(kv[0][1:])
		must(err)
		var ps stakingtypes.DVVTriplets
		cdc.MustUnmarshal(kv[1], &ps)
		var es []string
		for _, p := range ps.Triplets {
			es = append(es, fmt.Sprintf("%d/%d/%d", w.idBech(p.DelegatorAddress), w.idVal(p.ValidatorSrcAddress), w.idVal(p.ValidatorDstAddress)))
		}
		it = append(it, item{[]int64{w.secs(ts)}, fmt.Sprintf("%d=%s", w.secs(ts), strings.Join(es, ";"))})
	}
	parts = append(parts, show("RQ", it))

	it = nil
	for _, kv := range hx.RawPrefix(ctx, sk, stakingtypes.UnbondingIndexKey) {
		id := binary.BigEndian.Uint64(kv[0][1:])
		v := kv[1]
		if len(v) == 0 {
			continue
		}
		switch v[0] {
		case stakingtypes.UnbondingDelegationKey[0]:
			d, rest := readLP(v[1:])
			a, _ := readLP(rest)
			it = append(it, item{[]int64{int64(id)}, fmt.Sprintf("%d=%d/%d/-", id, w.id(d), w.id(a))})
		case stakingtypes.RedelegationKey[0]:
			d, rest := readLP(v[1:])
			a, rest := readLP(rest)
			b, _ := readLP(rest)
			it = append(it, item{[]int64{int64(id)}, fmt.Sprintf("%d=%d/%d/%d", id, w.id(d), w.id(a), w.id(b))})
		}
	}
	parts = append(parts, show("ID", it))

	it = nil
	for _, kv := range hx.RawPrefix(ctx, dk, distrtypes.DelegatorWithdrawAddrPrefix) {
		d := distrtypes.GetDelegatorWithdrawInfoAddress(kv[0])
		di := w.id(d)
		if di < 0 || di >= 100 {
			continue
		}
		it = append(it, item{[]int64{int64(di)}, fmt.Sprintf("%d=%d", di, w.id(kv[1]))})
	}
	parts = append(parts, show("W", it))

	gk := app.GovKeeper.Keeper
	it = nil
	must(gk.Proposals.Walk(ctx, nil, func(id uint64, p govv1.Proposal) (bool, error) {
		st := 2
		switch p.Status {
		case govv1.StatusDepositPeriod:
			st = 0
		case govv1.StatusVotingPeriod:
			st = 1
		}
		pa, _ := sdk.AccAddressFromBech32(p.Proposer)
		it = append(it, item{[]int64{int64(id)}, fmt.Sprintf("%d=%d/%d/%s", id, w.id(pa), st, w.fx(p.TotalDeposit))})
		return false, nil
	}))
	parts = append(parts, show("P", it))
	it = nil
	must(gk.Deposits.Walk(ctx, nil, func(k collections.Pair[uint64, sdk.AccAddress], d govv1.Deposit) (bool, error) {
		it = append(it, item{[]int64{int64(k.K1()), int64(w.id(k.K2()))}, fmt.Sprintf("%d/%d=%s", k.K1(), w.id(k.K2()), w.fx(d.Amount))})
		return false, nil
	}))
	parts = append(parts, show("DP", it))
	it = nil
	must(gk.Votes.Walk(ctx, nil, func(k collections.Pair[uint64, sdk.AccAddress], _ govv1.Vote) (bool, error) {
		it = append(it, item{[]int64{int64(k.K1()), int64(w.id(k.K2()))}, fmt.Sprintf("%d/%d", k.K1(), w.id(k.K2()))})
		return false, nil
	}))
	parts = append(parts, show("V", it))
	for _, x := range []struct {
		tag string
		q   collections.Map[collections.Pair[time.Time, uint64], uint64]
	}{{"IQ", gk.InactiveProposalsQueue}, {"AQ", gk.ActiveProposalsQueue}} {
		it = nil
		must(x.q.Walk(ctx, nil, func(k collections.Pair[time.Time, uint64], _ uint64) (bool, error) {
			it = append(it, item{[]int64{w.secs(k.K1()), int64(k.K2())}, fmt.Sprintf("%d/%d", w.secs(k.K1()), k.K2())})
			return false, nil
		}))
		parts = append(parts, show(x.tag, it))
	}

	it = nil
	for _, kv := range hx.RawPrefix(ctx, app.GetKey(migratetypes.StoreKey), migratetypes.KeyPrefixMigratedRecord) {
		a := kv[0][1:]
		v := kv[1]
		if len(v) < 21 {
			continue
		}
		dir := "T"
		if v[0] == migratetypes.ValuePrefixMigrateFromFlag[0] {
			dir = "F"
		}
		it = append(it, item{[]int64{int64(w.id(a))}, fmt.Sprintf("%d=%s/%d", w.id(a), dir, w.id(v[1:21]))})
	}
	parts = append(parts, show("M", it))
	for _, x := range []struct {
		tag string
		pfx []byte
	}{{"MF", migratetypes.KeyPrefixMigratedDirectionFrom}, {"MT", migratetypes.KeyPrefixMigratedDirectionTo}} {
		it = nil
		for _, kv := range hx.RawPrefix(ctx, app.GetKey(migratetypes.StoreKey), x.pfx) {
			it = append(it, item{[]int64{int64(w.id(kv[0][1:]))}, fmt.Sprint(w.id(kv[0][1:]))})
		}
		parts = append(parts, show(x.tag, it))
	}
	it = nil
	for _, a := range w.actors {
		if a.vest == nil {
			continue
		}
		locked := app.BankKeeper.LockedCoins(ctx, a.addr)
		for di, d := range w.denoms {
			if l := locked.AmountOf(d); l.IsPositive() {
				it = append(it, item{[]int64{int64(a.id), int64(di)}, fmt.Sprintf("%d/%d=%s", a.id, di, l)})
			}
		}
	}
	parts = append(parts, show("L", it))
	// which of the observed addresses exist as accounts (x/auth): a migrated unbonding entry can only be paid to one
	it = nil
	for _, a := range w.actors {
		if app.AccountKeeper.HasAccount(ctx, a.addr) {
			it = append(it, item{[]int64{int64(a.id)}, fmt.Sprint(a.id)})
		}
	}
	parts = append(parts, show("AC", it))
	return strings.Join(parts, " ")
}

func (w *world) idBech(s string) int {
	a, err := sdk.AccAddressFromBech32(s)
	if err != nil {
		return -2
	}
	return w.id(a)
}

func (w *world) idVal(s string) int {
	a, err := sdk.ValAddressFromBech32(s)
	if err != nil {
		return -2
	}
	return w.id(a)
}

// a record whose value names another delegator than its key is a broken rewrite
func (w *world) checkValueOwner(kind, bech string, keyAddr []byte) {
	a, err := sdk.AccAddressFromBech32(bech)
	if err != nil || !bytes.Equal(a, keyAddr) {
		w.out.Violate("staking: " + kind + " record value names a different delegator than its key")
	}
}

// ---------------------------------------------------------------------------------------------------------
// executing messages on the real app (ValidateBasic, then the routed handler in a cache context, as baseapp does)

func (w *world) exec(msg sdk.Msg) string {
	cctx, write := w.s.Ctx.CacheContext()
	res := hx.Try(func() error {
		if vb, ok := msg.(sdk.HasValidateBasic); ok {
			if err := vb.ValidateBasic(); err != nil {
				return err
			}
		}
		h := w.s.App.MsgServiceRouter().Handler(msg)
		if h == nil {
			return fmt.Errorf("no handler")
		}
		_, err := h(cctx, msg)
		return err
	})
	if res == "ok" {
		write()
	}
	return res
}

func kind(res string) string {
	if res == "ok" {
		return "ok"
	}
	return "err"
}

func (w *world) emit(op, res string) {
	if w.mute {
		return
	}
	w.out.Emit(op, res+" "+w.observe())
}

func (w *world) wdAddr(a *actor) sdk.AccAddress {
	x, err := w.s.App.DistrKeeper.GetDelegatorWithdrawAddr(w.s.Ctx, a.addr)
	must(err)
	return x
}

func (w *world) balFX(a sdk.AccAddress) sdkmath.Int {
	return w.s.App.BankKeeper.GetBalance(w.s.Ctx, a, fxtypes.DefaultDenom).Amount
}

func (w *world) valStr(i int) string { return sdk.ValAddress(w.vals[i]).String() }

func (w *world) coin(n sdkmath.Int) sdk.Coin { return sdk.NewCoin(fxtypes.DefaultDenom, n) }

// reward paid by an op = change of the withdraw address balance corrected by the op's own transfer
func (w *world) withReward(a *actor, own func() sdkmath.Int, f func() string) (string, sdkmath.Int) {
	wa := w.wdAddr(a)
	before := w.balFX(wa)
	res := f()
	if res != "ok" {
		return res, sdkmath.ZeroInt()
	}
	delta := w.balFX(wa).Sub(before)
	if bytes.Equal(wa, a.addr) {
		delta = delta.Add(own())
	}
	if delta.IsNegative() {
		w.out.Violate("harness: negative reward inferred")
		delta = sdkmath.ZeroInt()
	}
	return res, delta
}

// ---------------------------------------------------------------------------------------------------------
// ops

func (w *world) amt(units int64) sdkmath.Int { return sdkmath.NewInt(units).Mul(e18) }

// actors of ordinary ops: users, and ethereum-key accounts mostly once they own a migrated portfolio
func (w *world) pickActor() *actor {
	for i := 0; i < 40; i++ {
		a := hx.Pick(w.rng, w.actors)
		if a.vest != nil {
			continue // vesting accounts only send, receive and migrate (the SDK's delegation tracking is not modelled)
		}
		if a.eth == nil || a.dual || w.gone[a.id] || w.rng.Intn(6) == 0 {
			return a
		}
	}
	return w.byID[1]
}

func (w *world) vesting() []*actor {
	var vs []*actor
	for _, a := range w.actors {
		if a.vest != nil {
			vs = append(vs, a)
		}
	}
	return vs
}

func (w *world) opSend() {
	a, b := w.pickActor(), w.pickActor()
	if w.rng.Intn(3) == 0 {
		a = hx.Pick(w.rng, w.vesting()) // a vesting account spends (or tries to spend) around its spendable amount
	}
	if w.rng.Intn(6) == 0 {
		b = hx.Pick(w.rng, w.vesting())
	}
	di := w.rng.Intn(len(w.denoms))
	if a.vest != nil && w.rng.Intn(3) > 0 {
		di = w.rng.Intn(2)
	}
	bal := w.s.App.BankKeeper.GetBalance(w.s.Ctx, a.addr, w.denoms[di]).Amount
	var n sdkmath.Int
	switch w.rng.Intn(5) {
	case 0:
		n = bal // everything
	case 1:
		n = bal.AddRaw(1) // one too many
	default:
		n = sdkmath.NewInt(1 + w.rng.Int63n(500)).Mul(e18)
	}
	if a.vest != nil {
		sp := w.s.App.BankKeeper.SpendableCoins(w.s.Ctx, a.addr).AmountOf(w.denoms[di])
		switch w.rng.Intn(4) {
		case 0:
			n = sp // exactly what is unlocked
		case 1:
			n = sp.AddRaw(1) // one locked unit
		}
		w.out.Count(fmt.Sprintf("send-vesting:kind=%d", a.vest.kind))
	}
	if !n.IsPositive() {
		return
	}
	res := w.exec(&banktypes.MsgSend{FromAddress: a.addr.String(), ToAddress: b.addr.String(), Amount: sdk.NewCoins(sdk.NewCoin(w.denoms[di], n))})
	w.out.Count("send:" + kind(res))
	w.emit(fmt.Sprintf("send %d %d %d %s", a.id, b.id, di, n), kind(res))
}

func (w *world) opDelegate() {
	a := w.pickActor()
	vi := w.rng.Intn(len(w.vals))
	n := w.amt(1 + w.rng.Int63n(300))
	res, rw := w.withReward(a, func() sdkmath.Int { return n }, func() string {
		return w.exec(&stakingtypes.MsgDelegate{DelegatorAddress: a.addr.String(), ValidatorAddress: w.valStr(vi), Amount: w.coin(n)})
	})
	w.out.Count("delegate:" + kind(res))
	w.emit(fmt.Sprintf("delegate %d %d %s %s", a.id, 100+vi, n, rw), kind(res))
}

type delRef struct {
	a  *actor
	vi int
	sh sdkmath.Int
}

func (w *world) delegationsOfActors() []delRef {
	var out []delRef
	for _, a := range w.actors {
		for vi, v := range w.vals {
			d, err := w.s.App.StakingKeeper.GetDelegation(w.s.Ctx, a.addr, v)
			if err == nil {
				out = append(out, delRef{a, vi, d.Shares.TruncateInt()})
			}
		}
	}
	return out
}

func (w *world) pickDelegation() (delRef, bool) {
	ds := w.delegationsOfActors()
	if len(ds) == 0 || w.rng.Intn(12) == 0 {
		return delRef{w.pickActor(), w.rng.Intn(len(w.vals)), w.amt(10)}, false
	}
	return hx.Pick(w.rng, ds), true
}

func (w *world) partOf(sh sdkmath.Int) sdkmath.Int {
	switch w.rng.Intn(6) {
	case 0:
		return sh // all of it: the delegation record is removed
	case 1:
		return sh.AddRaw(1) // too much
	default:
		units := sh.Quo(e18).Int64()
		if units <= 1 {
			return sh
		}
		return w.amt(1 + w.rng.Int63n(units))
	}
}

func (w *world) opUndelegate() {
	d, _ := w.pickDelegation()
	n := w.partOf(d.sh)
	res, rw := w.withReward(d.a, func() sdkmath.Int { return sdkmath.ZeroInt() }, func() string {
		return w.exec(&stakingtypes.MsgUndelegate{DelegatorAddress: d.a.addr.String(), ValidatorAddress: w.valStr(d.vi), Amount: w.coin(n)})
	})
	w.out.Count("undelegate:" + kind(res))
	w.emit(fmt.Sprintf("undelegate %d %d %s %s", d.a.id, 100+d.vi, n, rw), kind(res))
}

func (w *world) opRedelegate() {
	d, _ := w.pickDelegation()
	dst := w.rng.Intn(len(w.vals))
	if w.rng.Intn(10) > 0 && dst == d.vi {
		dst = (dst + 1) % len(w.vals)
	}
	n := w.partOf(d.sh)
	res, rw := w.withReward(d.a, func() sdkmath.Int { return sdkmath.ZeroInt() }, func() string {
		return w.exec(&stakingtypes.MsgBeginRedelegate{DelegatorAddress: d.a.addr.String(), ValidatorSrcAddress: w.valStr(d.vi), ValidatorDstAddress: w.valStr(dst), Amount: w.coin(n)})
	})
	w.out.Count("redelegate:" + kind(res))
	w.emit(fmt.Sprintf("redelegate %d %d %d %s %s 0", d.a.id, 100+d.vi, 100+dst, n, rw), kind(res))
}

func (w *world) opWithdraw() {
	d, _ := w.pickDelegation()
	res, rw := w.withReward(d.a, func() sdkmath.Int { return sdkmath.ZeroInt() }, func() string {
		return w.exec(&distrtypes.MsgWithdrawDelegatorReward{DelegatorAddress: d.a.addr.String(), ValidatorAddress: w.valStr(d.vi)})
	})
	if res == "ok" && rw.IsPositive() {
		w.out.Count("withdraw:ok-positive")
	}
	w.out.Count("withdraw:" + kind(res))
	w.emit(fmt.Sprintf("withdraw %d %d %s", d.a.id, 100+d.vi, rw), kind(res))
}

func (w *world) opSetWithdraw() {
	a, b := w.pickActor(), w.pickActor()
	res := w.exec(&distrtypes.MsgSetWithdrawAddress{DelegatorAddress: a.addr.String(), WithdrawAddress: b.addr.String()})
	w.out.Count("setwd:" + kind(res))
	if res != "ok" {
		w.out.Violate("harness: set withdraw address failed: " + res)
		return
	}
	w.emit(fmt.Sprintf("setwd %d %d", a.id, b.id), kind(res))
}

func (w *world) opSubmit() {
	a := w.pickActor()
	var dep sdkmath.Int
	switch w.rng.Intn(3) {
	case 0:
		dep = w.minDep // straight into the voting period
	default:
		dep = w.amt(1 + w.rng.Int63n(600)) // deposit period
	}
	content, _ := govv1beta1.ContentFromProposalType("title", "description", "Text")
	legacy, err := govv1.NewLegacyContent(content, authtypes.NewModuleAddress(govtypes.ModuleName).String())
	must(err)
	anys, err := sdktx.SetMsgs([]sdk.Msg{legacy})
	must(err)
	res := w.exec(&govv1.MsgSubmitProposal{Messages: anys, InitialDeposit: sdk.NewCoins(w.coin(dep)), Proposer: a.addr.String(), Title: "title", Summary: "description"})
	w.out.Count("submit:" + kind(res))
	w.emit(fmt.Sprintf("submit %d %s", a.id, dep), kind(res))
}

func (w *world) openProposals() (ids []uint64, status map[uint64]govv1.ProposalStatus) {
	status = map[uint64]govv1.ProposalStatus{}
	must(w.s.App.GovKeeper.Keeper.Proposals.Walk(w.s.Ctx, nil, func(id uint64, p govv1.Proposal) (bool, error) {
		ids = append(ids, id)
		status[id] = p.Status
		return false, nil
	}))
	return
}

func (w *world) pickProposal() uint64 {
	ids, _ := w.openProposals()
	if len(ids) == 0 || w.rng.Intn(10) == 0 {
		return uint64(1 + w.rng.Intn(4))
	}
	return hx.Pick(w.rng, ids)
}

func (w *world) opDeposit() {
	a := w.pickActor()
	id := w.pickProposal()
	n := w.amt(1 + w.rng.Int63n(700))
	res := w.exec(&govv1.MsgDeposit{ProposalId: id, Depositor: a.addr.String(), Amount: sdk.NewCoins(w.coin(n))})
	w.out.Count("deposit:" + kind(res))
	w.emit(fmt.Sprintf("deposit %d %d %s", a.id, id, n), kind(res))
}

func (w *world) opVote() {
	a := w.pickActor()
	id := w.pickProposal()
	res := w.exec(&govv1.MsgVote{ProposalId: id, Voter: a.addr.String(), Option: govv1.OptionYes})
	w.out.Count("vote:" + kind(res))
	w.emit(fmt.Sprintf("vote %d %d", a.id, id), kind(res))
}

// opPeriods changes the deposit and voting period parameters; proposals already open keep their end times, so that
// afterwards open proposals may end later (or much later) than one current period from now
func (w *world) opPeriods() {
	dp := hx.Pick(w.rng, []int64{100, 200, 200})
	vp := hx.Pick(w.rng, []int64{150, 400, 400, 400, 15 * 24 * 3600, 40 * 24 * 3600})
	w.setPeriods(dp, vp)
}

func (w *world) setPeriods(dp, vp int64) {
	gp, err := w.s.App.GovKeeper.Keeper.Params.Get(w.s.Ctx)
	must(err)
	d1, d2 := time.Duration(dp)*time.Second, time.Duration(vp)*time.Second
	gp.MaxDepositPeriod = &d1
	gp.VotingPeriod = &d2
	must(w.s.App.GovKeeper.Keeper.Params.Set(w.s.Ctx, gp))
	w.out.Count(fmt.Sprintf("setperiods:vote=%d", vp))
	w.emit(fmt.Sprintf("setperiods %d %d", dp, vp), "ok")
}

func (w *world) opBlock(dt int64) {
	before := map[int]sdkmath.Int{}
	for _, a := range w.actors {
		before[a.id] = w.balFX(a.addr)
	}
	blockTime := w.now // time of the block whose end blocker runs now
	w.endBlock(dt)
	w.out.Count(fmt.Sprintf("block:dt=%d", dt))
	w.emit(fmt.Sprintf("block %d", dt), "ok")
	w.invariants("after block")
	w.consistency("after block")
	// maturation: the end blocker of a block at time T completes every unbonding / redelegation entry with completion <= T
	// (an entry whose queue element names a delegator without that record is skipped silently and stays for ever)
	sk := w.s.App.GetKey(stakingtypes.StoreKey)
	cdc := w.s.App.AppCodec()
	for _, kv := range hx.RawPrefix(w.s.Ctx, sk, stakingtypes.UnbondingDelegationKey) {
		ubd := stakingtypes.MustUnmarshalUBD(cdc, kv[1])
		for _, e := range ubd.Entries {
			if w.secs(e.CompletionTime) <= blockTime {
				w.out.Violate("stuck: an unbonding entry past its completion time is still in the store after the end blocker (its funds are never paid out)")
			}
		}
	}
	for _, kv := range hx.RawPrefix(w.s.Ctx, sk, stakingtypes.RedelegationKey) {
		red := stakingtypes.MustUnmarshalRED(cdc, kv[1])
		for _, e := range red.Entries {
			if w.secs(e.CompletionTime) <= blockTime {
				w.out.Violate("stuck: a redelegation entry past its completion time is still in the store after the end blocker")
			}
		}
	}
}

// consistency of the staking store's records with their indexes, queue elements and unbonding ids (what the keepers
// maintain and a migration has to carry over): evaluated on the raw store for every delegator
func (w *world) consistency(when string) {
	ctx := w.s.Ctx
	sk := w.s.App.GetKey(stakingtypes.StoreKey)
	st := ctx.KVStore(sk)
	cdc := w.s.App.AppCodec()
	bad := func(what string) { w.out.Violate("consistency " + when + ": " + what) }
	type ent struct {
		key  []byte
		t    int64
		id   uint64
		kind string
	}
	var entries []ent
	// delegations <-> 0x71
	for _, kv := range hx.RawPrefix(ctx, sk, stakingtypes.DelegationKey) {
		d, rest := readLP(kv[0][1:])
		v, _ := readLP(rest)
		if !st.Has(stakingtypes.GetDelegationsByValKey(v, d)) {
			bad("a delegation record has no delegations-by-validator index entry (0x71)")
		}
	}
	for _, kv := range hx.RawPrefix(ctx, sk, stakingtypes.DelegationByValIndexKey) {
		v, d := readLP(kv[0][1:])
		if !st.Has(stakingtypes.GetDelegationKey(d, v)) {
			bad("a delegations-by-validator index entry (0x71) has no delegation record")
		}
	}
	// unbonding delegations <-> 0x33
	for _, kv := range hx.RawPrefix(ctx, sk, stakingtypes.UnbondingDelegationKey) {
		d, rest := readLP(kv[0][1:])
		v, _ := readLP(rest)
		if !st.Has(stakingtypes.GetUBDByValIndexKey(d, v)) {
			bad("an unbonding delegation has no by-validator index entry (0x33)")
		}
		ubd := stakingtypes.MustUnmarshalUBD(cdc, kv[1])
		for _, e := range ubd.Entries {
			entries = append(entries, ent{kv[0], w.secs(e.CompletionTime), e.UnbondingId, "unbonding"})
			var ps stakingtypes.DVPairs
			found := false
			if bz := st.Get(stakingtypes.GetUnbondingDelegationTimeKey(e.CompletionTime)); bz != nil {
				cdc.MustUnmarshal(bz, &ps)
				for _, p := range ps.Pairs {
					if p.DelegatorAddress == ubd.DelegatorAddress && p.ValidatorAddress == ubd.ValidatorAddress {
						found = true
					}
				}
			}
			if !found {
				bad("an unbonding entry is not announced in the queue slice (0x41) of its completion time under its delegator")
			}
		}
	}
	for _, kv := range hx.RawPrefix(ctx, sk, stakingtypes.UnbondingDelegationByValIndexKey) {
		v, rest := readLP(kv[0][1:])
		d, _ := readLP(rest)
		if !st.Has(stakingtypes.GetUBDKey(d, v)) {
			bad("an unbonding-delegation by-validator index entry (0x33) has no record")
		}
	}
	// redelegations <-> 0x35, 0x36
	for _, kv := range hx.RawPrefix(ctx, sk, stakingtypes.RedelegationKey) {
		d, rest := readLP(kv[0][1:])
		a, rest := readLP(rest)
		b, _ := readLP(rest)
		if !st.Has(stakingtypes.GetREDByValSrcIndexKey(d, a, b)) {
			bad("a redelegation has no by-source-validator index entry (0x35)")
		}
		if !st.Has(stakingtypes.GetREDByValDstIndexKey(d, a, b)) {
			bad("a redelegation has no by-destination-validator index entry (0x36)")
		}
		red := stakingtypes.MustUnmarshalRED(cdc, kv[1])
		for _, e := range red.Entries {
			entries = append(entries, ent{kv[0], w.secs(e.CompletionTime), e.UnbondingId, "redelegation"})
			var ts stakingtypes.DVVTriplets
			found := false
			if bz := st.Get(stakingtypes.GetRedelegationTimeKey(e.CompletionTime)); bz != nil {
				cdc.MustUnmarshal(bz, &ts)
				for _, p := range ts.Triplets {
					if p.DelegatorAddress == red.DelegatorAddress && p.ValidatorSrcAddress == red.ValidatorSrcAddress && p.ValidatorDstAddress == red.ValidatorDstAddress {
						found = true
					}
				}
			}
			if !found {
				bad("a redelegation entry is not announced in the queue slice (0x42) of its completion time under its delegator")
			}
		}
	}
	for _, x := range []struct {
		name string
		pfx  []byte
		dst  bool
	}{{"0x35", stakingtypes.RedelegationByValSrcIndexKey, false}, {"0x36", stakingtypes.RedelegationByValDstIndexKey, true}} {
		for _, kv := range hx.RawPrefix(ctx, sk, x.pfx) {
			v1, rest := readLP(kv[0][1:])
			d, rest := readLP(rest)
			v2, _ := readLP(rest)
			src, dst := v1, v2
			if x.dst {
				src, dst = v2, v1
			}
			if !st.Has(stakingtypes.GetREDKey(d, src, dst)) {
				bad("a redelegation by-validator index entry (" + x.name + ") has no record")
			}
		}
	}
	// unbonding ids (0x38) <-> entries
	ids := map[uint64][]byte{}
	for _, kv := range hx.RawPrefix(ctx, sk, stakingtypes.UnbondingIndexKey) {
		ids[binary.BigEndian.Uint64(kv[0][1:])] = kv[1]
	}
	seen := map[uint64]bool{}
	for _, e := range entries {
		seen[e.id] = true
		if v, ok := ids[e.id]; !ok || !bytes.Equal(v, e.key) {
			bad("the unbonding-id index (0x38) of an " + e.kind + " entry does not point at the entry's record")
		}
	}
	for id, v := range ids {
		if !seen[id] && len(v) > 0 && (v[0] == stakingtypes.UnbondingDelegationKey[0] || v[0] == stakingtypes.RedelegationKey[0]) {
			bad("an unbonding-id index entry (0x38) points at a record without an entry of that id")
		}
	}
	// queue elements -> entries
	for _, kv := range hx.RawPrefix(ctx, sk, stakingtypes.UnbondingQueueKey) {
		ts, err := sdk.ParseTimeBytes(kv[0][1:])
		must(err)
		var ps stakingtypes.DVPairs
		cdc.MustUnmarshal(kv[1], &ps)
		for _, p := range ps.Pairs {
			d, _ := sdk.AccAddressFromBech32(p.DelegatorAddress)
			v, _ := sdk.ValAddressFromBech32(p.ValidatorAddress)
			ok := false
			if u, err := w.s.App.StakingKeeper.GetUnbondingDelegation(ctx, d, v); err == nil {
				for _, e := range u.Entries {
					if e.CompletionTime.Equal(ts) {
						ok = true
					}
				}
			}
			if !ok {
				bad("an unbonding queue element (0x41) names a delegator without an entry completing at that time")
			}
		}
	}
	for _, kv := range hx.RawPrefix(ctx, sk, stakingtypes.RedelegationQueueKey) {
		ts, err := sdk.ParseTimeBytes(kv[0][1:])
		must(err)
		var ps stakingtypes.DVVTriplets
		cdc.MustUnmarshal(kv[1], &ps)
		for _, p := range ps.Triplets {
			d, _ := sdk.AccAddressFromBech32(p.DelegatorAddress)
			a, _ := sdk.ValAddressFromBech32(p.ValidatorSrcAddress)
			b, _ := sdk.ValAddressFromBech32(p.ValidatorDstAddress)
			ok := false
			if r, err := w.s.App.StakingKeeper.GetRedelegation(ctx, d, a, b); err == nil {
				for _, e := range r.Entries {
					if e.CompletionTime.Equal(ts) {
						ok = true
					}
				}
			}
			if !ok {
				bad("a redelegation queue element (0x42) names a delegator without an entry completing at that time")
			}
		}
	}
}

// ---------------------------------------------------------------------------------------------------------
// migration

type govRole struct {
	who    string // source | target
	role   string // proposer | depositor | voter
	status string // deposit | voting
	id     uint64
}

// involvement of a or b in a proposal that is still in its deposit or voting period (read from the proposals themselves)
func (w *world) openInvolvement(from, to sdk.AccAddress) []govRole {
	var res []govRole
	gk := w.s.App.GovKeeper.Keeper
	must(gk.Proposals.Walk(w.s.Ctx, nil, func(id uint64, p govv1.Proposal) (bool, error) {
		st := ""
		switch p.Status {
		case govv1.StatusDepositPeriod:
			st = "deposit"
		case govv1.StatusVotingPeriod:
			st = "voting"
		default:
			return false, nil
		}
		pa, _ := sdk.AccAddressFromBech32(p.Proposer)
		for _, x := range []struct {
			who string
			a   sdk.AccAddress
		}{{"source", from}, {"target", to}} {
			if bytes.Equal(pa, x.a) {
				res = append(res, govRole{x.who, "proposer", st, id})
			}
			if ok, _ := gk.Deposits.Has(w.s.Ctx, collections.Join(id, x.a)); ok {
				res = append(res, govRole{x.who, "depositor", st, id})
			}
			if ok, _ := gk.Votes.Has(w.s.Ctx, collections.Join(id, x.a)); ok {
				res = append(res, govRole{x.who, "voter", st, id})
			}
		}
		return false, nil
	}))
	return res
}

func errKind(res string) string {
	switch {
	case res == "ok":
		return "ok"
	case strings.HasPrefix(res, "panic:"):
		return "panic"
	case strings.Contains(res, "invalid to address"):
		return "err:to"
	case strings.Contains(res, "same account"):
		return "err:same"
	case strings.Contains(res, "signature") || strings.Contains(res, "sig to pub"):
		return "err:sig"
	case strings.Contains(res, "has been migrated"):
		return "err:migrated"
	case strings.Contains(res, "empty account") || strings.Contains(res, "empty public key") || strings.Contains(res, "account type not support"):
		return "err:account"
	case strings.Contains(res, "is the validator address"):
		return "err:validator"
	case strings.Contains(res, "has delegation record") || strings.Contains(res, "has undelegate record") || strings.Contains(res, "has redelegation record"):
		return "err:to-staking"
	case strings.Contains(res, "is proposer of") || strings.Contains(res, "have deposit of") || strings.Contains(res, "have vote of"):
		return "err:gov"
	case strings.Contains(res, "spendable balance") || strings.Contains(res, "locked amount exceeds account balance"):
		return "err:exec" // the bank handler's single SendCoins of all balances met a locked coin
	}
	return "err:other(" + res + ")"
}

type portfolio struct {
	bal     sdk.Coins
	dels    map[int]string    // validator -> shares
	ubds    map[int]string    // validator -> entries
	reds    map[string]string // src/dst -> entries
	rewards map[int]string    // validator -> pending rewards (truncated)
}

func (w *world) portfolio(a sdk.AccAddress) portfolio {
	return w.portfolioAt(w.s.Ctx, a)
}

func (w *world) portfolioAt(base sdk.Context, a sdk.AccAddress) portfolio {
	ctx, _ := base.CacheContext()
	p := portfolio{bal: w.s.App.BankKeeper.GetAllBalances(ctx, a), dels: map[int]string{}, ubds: map[int]string{}, reds: map[string]string{}, rewards: map[int]string{}}
	for vi, v := range w.vals {
		if d, err := w.s.App.StakingKeeper.GetDelegation(ctx, a, v); err == nil {
			p.dels[vi] = d.Shares.String()
			val, err := w.s.App.StakingKeeper.Validator(ctx, v)
			must(err)
			func() {
				defer func() {
					if r := recover(); r != nil {
						p.rewards[vi] = fmt.Sprint("panic:", r)
					}
				}()
				end, err := w.s.App.DistrKeeper.IncrementValidatorPeriod(ctx, val)
				if err != nil {
					p.rewards[vi] = "err:" + err.Error()
					return
				}
				rw, err := w.s.App.DistrKeeper.CalculateDelegationRewards(ctx, val, d, end)
				if err != nil {
					p.rewards[vi] = "err:" + err.Error()
					return
				}
				p.rewards[vi] = rw.String()
			}()
		}
		if u, err := w.s.App.StakingKeeper.GetUnbondingDelegation(ctx, a, v); err == nil {
			var es []string
			for _, e := range u.Entries {
				es = append(es, fmt.Sprintf("%d:%s", w.secs(e.CompletionTime), e.Balance))
			}
			p.ubds[vi] = strings.Join(es, ";")
		}
		for vj, v2 := range w.vals {
			if r, err := w.s.App.StakingKeeper.GetRedelegation(ctx, a, v, v2); err == nil {
				var es []string
				for _, e := range r.Entries {
					es = append(es, fmt.Sprintf("%d:%s:%s", w.secs(e.CompletionTime), e.InitialBalance, e.SharesDst))
				}
				p.reds[fmt.Sprintf("%d/%d", vi, vj)] = strings.Join(es, ";")
			}
		}
	}
	return p
}

func (p portfolio) stakingString() string {
	return fmt.Sprint(p.dels, p.ubds, p.reds, p.rewards)
}

func (p portfolio) empty() bool {
	return p.bal.IsZero() && len(p.dels) == 0 && len(p.ubds) == 0 && len(p.reds) == 0
}

// every raw key / value of the staking store, and every starting-info key of the distribution store, that mentions the
// address (raw bytes or bech32 text); the delegator-withdraw-address table of x/distribution is a setting, not a
// holding, and is not part of the property.
func (w *world) mentions(a sdk.AccAddress) []string {
	var res []string
	bech := []byte(a.String())
	scan := func(store string, kvs [][2][]byte) {
		for _, kv := range kvs {
			if bytes.Contains(kv[0], a) || bytes.Contains(kv[1], a) || bytes.Contains(kv[1], bech) {
				res = append(res, fmt.Sprintf("%s:0x%02x", store, kv[0][0]))
			}
		}
	}
	scan("staking", hx.RawPrefix(w.s.Ctx, w.s.App.GetKey(stakingtypes.StoreKey), nil))
	scan("distribution", hx.RawPrefix(w.s.Ctx, w.s.App.GetKey(distrtypes.StoreKey), distrtypes.DelegatorStartingInfoPrefix))
	sort.Strings(res)
	return uniq(res)
}

func uniq(xs []string) []string {
	var out []string
	for i, x := range xs {
		if i == 0 || x != xs[i-1] {
			out = append(out, x)
		}
	}
	return out
}

func (w *world) totals() string {
	ctx := w.s.Ctx
	var sb strings.Builder
	for _, d := range w.denoms {
		sb.WriteString(w.s.App.BankKeeper.GetSupply(ctx, d).String() + ";")
	}
	for _, v := range w.vals {
		val, err := w.s.App.StakingKeeper.GetValidator(ctx, v)
		must(err)
		sb.WriteString(val.Tokens.String() + "/" + val.DelegatorShares.String() + ";")
	}
	for _, name := range []string{stakingtypes.BondedPoolName, stakingtypes.NotBondedPoolName, govtypes.ModuleName, distrtypes.ModuleName} {
		sb.WriteString(w.s.App.BankKeeper.GetAllBalances(ctx, authtypes.NewModuleAddress(name)).String() + ";")
	}
	return sb.String()
}

func (w *world) invariants(when string) {
	for _, r := range w.s.App.CrisisKeeper.Routes() {
		func() {
			defer func() {
				if rec := recover(); rec != nil {
					w.out.Violate(fmt.Sprintf("crisis invariant %s/%s panics %s", r.ModuleName, r.Route, when))
				}
			}()
			if _, broken := r.Invar(w.s.Ctx); broken {
				w.out.Violate(fmt.Sprintf("crisis invariant %s/%s broken %s", r.ModuleName, r.Route, when))
			}
		}()
	}
}

func (w *world) sign(k *ecdsa.PrivateKey, first, second []byte) string {
	sig, err := crypto.Sign(crypto.Keccak256([]byte(migratetypes.MigrateAccountSignaturePrefix), first, second), k)
	must(err)
	return hex.EncodeToString(sig)
}

func (w *world) opMigrate() {
	// source: mostly a user with key, sometimes an eth account, the key-less user, or the validator-0 operator
	var from *actor
	var fromID int
	var fromAddr sdk.AccAddress
	switch r := w.rng.Intn(20); {
	case r == 0:
		fromID, fromAddr = 100, sdk.AccAddress(w.vals[0])
	case r < 4: // a vesting account (locked, partly vested or fully vested, depending on the time)
		from = hx.Pick(w.rng, w.vesting())
		fromID, fromAddr = from.id, from.addr
	case r < 15: // a plausible source: a user (or dual account) not yet used in a migration
		from = hx.Pick(w.rng, w.actors)
		for i := 0; i < 8 && ((from.eth != nil && !from.dual) || w.gone[from.id]); i++ {
			from = hx.Pick(w.rng, w.actors)
		}
		fromID, fromAddr = from.id, from.addr
	default:
		from = hx.Pick(w.rng, w.actors)
		fromID, fromAddr = from.id, from.addr
	}
	var eths []*actor
	for _, a := range w.actors {
		if a.eth != nil {
			eths = append(eths, a)
		}
	}
	to := hx.Pick(w.rng, eths)
	if w.rng.Intn(4) > 0 { // a plausible target: not yet used
		for i := 0; i < 8 && (w.gone[to.id] || to.id == fromID); i++ {
			to = hx.Pick(w.rng, eths)
		}
	}
	mode := "ok"
	switch r := w.rng.Intn(20); {
	case r == 0:
		mode = "none"
	case r == 1:
		mode = "swap"
	case r == 2:
		mode = "other"
	}
	signer, order := to.id, "ft"
	sig := ""
	switch mode {
	case "ok":
		sig = w.sign(to.eth, fromAddr, to.addr)
	case "none":
		signer = 0
	case "swap":
		order = "tf"
		sig = w.sign(to.eth, to.addr, fromAddr)
	case "other":
		o := hx.Pick(w.rng, eths)
		for o == to {
			o = hx.Pick(w.rng, eths)
		}
		signer = o.id
		sig = w.sign(o.eth, fromAddr, to.addr)
	}
	if w.rng.Intn(4) == 0 {
		sp := hx.Pick(w.rng, w.spellings(to.addr))
		w.spell = &sp
	}
	w.migrate(fromID, fromAddr, to, signer, order, sig, mode)
}

const idFeeCollector = 903
const idFresh = 17 // an ethereum address without account on chain (with VERIF_C14_FRESH=1; otherwise funded like the others)

// freshTarget: targets that do not exist on chain are explored only with VERIF_C14_FRESH=1 (unchanged code: an accepted
// migration of a source without liquid coins leaves such a target without account, and the end blocker can then never pay
// its matured unbonding entries — fixes/C14-target-account.md)
func freshTarget() bool { return os.Getenv("VERIF_C14_FRESH") == "1" }

// opMigrateTx: a migration delivered as a signed transaction in a real block — FinalizeBlock: baseapp's ValidateBasic (the
// pair signature), the ante handler (the transaction must be signed by the source's account key; the fee is deducted from
// the source BEFORE the migration moves its balances), the message router and handler, then the end blockers of that very
// block.  Op line `txblock dt fee txsigner from to pair-signer order`: the model composes fee payment, migration and block.
func (w *world) opMigrateTx(dt int64) {
	var srcs, eths []*actor
	for _, a := range w.actors {
		if a.priv != nil && a.vest == nil && a.id != 6 && !a.dual { // (the ante handler wants the public key to hash to the address: not so for the dual accounts)
			srcs = append(srcs, a)
		}
		if a.eth != nil {
			eths = append(eths, a)
		}
	}
	from := hx.Pick(w.rng, srcs)
	for i := 0; i < 8 && w.gone[from.id] && w.rng.Intn(4) > 0; i++ {
		from = hx.Pick(w.rng, srcs)
	}
	to := hx.Pick(w.rng, eths)
	for i := 0; i < 8 && (w.gone[to.id] || to.id == from.id) && (to.id == from.id || w.rng.Intn(4) > 0); i++ {
		to = hx.Pick(w.rng, eths)
	}
	if to.id == from.id {
		return
	}
	txSigner := from
	if w.rng.Intn(6) == 0 { // the transaction is built as the source's but signed by another account's key
		txSigner = hx.Pick(w.rng, srcs)
	}
	signer, order, mode := to.id, "ft", "ok"
	sig := w.sign(to.eth, from.addr, to.addr)
	switch w.rng.Intn(12) {
	case 0:
		order, mode = "tf", "swap"
		sig = w.sign(to.eth, to.addr, from.addr)
	case 1:
		o := hx.Pick(w.rng, eths)
		for o == to {
			o = hx.Pick(w.rng, eths)
		}
		signer, mode = o.id, "other"
		sig = w.sign(o.eth, from.addr, to.addr)
	}
	msg := &migratetypes.MsgMigrateAccount{From: from.addr.String(), To: common.BytesToAddress(to.addr).String(), Signature: sig}
	bz, err := w.signedTx([]sdk.Msg{msg}, from.addr, txSigner.priv)
	if err != nil {
		w.out.Violate("harness: cannot build the migration transaction: " + err.Error())
		return
	}
	fee := sdkmath.NewInt(1_000_000_000_000).MulRaw(8_000_000)
	roles := w.openInvolvement(from.addr, to.addr)
	role := w.roleHistory(from.id, to.id)
	pf, pt := w.portfolio(from.addr), w.portfolio(to.addr)
	totals := w.totals()
	seqBefore := w.s.App.AccountKeeper.GetAccount(w.s.Ctx, from.addr).GetSequence()
	res := w.endBlockTxs(dt, [][]byte{bz})
	code, log := uint32(999), ""
	if len(res) == 1 {
		code, log = res[0].Code, res[0].Log
	}
	antePassed := w.s.App.AccountKeeper.GetAccount(w.s.Ctx, from.addr).GetSequence() != seqBefore
	kindOf := "ok"
	switch {
	case code == 0:
	case !antePassed && code == 18: // ErrInvalidRequest: baseapp's ValidateBasic, before the ante handler
		kindOf = errKind(log)
	case !antePassed:
		kindOf = "err:ante"
	default:
		kindOf = errKind(log)
	}
	w.out.Count(fmt.Sprintf("txblock:tx-signed-by-source=%v,pair=%s=%s", txSigner == from, mode, kindOf))
	for _, r := range roles {
		w.out.Count("txblock-gov:" + r.who + "-" + r.role + "-" + r.status + "=" + kindOf)
	}
	w.emit(fmt.Sprintf("txblock %d %s %d %d %d %d %s", dt, fee, txSigner.id, from.id, to.id, signer, order), kindOf)
	if strings.HasPrefix(kindOf, "err:other") || kindOf == "panic" {
		w.out.Violate("migrate: unexpected failure kind of a migration transaction: " + kindOf)
	}
	w.invariants("after a block with a migration transaction")
	w.consistency("after a block with a migration transaction")
	if kindOf != "ok" {
		return
	}
	// ---- monitors: an accepted migration transaction ------------------------------------------------------
	if txSigner != from {
		w.out.Violate("signature: a migration transaction not signed by the source's account key was accepted by FinalizeBlock")
	}
	if mode != "ok" {
		w.out.Violate("signature: migration transaction accepted with pair signature mode " + mode + " (not the target key over prefix,from,to)")
	}
	if role != "" {
		w.out.Violate("reuse: migration accepted although an address took part in an earlier migration (" + role + ")")
	}
	for _, r := range roles {
		w.out.Violate(fmt.Sprintf("gov: migration accepted while %s is %s of a proposal still in its %s period (proposal %d)", r.who, r.role, r.status, r.id))
	}
	if len(pt.dels) > 0 || len(pt.ubds) > 0 || len(pt.reds) > 0 {
		w.out.Violate("target: migration accepted although the target has staking records")
	}
	w.gone[from.id], w.gone[to.id] = true, true
	w.hist = append(w.hist, migRec{from, to})
	if got := w.recordSlots(from.addr, to.addr); got != "rec-from,rec-to,dir-from,"+"dir-to" {
		w.out.Violate("record: after an accepted migration not every record slot of source and target is set (" + got + ")")
	}
	if m := w.mentions(from.addr); len(m) > 0 {
		w.out.Violate("stale: a raw key or value under " + m[0] + " still mentions the source address after a migration transaction")
	}
	// the end blocker of the same block may already have paid matured entries to the target: the source must be empty, and
	// the target must hold its own and the source's coins minus the fee, plus what matured
	if af := w.portfolio(from.addr); !af.empty() {
		w.out.Violate("moved: source still holds balances or staking records after a migration transaction")
	}
	_ = totals
	w.out.Nontrivial(fmt.Sprintf("txblock-ok:%d,%d,%d,%d", len(pf.bal), len(pf.dels), len(pf.ubds), len(pf.reds)))
}

// opGenesisRoundTrip (only with VERIF_C14_GENESIS=1, see fixes/C14-genesis-import.md): the migrate module's state is exported
// and imported again, as a chain restarted from an exported genesis does; the addresses already used in a migration must
// still be marked
func (w *world) opGenesisRoundTrip() {
	am := migratemodule.NewAppModule(w.s.App.MigrateKeeper)
	exported := am.ExportGenesis(w.s.Ctx, w.s.App.AppCodec())
	store := w.s.Ctx.KVStore(w.s.App.GetKey(migratetypes.StoreKey))
	for _, kv := range hx.RawPrefix(w.s.Ctx, w.s.App.GetKey(migratetypes.StoreKey), nil) {
		store.Delete(kv[0])
	}
	am.InitGenesis(w.s.Ctx, w.s.App.AppCodec(), exported)
	w.out.Count("genesis-roundtrip")
	var gs migratetypes.GenesisState
	w.s.App.AppCodec().MustUnmarshalJSON(exported, &gs)
	w.out.Count(fmt.Sprintf("genesis-roundtrip:records=%d", len(gs.MigrateRecords)))
	// the model runs ExportGenesis / InitGenesis as read from the code on its own records: every record and direction flag
	// of the observation must be back
	w.emit("genesis", "ok")
	for id := range w.gone {
		if a := w.byID[id]; a != nil && !w.s.App.MigrateKeeper.HasMigrateRecord(w.s.Ctx, a.addr) {
			w.out.Violate("genesis: a migration record written by an accepted migration is exported by ExportGenesis but not restored by InitGenesis: the address can take part in a migration again after export/import")
			return
		}
	}
}

// opUnbondTime: governance changes the staking unbonding time (a real MsgUpdateParams by the gov authority); entries keep
// the completion time they were created with, so afterwards a later entry may complete before an earlier one
func (w *world) opUnbondTime(secs int64) {
	p, err := w.s.App.StakingKeeper.GetParams(w.s.Ctx)
	must(err)
	p.UnbondingTime = time.Duration(secs) * time.Second
	res := w.exec(&stakingtypes.MsgUpdateParams{Authority: authtypes.NewModuleAddress(govtypes.ModuleName).String(), Params: p})
	if res != "ok" {
		w.out.Violate("harness: MsgUpdateParams(staking) failed: " + res)
		return
	}
	w.out.Count(fmt.Sprintf("setunbond:%d", secs))
	w.emit(fmt.Sprintf("setunbond %d", secs), "ok")
}

func (w *world) migrate(fromID int, fromAddr sdk.AccAddress, to *actor, signer int, order, sig, mode string) string {
	roles := w.openInvolvement(fromAddr, to.addr)
	pf, pt := w.portfolio(fromAddr), w.portfolio(to.addr)
	totals := w.totals()
	others := map[int]string{}
	for _, a := range w.actors {
		if a.id != fromID && a.id != to.id {
			p := w.portfolio(a.addr)
			others[a.id] = p.bal.String() + p.stakingString()
		}
	}
	_, isVal := w.s.App.StakingKeeper.GetValidator(w.s.Ctx, sdk.ValAddress(fromAddr))
	usedBefore := w.gone[fromID] || w.gone[to.id]
	role := w.roleHistory(fromID, to.id)
	recsBefore := w.recordSlots(fromAddr, to.addr)
	lockedBefore := w.s.App.BankKeeper.LockedCoins(w.s.Ctx, fromAddr)

	toStr, spellName := common.BytesToAddress(to.addr).String(), "hex-checksum"
	spelled := w.spell != nil
	if spelled {
		toStr, spellName = w.spell.str, w.spell.name
		w.spell = nil
	}
	cls, bytesID, hexID := w.classify(toStr)
	if cls == 0 && !bytes.Equal(common.HexToAddress(toStr).Bytes(), to.addr) {
		w.out.Violate("harness: HexToAddress of a canonical hex spelling is not the address it spells")
	}
	// the transaction-level signer (what the ante handler demands a signature of) is exactly the source
	if signers, _, err := w.s.App.AppCodec().GetMsgV1Signers(&migratetypes.MsgMigrateAccount{From: fromAddr.String(), To: toStr, Signature: sig}); err != nil || len(signers) != 1 || !bytes.Equal(signers[0], fromAddr) {
		w.out.Violate("signers: the required transaction signer of MsgMigrateAccount is not exactly the source account")
	}
	rawTarget := w.rawStakingRecords(to.addr)
	entriesBefore := w.entryTotals()
	msg := &migratetypes.MsgMigrateAccount{From: fromAddr.String(), To: toStr, Signature: sig}
	// the counterfactual of later behaviour: when the migration is going to be accepted (dry run), the source first runs the
	// later script in a branch of the state without the migration
	var laterA []string
	cfSlash, cfFrac := w.rng.Intn(2) == 0, hx.Pick(w.rng, []string{"0.05", "0.333333333333333333"})
	if fa := w.byID[fromID]; fa == nil || fa.vest == nil { // vesting sources only send, receive and migrate
		dry, _ := w.s.Ctx.CacheContext()
		if hx.Try(func() error {
			if err := msg.ValidateBasic(); err != nil {
				return err
			}
			_, err := w.s.App.MsgServiceRouter().Handler(msg)(dry, msg)
			return err
		}) == "ok" {
			laterA = w.laterScript(w.s.Ctx, fromAddr, to.addr, cfSlash, cfFrac)
		}
	}
	toExisted := w.s.App.AccountKeeper.HasAccount(w.s.Ctx, to.addr)
	raw := w.exec(msg)
	res := errKind(raw)
	// the class the repair 13ce831 is about: does the target exist, does the source send anything, is there an entry to pay out
	w.out.Count(fmt.Sprintf("migrate-account:target-existed=%v,source-liquid=%v,source-unbonding=%v=%s", toExisted, !pf.bal.IsZero(), len(pf.ubds) > 0, res))
	w.out.Count("migrate-spelling:" + spellName + "/" + mode + "=" + res)
	w.out.Count("migrate:" + res)
	w.out.Count("migrate-sig:" + mode)
	for _, r := range roles {
		w.out.Count("migrate-gov:" + r.who + "-" + r.role + "-" + r.status + "=" + res)
	}
	if len(pf.dels) > 0 || len(pf.ubds) > 0 || len(pf.reds) > 0 {
		w.out.Count(fmt.Sprintf("migrate-portfolio:dels=%d,ubds=%d,reds=%d=%s", len(pf.dels), len(pf.ubds), len(pf.reds), res))
	}
	if role != "" {
		w.out.Count("migrate-chain:" + role + "=" + res)
	}
	if fa := w.byID[fromID]; fa != nil && fa.vest != nil {
		w.out.Count(fmt.Sprintf("migrate-vesting:kind=%d,locked=%v=%s", fa.vest.kind, !lockedBefore.IsZero(), res))
	}
	if spelled {
		w.emit(fmt.Sprintf("migratew %d %d %d %d %d %s", fromID, cls, bytesID, hexID, signer, order), res)
	} else {
		w.emit(fmt.Sprintf("migrate %d %d %d %s", fromID, to.id, signer, order), res)
	}
	if strings.HasPrefix(res, "err:other") || res == "panic" {
		w.out.Violate("migrate: unexpected failure kind " + res)
	}
	if res != "ok" {
		if w.totals() != totals {
			w.out.Violate("migrate: a refused migration changed totals")
		}
		// all or refuse: a refused migration moved nothing and did not use up the one-shot record of either address
		if a := w.portfolio(fromAddr); a.bal.String()+a.stakingString() != pf.bal.String()+pf.stakingString() {
			w.out.Violate("refused: a refused migration changed the source's portfolio")
		}
		if a := w.portfolio(to.addr); a.bal.String()+a.stakingString() != pt.bal.String()+pt.stakingString() {
			w.out.Violate("refused: a refused migration changed the target's portfolio")
		}
		if w.recordSlots(fromAddr, to.addr) != recsBefore {
			w.out.Violate("refused: a refused migration wrote a migration record or direction flag")
		}
		return res
	}
	if role != "" {
		w.out.Violate("reuse: migration accepted although an address took part in an earlier migration (" + role + ")")
	}
	// the address that received everything and is recorded as the target is the address whose key signed (source, that address)
	if rec, found := w.s.App.MigrateKeeper.GetMigrateRecord(w.s.Ctx, fromAddr); !found {
		w.out.Violate("record: no migration record of the source after an accepted migration")
	} else {
		recvd := common.HexToAddress(rec.To)
		ok := false
		if sigBz, err := hex.DecodeString(sig); err == nil {
			if pub, err := crypto.SigToPub(crypto.Keccak256([]byte(migratetypes.MigrateAccountSignaturePrefix), fromAddr, recvd.Bytes()), sigBz); err == nil {
				ok = crypto.PubkeyToAddress(*pub) == recvd
			}
		}
		if !ok {
			w.out.Violate("authorised: the address recorded as target of an accepted migration (target spelled as " + spellName +
				") is not the address recovered from the signature over (source, that address): the portfolio went to an address that did not sign")
		}
		if !bytes.Equal(recvd.Bytes(), to.addr) {
			w.out.Violate("authorised: the recorded target of an accepted migration is not the address the message spelled (" + spellName + ")")
		}
	}
	if rawTarget != "" {
		w.out.Violate("target: an accepted migration's target had a staking record of its own (raw scan: " + rawTarget + ")")
	}
	// matured unbonding entries are paid out with the bank keeper's UndelegateCoins, which refuses an address without account
	// AFTER it has debited the not-bonded pool, and the staking end blocker skips the error: the target must exist as an account
	if w.s.App.AccountKeeper.GetAccount(w.s.Ctx, to.addr) == nil {
		if p := w.portfolio(to.addr); len(p.ubds) > 0 {
			w.out.Violate("account: after an accepted migration the target holds unbonding entries but does not exist as an account (the source had no liquid coin, so nothing was sent to it): the end blocker cannot pay the entries out when they mature — the coins leave the not-bonded pool and reach nobody")
		}
		w.out.Count("migrate-ok:target-without-account")
	}
	if e := w.entryTotals(); e != entriesBefore {
		w.out.Violate("totals: number / balance of unbonding and redelegation entries changed by migration: " + entriesBefore + " -> " + e)
	}
	w.out.Nontrivial(fmt.Sprintf("migrate-ok:%d,%d,%d,%d", len(pf.bal), len(pf.dels), len(pf.ubds), len(pf.reds)))

	// ---- monitors on the real state --------------------------------------------------------------------
	if mode != "ok" {
		w.out.Violate("signature: migration accepted with signature mode " + mode + " (not the target key over prefix,from,to)")
	}
	if usedBefore {
		w.out.Violate("reuse: migration accepted although source or target was already used in a migration")
	}
	if isVal == nil {
		w.out.Violate("operator: migration of a validator operator accepted")
	}
	if len(pt.dels) > 0 || len(pt.ubds) > 0 || len(pt.reds) > 0 {
		w.out.Violate("target: migration accepted although the target has staking records")
	}
	for _, r := range roles {
		w.out.Violate(fmt.Sprintf("gov: migration accepted while %s is %s of a proposal still in its %s period (proposal %d)", r.who, r.role, r.status, r.id))
	}
	w.gone[fromID], w.gone[to.id] = true, true
	if fa := w.byID[fromID]; fa != nil {
		w.hist = append(w.hist, migRec{fa, to})
	}
	// both addresses are now marked, under the record key and under their direction flag
	if got := w.recordSlots(fromAddr, to.addr); got != "rec-from,rec-to,dir-from," + "dir-to" {
		w.out.Violate("record: after an accepted migration not every record slot of source and target is set (" + got + ")")
	}

	af, at := w.portfolio(fromAddr), w.portfolio(to.addr)
	if !af.empty() {
		w.out.Violate("moved: source still holds balances or staking records after migration")
	}
	if !at.bal.Equal(pt.bal.Add(pf.bal...)) {
		w.out.Violate("moved: target balances are not its prior balances plus the source's")
	}
	if at.stakingString() != pf.stakingString() {
		w.out.Violate("moved: target staking portfolio (delegations, pending rewards, unbonding, redelegation entries) differs from the source's before: " +
			diffHint(pf, at))
	}
	if w.totals() != totals {
		w.out.Violate("totals: supply, validator tokens/shares or pool balances changed by migration")
	}
	for _, a := range w.actors {
		if a.id != fromID && a.id != to.id {
			p := w.portfolio(a.addr)
			if others[a.id] != p.bal.String()+p.stakingString() {
				w.out.Violate("frame: a third account's portfolio changed by migration")
			}
		}
	}
	if m := w.mentions(fromAddr); len(m) > 0 {
		for _, x := range m {
			w.out.Violate("stale: a raw key or value under " + x + " still mentions the source address after migration")
		}
	}
	// every delegation of the target is indexed under its validator, and the validator's delegations query works
	sk := w.s.App.GetKey(stakingtypes.StoreKey)
	for vi := range at.dels {
		if !w.s.Ctx.KVStore(sk).Has(stakingtypes.GetDelegationsByValKey(w.vals[vi], to.addr)) {
			w.out.Violate("index: delegations-by-validator index (0x71) has no entry (validator, target) for a migrated delegation")
		}
		q := hx.Try(func() error {
			qs := stakingQuerier(w)
			resp, err := qs.ValidatorDelegations(w.s.Ctx, &stakingtypes.QueryValidatorDelegationsRequest{ValidatorAddr: w.valStr(vi)})
			if err != nil {
				return err
			}
			found := false
			for _, d := range resp.DelegationResponses {
				if d.Delegation.DelegatorAddress == to.addr.String() {
					found = true
				}
			}
			if !found {
				return fmt.Errorf("target missing")
			}
			return nil
		})
		if q != "ok" {
			w.out.Violate("index: ValidatorDelegations query of a validator with a migrated delegation fails or misses the target")
		}
		ds, err := w.s.App.StakingKeeper.GetValidatorDelegations(w.s.Ctx, w.vals[vi])
		if err == nil {
			sum := sdkmath.LegacyZeroDec()
			for _, d := range ds {
				if d.Shares.IsNil() || d.DelegatorAddress == "" {
					w.out.Violate("index: GetValidatorDelegations returns an empty delegation (stale delegations-by-validator entry of the source)")
					continue
				}
				sum = sum.Add(d.Shares)
			}
			val, _ := w.s.App.StakingKeeper.GetValidator(w.s.Ctx, w.vals[vi])
			if !sum.Equal(val.DelegatorShares) {
				w.out.Violate("index: GetValidatorDelegations no longer accounts for all delegator shares of the validator")
			}
		}
	}
	// the target can withdraw and undelegate what the source could
	for vi := range at.dels {
		cctx, _ := w.s.Ctx.CacheContext()
		r := hx.Try(func() error {
			_, err := w.s.App.DistrKeeper.WithdrawDelegationRewards(cctx, to.addr, w.vals[vi])
			return err
		})
		if r != "ok" {
			w.out.Violate("later: target cannot withdraw rewards of a migrated delegation")
		}
		sh, _ := sdkmath.LegacyNewDecFromStr(at.dels[vi])
		r = hx.Try(func() error {
			_, _, err := w.s.App.StakingKeeper.Undelegate(cctx, to.addr, w.vals[vi], sh)
			return err
		})
		if r != "ok" && !strings.Contains(r, "too many unbonding delegation entries") {
			w.out.Violate("later: target cannot undelegate a migrated delegation")
		}
	}
	w.invariants("after migration")
	w.consistency("after migration")
	if laterA != nil {
		w.counterfactual(laterA, w.laterScript(w.s.Ctx, to.addr, fromAddr, cfSlash, cfFrac), pt.bal, cfSlash, spellName)
	}
	return res
}

// which of the delegation (0x31), unbonding-delegation (0x32), redelegation (0x34) prefixes hold a record keyed by the delegator
func (w *world) rawStakingRecords(a sdk.AccAddress) string {
	sk := w.s.App.GetKey(stakingtypes.StoreKey)
	var out []string
	for _, x := range []struct {
		name string
		pfx  []byte
	}{{"0x31", stakingtypes.GetDelegationsKey(a)}, {"0x32", stakingtypes.GetUBDsKey(a)}, {"0x34", stakingtypes.GetREDsKey(a)}} {
		if n := len(hx.RawPrefix(w.s.Ctx, sk, x.pfx)); n > 0 {
			out = append(out, fmt.Sprintf("%s:%d", x.name, n))
		}
	}
	return strings.Join(out, ",")
}

// number and total balance of all unbonding / redelegation entries in the store
func (w *world) entryTotals() string {
	sk := w.s.App.GetKey(stakingtypes.StoreKey)
	cdc := w.s.App.AppCodec()
	nu, nr := 0, 0
	bu, br := sdkmath.ZeroInt(), sdkmath.ZeroInt()
	for _, kv := range hx.RawPrefix(w.s.Ctx, sk, stakingtypes.UnbondingDelegationKey) {
		for _, e := range stakingtypes.MustUnmarshalUBD(cdc, kv[1]).Entries {
			nu++
			bu = bu.Add(e.Balance)
		}
	}
	for _, kv := range hx.RawPrefix(w.s.Ctx, sk, stakingtypes.RedelegationKey) {
		for _, e := range stakingtypes.MustUnmarshalRED(cdc, kv[1]).Entries {
			nr++
			br = br.Add(e.InitialBalance)
		}
	}
	return fmt.Sprintf("unbonding %d/%s redelegation %d/%s", nu, bu, nr, br)
}

// roleHistory names how the addresses of a requested migration took part in earlier accepted ones ("" = not at all)
func (w *world) roleHistory(fromID, toID int) string {
	var out []string
	for _, m := range w.hist {
		if m.from.id == fromID && m.to.id == toID {
			out = append(out, "same-pair-again")
			continue
		}
		if m.from.id == toID && m.to.id == fromID {
			out = append(out, "pair-reversed")
			continue
		}
		if m.from.id == fromID {
			out = append(out, "old-source-as-source")
		}
		if m.to.id == fromID {
			out = append(out, "old-target-as-source")
		}
		if m.from.id == toID {
			out = append(out, "old-source-as-target")
		}
		if m.to.id == toID {
			out = append(out, "old-target-as-target")
		}
	}
	sort.Strings(out)
	return strings.Join(uniq(out), "+")
}

// which of the four slots SetMigrateRecord writes exist for (from, to)
func (w *world) recordSlots(from, to sdk.AccAddress) string {
	st := w.s.Ctx.KVStore(w.s.App.GetKey(migratetypes.StoreKey))
	var out []string
	if st.Has(migratetypes.GetMigratedRecordKey(from)) {
		out = append(out, "rec-from")
	}
	if st.Has(migratetypes.GetMigratedRecordKey(to)) {
		out = append(out, "rec-to")
	}
	if st.Has(migratetypes.GetMigratedDirectionFrom(from)) {
		out = append(out, "dir-from")
	}
	if st.Has(migratetypes.GetMigratedDirectionTo(common.BytesToAddress(to))) {
		out = append(out, "dir-to")
	}
	return strings.Join(out, ",")
}

// opChain: a migration whose addresses change role with respect to an earlier accepted one — the old source as target, the
// old target as source, the pair reversed, or the same source / target / pair again — correctly signed, so that nothing
// but the already-migrated guards stands in its way
func (w *world) opChain() {
	if len(w.hist) == 0 {
		w.opMigrate()
		return
	}
	m := hx.Pick(w.rng, w.hist)
	fresh := func(source bool) *actor {
		for i := 0; i < 60; i++ {
			a := hx.Pick(w.rng, w.actors)
			if w.gone[a.id] || a.vest != nil || a.id == 6 {
				continue
			}
			if source && (a.eth == nil || a.dual) {
				return a
			}
			if !source && a.eth != nil {
				return a
			}
		}
		return nil
	}
	var from, to *actor
	switch w.rng.Intn(6) {
	case 0: // old source as target (needs the old source's ethereum key)
		from, to = fresh(true), m.from
	case 1: // old target as source (needs an auth account with secp256k1 key at the old target)
		from, to = m.to, fresh(false)
	case 2: // the pair reversed
		from, to = m.to, m.from
	case 3: // the same pair again
		from, to = m.from, m.to
	case 4: // the old source again, to a new target
		from, to = m.from, fresh(false)
	default: // a new source to the old target
		from, to = fresh(true), m.to
	}
	if from == nil || to == nil || to.eth == nil || from == to {
		w.opMigrate()
		return
	}
	w.migrate(from.id, from.addr, to, to.id, "ft", w.sign(to.eth, from.addr, to.addr), "ok")
}

func diffHint(a, b portfolio) string {
	var out []string
	if fmt.Sprint(a.dels) != fmt.Sprint(b.dels) {
		out = append(out, "delegations")
	}
	if fmt.Sprint(a.rewards) != fmt.Sprint(b.rewards) {
		out = append(out, "rewards")
	}
	if fmt.Sprint(a.ubds) != fmt.Sprint(b.ubds) {
		out = append(out, "unbonding")
	}
	if fmt.Sprint(a.reds) != fmt.Sprint(b.reds) {
		out = append(out, "redelegations")
	}
	return strings.Join(out, ",")
}

// ---------------------------------------------------------------------------------------------------------

func (w *world) reset() {
	ctx := w.s.Ctx
	nextUnb := uint64(1)
	if bz := ctx.KVStore(w.s.App.GetKey(stakingtypes.StoreKey)).Get(stakingtypes.UnbondingIDKey); bz != nil {
		nextUnb = binary.BigEndian.Uint64(bz) + 1
	}
	nextProp, err := w.s.App.GovKeeper.Keeper.ProposalID.Peek(ctx)
	must(err)
	mp, err := w.s.App.StakingKeeper.MaxEntries(ctx)
	must(err)
	w.out.Reset(fmt.Sprint(unbondSecs), fmt.Sprint(depSecs), fmt.Sprint(voteSecs), w.minDep.String(), fmt.Sprint(mp), fmt.Sprint(nextUnb), fmt.Sprint(nextProp))
	for i, v := range w.vals {
		val, err := w.s.App.StakingKeeper.GetValidator(ctx, v)
		must(err)
		cur, err := w.s.App.DistrKeeper.GetValidatorCurrentRewards(ctx, v)
		must(err)
		w.out.Emit(fmt.Sprintf("val %d %s %d", 100+i, val.Tokens, cur.Period), "ok")
	}
	for _, a := range w.actors {
		acc := w.s.App.AccountKeeper.GetAccount(ctx, a.addr)
		if acc != nil && acc.GetPubKey() != nil {
			w.out.Emit(fmt.Sprintf("key %d", a.id), "ok")
		} else if acc != nil {
			w.out.Emit(fmt.Sprintf("acct %d", a.id), "ok")
		}
	}
	w.out.Emit("key 100", "ok")
	for _, a := range w.actors {
		if a.vest != nil {
			w.out.Emit(a.vest.line(a.id), "ok")
			w.out.Count(fmt.Sprintf("vesting-account:kind=%d", a.vest.kind))
		}
	}
	for id, name := range map[int]string{idBonded: stakingtypes.BondedPoolName, idNotBond: stakingtypes.NotBondedPoolName, idGov: govtypes.ModuleName} {
		amt := w.balFX(authtypes.NewModuleAddress(name))
		if amt.IsPositive() {
			w.emit(fmt.Sprintf("mint %d 0 %s", id, amt), "ok")
		}
	}
	// funding
	for _, a := range w.actors {
		if w.bare {
			break
		}
		if a.id >= idFresh && freshTarget() {
			continue // stays without account until something is sent to it
		}
		for di, d := range w.denoms {
			if di > 0 && w.rng.Intn(2) == 0 {
				continue
			}
			n := w.amt(1000 + w.rng.Int63n(3000))
			if a.id == 16 && di == 0 {
				n = w.amt(1) // a nearly empty target
			}
			w.s.MintToken(a.addr, sdk.NewCoin(d, n))
			w.emit(fmt.Sprintf("mint %d %d %s", a.id, di, n), "ok")
		}
	}
}

func (w *world) randomOp() {
	switch r := w.rng.Intn(100); {
	case r < 8:
		w.opSend()
	case r < 26:
		w.opDelegate()
	case r < 40:
		w.opUndelegate()
	case r < 50:
		w.opRedelegate()
	case r < 56:
		w.opWithdraw()
	case r < 59:
		w.opSetWithdraw()
	case r < 65:
		w.opSubmit()
	case r < 71:
		w.opDeposit()
	case r < 76:
		w.opVote()
	case r < 87:
		w.opBlock(hx.Pick(w.rng, []int64{1, 1, 7, 50, 100, 100, 200, 299, 300}))
	case r < 88:
		if w.rng.Intn(2) == 0 {
			w.opPeriods()
		} else {
			w.opUnbondTime(hx.Pick(w.rng, []int64{30, 100, 300, 300}))
		}
	case r < 96:
		if os.Getenv("VERIF_C14_GENESIS") == "1" && len(w.hist) > 0 && w.rng.Intn(3) == 0 {
			w.opGenesisRoundTrip()
		}
		if w.rng.Intn(4) == 0 {
			w.opMigrateTx(hx.Pick(w.rng, []int64{1, 1, 7, 100, 300}))
		} else {
			w.opMigrate()
		}
	default:
		w.opChain()
	}
}

func TestC14(t *testing.T) {
	seed := hx.Seed()
	out := hx.NewOut()
	defer out.Close("correspondence of the C14 store-level model with the real app (every op line compared) + property monitors on real state after every migration and block")
	replayCorpus(t, out) // corpus/C14/*.ops first
	nSeq := hx.N(70, 400)
	nOps := 70
	if hx.Tier() == "thorough" {
		nOps = 140
	}
	for i := 0; i < nSeq; i++ {
		rng := rand.New(rand.NewSource(seed*1000003 + int64(i)))
		w := newWorld(t, out, rng)
		w.reset()
		switch {
		case i == 0:
			w.scripted()
			continue
		case i >= 1 && i <= 4: // the governance matrix: who x role x stage of the proposal's life
			cases := govMatrix()
			rand.New(rand.NewSource(seed)).Shuffle(len(cases), func(a, b int) { cases[a], cases[b] = cases[b], cases[a] })
			for k := 0; k < 5; k++ {
				c := cases[((i-1)*5+k)%len(cases)]
				w.govScenario(c, w.byID[1+k], w.byID[11+k], w.byID[6])
			}
			w.opBlock(400)
			w.opBlock(400)
			w.opBlock(1)
			continue
		case i == 5:
			w.portfolioScenario(false)
			continue
		case i == 6:
			w.chainScenario()
			continue
		case i == 7:
			w.portfolioScenario(true)
			continue
		case i == 8:
			w.spellingScenario()
			continue
		case i == 9 || i == 10:
			w.singleKindScenario(i == 9)
			continue
		case i == 11 || i == 12:
			w.slashScenario(i == 11)
			continue
		case i == 13:
			w.boundaryScenario()
			continue
		case i == 14:
			w.txScenario()
			continue
		case i == 15 && freshTarget():
			w.freshTargetScenario()
			continue
		}
		for j := 0; j < nOps; j++ {
			w.randomOp()
		}
		// let everything mature and every proposal end
		w.opBlock(400)
		w.opBlock(400)
		w.opBlock(1)
	}
	_ = big.NewInt
}

type govCase struct{ who, role, phase string }

// every way an address can be involved in a proposal, at every stage of the proposal's life: during the deposit / voting
// period, at the very end time (the proposal is still queued: its end blocker has not run), and after it closed
func govMatrix() []govCase {
	var cs []govCase
	for _, who := range []string{"source", "target"} {
		cs = append(cs,
			govCase{who, "proposer", "deposit"}, govCase{who, "depositor", "deposit"},
			govCase{who, "proposer", "voting"}, govCase{who, "depositor", "voting"}, govCase{who, "voter", "voting"},
			govCase{who, "proposer", "deposit-end"}, govCase{who, "voter", "voting-end"},
			govCase{who, "depositor", "closed-unfunded"}, govCase{who, "voter", "closed-voted"})
	}
	// a voting period far longer than usual (the parameter was raised before the proposal entered it)
	cs = append(cs, govCase{"source", "voter", "voting-long"}, govCase{"target", "depositor", "voting-long"})
	return cs
}

func (w *world) textProposal(a *actor, dep sdkmath.Int) string {
	content, _ := govv1beta1.ContentFromProposalType("title", "description", "Text")
	legacy, err := govv1.NewLegacyContent(content, authtypes.NewModuleAddress(govtypes.ModuleName).String())
	must(err)
	anys, err := sdktx.SetMsgs([]sdk.Msg{legacy})
	must(err)
	var init sdk.Coins
	if dep.IsPositive() {
		init = sdk.NewCoins(w.coin(dep))
	}
	res := w.exec(&govv1.MsgSubmitProposal{Messages: anys, InitialDeposit: init, Proposer: a.addr.String(), Title: "title", Summary: "description"})
	w.emit(fmt.Sprintf("submit %d %s", a.id, dep), kind(res))
	return res
}

func (w *world) doDeposit(a *actor, id uint64, n sdkmath.Int) {
	res := w.exec(&govv1.MsgDeposit{ProposalId: id, Depositor: a.addr.String(), Amount: sdk.NewCoins(w.coin(n))})
	w.emit(fmt.Sprintf("deposit %d %d %s", a.id, id, n), kind(res))
}

func (w *world) doVote(a *actor, id uint64) {
	res := w.exec(&govv1.MsgVote{ProposalId: id, Voter: a.addr.String(), Option: govv1.OptionYes})
	w.emit(fmt.Sprintf("vote %d %d", a.id, id), kind(res))
}

// govScenario: exactly one involvement of the source or the target in one proposal (a third account supplies the rest),
// the proposal brought to the requested stage, then a correctly signed migration of an otherwise unobjectionable pair
func (w *world) govScenario(c govCase, src, tgt, helper *actor) {
	x := src
	if c.who == "target" {
		x = tgt
	}
	id, err := w.s.App.GovKeeper.Keeper.ProposalID.Peek(w.s.Ctx)
	must(err)
	top := w.amt(2500) // the third account and the involved one can always afford the minimum deposit
	for _, a := range []*actor{helper, x} {
		w.s.MintToken(a.addr, w.coin(top))
		w.emit(fmt.Sprintf("mint %d 0 %s", a.id, top), "ok")
	}
	voting := strings.HasPrefix(c.phase, "voting") || c.phase == "closed-voted"
	zero := sdkmath.ZeroInt()
	if c.phase == "voting-long" {
		w.setPeriods(depSecs, hx.Pick(w.rng, []int64{15 * 24 * 3600, 40 * 24 * 3600, 400 * 24 * 3600}))
	}
	switch c.role {
	case "proposer":
		w.textProposal(x, zero) // proposer without any deposit of its own
		if voting {
			w.doDeposit(helper, id, w.minDep)
		}
	case "depositor":
		switch {
		case !voting:
			w.textProposal(helper, zero)
			w.doDeposit(x, id, w.amt(1+w.rng.Int63n(400)))
		case w.rng.Intn(2) == 0:
			w.textProposal(helper, zero)
			w.doDeposit(x, id, w.minDep) // the deposit that starts the voting period
		default:
			w.textProposal(helper, w.minDep)
			w.doDeposit(x, id, w.amt(1+w.rng.Int63n(400))) // a further deposit during the voting period
		}
	case "voter":
		w.textProposal(helper, w.minDep)
		w.doVote(x, id)
	}
	switch c.phase {
	case "deposit", "voting":
		w.opBlock(hx.Pick(w.rng, []int64{1, 7, 50, 150}))
	case "voting-long":
		w.setPeriods(depSecs, voteSecs)
		w.opBlock(hx.Pick(w.rng, []int64{1, 7, 500}))
	case "deposit-end":
		w.opBlock(depSecs) // now == deposit end time: still queued
	case "voting-end":
		w.opBlock(voteSecs)
	case "closed-unfunded":
		w.opBlock(depSecs)
		w.opBlock(1)
	case "closed-voted":
		w.opBlock(voteSecs)
		w.opBlock(1)
	}
	res := w.migrate(src.id, src.addr, tgt, tgt.id, "ft", w.sign(tgt.eth, src.addr, tgt.addr), "ok")
	w.out.Count("gov-scenario:" + c.who + "-" + c.role + "-" + c.phase + "=" + res)
}

// portfolioScenario: a source whose records share completion times in every way — two unbonding delegations (different
// validators) and two redelegations started in one block, another delegator in the same slices, second entries of the
// same records at a later time, pending rewards, a second denomination — migrated, then everything matures
func (w *world) portfolioScenario(solo bool) {
	u1, u2, e1 := w.byID[1], w.byID[2], w.byID[11]
	del := func(a *actor, vi int, units int64) {
		n := w.amt(units)
		res, rw := w.withReward(a, func() sdkmath.Int { return n }, func() string {
			return w.exec(&stakingtypes.MsgDelegate{DelegatorAddress: a.addr.String(), ValidatorAddress: w.valStr(vi), Amount: w.coin(n)})
		})
		w.emit(fmt.Sprintf("delegate %d %d %s %s", a.id, 100+vi, n, rw), kind(res))
	}
	und := func(a *actor, vi int, units int64) {
		n := w.amt(units)
		res, rw := w.withReward(a, func() sdkmath.Int { return sdkmath.ZeroInt() }, func() string {
			return w.exec(&stakingtypes.MsgUndelegate{DelegatorAddress: a.addr.String(), ValidatorAddress: w.valStr(vi), Amount: w.coin(n)})
		})
		w.emit(fmt.Sprintf("undelegate %d %d %s %s", a.id, 100+vi, n, rw), kind(res))
	}
	red := func(a *actor, vi, vj int, units int64) {
		n := w.amt(units)
		res, rw := w.withReward(a, func() sdkmath.Int { return sdkmath.ZeroInt() }, func() string {
			return w.exec(&stakingtypes.MsgBeginRedelegate{DelegatorAddress: a.addr.String(), ValidatorSrcAddress: w.valStr(vi), ValidatorDstAddress: w.valStr(vj), Amount: w.coin(n)})
		})
		w.emit(fmt.Sprintf("redelegate %d %d %d %s %s 0", a.id, 100+vi, 100+vj, n, rw), kind(res))
	}
	del(u1, 0, 300)
	del(u1, 1, 200)
	del(u1, 2, 100)
	del(u2, 0, 100)
	del(u2, 1, 100)
	w.opBlock(5)
	if solo {
		// every entry of the source completes at a time of its own: no other record, entry or delegator shares its slice
		steps := []func(){
			func() { und(u1, 0, 10) }, func() { und(u1, 1, 10) }, func() { red(u1, 0, 2, 20) }, func() { und(u1, 0, 7) },
			func() { red(u1, 1, 2, 15) }, func() { und(u1, 1, 2) }, func() { red(u1, 0, 2, 5) }, func() { und(u1, 2, 3) },
			func() { und(u1, 0, 1) }, func() { red(u1, 1, 2, 4) },
		}
		for _, f := range steps {
			f()
			w.opBlock(int64(1 + w.rng.Intn(9)))
		}
		res := w.migrate(u1.id, u1.addr, e1, e1.id, "ft", w.sign(e1.eth, u1.addr, e1.addr), "ok")
		w.out.Count("portfolio-scenario-solo=" + res)
		und(e1, 0, 11)
		for k := 0; k < 7; k++ {
			w.opBlock(50)
		}
		und(e1, 1, 5)
		w.opBlock(300)
		w.opBlock(1)
		return
	}
	und(u1, 0, 10) // one block: two unbonding delegations of the source, one of another delegator, two redelegations
	und(u2, 0, 5)
	und(u1, 1, 10)
	red(u1, 0, 2, 20)
	red(u2, 1, 2, 7)
	red(u1, 1, 2, 15)
	w.opBlock(int64(20 + w.rng.Intn(60)))
	und(u1, 0, 7) // second entries of the same records, at a later time
	und(u1, 2, 3)
	red(u1, 0, 2, 5)
	und(u2, 1, 4)
	w.opBlock(int64(1 + w.rng.Intn(30)))
	und(u1, 1, 2) // and a third completion time
	w.opBlock(3)
	res := w.migrate(u1.id, u1.addr, e1, e1.id, "ft", w.sign(e1.eth, u1.addr, e1.addr), "ok")
	w.out.Count("portfolio-scenario=" + res)
	// the target carries on where the source stopped
	und(e1, 0, 11)
	und(e1, 2, 30)
	w.opBlock(100)
	w.opBlock(100)
	w.opBlock(100) // the first completion times pass here
	w.opBlock(50)
	und(e1, 1, 5)
	w.opBlock(100)
	w.opBlock(300)
	w.opBlock(1)
}

// spellingScenario: every spelling class of the target string, with a valid signature of the target key over (source, the
// 20 bytes spelled) and without one; a pair of its own for every spelling that some reading of the code might accept
func (w *world) spellingScenario() {
	pair := 0
	for k := 0; k < 10; k++ {
		src, tgt := w.byID[1+pair%5], w.byID[11+pair%5]
		sps := w.spellings(tgt.addr)
		sp := sps[k]
		for _, valid := range []bool{false, true} {
			sp2 := sp
			w.spell = &sp2
			if valid {
				res := w.migrate(src.id, src.addr, tgt, tgt.id, "ft", w.sign(tgt.eth, src.addr, tgt.addr), "ok")
				if res == "ok" {
					pair++
				}
			} else {
				w.migrate(src.id, src.addr, tgt, 0, "ft", "", "none")
			}
		}
		if k%3 == 2 {
			w.opBlock(1)
		}
	}
	w.opBlock(1)
}

// singleKindScenario: accounts that hold exactly one kind of staking record — only a delegation, only an unbonding
// delegation, only a redelegation (as delegator; reached by redelegating everything, lowering the unbonding time through a
// real MsgUpdateParams, undelegating the redelegated stake and letting that shorter unbonding mature first) — as target
// (must be refused) or as source (everything moves); the other side holds a record of the same kind between the same validators
func (w *world) singleKindScenario(asTarget bool) {
	del := func(a *actor, vi int, units int64) {
		n := w.amt(units)
		res, rw := w.withReward(a, func() sdkmath.Int { return n }, func() string {
			return w.exec(&stakingtypes.MsgDelegate{DelegatorAddress: a.addr.String(), ValidatorAddress: w.valStr(vi), Amount: w.coin(n)})
		})
		w.emit(fmt.Sprintf("delegate %d %d %s %s", a.id, 100+vi, n, rw), kind(res))
	}
	und := func(a *actor, vi int, units int64) {
		n := w.amt(units)
		res, rw := w.withReward(a, func() sdkmath.Int { return sdkmath.ZeroInt() }, func() string {
			return w.exec(&stakingtypes.MsgUndelegate{DelegatorAddress: a.addr.String(), ValidatorAddress: w.valStr(vi), Amount: w.coin(n)})
		})
		w.emit(fmt.Sprintf("undelegate %d %d %s %s", a.id, 100+vi, n, rw), kind(res))
	}
	red := func(a *actor, vi, vj int, units int64) {
		n := w.amt(units)
		res, rw := w.withReward(a, func() sdkmath.Int { return sdkmath.ZeroInt() }, func() string {
			return w.exec(&stakingtypes.MsgBeginRedelegate{DelegatorAddress: a.addr.String(), ValidatorSrcAddress: w.valStr(vi), ValidatorDstAddress: w.valStr(vj), Amount: w.coin(n)})
		})
		w.emit(fmt.Sprintf("redelegate %d %d %d %s %s 0", a.id, 100+vi, 100+vj, n, rw), kind(res))
	}
	// the three accounts that will hold a single kind of record: x[0] only a delegation, x[1] only an unbonding delegation,
	// x[2] only a redelegation; y[k] is the other side of the migration with x[k]
	var x, y [3]*actor
	for k := 0; k < 3; k++ {
		if asTarget {
			x[k], y[k] = w.byID[11+k], w.byID[1+k]
		} else {
			x[k], y[k] = w.byID[1+k], w.byID[11+k]
		}
	}
	del(x[0], 0, 40)
	del(x[1], 0, 50)
	del(x[2], 0, 60)
	w.opBlock(3)
	red(x[2], 0, 1, 60) // everything: no delegation left with validator 0, a delegation with validator 1
	und(x[1], 0, 50) // everything, at the usual unbonding time: only an unbonding delegation is left
	w.opBlock(2)
	w.opUnbondTime(30)
	und(x[2], 1, 60) // the redelegated stake, unbonding in 30 s
	w.opBlock(20)
	w.opBlock(20)
	w.opBlock(1) // the short unbonding has matured; the redelegation and the other unbonding (300 s) have not
	w.opUnbondTime(unbondSecs)
	if asTarget {
		// the sources hold a record of the same kind, between the same validators
		del(y[0], 0, 10)
		del(y[1], 0, 20)
		und(y[1], 0, 5)
		del(y[2], 0, 30)
		red(y[2], 0, 1, 12)
		w.opBlock(1)
	}
	for k := 0; k < 3; k++ {
		from, to := x[k], y[k]
		if asTarget {
			from, to = y[k], x[k]
		}
		kindName := []string{"only-delegation", "only-unbonding", "only-redelegation"}[k]
		who := "source"
		if asTarget {
			who = "target"
		}
		w.out.Count("single-kind:" + who + "-" + kindName + ":records=" + w.rawStakingRecords(x[k].addr))
		res := w.migrate(from.id, from.addr, to, to.id, "ft", w.sign(to.eth, from.addr, to.addr), "ok")
		w.out.Count("single-kind:" + who + "-" + kindName + "=" + res)
	}
	w.opBlock(200)
	w.opBlock(100)
	w.opBlock(1)
}

// slashScenario: a source with delegations to validators 0 and 1, unbondings from both (two entries with validator 0)
// and a redelegation 0 -> 2; validator 0 (holder of unbonding entries, source of the redelegation) — and, in the second
// variant, validator 2 (its destination) as well — is slashed through the staking keeper's Slash, as the slashing / evidence
// modules do, for an infraction older than every entry, BEFORE the migration: the portfolio moves at a share price below
// 1, with fractional shares and reduced entries.  The model has no slashing: from the slash on no op line is emitted; the
// monitors of migrate (moved / totals / frame / consistency / crisis invariants / the counterfactual of later behaviour)
// and of the blocks still run.
func (w *world) slashScenario(both bool) {
	u1, u2, e1 := w.byID[1], w.byID[2], w.byID[11]
	name := "slash-src-validator"
	if both {
		name = "slash-src-and-dst-validator"
	}
	del := func(a *actor, vi int, units int64) {
		n := w.amt(units)
		res, rw := w.withReward(a, func() sdkmath.Int { return n }, func() string {
			return w.exec(&stakingtypes.MsgDelegate{DelegatorAddress: a.addr.String(), ValidatorAddress: w.valStr(vi), Amount: w.coin(n)})
		})
		w.emit(fmt.Sprintf("delegate %d %d %s %s", a.id, 100+vi, n, rw), kind(res))
	}
	und := func(a *actor, vi int, units int64) {
		n := w.amt(units)
		res, rw := w.withReward(a, func() sdkmath.Int { return sdkmath.ZeroInt() }, func() string {
			return w.exec(&stakingtypes.MsgUndelegate{DelegatorAddress: a.addr.String(), ValidatorAddress: w.valStr(vi), Amount: w.coin(n)})
		})
		w.emit(fmt.Sprintf("undelegate %d %d %s %s", a.id, 100+vi, n, rw), kind(res))
	}
	red := func(a *actor, vi, vj int, units int64) {
		n := w.amt(units)
		res, rw := w.withReward(a, func() sdkmath.Int { return sdkmath.ZeroInt() }, func() string {
			return w.exec(&stakingtypes.MsgBeginRedelegate{DelegatorAddress: a.addr.String(), ValidatorSrcAddress: w.valStr(vi), ValidatorDstAddress: w.valStr(vj), Amount: w.coin(n)})
		})
		w.emit(fmt.Sprintf("redelegate %d %d %d %s %s 0", a.id, 100+vi, 100+vj, n, rw), kind(res))
	}
	h0 := w.s.Ctx.BlockHeight()
	for _, a := range []*actor{u1, u2} {
		del(a, 0, 300)
		del(a, 1, 200)
	}
	w.opBlock(5)
	for _, a := range []*actor{u1, u2} {
		und(a, 0, 40)
		red(a, 0, 2, 50)
		und(a, 1, 10)
	}
	w.opBlock(20)
	und(u1, 0, 7) // a second entry of the same record
	w.opBlock(3)
	w.mute = true // the model's histories have no slashing
	vis := []int{0}
	if both {
		vis = []int{0, 2}
	}
	for _, vi := range vis {
		frac := hx.Pick(w.rng, []string{"0.05", "0.01", "0.333333333333333333", "0.5"})
		burned := w.slashVal(w.s.Ctx, vi, h0, frac)
		w.out.Count(fmt.Sprintf("slash:%s,fraction=%s,burned-positive=%v", name, frac, burned.IsPositive()))
	}
	w.invariants("after slash")
	res := w.migrate(u1.id, u1.addr, e1, e1.id, "ft", w.sign(e1.eth, u1.addr, e1.addr), "ok")
	w.out.Count("slash-scenario:" + name + "=" + res)
	for k := 0; k < 4; k++ {
		w.opBlock(100) // the slashed entries mature on the way
	}
	w.opBlock(1)
}

// slashVal: the staking keeper's Slash for an infraction at the given height (every entry created at or after it and not
// yet mature is reduced, redelegated stake is unbonded from the destination delegation)
func (w *world) slashVal(ctx sdk.Context, vi int, infraction int64, frac string) sdkmath.Int {
	val, err := w.s.App.StakingKeeper.GetValidator(ctx, w.vals[vi])
	must(err)
	cons, err := val.GetConsAddr()
	must(err)
	burned, err := w.s.App.StakingKeeper.Slash(ctx, cons, infraction, val.ConsensusPower(sdk.DefaultPowerReduction), sdkmath.LegacyMustNewDecFromStr(frac))
	must(err)
	return burned
}

// counterfactual: "afterwards the target can withdraw, undelegate and receive matured funds as the source could have",
// stated on the real app.  Before an acceptable migration is executed, laterScript is run by the SOURCE in a branch of the
// state (nothing is written back); after the migration the same script is run by the TARGET in a branch of the new state.
// The script — reward withdrawals, a partial undelegation, a redelegation, optionally a slash of validators 0 and 2 between
// migration and maturity, the staking end blocker at four later times, a full undelegation, the end blocker after the
// unbonding time — must be answered alike step by step, and after every step both must hold and have received the same.
// (Delegator-withdraw-address settings are not migrated: the actor's, and any third party's that names source or target,
// are reset to the default first.)
func (w *world) laterScript(base sdk.Context, who, other sdk.AccAddress, slash bool, frac string) []string {
	ctx, _ := base.CacheContext()
	must(w.s.App.DistrKeeper.SetDelegatorWithdrawAddr(ctx, who, who))
	// a third party's withdraw-address setting that names the source or the target is that party's setting (not migrated,
	// not part of the portfolio): a slash unbonds third parties' redelegated stake and thereby pays THEIR rewards to it
	for _, kv := range hx.RawPrefix(ctx, w.s.App.GetKey(distrtypes.StoreKey), distrtypes.DelegatorWithdrawAddrPrefix) {
		if bytes.Equal(kv[1], who) || bytes.Equal(kv[1], other) {
			d := sdk.AccAddress(distrtypes.GetDelegatorWithdrawInfoAddress(kv[0]))
			must(w.s.App.DistrKeeper.SetDelegatorWithdrawAddr(ctx, d, d))
		}
	}
	start := w.s.App.BankKeeper.GetAllBalances(ctx, who)
	var log []string
	execOn := func(msg sdk.Msg) string {
		cctx, write := ctx.CacheContext()
		res := hx.Try(func() error {
			_, err := w.s.App.MsgServiceRouter().Handler(msg)(cctx, msg)
			return err
		})
		if res == "ok" {
			write()
			return "ok"
		}
		if strings.HasPrefix(res, "panic:") {
			return res
		}
		return "err"
	}
	say := func(step, res string) { log = append(log, step+"="+res) }
	snap := func(step string) {
		now := w.s.App.BankKeeper.GetAllBalances(ctx, who)
		gain, _ := now.SafeSub(start...)
		p := w.portfolioAt(ctx, who)
		log = append(log, fmt.Sprintf("%s: received %s; holds %s", step, gain, p.stakingString()))
	}
	half := func(vi int) sdkmath.Int {
		d, err := w.s.App.StakingKeeper.GetDelegation(ctx, who, w.vals[vi])
		if err != nil {
			return sdkmath.ZeroInt()
		}
		val, err := w.s.App.StakingKeeper.GetValidator(ctx, w.vals[vi])
		must(err)
		return val.TokensFromShares(d.Shares).TruncateInt().QuoRaw(2)
	}
	snap("at the start")
	for vi := range w.vals {
		if _, err := w.s.App.StakingKeeper.GetDelegation(ctx, who, w.vals[vi]); err == nil {
			say(fmt.Sprintf("withdraw %d", vi), execOn(&distrtypes.MsgWithdrawDelegatorReward{DelegatorAddress: who.String(), ValidatorAddress: w.valStr(vi)}))
		}
	}
	snap("after withdrawals")
	for vi := range w.vals {
		if n := half(vi); n.IsPositive() {
			say(fmt.Sprintf("undelegate-half %d", vi), execOn(&stakingtypes.MsgUndelegate{DelegatorAddress: who.String(), ValidatorAddress: w.valStr(vi), Amount: w.coin(n)}))
			dst := (vi + 1) % len(w.vals)
			if n2 := half(vi); n2.IsPositive() {
				say(fmt.Sprintf("redelegate-half %d->%d", vi, dst), execOn(&stakingtypes.MsgBeginRedelegate{DelegatorAddress: who.String(), ValidatorSrcAddress: w.valStr(vi), ValidatorDstAddress: w.valStr(dst), Amount: w.coin(n2)}))
			}
			break
		}
	}
	snap("after partial undelegation / redelegation")
	if slash {
		for _, vi := range []int{0, 2} {
			say(fmt.Sprintf("slash %d", vi), hx.Try(func() error { w.slashVal(ctx, vi, 1, frac); return nil }))
		}
		snap("after slash")
	}
	for k := 0; k < 4; k++ {
		ctx = ctx.WithBlockTime(ctx.BlockTime().Add(100 * time.Second)).WithBlockHeight(ctx.BlockHeight() + 1)
		say(fmt.Sprintf("end-blocker +%ds", 100*(k+1)), hx.Try(func() error { _, err := w.s.App.StakingKeeper.BlockValidatorUpdates(ctx); return err }))
		snap(fmt.Sprintf("after end blocker +%ds", 100*(k+1)))
	}
	for vi := range w.vals {
		d, err := w.s.App.StakingKeeper.GetDelegation(ctx, who, w.vals[vi])
		if err != nil {
			continue
		}
		val, err := w.s.App.StakingKeeper.GetValidator(ctx, w.vals[vi])
		must(err)
		if n := val.TokensFromShares(d.Shares).TruncateInt(); n.IsPositive() {
			say(fmt.Sprintf("undelegate-all %d", vi), execOn(&stakingtypes.MsgUndelegate{DelegatorAddress: who.String(), ValidatorAddress: w.valStr(vi), Amount: w.coin(n)}))
		}
	}
	snap("after full undelegation")
	ctx = ctx.WithBlockTime(ctx.BlockTime().Add(40 * 24 * time.Hour)).WithBlockHeight(ctx.BlockHeight() + 1)
	say("end-blocker late", hx.Try(func() error { _, err := w.s.App.StakingKeeper.BlockValidatorUpdates(ctx); return err }))
	snap("after everything matured")
	return log
}

func (w *world) counterfactual(a, b []string, toPrior sdk.Coins, slash bool, spellName string) {
	w.out.Count(fmt.Sprintf("counterfactual:slash=%v,steps=%d", slash, len(a)))
	for i := range a {
		if i >= len(b) || a[i] != b[i] {
			got := "(nothing)"
			if i < len(b) {
				got = b[i]
			}
			w.out.Violate(fmt.Sprintf("later: after an accepted migration (target spelled as %s) the target does not get what the source would have got from the same later activity (slash of validators between migration and maturity: %v): without the migration the source: [%s]; the target: [%s]",
				spellName, slash, a[i], got))
			return
		}
	}
}

// boundaryScenario: the migration lands one second before, exactly at, and one second after the completion time of the
// source's unbonding and redelegation entries.  "Exactly at" is the block whose time equals the completion time: the end
// blocker that pays the entries runs at the end of this very block, after the migration — the entries are mature by the
// clock and still in the store and in the queues.
func (w *world) boundaryScenario() {
	del := func(a *actor, vi int, units int64) {
		n := w.amt(units)
		res, rw := w.withReward(a, func() sdkmath.Int { return n }, func() string {
			return w.exec(&stakingtypes.MsgDelegate{DelegatorAddress: a.addr.String(), ValidatorAddress: w.valStr(vi), Amount: w.coin(n)})
		})
		w.emit(fmt.Sprintf("delegate %d %d %s %s", a.id, 100+vi, n, rw), kind(res))
	}
	und := func(a *actor, vi int, units int64) {
		n := w.amt(units)
		res, rw := w.withReward(a, func() sdkmath.Int { return sdkmath.ZeroInt() }, func() string {
			return w.exec(&stakingtypes.MsgUndelegate{DelegatorAddress: a.addr.String(), ValidatorAddress: w.valStr(vi), Amount: w.coin(n)})
		})
		w.emit(fmt.Sprintf("undelegate %d %d %s %s", a.id, 100+vi, n, rw), kind(res))
	}
	red := func(a *actor, vi, vj int, units int64) {
		n := w.amt(units)
		res, rw := w.withReward(a, func() sdkmath.Int { return sdkmath.ZeroInt() }, func() string {
			return w.exec(&stakingtypes.MsgBeginRedelegate{DelegatorAddress: a.addr.String(), ValidatorSrcAddress: w.valStr(vi), ValidatorDstAddress: w.valStr(vj), Amount: w.coin(n)})
		})
		w.emit(fmt.Sprintf("redelegate %d %d %d %s %s 0", a.id, 100+vi, 100+vj, n, rw), kind(res))
	}
	mig := func(when string, from, to *actor) {
		res := w.migrate(from.id, from.addr, to, to.id, "ft", w.sign(to.eth, from.addr, to.addr), "ok")
		w.out.Count("boundary-scenario:" + when + "=" + res)
	}
	us := []*actor{w.byID[1], w.byID[2], w.byID[3]}
	es := []*actor{w.byID[11], w.byID[12], w.byID[13]}
	for _, a := range us {
		del(a, 0, 100)
		del(a, 1, 50)
	}
	w.opBlock(5)
	for _, a := range us { // one block: every entry completes at now + unbonding time
		und(a, 0, 10)
		red(a, 1, 2, 20)
	}
	w.opBlock(7)
	for _, a := range us { // a second, later entry of the same unbonding record
		und(a, 0, 3)
	}
	w.opBlock(unbondSecs - 8) // one second before the first completion time
	mig("one-second-before", us[1], es[1])
	w.opBlock(1) // now == completion time of the first entries; their end blocker has not run
	mig("at-completion-time", us[0], es[0])
	w.opBlock(1) // the end blocker of the block at the completion time pays the first entries
	mig("one-second-after", us[2], es[2])
	w.opBlock(5)
	w.opBlock(1) // now == completion time of the second entries + ... they mature on the way
	w.opBlock(10)
	// what was unbonded has arrived: nothing of the three portfolios is left unbonding
	for k, e := range es {
		if p := w.portfolio(e.addr); len(p.ubds) > 0 || len(p.reds) > 0 {
			w.out.Violate(fmt.Sprintf("later: boundary scenario: target %d still has unbonding / redelegation entries after their completion time passed", k))
		}
		if p := w.portfolio(us[k].addr); !p.empty() {
			w.out.Violate(fmt.Sprintf("later: boundary scenario: the retired source %d holds something again after maturation", k))
		}
	}
}

// signedTx: a transaction with the given messages signed (SIGN_MODE_DIRECT) by the given secp256k1 key as the account at addr
func (w *world) signedTx(msgs []sdk.Msg, addr sdk.AccAddress, priv *secp256k1.PrivKey) ([]byte, error) {
	txCfg := w.s.App.GetTxConfig()
	txb := txCfg.NewTxBuilder()
	if err := txb.SetMsgs(msgs...); err != nil {
		return nil, err
	}
	gas := uint64(8_000_000)
	txb.SetGasLimit(gas)
	txb.SetFeeAmount(sdk.NewCoins(w.coin(sdkmath.NewInt(1_000_000_000_000).MulRaw(int64(gas)))))
	acc := w.s.App.AccountKeeper.GetAccount(w.s.Ctx, addr)
	if acc == nil {
		return nil, fmt.Errorf("no account")
	}
	mode := signing.SignMode_SIGN_MODE_DIRECT
	sig := signing.SignatureV2{PubKey: priv.PubKey(), Data: &signing.SingleSignatureData{SignMode: mode}, Sequence: acc.GetSequence()}
	if err := txb.SetSignatures(sig); err != nil {
		return nil, err
	}
	sd := authsigning.SignerData{Address: addr.String(), ChainID: w.s.Ctx.ChainID(), AccountNumber: acc.GetAccountNumber(), Sequence: acc.GetSequence(), PubKey: priv.PubKey()}
	sig, err := clienttx.SignWithPrivKey(context.TODO(), mode, sd, txb, priv, txCfg, acc.GetSequence())
	if err != nil {
		return nil, err
	}
	if err := txb.SetSignatures(sig); err != nil {
		return nil, err
	}
	return txCfg.TxEncoder()(txb.GetTx())
}

// txScenario: the migration delivered as a signed transaction through the real FinalizeBlock — ante handler (the required
// signer is the source: its account key must have signed the transaction), baseapp's ValidateBasic (the target's key must
// have signed (source, target)), message router, handler — in every combination of the two signatures being right or
// wrong.  Fees, sequence numbers and the block's begin / end blockers are outside the model: no op line is emitted; the
// outcome is judged on the real state (moved completely or not at all).
func (w *world) txScenario() {
	w.mute = true
	type pairT struct {
		src, tgt *actor
		txKey    string // who signs the transaction: source | other
		inner    string // who signs (source, target): target | other | swapped
	}
	other := w.byID[5]
	pairs := []pairT{
		{w.byID[2], w.byID[12], "other", "target"},
		{w.byID[3], w.byID[13], "source", "other"},
		{w.byID[4], w.byID[14], "source", "swapped"},
		{w.byID[1], w.byID[11], "source", "target"},
	}
	for _, p := range pairs {
		for vi, units := range []int64{120, 60} {
			if res := w.exec(&stakingtypes.MsgDelegate{DelegatorAddress: p.src.addr.String(), ValidatorAddress: w.valStr(vi), Amount: w.coin(w.amt(units))}); res != "ok" {
				w.out.Violate("harness: delegate in txScenario failed: " + res)
			}
		}
		if res := w.exec(&stakingtypes.MsgUndelegate{DelegatorAddress: p.src.addr.String(), ValidatorAddress: w.valStr(0), Amount: w.coin(w.amt(20))}); res != "ok" {
			w.out.Violate("harness: undelegate in txScenario failed: " + res)
		}
	}
	w.opBlock(5)
	for _, p := range pairs {
		var sig string
		switch p.inner {
		case "target":
			sig = w.sign(p.tgt.eth, p.src.addr, p.tgt.addr)
		case "swapped":
			sig = w.sign(p.tgt.eth, p.tgt.addr, p.src.addr)
		default:
			sig = w.sign(w.byID[12].eth, p.src.addr, p.tgt.addr)
		}
		msg := &migratetypes.MsgMigrateAccount{From: p.src.addr.String(), To: common.BytesToAddress(p.tgt.addr).String(), Signature: sig}
		signer := p.src
		if p.txKey == "other" {
			signer = other
		}
		// the transaction is always built as the source's (account number, sequence, address); the key that signs it varies
		bz, err := w.signedTx([]sdk.Msg{msg}, p.src.addr, signer.priv)
		if err != nil {
			w.out.Violate("harness: cannot build the migration transaction: " + err.Error())
			continue
		}
		pf, pt := w.portfolio(p.src.addr), w.portfolio(p.tgt.addr)
		feeBefore := w.balFX(p.src.addr)
		res := w.endBlockTxs(1, [][]byte{bz})
		w.invariants("after a block with a migration transaction")
		w.consistency("after a block with a migration transaction")
		code, log := uint32(999), ""
		if len(res) == 1 {
			code, log = res[0].Code, res[0].Log
		}
		want := p.txKey == "source" && p.inner == "target"
		w.out.Count(fmt.Sprintf("tx-scenario:tx-signed-by=%s,pair-signed-by=%s,accepted=%v", p.txKey, p.inner, code == 0))
		af, at := w.portfolio(p.src.addr), w.portfolio(p.tgt.addr)
		_, hasRec := w.s.App.MigrateKeeper.GetMigrateRecord(w.s.Ctx, p.src.addr)
		switch {
		case code == 0 && !want:
			w.out.Violate(fmt.Sprintf("signature: a migration transaction signed by %s (required: the source's account key) carrying a (source, target) signature by %s (required: the target's key over prefix, source, target) was accepted by FinalizeBlock", p.txKey, p.inner))
		case code != 0 && want:
			w.out.Violate("harness: a correctly signed migration transaction was refused by FinalizeBlock: " + log)
		case code != 0:
			if hasRec || fmt.Sprint(af.dels, af.ubds, af.reds) != fmt.Sprint(pf.dels, pf.ubds, pf.reds) || fmt.Sprint(at.dels, at.ubds, at.reds) != fmt.Sprint(pt.dels, pt.ubds, pt.reds) || !at.bal.Equal(pt.bal) {
				w.out.Violate("refused: a refused migration transaction moved something or wrote a record")
			}
		default:
			// accepted: everything the source held after paying the fee is with the target, the source has nothing
			if !af.empty() {
				w.out.Violate("moved: source still holds balances or staking records after a migration transaction")
			}
			if fmt.Sprint(at.dels, at.ubds, at.reds) != fmt.Sprint(pf.dels, pf.ubds, pf.reds) {
				w.out.Violate("moved: after a migration transaction the target's delegations / unbonding / redelegation entries differ from the source's before")
			}
			gained := at.bal.AmountOf(fxtypes.DefaultDenom).Sub(pt.bal.AmountOf(fxtypes.DefaultDenom))
			if gained.GT(feeBefore) || gained.IsNegative() {
				w.out.Violate("moved: after a migration transaction the target holds more than its own and the source's coins")
			}
			if !hasRec {
				w.out.Violate("record: no migration record after an accepted migration transaction")
			}
			if m := w.mentions(p.src.addr); len(m) > 0 {
				w.out.Violate("stale: a raw key or value under " + m[0] + " still mentions the source address after a migration transaction")
			}
			w.gone[p.src.id], w.gone[p.tgt.id] = true, true
		}
	}
	w.opBlock(unbondSecs)
	w.opBlock(1)
}

// freshTargetScenario: the target is an address that does not exist on chain (no account), and the source holds no liquid
// coin (everything delegated, unbonding or sent away): the bank handler has nothing to send, so the target still has no
// account after the accepted migration — and must nevertheless be refused as source or target of any later migration.
func (w *world) freshTargetScenario() {
	u1, u2, u3, u4 := w.byID[1], w.byID[2], w.byID[3], w.byID[4]
	fresh, e2 := w.byID[idFresh], w.byID[12]
	stake := func(a *actor, vi int, units int64) {
		n := w.amt(units)
		res, rw := w.withReward(a, func() sdkmath.Int { return n }, func() string {
			return w.exec(&stakingtypes.MsgDelegate{DelegatorAddress: a.addr.String(), ValidatorAddress: w.valStr(vi), Amount: w.coin(n)})
		})
		w.emit(fmt.Sprintf("delegate %d %d %s %s", a.id, 100+vi, n, rw), kind(res))
	}
	unstake := func(a *actor, vi int, units int64) {
		n := w.amt(units)
		res, rw := w.withReward(a, func() sdkmath.Int { return sdkmath.ZeroInt() }, func() string {
			return w.exec(&stakingtypes.MsgUndelegate{DelegatorAddress: a.addr.String(), ValidatorAddress: w.valStr(vi), Amount: w.coin(n)})
		})
		w.emit(fmt.Sprintf("undelegate %d %d %s %s", a.id, 100+vi, n, rw), kind(res))
	}
	mig := func(when string, from, to *actor) {
		res := w.migrate(from.id, from.addr, to, to.id, "ft", w.sign(to.eth, from.addr, to.addr), "ok")
		acc := w.s.App.AccountKeeper.GetAccount(w.s.Ctx, to.addr)
		w.out.Count(fmt.Sprintf("fresh-target-scenario:%s=%s,target-has-account=%v", when, res, acc != nil))
	}
	stake(u1, 0, 100)
	stake(u1, 1, 40)
	w.opBlock(3)
	unstake(u1, 0, 10)
	for di, d := range w.denoms { // every liquid coin leaves the source
		if bal := w.s.App.BankKeeper.GetBalance(w.s.Ctx, u1.addr, d).Amount; bal.IsPositive() {
			res := w.exec(&banktypes.MsgSend{FromAddress: u1.addr.String(), ToAddress: u3.addr.String(), Amount: sdk.NewCoins(sdk.NewCoin(d, bal))})
			w.emit(fmt.Sprintf("send %d %d %d %s", u1.id, u3.id, di, bal), kind(res))
		}
	}
	w.opBlock(2)
	mig("no-liquid-coin-source-to-fresh-address", u1, fresh) // accepted; nothing is sent: the target gets no account
	mig("old-target-without-account-as-target", u2, fresh)   // must be refused: already used
	w.opBlock(1)
	// a source that holds nothing at all: the migration is accepted and moves nothing; the target has neither account nor
	// record of its own afterwards, and is used up all the same
	u5, fresh2 := w.byID[5], w.byID[idFresh+1]
	for di, d := range w.denoms {
		if bal := w.s.App.BankKeeper.GetBalance(w.s.Ctx, u5.addr, d).Amount; bal.IsPositive() {
			res := w.exec(&banktypes.MsgSend{FromAddress: u5.addr.String(), ToAddress: u3.addr.String(), Amount: sdk.NewCoins(sdk.NewCoin(d, bal))})
			w.emit(fmt.Sprintf("send %d %d %d %s", u5.id, u3.id, di, bal), kind(res))
		}
	}
	mig("empty-source-to-fresh-address", u5, fresh2)
	mig("old-target-without-account-or-records-as-target", u2, fresh2) // must be refused: already used
	mig("ordinary-source-to-funded-address", u4, e2)
	mig("old-target-without-account-as-target-again", u3, fresh)
	w.opBlock(unbondSecs)
	w.opBlock(1)
}

// chainScenario: every way an address of an accepted migration can come back in another role
func (w *world) chainScenario() {
	mig := func(from, to *actor) {
		w.migrate(from.id, from.addr, to, to.id, "ft", w.sign(to.eth, from.addr, to.addr), "ok")
	}
	u1, u2, u3 := w.byID[1], w.byID[2], w.byID[3]
	e1, e2, d4, d5, d6 := w.byID[11], w.byID[12], w.byID[14], w.byID[15], w.byID[16]
	mig(u1, d4) // user -> dual
	mig(d5, d6) // dual -> dual
	w.opBlock(1)
	mig(u2, d5) // old source as target
	mig(d4, e1) // old target as source
	mig(d6, d5) // the pair reversed
	w.opBlock(7)
	if os.Getenv("VERIF_C14_GENESIS") == "1" {
		w.opGenesisRoundTrip() // a restart from the exported genesis between the migrations: the one-shot records survive it
	}
	mig(u1, e2) // old source again
	mig(u3, d4) // old target again
	mig(u1, d4) // the same pair again
	mig(d5, e2) // old source (dual) again as source
	mig(u3, e1) // untouched pair: accepted
	w.opBlock(1)
}

// scripted: the directed history of DESIGN §6-F, run first in every run: a source that is proposer / depositor / voter of
// proposals still in deposit and voting period, with delegations over two validators, unbonding entries sharing a
// completion time with another delegator, a redelegation, then migration, then maturation.
func (w *world) scripted() {
	u1, u2, u3 := w.byID[1], w.byID[2], w.byID[3]
	e1, e2, e3 := w.byID[11], w.byID[12], w.byID[13]
	do := func(op string, f func() string) {
		res := f()
		w.emit(op, kind(res))
	}
	stake := func(a *actor, vi int, units int64) {
		n := w.amt(units)
		res, rw := w.withReward(a, func() sdkmath.Int { return n }, func() string {
			return w.exec(&stakingtypes.MsgDelegate{DelegatorAddress: a.addr.String(), ValidatorAddress: w.valStr(vi), Amount: w.coin(n)})
		})
		w.emit(fmt.Sprintf("delegate %d %d %s %s", a.id, 100+vi, n, rw), kind(res))
	}
	unstake := func(a *actor, vi int, units int64) {
		n := w.amt(units)
		res, rw := w.withReward(a, func() sdkmath.Int { return sdkmath.ZeroInt() }, func() string {
			return w.exec(&stakingtypes.MsgUndelegate{DelegatorAddress: a.addr.String(), ValidatorAddress: w.valStr(vi), Amount: w.coin(n)})
		})
		w.emit(fmt.Sprintf("undelegate %d %d %s %s", a.id, 100+vi, n, rw), kind(res))
	}
	restake := func(a *actor, vi, vj int, units int64) {
		n := w.amt(units)
		res, rw := w.withReward(a, func() sdkmath.Int { return sdkmath.ZeroInt() }, func() string {
			return w.exec(&stakingtypes.MsgBeginRedelegate{DelegatorAddress: a.addr.String(), ValidatorSrcAddress: w.valStr(vi), ValidatorDstAddress: w.valStr(vj), Amount: w.coin(n)})
		})
		w.emit(fmt.Sprintf("redelegate %d %d %d %s %s 0", a.id, 100+vi, 100+vj, n, rw), kind(res))
	}
	submit := func(a *actor, dep sdkmath.Int) {
		content, _ := govv1beta1.ContentFromProposalType("title", "description", "Text")
		legacy, _ := govv1.NewLegacyContent(content, authtypes.NewModuleAddress(govtypes.ModuleName).String())
		anys, _ := sdktx.SetMsgs([]sdk.Msg{legacy})
		do(fmt.Sprintf("submit %d %s", a.id, dep), func() string {
			return w.exec(&govv1.MsgSubmitProposal{Messages: anys, InitialDeposit: sdk.NewCoins(w.coin(dep)), Proposer: a.addr.String(), Title: "title", Summary: "description"})
		})
	}
	mig := func(a *actor, e *actor) {
		w.migrate(a.id, a.addr, e, e.id, "ft", w.sign(e.eth, a.addr, e.addr), "ok")
	}
	stake(u1, 0, 100)
	stake(u1, 1, 50)
	stake(u2, 0, 70)
	w.opBlock(5)
	unstake(u1, 0, 10)
	unstake(u2, 0, 10) // same completion time as u1's entry
	restake(u1, 1, 2, 20)
	w.opBlock(50)
	unstake(u1, 0, 5)
	// proposal 1: deposit period, u1 proposer; proposal 2: voting period, u3 proposer, u2 depositor, u1 voter
	np, _ := w.s.App.GovKeeper.Keeper.ProposalID.Peek(w.s.Ctx)
	submit(u1, w.amt(10))
	submit(u3, w.minDep)
	do(fmt.Sprintf("deposit %d %d %s", u2.id, np+1, w.amt(5)), func() string {
		return w.exec(&govv1.MsgDeposit{ProposalId: np + 1, Depositor: u2.addr.String(), Amount: sdk.NewCoins(w.coin(w.amt(5)))})
	})
	w.opBlock(7)
	mig(u1, e1) // proposer of a proposal in deposit period (and no vote yet)
	mig(u2, e2) // depositor of a proposal in voting period
	do(fmt.Sprintf("vote %d %d", u3.id, np+1), func() string {
		return w.exec(&govv1.MsgVote{ProposalId: np + 1, Voter: u3.addr.String(), Option: govv1.OptionYes})
	})
	mig(u3, e3) // proposer and voter of a proposal in voting period
	w.opBlock(200)
	w.opBlock(100) // unbonding entries of the (possibly migrated) accounts mature here
	w.opBlock(300)
	mig(u1, e1) // after everything closed
	mig(u2, e2)
	w.opBlock(300)
	w.opBlock(1)
}
