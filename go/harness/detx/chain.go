package detx

import (
	"bytes"
	"crypto/sha256"
	"encoding/binary"
	"encoding/hex"
	"fmt"
	"os"
	"path/filepath"
	"sort"
	"strings"
	"time"

	"cosmossdk.io/log"
	storetypes "cosmossdk.io/store/types"
	abci "github.com/cometbft/cometbft/abci/types"
	tmproto "github.com/cometbft/cometbft/proto/tendermint/types"
	tmtypes "github.com/cometbft/cometbft/types"
	dbm "github.com/cosmos/cosmos-db"
	"github.com/cosmos/cosmos-sdk/baseapp"
	"github.com/cosmos/cosmos-sdk/client/flags"
	codectypes "github.com/cosmos/cosmos-sdk/codec/types"
	sdk "github.com/cosmos/cosmos-sdk/types"
	evmtypes "github.com/evmos/ethermint/x/evm/types"
	"github.com/spf13/viper"

	"github.com/functionx/fx-core/v8/app"
	fxtypes "github.com/functionx/fx-core/v8/types"
	crosschaintypes "github.com/functionx/fx-core/v8/x/crosschain/types"
)

// ValState is the harness' view of one consensus validator.
type ValState struct {
	ConsAddr []byte
	PubKey   []byte
	Power    int64
}

// Chain is one in-process app instance (own in-memory DB) being driven through a history.
type Chain struct {
	App      *app.App
	ChainID  string
	Genesis  time.Time
	Height   int64 // last committed height
	Time     time.Time
	Vals     []ValState
	AppHash  []byte
	InitResp *abci.ResponseInitChain
}

// NewChain boots a fresh app (fresh MemDB) and runs InitChain with the genesis document.
func NewChain(gd *GenesisDoc) (*Chain, error) { return NewChainDB(gd, "", "") }

// NewChainDB is NewChain with a chosen DB backend ("" = in-memory, "goleveldb" = on disk under dir).
func NewChainDB(gd *GenesisDoc, backend, dir string) (*Chain, error) {
	var db dbm.DB = dbm.NewMemDB()
	if backend == "goleveldb" {
		ldb, err := dbm.NewGoLevelDB(fmt.Sprintf("application-%d", os.Getpid()), filepath.Join(dir, "data"), nil)
		if err != nil {
			return nil, err
		}
		db = ldb
	}
	opts := viper.New()
	opts.Set(flags.FlagChainID, gd.ChainID)
	a := app.New(log.NewNopLogger(), db, nil, true, map[int64]bool{}, fxtypes.GetDefaultNodeHome(), opts, baseapp.SetChainID(gd.ChainID))
	c := &Chain{App: a, ChainID: gd.ChainID, Genesis: time.Unix(gd.TimeUnix, 0).UTC()}
	for _, v := range gd.Vals {
		pk, _ := hex.DecodeString(v.ConsPubKey)
		ad, _ := hex.DecodeString(v.ConsAddr)
		c.Vals = append(c.Vals, ValState{ConsAddr: ad, PubKey: pk, Power: v.Power})
	}
	cp := app.CustomGenesisConsensusParams().ToProto()
	res, err := a.InitChain(&abci.RequestInitChain{
		Time:            c.Genesis,
		ChainId:         gd.ChainID,
		ConsensusParams: &cp,
		AppStateBytes:   gd.AppState,
		InitialHeight:   1,
	})
	if err != nil {
		return nil, err
	}
	c.InitResp = res
	c.Time = c.Genesis
	c.AppHash = res.AppHash
	return c, nil
}

// Obs is the observation of one executed block.
type Obs struct {
	Height    int64
	AppHash   string   // hex, commitment to all stores after the block
	Results   string   // CometBFT LastResultsHash over (code, data, gas_wanted, gas_used) of every tx
	FullRes   string   // digest over code, codespace, data, gas, log, info of every tx
	Events    string   // digest over block events and every tx's events
	ValUpd    string   // digest over validator updates + consensus param updates
	Inject    string   // digest over the outcomes (error text, events, EVM response) of the injected messages
	InjectRes []string `json:"-"`
	Codes     string   // codespace/code per tx (diagnostics)
	NTx       int
	NEvents   int
	NValUpd   int
	Err       string
	TxResults []*abci.ExecTxResult `json:"-"`
	BlockEv   []abci.Event         `json:"-"`
}

// Line renders the comparable observation line.
func (o Obs) Line() string {
	return fmt.Sprintf("h=%d apphash=%s results=%s fullres=%s events=%s valupd=%s inject=%s ntx=%d nev=%d nvu=%d codes=%s err=%s",
		o.Height, o.AppHash, o.Results, o.FullRes, o.Events, o.ValUpd, o.Inject, o.NTx, o.NEvents, o.NValUpd, o.Codes, o.Err)
}

// Fields of an observation line, in order, for reporting which digest differs.
var ObsFields = []string{"h", "apphash", "results", "fullres", "events", "valupd", "inject", "ntx", "nev", "nvu", "codes", "err"}

// DiffFields names the fields in which two observation lines differ.
func DiffFields(a, b string) []string {
	fa, fb := strings.Fields(a), strings.Fields(b)
	var out []string
	for i := 0; i < len(fa) || i < len(fb); i++ {
		var x, y string
		if i < len(fa) {
			x = fa[i]
		}
		if i < len(fb) {
			y = fb[i]
		}
		if x != y {
			name := x
			if j := strings.IndexByte(x, '='); j > 0 {
				name = x[:j]
			} else if j := strings.IndexByte(y, '='); j > 0 {
				name = y[:j]
			}
			out = append(out, name)
		}
	}
	return out
}

func putU(h interface{ Write([]byte) (int, error) }, n uint64) {
	var b [8]byte
	binary.BigEndian.PutUint64(b[:], n)
	_, _ = h.Write(b[:])
}

func putB(h interface{ Write([]byte) (int, error) }, b []byte) {
	putU(h, uint64(len(b)))
	_, _ = h.Write(b)
}

func hashEvents(h interface{ Write([]byte) (int, error) }, evs []abci.Event) int {
	putU(h, uint64(len(evs)))
	for _, e := range evs {
		putB(h, []byte(e.Type))
		putU(h, uint64(len(e.Attributes)))
		for _, a := range e.Attributes {
			putB(h, []byte(a.Key))
			putB(h, []byte(a.Value))
			if a.Index {
				putU(h, 1)
			} else {
				putU(h, 0)
			}
		}
	}
	return len(evs)
}

// RunBlock executes one block (FinalizeBlock + Commit) and returns its observation.
func (c *Chain) RunBlock(b Block) Obs {
	o := Obs{Height: b.Height, NTx: len(b.Txs)}
	txs := make([][]byte, len(b.Txs))
	for i, t := range b.Txs {
		bz, err := hex.DecodeString(t)
		if err != nil {
			o.Err = "bad-hex-tx"
			return o
		}
		txs[i] = bz
	}
	absent := map[int]bool{}
	for _, i := range b.Absent {
		absent[i] = true
	}
	ci := abci.CommitInfo{Round: 0}
	for i, v := range c.Vals {
		if v.Power <= 0 {
			continue
		}
		flag := tmproto.BlockIDFlagCommit
		if absent[i] {
			flag = tmproto.BlockIDFlagAbsent
		}
		ci.Votes = append(ci.Votes, abci.VoteInfo{Validator: abci.Validator{Address: v.ConsAddr, Power: v.Power}, BlockIdFlag: flag})
	}
	prop := c.Vals[b.Proposer%len(c.Vals)].ConsAddr
	bt := time.Unix(b.TimeUnix, 0).UTC()
	o.Inject = "-"
	if len(b.Inject) > 0 && c.Height > 0 {
		ih := sha256.New()
		for _, in := range b.Inject {
			res := c.inject(in, tmproto.Header{ChainID: c.ChainID, Height: b.Height, Time: bt, ProposerAddress: prop}, ih)
			o.InjectRes = append(o.InjectRes, res)
		}
		o.Inject = hex.EncodeToString(ih.Sum(nil)[:12])
	}
	bh := sha256.New()
	bh.Write([]byte("detx-block"))
	putU(bh, uint64(b.Height))
	putB(bh, c.AppHash)
	for _, t := range txs {
		putB(bh, t)
	}
	nvh := sha256.New()
	for _, v := range c.Vals {
		putB(nvh, v.PubKey)
		putU(nvh, uint64(v.Power))
	}
	res, err := c.App.FinalizeBlock(&abci.RequestFinalizeBlock{
		Height:             b.Height,
		Time:               bt,
		Txs:                txs,
		ProposerAddress:    prop,
		DecidedLastCommit:  ci,
		Hash:               bh.Sum(nil),
		NextValidatorsHash: nvh.Sum(nil),
	})
	if err != nil {
		o.Err = "finalize:" + firstLine(err.Error())
		return o
	}
	if _, err = c.App.Commit(); err != nil {
		o.Err = "commit:" + firstLine(err.Error())
		return o
	}
	c.Height, c.Time, c.AppHash = b.Height, bt, res.AppHash
	if cid := c.App.LastCommitID(); !bytes.Equal(cid.Hash, res.AppHash) {
		o.Err = "apphash-mismatch-finalize-vs-commit"
	}
	o.AppHash = hex.EncodeToString(res.AppHash)
	o.TxResults = res.TxResults
	o.BlockEv = res.Events
	o.Results = hex.EncodeToString(tmtypes.NewResults(res.TxResults).Hash())
	fr, ev := sha256.New(), sha256.New()
	var codes []string
	o.NEvents = hashEvents(ev, res.Events)
	for _, r := range res.TxResults {
		putU(fr, uint64(r.Code))
		putB(fr, []byte(r.Codespace))
		putB(fr, r.Data)
		putU(fr, uint64(r.GasWanted))
		putU(fr, uint64(r.GasUsed))
		putB(fr, []byte(r.Log))
		putB(fr, []byte(r.Info))
		o.NEvents += hashEvents(ev, r.Events)
		if r.Code == 0 {
			codes = append(codes, "0")
		} else {
			codes = append(codes, fmt.Sprintf("%s/%d", r.Codespace, r.Code))
		}
	}
	o.FullRes = hex.EncodeToString(fr.Sum(nil)[:12])
	o.Events = hex.EncodeToString(ev.Sum(nil)[:12])
	o.Codes = strings.Join(codes, ",")
	if o.Codes == "" {
		o.Codes = "-"
	}
	vu := sha256.New()
	putU(vu, uint64(len(res.ValidatorUpdates)))
	for _, u := range res.ValidatorUpdates {
		bz, _ := u.PubKey.Marshal()
		putB(vu, bz)
		putU(vu, uint64(u.Power))
	}
	if res.ConsensusParamUpdates != nil {
		bz, _ := res.ConsensusParamUpdates.Marshal()
		putB(vu, bz)
	}
	o.ValUpd = hex.EncodeToString(vu.Sum(nil)[:8])
	o.NValUpd = len(res.ValidatorUpdates)
	c.applyValUpdates(res.ValidatorUpdates)
	return o
}

func (c *Chain) applyValUpdates(us []abci.ValidatorUpdate) {
	for _, u := range us {
		pk := u.PubKey.GetEd25519()
		found := false
		for i := range c.Vals {
			if bytes.Equal(c.Vals[i].PubKey, pk) {
				c.Vals[i].Power = u.Power
				found = true
			}
		}
		if !found && len(pk) > 0 {
			h := sha256.Sum256(pk)
			c.Vals = append(c.Vals, ValState{ConsAddr: h[:20], PubKey: pk, Power: u.Power})
		}
	}
}

// ActiveVals returns the indices of validators with positive power.
func (c *Chain) ActiveVals() []int {
	var out []int
	for i, v := range c.Vals {
		if v.Power > 0 {
			out = append(out, i)
		}
	}
	sort.Ints(out)
	return out
}

// Ctx returns a read context over the last committed state (callers must not write through it; use CacheContext).
func (c *Chain) Ctx() sdk.Context {
	if c.Height == 0 {
		// the genesis state lives in the finalize-block state until the first Commit
		ctx, _ := c.App.GetContextForFinalizeBlock(nil).CacheContext()
		return ctx
	}
	return c.App.NewUncachedContext(false, tmproto.Header{ChainID: c.ChainID, Height: c.Height, Time: c.Time})
}

// AccountInfo returns (account number, sequence) of an address in the committed state.
func (c *Chain) AccountInfo(addr sdk.AccAddress) (uint64, uint64, bool) {
	acc := c.App.AccountKeeper.GetAccount(c.Ctx(), addr)
	if acc == nil {
		return 0, 0, false
	}
	return acc.GetAccountNumber(), acc.GetSequence(), true
}

func firstLine(s string) string {
	if i := strings.IndexByte(s, '\n'); i >= 0 {
		s = s[:i]
	}
	if len(s) > 200 {
		s = s[:200]
	}
	return strings.ReplaceAll(s, " ", "_")
}

// inject routes one message directly (message router, or the EVM message server for a signed MsgEthereumTx) on the
// committed state; a failing message leaves no writes.  The outcome (error text, events, EVM response) goes into h.
func (c *Chain) inject(in Inject, hdr tmproto.Header, h interface{ Write([]byte) (int, error) }) (outcome string) {
	putB(h, []byte(in.Kind))
	defer func() {
		if r := recover(); r != nil {
			outcome = "panic:" + firstLine(fmt.Sprint(r))
		}
		putB(h, []byte(outcome))
	}()
	bz, err := hex.DecodeString(in.Data)
	if err != nil {
		return "bad-hex"
	}
	var any codectypes.Any
	if err = any.Unmarshal(bz); err != nil {
		return "bad-any"
	}
	var msg sdk.Msg
	reg := c.App.InterfaceRegistry()
	if err = reg.UnpackAny(&any, &msg); err != nil {
		return "unpack:" + firstLine(err.Error())
	}
	if mc, ok := msg.(*crosschaintypes.MsgClaim); ok && mc.Claim != nil {
		var ec crosschaintypes.ExternalClaim
		if err = reg.UnpackAny(mc.Claim, &ec); err != nil {
			return "unpack-claim:" + firstLine(err.Error())
		}
	}
	if vb, ok := msg.(sdk.HasValidateBasic); ok {
		if err = vb.ValidateBasic(); err != nil {
			return "validate-basic:" + firstLine(err.Error())
		}
	}
	base := c.App.NewUncachedContext(false, hdr).WithBlockGasMeter(storetypes.NewInfiniteGasMeter()).WithEventManager(sdk.NewEventManager())
	ctx, write := base.CacheContext()
	switch in.Kind {
	case "ethtx":
		em, ok := msg.(*evmtypes.MsgEthereumTx)
		if !ok {
			return "not-an-eth-tx"
		}
		resp, err := c.App.EvmKeeper.EthereumTx(ctx, em)
		if err != nil {
			return "err:" + firstLine(err.Error())
		}
		write()
		hashEvents(h, base.EventManager().ABCIEvents())
		putB(h, resp.Ret)
		putU(h, resp.GasUsed)
		putU(h, uint64(len(resp.Logs)))
		for _, l := range resp.Logs {
			putB(h, []byte(l.Address))
			for _, t := range l.Topics {
				putB(h, []byte(t))
			}
			putB(h, l.Data)
		}
		if resp.VmError != "" {
			return "vmerror:" + firstLine(resp.VmError)
		}
		return "ok"
	case "msg":
		handler := c.App.MsgServiceRouter().Handler(msg)
		if handler == nil {
			return "no-route"
		}
		res, err := handler(ctx, msg)
		if err != nil {
			return "err:" + firstLine(err.Error())
		}
		write()
		hashEvents(h, base.EventManager().ABCIEvents())
		if res != nil {
			putB(h, res.Data)
			hashEvents(h, res.Events)
		}
		return "ok"
	}
	return "bad-kind"
}

// EncodeInject packs a message for Block.Inject.
func EncodeInject(kind string, msg sdk.Msg) Inject {
	any, err := codectypes.NewAnyWithValue(msg)
	must(err)
	bz, err := any.Marshal()
	must(err)
	return Inject{Kind: kind, Data: hex.EncodeToString(bz)}
}
