// Package detx builds a fully deterministic fxcore chain in-process: every key is derived from a seed and a label, the
// genesis time / chain id / validator set are fixed, blocks are driven through the real ABCI FinalizeBlock+Commit with
// explicit height, time, proposer and commit info, and transactions are really signed (SIGN_MODE_DIRECT cosmos txs and
// EIP-155 MsgEthereumTx).  Nothing in this package reads the wall clock or an unseeded random source.
package detx

import (
	"crypto/ecdsa"
	"crypto/sha256"
	"fmt"

	tmed25519 "github.com/cometbft/cometbft/crypto/ed25519"
	"github.com/cosmos/cosmos-sdk/crypto/keys/secp256k1"
	cryptotypes "github.com/cosmos/cosmos-sdk/crypto/types"
	sdk "github.com/cosmos/cosmos-sdk/types"
	"github.com/ethereum/go-ethereum/common"
	ethcrypto "github.com/ethereum/go-ethereum/crypto"
	"github.com/evmos/ethermint/crypto/ethsecp256k1"
)

// Key is an account key (cosmos secp256k1 or ethermint ethsecp256k1).
type Key struct {
	Label string
	Priv  cryptotypes.PrivKey
	Eth   bool
}

func secret(seed int64, label string) []byte {
	h := sha256.Sum256([]byte(fmt.Sprintf("fxverif/detx/%d/%s", seed, label)))
	return h[:]
}

// CosmosKey derives a secp256k1 account key from (seed, label).
func CosmosKey(seed int64, label string) Key {
	return Key{Label: label, Priv: secp256k1.GenPrivKeyFromSecret(secret(seed, label))}
}

// EthKey derives an ethsecp256k1 account key from (seed, label).
func EthKey(seed int64, label string) Key {
	for i := 0; ; i++ {
		bz := secret(seed, fmt.Sprintf("%s#%d", label, i))
		if _, err := ethcrypto.ToECDSA(bz); err != nil {
			continue // not a valid scalar (probability ~2^-128)
		}
		return Key{Label: label, Priv: &ethsecp256k1.PrivKey{Key: bz}, Eth: true}
	}
}

// ECDSA derives a raw external-chain key (oracle external address) from (seed, label).
func ECDSA(seed int64, label string) *ecdsa.PrivateKey {
	for i := 0; ; i++ {
		k, err := ethcrypto.ToECDSA(secret(seed, fmt.Sprintf("ext/%s#%d", label, i)))
		if err == nil {
			return k
		}
	}
}

// ConsKey derives a validator consensus key from (seed, label).
func ConsKey(seed int64, label string) tmed25519.PrivKey {
	return tmed25519.GenPrivKeyFromSecret(secret(seed, "cons/"+label))
}

func (k Key) Acc() sdk.AccAddress        { return sdk.AccAddress(k.Priv.PubKey().Address()) }
func (k Key) Val() sdk.ValAddress        { return sdk.ValAddress(k.Priv.PubKey().Address()) }
func (k Key) Hex() common.Address        { return common.BytesToAddress(k.Priv.PubKey().Address()) }
func (k Key) Addr() string               { return k.Acc().String() }
func (k Key) PubKey() cryptotypes.PubKey { return k.Priv.PubKey() }

// ECDSAKey returns the go-ethereum key of an eth account key.
func (k Key) ECDSAKey() *ecdsa.PrivateKey {
	if !k.Eth {
		panic("not an eth key: " + k.Label)
	}
	pk, err := k.Priv.(*ethsecp256k1.PrivKey).ToECDSA()
	if err != nil {
		panic(err)
	}
	return pk
}
