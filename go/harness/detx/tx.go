package detx

import (
	"context"
	"encoding/hex"
	"math/big"

	sdkmath "cosmossdk.io/math"
	"github.com/cosmos/cosmos-sdk/client"
	clienttx "github.com/cosmos/cosmos-sdk/client/tx"
	sdk "github.com/cosmos/cosmos-sdk/types"
	"github.com/cosmos/cosmos-sdk/types/tx/signing"
	authsigning "github.com/cosmos/cosmos-sdk/x/auth/signing"
	"github.com/ethereum/go-ethereum/common"
	ethtypes "github.com/ethereum/go-ethereum/core/types"
	evmtypes "github.com/evmos/ethermint/x/evm/types"

	"github.com/functionx/fx-core/v8/testutil/helpers"
	fxtypes "github.com/functionx/fx-core/v8/types"
)

// CosmosTx describes one SDK transaction to sign.
type CosmosTx struct {
	Signer  Key
	AccNum  uint64
	Seq     uint64
	Gas     uint64
	Fee     sdk.Coins
	Memo    string
	ChainID string // sign-bytes chain id (a wrong one gives a signature failure)
	Msgs    []sdk.Msg
}

// DefaultFee is gas * 500 gwei of the staking denom.
func DefaultFee(gas uint64) sdk.Coins {
	return sdk.NewCoins(sdk.NewCoin(fxtypes.DefaultDenom, sdkmath.NewInt(500_000_000_000).MulRaw(int64(gas))))
}

// SignCosmos builds and signs (SIGN_MODE_DIRECT) a transaction and returns its hex bytes.
func SignCosmos(cfg client.TxConfig, t CosmosTx) (string, error) {
	b := cfg.NewTxBuilder()
	if err := b.SetMsgs(t.Msgs...); err != nil {
		return "", err
	}
	b.SetGasLimit(t.Gas)
	b.SetFeeAmount(t.Fee)
	b.SetMemo(t.Memo)
	mode := signing.SignMode_SIGN_MODE_DIRECT
	pub := t.Signer.PubKey()
	if err := b.SetSignatures(signing.SignatureV2{PubKey: pub, Data: &signing.SingleSignatureData{SignMode: mode}, Sequence: t.Seq}); err != nil {
		return "", err
	}
	sd := authsigning.SignerData{ChainID: t.ChainID, AccountNumber: t.AccNum, Sequence: t.Seq, PubKey: pub, Address: t.Signer.Addr()}
	sig, err := clienttx.SignWithPrivKey(context.Background(), mode, sd, b, t.Signer.Priv, cfg, t.Seq)
	if err != nil {
		return "", err
	}
	if err = b.SetSignatures(sig); err != nil {
		return "", err
	}
	bz, err := cfg.TxEncoder()(b.GetTx())
	if err != nil {
		return "", err
	}
	return hex.EncodeToString(bz), nil
}

// EthTx describes one EVM transaction (legacy, EIP-155 signed).
type EthTx struct {
	Signer   Key
	Nonce    uint64
	To       *common.Address
	Value    *big.Int
	Gas      uint64
	GasPrice *big.Int
	Data     []byte
	ChainID  *big.Int // EIP-155 id; nil = the app's
}

// SignEthMsg builds and signs the MsgEthereumTx only (for direct routing to the EVM message server).
func SignEthMsg(cosmosChainID string, t EthTx) (*evmtypes.MsgEthereumTx, error) {
	cid := t.ChainID
	if cid == nil {
		cid = fxtypes.EIP155ChainID(cosmosChainID)
	}
	if t.Value == nil {
		t.Value = big.NewInt(0)
	}
	if t.GasPrice == nil {
		t.GasPrice = big.NewInt(0)
	}
	msg := evmtypes.NewTx(cid, t.Nonce, t.To, t.Value, t.Gas, t.GasPrice, nil, nil, t.Data, nil)
	msg.From = t.Signer.Hex().Bytes()
	if err := msg.Sign(ethtypes.LatestSignerForChainID(cid), helpers.NewSigner(t.Signer.Priv)); err != nil {
		return nil, err
	}
	return msg, nil
}

// SignEth builds, signs and wraps a MsgEthereumTx and returns its hex bytes.
func SignEth(cfg client.TxConfig, cosmosChainID string, t EthTx) (string, error) {
	cid := t.ChainID
	if cid == nil {
		cid = fxtypes.EIP155ChainID(cosmosChainID)
	}
	if t.Value == nil {
		t.Value = big.NewInt(0)
	}
	if t.GasPrice == nil {
		t.GasPrice = big.NewInt(1_000_000_000_000)
	}
	msg := evmtypes.NewTx(cid, t.Nonce, t.To, t.Value, t.Gas, t.GasPrice, nil, nil, t.Data, nil)
	msg.From = t.Signer.Hex().Bytes()
	if err := msg.Sign(ethtypes.LatestSignerForChainID(cid), helpers.NewSigner(t.Signer.Priv)); err != nil {
		return "", err
	}
	tx, err := msg.BuildTx(cfg.NewTxBuilder(), fxtypes.DefaultDenom)
	if err != nil {
		return "", err
	}
	bz, err := cfg.TxEncoder()(tx)
	if err != nil {
		return "", err
	}
	return hex.EncodeToString(bz), nil
}
