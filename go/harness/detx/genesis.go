package detx

import (
	"encoding/hex"
	"encoding/json"
	"time"

	sdkmath "cosmossdk.io/math"
	tmed25519 "github.com/cometbft/cometbft/crypto/ed25519"
	"github.com/cosmos/cosmos-sdk/codec"
	codectypes "github.com/cosmos/cosmos-sdk/codec/types"
	cryptocodec "github.com/cosmos/cosmos-sdk/crypto/codec"
	sdk "github.com/cosmos/cosmos-sdk/types"
	authtypes "github.com/cosmos/cosmos-sdk/x/auth/types"
	banktypes "github.com/cosmos/cosmos-sdk/x/bank/types"
	slashingtypes "github.com/cosmos/cosmos-sdk/x/slashing/types"
	stakingtypes "github.com/cosmos/cosmos-sdk/x/staking/types"

	"github.com/functionx/fx-core/v8/app"
	"github.com/functionx/fx-core/v8/testutil/helpers"
	fxtypes "github.com/functionx/fx-core/v8/types"
)

// ValSpec is one genesis validator: operator account key, consensus key and consensus power (tokens = power * PowerReduction).
type ValSpec struct {
	Oper  Key
	Cons  tmed25519.PrivKey
	Power int64
}

// AccSpec is one funded genesis account.
type AccSpec struct {
	Addr  sdk.AccAddress
	Coins sdk.Coins
}

// GenesisSpec describes the chain to build.
type GenesisSpec struct {
	ChainID  string
	TimeUnix int64
	Vals     []ValSpec
	Accounts []AccSpec
	// Mutate may edit module genesis states (called last, before marshalling).
	Mutate func(cdc codec.Codec, gs app.GenesisState)
}

// GenVal is a validator of the serialisable genesis document.
type GenVal struct {
	ConsPubKey string `json:"cons_pub_key"` // hex ed25519
	ConsAddr   string `json:"cons_addr"`    // hex
	Power      int64  `json:"power"`
}

// GenesisDoc is everything a fresh process needs to re-create the chain.
type GenesisDoc struct {
	ChainID  string          `json:"chain_id"`
	TimeUnix int64           `json:"time_unix"`
	Vals     []GenVal        `json:"vals"`
	AppState json.RawMessage `json:"app_state"`
}

// Block is one block of a history: everything FinalizeBlock is given.
type Block struct {
	Height   int64    `json:"height"`
	TimeUnix int64    `json:"time_unix"`
	Proposer int      `json:"proposer"` // index into the current validator list
	Absent   []int    `json:"absent,omitempty"`
	Txs      []string `json:"txs"` // hex tx bytes
	// Inject: messages executed directly through the message router / EVM message server on the committed state just
	// before FinalizeBlock (for messages the snapshot's tx decoder cannot deliver: MsgClaim, MsgEthereumTx).
	Inject []Inject `json:"inject,omitempty"`
	Note   string   `json:"note,omitempty"`
}

// Inject is one directly routed message: Kind "msg" (any routed sdk.Msg) or "ethtx" (signed MsgEthereumTx); Data is the
// hex protobuf encoding of the message packed in an Any.
type Inject struct {
	Kind string `json:"kind"`
	Data string `json:"data"`
}

// History = genesis + blocks: the complete input of a deterministic execution.
type History struct {
	Seed    int64       `json:"seed"`
	Genesis *GenesisDoc `json:"genesis"`
	Blocks  []Block     `json:"blocks"`
}

// BuildGenesis produces the genesis document following testutil/helpers.setupWithGenesisValSet, with every key, the
// time and the chain id given by the spec.
func BuildGenesis(spec GenesisSpec) *GenesisDoc {
	tmp := helpers.NewApp()
	cdc := tmp.AppCodec()
	gs := app.NewDefAppGenesisByDenom(cdc, tmp.ModuleBasics)

	// accounts: validators' operators first, then the funded accounts, explicit account numbers
	var genAccs authtypes.GenesisAccounts
	var balances []banktypes.Balance
	seen := map[string]bool{}
	addAcc := func(addr sdk.AccAddress, coins sdk.Coins) {
		if seen[addr.String()] {
			panic("duplicate genesis account " + addr.String())
		}
		seen[addr.String()] = true
		genAccs = append(genAccs, authtypes.NewBaseAccount(addr, nil, uint64(len(genAccs)), 0))
		if !coins.IsZero() {
			balances = append(balances, banktypes.Balance{Address: addr.String(), Coins: coins})
		}
	}
	valFunds := sdk.NewCoins(sdk.NewCoin(fxtypes.DefaultDenom, sdkmath.NewInt(100_000).MulRaw(1e18)))
	for _, v := range spec.Vals {
		addAcc(v.Oper.Acc(), valFunds)
	}
	for _, a := range spec.Accounts {
		addAcc(a.Addr, a.Coins)
	}
	var authGenesis authtypes.GenesisState
	cdc.MustUnmarshalJSON(gs[authtypes.ModuleName], &authGenesis)
	packed, err := authtypes.PackAccounts(genAccs)
	must(err)
	authGenesis.Accounts = packed
	gs[authtypes.ModuleName] = cdc.MustMarshalJSON(&authGenesis)

	// staking: bonded validators with self delegation
	var validators []stakingtypes.Validator
	var delegations []stakingtypes.Delegation
	var signingInfos []slashingtypes.SigningInfo
	doc := &GenesisDoc{ChainID: spec.ChainID, TimeUnix: spec.TimeUnix}
	bonded := sdkmath.ZeroInt()
	for _, v := range spec.Vals {
		pk, err := cryptocodec.FromCmtPubKeyInterface(v.Cons.PubKey())
		must(err)
		pkAny, err := codectypes.NewAnyWithValue(pk)
		must(err)
		tokens := sdk.DefaultPowerReduction.MulRaw(v.Power)
		bonded = bonded.Add(tokens)
		validators = append(validators, stakingtypes.Validator{
			OperatorAddress:   v.Oper.Val().String(),
			ConsensusPubkey:   pkAny,
			Status:            stakingtypes.Bonded,
			Tokens:            tokens,
			DelegatorShares:   sdkmath.LegacyNewDecFromInt(tokens),
			Description:       stakingtypes.Description{Moniker: v.Oper.Label},
			UnbondingTime:     time.Unix(0, 0).UTC(),
			Commission:        stakingtypes.NewCommission(sdkmath.LegacyNewDecWithPrec(5, 2), sdkmath.LegacyNewDecWithPrec(2, 1), sdkmath.LegacyNewDecWithPrec(1, 2)),
			MinSelfDelegation: sdkmath.NewInt(10),
		})
		delegations = append(delegations, stakingtypes.NewDelegation(v.Oper.Addr(), v.Oper.Val().String(), sdkmath.LegacyNewDecFromInt(tokens)))
		cons := sdk.ConsAddress(pk.Address())
		signingInfos = append(signingInfos, slashingtypes.SigningInfo{
			Address:              cons.String(),
			ValidatorSigningInfo: slashingtypes.NewValidatorSigningInfo(cons, 0, 0, time.Unix(0, 0).UTC(), false, 0),
		})
		doc.Vals = append(doc.Vals, GenVal{
			ConsPubKey: hex.EncodeToString(v.Cons.PubKey().Bytes()),
			ConsAddr:   hex.EncodeToString(v.Cons.PubKey().Address()),
			Power:      v.Power,
		})
	}
	var stakingGenesis stakingtypes.GenesisState
	cdc.MustUnmarshalJSON(gs[stakingtypes.ModuleName], &stakingGenesis)
	stakingGenesis.Params.MaxValidators = uint32(len(validators) + 2)
	stakingGenesis.Validators = validators
	stakingGenesis.Delegations = delegations
	gs[stakingtypes.ModuleName] = cdc.MustMarshalJSON(&stakingGenesis)

	var slashingGenesis slashingtypes.GenesisState
	cdc.MustUnmarshalJSON(gs[slashingtypes.ModuleName], &slashingGenesis)
	slashingGenesis.SigningInfos = signingInfos
	gs[slashingtypes.ModuleName] = cdc.MustMarshalJSON(&slashingGenesis)

	// bank: balances (default genesis already funds the eth bridge module account); supply is recomputed by InitGenesis
	var bankGenesis banktypes.GenesisState
	cdc.MustUnmarshalJSON(gs[banktypes.ModuleName], &bankGenesis)
	bankGenesis.Balances = append(bankGenesis.Balances, balances...)
	bankGenesis.Balances = append(bankGenesis.Balances, banktypes.Balance{
		Address: authtypes.NewModuleAddress(stakingtypes.BondedPoolName).String(),
		Coins:   sdk.NewCoins(sdk.NewCoin(fxtypes.DefaultDenom, bonded)),
	})
	bankGenesis.Supply = nil
	gs[banktypes.ModuleName] = cdc.MustMarshalJSON(&bankGenesis)

	if spec.Mutate != nil {
		spec.Mutate(cdc, gs)
	}
	// json.Marshal of a map sorts its keys: canonical bytes
	state, err := json.Marshal(gs)
	must(err)
	doc.AppState = state
	return doc
}

func must(err error) {
	if err != nil {
		panic(err)
	}
}
