package c18

// Round 4: the two gov hooks that EndBlocker tolerates (AfterProposalFailedMinDeposit, AfterProposalVotingPeriodEnded).
// The app registers no gov hooks, so in the real app these two boundaries never see a failure.  The harness registers ONE
// hook object through the SDK's own Keeper.SetHooks; per proposal id it does nothing, writes and succeeds, writes and then
// FAILS, or fails without writing (the reference: the designated outcome of a failed hook).  The write is a real bank
// transfer made on the context the hook is handed (the branch EndBlocker opens for it).

import (
	"context"
	"errors"
	"fmt"
	"strings"
	"time"

	sdkmath "cosmossdk.io/math"
	cmtproto "github.com/cometbft/cometbft/proto/tendermint/types"
	sdk "github.com/cosmos/cosmos-sdk/types"
	authtypes "github.com/cosmos/cosmos-sdk/x/auth/types"
	banktypes "github.com/cosmos/cosmos-sdk/x/bank/types"
	govtypes "github.com/cosmos/cosmos-sdk/x/gov/types"
	govv1 "github.com/cosmos/cosmos-sdk/x/gov/types/v1"

	fxtypes "github.com/functionx/fx-core/v8/types"
	fxgov "github.com/functionx/fx-core/v8/x/gov"

	"fxverif/harness/hx"
)

type govHook struct {
	e      *env
	mode   map[uint64]string // proposal id -> "" | "ok" | "fail" | "fail-nowrite"
	funder sdk.AccAddress
	mark   map[uint64]sdk.AccAddress
	calls  map[string]int
}

var _ govtypes.GovHooks = (*govHook)(nil)

func (h *govHook) act(ctx context.Context, which string, id uint64) error {
	m := h.mode[id]
	if m == "" {
		return nil
	}
	h.calls[which]++
	if m != "fail-nowrite" {
		sctx := sdk.UnwrapSDKContext(ctx)
		if err := h.e.s.App.BankKeeper.SendCoins(sctx, h.funder, h.mark[id], sdk.NewCoins(sdk.NewCoin(fxtypes.DefaultDenom, sdkmath.NewInt(7)))); err != nil {
			panic("harness hook: " + err.Error())
		}
	}
	if m == "ok" {
		return nil
	}
	return errors.New("harness hook fails")
}

func (h *govHook) AfterProposalSubmission(context.Context, uint64) error              { return nil }
func (h *govHook) AfterProposalDeposit(context.Context, uint64, sdk.AccAddress) error { return nil }
func (h *govHook) AfterProposalVote(context.Context, uint64, sdk.AccAddress) error    { return nil }
func (h *govHook) AfterProposalFailedMinDeposit(ctx context.Context, id uint64) error {
	return h.act(ctx, "failedMinDeposit", id)
}
func (h *govHook) AfterProposalVotingPeriodEnded(ctx context.Context, id uint64) error {
	return h.act(ctx, "votingPeriodEnded", id)
}

func (h *govHook) reset() {
	h.mode, h.mark = map[uint64]string{}, map[uint64]sdk.AccAddress{}
}

// installHook registers the harness hook on a fresh app (SetHooks panics when hooks are already set: the app sets none).
func (e *env) installHook() {
	e.hook = &govHook{e: e, calls: map[string]int{}}
	e.hook.reset()
	e.s.App.GovKeeper.Keeper.SetHooks(e.hook)
}

func (e *env) runGovHooks(out *hx.Out) {
	modes := []string{"ok", "fail", "-"}
	pick := func() string { return modes[e.rng.Intn(len(modes))] }
	// inactive proposals: one, and three with the failing hook first / in the middle / last (over the rounds)
	e.govInactive(out, []string{"fail"})
	three := []string{pick(), pick(), pick()}
	three[e.round%3] = "fail"
	e.govInactive(out, three)
	// active proposals: the hook fails after a proposal that passed / whose message failed (any index) / alone
	n := func() int { return 1 + e.rng.Intn(3) }
	kind := func() string { return govFailKinds[e.rng.Intn(len(govFailKinds))] }
	m := n()
	e.govBlock(out, []govSpec{{n: m, failIdx: e.rng.Intn(m), kind: kind(), hook: "fail"}})
	e.govBlock(out, []govSpec{{n: n(), failIdx: -1, hook: "fail"}, {n: n(), failIdx: -1, hook: "ok"}})
	m = n()
	blk := []govSpec{{n: n(), failIdx: -1, hook: pick()}, {n: m, failIdx: []int{0, m / 2, m - 1}[e.rng.Intn(3)], kind: kind(), hook: "fail"}, {n: n(), failIdx: -1, hook: pick()}}
	e.rng.Shuffle(3, func(i, j int) { blk[i], blk[j] = blk[j], blk[i] })
	e.govBlock(out, blk)
}

// govInactive: len(modes) proposals that never reach the minimum deposit, all ending their deposit period in the same
// block; ONE EndBlocker.  Reference on a sibling branch: the failing hooks fail WITHOUT writing.  The whole state must be
// identical afterwards (proposal deleted, deposits refunded or burnt, writes of the successful hooks only).
func (e *env) govInactive(out *hx.Out, modes []string) {
	s := e.s
	govAcc := authtypes.NewModuleAddress(govtypes.ModuleName)
	e.branch(func(ctx sdk.Context) {
		e.hook.funder = sdk.AccAddress(e.randAddr().Bytes())
		s.MintToken(e.hook.funder, sdk.NewCoin(fxtypes.DefaultDenom, sdkmath.NewInt(1_000_000)))
		marks := make([]sdk.AccAddress, len(modes))
		for i := range marks {
			marks[i] = sdk.AccAddress(e.randAddr().Bytes())
		}
		small := e.rng.Intn(2) == 0 // with or without a (too small) deposit to refund
		run := func(ctx sdk.Context, ref bool) (kvDump, []bool, string) {
			gk := s.App.GovKeeper
			proposer := sdk.AccAddress(s.ValAddr[0])
			e.hook.reset()
			var end time.Time
			var ids []uint64
			for i, m := range modes {
				msg := &banktypes.MsgSend{FromAddress: govAcc.String(), ToAddress: sdk.AccAddress(e.randAddr().Bytes()).String(), Amount: sdk.NewCoins(sdk.NewCoin(fxtypes.DefaultDenom, sdkmath.NewInt(1)))}
				p, err := gk.Keeper.SubmitProposal(ctx, []sdk.Msg{msg}, "", "t", "s", proposer, false)
				if err != nil {
					return nil, nil, "submit: " + err.Error()
				}
				if small {
					params, err := gk.Params.Get(ctx)
					if err != nil {
						panic(err)
					}
					one := sdk.NewCoins(sdk.NewCoin(fxtypes.DefaultDenom, params.MinDeposit[0].Amount.QuoRaw(2))) // half the minimum
					s.MintToken(proposer, one...)
					if _, err := gk.Keeper.AddDeposit(ctx, p.Id, proposer, one); err != nil {
						return nil, nil, "deposit: " + err.Error()
					}
				}
				if p.DepositEndTime == nil {
					return nil, nil, "no deposit end time"
				}
				if p.DepositEndTime.After(end) {
					end = *p.DepositEndTime
				}
				switch {
				case m == "-":
				case m == "fail" && ref:
					e.hook.mode[p.Id] = "fail-nowrite"
				default:
					e.hook.mode[p.Id] = m
				}
				e.hook.mark[p.Id] = marks[i]
				ids = append(ids, p.Id)
			}
			before := e.hook.calls["failedMinDeposit"]
			ectx := ctx.WithBlockTime(end.Add(time.Second))
			if res := hx.Try(func() error { return fxgov.EndBlocker(ectx, gk) }); res != "ok" {
				return nil, nil, "EndBlocker: " + firstLine(res)
			}
			for _, id := range ids {
				if _, err := gk.Keeper.Proposals.Get(ctx, id); err == nil {
					return nil, nil, "inactive proposal not deleted"
				}
			}
			want := 0
			for _, m := range modes {
				if m != "-" {
					want++
				}
			}
			if e.hook.calls["failedMinDeposit"]-before != want {
				return nil, nil, fmt.Sprintf("hook called %d times, expected %d", e.hook.calls["failedMinDeposit"]-before, want)
			}
			written := make([]bool, len(modes))
			for i := range modes {
				written[i] = s.App.BankKeeper.GetBalance(ctx, marks[i], fxtypes.DefaultDenom).IsPositive()
			}
			return dumpKV(ctx, e.keys), written, ""
		}
		actx, _ := ctx.CacheContext()
		bctx, _ := ctx.CacheContext()
		saved := s.Ctx
		s.Ctx = actx
		da, wa, errA := run(actx, false)
		s.Ctx = bctx
		db, _, errB := run(bctx, true)
		s.Ctx = saved
		e.hook.reset()
		desc := strings.Join(modes, ",")
		if strings.HasPrefix(errA, "EndBlocker: ") {
			out.Violate(fmt.Sprintf("gov-inactive: proposals with hooks [%s]: a failing AfterProposalFailedMinDeposit hook was not tolerated, %s", desc, errA))
			return
		}
		if errA != "" || errB != "" {
			out.Violate("gov-inactive: harness: " + errA + " / " + errB)
			return
		}
		var obs []string
		for i, m := range modes {
			obs = append(obs, map[bool]string{true: "1", false: "0"}[wa[i]])
			if m == "ok" && !wa[i] {
				out.Violate(fmt.Sprintf("gov-inactive: proposals with hooks [%s]: the writes of the SUCCESSFUL hook of proposal %d are not in the state", desc, i+1))
			}
		}
		out.Emit("pinact "+strings.Join(modes, " "), "flow=norm hooks="+strings.Join(obs, ","))
		out.Count("govhook:inactive:" + fmt.Sprint(len(modes)))
		for i, m := range modes {
			if m == "fail" {
				out.Count("govhook:inactive:fail@" + []string{"first", "middle", "last"}[min(i, 2)])
			}
		}
		out.Nontrivial("govhook|inactive|" + desc + fmt.Sprint(small))
		if extra := diffKV(da, db); len(extra) > 0 {
			out.Violate(fmt.Sprintf("gov-inactive: proposals with hooks [%s] whose deposit period ended: an AfterProposalFailedMinDeposit hook failed after writing, state differs from (proposal deleted, deposits returned, successful hooks)-only in %s", desc, joinOrDash(categories(extra, e.chain))))
		}
	})
}

var _ = cmtproto.BlockParams{}
var _ = govv1.StatusFailed
