package c18

import (
	"math/big"
	"encoding/hex"
	"fmt"
	"math/rand"
	"sort"
	"strings"

	sdkmath "cosmossdk.io/math"
	storetypes "cosmossdk.io/store/types"
	sdk "github.com/cosmos/cosmos-sdk/types"
	"github.com/ethereum/go-ethereum/common"

	"github.com/functionx/fx-core/v8/testutil/helpers"
	crosschainkeeper "github.com/functionx/fx-core/v8/x/crosschain/keeper"
	crosschaintypes "github.com/functionx/fx-core/v8/x/crosschain/types"
	erc20types "github.com/functionx/fx-core/v8/x/erc20/types"

	"fxverif/harness/hx"
)

// ---------------------------------------------------------------------------------------------------------
// key-level dumps of the whole multistore

type kvDump map[string]string // "<store>/<hexkey>" -> hexvalue

func dumpKV(ctx sdk.Context, keys map[string]*storetypes.KVStoreKey) kvDump {
	res := kvDump{}
	ctx = ctx.WithGasMeter(storetypes.NewInfiniteGasMeter())
	for name, k := range keys {
		it := ctx.KVStore(k).Iterator(nil, nil)
		for ; it.Valid(); it.Next() {
			res[name+"/"+hex.EncodeToString(it.Key())] = hex.EncodeToString(it.Value())
		}
		it.Close()
	}
	return res
}

// diffKV returns the sorted list of keys whose presence or value differs.
func diffKV(a, b kvDump) []string {
	var out []string
	for k, v := range a {
		if w, ok := b[k]; !ok || w != v {
			out = append(out, k)
		}
	}
	for k := range b {
		if _, ok := a[k]; !ok {
			out = append(out, k)
		}
	}
	sort.Strings(out)
	return out
}

// classify maps a differing key to a coarse category "<store>:<first key byte>" refined for the stores the four
// boundaries write (names follow the key prefixes of x/crosschain/types/key.go, x/erc20/types/keys.go, bank, auth, gov, evm).
func classify(key string, chain string) string {
	i := strings.IndexByte(key, '/')
	store, hk := key[:i], key[i+1:]
	p := ""
	if len(hk) >= 2 {
		p = hk[:2]
	}
	switch store {
	case chain:
		if n, ok := crosschainPrefix[p]; ok {
			return n
		}
	case "bank":
		switch p {
		case "00":
			return "bank.supply"
		case "02":
			return "bank.balance"
		case "03":
			return "bank.denomIndex"
		case "01":
			return "bank.metadata"
		}
	case "acc":
		switch p {
		case "01":
			return "acc.account"
		case "02":
			return "acc.number"
		case "61":
			return "acc.numberIndex" // collections "a" index prefix? kept coarse
		}
		return "acc." + p
	case "evm":
		switch p {
		case "01":
			return "evm.code"
		case "02":
			return "evm.storage"
		}
	case "erc20":
		switch p {
		case "04":
			return "erc20.ibcRelation"
		case "07":
			return "erc20.outgoingRelation"
		}
	case "gov":
		return "gov." + p
	}
	return store + "." + p
}

var crosschainPrefix = map[string]string{}

func init() {
	add := func(b []byte, n string) { crosschainPrefix[hex.EncodeToString(b[:1])] = n }
	add(crosschaintypes.OracleAttestationKey, "att")
	add(crosschaintypes.LastObservedEventNonceKey, "lastObservedNonce")
	add(crosschaintypes.LastObservedBlockHeightKey, "lastObservedHeight")
	add(crosschaintypes.LastEventNonceByOracleKey, "oracleNonce")
	add(crosschaintypes.LastEventBlockHeightByOracleKey, "oracleHeight")
	add(crosschaintypes.OutgoingBridgeCallNonceKey, "refundRecord")
	add(crosschaintypes.OutgoingBridgeCallAddressAndNonceKey, "refundRecordIndex")
	add(crosschaintypes.SequenceKeyPrefix, "seqCounter")
	add(crosschaintypes.PendingExecuteClaimKey, "pendingClaim")
	add(crosschaintypes.BridgeDenomKey, "bridgeDenom")
	add(crosschaintypes.OracleSetRequestKey, "oracleSet")
	add(crosschaintypes.LatestOracleSetNonce, "latestOracleSetNonce")
	add(crosschaintypes.LastObservedOracleSetKey, "lastObservedOracleSet")
}

func categories(keys []string, chain string) []string {
	m := map[string]bool{}
	for _, k := range keys {
		m[classify(k, chain)] = true
	}
	var out []string
	for k := range m {
		out = append(out, k)
	}
	sort.Strings(out)
	return out
}

func joinOrDash(xs []string) string {
	if len(xs) == 0 {
		return "-"
	}
	return strings.Join(xs, ",")
}

// ---------------------------------------------------------------------------------------------------------
// environment: real app + eth crosschain keeper + deterministic addresses/tokens

type env struct {
	s     *hx.Suite
	rng   *rand.Rand
	chain string
	k     crosschainkeeper.Keeper
	keys  map[string]*storetypes.KVStoreKey
	ntok  int
	round int
	signer *helpers.Signer
	hook   *govHook
}

type token struct {
	base, bridge, contract string
	erc20                  common.Address
	native                 bool // true: OWNER_MODULE (native coin), false: OWNER_EXTERNAL (native ERC-20)
}

func (e *env) randAddr() common.Address {
	var b [20]byte
	e.rng.Read(b[:])
	b[0] |= 0x10
	return common.BytesToAddress(b[:])
}

func (e *env) ext(a common.Address) string { return crosschaintypes.ExternalAddrToStr(e.chain, a.Bytes()) }

// addToken registers a base denom with one bridge denom on the chain, the bridge token, and an ERC-20 pair.
func (e *env) addToken(native bool) token {
	e.ntok++
	ctx := e.s.Ctx
	base := fmt.Sprintf("tok%03d%c", e.ntok, 'a'+rune(e.rng.Intn(26)))
	contract := e.ext(e.randAddr())
	bridge := crosschaintypes.NewBridgeDenom(e.chain, contract)
	if err := e.k.SetToken(ctx, "Test Token", strings.ToUpper(base), 18, bridge); err != nil {
		panic(err)
	}
	if err := e.k.AddBridgeTokenExecuted(ctx, &crosschaintypes.MsgBridgeTokenClaim{TokenContract: contract, Name: "Test Token", Symbol: base, Decimals: 18, ChainName: e.chain}); err != nil {
		panic(err)
	}
	erc20 := e.s.AddTokenPair(base, native)
	if !native {
		// native ERC-20: bridge tokens are unlocked from the module, the ERC-20 side is unescrowed from the erc20 module
		e.s.MintTokenToModule(e.chain, sdk.NewCoin(bridge, sdkmath.NewInt(1_000_000_000)))
		mod := e.s.App.Erc20Keeper.ModuleAddress()
		if err := e.s.App.EvmKeeper.ERC20Mint(ctx, erc20, mod, mod, big.NewInt(1_000_000_000)); err != nil {
			panic(err)
		}
	}
	return token{base: base, bridge: bridge, contract: contract, erc20: erc20, native: native}
}

func (e *env) setPairEnabled(t token, enabled bool) {
	pair, ok := e.s.App.Erc20Keeper.GetTokenPair(e.s.Ctx, t.base)
	if !ok {
		panic("pair not found")
	}
	pair.Enabled = enabled
	e.s.App.Erc20Keeper.SetTokenPair(e.s.Ctx, pair)
}

var _ = erc20types.ModuleName

// EVM runtime bytecodes used as call targets
var (
	codeStop         = []byte{0x00}                                                             // STOP
	codeRevert       = []byte{0x60, 0x00, 0x60, 0x00, 0xfd}                                     // REVERT(0,0)
	codeStoreRevert  = []byte{0x60, 0x01, 0x60, 0x00, 0x55, 0x60, 0x00, 0x60, 0x00, 0xfd}       // SSTORE(0,1); REVERT
	codeStoreLoop    = []byte{0x60, 0x01, 0x60, 0x00, 0x55, 0x5b, 0x60, 0x05, 0x56}             // SSTORE(0,1); loop forever -> out of gas
	codeInvalid      = []byte{0xfe}                                                             // INVALID
	codeStoreSuccess = []byte{0x60, 0x01, 0x60, 0x00, 0x55, 0x00}                               // SSTORE(0,1); STOP
	codeBadJump      = []byte{0x60, 0x01, 0x60, 0x00, 0x55, 0x60, 0x00, 0x56}                   // SSTORE(0,1); JUMP to a non-JUMPDEST
	codeUnderflow    = []byte{0x60, 0x01, 0x60, 0x00, 0x55, 0x01}                               // SSTORE(0,1); ADD on an empty stack
)

// ---------------------------------------------------------------------------------------------------------
// revert payload shapes: one per class of what abi.UnpackRevert can make of the return data of a reverting frame

func word(n uint64) []byte {
	var w [32]byte
	for i := 0; i < 8; i++ {
		w[31-i] = byte(n >> (8 * i))
	}
	return w[:]
}

func errorString(reason string) []byte {
	bz := append([]byte{0x08, 0xc3, 0x79, 0xa0}, word(32)...) // Error(string)
	bz = append(bz, word(uint64(len(reason)))...)
	padded := make([]byte, (len(reason)+31)/32*32)
	copy(padded, reason)
	return append(bz, padded...)
}

type revertShape struct {
	name    string
	payload []byte
}

var revertShapes = []revertShape{
	{"nodata", nil},                                  // REVERT(0,0)
	{"error-empty", errorString("")},                 // revert("") / require(c, "")
	{"error-text", errorString("x")},                 // revert("x")
	{"error-long", errorString("a reason longer than thirty-two bytes, two words")},
	{"error-revtext", errorString("execution reverted")},
	{"panic", append([]byte{0x4e, 0x48, 0x7b, 0x71}, word(1)...)},       // Panic(uint256): assert
	{"custom", append([]byte{0xde, 0xad, 0xbe, 0xef}, word(7)...)},      // a custom error
	{"malformed", append(append([]byte{0x08, 0xc3, 0x79, 0xa0}, word(32)...), word(1<<40)...)}, // Error(string) selector, length beyond the data
}

func shapeByName(n string) revertShape {
	for _, s := range revertShapes {
		if s.name == n {
			return s
		}
	}
	panic("unknown revert shape " + n)
}

// codeRevertWith: [SSTORE(0,1);] copy the payload into memory word by word; REVERT(0, len)
func codeRevertWith(payload []byte, store bool) []byte {
	var c []byte
	if store {
		c = append(c, 0x60, 0x01, 0x60, 0x00, 0x55)
	}
	for off := 0; off < len(payload); off += 32 {
		var w [32]byte
		copy(w[:], payload[off:])
		c = append(c, 0x7f)
		c = append(c, w[:]...)
		c = append(c, 0x61, byte(off>>8), byte(off), 0x52)
	}
	return append(c, 0x61, byte(len(payload)>>8), byte(len(payload)), 0x60, 0x00, 0xfd)
}

// vmKind classifies the text of MsgEthereumTxResponse.VmError
func vmKind(t string) string {
	switch {
	case t == "":
		return "ok"
	case t == "execution reverted":
		return "revert"
	case t == "out of gas":
		return "oog"
	case t == "insufficient balance for transfer":
		return "insufficient"
	case strings.HasPrefix(t, "invalid opcode: "):
		return "invalid"
	}
	return "other"
}
