package c18

// Round 4: boundary 1 through the message path — MsgClaim through the app's REAL message service router (ValidateBasic,
// MsgServer.Claim: registered-bridger check, claim logic check, Attest) on a per-transaction store branch that is written
// back only when the handler returns nil and dropped when it returns an error or PANICS (what baseapp.runTx does).
//
// Why not a signed transaction through FinalizeBlock: in this snapshot no claim is deliverable as a transaction at all —
// MsgClaim has no UnpackInterfaces, so the wrapped claim of a DECODED transaction is never unpacked and ValidateBasic
// rejects it ("expected claim type *types.ExternalClaim, got <nil>", code 18; see C01/C02's transaction-level stream and
// DESIGN §12), and the claim messages themselves have no route.  The router is the outermost layer a claim can reach.

import (
	"fmt"
	"strings"

	sdkmath "cosmossdk.io/math"
	codectypes "github.com/cosmos/cosmos-sdk/codec/types"
	sdk "github.com/cosmos/cosmos-sdk/types"

	crosschaintypes "github.com/functionx/fx-core/v8/x/crosschain/types"

	"fxverif/harness/hx"
)

func (e *env) runAttRouter(out *hx.Out) {
	for _, kind := range []string{"fail", "panic", "ok", "notbridger"} {
		e.attRouter(out, kind)
	}
}

func (e *env) attRouter(out *hx.Out, kind string) {
	e.branch(func(ctx sdk.Context) {
		s, k := e.s, e.k
		bridger := sdk.AccAddress(e.randAddr().Bytes())
		oracle := sdk.AccAddress(e.randAddr().Bytes())
		extAddr := e.ext(e.randAddr())
		k.SetOracle(ctx, crosschaintypes.Oracle{
			OracleAddress: oracle.String(), BridgerAddress: bridger.String(), ExternalAddress: extAddr,
			Online: true, DelegateAmount: sdkmath.NewInt(100).Mul(sdkmath.NewIntWithDecimal(1, 18)), StartHeight: 1,
		})
		k.SetOracleAddrByBridgerAddr(ctx, bridger, oracle)
		k.SetOracleAddrByExternalAddr(ctx, extAddr, oracle)
		k.SetLastTotalPower(ctx)
		nonce := k.GetLastObservedEventNonce(ctx) + 1
		k.SetLastEventNonceByOracle(ctx, oracle, nonce-1)
		claimer := bridger
		var claim crosschaintypes.ExternalClaim
		hcat := "-"
		switch kind {
		case "fail":
			tk := e.addToken(true)
			claim = &crosschaintypes.MsgBridgeTokenClaim{EventNonce: nonce, BlockHeight: 2000, TokenContract: tk.contract, Name: "N", Symbol: "DUP", Decimals: 18, BridgerAddress: bridger.String(), ChainName: e.chain}
		case "panic":
			claim = &crosschaintypes.MsgSendToExternalClaim{EventNonce: nonce, BlockHeight: 2000, BatchNonce: uint64(50 + e.rng.Intn(50)), TokenContract: e.ext(e.randAddr()), BridgerAddress: bridger.String(), ChainName: e.chain}
		case "ok":
			claim, hcat = &crosschaintypes.MsgBridgeTokenClaim{EventNonce: nonce, BlockHeight: 2000, TokenContract: e.ext(e.randAddr()), Name: "N", Symbol: "NEW", Decimals: 18, BridgerAddress: bridger.String(), ChainName: e.chain}, "bridgeDenom"
		case "notbridger":
			claimer = sdk.AccAddress(e.randAddr().Bytes()) // nobody's bridger: rejected before Attest
			claim = &crosschaintypes.MsgBridgeTokenClaim{EventNonce: nonce, BlockHeight: 2000, TokenContract: e.ext(e.randAddr()), Name: "N", Symbol: "NOB", Decimals: 18, BridgerAddress: claimer.String(), ChainName: e.chain}
		}
		anyClaim, err := codectypes.NewAnyWithValue(claim)
		if err != nil {
			panic(err)
		}
		msg := &crosschaintypes.MsgClaim{ChainName: e.chain, BridgerAddress: claimer.String(), Claim: anyClaim}
		handler := s.App.MsgServiceRouter().Handler(msg)
		if handler == nil {
			out.Violate("attestation (router): harness: no route for MsgClaim")
			return
		}
		pre := dumpKV(ctx, e.keys)
		// the transaction's branch: written back only when every message succeeded; dropped on error and on panic
		tx, write := ctx.CacheContext()
		res := hx.Try(func() error {
			if err := msg.ValidateBasic(); err != nil {
				return err
			}
			_, err := handler(tx, msg)
			return err
		})
		if res == "ok" {
			write()
		}
		own := diffKV(pre, dumpKV(ctx, e.keys))
		cats := categories(own, e.chain)
		att := k.GetAttestation(ctx, nonce, claim.ClaimHash())
		observed := att != nil && att.Observed
		out.Count("router:att:" + kind)
		out.Nontrivial("router|att|" + kind + "|" + e.chain)
		switch kind {
		case "panic":
			flow := map[bool]string{true: "panic", false: "brk"}[strings.HasPrefix(res, "panic:")]
			out.Emit("patt - panic", "flow="+flow+" cats="+joinOrDash(cats))
			if !strings.HasPrefix(res, "panic:") || observed || len(own) > 0 {
				out.Violate(fmt.Sprintf("attestation (router): MsgClaim whose handler PANICS (batch-executed event for an unknown batch) ended as %q, observed=%v, writes: %s (the panic must propagate and the transaction's branch be dropped)", firstLine(res), observed, joinOrDash(cats)))
			}
		case "fail":
			if res != "ok" {
				out.Violate("attestation (router): MsgClaim whose handler returns an error was NOT tolerated: " + firstLine(res))
				return
			}
			out.Emit("patt - fail", "flow=brk cats="+joinOrDash(cats))
			designated := map[string]bool{"att": true, "lastObservedNonce": true, "lastObservedHeight": true, "oracleNonce": true, "oracleHeight": true}
			var extra []string
			for _, c := range cats {
				if !designated[c] {
					extra = append(extra, c)
				}
			}
			if !observed || len(extra) > 0 {
				out.Violate(fmt.Sprintf("attestation (router): handler failed (exists), state differs from observed-mark-only in %s (observed=%v)", joinOrDash(extra), observed))
			}
		case "ok":
			if res != "ok" || !observed {
				out.Violate("attestation (router): harness: a valid bridge-token claim was not observed: " + firstLine(res))
				return
			}
			out.Emit("patt "+hcat+" ok", "flow=brk cats="+joinOrDash(cats))
		case "notbridger":
			if res == "ok" || len(own) > 0 {
				out.Violate(fmt.Sprintf("attestation (router): MsgClaim from an address that is nobody's bridger ended as %q with writes %s", firstLine(res), joinOrDash(cats)))
			}
		}
	})
}
