package c18

import (
	"fmt"
	"math/rand"
	"os"
	"testing"

	sdkmath "cosmossdk.io/math"
	sdk "github.com/cosmos/cosmos-sdk/types"
	"github.com/ethereum/go-ethereum/common"

	crosschaintypes "github.com/functionx/fx-core/v8/x/crosschain/types"

	"fxverif/harness/hx"
)

func TestExplore(t *testing.T) {
	if os.Getenv("VERIF_EXPLORE") == "" {
		t.Skip()
	}
	s := hx.NewSuite(t, 2)
	e := &env{s: s, rng: rand.New(rand.NewSource(1)), chain: "eth", k: s.App.EthKeeper, keys: s.App.GetKVStoreKey()}
	e.k.SetLastObservedBlockHeight(s.Ctx, 1000, uint64(s.Ctx.BlockHeight()))
	t1 := e.addToken(true)
	t2 := e.addToken(false)
	target := e.randAddr()
	if err := s.App.EvmKeeper.CreateContractWithCode(s.Ctx, target, codeStoreRevert); err != nil {
		t.Fatal(err)
	}
	for _, sameRefund := range []bool{true, false} {
		for _, fundRefund := range []bool{false, true} {
			sender := e.randAddr()
			refund := e.randAddr()
			if sameRefund {
				refund = target
			}
			claim := &crosschaintypes.MsgBridgeCallClaim{
				ChainName: e.chain, BridgerAddress: sdk.AccAddress(e.randAddr().Bytes()).String(), EventNonce: 7, BlockHeight: 1,
				Sender: e.ext(sender), Refund: e.ext(refund), TokenContracts: []string{t1.contract, t2.contract},
				Amounts: []sdkmath.Int{sdkmath.NewInt(100), sdkmath.NewInt(200)}, To: e.ext(target), Data: "", Value: sdkmath.ZeroInt(), Memo: "",
				TxOrigin: e.ext(e.randAddr()),
			}
			ctx, _ := s.Ctx.CacheContext()
			if fundRefund {
				for _, tk := range []token{t1, t2} {
					c := sdk.NewCoins(sdk.NewCoin(tk.base, sdkmath.NewInt(1000)))
					if err := s.App.BankKeeper.MintCoins(ctx, "mint", c); err != nil {
						t.Fatal(err)
					}
					if err := s.App.BankKeeper.SendCoinsFromModuleToAccount(ctx, "mint", refund.Bytes(), c); err != nil {
						t.Fatal(err)
					}
				}
			}
			e.k.SavePendingExecuteClaim(ctx, claim)
			before := dumpKV(ctx, e.keys)
			tx, write := ctx.CacheContext()
			res := hx.Try(func() error { return e.k.ExecuteClaim(tx, 7) })
			if res == "ok" {
				write()
			}
			after := dumpKV(ctx, e.keys)
			d := diffKV(before, after)
			fmt.Printf("sameRefund=%v fundRefund=%v res=%s\n  cats=%v\n", sameRefund, fundRefund, res, categories(d, e.chain))
			for _, k := range d {
				fmt.Printf("    %s : %s -> %s\n", k, short(before[k]), short(after[k]))
			}
			fmt.Printf("  receiver bal=%s refund bal=%s\n", s.App.BankKeeper.GetAllBalances(ctx, target.Bytes()), s.App.BankKeeper.GetAllBalances(ctx, refund.Bytes()))
			_ = common.Address{}
		}
	}
}

func short(s string) string {
	if len(s) > 60 {
		return s[:60] + "…"
	}
	if s == "" {
		return "∅"
	}
	return s
}
