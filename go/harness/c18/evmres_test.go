package c18

import (
	"fmt"

	sdkmath "cosmossdk.io/math"
	sdk "github.com/cosmos/cosmos-sdk/types"
	"github.com/ethereum/go-ethereum/common"

	fxtypes "github.com/functionx/fx-core/v8/types"

	"fxverif/harness/hx"
)

// runEvmRes: what the two helpers behind the three EVM-failure boundaries hand back for every outcome of the
// interpreter — success, a revert with every payload shape, invalid opcode, out of gas, bad jump, stack underflow.
// Correspondence line `evmres <shape>` against Model/C18E (the regenerated statement lists of CallEVM /
// CallEVMWithoutGas interpreted on the modelled response); monitor: a call that did not succeed must be visible to the
// caller (CallEVM: an error or Failed(); CallEVMWithoutGas: an error) — otherwise every boundary commits it as a success.
func (e *env) runEvmRes(out *hx.Out) {
	type sc struct {
		name string
		code []byte
		gas  uint64
	}
	scs := []sc{{"success", codeStoreSuccess, 0}, {"invalid", codeInvalid, 0}, {"oog", codeStoreLoop, 100_000}, {"badjump", codeBadJump, 0}, {"underflow", codeUnderflow, 0}}
	for _, sh := range revertShapes {
		scs = append(scs, sc{sh.name, codeRevertWith(sh.payload, e.rng.Intn(2) == 0), 0})
	}
	for _, c := range scs {
		c := c
		e.branch(func(ctx sdk.Context) {
			s := e.s
			target, from := e.randAddr(), e.randAddr()
			if err := s.App.EvmKeeper.CreateContractWithCode(ctx, target, c.code); err != nil {
				panic(err)
			}
			s.MintToken(from.Bytes(), sdk.NewCoin(fxtypes.DefaultDenom, sdkmath.NewInt(1)))
			gas := uint64(3_000_000)
			if c.gas > 0 {
				gas = c.gas
			}
			cp := ctx.ConsensusParams()
			if cp.Block != nil {
				nb := *cp.Block
				nb.MaxGas = int64(gas)
				cp.Block = &nb
				ctx = ctx.WithConsensusParams(cp)
			}
			cerr, failed, kind, text := "0", "-", "-", ""
			actx, _ := ctx.CacheContext()
			r := hx.Try(func() error {
				resp, err := s.App.EvmKeeper.CallEVM(actx, from, &target, nil, gas, nil, true)
				if err != nil {
					return err
				}
				failed = map[bool]string{true: "1", false: "0"}[resp.Failed()]
				kind, text = vmKind(resp.VmError), resp.VmError
				return nil
			})
			if r != "ok" {
				cerr = "1"
			}
			bctx, _ := ctx.CacheContext()
			nerr := "0"
			if r2 := hx.Try(func() error {
				_, err := s.App.EvmKeeper.CallEVMWithoutGas(bctx, from, &target, nil, nil, true)
				return err
			}); r2 != "ok" {
				nerr = "1"
			}
			slot := s.App.EvmKeeper.GetState(actx, target, common.Hash{}) != (common.Hash{})
			out.Emit("evmres "+c.name, fmt.Sprintf("call err=%s failed=%s kind=%s nogas err=%s", cerr, failed, kind, nerr))
			out.Count("evmres:" + c.name)
			out.Nontrivial("evmres|" + c.name)
			if c.name == "success" {
				if cerr != "0" || failed != "0" || nerr != "0" || !slot {
					out.Violate(fmt.Sprintf("evm-call: harness: the successful contract call is reported as failed (CallEVM err=%s failed=%s, CallEVMWithoutGas err=%s, slot written=%v)", cerr, failed, nerr, slot))
				}
				return
			}
			if cerr == "0" && failed != "1" {
				out.Violate(fmt.Sprintf("evm-call: a contract call that did NOT succeed (%s) is handed back by CallEVM as not failed (VmError=%q, no error): the inbound bridge call and the IBC follow-up call commit it as a success", c.name, text))
			}
			if nerr != "1" {
				out.Violate(fmt.Sprintf("evm-call: a contract call that did NOT succeed (%s) is handed back by CallEVMWithoutGas without an error: a proposal's MsgCallContract counts as executed", c.name))
			}
			if slot {
				out.Violate(fmt.Sprintf("evm-call: the storage write of a failed contract call (%s) is in the state", c.name))
			}
		})
	}
}
