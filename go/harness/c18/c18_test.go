package c18

// C18 correspondence + monitors on the REAL in-process app.
// For every tolerated-failure boundary the failure is provoked at every distinguishable point; the observation is the
// full key-level multistore dump after the tolerated failure, compared with the dump obtained by applying ONLY the
// designated outcome on a fresh branch (CacheContext) of the same pre-state.  Any extra differing key is a monitor
// violation naming the boundary and the failure point.  Canonical observations are also compared with the Lean model.

import (
	"fmt"
	"math/rand"
	"sort"
	"strings"
	"testing"
	"time"

	sdkmath "cosmossdk.io/math"
	codectypes "github.com/cosmos/cosmos-sdk/codec/types"
	sdk "github.com/cosmos/cosmos-sdk/types"
	authtypes "github.com/cosmos/cosmos-sdk/x/auth/types"
	banktypes "github.com/cosmos/cosmos-sdk/x/bank/types"
	govtypes "github.com/cosmos/cosmos-sdk/x/gov/types"
	govv1 "github.com/cosmos/cosmos-sdk/x/gov/types/v1"
	transfertypes "github.com/cosmos/ibc-go/v8/modules/apps/transfer/types"
	clienttypes "github.com/cosmos/ibc-go/v8/modules/core/02-client/types"
	channeltypes "github.com/cosmos/ibc-go/v8/modules/core/04-channel/types"
	"github.com/ethereum/go-ethereum/common"

	fxtypes "github.com/functionx/fx-core/v8/types"
	crosschaintypes "github.com/functionx/fx-core/v8/x/crosschain/types"
	fxgov "github.com/functionx/fx-core/v8/x/gov"
	ibcmwtypes "github.com/functionx/fx-core/v8/x/ibc/middleware/types"

	"fxverif/harness/hx"
)

func TestC18(t *testing.T) {
	seed := hx.Seed()
	rng := rand.New(rand.NewSource(seed))
	out := hx.NewOut()
	defer out.Close("four tolerated-failure boundaries on the real keepers (attestation handler, inbound bridge call, passed proposal, IBC receive) x failure points (token exists / FX decimals / missing oracle set; revert, store+revert, invalid opcode, out of gas, disabled pair first/middle/last, unknown token; failing message first/middle/last; foreign voucher, bech32 receiver, reverting memo call, store+revert memo call). monitor: key-level multistore dump after the failure == dump of the designated outcome applied on a fresh branch of the same pre-state. non-trivial = distinct (boundary, failure point, configuration)")

	nseq := hx.N(8, 40)
	for i := 0; i < nseq; i++ {
		s := hx.NewSuite(t, 1+rng.Intn(3))
		e := &env{s: s, rng: rng, chain: "eth", k: s.App.EthKeeper, keys: s.App.GetKVStoreKey()}
		e.k.SetLastObservedBlockHeight(s.Ctx, 1000, uint64(s.Ctx.BlockHeight()))
		out.Reset()
		e.runBCI(out, i)
		e.runAtt(out)
		e.runIBC(out)
		e.runGov(out)
	}
}

// branch runs f with the suite context replaced by a fresh branch of it (never written back).
func (e *env) branch(f func(ctx sdk.Context)) {
	saved := e.s.Ctx
	ctx, _ := saved.CacheContext()
	e.s.Ctx = ctx
	defer func() { e.s.Ctx = saved }()
	f(ctx)
}

func ints(xs []sdkmath.Int) string {
	ss := make([]string, len(xs))
	for i, x := range xs {
		ss[i] = x.String()
	}
	return strings.Join(ss, ",")
}

// ---------------------------------------------------------------------------------------------------------
// boundary 2: inbound bridge call whose contract call fails

var bciFails = []string{"none", "revert", "storerevert", "invalid", "oog", "conv", "pre"}

func (e *env) runBCI(out *hx.Out, round int) {
	type cfg struct {
		same  bool
		rfund int64
		ntok  int
		fail  string
	}
	var cfgs []cfg
	for _, f := range bciFails {
		if f == "oog" && round%3 != 0 && hx.Tier() == "quick" {
			continue
		}
		for _, same := range []bool{true, false} {
			rf := int64(0)
			if !same && e.rng.Intn(2) == 0 {
				rf = 1000
			}
			cfgs = append(cfgs, cfg{same, rf, 1 + e.rng.Intn(3), f})
		}
	}
	// always include the two distinguishing configurations
	cfgs = append(cfgs, cfg{false, 1000, 2, "revert"}, cfg{false, 0, 2, "storerevert"})
	for _, c := range cfgs {
		e.bci(out, c.same, c.rfund, c.ntok, c.fail)
	}
}

func (e *env) bci(out *hx.Out, same bool, rfund int64, ntok int, fail string) {
	e.branch(func(ctx sdk.Context) {
		s := e.s
		var toks []token
		amts := make([]sdkmath.Int, ntok)
		for i := 0; i < ntok; i++ {
			toks = append(toks, e.addToken(e.rng.Intn(2) == 0))
			amts[i] = sdkmath.NewInt(int64(1 + e.rng.Intn(500)))
		}
		target := e.randAddr()
		code := codeStoreSuccess
		failIdx := -1
		switch fail {
		case "revert":
			code = codeRevert
		case "storerevert":
			code = codeStoreRevert
		case "invalid":
			code = codeInvalid
		case "oog":
			code = codeStoreLoop
		case "conv":
			failIdx = e.rng.Intn(ntok) // first / middle / last
			e.setPairEnabled(toks[failIdx], false)
		}
		if err := s.App.EvmKeeper.CreateContractWithCode(ctx, target, code); err != nil {
			panic(err)
		}
		refund := target
		if !same {
			refund = e.randAddr()
		}
		if rfund > 0 {
			for _, tk := range toks {
				s.MintToken(refund.Bytes(), sdk.NewCoin(tk.base, sdkmath.NewInt(rfund)))
			}
		}
		contracts := make([]string, ntok)
		for i, tk := range toks {
			contracts[i] = tk.contract
		}
		if fail == "pre" {
			contracts[e.rng.Intn(ntok)] = e.ext(e.randAddr()) // unknown token: fails on the outer ctx, before the cache
		}
		const nonce = 7
		txOrigin := e.ext(e.randAddr())
		claim := &crosschaintypes.MsgBridgeCallClaim{
			ChainName: e.chain, BridgerAddress: sdk.AccAddress(e.randAddr().Bytes()).String(), EventNonce: nonce, BlockHeight: 1,
			Sender: e.ext(e.randAddr()), Refund: e.ext(refund), TokenContracts: contracts, Amounts: amts, To: e.ext(target),
			Data: "", Value: sdkmath.ZeroInt(), Memo: "", TxOrigin: txOrigin,
		}
		e.k.SavePendingExecuteClaim(ctx, claim)
		before := dumpKV(ctx, e.keys)
		_ = before

		// designated outcome on a fresh branch of the same pre-state: claim consumed, bridge account, refund record
		bctx, _ := ctx.CacheContext()
		e.k.DeletePendingExecuteClaim(bctx, nonce)
		e.k.CreateBridgeAccount(bctx, txOrigin)
		var rtoks []crosschaintypes.ERC20Token
		for i, tk := range toks {
			rtoks = append(rtoks, crosschaintypes.NewERC20Token(amts[i], tk.contract))
		}
		if oc, err := e.k.BuildOutgoingBridgeCall(bctx, refund, refund, rtoks, common.Address{}, nil, nil, nonce); err == nil {
			e.k.AddOutgoingBridgeCallWithoutBuild(bctx, oc)
		}
		designated := dumpKV(bctx, e.keys)

		// the real thing, as the precompile runs it: a native action that is reverted as a whole on error
		tx, write := ctx.CacheContext()
		res := hx.Try(func() error { return e.k.ExecuteClaim(tx, nonce) })
		tag := "err"
		if res == "ok" {
			write()
			tag = "ok"
		}
		after := dumpKV(ctx, e.keys)

		recv, rf, erc := make([]sdkmath.Int, ntok), make([]sdkmath.Int, ntok), make([]sdkmath.Int, ntok)
		for i, tk := range toks {
			recv[i] = s.App.BankKeeper.GetBalance(ctx, target.Bytes(), tk.base).Amount
			rf[i] = s.App.BankKeeper.GetBalance(ctx, refund.Bytes(), tk.base).Amount
			b, err := s.App.EvmKeeper.ERC20BalanceOf(ctx, tk.erc20, target)
			if err != nil {
				panic(err)
			}
			erc[i] = sdkmath.NewIntFromBigInt(b)
		}
		nrec := 0
		e.k.IterateOutgoingBridgeCalls(ctx, func(*crosschaintypes.OutgoingBridgeCall) bool { nrec++; return false })
		pend := 0
		if _, ok := e.k.GetPendingExecuteClaim(ctx, nonce); ok {
			pend = 1
		}
		sm := 0
		if same {
			sm = 1
		}
		mfail := fail
		if fail != "none" && fail != "pre" {
			mfail = "fail"
		}
		out.Emit(fmt.Sprintf("bci %d %d %s %s", sm, rfund, ints(amts), mfail),
			fmt.Sprintf("res=%s recv=%s refund=%s erc=%s records=%d pending=%d", tag, ints(recv), ints(rf), ints(erc), nrec, pend))
		point := fail
		if failIdx >= 0 {
			point = fmt.Sprintf("conv(disabled pair %d of %d)", failIdx+1, ntok)
		}
		cfgs := fmt.Sprintf("refund%sreceiver refundFunded=%v tokens=%d", map[bool]string{true: "==", false: "<>"}[same], rfund > 0, ntok)
		out.Count("bci:" + fail + ":" + tag)
		out.Nontrivial("bci|" + point + "|" + cfgs)

		if fail == "none" || fail == "pre" {
			if fail == "pre" && len(diffKV(before, after)) != 0 {
				out.Violate("bridge-call-in: failure before the cached region (unknown token) left writes behind: " + joinOrDash(categories(diffKV(before, after), e.chain)))
			}
			return
		}
		if tag == "err" {
			out.Violate(fmt.Sprintf("bridge-call-in: failed contract call cannot be settled, refund is withdrawn from the refund address which does not hold the tokens credited to the receiver outside the cache, claim stays pending (point=%s; %s; %s)", point, cfgs, firstLine(res)))
			return
		}
		var extra []string
		for _, k := range diffKV(after, designated) {
			if strings.HasPrefix(k, "acc/") {
				out.Count("bci:residue:acc") // empty account created for an address that received coins on the outer ctx
				continue
			}
			extra = append(extra, k)
		}
		if len(extra) > 0 {
			out.Violate(fmt.Sprintf("bridge-call-in: failed contract call leaves more than the designated refund record, credit written outside the cache survives and the refund is taken from another address (point=%s; differing=%s; %s)", point, joinOrDash(categories(extra, e.chain)), cfgs))
		}
	})
}

func firstLine(s string) string {
	if i := strings.IndexByte(s, '\n'); i >= 0 {
		s = s[:i]
	}
	if len(s) > 120 {
		s = s[:120]
	}
	return s
}

// ---------------------------------------------------------------------------------------------------------
// boundary 1: observed event whose handler fails

func (e *env) runAtt(out *hx.Out) {
	for _, kind := range []string{"ok", "exists", "fxdecimals", "oraclesetmissing"} {
		e.att(out, kind, 1+e.rng.Intn(4))
	}
}

func (e *env) att(out *hx.Out, kind string, nOracles int) {
	e.branch(func(ctx sdk.Context) {
		k := e.k
		var oracles []sdk.AccAddress
		for i := 0; i < nOracles; i++ {
			o := sdk.AccAddress(e.randAddr().Bytes())
			oracles = append(oracles, o)
			k.SetOracle(ctx, crosschaintypes.Oracle{
				OracleAddress: o.String(), BridgerAddress: sdk.AccAddress(e.randAddr().Bytes()).String(), ExternalAddress: e.ext(e.randAddr()),
				Online: true, DelegateAmount: sdkmath.NewInt(100).Mul(sdkmath.NewIntWithDecimal(1, 18)), StartHeight: 1,
			})
		}
		k.SetLastTotalPower(ctx)
		nonce := k.GetLastObservedEventNonce(ctx) + 1
		var claim crosschaintypes.ExternalClaim
		switch kind {
		case "ok":
			claim = &crosschaintypes.MsgBridgeTokenClaim{EventNonce: nonce, BlockHeight: 2000, TokenContract: e.ext(e.randAddr()), Name: "N", Symbol: "NEW", Decimals: 18, ChainName: e.chain}
		case "exists":
			tk := e.addToken(true)
			claim = &crosschaintypes.MsgBridgeTokenClaim{EventNonce: nonce, BlockHeight: 2000, TokenContract: tk.contract, Name: "N", Symbol: "DUP", Decimals: 18, ChainName: e.chain}
		case "fxdecimals":
			claim = &crosschaintypes.MsgBridgeTokenClaim{EventNonce: nonce, BlockHeight: 2000, TokenContract: e.ext(e.randAddr()), Name: "FX", Symbol: fxtypes.DefaultDenom, Decimals: 6, ChainName: e.chain}
		case "oraclesetmissing":
			claim = &crosschaintypes.MsgOracleSetUpdatedClaim{EventNonce: nonce, BlockHeight: 2000, OracleSetNonce: 99, Members: []crosschaintypes.BridgeValidator{{Power: 1, ExternalAddress: e.ext(e.randAddr())}}, ChainName: e.chain}
		}
		for _, o := range oracles {
			k.SetLastEventNonceByOracle(ctx, o, nonce-1)
		}
		var pre kvDump
		var last sdk.AccAddress
		observed := false
		for _, o := range oracles {
			pre = dumpKV(ctx, e.keys)
			// designated outcome computed on a branch BEFORE the vote (a branch reads through to later parent writes):
			// the vote's own bookkeeping + observed mark + last observed nonce/height
			bctx, _ := ctx.CacheContext()
			datt := k.GetAttestation(bctx, nonce, claim.ClaimHash())
			if datt == nil {
				anyClaim, err := codectypes.NewAnyWithValue(claim)
				if err != nil {
					panic(err)
				}
				datt = &crosschaintypes.Attestation{Height: uint64(bctx.BlockHeight()), Claim: anyClaim}
			}
			datt.Votes = append(datt.Votes, o.String())
			datt.Observed = true
			k.SetAttestation(bctx, nonce, claim.ClaimHash(), datt)
			k.SetLastObservedEventNonce(bctx, nonce)
			k.SetLastObservedBlockHeight(bctx, claim.GetBlockHeight(), uint64(bctx.BlockHeight()))
			k.SetLastEventNonceByOracle(bctx, o, nonce)
			k.SetLastEventBlockHeightByOracle(bctx, o, claim.GetBlockHeight())
			designated := dumpKV(bctx, e.keys)
			last = o
			res := hx.Try(func() error { _, err := k.Attest(ctx, o, claim); return err })
			if res != "ok" {
				out.Violate("attestation: Attest failed: " + firstLine(res))
				return
			}
			att := k.GetAttestation(ctx, nonce, claim.ClaimHash())
			if att != nil && att.Observed {
				observed = true
				after := dumpKV(ctx, e.keys)
				cats := categories(diffKV(pre, after), e.chain)
				f := "-"
				if kind != "ok" {
					f = fmt.Sprint(e.rng.Intn(3))
				}
				out.Emit(fmt.Sprintf("att 1 %s", f), "cats="+joinOrDash(cats))
				out.Count("att:" + kind)
				out.Nontrivial(fmt.Sprintf("att|%s|oracles=%d", kind, nOracles))
				if kind != "ok" {
					if extra := diffKV(after, designated); len(extra) > 0 {
						out.Violate(fmt.Sprintf("attestation: handler failed (%s), state differs from observed-mark-only in %s", kind, joinOrDash(categories(extra, e.chain))))
					}
				}
				break
			}
		}
		_ = last
		if !observed {
			out.Violate("attestation: event not observed after all votes (" + kind + ")")
		}
	})
}

// ---------------------------------------------------------------------------------------------------------
// boundary 4: IBC packet whose follow-up fails

func (e *env) runIBC(out *hx.Out) {
	for _, sc := range []string{"ok-bridged", "ok-fx-call", "foreign", "bech-nonfx", "callrevert-bridged", "callstorerevert-bridged", "callrevert-fx", "callinvalid-fx"} {
		e.ibc(out, sc)
	}
}

func (e *env) ibc(out *hx.Out, sc string) {
	e.branch(func(ctx sdk.Context) {
		s := e.s
		port, ch := s.GenIBCTransferChannel()
		amount := sdkmath.NewInt(int64(1 + e.rng.Intn(1000)))
		recvHex := e.randAddr()
		receiver := recvHex.Hex()
		denom := ""
		memo := ""
		target := e.randAddr()
		mk := func(code []byte) string {
			if err := s.App.EvmKeeper.CreateContractWithCode(ctx, target, code); err != nil {
				panic(err)
			}
			is := ibcmwtypes.IntermediateSender(port, ch, "cosmos1remotesender")
			s.MintToken(is.Bytes(), sdk.NewCoin(fxtypes.DefaultDenom, sdkmath.NewInt(1))) // CallEVM needs the sender account to exist
			bz, err := s.App.AppCodec().MarshalInterfaceJSON(&ibcmwtypes.IbcCallEvmPacket{To: target.Hex(), Value: sdkmath.ZeroInt(), Data: ""})
			if err != nil {
				panic(err)
			}
			return string(bz)
		}
		bridged := func() string {
			e.ntok++
			base := fmt.Sprintf("ibt%d%c", e.ntok, 'a'+rune(e.rng.Intn(26)))
			ibcDenom := transfertypes.ParseDenomTrace(fmt.Sprintf("%s/%s/u%s", port, ch, base)).IBCDenom()
			// the transfer application sets bank metadata for every voucher it mints, so ManyToOne resolves the voucher denom to
			// itself: the ERC-20 pair has to be registered on the voucher denom
			s.AddTokenPair(ibcDenom, true)
			return "u" + base
		}
		fx := func() string {
			esc := transfertypes.GetEscrowAddress(port, ch)
			s.MintToken(esc, sdk.NewCoin(fxtypes.DefaultDenom, amount.MulRaw(2)))
			s.App.IBCTransferKeeper.SetTotalEscrowForDenom(ctx, sdk.NewCoin(fxtypes.DefaultDenom, amount.MulRaw(2)))
			return fmt.Sprintf("%s/%s/%s", port, ch, fxtypes.DefaultDenom)
		}
		expectFail := true
		switch sc {
		case "ok-bridged":
			denom, expectFail = bridged(), false
		case "ok-fx-call":
			denom, memo, expectFail = fx(), mk(codeStoreSuccess), false
		case "foreign":
			denom = "uforeign"
		case "bech-nonfx":
			denom, receiver = bridged(), sdk.AccAddress(recvHex.Bytes()).String()
		case "callrevert-bridged":
			denom, memo = bridged(), mk(codeRevert)
		case "callstorerevert-bridged":
			denom, memo = bridged(), mk(codeStoreRevert)
		case "callrevert-fx":
			denom, memo = fx(), mk(codeRevert)
		case "callinvalid-fx":
			denom, memo = fx(), mk(codeInvalid)
		}
		data := transfertypes.NewFungibleTokenPacketData(denom, amount.String(), "cosmos1remotesender", receiver, memo)
		seq := uint64(1 + e.rng.Intn(100))
		packet := channeltypes.NewPacket(data.GetBytes(), seq, port, ch, port, ch, clienttypes.NewHeight(100, 100000), 0)
		mod, ok := s.App.IBCKeeper.Router.GetRoute(transfertypes.ModuleName)
		if !ok {
			panic("no transfer route")
		}
		parent := ctx
		bctx, _ := parent.CacheContext() // sibling branch of the same pre-state for the designated outcome
		ctx, _ = parent.CacheContext()
		// IBC core: callback on a cache branch, committed only on a successful acknowledgement
		cctx, write := ctx.CacheContext()
		ack := mod.OnRecvPacket(cctx, packet, sdk.AccAddress(e.randAddr().Bytes()))
		if ack == nil || ack.Success() {
			write()
		}
		ackHash := channeltypes.CommitAcknowledgement(ack.Acknowledgement())
		s.App.IBCKeeper.ChannelKeeper.SetPacketAcknowledgement(ctx, port, ch, seq, ackHash)
		after := dumpKV(ctx, e.keys)
		// designated: only the acknowledgement
		s.App.IBCKeeper.ChannelKeeper.SetPacketAcknowledgement(bctx, port, ch, seq, ackHash)
		designated := dumpKV(bctx, e.keys)
		extra := diffKV(after, designated)
		marks := []string{}
		f := "-"
		if ack.Success() {
			marks = append(marks, "ack=ok")
		} else {
			marks = append(marks, "ack=err")
			f = fmt.Sprint(e.rng.Intn(3))
		}
		if len(extra) > 0 {
			marks = append(marks, "app")
		}
		sort.Strings(marks)
		out.Emit(fmt.Sprintf("ibc 2 %s", f), "marks="+strings.Join(marks, ","))
		out.Count("ibc:" + sc)
		out.Nontrivial("ibc|" + sc)
		if expectFail && ack.Success() {
			out.Violate("ibc-recv: follow-up failed (" + sc + ") but a success acknowledgement was returned, writes committed: " + joinOrDash(categories(extra, e.chain)))
		}
		if !ack.Success() && len(extra) > 0 {
			out.Violate("ibc-recv: error acknowledgement (" + sc + ") but state differs from acknowledgement-only in " + joinOrDash(categories(extra, e.chain)))
		}
		if !expectFail && !ack.Success() {
			out.Violate("ibc-recv: harness scenario " + sc + " expected to succeed but got an error acknowledgement: " + string(ack.Acknowledgement()))
		}
	})
}

// ---------------------------------------------------------------------------------------------------------
// boundary 3: passed proposal whose message fails

func (e *env) runGov(out *hx.Out) {
	n := 1 + e.rng.Intn(4)
	e.gov(out, n, -1)
	e.gov(out, n, 0)
	e.gov(out, n, n-1)
	if n > 2 {
		e.gov(out, n, 1+e.rng.Intn(n-2))
	}
}

// gov runs the same pre-state twice: proposal A = n bank sends from the gov account, the one at failIdx overdrawn
// (fails after the earlier messages have written); proposal B = a single overdrawn send (fails with no write at all:
// its outcome is the designated one).  Everything except the proposal record itself must be identical afterwards.
func (e *env) gov(out *hx.Out, n, failIdx int) {
	s := e.s
	govAcc := authtypes.NewModuleAddress(govtypes.ModuleName)
	build := func(ctx sdk.Context, msgs []sdk.Msg) (kvDump, govv1.ProposalStatus, bool) {
		gk := s.App.GovKeeper
		proposer := sdk.AccAddress(s.ValAddr[0])
		params, err := gk.Params.Get(ctx)
		if err != nil {
			panic(err)
		}
		dep := sdk.NewCoins(params.MinDeposit...).MulInt(sdkmath.NewInt(100))
		s.MintToken(proposer, dep...)
		p, err := gk.Keeper.SubmitProposal(ctx, msgs, "", "t", "s", proposer, false)
		if err != nil {
			return nil, 0, false
		}
		if _, err := gk.Keeper.AddDeposit(ctx, p.Id, proposer, dep); err != nil {
			return nil, 0, false
		}
		for _, v := range s.ValAddr {
			if err := gk.Keeper.AddVote(ctx, p.Id, sdk.AccAddress(v), govv1.NewNonSplitVoteOption(govv1.OptionYes), ""); err != nil {
				return nil, 0, false
			}
		}
		p2, err := gk.Keeper.Proposals.Get(ctx, p.Id)
		if err != nil || p2.VotingEndTime == nil {
			return nil, 0, false
		}
		ectx := ctx.WithBlockTime(p2.VotingEndTime.Add(time.Second))
		if err := fxgov.EndBlocker(ectx, gk); err != nil {
			return nil, 0, false
		}
		p3, err := gk.Keeper.Proposals.Get(ctx, p.Id)
		if err != nil {
			return nil, 0, false
		}
		d := dumpKV(ctx, e.keys)
		return d, p3.Status, true
	}
	e.branch(func(ctx sdk.Context) {
		s.MintToken(govAcc, sdk.NewCoin(fxtypes.DefaultDenom, sdkmath.NewInt(1_000_000)))
		send := func(amt int64) sdk.Msg {
			return &banktypes.MsgSend{FromAddress: govAcc.String(), ToAddress: sdk.AccAddress(e.randAddr().Bytes()).String(), Amount: sdk.NewCoins(sdk.NewCoin(fxtypes.DefaultDenom, sdkmath.NewInt(amt)))}
		}
		var msgsA []sdk.Msg
		for i := 0; i < n; i++ {
			if i == failIdx {
				msgsA = append(msgsA, send(1_000_000_000_000))
			} else {
				msgsA = append(msgsA, send(int64(1+e.rng.Intn(1000))))
			}
		}
		actx, _ := ctx.CacheContext()
		bctx, _ := ctx.CacheContext()
		saved := s.Ctx
		s.Ctx = actx
		da, sa, okA := build(actx, msgsA)
		s.Ctx = bctx
		db, sb, okB := build(bctx, []sdk.Msg{send(1_000_000_000_000)})
		s.Ctx = saved
		if !okA || !okB {
			out.Count("gov:setup-failed")
			return
		}
		var extra []string
		for _, k := range diffKV(da, db) {
			if strings.HasPrefix(k, "gov/") {
				continue // the proposal record itself (messages, failed reason, status) and its indexes
			}
			extra = append(extra, k)
		}
		f := "-"
		if failIdx >= 0 {
			f = fmt.Sprint(failIdx)
		}
		marks := []string{"status=" + map[govv1.ProposalStatus]string{govv1.StatusFailed: "failed", govv1.StatusPassed: "passed"}[sa]}
		if len(extra) > 0 {
			marks = append(marks, "msgs")
		}
		sort.Strings(marks)
		out.Emit(fmt.Sprintf("gov %d %s", n, f), "marks="+strings.Join(marks, ","))
		pos := "none"
		if failIdx >= 0 {
			pos = map[bool]string{true: "first", false: "later"}[failIdx == 0]
			if failIdx == n-1 && n > 1 {
				pos = "last"
			}
		}
		out.Count("gov:" + pos)
		out.Nontrivial(fmt.Sprintf("gov|n=%d|fail=%s", n, pos))
		if sb != govv1.StatusFailed {
			out.Violate("gov: reference proposal (single overdrawn send) did not end as failed")
		}
		if failIdx >= 0 {
			if sa != govv1.StatusFailed {
				out.Violate(fmt.Sprintf("gov: message %d of %d failed but proposal status is %s", failIdx+1, n, sa))
			}
			if len(extra) > 0 {
				out.Violate(fmt.Sprintf("gov: message %d of %d failed, state differs from status-failed-only in %s", failIdx+1, n, joinOrDash(categories(extra, e.chain))))
			}
		}
	})
}
