package c18

// C18 correspondence + monitors on the REAL in-process app.
// For every tolerated-failure boundary the failure is provoked at every distinguishable point; the observation is the
// full key-level multistore dump after the tolerated failure, compared with the dump obtained by applying ONLY the
// designated outcome on a fresh branch (CacheContext) of the same pre-state.  Any extra differing key is a monitor
// violation naming the boundary and the failure point.  Canonical observations are also compared with the Lean model.

import (
	"encoding/hex"
	"fmt"
	"math/big"
	"math/rand"
	"sort"
	"strings"
	"testing"
	"time"

	"cosmossdk.io/collections"
	sdkmath "cosmossdk.io/math"
	cmtproto "github.com/cometbft/cometbft/proto/tendermint/types"
	codectypes "github.com/cosmos/cosmos-sdk/codec/types"
	sdk "github.com/cosmos/cosmos-sdk/types"
	authtypes "github.com/cosmos/cosmos-sdk/x/auth/types"
	banktypes "github.com/cosmos/cosmos-sdk/x/bank/types"
	crisistypes "github.com/cosmos/cosmos-sdk/x/crisis/types"
	govtypes "github.com/cosmos/cosmos-sdk/x/gov/types"
	govv1 "github.com/cosmos/cosmos-sdk/x/gov/types/v1"
	transfertypes "github.com/cosmos/ibc-go/v8/modules/apps/transfer/types"
	clienttypes "github.com/cosmos/ibc-go/v8/modules/core/02-client/types"
	channeltypes "github.com/cosmos/ibc-go/v8/modules/core/04-channel/types"
	host "github.com/cosmos/ibc-go/v8/modules/core/24-host"
	"github.com/cosmos/ibc-go/v8/modules/core/exported"
	localhost "github.com/cosmos/ibc-go/v8/modules/light-clients/09-localhost"
	capabilitytypes "github.com/cosmos/ibc-go/modules/capability/types"
	"github.com/ethereum/go-ethereum/common"

	fxtypes "github.com/functionx/fx-core/v8/types"
	crosschaintypes "github.com/functionx/fx-core/v8/x/crosschain/types"
	fxevmtypes "github.com/functionx/fx-core/v8/x/evm/types"
	fxgov "github.com/functionx/fx-core/v8/x/gov"
	ibcmwtypes "github.com/functionx/fx-core/v8/x/ibc/middleware/types"

	"fxverif/harness/evmx"
	"fxverif/harness/hx"
)

func TestC18(t *testing.T) {
	seed := hx.Seed()
	rng := rand.New(rand.NewSource(seed))
	out := hx.NewOut()
	defer out.Close("four tolerated-failure boundaries on the real keepers x failure points. attestation: every claim type (bridge token new / existing / FX with wrong decimals / FX ok, oracle set missing / nonce 0, send-to-fx, bridge call, bridge call result). inbound bridge call (real ExecuteClaim): 0..3 tokens, refund ==/<> receiver, funded or not, memo send-call-to, target without code; revert, store+revert, invalid opcode, out of gas at several gas caps, successful code under a too small gas cap, insufficient balance for the call value, disabled pair at the first/middle/last token, unknown token. gov (real EndBlocker): 1..4 messages (bank sends, contract calls that write storage), the failing one first/middle/last: overdrawn send, reverting / store+revert / invalid / out-of-gas contract, address without code, a handler that PANICS after a write (MsgVerifyInvariant on a broken invariant). IBC receive, each scenario through the mimicked core AND through the real ibc-go core RecvPacket over the localhost client: bridged voucher / FX coin, hex / bech32 receiver, foreign voucher, receive disabled, disabled pair, memo that is not a call, invalid memo, call revert / store+revert / invalid / out of gas / insufficient balance / CallEVM error. monitors: key-level multistore dump after the failure == dump of the designated outcome applied on a fresh branch of the same pre-state; acknowledgement kind; proposal status. correspondence: bank-level model (bci), compositions compiled from call lists (att/gov/ibc), and Model.C18P.exec on the regenerated structured programs (patt/pgov/pbci/pibc: which leaves' effects are in the state). round 3: the crosschain boundaries run on eth / bsc / tron in turn; the refund of a failed contract call failing itself (no observed external height: hard failure, ExecuteClaim must return the error) at keeper level and through the real executeClaim precompile as an included transaction; a panicking attestation handler (batch-executed event for an unknown batch) on a transaction-like branch; blocks of proposals ending together (pgovb); pxc = Model.C18P.exec on executeClaimPrecompileProg. non-trivial = distinct (boundary, failure point, configuration)")

	nseq := hx.N(12, 60)
	for i := 0; i < nseq; i++ {
		s := hx.NewSuite(t, 1+rng.Intn(3))
		// the crosschain boundaries are exercised on three bridged chains in turn (tron: base58 external addresses)
		e := &env{s: s, rng: rng, chain: "eth", k: s.App.EthKeeper, keys: s.App.GetKVStoreKey()}
		switch i % 3 {
		case 1:
			e.chain, e.k = "bsc", s.App.BscKeeper
		case 2:
			e.chain, e.k = "tron", s.App.TronKeeper
		}
		out.Count("chain:" + e.chain)
		e.k.SetLastObservedBlockHeight(s.Ctx, 1000, uint64(s.Ctx.BlockHeight()))
		e.round = i
		e.installHook()
		out.Reset()
		e.runBCI(out, i)
		e.runAtt(out)
		e.runIBC(out)
		e.runGov(out)
		e.runGovBlocks(out)
		e.runGovHooks(out)
		e.runXC(out)
		e.runAttRouter(out)
		e.runEvmRes(out)
	}
}

// branch runs f with the suite context replaced by a fresh branch of it (never written back).
func (e *env) branch(f func(ctx sdk.Context)) {
	saved := e.s.Ctx
	ctx, _ := saved.CacheContext()
	e.s.Ctx = ctx
	defer func() { e.s.Ctx = saved }()
	f(ctx)
}

func ints(xs []sdkmath.Int) string {
	ss := make([]string, len(xs))
	for i, x := range xs {
		ss[i] = x.String()
	}
	return strings.Join(ss, ",")
}

// ---------------------------------------------------------------------------------------------------------
// boundary 2: inbound bridge call whose contract call fails

var bciFails = []string{"none", "nocontract", "revert", "storerevert", "invalid", "oog", "oogsmall", "insufficient", "conv", "pre", "refundfail", "refundfail-conv"}

type bciCfg struct {
	same     bool
	rfund    int64
	ntok     int
	fail     string
	memoCall bool
}

func (e *env) runBCI(out *hx.Out, round int) {
	var cfgs []bciCfg
	for _, f := range bciFails {
		if (f == "oog" || f == "oogsmall") && round%2 != 0 && hx.Tier() == "quick" {
			continue
		}
		for _, same := range []bool{true, false} {
			rf := int64(0)
			if !same && e.rng.Intn(2) == 0 {
				rf = 1000
			}
			ntok := 1 + e.rng.Intn(3)
			if f != "conv" && f != "pre" && f != "refundfail-conv" && e.rng.Intn(6) == 0 {
				ntok = 0 // no tokens at all: baseCoins.IsZero()
			}
			cfgs = append(cfgs, bciCfg{same, rf, ntok, f, f != "insufficient" && e.rng.Intn(4) == 0})
		}
	}
	// every revert payload shape over the rounds (the empty reason in every round), with and without a write before the revert
	for j, sh := range e.shapesOfRound() {
		cfgs = append(cfgs, bciCfg{j%2 == 0, 0, 1 + e.rng.Intn(3), "revert:" + sh, false})
	}
	for _, f := range []string{"badjump", "underflow"} {
		if round%2 == 0 || hx.Tier() != "quick" {
			cfgs = append(cfgs, bciCfg{e.rng.Intn(2) == 0, 0, 1 + e.rng.Intn(2), f, false})
		}
	}
	// always include the two distinguishing configurations, and the disabled pair at the first / a middle / the last of three
	cfgs = append(cfgs, bciCfg{false, 1000, 2, "revert", false}, bciCfg{false, 0, 2, "storerevert", false})
	for idx := 0; idx < 3; idx++ {
		cfgs = append(cfgs, bciCfg{e.rng.Intn(2) == 0, 0, 3, fmt.Sprintf("conv@%d", idx), false})
	}
	for _, c := range cfgs {
		e.bci(out, c)
	}
}

func (e *env) bci(out *hx.Out, c bciCfg) {
	same, rfund, ntok, fail := c.same, c.rfund, c.ntok, c.fail
	forcedIdx := -1
	if strings.HasPrefix(fail, "conv@") {
		fmt.Sscanf(fail, "conv@%d", &forcedIdx)
		fail = "conv"
	}
	shape := ""
	if strings.HasPrefix(fail, "revert:") {
		shape = strings.TrimPrefix(fail, "revert:")
	}
	e.branch(func(ctx sdk.Context) {
		s := e.s
		var toks []token
		amts := make([]sdkmath.Int, ntok)
		for i := 0; i < ntok; i++ {
			toks = append(toks, e.addToken(e.rng.Intn(2) == 0))
			amts[i] = sdkmath.NewInt(int64(1 + e.rng.Intn(500)))
		}
		target := e.randAddr()
		sender := e.randAddr()
		code := codeStoreSuccess
		failIdx, preIdx := -1, -1
		value := sdkmath.ZeroInt()
		gasCap := int64(0)
		call := "ok"
		refundFails := false
		if shape != "" {
			// the callback reverts with a chosen return data: what abi.UnpackRevert makes of it must not matter
			code, call = codeRevertWith(shapeByName(shape).payload, e.rng.Intn(2) == 0), "shape:"+shape
		}
		switch fail {
		case "revert":
			code, call = codeRevert, "revert"
		case "badjump":
			code, call = codeBadJump, "shape:badjump"
		case "underflow":
			code, call = codeUnderflow, "shape:underflow"
		case "storerevert":
			code, call = codeStoreRevert, "revert"
		case "invalid":
			code, call = codeInvalid, "invalid"
		case "oog":
			code, call = codeStoreLoop, "oog"
			gasCap = []int64{30_000, 60_000, 200_000, 3_000_000}[e.rng.Intn(4)] // gas exhaustion at different limits
		case "oogsmall":
			call = "oog"
			gasCap = 21_000 + int64(e.rng.Intn(20_000)) // the otherwise successful callback runs out of gas before / in its SSTORE
		case "insufficient":
			value, call = sdkmath.NewInt(1_000_000), "insufficient" // the callback sender cannot pay the call value
		case "refundfail":
			// the contract call fails AND the refund of that failure fails (no external height observed yet: the refund
			// record cannot get a timeout), after the credited coins were moved and converted back: a HARD failure
			code, call = codeStoreRevert, "revert"
			refundFails = true
		case "refundfail-conv":
			failIdx = e.rng.Intn(ntok)
			e.setPairEnabled(toks[failIdx], false)
			call = "-"
			refundFails = true
		case "conv":
			failIdx = e.rng.Intn(ntok) // first / middle / last
			if forcedIdx >= 0 {
				failIdx = forcedIdx
			}
			e.setPairEnabled(toks[failIdx], false)
			call = "-"
		case "nocontract", "pre":
			call = "-"
		}
		if fail != "nocontract" {
			if err := s.App.EvmKeeper.CreateContractWithCode(ctx, target, code); err != nil {
				panic(err)
			}
		}
		memo := ""
		receiver := target
		if c.memoCall {
			memo = hex.EncodeToString(crosschaintypes.MemoSendCallTo.Bytes())
			receiver = sender
			s.MintToken(sender.Bytes(), sdk.NewCoin(fxtypes.DefaultDenom, sdkmath.NewInt(1))) // the raw call is sent by the sender: its account must exist
		}
		refund := receiver
		if !same {
			refund = e.randAddr()
		}
		if rfund > 0 {
			for _, tk := range toks {
				s.MintToken(refund.Bytes(), sdk.NewCoin(tk.base, sdkmath.NewInt(rfund)))
			}
		}
		contracts := make([]string, ntok)
		for i, tk := range toks {
			contracts[i] = tk.contract
		}
		if fail == "pre" {
			preIdx = e.rng.Intn(ntok)
			contracts[preIdx] = e.ext(e.randAddr()) // unknown token: fails on the outer ctx, before the cache
		}
		const nonce = 7
		txOrigin := e.ext(e.randAddr())
		claim := &crosschaintypes.MsgBridgeCallClaim{
			ChainName: e.chain, BridgerAddress: sdk.AccAddress(e.randAddr().Bytes()).String(), EventNonce: nonce, BlockHeight: 1,
			Sender: e.ext(sender), Refund: e.ext(refund), TokenContracts: contracts, Amounts: amts, To: e.ext(target),
			Data: "", Value: value, Memo: memo, TxOrigin: txOrigin,
		}
		e.k.SavePendingExecuteClaim(ctx, claim)
		if refundFails {
			e.k.SetLastObservedBlockHeight(ctx, 0, uint64(ctx.BlockHeight()))
		}
		origCp := ctx.ConsensusParams()
		if gasCap > 0 {
			cp := ctx.ConsensusParams()
			nb := cmtproto.BlockParams{MaxBytes: 1 << 20}
			if cp.Block != nil {
				nb = *cp.Block
			}
			nb.MaxGas = gasCap
			cp.Block = &nb
			ctx = ctx.WithConsensusParams(cp)
		}
		before := dumpKV(ctx, e.keys)

		// designated outcome on a fresh branch of the same pre-state: claim consumed, bridge account, refund record
		bctx, _ := ctx.CacheContext()
		e.k.DeletePendingExecuteClaim(bctx, nonce)
		e.k.CreateBridgeAccount(bctx, txOrigin)
		var rtoks []crosschaintypes.ERC20Token
		for i, tk := range toks {
			rtoks = append(rtoks, crosschaintypes.NewERC20Token(amts[i], tk.contract))
		}
		if oc, err := e.k.BuildOutgoingBridgeCall(bctx, refund, refund, rtoks, common.Address{}, nil, nil, nonce); err == nil {
			e.k.AddOutgoingBridgeCallWithoutBuild(bctx, oc)
		}
		designated := dumpKV(bctx, e.keys)

		// the real thing, as the precompile runs it: a native action that is reverted as a whole on error
		tx, write := ctx.WithEventManager(sdk.NewEventManager()).CacheContext()
		res := hx.Try(func() error { return e.k.ExecuteClaim(tx, nonce) })
		tag := "err"
		moved := 0
		if res == "ok" {
			write()
			tag = "ok"
			moved = countTransfers(tx.EventManager().Events(), sdk.AccAddress(receiver.Bytes()).String(), sdk.AccAddress(refund.Bytes()).String())
			if same {
				moved = 0
			}
		}
		after := dumpKV(ctx, e.keys)
		ctx = ctx.WithConsensusParams(origCp) // observation calls into the EVM are not subject to the scenario's gas cap

		recv, rf, erc := make([]sdkmath.Int, ntok), make([]sdkmath.Int, ntok), make([]sdkmath.Int, ntok)
		nerc := 0
		for i, tk := range toks {
			recv[i] = s.App.BankKeeper.GetBalance(ctx, receiver.Bytes(), tk.base).Amount
			rf[i] = s.App.BankKeeper.GetBalance(ctx, refund.Bytes(), tk.base).Amount
			b, err := s.App.EvmKeeper.ERC20BalanceOf(ctx, tk.erc20, receiver)
			if err != nil {
				panic(err)
			}
			erc[i] = sdkmath.NewIntFromBigInt(b)
			if b.Sign() > 0 {
				nerc++
			}
		}
		nrec := 0
		e.k.IterateOutgoingBridgeCalls(ctx, func(*crosschaintypes.OutgoingBridgeCall) bool { nrec++; return false })
		pend := 0
		if _, ok := e.k.GetPendingExecuteClaim(ctx, nonce); ok {
			pend = 1
		}
		slot := 0
		if s.App.EvmKeeper.GetState(ctx, target, common.Hash{}) != (common.Hash{}) {
			slot = 1
		}
		sm := 0
		if same {
			sm = 1
		}
		mfail := fail
		if fail == "nocontract" {
			mfail = "none"
		} else if fail != "none" && fail != "pre" {
			mfail = "fail"
		}
		if ntok > 0 && !c.memoCall && !refundFails { // the bank-level model (Model/C18.BC): receiver = call target
			out.Emit(fmt.Sprintf("bci %d %d %s %s", sm, rfund, ints(amts), mfail),
				fmt.Sprintf("res=%s recv=%s refund=%s erc=%s records=%d pending=%d", tag, ints(recv), ints(rf), ints(erc), nrec, pend))
		}
		// the regenerated program (Model/C18P.exec on Gen.executeClaimProg)
		b01 := func(b bool) int {
			if b {
				return 1
			}
			return 0
		}
		dash := func(i int) string {
			if i < 0 {
				return "-"
			}
			return fmt.Sprint(i)
		}
		out.Emit(fmt.Sprintf("pbci %d %s %s %d %d %s %d %d %d", ntok, dash(preIdx), dash(failIdx), b01(fail != "nocontract"), b01(c.memoCall), call, sm, b01(ntok == 0), b01(!refundFails)),
			fmt.Sprintf("res=%s pending=%d refund=%d moved=%d erc=%d slot=%d", tag, pend, nrec, moved, nerc, slot))
		point := fail
		if failIdx >= 0 {
			point = fmt.Sprintf("conv(disabled pair %d of %d)", failIdx+1, ntok)
		}
		if gasCap > 0 {
			point += fmt.Sprintf("(gas cap %d)", gasCap)
		}
		cfgs := fmt.Sprintf("refund%sreceiver refundFunded=%v tokens=%d memoSendCallTo=%v", map[bool]string{true: "==", false: "<>"}[same], rfund > 0, ntok, c.memoCall)
		out.Count("bci:" + fail + ":" + tag)
		if failIdx >= 0 {
			pos := "middle"
			if failIdx == 0 {
				pos = "first"
			} else if failIdx == ntok-1 {
				pos = "last"
			}
			if ntok == 1 {
				pos = "only"
			}
			out.Count("bci:conv:" + pos)
		}
		out.Count(fmt.Sprintf("bci:tokens=%d", ntok))
		out.Nontrivial("bci|" + point + "|" + cfgs)

		if fail == "none" || fail == "pre" || fail == "nocontract" {
			if fail == "pre" && len(diffKV(before, after)) != 0 {
				out.Violate("bridge-call-in: failure before the cached region (unknown token) left writes behind: " + joinOrDash(categories(diffKV(before, after), e.chain)))
			}
			if fail != "pre" && tag != "ok" {
				out.Violate(fmt.Sprintf("bridge-call-in: harness scenario %s expected to succeed: %s", fail, firstLine(res)))
			}
			return
		}
		if refundFails {
			// hard failure: ExecuteClaim must return the error (the native action / transaction reverts as a whole)
			out.Count("bci:refund-fails:" + tag)
			if tag != "err" {
				out.Violate(fmt.Sprintf("bridge-call-in: the refund of a failed contract call failed but ExecuteClaim returned nil, partial writes of the failure path are committed (point=%s; differing=%s; %s)", point, joinOrDash(categories(diffKV(after, before), e.chain)), cfgs))
			} else if len(diffKV(after, before)) != 0 {
				out.Violate("bridge-call-in: reverted native action left writes behind: " + joinOrDash(categories(diffKV(after, before), e.chain)))
			}
			return
		}
		if tag == "err" {
			out.Violate(fmt.Sprintf("bridge-call-in: failed contract call cannot be settled, refund is withdrawn from the refund address which does not hold the tokens credited to the receiver outside the cache, claim stays pending (point=%s; %s; %s)", point, cfgs, firstLine(res)))
			return
		}
		var extra []string
		for _, k := range diffKV(after, designated) {
			if strings.HasPrefix(k, "acc/") {
				out.Count("bci:residue:acc") // empty account created for an address that received coins on the outer ctx
				continue
			}
			extra = append(extra, k)
		}
		if len(extra) > 0 && nrec == 0 {
			out.Violate(fmt.Sprintf("bridge-call-in: failed contract call was committed as a SUCCESS: no refund record, the tokens stay converted with the receiver and the claim is consumed (point=%s; differing=%s; %s)", point, joinOrDash(categories(extra, e.chain)), cfgs))
		} else if len(extra) > 0 {
			out.Violate(fmt.Sprintf("bridge-call-in: failed contract call leaves more than the designated refund record, credit written outside the cache survives and the refund is taken from another address (point=%s; differing=%s; %s)", point, joinOrDash(categories(extra, e.chain)), cfgs))
		}
	})
}

// countTransfers counts bank transfer events from one address to another.
func countTransfers(evs sdk.Events, from, to string) int {
	n := 0
	for _, ev := range evs {
		if ev.Type != banktypes.EventTypeTransfer {
			continue
		}
		var f, t string
		for _, a := range ev.Attributes {
			switch a.Key {
			case banktypes.AttributeKeySender:
				f = a.Value
			case banktypes.AttributeKeyRecipient:
				t = a.Value
			}
		}
		if f == from && t == to {
			n++
		}
	}
	return n
}

func firstLine(s string) string {
	if i := strings.IndexByte(s, '\n'); i >= 0 {
		s = s[:i]
	}
	if len(s) > 120 {
		s = s[:120]
	}
	return s
}

// ---------------------------------------------------------------------------------------------------------
// boundary 1: observed event whose handler fails

func (e *env) runAtt(out *hx.Out) {
	// every claim type, with a failing handler wherever the handler of that type can fail
	for _, kind := range []string{"ok", "exists", "fxdecimals", "fxok", "oraclesetmissing", "oraclesetzero", "sendtofx", "bridgecall", "bridgecallresult", "batchpanic"} {
		e.att(out, kind, 1+e.rng.Intn(4))
	}
}

func (e *env) att(out *hx.Out, kind string, nOracles int) {
	e.branch(func(ctx sdk.Context) {
		k := e.k
		var oracles []sdk.AccAddress
		for i := 0; i < nOracles; i++ {
			o := sdk.AccAddress(e.randAddr().Bytes())
			oracles = append(oracles, o)
			k.SetOracle(ctx, crosschaintypes.Oracle{
				OracleAddress: o.String(), BridgerAddress: sdk.AccAddress(e.randAddr().Bytes()).String(), ExternalAddress: e.ext(e.randAddr()),
				Online: true, DelegateAmount: sdkmath.NewInt(100).Mul(sdkmath.NewIntWithDecimal(1, 18)), StartHeight: 1,
			})
		}
		k.SetLastTotalPower(ctx)
		nonce := k.GetLastObservedEventNonce(ctx) + 1
		var claim crosschaintypes.ExternalClaim
		fails := false
		hcat := "-" // categories the handler writes when it succeeds
		switch kind {
		case "ok":
			claim, hcat = &crosschaintypes.MsgBridgeTokenClaim{EventNonce: nonce, BlockHeight: 2000, TokenContract: e.ext(e.randAddr()), Name: "N", Symbol: "NEW", Decimals: 18, ChainName: e.chain}, "bridgeDenom"
		case "exists":
			tk := e.addToken(true)
			claim, fails = &crosschaintypes.MsgBridgeTokenClaim{EventNonce: nonce, BlockHeight: 2000, TokenContract: tk.contract, Name: "N", Symbol: "DUP", Decimals: 18, ChainName: e.chain}, true
		case "fxdecimals":
			claim, fails = &crosschaintypes.MsgBridgeTokenClaim{EventNonce: nonce, BlockHeight: 2000, TokenContract: e.ext(e.randAddr()), Name: "FX", Symbol: fxtypes.DefaultDenom, Decimals: uint64([]int{0, 6, 17, 19}[e.rng.Intn(4)]), ChainName: e.chain}, true
		case "fxok":
			claim, hcat = &crosschaintypes.MsgBridgeTokenClaim{EventNonce: nonce, BlockHeight: 2000, TokenContract: e.ext(e.randAddr()), Name: "FX", Symbol: fxtypes.DefaultDenom, Decimals: 18, ChainName: e.chain}, "bridgeDenom"
		case "oraclesetmissing":
			claim, fails = &crosschaintypes.MsgOracleSetUpdatedClaim{EventNonce: nonce, BlockHeight: 2000, OracleSetNonce: 99, Members: []crosschaintypes.BridgeValidator{{Power: 1, ExternalAddress: e.ext(e.randAddr())}}, ChainName: e.chain}, true
		case "oraclesetzero":
			claim, hcat = &crosschaintypes.MsgOracleSetUpdatedClaim{EventNonce: nonce, BlockHeight: 2000, OracleSetNonce: 0, Members: []crosschaintypes.BridgeValidator{{Power: 1, ExternalAddress: e.ext(e.randAddr())}}, ChainName: e.chain}, "lastObservedOracleSet"
		case "sendtofx":
			claim, hcat = &crosschaintypes.MsgSendToFxClaim{EventNonce: nonce, BlockHeight: 2000, TokenContract: e.ext(e.randAddr()), Amount: sdkmath.NewInt(5), Sender: e.ext(e.randAddr()), Receiver: sdk.AccAddress(e.randAddr().Bytes()).String(), ChainName: e.chain}, "pendingClaim"
		case "bridgecall":
			claim, hcat = &crosschaintypes.MsgBridgeCallClaim{EventNonce: nonce, BlockHeight: 2000, Sender: e.ext(e.randAddr()), Refund: e.ext(e.randAddr()), To: e.ext(e.randAddr()), Value: sdkmath.ZeroInt(), TxOrigin: e.ext(e.randAddr()), ChainName: e.chain}, "pendingClaim"
		case "batchpanic":
			// a batch-executed event for a batch that does not exist: the handler PANICS (not an error): not tolerated
			claim = &crosschaintypes.MsgSendToExternalClaim{EventNonce: nonce, BlockHeight: 2000, BatchNonce: uint64(50 + e.rng.Intn(50)), TokenContract: e.ext(e.randAddr()), ChainName: e.chain}
		case "bridgecallresult":
			claim, hcat = &crosschaintypes.MsgBridgeCallResultClaim{EventNonce: nonce, BlockHeight: 2000, Nonce: 1, TxOrigin: e.ext(e.randAddr()), Success: true, ChainName: e.chain}, "pendingClaim"
		}
		for _, o := range oracles {
			k.SetLastEventNonceByOracle(ctx, o, nonce-1)
		}
		var pre kvDump
		observed := false
		for _, o := range oracles {
			pre = dumpKV(ctx, e.keys)
			if kind == "batchpanic" {
				// as baseapp runs the claim transaction: on a branch that is dropped when the message panics
				tx, write := ctx.CacheContext()
				res := hx.Try(func() error { _, err := k.Attest(tx, o, claim); return err })
				if strings.HasPrefix(res, "panic:") {
					observed = true // the vote that reaches the threshold
					after := dumpKV(ctx, e.keys)
					out.Emit("patt - panic", "flow=panic cats="+joinOrDash(categories(diffKV(pre, after), e.chain)))
					out.Count("att:" + kind)
					out.Count("att:claim:MsgSendToExternalClaim")
					out.Nontrivial(fmt.Sprintf("att|%s|oracles=%d", kind, nOracles))
					break
				}
				if res != "ok" {
					out.Violate("attestation: Attest failed: " + firstLine(res))
					return
				}
				write()
				if att := k.GetAttestation(ctx, nonce, claim.ClaimHash()); att != nil && att.Observed {
					observed = true
					out.Emit("patt - panic", "flow=brk cats="+joinOrDash(categories(diffKV(pre, dumpKV(ctx, e.keys)), e.chain)))
					out.Violate("attestation: a PANIC of the handler (batch-executed event for an unknown batch) was swallowed and the event is marked observed; writes of the panicking handler may be committed: " + joinOrDash(categories(diffKV(pre, dumpKV(ctx, e.keys)), e.chain)))
					break
				}
				continue
			}
			// designated outcome computed on a branch BEFORE the vote (a branch reads through to later parent writes):
			// the vote's own bookkeeping + observed mark + last observed nonce/height
			bctx, _ := ctx.CacheContext()
			datt := k.GetAttestation(bctx, nonce, claim.ClaimHash())
			if datt == nil {
				anyClaim, err := codectypes.NewAnyWithValue(claim)
				if err != nil {
					panic(err)
				}
				datt = &crosschaintypes.Attestation{Height: uint64(bctx.BlockHeight()), Claim: anyClaim}
			}
			datt.Votes = append(datt.Votes, o.String())
			datt.Observed = true
			k.SetAttestation(bctx, nonce, claim.ClaimHash(), datt)
			k.SetLastObservedEventNonce(bctx, nonce)
			k.SetLastObservedBlockHeight(bctx, claim.GetBlockHeight(), uint64(bctx.BlockHeight()))
			k.SetLastEventNonceByOracle(bctx, o, nonce)
			k.SetLastEventBlockHeightByOracle(bctx, o, claim.GetBlockHeight())
			designated := dumpKV(bctx, e.keys)
			res := hx.Try(func() error { _, err := k.Attest(ctx, o, claim); return err })
			if res != "ok" {
				out.Violate("attestation: Attest failed: " + firstLine(res))
				return
			}
			att := k.GetAttestation(ctx, nonce, claim.ClaimHash())
			if att != nil && att.Observed {
				observed = true
				after := dumpKV(ctx, e.keys)
				cats := categories(diffKV(pre, after), e.chain)
				f := "-"
				okw := "ok"
				if fails {
					f = fmt.Sprint(e.rng.Intn(3))
					okw = "fail"
				}
				if hcat == "bridgeDenom" || fails {
					out.Emit(fmt.Sprintf("att 1 %s", f), "cats="+joinOrDash(cats)) // composition compiled from the call lists (Model/C18)
				}
				out.Emit(fmt.Sprintf("patt %s %s", hcat, okw), "flow=brk cats="+joinOrDash(cats)) // regenerated program (Model/C18P)
				out.Count("att:" + kind)
				out.Count("att:claim:" + strings.TrimPrefix(fmt.Sprintf("%T", claim), "*types."))
				out.Nontrivial(fmt.Sprintf("att|%s|oracles=%d", kind, nOracles))
				if fails {
					if extra := diffKV(after, designated); len(extra) > 0 {
						out.Violate(fmt.Sprintf("attestation: handler failed (%s), state differs from observed-mark-only in %s", kind, joinOrDash(categories(extra, e.chain))))
					}
				}
				break
			}
		}
		if !observed {
			out.Violate("attestation: event not observed after all votes (" + kind + ")")
		}
	})
}

// ---------------------------------------------------------------------------------------------------------
// boundary 4: IBC packet whose follow-up fails

var ibcScenarios = []string{
	"ok-bridged", "ok-fx-call", "ok-fx-nojson", "ok-bridged-call",
	"foreign", "apperr-disabled", "bech-nonfx", "disabledpair",
	"callrevert-bridged", "callstorerevert-bridged", "callinvalid-bridged", "calloog-bridged", "callinsufficient-bridged",
	"callrevert-fx", "callinvalid-fx", "calloog-fx", "callinsufficient-fx", "callnosender-fx", "badmemo-fx",
}

func (e *env) runIBC(out *hx.Out) {
	for _, sc := range ibcScenarios {
		e.ibc(out, sc, false)
		e.ibc(out, sc, true)
	}
	// every revert payload shape over the rounds, through the mimicked and the real core in turn
	for j, sh := range e.shapesOfRound() {
		kind := []string{"bridged", "fx"}[(j+e.round)%2]
		e.ibc(out, "callshape-"+kind+":"+sh, (j+e.round/2)%2 == 0)
	}
	e.ibc(out, "callbadjump-fx", e.round%2 == 0)
}

// shapesOfRound: the empty reason always, two more shapes round-robin (every shape every four rounds)
func (e *env) shapesOfRound() []string {
	var rest []string
	for _, s := range revertShapes {
		if s.name != "error-empty" {
			rest = append(rest, s.name)
		}
	}
	out := []string{"error-empty", rest[(2*e.round)%len(rest)], rest[(2*e.round+1)%len(rest)]}
	if hx.Tier() != "quick" {
		out = append([]string{"error-empty"}, rest...)
	}
	return out
}

// coreChannel sets up a channel pair over the 09-localhost client / sentinel localhost connection of this chain, so
// that the REAL ibc-go core RecvPacket (proof verification against this chain's own store, replay protection, the
// cache around the application callback, WriteAcknowledgement) can be run: transfer/<src> -> transfer/<dst>.
func (e *env) coreChannel(ctx sdk.Context) (port, src, dst string) {
	s := e.s
	ik := s.App.IBCKeeper
	port = transfertypes.PortID
	params := ik.ClientKeeper.GetParams(ctx)
	allowed := false
	for _, c := range params.AllowedClients {
		if c == exported.Localhost || c == "*" {
			allowed = true
		}
	}
	if !allowed {
		params.AllowedClients = append(params.AllowedClients, exported.Localhost)
		ik.ClientKeeper.SetParams(ctx, params)
	}
	if _, ok := ik.ClientKeeper.GetClientState(ctx, exported.LocalhostClientID); !ok {
		if err := ik.ClientKeeper.CreateLocalhostClient(ctx); err != nil {
			panic(err)
		}
	}
	ik.ConnectionKeeper.CreateSentinelLocalhostConnection(ctx)
	seq := ik.ChannelKeeper.GetNextChannelSequence(ctx)
	src = fmt.Sprintf("channel-%d", seq)
	dst = fmt.Sprintf("channel-%d", seq+1)
	ik.ChannelKeeper.SetNextChannelSequence(ctx, seq+2)
	for _, pr := range [][2]string{{src, dst}, {dst, src}} {
		ch := channeltypes.NewChannel(channeltypes.OPEN, channeltypes.UNORDERED, channeltypes.NewCounterparty(port, pr[1]), []string{exported.LocalhostConnectionID}, transfertypes.Version)
		ik.ChannelKeeper.SetChannel(ctx, port, pr[0], ch)
		ik.ChannelKeeper.SetNextSequenceSend(ctx, port, pr[0], 1)
		ik.ChannelKeeper.SetNextSequenceRecv(ctx, port, pr[0], 1)
		ik.ChannelKeeper.SetNextSequenceAck(ctx, port, pr[0], 1)
		cap, err := s.App.ScopedIBCKeeper.NewCapability(ctx, host.ChannelCapabilityPath(port, pr[0]))
		if err != nil {
			panic(err)
		}
		if err := s.App.ScopedTransferKeeper.ClaimCapability(ctx, capabilitytypes.NewCapability(cap.Index), host.ChannelCapabilityPath(port, pr[0])); err != nil {
			panic(err)
		}
	}
	return port, src, dst
}

func (e *env) ibc(out *hx.Out, sc string, core bool) {
	e.branch(func(ctx sdk.Context) {
		s := e.s
		var port, srcCh, ch string
		if core {
			port, srcCh, ch = e.coreChannel(ctx)
		} else {
			port, ch = s.GenIBCTransferChannel()
			srcCh = ch
		}
		amount := sdkmath.NewInt(int64(1 + e.rng.Intn(1000)))
		recvHex := e.randAddr()
		receiver := recvHex.Hex()
		denom := ""
		memo := ""
		target := e.randAddr()
		callValue := sdkmath.ZeroInt()
		senderExists := true
		gasCap := int64(0)
		mk := func(code []byte) string {
			if err := s.App.EvmKeeper.CreateContractWithCode(ctx, target, code); err != nil {
				panic(err)
			}
			is := ibcmwtypes.IntermediateSender(port, srcCh, "cosmos1remotesender")
			if senderExists {
				s.MintToken(is.Bytes(), sdk.NewCoin(fxtypes.DefaultDenom, sdkmath.NewInt(1))) // CallEVM needs the sender account to exist
			}
			bz, err := s.App.AppCodec().MarshalInterfaceJSON(&ibcmwtypes.IbcCallEvmPacket{To: target.Hex(), Value: callValue, Data: ""})
			if err != nil {
				panic(err)
			}
			return string(bz)
		}
		var pairDenom string
		bridged := func() string {
			e.ntok++
			base := fmt.Sprintf("ibt%d%c", e.ntok, 'a'+rune(e.rng.Intn(26)))
			ibcDenom := transfertypes.ParseDenomTrace(fmt.Sprintf("%s/%s/u%s", port, ch, base)).IBCDenom()
			// the transfer application sets bank metadata for every voucher it mints, so ManyToOne resolves the voucher denom to
			// itself: the ERC-20 pair has to be registered on the voucher denom
			s.AddTokenPair(ibcDenom, true)
			pairDenom = ibcDenom
			return "u" + base
		}
		fx := func() string {
			esc := transfertypes.GetEscrowAddress(port, ch)
			s.MintToken(esc, sdk.NewCoin(fxtypes.DefaultDenom, amount.MulRaw(2)))
			s.App.IBCTransferKeeper.SetTotalEscrowForDenom(ctx, sdk.NewCoin(fxtypes.DefaultDenom, amount.MulRaw(2)))
			return fmt.Sprintf("%s/%s/%s", port, srcCh, fxtypes.DefaultDenom)
		}
		// model parameters: transfer application, fx coin?, hex receiver?, conversion, memo, call
		mApp, mFx, mEvm, mConv, mMemo, mCall := "ok", false, true, "ok", "none", "-"
		expectFail := true
		switch sc {
		case "ok-bridged":
			denom, expectFail = bridged(), false
		case "ok-bridged-call":
			denom, memo, expectFail = bridged(), mk(codeStoreSuccess), false
			mMemo, mCall = "call", "ok"
		case "ok-fx-call":
			denom, memo, expectFail = fx(), mk(codeStoreSuccess), false
			mFx, mConv, mMemo, mCall = true, "-", "call", "ok"
		case "ok-fx-nojson":
			denom, memo, expectFail = fx(), "hello, not a call", false // a memo that is not an ibc-call packet: tolerated, no call
			mFx, mConv, mMemo = true, "-", "nojson"
		case "foreign":
			denom = "uforeign" // voucher without ERC-20 pair: the conversion fails after the transfer application minted
			mConv = "err"
		case "apperr-disabled":
			denom = bridged()
			s.App.IBCTransferKeeper.SetParams(ctx, transfertypes.Params{SendEnabled: true, ReceiveEnabled: false})
			mApp, mConv = "err", "-"
		case "bech-nonfx":
			denom, receiver = bridged(), sdk.AccAddress(recvHex.Bytes()).String()
			mEvm, mConv = false, "-"
		case "disabledpair":
			denom = bridged()
			pair, ok := s.App.Erc20Keeper.GetTokenPair(ctx, pairDenom)
			if !ok {
				panic("pair")
			}
			pair.Enabled = false
			s.App.Erc20Keeper.SetTokenPair(ctx, pair)
			mConv = "err"
		case "callrevert-bridged":
			denom, memo = bridged(), mk(codeRevert)
			mMemo, mCall = "call", "revert"
		case "callstorerevert-bridged":
			denom, memo = bridged(), mk(codeStoreRevert)
			mMemo, mCall = "call", "revert"
		case "callinvalid-bridged":
			denom, memo = bridged(), mk(codeInvalid)
			mMemo, mCall = "call", "invalid"
		case "calloog-bridged":
			denom, memo = bridged(), mk(codeStoreLoop)
			mMemo, mCall = "call", "oog"
			gasCap = []int64{30_000, 100_000, 1_000_000}[e.rng.Intn(3)]
		case "callinsufficient-bridged":
			callValue = sdkmath.NewInt(1_000_000)
			denom, memo = bridged(), mk(codeStoreSuccess)
			mMemo, mCall = "call", "insufficient"
		case "callrevert-fx":
			denom, memo = fx(), mk(codeRevert)
			mFx, mConv, mMemo, mCall = true, "-", "call", "revert"
		case "callinvalid-fx":
			denom, memo = fx(), mk(codeInvalid)
			mFx, mConv, mMemo, mCall = true, "-", "call", "invalid"
		case "calloog-fx":
			denom, memo = fx(), mk(codeStoreLoop)
			mFx, mConv, mMemo, mCall = true, "-", "call", "oog"
			gasCap = []int64{30_000, 100_000, 1_000_000}[e.rng.Intn(3)]
		case "callinsufficient-fx":
			callValue = sdkmath.NewInt(1_000_000)
			denom, memo = fx(), mk(codeStoreSuccess)
			mFx, mConv, mMemo, mCall = true, "-", "call", "insufficient"
		case "callnosender-fx":
			senderExists = false // CallEVM itself returns an error (no account for the intermediate sender)
			denom, memo = fx(), mk(codeStoreSuccess)
			mFx, mConv, mMemo, mCall = true, "-", "call", "err"
		case "callbadjump-fx":
			denom, memo = fx(), mk(codeBadJump)
			mFx, mConv, mMemo, mCall = true, "-", "call", "shape:badjump"
		case "badmemo-fx":
			denom = fx()
			bz, err := s.App.AppCodec().MarshalInterfaceJSON(&ibcmwtypes.IbcCallEvmPacket{To: "not-an-address", Value: sdkmath.ZeroInt(), Data: ""})
			if err != nil {
				panic(err)
			}
			memo = string(bz)
			mFx, mConv, mMemo = true, "-", "invalid"
		default:
			var kind, sh string
			if i := strings.IndexByte(sc, ':'); i > 0 && strings.HasPrefix(sc, "callshape-") {
				kind, sh = sc[len("callshape-"):i], sc[i+1:]
			} else {
				panic("unknown ibc scenario " + sc)
			}
			code := codeRevertWith(shapeByName(sh).payload, e.rng.Intn(2) == 0)
			if kind == "fx" {
				denom, memo = fx(), mk(code)
				mFx, mConv = true, "-"
			} else {
				denom, memo = bridged(), mk(code)
			}
			mMemo, mCall = "call", "shape:"+sh
		}
		origCp := ctx.ConsensusParams()
		if gasCap > 0 {
			cp := ctx.ConsensusParams()
			nb := cmtproto.BlockParams{MaxBytes: 1 << 20}
			if cp.Block != nil {
				nb = *cp.Block
			}
			nb.MaxGas = gasCap
			cp.Block = &nb
			ctx = ctx.WithConsensusParams(cp)
		}
		data := transfertypes.NewFungibleTokenPacketData(denom, amount.String(), "cosmos1remotesender", receiver, memo)
		seq := uint64(1 + e.rng.Intn(100))
		packet := channeltypes.NewPacket(data.GetBytes(), seq, port, srcCh, port, ch, clienttypes.NewHeight(100, 100000), 0)
		parent := ctx
		bctx, _ := parent.CacheContext() // sibling branch of the same pre-state for the designated outcome
		ctx, _ = parent.CacheContext()
		successAck := channeltypes.CommitAcknowledgement(channeltypes.NewResultAcknowledgement([]byte{byte(1)}).Acknowledgement())
		var ackHash []byte
		ackOK, ackNone := false, false
		if core {
			// the counterparty end committed the packet; core verifies that commitment through the localhost client
			s.App.IBCKeeper.ChannelKeeper.SetPacketCommitment(ctx, port, srcCh, seq, channeltypes.CommitPacket(s.App.AppCodec(), packet))
			s.App.IBCKeeper.ChannelKeeper.SetPacketCommitment(bctx, port, srcCh, seq, channeltypes.CommitPacket(s.App.AppCodec(), packet))
			relayer := sdk.AccAddress(e.randAddr().Bytes())
			res := hx.Try(func() error {
				_, err := s.App.IBCKeeper.RecvPacket(ctx, &channeltypes.MsgRecvPacket{Packet: packet, ProofCommitment: localhost.SentinelProof, ProofHeight: clienttypes.NewHeight(0, uint64(ctx.BlockHeight())), Signer: relayer.String()})
				return err
			})
			if res != "ok" {
				out.Violate("ibc-recv: core RecvPacket returned an error (" + sc + "): " + firstLine(res))
				return
			}
			var found bool
			ackHash, found = s.App.IBCKeeper.ChannelKeeper.GetPacketAcknowledgement(ctx, port, ch, seq)
			if !found {
				ackNone, ackHash = true, nil // the callback handed back no acknowledgement (asynchronous): core committed its branch
			}
			ackOK = found && string(ackHash) == string(successAck)
			// designated: replay protection receipt + the acknowledgement
			s.App.IBCKeeper.ChannelKeeper.SetPacketReceipt(bctx, port, ch, seq)
		} else {
			mod, ok := s.App.IBCKeeper.Router.GetRoute(transfertypes.ModuleName)
			if !ok {
				panic("no transfer route")
			}
			// IBC core mimicked: callback on a cache branch, committed only on a successful acknowledgement
			cctx, write := ctx.CacheContext()
			ack := mod.OnRecvPacket(cctx, packet, sdk.AccAddress(e.randAddr().Bytes()))
			if ack == nil || ack.Success() {
				write()
			}
			if ack == nil {
				ackNone = true // asynchronous acknowledgement: nothing is written now
			} else {
				ackOK = ack.Success()
				ackHash = channeltypes.CommitAcknowledgement(ack.Acknowledgement())
				s.App.IBCKeeper.ChannelKeeper.SetPacketAcknowledgement(ctx, port, ch, seq, ackHash)
			}
		}
		after := dumpKV(ctx, e.keys)
		ctx = ctx.WithConsensusParams(origCp)
		if !ackNone {
			s.App.IBCKeeper.ChannelKeeper.SetPacketAcknowledgement(bctx, port, ch, seq, ackHash)
		}
		designated := dumpKV(bctx, e.keys)
		extra := diffKV(after, designated)
		marks := []string{}
		f := "-"
		if ackOK {
			marks = append(marks, "ack=ok")
		} else {
			marks = append(marks, "ack=err")
			f = fmt.Sprint(e.rng.Intn(3))
		}
		if len(extra) > 0 {
			marks = append(marks, "app")
		}
		sort.Strings(marks)
		out.Emit(fmt.Sprintf("ibc 2 %s", f), "marks="+strings.Join(marks, ","))
		// the regenerated program: which leaves' effects are in the state afterwards
		b01 := func(b bool) int {
			if b {
				return 1
			}
			return 0
		}
		appW, ercW, slotW := false, false, false
		for _, k := range extra {
			if strings.HasPrefix(k, "bank/") {
				appW = true
			}
		}
		if pairDenom != "" {
			if pair, ok := s.App.Erc20Keeper.GetTokenPair(ctx, pairDenom); ok {
				if b, err := s.App.EvmKeeper.ERC20BalanceOf(ctx, pair.GetERC20Contract(), recvHex); err == nil && b.Sign() > 0 {
					ercW = true
				}
			}
		}
		if s.App.EvmKeeper.GetState(ctx, target, common.Hash{}) != (common.Hash{}) {
			slotW = true
		}
		ackS := map[bool]string{true: "ok", false: "err"}[ackOK]
		if ackNone {
			ackS = "none"
			out.Count("ibc:async-ack")
		}
		out.Emit(fmt.Sprintf("pibc %s %d %d %s %s %s", mApp, b01(mFx), b01(mEvm), mConv, mMemo, mCall),
			fmt.Sprintf("flow=nil ack=%s recv=1 app=%d erc=%d slot=%d", ackS, b01(appW), b01(ercW), b01(slotW)))
		out.Count("ibc:" + sc)
		out.Count("ibc:core=" + fmt.Sprint(core))
		out.Nontrivial(fmt.Sprintf("ibc|%s|core=%v", sc, core))
		if ackNone {
			// the fx transfer stack acknowledges synchronously (Props.C18.callback_never_returns_nil); a missing acknowledgement
			// makes core COMMIT the callback's branch — after a failure that is exactly the partial state the property excludes
			if expectFail {
				out.Violate("ibc-recv: follow-up failed (" + sc + ") but NO acknowledgement was returned (asynchronous): core committed the branch of the failed sub-step, writes: " + joinOrDash(categories(extra, e.chain)))
			} else {
				out.Violate("ibc-recv: scenario " + sc + " succeeded but no acknowledgement was written (asynchronous acknowledgement from the fx transfer stack)")
			}
			return
		}
		if expectFail && ackOK {
			out.Violate("ibc-recv: follow-up failed (" + sc + ") but a success acknowledgement was returned, writes committed: " + joinOrDash(categories(extra, e.chain)))
		}
		if !ackOK && len(extra) > 0 {
			out.Violate("ibc-recv: error acknowledgement (" + sc + ") but state differs from acknowledgement-only in " + joinOrDash(categories(extra, e.chain)))
		}
		if !expectFail && !ackOK {
			out.Violate("ibc-recv: harness scenario " + sc + " expected to succeed but got an error acknowledgement")
		}
	})
}

// ---------------------------------------------------------------------------------------------------------
// boundary 3: passed proposal whose message fails

var govFailKinds = []string{"overdrawn", "evmrevert", "evmstorerevert", "evminvalid", "evmoog", "nocontract", "panic",
	"evmshape:error-empty", "evmshape:error-text", "evmshape:panic", "evmshape:custom", "evmshape:malformed", "evmshape:error-long", "evmbadjump"}

// govShapeCode: the code of a failing contract of kind "evmshape:<shape>" / "evmbadjump" (nil when the kind is another one)
func (e *env) govShapeCode(kind string) []byte {
	if kind == "evmbadjump" {
		return codeBadJump
	}
	if strings.HasPrefix(kind, "evmshape:") {
		return codeRevertWith(shapeByName(strings.TrimPrefix(kind, "evmshape:")).payload, e.rng.Intn(2) == 0)
	}
	return nil
}

func (e *env) runGov(out *hx.Out) {
	n := 1 + e.rng.Intn(4)
	kind := func() string { return govFailKinds[e.rng.Intn(len(govFailKinds))] }
	e.gov(out, n, -1, "")
	e.gov(out, n, 0, kind())
	e.gov(out, n, n-1, kind())
	if n > 2 {
		e.gov(out, n, 1+e.rng.Intn(n-2), kind())
	}
	// three messages, the failure at the first / the middle / the last one, every failure kind over the rounds
	k := govFailKinds[e.round%len(govFailKinds)]
	for idx := 0; idx < 3; idx++ {
		e.gov(out, 3, idx, k)
	}
	// a contract that reverts with an EMPTY reason, at the first / middle / last message over the rounds
	e.gov(out, 3, e.round%3, "evmshape:error-empty")
}

// gov runs the same pre-state twice: proposal A = n messages executed by the gov account (bank sends and contract calls
// that write a storage slot), the one at failIdx failing AFTER the earlier messages have written (overdrawn send,
// reverting / invalid / out-of-gas contract, call to an address without code); proposal B = a single overdrawn send
// (fails with no write at all: its outcome is the designated one).  Everything except the proposal record itself must
// be identical afterwards.
func (e *env) gov(out *hx.Out, n, failIdx int, failKind string) {
	s := e.s
	govAcc := authtypes.NewModuleAddress(govtypes.ModuleName)
	lastReason := ""
	build := func(ctx sdk.Context, msgs []sdk.Msg) (kvDump, govv1.ProposalStatus, bool) {
		gk := s.App.GovKeeper
		proposer := sdk.AccAddress(s.ValAddr[0])
		params, err := gk.Params.Get(ctx)
		if err != nil {
			panic(err)
		}
		dep := sdk.NewCoins(params.MinDeposit...).MulInt(sdkmath.NewInt(100))
		s.MintToken(proposer, dep...)
		p, err := gk.Keeper.SubmitProposal(ctx, msgs, "", "t", "s", proposer, false)
		if err != nil {
			return nil, 0, false
		}
		if _, err := gk.Keeper.AddDeposit(ctx, p.Id, proposer, dep); err != nil {
			return nil, 0, false
		}
		for _, v := range s.ValAddr {
			if err := gk.Keeper.AddVote(ctx, p.Id, sdk.AccAddress(v), govv1.NewNonSplitVoteOption(govv1.OptionYes), ""); err != nil {
				return nil, 0, false
			}
		}
		p2, err := gk.Keeper.Proposals.Get(ctx, p.Id)
		if err != nil || p2.VotingEndTime == nil {
			return nil, 0, false
		}
		ectx := ctx.WithBlockTime(p2.VotingEndTime.Add(time.Second))
		cp := ectx.ConsensusParams()
		nb := cmtproto.BlockParams{MaxBytes: 1 << 20}
		if cp.Block != nil {
			nb = *cp.Block
		}
		nb.MaxGas = 400_000 // keeps the out-of-gas contract short
		cp.Block = &nb
		ectx = ectx.WithConsensusParams(cp)
		if res := hx.Try(func() error { return fxgov.EndBlocker(ectx, gk) }); res != "ok" {
			lastReason = "EndBlocker: " + firstLine(res)
			return nil, 0, false
		}
		p3, err := gk.Keeper.Proposals.Get(ctx, p.Id)
		if err != nil {
			return nil, 0, false
		}
		lastReason = p3.FailedReason
		d := dumpKV(ctx, e.keys)
		return d, p3.Status, true
	}
	e.branch(func(ctx sdk.Context) {
		s.MintToken(govAcc, sdk.NewCoin(fxtypes.DefaultDenom, sdkmath.NewInt(1_000_000)))
		var recipients []sdk.AccAddress
		var okContracts []common.Address
		send := func(amt int64, track bool) sdk.Msg {
			to := sdk.AccAddress(e.randAddr().Bytes())
			if track {
				recipients = append(recipients, to)
			}
			a := sdkmath.NewInt(amt)
			if !track {
				a = sdkmath.NewIntWithDecimal(1, 40) // overdrawn whatever the gov account holds
			}
			return &banktypes.MsgSend{FromAddress: govAcc.String(), ToAddress: to.String(), Amount: sdk.NewCoins(sdk.NewCoin(fxtypes.DefaultDenom, a))}
		}
		call := func(code []byte) sdk.Msg {
			target := e.randAddr()
			if code != nil {
				if err := s.App.EvmKeeper.CreateContractWithCode(ctx, target, code); err != nil {
					panic(err)
				}
			}
			return &fxevmtypes.MsgCallContract{Authority: govAcc.String(), ContractAddress: target.Hex(), Data: "00"}
		}
		var msgsA []sdk.Msg
		for i := 0; i < n; i++ {
			if i != failIdx {
				if e.rng.Intn(3) == 0 { // a successful contract call that writes storage
					m := call(codeStoreSuccess).(*fxevmtypes.MsgCallContract)
					okContracts = append(okContracts, common.HexToAddress(m.ContractAddress))
					msgsA = append(msgsA, m)
				} else {
					msgsA = append(msgsA, send(int64(1+e.rng.Intn(1000)), true))
				}
				continue
			}
			switch failKind {
			case "overdrawn":
				msgsA = append(msgsA, send(1_000_000_000_000, false))
			case "evmrevert":
				msgsA = append(msgsA, call(codeRevert))
			case "evmstorerevert":
				msgsA = append(msgsA, call(codeStoreRevert))
			case "evminvalid":
				msgsA = append(msgsA, call(codeInvalid))
			case "evmoog":
				msgsA = append(msgsA, call(codeStoreLoop))
			case "nocontract":
				msgsA = append(msgsA, call(nil))
			case "panic":
				// MsgVerifyInvariant pays the constant fee (a write) and then PANICS when the invariant is broken: a deposit
				// record larger than the gov account's balance breaks gov/module-account
				fee, err := s.App.CrisisKeeper.ConstantFee.Get(ctx)
				if err != nil {
					panic(err)
				}
				s.MintToken(govAcc, fee)
				ghost := sdk.AccAddress(e.randAddr().Bytes())
				huge := sdk.NewCoins(sdk.NewCoin(fxtypes.DefaultDenom, sdkmath.NewIntWithDecimal(1, 40)))
				if err := s.App.GovKeeper.Keeper.Deposits.Set(ctx, collections.Join(uint64(1<<40), ghost), govv1.Deposit{ProposalId: 1 << 40, Depositor: ghost.String(), Amount: huge}); err != nil {
					panic(err)
				}
				msgsA = append(msgsA, &crisistypes.MsgVerifyInvariant{Sender: govAcc.String(), InvariantModuleName: govtypes.ModuleName, InvariantRoute: "module-account"})
			default:
				code := e.govShapeCode(failKind)
				if code == nil {
					panic("unknown gov failure kind " + failKind)
				}
				msgsA = append(msgsA, call(code))
			}
		}
		actx, _ := ctx.CacheContext()
		bctx, _ := ctx.CacheContext()
		saved := s.Ctx
		s.Ctx = actx
		da, sa, okA := build(actx, msgsA)
		reasonA := lastReason
		s.Ctx = bctx
		db, sb, okB := build(bctx, []sdk.Msg{send(1_000_000_000_000, false)})
		s.Ctx = saved
		if !okA && strings.HasPrefix(reasonA, "EndBlocker: ") {
			out.Violate(fmt.Sprintf("gov: message %d of %d failed (%s) and the failure was not tolerated, %s", failIdx+1, n, failKind, reasonA))
			return
		}
		if !okA || !okB {
			out.Count("gov:setup-failed")
			return
		}
		var extra []string
		for _, k := range diffKV(da, db) {
			if strings.HasPrefix(k, "gov/") {
				continue // the proposal record itself (messages, failed reason, status) and its indexes
			}
			extra = append(extra, k)
		}
		f := "-"
		if failIdx >= 0 {
			f = fmt.Sprint(failIdx)
		}
		status := map[govv1.ProposalStatus]string{govv1.StatusFailed: "failed", govv1.StatusPassed: "passed"}[sa]
		marks := []string{"status=" + status}
		if len(extra) > 0 {
			marks = append(marks, "msgs")
		}
		sort.Strings(marks)
		out.Emit(fmt.Sprintf("gov %d %s", n, f), "marks="+strings.Join(marks, ","))
		// the regenerated program: how many of the messages' effects are in the state afterwards
		paid := 0
		for _, r := range recipients {
			if s.App.BankKeeper.GetBalance(actx, r, fxtypes.DefaultDenom).IsPositive() {
				paid++
			}
		}
		for _, c := range okContracts {
			if s.App.EvmKeeper.GetState(actx, c, common.Hash{}) != (common.Hash{}) {
				paid++
			}
		}
		stored := 0
		if sa == govv1.StatusFailed || sa == govv1.StatusPassed || sa == govv1.StatusRejected {
			stored = 1
		}
		pk := "err"
		if failKind == "panic" {
			pk = "panic"
		}
		out.Emit(fmt.Sprintf("pgov %d %s %s", n, f, pk), fmt.Sprintf("flow=nil status=%s stored=%d paid=%d", status, stored, paid))
		pos := "none"
		if failIdx >= 0 {
			pos = map[bool]string{true: "first", false: "middle"}[failIdx == 0]
			if failIdx == n-1 && n > 1 {
				pos = "last"
			}
			if n == 1 {
				pos = "only"
			}
			out.Count("gov:kind:" + failKind)
			if strings.Contains(reasonA, "PANICKED") {
				out.Count("gov:recovered-panic")
			} else if failKind == "panic" {
				out.Violate("gov: harness scenario panic: the message did not panic: " + firstLine(reasonA))
			}
		}
		out.Count("gov:" + pos)
		out.Nontrivial(fmt.Sprintf("gov|n=%d|fail=%s|%s", n, pos, failKind))
		if sb != govv1.StatusFailed {
			out.Violate("gov: reference proposal (single overdrawn send) did not end as failed")
		}
		if failIdx >= 0 {
			if sa != govv1.StatusFailed {
				out.Violate(fmt.Sprintf("gov: message %d of %d failed (%s) but proposal status is %s", failIdx+1, n, failKind, sa))
			}
			if len(extra) > 0 {
				out.Violate(fmt.Sprintf("gov: message %d of %d failed (%s), state differs from status-failed-only in %s", failIdx+1, n, failKind, joinOrDash(categories(extra, e.chain))))
			}
		} else if sa != govv1.StatusPassed {
			out.Violate(fmt.Sprintf("gov: harness proposal with %d valid messages did not pass: %s", n, sa))
		}
	})
}

// ---------------------------------------------------------------------------------------------------------
// boundary 3, a BLOCK of proposals: several proposals whose voting period ends in the same block, in every order

type govSpec struct {
	n, failIdx int
	kind       string
	hook       string // "" | "ok" | "fail": what the harness-registered AfterProposalVotingPeriodEnded hook does for this proposal
}

func (e *env) runGovBlocks(out *hx.Out) {
	kind := func() string { return govFailKinds[e.rng.Intn(len(govFailKinds))] }
	n := func() int { return 1 + e.rng.Intn(3) }
	pos := func(n int) int { return []int{0, n / 2, n - 1}[(e.round+e.rng.Intn(3))%3] } // first / middle / last
	fail := func() govSpec { m := n(); return govSpec{n: m, failIdx: pos(m), kind: kind()} }
	pass := func() govSpec { return govSpec{n: n(), failIdx: -1} }
	e.govBlock(out, []govSpec{fail(), pass()})         // fail, then pass
	e.govBlock(out, []govSpec{pass(), fail()})         // pass, then fail
	e.govBlock(out, []govSpec{fail(), fail()})         // fail, fail
	e.govBlock(out, []govSpec{fail(), pass(), fail()}) // three proposals
	three := []govSpec{pass(), fail(), pass()}
	e.rng.Shuffle(3, func(i, j int) { three[i], three[j] = three[j], three[i] })
	e.govBlock(out, three)
}

// govBlock submits all proposals in the same block (same voting end time; EndBlocker walks them in id order) and runs
// ONE EndBlocker.  Reference run on a sibling branch: every proposal expected to fail is replaced by a single overdrawn
// send (fails without any write), the others are identical.  Everything except the proposal records must be equal:
// state after = designated outcome of each failed proposal + effects of each passed one.
func (e *env) govBlock(out *hx.Out, specs []govSpec) {
	s := e.s
	govAcc := authtypes.NewModuleAddress(govtypes.ModuleName)
	e.branch(func(ctx sdk.Context) {
		s.MintToken(govAcc, sdk.NewCoin(fxtypes.DefaultDenom, sdkmath.NewInt(1_000_000)))
		overdrawn := func() sdk.Msg {
			return &banktypes.MsgSend{FromAddress: govAcc.String(), ToAddress: sdk.AccAddress(e.randAddr().Bytes()).String(), Amount: sdk.NewCoins(sdk.NewCoin(fxtypes.DefaultDenom, sdkmath.NewIntWithDecimal(1, 40)))}
		}
		call := func(code []byte) *fxevmtypes.MsgCallContract {
			target := e.randAddr()
			if code != nil {
				if err := s.App.EvmKeeper.CreateContractWithCode(ctx, target, code); err != nil {
					panic(err)
				}
			}
			return &fxevmtypes.MsgCallContract{Authority: govAcc.String(), ContractAddress: target.Hex(), Data: "00"}
		}
		type built struct {
			msgs, ref  []sdk.Msg
			recipients []sdk.AccAddress
			contracts  []common.Address
		}
		var props []built
		hooked := false
		hookMarks := make([]sdk.AccAddress, len(specs))
		for i, sp := range specs {
			hookMarks[i] = sdk.AccAddress(e.randAddr().Bytes())
			hooked = hooked || sp.hook != ""
		}
		if hooked {
			e.hook.funder = sdk.AccAddress(e.randAddr().Bytes())
			s.MintToken(e.hook.funder, sdk.NewCoin(fxtypes.DefaultDenom, sdkmath.NewInt(1_000_000)))
		}
		for _, sp := range specs {
			var b built
			for i := 0; i < sp.n; i++ {
				if i != sp.failIdx {
					if e.rng.Intn(3) == 0 {
						m := call(codeStoreSuccess)
						b.contracts = append(b.contracts, common.HexToAddress(m.ContractAddress))
						b.msgs = append(b.msgs, m)
					} else {
						to := sdk.AccAddress(e.randAddr().Bytes())
						b.recipients = append(b.recipients, to)
						b.msgs = append(b.msgs, &banktypes.MsgSend{FromAddress: govAcc.String(), ToAddress: to.String(), Amount: sdk.NewCoins(sdk.NewCoin(fxtypes.DefaultDenom, sdkmath.NewInt(int64(1+e.rng.Intn(1000)))))})
					}
					continue
				}
				switch sp.kind {
				case "overdrawn":
					b.msgs = append(b.msgs, overdrawn())
				case "evmrevert":
					b.msgs = append(b.msgs, call(codeRevert))
				case "evmstorerevert":
					b.msgs = append(b.msgs, call(codeStoreRevert))
				case "evminvalid":
					b.msgs = append(b.msgs, call(codeInvalid))
				case "evmoog":
					b.msgs = append(b.msgs, call(codeStoreLoop))
				case "nocontract":
					b.msgs = append(b.msgs, call(nil))
				case "panic":
					fee, err := s.App.CrisisKeeper.ConstantFee.Get(ctx)
					if err != nil {
						panic(err)
					}
					s.MintToken(govAcc, fee)
					ghost := sdk.AccAddress(e.randAddr().Bytes())
					huge := sdk.NewCoins(sdk.NewCoin(fxtypes.DefaultDenom, sdkmath.NewIntWithDecimal(1, 40)))
					if err := s.App.GovKeeper.Keeper.Deposits.Set(ctx, collections.Join(uint64(1<<40), ghost), govv1.Deposit{ProposalId: 1 << 40, Depositor: ghost.String(), Amount: huge}); err != nil {
						panic(err)
					}
					b.msgs = append(b.msgs, &crisistypes.MsgVerifyInvariant{Sender: govAcc.String(), InvariantModuleName: govtypes.ModuleName, InvariantRoute: "module-account"})
				default:
					code := e.govShapeCode(sp.kind)
					if code == nil {
						panic("unknown gov failure kind " + sp.kind)
					}
					b.msgs = append(b.msgs, call(code))
				}
			}
			b.ref = b.msgs
			if sp.failIdx >= 0 {
				b.ref = []sdk.Msg{overdrawn()}
			}
			props = append(props, b)
		}
		// one block: submit, deposit, vote on every proposal at the same block time, then ONE EndBlocker
		runBlock := func(ctx sdk.Context, pick func(b built) []sdk.Msg, ref bool) (kvDump, []govv1.ProposalStatus, string) {
			gk := s.App.GovKeeper
			e.hook.reset()
			defer e.hook.reset()
			proposer := sdk.AccAddress(s.ValAddr[0])
			params, err := gk.Params.Get(ctx)
			if err != nil {
				panic(err)
			}
			dep := sdk.NewCoins(params.MinDeposit...).MulInt(sdkmath.NewInt(100))
			var ids []uint64
			var end time.Time
			for i, b := range props {
				s.MintToken(proposer, dep...)
				p, err := gk.Keeper.SubmitProposal(ctx, pick(b), "", "t", "s", proposer, false)
				if err != nil {
					return nil, nil, "submit: " + err.Error()
				}
				// the reference run: a failing hook fails WITHOUT writing (its designated outcome)
				if h := specs[i].hook; h == "fail" && ref {
					e.hook.mode[p.Id] = "fail-nowrite"
				} else {
					e.hook.mode[p.Id] = h
				}
				e.hook.mark[p.Id] = hookMarks[i]
				if _, err := gk.Keeper.AddDeposit(ctx, p.Id, proposer, dep); err != nil {
					return nil, nil, "deposit: " + err.Error()
				}
				for _, v := range s.ValAddr {
					if err := gk.Keeper.AddVote(ctx, p.Id, sdk.AccAddress(v), govv1.NewNonSplitVoteOption(govv1.OptionYes), ""); err != nil {
						return nil, nil, "vote: " + err.Error()
					}
				}
				p2, err := gk.Keeper.Proposals.Get(ctx, p.Id)
				if err != nil || p2.VotingEndTime == nil {
					return nil, nil, "no voting end time"
				}
				if p2.VotingEndTime.After(end) {
					end = *p2.VotingEndTime
				}
				ids = append(ids, p.Id)
			}
			ectx := ctx.WithBlockTime(end.Add(time.Second))
			cp := ectx.ConsensusParams()
			nb := cmtproto.BlockParams{MaxBytes: 1 << 20}
			if cp.Block != nil {
				nb = *cp.Block
			}
			nb.MaxGas = 400_000
			cp.Block = &nb
			ectx = ectx.WithConsensusParams(cp)
			if res := hx.Try(func() error { return fxgov.EndBlocker(ectx, gk) }); res != "ok" {
				return nil, nil, "EndBlocker: " + firstLine(res)
			}
			var sts []govv1.ProposalStatus
			for _, id := range ids {
				p3, err := gk.Keeper.Proposals.Get(ctx, id)
				if err != nil {
					return nil, nil, "proposal lost"
				}
				sts = append(sts, p3.Status)
			}
			return dumpKV(ctx, e.keys), sts, ""
		}
		actx, _ := ctx.CacheContext()
		bctx, _ := ctx.CacheContext()
		saved := s.Ctx
		s.Ctx = actx
		da, sa, errA := runBlock(actx, func(b built) []sdk.Msg { return b.msgs }, false)
		s.Ctx = bctx
		db, sb, errB := runBlock(bctx, func(b built) []sdk.Msg { return b.ref }, true)
		s.Ctx = saved
		var shape []string
		for _, sp := range specs {
			if sp.failIdx >= 0 {
				shape = append(shape, "fail")
			} else {
				shape = append(shape, "pass")
			}
		}
		desc := strings.Join(shape, ",")
		if strings.HasPrefix(errA, "EndBlocker: ") {
			out.Violate(fmt.Sprintf("gov-block: proposals [%s] ending in the same block: a failing message was not tolerated, %s", desc, errA))
			return
		}
		if errA != "" || errB != "" {
			out.Count("govblock:setup-failed")
			return
		}
		var extra []string
		for _, k := range diffKV(da, db) {
			if strings.HasPrefix(k, "gov/") {
				continue
			}
			extra = append(extra, k)
		}
		var opw, obs []string
		stName := map[govv1.ProposalStatus]string{govv1.StatusFailed: "failed", govv1.StatusPassed: "passed", govv1.StatusRejected: "rejected"}
		for i, sp := range specs {
			f, k := "-", "err"
			if sp.failIdx >= 0 {
				f = fmt.Sprint(sp.failIdx)
			}
			if sp.kind == "panic" {
				k = "panic"
			}
			hk := sp.hook
			if hk == "" {
				hk = "-"
			}
			if hooked {
				opw = append(opw, fmt.Sprintf("%d:%s:%s:%s", sp.n, f, k, hk))
				desc2 := map[bool]string{true: "msgfail", false: "msgok"}[sp.failIdx >= 0]
				out.Count("govhook:active:" + hk + ":" + desc2)
			} else {
				opw = append(opw, fmt.Sprintf("%d:%s:%s", sp.n, f, k))
			}
			paid := 0
			for _, r := range props[i].recipients {
				if s.App.BankKeeper.GetBalance(actx, r, fxtypes.DefaultDenom).IsPositive() {
					paid++
				}
			}
			for _, c := range props[i].contracts {
				if s.App.EvmKeeper.GetState(actx, c, common.Hash{}) != (common.Hash{}) {
					paid++
				}
			}
			if hooked {
				hw := s.App.BankKeeper.GetBalance(actx, hookMarks[i], fxtypes.DefaultDenom).IsPositive()
				obs = append(obs, fmt.Sprintf("%s:%d:%s", stName[sa[i]], paid, map[bool]string{true: "1", false: "0"}[hw]))
				if sp.hook == "ok" && !hw {
					out.Violate(fmt.Sprintf("gov-block: proposals [%s]: the writes of the SUCCESSFUL AfterProposalVotingPeriodEnded hook of proposal %d are not in the state", desc, i+1))
				}
			} else {
				obs = append(obs, fmt.Sprintf("%s:%d", stName[sa[i]], paid))
			}
			want := govv1.StatusPassed
			if sp.failIdx >= 0 {
				want = govv1.StatusFailed
			}
			if sa[i] != want {
				out.Violate(fmt.Sprintf("gov-block: proposals [%s] ending in the same block: proposal %d of %d ends as %s, expected %s", desc, i+1, len(specs), sa[i], want))
			}
			if sb[i] != want {
				out.Violate(fmt.Sprintf("gov-block: reference block [%s]: proposal %d ends as %s, expected %s", desc, i+1, sb[i], want))
			}
			if sp.failIdx >= 0 {
				out.Count("govblock:kind:" + sp.kind)
			}
		}
		if hooked {
			out.Emit("pgovh "+strings.Join(opw, " "), "flow=nil "+strings.Join(obs, " "))
			var hs []string
			for _, sp := range specs {
				hs = append(hs, map[string]string{"": "-", "ok": "hook-ok", "fail": "hook-fails"}[sp.hook])
			}
			desc += " hooks " + strings.Join(hs, ",")
		} else {
			out.Emit("pgovb "+strings.Join(opw, " "), "flow=nil "+strings.Join(obs, " "))
		}
		out.Count("govblock:" + desc)
		out.Nontrivial("govblock|" + strings.Join(opw, " "))
		if len(extra) > 0 {
			out.Violate(fmt.Sprintf("gov-block: proposals [%s] ending in the same block: state differs from (designated outcome of each failed proposal + effects of each passed one) in %s", desc, joinOrDash(categories(extra, e.chain))))
		}
	})
}

// ---------------------------------------------------------------------------------------------------------
// boundary 2 through the REAL executeClaim precompile: a signed EVM transaction that is included in the block whether
// it fails or not; when the claim handler fails hard the claim must stay pending and nothing must be credited

func (e *env) runXC(out *hx.Out) {
	if e.signer == nil {
		e.signer = e.s.AddTestSigner(1000)
	}
	for _, sc := range []string{"bc-ok", "bc-revert", "bc-unknown-token", "bc-unknown-token", "bc-module-sender", "bc-revert-refund-fails", "stf-ok", "stf-unknown-token"} {
		e.xc(out, sc)
	}
}

func (e *env) xc(out *hx.Out, sc string) {
	e.branch(func(ctx sdk.Context) {
		s := e.s
		const nonce = 11
		ntok := 1 + e.rng.Intn(3)
		var toks []token
		amts := make([]sdkmath.Int, ntok)
		contracts := make([]string, ntok)
		for i := 0; i < ntok; i++ {
			toks = append(toks, e.addToken(e.rng.Intn(2) == 0))
			amts[i] = sdkmath.NewInt(int64(1 + e.rng.Intn(500)))
			contracts[i] = toks[i].contract
		}
		target, sender, refund := e.randAddr(), e.randAddr(), e.randAddr()
		hard := false
		point := sc
		var claim crosschaintypes.ExternalClaim
		switch sc {
		case "bc-ok", "bc-revert", "bc-unknown-token", "bc-module-sender", "bc-revert-refund-fails":
			code := codeStoreSuccess
			if sc == "bc-revert" || sc == "bc-revert-refund-fails" {
				code = codeStoreRevert
			}
			if sc == "bc-revert-refund-fails" {
				// the tolerated failure's own designated outcome cannot be written (no observed external height: no
				// timeout for the refund record): the whole transaction must fail and leave the claim pending
				e.k.SetLastObservedBlockHeight(ctx, 0, uint64(ctx.BlockHeight()))
				hard = true
			}
			if err := s.App.EvmKeeper.CreateContractWithCode(ctx, target, code); err != nil {
				panic(err)
			}
			if sc == "bc-unknown-token" {
				k := e.rng.Intn(ntok) // the tokens before k are already credited when k fails
				contracts[k] = e.ext(e.randAddr())
				hard = true
				point = fmt.Sprintf("%s(token %d of %d)", sc, k+1, ntok)
			}
			if sc == "bc-module-sender" {
				sender = common.BytesToAddress(authtypes.NewModuleAddress(govtypes.ModuleName))
				hard = true
			}
			claim = &crosschaintypes.MsgBridgeCallClaim{
				ChainName: e.chain, BridgerAddress: sdk.AccAddress(e.randAddr().Bytes()).String(), EventNonce: nonce, BlockHeight: 1,
				Sender: e.ext(sender), Refund: e.ext(refund), TokenContracts: contracts, Amounts: amts, To: e.ext(target),
				Data: "", Value: sdkmath.ZeroInt(), Memo: "", TxOrigin: e.ext(e.randAddr()),
			}
		case "stf-ok", "stf-unknown-token":
			c := contracts[0]
			if sc == "stf-unknown-token" {
				c = e.ext(e.randAddr())
				hard = true
			}
			claim = &crosschaintypes.MsgSendToFxClaim{ChainName: e.chain, BridgerAddress: sdk.AccAddress(e.randAddr().Bytes()).String(), EventNonce: nonce, BlockHeight: 1,
				TokenContract: c, Amount: amts[0], Sender: e.ext(sender), Receiver: sdk.AccAddress(target.Bytes()).String()}
		}
		e.k.SavePendingExecuteClaim(ctx, claim)
		cross := crosschaintypes.GetAddress()
		send := func(c sdk.Context, n int64) (string, bool) {
			data, err := crosschaintypes.GetABI().Pack("executeClaim", e.chain, big.NewInt(n))
			if err != nil {
				panic(err)
			}
			tx, err := evmx.SignedTx(c, s.App, e.signer, cross, nil, data, 5_000_000, []common.Address{cross})
			if err != nil {
				panic(err)
			}
			txc, write := c.CacheContext()
			var res string
			failed := false
			r := hx.Try(func() error {
				resp, err := evmx.Send(txc, s.App, tx)
				if err != nil {
					return err
				}
				failed = resp.Failed()
				res = resp.VmError
				return nil
			})
			if r != "ok" {
				return "rejected: " + firstLine(r), false // not included in the block
			}
			write() // the transaction is included, failed or not
			if failed {
				return "failed: " + res, true
			}
			return "ok", true
		}
		actx, _ := ctx.CacheContext()
		bctx, _ := ctx.CacheContext()
		ra, incA := send(actx, nonce)
		rb, incB := send(bctx, 987654321) // reference: the same signer executes a claim that does not exist (fails at once)
		if !incA || !incB || !strings.HasPrefix(rb, "failed") {
			out.Violate(fmt.Sprintf("execute-claim precompile: harness: transaction not included or reference did not fail (%s): %s / %s", sc, ra, rb))
			return
		}
		_, pending := e.k.GetPendingExecuteClaim(actx, nonce)
		extra := diffKV(dumpKV(actx, e.keys), dumpKV(bctx, e.keys))
		written := 0
		if !pending || len(extra) > 0 {
			written = 1
		}
		tag := "ok"
		if strings.HasPrefix(ra, "failed") {
			tag = "failed"
		}
		okw := "ok"
		if hard {
			okw = "fail"
		}
		out.Emit("pxc "+okw, fmt.Sprintf("tx=%s written=%d", tag, written))
		out.Count("xc:" + sc + ":" + tag)
		out.Nontrivial("xc|" + point)
		if hard {
			if tag != "failed" {
				out.Violate(fmt.Sprintf("execute-claim precompile: the claim handler fails hard (%s) but the transaction succeeded", point))
			}
			if !pending || len(extra) > 0 {
				out.Violate(fmt.Sprintf("execute-claim precompile: failed executeClaim transaction (%s) is included in the block and leaves writes of the failed claim handler: claim pending=%v, differing=%s (the claim must stay pending and nothing be credited)", point, pending, joinOrDash(categories(extra, e.chain))))
			}
		} else if tag != "ok" || pending {
			out.Violate(fmt.Sprintf("execute-claim precompile: harness scenario %s expected to succeed: %s pending=%v", sc, ra, pending))
		}
	})
}
