// Package hx is the shared base of the correspondence harness: it boots the real, full in-process
// fxcore application (testutil/helpers.BaseSuite: real bank, staking, distribution, gov, EVM, IBC), gives a
// seeded PRNG, an address registry for canonical output, raw store dumps, panic capture, and the
// ops/impl/stats output files that bin/check diffs against the Lean model driver.
package hx

import (
	"bufio"
	"bytes"
	"crypto/sha256"
	"encoding/hex"
	"encoding/json"
	"fmt"
	"math/rand"
	"os"
	"path/filepath"
	"runtime/debug"
	"sort"
	"strconv"
	"strings"
	"testing"

	storetypes "cosmossdk.io/store/types"
	sdk "github.com/cosmos/cosmos-sdk/types"

	"github.com/functionx/fx-core/v8/testutil/helpers"
)

// ---------------------------------------------------------------------------------------------------------
// environment

func Seed() int64 {
	if v := os.Getenv("VERIF_SEED"); v != "" {
		if n, err := strconv.ParseInt(v, 10, 64); err == nil {
			return n
		}
	}
	return 1
}

func Tier() string {
	if v := os.Getenv("VERIF_TIER"); v == "thorough" {
		return "thorough"
	}
	return "quick"
}

// N returns the number of sequences for the tier, overridable with VERIF_N.
func N(quick, thorough int) int {
	if v := os.Getenv("VERIF_N"); v != "" {
		if n, err := strconv.Atoi(v); err == nil {
			return n
		}
	}
	if Tier() == "thorough" {
		return thorough
	}
	return quick
}

func OutDir() string {
	d := os.Getenv("VERIF_OUT")
	if d == "" {
		d = filepath.Join(os.TempDir(), "fxverif-out")
	}
	_ = os.MkdirAll(d, 0o755)
	return d
}

// ReplayFile returns the path of an ops file to replay (VERIF_REPLAY), or "".
func ReplayFile() string { return os.Getenv("VERIF_REPLAY") }

// ---------------------------------------------------------------------------------------------------------
// suite

type Suite struct {
	helpers.BaseSuite
	Rng *rand.Rand
}

// NewSuite boots a fresh app with nVal validators.
func NewSuite(t *testing.T, nVal int) *Suite {
	s := &Suite{}
	s.SetT(t)
	s.MintValNumber = nVal
	s.SetupTest()
	return s
}

// ---------------------------------------------------------------------------------------------------------
// output: ops (input of the model driver), impl (observations of the implementation), stats

type Out struct {
	classCount map[string]int
	ops, impl *bufio.Writer
	fo, fi    *os.File
	Stats     *Stats
	seq       []string // ops of the current sequence (for replay files)
}

type Violation struct {
	Desc   string   `json:"desc"`   // what fails (matched against known_findings signatures)
	Replay []string `json:"replay"` // op lines reproducing it
}

type Stats struct {
	Evaluations int            `json:"evaluations"`
	Distinct    map[string]int `json:"-"`
	Hist        map[string]int `json:"histogram"`
	Samples     []string       `json:"samples"`
	Rule        string         `json:"rule"`
	Violations  []Violation    `json:"monitor_violations"`
	DistinctN   int            `json:"distinct_nontrivial"`
	Sequences   int            `json:"sequences"`
	Extra       map[string]any `json:"extra,omitempty"`
}

func NewOut() *Out {
	d := OutDir()
	fo, err := os.Create(filepath.Join(d, "ops.txt"))
	if err != nil {
		panic(err)
	}
	fi, err := os.Create(filepath.Join(d, "impl.txt"))
	if err != nil {
		panic(err)
	}
	return &Out{
		ops: bufio.NewWriter(fo), impl: bufio.NewWriter(fi), fo: fo, fi: fi,
		Stats: &Stats{Distinct: map[string]int{}, Hist: map[string]int{}, Extra: map[string]any{}},
	}
}

// Reset marks the start of a new sequence; the model driver re-initialises on a `reset ...` line and answers `ok`.
func (o *Out) Reset(args ...string) {
	o.seq = o.seq[:0]
	o.Emit(strings.TrimSpace("reset "+strings.Join(args, " ")), "ok")
	o.Stats.Sequences++
}

// Emit writes one op line and the implementation's observation line for it.
func (o *Out) Emit(op, obs string) {
	if strings.ContainsAny(op, "\n\r") || strings.ContainsAny(obs, "\n\r") {
		panic("newline in op/obs: " + op + " / " + obs)
	}
	o.seq = append(o.seq, op)
	if _, err := fmt.Fprintln(o.ops, op); err != nil {
		panic("hx: cannot write ops.txt (disk full?): " + err.Error())
	}
	if _, err := fmt.Fprintln(o.impl, obs); err != nil {
		panic("hx: cannot write impl.txt (disk full?): " + err.Error())
	}
	o.Stats.Evaluations++
	if len(o.Stats.Samples) < 6 || (o.Stats.Evaluations%997 == 0 && len(o.Stats.Samples) < 12) {
		o.Stats.Samples = append(o.Stats.Samples, op+"  =>  "+obs)
	}
}

// Count records a histogram bucket (branch / error kind / op kind).
func (o *Out) Count(bucket string) { o.Stats.Hist[bucket]++ }

// Nontrivial records a distinct non-trivial case by key.
func (o *Out) Nontrivial(key string) { o.Stats.Distinct[key]++ }

// Violate records a property-monitor violation on the implementation, with the current sequence as replay.
// violationClass maps a description to its class: the text with numbers, hex strings and quoted parts removed, so that one
// defect reported on many inputs cannot fill the buffer and hide another one (at most 3 replays are kept per class).
func violationClass(desc string) string {
	var b strings.Builder
	inQuote := false
	for _, r := range desc {
		switch {
		case r == '"' || r == '`':
			inQuote = !inQuote
		case inQuote:
		case r >= '0' && r <= '9':
		default:
			b.WriteRune(r)
		}
	}
	s := b.String()
	if len(s) > 160 {
		s = s[:160]
	}
	return s
}

func (o *Out) admit(desc string) bool {
	if o.classCount == nil {
		o.classCount = map[string]int{}
	}
	c := violationClass(desc)
	o.classCount[c]++
	return o.classCount[c] <= 3 && len(o.Stats.Violations) < 200
}

func (o *Out) Violate(desc string) {
	if !o.admit(desc) {
		return
	}
	o.Stats.Violations = append(o.Stats.Violations, Violation{Desc: desc, Replay: append([]string{}, o.seq...)})
}

// ViolateWith records a violation with an explicit replay.
func (o *Out) ViolateWith(desc string, replay []string) {
	if !o.admit(desc) {
		return
	}
	o.Stats.Violations = append(o.Stats.Violations, Violation{Desc: desc, Replay: replay})
}

func (o *Out) Close(rule string) {
	if err := o.ops.Flush(); err != nil {
		panic("hx: cannot flush ops.txt: " + err.Error())
	}
	if err := o.impl.Flush(); err != nil {
		panic("hx: cannot flush impl.txt: " + err.Error())
	}
	o.fo.Close()
	o.fi.Close()
	o.Stats.Rule = rule
	o.Stats.DistinctN = len(o.Stats.Distinct)
	bz, _ := json.MarshalIndent(o.Stats, "", " ")
	if err := os.WriteFile(filepath.Join(OutDir(), "stats.json"), bz, 0o644); err != nil {
		panic(err)
	}
}

// ---------------------------------------------------------------------------------------------------------
// panic capture

// Try runs f and maps a panic to an error string "panic:<first line>".
func Try(f func() error) (res string) {
	defer func() {
		if r := recover(); r != nil {
			msg := fmt.Sprint(r)
			if i := strings.IndexByte(msg, '\n'); i >= 0 {
				msg = msg[:i]
			}
			_ = debug.Stack
			res = "panic:" + msg
		}
	}()
	if err := f(); err != nil {
		return "err:" + err.Error()
	}
	return "ok"
}

// ---------------------------------------------------------------------------------------------------------
// store dumps

// DumpStore returns a canonical digest and the number of keys of one module store.
func DumpStore(ctx sdk.Context, key storetypes.StoreKey) (string, int) {
	h := sha256.New()
	it := ctx.KVStore(key).Iterator(nil, nil)
	defer it.Close()
	n := 0
	for ; it.Valid(); it.Next() {
		var l [8]byte
		k, v := it.Key(), it.Value()
		putLen(&l, len(k))
		h.Write(l[:])
		h.Write(k)
		putLen(&l, len(v))
		h.Write(l[:])
		h.Write(v)
		n++
	}
	return hex.EncodeToString(h.Sum(nil)), n
}

func putLen(b *[8]byte, n int) {
	for i := 0; i < 8; i++ {
		b[i] = byte(n >> (8 * i))
	}
}

// DumpAll returns per-store digests for every KV store of the app (sorted by store name).
func DumpAll(ctx sdk.Context, keys map[string]*storetypes.KVStoreKey) map[string]string {
	res := map[string]string{}
	for name, k := range keys {
		d, _ := DumpStore(ctx, k)
		res[name] = d
	}
	return res
}

// DiffDump returns the sorted names of stores whose digests differ.
func DiffDump(a, b map[string]string) []string {
	var out []string
	for k, v := range a {
		if b[k] != v {
			out = append(out, k)
		}
	}
	for k := range b {
		if _, ok := a[k]; !ok {
			out = append(out, k)
		}
	}
	sort.Strings(out)
	return out
}

// RawPrefix returns all (key,value) pairs under a prefix of a store, in key order.
func RawPrefix(ctx sdk.Context, key storetypes.StoreKey, prefix []byte) [][2][]byte {
	it := storetypes.KVStorePrefixIterator(ctx.KVStore(key), prefix)
	defer it.Close()
	var out [][2][]byte
	for ; it.Valid(); it.Next() {
		out = append(out, [2][]byte{bytes.Clone(it.Key()), bytes.Clone(it.Value())})
	}
	return out
}

// ---------------------------------------------------------------------------------------------------------
// address registry (canonical small integers for addresses)

type Registry struct {
	idx  map[string]int
	name []string
}

func NewRegistry() *Registry { return &Registry{idx: map[string]int{}} }

func (r *Registry) Id(addr string) int {
	if i, ok := r.idx[addr]; ok {
		return i
	}
	i := len(r.name)
	r.idx[addr] = i
	r.name = append(r.name, addr)
	return i
}

func (r *Registry) Has(addr string) bool { _, ok := r.idx[addr]; return ok }

// ---------------------------------------------------------------------------------------------------------
// misc

// Pick returns a random element.
func Pick[T any](rng *rand.Rand, xs []T) T { return xs[rng.Intn(len(xs))] }

// ReadLines reads non-empty lines of a file.
func ReadLines(path string) []string {
	bz, err := os.ReadFile(path)
	if err != nil {
		panic(err)
	}
	var out []string
	for _, l := range strings.Split(string(bz), "\n") {
		l = strings.TrimRight(l, "\r")
		if strings.TrimSpace(l) != "" {
			out = append(out, l)
		}
	}
	return out
}

// Hex encodes bytes for op lines ("-" for empty, so fields never vanish).
func Hex(b []byte) string {
	if len(b) == 0 {
		return "-"
	}
	return hex.EncodeToString(b)
}

// HexS encodes a string's bytes for op lines.
func HexS(s string) string { return Hex([]byte(s)) }
