package c13

// C07 / C13: the governance oracle-list update executed where it really runs — as the message of a PASSED proposal inside the
// x/gov end-blocker of a real FinalizeBlock (gov is the second end-blocker, the staking and the eight crosschain end-blockers
// follow in the same block).  Model: `tick dt` (the block's time), `intx gov ids` (result compared at once, the state after the
// block), `block 0`.  The result is predicted by running the routed handler on a discarded cache of the block context; after
// the block the proposal must be PASSED exactly when the prediction was `ok`, and the whole observation (records, indexes,
// unbonding entries created by the removal, objects, cursors) is compared with the model as after any block.

import (
	"fmt"
	"strings"
	"time"

	sdk "github.com/cosmos/cosmos-sdk/types"
	authtypes "github.com/cosmos/cosmos-sdk/x/auth/types"
	govtypes "github.com/cosmos/cosmos-sdk/x/gov/types"
	v1 "github.com/cosmos/cosmos-sdk/x/gov/types/v1"

	"github.com/functionx/fx-core/v8/testutil/helpers"
	"github.com/functionx/fx-core/v8/x/crosschain/types"
	fxgovtypes "github.com/functionx/fx-core/v8/x/gov/types"

	"fxverif/harness/hx"
)

func (w *world) route(msg sdk.Msg) string {
	return w.tx(func(ctx sdk.Context) error {
		hd := w.s.App.MsgServiceRouter().Handler(msg)
		if hd == nil {
			return fmt.Errorf("unroutable %T", msg)
		}
		_, err := hd(ctx, msg)
		return err
	})
}

// govSetup: a one second voting period for MsgUpdateChainOracles proposals (scene-setting, written once per world)
func (w *world) govSetup() bool {
	if w.govReady {
		return true
	}
	k := w.s.App.GovKeeper
	p, err := k.Params.Get(w.ctx())
	if err != nil {
		return false
	}
	vp, evp := time.Second, time.Second/2
	p.VotingPeriod, p.ExpeditedVotingPeriod = &vp, &evp
	p.MinDeposit = gcoins(1000)
	p.Quorum = "0.2"
	p.MinInitialDepositRatio = "0"
	if err := k.Params.Set(w.ctx(), p); err != nil {
		return false
	}
	url := sdk.MsgTypeURL(&types.MsgUpdateChainOracles{})
	if err := k.CustomerParams.Set(w.ctx(), url, *fxgovtypes.NewCustomParams("0", time.Second, "0.2")); err != nil {
		return false
	}
	w.govReady = true
	return true
}

func (w *world) opGovInBlock(ids []int) {
	if w.dead {
		return
	}
	var list, ss []string
	for _, i := range ids {
		list = append(list, w.oracles[i].AccAddress().String())
		ss = append(ss, fmt.Sprint(i))
	}
	gov := authtypes.NewModuleAddress(govtypes.ModuleName).String()
	inner := &types.MsgUpdateChainOracles{ChainName: w.chain, Authority: gov, Oracles: list}
	if !w.govSetup() {
		w.out.Count("gov-in-block:setup-failed")
		w.opGov(ids)
		return
	}
	proposer := helpers.GenAccAddress()
	w.s.MintToken(proposer, gcoins(1000)...)
	msg, err := v1.NewMsgSubmitProposal([]sdk.Msg{inner}, gcoins(1000), proposer.String(), "", "oracles", "update the oracle list", false)
	if err != nil {
		w.t.Fatal(err)
	}
	pid, _ := w.s.App.GovKeeper.ProposalID.Peek(w.ctx())
	if r := w.route(msg); r != "ok" {
		// not submittable (stateless validation of the message): the keeper entry point still sees it
		w.out.Count("gov-in-block:submit-refused")
		w.opGov(ids)
		return
	}
	for _, v := range w.s.ValAddr {
		if r := w.route(v1.NewMsgVote(sdk.AccAddress(v), pid, v1.OptionYes, "")); r != "ok" {
			w.out.Count("gov-in-block:vote-" + short(r))
		}
	}
	w.opTick(2) // the voting period is over at the time of the next block
	before := w.k.GetAllOracles(w.ctx(), false)
	// prediction: the routed handler on a discarded cache of the block context (same height, same time as the end-blocker)
	dry := kind(hx.Try(func() error {
		c, _ := w.ctx().CacheContext()
		hd := w.s.App.MsgServiceRouter().Handler(inner)
		if hd == nil {
			return fmt.Errorf("unroutable")
		}
		_, err := hd(c, inner)
		return err
	}), errTable, "staking")
	if !w.tainted {
		w.out.Emit(strings.TrimSpace("intx gov "+strings.Join(ss, " ")), dry+" ~")
	}
	w.out.Count("gov-in-block:" + dry)
	w.out.Nontrivial("gov-in-block:" + dry)
	w.inBlockRemoved = map[string]bool{}
	if dry == "ok" {
		in := map[string]bool{}
		for _, a := range list {
			in[a] = true
		}
		for _, o := range before {
			if !in[o.OracleAddress] {
				w.inBlockRemoved[o.OracleAddress] = true
			}
		}
	}
	w.opBlock(0)
	w.inBlockRemoved = nil
	if w.dead {
		return
	}
	p, err := w.s.App.GovKeeper.Proposals.Get(w.ctx(), pid)
	if err != nil {
		w.violate(fmt.Sprintf("C07 gov end-blocker lost the oracle-list proposal %d", pid))
		return
	}
	w.out.Count("gov-in-block:status=" + p.Status.String())
	if (p.Status == v1.StatusPassed) != (dry == "ok") || (p.Status != v1.StatusPassed && p.Status != v1.StatusFailed) {
		w.violate(fmt.Sprintf("C07 gov end-blocker executed MsgUpdateChainOracles differently from its handler: proposal %d is %s (%q), the handler on the same block context answered %s", pid, p.Status, p.FailedReason, dry))
	}
	if p.Status == v1.StatusPassed {
		in := map[string]bool{}
		for _, a := range list {
			in[a] = true
		}
		for _, o := range before {
			if !in[o.OracleAddress] {
				if r, found := w.k.GetOracle(w.ctx(), o.GetOracle()); found && !r.Online {
					w.removed[w.oid(o.OracleAddress)] = true
				}
			}
		}
	}
}
