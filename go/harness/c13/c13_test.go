package c13

// C13 / C07 (crosschain half) correspondence + monitors on the REAL in-process fxcore app (real bank, staking with its
// real unbonding queue, distribution, the eth crosschain module and all eight crosschain end-blockers).
//
//  * every op runs through the real per-chain message server / keeper in a cache context (message atomicity);
//  * `block dt` is a real FinalizeBlock + Commit with the block time moved by dt seconds (past the unbonding period
//    for some steps), so unbonding entries mature through the real staking end-blocker;
//  * after each op a canonical observation of the whole registry / stake / slashing state is printed and compared with
//    the Lean model (Driver/C13.lean);
//  * monitors state C13 (registry one-to-one, bond bounds, penalty, stake recoverable, slashed only for missed signing)
//    and C07 (FinalizeBlock never panics / errors) directly on the real state.

import (
	"bytes"
	"crypto/ecdsa"
	"encoding/hex"
	"fmt"
	"math/rand"
	"os"
	"sort"
	"strings"
	"testing"
	"time"

	sdkmath "cosmossdk.io/math"
	abci "github.com/cometbft/cometbft/abci/types"
	sdk "github.com/cosmos/cosmos-sdk/types"
	authtypes "github.com/cosmos/cosmos-sdk/x/auth/types"
	govtypes "github.com/cosmos/cosmos-sdk/x/gov/types"
	stakingtypes "github.com/cosmos/cosmos-sdk/x/staking/types"
	"github.com/ethereum/go-ethereum/common"
	ethcrypto "github.com/ethereum/go-ethereum/crypto"

	"github.com/functionx/fx-core/v8/testutil/helpers"
	fxtypes "github.com/functionx/fx-core/v8/types"
	crosschainkeeper "github.com/functionx/fx-core/v8/x/crosschain/keeper"
	"github.com/functionx/fx-core/v8/x/crosschain/types"
	trontypes "github.com/functionx/fx-core/v8/x/tron/types"

	"fxverif/harness/hx"
)


var baseTime = time.Unix(1_700_000_000, 0).UTC()

type world struct {
	t    *testing.T
	s    *hx.Suite
	k    crosschainkeeper.Keeper
	ms   types.MsgServer
	out  *hx.Out
	rng  *rand.Rand
	mode string // "c13" | "c07"
	confN    int
	govReady bool // gov parameters for oracle-list proposals written (govblock_test.go)
	// oracles the oracle-list proposal executed by the gov end-blocker of the NEXT block takes offline (not a slash)
	inBlockRemoved map[string]bool
	chain string // the bridged chain this world drives (all eight crosschain modules share the keeper code)
	tron  bool   // tron-style external addresses, checkpoints and signatures
	env   bool   // every op is followed by a real FinalizeBlock; batches come from the real pool; external events are voted in
	user  *helpers.Signer
	extH  uint64 // external block height reported by the next claim

	oracles  []*helpers.Signer // sorted by address bytes: id = index
	bridgers []sdk.AccAddress
	bkeys    []*helpers.Signer // keys of the bridger accounts (they sign MsgClaim / MsgRequestBatch transactions)
	txmode   bool              // environment world whose claims and pool messages are SIGNED TRANSACTIONS inside FinalizeBlock
	txs      [][]byte          // transactions of the pending block
	txAhead  map[string]uint64 // per signer: transactions already queued for the pending block
	txRes    []*abci.ExecTxResult
	claimTxClosed bool // signed MsgClaim transactions turned out to be undeliverable in this tree: claims go through the router
	claimTx  []int  // indexes (in the pending block) of the claim transactions of the current event
	afterCommit func() // txmode: writes the `intx …` lines of the ops the block's transactions carried, before the block's own line
	exts     []*ecdsa.PrivateKey
	extAddr  []string
	vals     []sdk.ValAddress // vals[i] for i < nval are real; beyond: well-formed but unknown
	nval     int
	now      time.Time
	unb      int64
	thr      sdkmath.Int
	mult     int64
	window   uint64
	pr       sdkmath.Int
	token    string
	nextBt   uint64
	tainted  bool // a validator was slashed: exact staking arithmetic is no longer compared
	dead     bool // FinalizeBlock panicked: the app state is unusable

	// monitor bookkeeping
	removed map[int]bool // oracle ids undelegated by governance while their record exists
	pct     sdkmath.LegacyDec
	joined  map[int]int64  // height of the latest (re-)join of each oracle, tracked by the harness itself (bond, or AddDelegate of an offline oracle)
	gone    map[int]*goneT // oracles whose record was deleted by a successful unbond: watched for a few more blocks
}

type goneT struct {
	blocks int         // blocks seen since the unbond
	funded sdkmath.Int // coins the harness itself sent to the delegate address since
}

// cfgT: optional overrides of the randomly chosen parameters (directed scenarios)
type cfgT struct {
	mult int64              // 0 = random
	pct  *sdkmath.LegacyDec // nil = random
	thr  *sdkmath.Int
	unb  int64 // > 0: staking UnbondingTime in seconds (set through the real staking params)
	win  uint64
	chain string // "" = eth
	env   bool
	txmode bool // env worlds: claims and pool messages as signed transactions inside FinalizeBlock
	frac  *sdkmath.LegacyDec // nil = random slash fraction
}

func (w *world) ctx() sdk.Context { return w.s.Ctx }

func (w *world) commitAt(t time.Time) {
	s := w.s
	h := s.Ctx.BlockHeight()
	txs := w.txs
	w.txs, w.txRes = nil, nil
	fres, err := s.App.FinalizeBlock(&abci.RequestFinalizeBlock{Height: h, Time: t, ProposerAddress: s.Ctx.BlockHeader().ProposerAddress, Txs: txs})
	if err != nil {
		panic(err)
	}
	w.txRes = fres.TxResults
	if _, err := s.App.Commit(); err != nil {
		panic(err)
	}
	if _, err := s.App.ProcessProposal(&abci.RequestProcessProposal{Height: h + 1, Time: t, ProposerAddress: s.Ctx.BlockHeader().ProposerAddress}); err != nil {
		panic(err)
	}
	s.Ctx = s.App.GetContextForFinalizeBlock(nil)
}

// tx runs f in a cache context and commits its writes only on success (what the SDK does per message).
func (w *world) tx(f func(ctx sdk.Context) error) string {
	return hx.Try(func() error {
		c, write := w.ctx().CacheContext()
		if err := f(c); err != nil {
			return err
		}
		write()
		return nil
	})
}

func kind(res string, table [][2]string, def string) string {
	if res == "ok" || strings.HasPrefix(res, "panic:") {
		return res
	}
	for _, e := range table {
		if strings.Contains(res, e[0]) {
			return "err:" + e[1]
		}
	}
	return "err:" + def
}

var errTable = [][2]string{
	{"oracle existed bridger address", "exists"},
	{"bridger address is bound to oracle", "bridger-bound"},
	{"external address is bound to oracle", "ext-bound"},
	{"delegate amount must be greater than oracle stake threshold", "below"},
	{"delegate amount must be less than double oracle stake threshold", "above"},
	{"insufficient funds", "funds"},
	{"not sufficient slash amount", "slash-short"},
	{"oracle not on line", "offline"},
	{"validator address is not changed", "same"},
	{"bridger address is not changed", "same"},
	{"rewards is empty", "empty"},
	{"need to pass a proposal to unbind", "in-proposal"},
	{"oracle on line", "online"},
	{"no unbonding delegation found", "ubd"},
	{"exist unbonding delegation", "ubd"},
	{"unbonding delegation", "ubd"},
	{"couldn't find", "no-object"},
	{"signature verification failed", "sig"},
	{"signature not matching", "sig"},
	{"duplicate confirm", "dup"},
	{"got ", "mismatch"},
	{"max change power", "cap"},
	{"oracle length must be less", "size"},
	{"has batch request", "dup-block"},
	{"does not exist in store", "no-object"},
	{"no found oracle", "no-oracle"},
}

func (w *world) oid(addr string) int {
	for i, o := range w.oracles {
		if o.AccAddress().String() == addr {
			return i
		}
	}
	return -1
}

func (w *world) bid(addr string) int {
	for i, b := range w.bridgers {
		if b.String() == addr {
			return i
		}
	}
	return -1
}

func (w *world) eid(addr string) int {
	for i, e := range w.extAddr {
		if e == addr {
			return i
		}
	}
	return -1
}

func (w *world) vid(addr string) int {
	for i, v := range w.vals {
		if v.String() == addr {
			return i
		}
	}
	return -1
}

func (w *world) daddr(o int) sdk.AccAddress {
	r := types.Oracle{OracleAddress: w.oracles[o].AccAddress().String()}
	return r.GetDelegateAddress(w.chain)
}

func joinOr(sep string, xs []string) string {
	if len(xs) == 0 {
		return "-"
	}
	return strings.Join(xs, sep)
}

func (w *world) balOf(a sdk.AccAddress) sdkmath.Int {
	return w.s.App.BankKeeper.GetBalance(w.ctx(), a, fxtypes.DefaultDenom).Amount
}

func (w *world) confExts(kindS string, nonce uint64) string {
	var ids []int
	switch kindS {
	case "os":
		w.k.IterateOracleSetConfirmByNonce(w.ctx(), nonce, func(c *types.MsgOracleSetConfirm) bool { ids = append(ids, w.eid(c.ExternalAddress)); return false })
	case "batch":
		w.k.IterateBatchConfirmByNonceAndTokenContract(w.ctx(), nonce, w.token, func(c *types.MsgConfirmBatch) bool { ids = append(ids, w.eid(c.ExternalAddress)); return false })
	case "call":
		w.k.IterBridgeCallConfirmByNonce(w.ctx(), nonce, func(c *types.MsgBridgeCallConfirm) bool { ids = append(ids, w.eid(c.ExternalAddress)); return false })
	}
	sort.Ints(ids)
	var ss []string
	for _, i := range ids {
		ss = append(ss, fmt.Sprint(i))
	}
	return strings.Join(ss, ".")
}

type objT struct {
	kind   string
	nonce  uint64
	height uint64
}

func (w *world) objects() []objT {
	var res []objT
	for _, x := range w.k.GetOracleSets(w.ctx()) {
		res = append(res, objT{"os", x.Nonce, x.Height})
	}
	w.k.IterateOutgoingTxBatches(w.ctx(), func(b *types.OutgoingTxBatch) bool {
		res = append(res, objT{"batch", b.BatchNonce, b.Block})
		return false
	})
	w.k.IterateOutgoingBridgeCalls(w.ctx(), func(c *types.OutgoingBridgeCall) bool {
		res = append(res, objT{"call", c.Nonce, c.BlockHeight})
		return false
	})
	sort.SliceStable(res, func(i, j int) bool {
		if res[i].kind != res[j].kind {
			return res[i].kind < res[j].kind
		}
		return res[i].nonce < res[j].nonce
	})
	return res
}

// observe prints the canonical state (same format as Driver/C13.lean showState).
func (w *world) observe() string {
	ctx := w.ctx()
	app := w.s.App
	var O, B, E, acc, D, U, R, sets, bt, bc []string
	all := w.k.GetAllOracles(ctx, false)
	sort.Slice(all, func(i, j int) bool { return w.oid(all[i].OracleAddress) < w.oid(all[j].OracleAddress) })
	for _, o := range all {
		on := 0
		if o.Online {
			on = 1
		}
		O = append(O, fmt.Sprintf("%d:%d:%d:%s:%d:%d:%d:%d", w.oid(o.OracleAddress), w.bid(o.BridgerAddress), w.eid(o.ExternalAddress),
			o.DelegateAmount, o.StartHeight, on, w.vid(o.DelegateValidator), o.SlashTimes))
	}
	for i, b := range w.bridgers {
		if a, ok := w.k.GetOracleAddrByBridgerAddr(ctx, b); ok {
			B = append(B, fmt.Sprintf("%d>%d", i, w.oid(a.String())))
		}
	}
	for i, e := range w.extAddr {
		if a, ok := w.k.GetOracleAddrByExternalAddr(ctx, e); ok {
			E = append(E, fmt.Sprintf("%d>%d", i, w.oid(a.String())))
		}
	}
	for i, o := range w.oracles {
		da := w.daddr(i)
		acc = append(acc, fmt.Sprintf("%d:%s:%s", i, w.balOf(o.AccAddress()), w.balOf(da)))
		dels, _ := app.StakingKeeper.GetDelegatorDelegations(ctx, da, 100)
		var ds [][2]string
		for _, d := range dels {
			va, _ := sdk.ValAddressFromBech32(d.ValidatorAddress)
			v, _ := app.StakingKeeper.GetValidator(ctx, va)
			ds = append(ds, [2]string{fmt.Sprintf("%d.%d", i, w.vid(d.ValidatorAddress)), v.TokensFromShares(d.Shares).TruncateInt().String()})
		}
		sort.Slice(ds, func(a, b int) bool { return ds[a][0] < ds[b][0] })
		for _, d := range ds {
			D = append(D, d[0]+":"+d[1])
		}
		ubds, _ := app.StakingKeeper.GetUnbondingDelegations(ctx, da, 100)
		sort.Slice(ubds, func(a, b int) bool { return w.vid(ubds[a].ValidatorAddress) < w.vid(ubds[b].ValidatorAddress) })
		for _, u := range ubds {
			for _, e := range u.Entries {
				U = append(U, fmt.Sprintf("%d.%d:%d:%d:%s", i, w.vid(u.ValidatorAddress), e.CreationHeight, e.CompletionTime.Unix()-baseTime.Unix(), e.Balance))
			}
		}
		reds, _ := app.StakingKeeper.GetRedelegations(ctx, da, 100)
		var rs []string
		for _, r := range reds {
			for _, e := range r.Entries {
				rs = append(rs, fmt.Sprintf("%d.%d.%d:%d", i, w.vid(r.ValidatorSrcAddress), w.vid(r.ValidatorDstAddress), e.CompletionTime.Unix()-baseTime.Unix()))
			}
		}
		sort.Strings(rs)
		R = append(R, rs...)
	}
	for _, x := range w.objects() {
		s := fmt.Sprintf("%d@%d:%s", x.nonce, x.height, w.confExts(x.kind, x.nonce))
		switch x.kind {
		case "os":
			sets = append(sets, s)
		case "batch":
			bt = append(bt, s)
		case "call":
			bc = append(bc, s)
		}
	}
	prop, _ := w.k.GetProposalOracle(ctx)
	var ps []string
	for _, a := range prop.Oracles {
		ps = append(ps, fmt.Sprint(w.oid(a)))
	}
	obs := "-"
	if lo := w.k.GetLastObservedOracleSet(ctx); lo != nil {
		obs = fmt.Sprint(lo.Nonce)
	}
	return fmt.Sprintf("h=%d P=%s prop=%s O=%s B=%s E=%s acc=%s D=%s U=%s R=%s os=%s L=%d obs=%s bt=%s bc=%s cur=%d/%d/%d lsh=%d",
		ctx.BlockHeight(), w.k.GetLastTotalPower(ctx), joinOr(".", ps), joinOr(",", O), joinOr(",", B), joinOr(",", E), joinOr(";", acc),
		joinOr(",", D), joinOr(",", U), joinOr(",", R), joinOr(",", sets), w.k.GetLatestOracleSetNonce(ctx), obs, joinOr(",", bt), joinOr(",", bc),
		w.k.GetLastSlashedOracleSetNonce(ctx), w.k.GetLastSlashedBatchBlock(ctx), w.k.GetLastSlashedBridgeCallNonce(ctx), w.k.GetLastOracleSlashBlockHeight(ctx))
}

func (w *world) emit(op, res string) {
	if w.tainted {
		// exact staking arithmetic is not compared after a validator slash; monitors still run
		w.monitors(op, res)
		return
	}
	w.out.Emit(op, res+" "+w.observe())
	w.monitors(op, res)
}

// ---------------------------------------------------------------------------------------------------------
// monitors (properties stated on the real state)

func (w *world) violate(desc string) {
	if w.mode == "c07" && !strings.HasPrefix(desc, "C07") {
		return
	}
	if w.mode == "c13" && strings.HasPrefix(desc, "C07") {
		return
	}
	w.out.Violate(desc)
}

func (w *world) monitors(op, res string) {
	if w.dead {
		return
	}
	ctx := w.ctx()
	all := w.k.GetAllOracles(ctx, false)
	seenB, seenE := map[string]string{}, map[string]string{}
	frac := w.k.GetSlashFraction(ctx)
	for _, o := range all {
		if p, dup := seenB[o.BridgerAddress]; dup {
			w.violate(fmt.Sprintf("registry not one-to-one: bridger address shared by oracle records %d and %d", w.oid(p), w.oid(o.OracleAddress)))
		}
		if p, dup := seenE[o.ExternalAddress]; dup {
			w.violate(fmt.Sprintf("registry not one-to-one: external address shared by oracle records %d and %d", w.oid(p), w.oid(o.OracleAddress)))
		}
		seenB[o.BridgerAddress], seenE[o.ExternalAddress] = o.OracleAddress, o.OracleAddress
		if a, ok := w.k.GetOracleAddrByBridgerAddr(ctx, o.GetBridger()); !ok || a.String() != o.OracleAddress {
			w.violate("registry index disagrees with record: bridger index does not point back to the oracle record")
		}
		if a, ok := w.k.GetOracleAddrByExternalAddr(ctx, o.ExternalAddress); !ok || a.String() != o.OracleAddress {
			w.violate("registry index disagrees with record: external-address index does not point back to the oracle record")
		}
		if o.SlashTimes > 1 || o.SlashTimes < 0 {
			w.violate(fmt.Sprintf("penalty charged more than once: slash_times=%d", o.SlashTimes))
		}
		if o.GetSlashAmount(frac).GT(o.DelegateAmount) {
			w.violate("penalty exceeds stake")
		}
		id := w.oid(o.OracleAddress)
		if id >= 0 && o.Online {
			// recorded stake must be delegated on the oracle's behalf
			del, err := w.s.App.StakingKeeper.GetDelegation(ctx, w.daddr(id), o.GetValidator())
			staked := sdkmath.ZeroInt()
			if err == nil {
				v, _ := w.s.App.StakingKeeper.GetValidator(ctx, o.GetValidator())
				staked = v.TokensFromShares(del.Shares).TruncateInt()
			}
			if staked.GT(o.DelegateAmount) || (!w.tainted && !staked.Equal(o.DelegateAmount)) {
				if w.removed[id] {
					// the history class of the known finding (text matched by its signature)
					w.violate(fmt.Sprintf("stake accounting: online oracle records delegate_amount different from what is delegated on its behalf (re-approved after governance removal=%v)", w.removed[id]))
				} else {
					// bin/check groups descriptions with their parenthesised parts removed: keep this class textually apart
					w.violate(fmt.Sprintf("stake accounting, oracle never removed by governance: recorded delegate_amount %s differs from the %s delegated on its behalf", o.DelegateAmount, staked))
				}
			}
		}
	}
	for i, b := range w.bridgers {
		if a, ok := w.k.GetOracleAddrByBridgerAddr(ctx, b); ok {
			if o, found := w.k.GetOracle(ctx, a); !found || o.BridgerAddress != b.String() {
				w.violate(fmt.Sprintf("registry index disagrees with record: stale bridger index entry %d", i))
			}
		}
	}
	for i, e := range w.extAddr {
		if a, ok := w.k.GetOracleAddrByExternalAddr(ctx, e); ok {
			if o, found := w.k.GetOracle(ctx, a); !found || o.ExternalAddress != e {
				w.violate(fmt.Sprintf("registry index disagrees with record: stale external-address index entry %d", i))
			}
		}
	}
	// stake recoverable: removed by governance, everything matured → UnbondedOracle must succeed (dry run)
	if strings.HasPrefix(op, "block") && res == "ok" && w.tainted {
		// after a validator slash part of the stake is legitimately gone; what must still hold (Props/C13
		// unbond_refused_only_for_unpaid_penalty): a removed oracle whose unbonding entries have all been paid out either unbonds
		// successfully, receiving the delegate-address balance minus the penalty, or is refused ONLY because that balance does not
		// cover the penalty
		for _, o := range all {
			id := w.oid(o.OracleAddress)
			if id < 0 || o.Online || w.k.IsProposalOracle(ctx, o.OracleAddress) || !w.removed[id] {
				continue
			}
			if ubds, _ := w.s.App.StakingKeeper.GetUnbondingDelegations(ctx, w.daddr(id), 10); len(ubds) > 0 {
				continue
			}
			c, _ := ctx.CacheContext()
			held := w.balOf(w.daddr(id))
			pen := o.GetSlashAmount(frac)
			beforeB := w.s.App.BankKeeper.GetBalance(c, w.oracles[id].AccAddress(), fxtypes.DefaultDenom).Amount
			r := kind(hx.Try(func() error {
				_, err := w.ms.UnbondedOracle(c, &types.MsgUnbondedOracle{OracleAddress: o.OracleAddress, ChainName: w.chain})
				return err
			}), errTable, "other")
			switch {
			case r == "ok":
				w.out.Count("valslash:removed-oracle-unbonds:ok")
				if got := w.s.App.BankKeeper.GetBalance(c, w.oracles[id].AccAddress(), fxtypes.DefaultDenom).Amount.Sub(beforeB); !got.Equal(held.Sub(pen)) {
					w.violate("wrong payout in UnbondedOracle after a validator slash: paid amount is not delegate-address balance minus penalty")
				}
			case r == "err:slash-short" && held.LT(pen):
				// observation (not a violation of the property text: stake minus penalty is negative here): the record stays until
				// somebody tops the delegate address up by the shortfall
				w.out.Count("valslash:removed-oracle-unbond-blocked-by-uncovered-penalty")
				w.out.Nontrivial("valslash:unbond-blocked-by-uncovered-penalty")
			default:
				w.violate("stake not recoverable after a validator slash: UnbondedOracle of a removed, fully matured oracle fails although its delegate address covers the penalty (" + r + ")")
			}
		}
	}
	if strings.HasPrefix(op, "block") && res == "ok" && !w.tainted {
		for _, o := range all {
			id := w.oid(o.OracleAddress)
			if id < 0 || o.Online || w.k.IsProposalOracle(ctx, o.OracleAddress) || !w.removed[id] {
				continue
			}
			ubds, _ := w.s.App.StakingKeeper.GetUnbondingDelegations(ctx, w.daddr(id), 10)
			if len(ubds) > 0 {
				continue
			}
			c, _ := ctx.CacheContext()
			before := w.s.App.BankKeeper.GetBalance(c, w.oracles[id].AccAddress(), fxtypes.DefaultDenom).Amount
			r := hx.Try(func() error {
				_, err := w.ms.UnbondedOracle(c, &types.MsgUnbondedOracle{OracleAddress: o.OracleAddress, ChainName: w.chain})
				return err
			})
			if r != "ok" {
				w.violate("stake not recoverable: UnbondedOracle fails after governance removal and maturity of the unbonding entry (" + kind(r, errTable, "other") + ")")
				continue
			}
			after := w.s.App.BankKeeper.GetBalance(c, w.oracles[id].AccAddress(), fxtypes.DefaultDenom).Amount
			if want := o.DelegateAmount.Sub(o.GetSlashAmount(frac)); after.Sub(before).LT(want) {
				w.violate("stake not recoverable: UnbondedOracle pays less than stake minus penalty after maturity")
			}
			held := w.balOf(w.daddr(id))
			left := w.s.App.BankKeeper.GetBalance(c, w.daddr(id), fxtypes.DefaultDenom).Amount
			if !after.Sub(before).Equal(held.Sub(o.GetSlashAmount(frac))) || !left.IsZero() {
				w.violate("wrong payout in UnbondedOracle: paid amount is not delegate-address balance minus penalty, or the penalty was not taken from the delegate address")
			}
		}
	}
}

// ---------------------------------------------------------------------------------------------------------
// ops

func (w *world) amtStr(a sdkmath.Int) string { return a.String() }

func (w *world) opGov(ids []int) {
	var list, ss []string
	for _, i := range ids {
		list = append(list, w.oracles[i].AccAddress().String())
		ss = append(ss, fmt.Sprint(i))
	}
	before := w.k.GetAllOracles(w.ctx(), false)
	// the power-change cap, stated on the real state: online power the update takes away vs the online power before it
	oldList, _ := w.k.GetProposalOracle(w.ctx())
	wasListed := map[string]bool{}
	for _, a := range oldList.Oracles {
		wasListed[a] = true
	}
	inNew := map[string]bool{}
	for _, a := range list {
		inNew[a] = true
	}
	totalOn, removedOn := sdkmath.ZeroInt(), sdkmath.ZeroInt()
	for _, o := range before {
		if o.Online {
			totalOn = totalOn.Add(o.GetPower())
			if !inNew[o.OracleAddress] && wasListed[o.OracleAddress] {
				removedOn = removedOn.Add(o.GetPower())
			}
		}
	}
	res := kind(w.tx(func(ctx sdk.Context) error { return w.k.UpdateProposalOracles(ctx, list) }), errTable, "staking")
	if removedOn.IsPositive() {
		// where the update sits relative to the 30 % boundary (distribution)
		l, r := removedOn.MulRaw(100), totalOn.MulRaw(30)
		cls := "below"
		switch {
		case l.Equal(r):
			cls = "exactly-30pct"
		case l.GT(r):
			cls = "above"
		case removedOn.AddRaw(1).MulRaw(100).GTE(r):
			cls = "one-power-unit-below"
		}
		w.out.Count("gov:cap:" + cls + ":" + res)
		w.out.Nontrivial("gov:cap:" + cls + ":" + res)
		if res == "ok" && l.GTE(r) {
			w.violate(fmt.Sprintf("governance update above the power-change cap succeeded: it takes %s of %s online oracle power offline at once (30 %% or more)", removedOn, totalOn))
		}
		if res == "err:cap" && removedOn.LT(totalOn.MulRaw(30).QuoRaw(100)) {
			w.out.Count("gov:cap:refused-below-threshold")
		}
	}
	if res == "ok" {
		in := map[string]bool{}
		for _, a := range list {
			in[a] = true
		}
		for _, o := range before {
			if !in[o.OracleAddress] {
				if r, found := w.k.GetOracle(w.ctx(), o.GetOracle()); found && !r.Online {
					w.removed[w.oid(o.OracleAddress)] = true
				}
			}
		}
	}
	w.out.Count("gov:" + res)
	w.emit(strings.TrimSpace("gov "+strings.Join(ss, " ")), res)
}

func (w *world) opBond(o, b, e, v int, amt sdkmath.Int) {
	msg := &types.MsgBondedOracle{OracleAddress: w.oracles[o].AccAddress().String(), BridgerAddress: w.bridgers[b].String(),
		ExternalAddress: w.extAddr[e], ValidatorAddress: w.vals[v].String(), DelegateAmount: types.NewDelegateAmount(amt), ChainName: w.chain}
	if msg.ValidateBasic() != nil {
		w.out.Count("bond:vb-reject")
		return
	}
	wasProposal := w.k.IsProposalOracle(w.ctx(), msg.OracleAddress)
	res := kind(w.tx(func(ctx sdk.Context) error { _, err := w.ms.BondedOracle(ctx, msg); return err }), errTable, "staking")
	if res == "ok" {
		delete(w.removed, o)
		delete(w.gone, o)
		w.joined[o] = w.ctx().BlockHeight()
		if !wasProposal {
			w.violate("bond without governance approval: BondedOracle succeeded for an address not on the proposal-oracle list")
		}
		if amt.LT(w.thr) || amt.GT(w.thr.MulRaw(w.mult)) {
			w.violate("bond outside the configured stake bounds succeeded")
		}
	}
	w.out.Count("bond:" + res)
	w.out.Nontrivial("bond:" + res)
	w.emit(fmt.Sprintf("bond %d %d %d %d %s", o, b, e, v, amt), res)
}

func (w *world) opAdd(o int, amt sdkmath.Int) {
	msg := &types.MsgAddDelegate{OracleAddress: w.oracles[o].AccAddress().String(), Amount: types.NewDelegateAmount(amt), ChainName: w.chain}
	if msg.ValidateBasic() != nil {
		w.out.Count("add:vb-reject")
		return
	}
	wasProposal := w.k.IsProposalOracle(w.ctx(), msg.OracleAddress)
	before, hadRec := w.k.GetOracle(w.ctx(), w.oracles[o].AccAddress())
	res := kind(w.tx(func(ctx sdk.Context) error { _, err := w.ms.AddDelegate(ctx, msg); return err }), errTable, "staking")
	w.out.Count("add:" + res)
	if res == "ok" {
		if !wasProposal {
			w.violate(fmt.Sprintf("stake added without governance approval: AddDelegate succeeded for oracle %d which is not on the proposal-oracle list (removed by governance=%v)", o, w.removed[o]))
		}
		if now, ok := w.k.GetOracle(w.ctx(), w.oracles[o].AccAddress()); ok {
			if now.DelegateAmount.LT(w.thr) || now.DelegateAmount.GT(w.thr.MulRaw(w.mult)) {
				w.violate("stake outside the configured bounds after a successful AddDelegate")
			}
			if hadRec && !before.Online && now.Online {
				w.joined[o] = w.ctx().BlockHeight()
				w.out.Nontrivial("add:back-online")
				if now.StartHeight != w.ctx().BlockHeight() {
					w.violate(fmt.Sprintf("liable for objects created before it joined: oracle %d came back online at height %d but its record keeps start height %d", o, w.ctx().BlockHeight(), now.StartHeight))
				}
				if now.SlashTimes != 0 {
					w.violate("penalty charged more than once: oracle is back online with a non-zero slash counter")
				}
			}
		}
	}
	if res == "ok" && w.removed[o] {
		w.out.Nontrivial("add:re-approved-after-removal")
	}
	w.emit(fmt.Sprintf("add %d %s", o, amt), res)
}

func (w *world) opRedel(o, v int) {
	msg := &types.MsgReDelegate{OracleAddress: w.oracles[o].AccAddress().String(), ValidatorAddress: w.vals[v].String(), ChainName: w.chain}
	res := kind(w.tx(func(ctx sdk.Context) error { _, err := w.ms.ReDelegate(ctx, msg); return err }), errTable, "staking")
	w.out.Count("redel:" + res)
	w.out.Nontrivial("redel:" + res)
	w.emit(fmt.Sprintf("redel %d %d", o, v), res)
}

func (w *world) opEditB(o, b int) {
	msg := &types.MsgEditBridger{OracleAddress: w.oracles[o].AccAddress().String(), BridgerAddress: w.bridgers[b].String(), ChainName: w.chain}
	res := kind(w.tx(func(ctx sdk.Context) error { _, err := w.ms.EditBridger(ctx, msg); return err }), errTable, "other")
	w.out.Count("editb:" + res)
	w.out.Nontrivial("editb:" + res)
	w.emit(fmt.Sprintf("editb %d %d", o, b), res)
}

func (w *world) opWithdraw(o int) {
	msg := &types.MsgWithdrawReward{OracleAddress: w.oracles[o].AccAddress().String(), ChainName: w.chain}
	res := kind(w.tx(func(ctx sdk.Context) error { _, err := w.ms.WithdrawReward(ctx, msg); return err }), errTable, "staking")
	w.out.Count("withdraw:" + res)
	w.out.Nontrivial("withdraw:" + res)
	w.emit(fmt.Sprintf("withdraw %d", o), res)
}

func (w *world) opFund(o int, amt sdkmath.Int) {
	w.s.MintToken(w.daddr(o), sdk.NewCoin(fxtypes.DefaultDenom, amt))
	if g, ok := w.gone[o]; ok {
		g.funded = g.funded.Add(amt)
	}
	w.out.Count("fund")
	w.emit(fmt.Sprintf("fund %d %s", o, amt), "ok")
}

// opTick: the pending block's time moves on by dt seconds; the messages that follow are transactions of a block with that
// time (they run BEFORE that block's end-blockers, e.g. before staking pays out unbonding entries that mature at that time)
func (w *world) opTick(dt int64) {
	w.now = w.now.Add(time.Duration(dt) * time.Second)
	w.s.Ctx = w.s.Ctx.WithBlockTime(w.now)
	w.out.Count("tick")
	w.emit(fmt.Sprintf("tick %d", dt), "ok")
}

// opUnbondNear: an unbond transaction placed at block time completion-1 / =completion / completion+1 of the oracle's
// earliest unbonding entry, inside the block (before its end-blocker), then the block itself
func (w *world) opUnbondNear(o int, off int64) bool {
	ubds, _ := w.s.App.StakingKeeper.GetUnbondingDelegations(w.ctx(), w.daddr(o), 10)
	var c *time.Time
	for _, u := range ubds {
		for _, e := range u.Entries {
			if t := e.CompletionTime; c == nil || t.Before(*c) {
				c = &t
			}
		}
	}
	if c == nil {
		return false
	}
	dt := int64(c.Sub(w.now)/time.Second) + off
	if dt < 0 {
		return false
	}
	w.opTick(dt)
	w.out.Count(fmt.Sprintf("unbond-near:completion%+d", off))
	w.out.Nontrivial(fmt.Sprintf("unbond-near:completion%+d", off))
	w.opUnbond(o)
	w.opBlock(0)
	return true
}

func (w *world) opUnbond(o int) {
	ctx := w.ctx()
	rec, had := w.k.GetOracle(ctx, w.oracles[o].AccAddress())
	msg := &types.MsgUnbondedOracle{OracleAddress: w.oracles[o].AccAddress().String(), ChainName: w.chain}
	res := kind(w.tx(func(ctx sdk.Context) error { _, err := w.ms.UnbondedOracle(ctx, msg); return err }), errTable, "other")
	if res == "ok" && had {
		ubds, _ := w.s.App.StakingKeeper.GetUnbondingDelegations(w.ctx(), w.daddr(o), 10)
		dels, _ := w.s.App.StakingKeeper.GetDelegatorDelegations(w.ctx(), w.daddr(o), 10)
		if len(ubds) > 0 || len(dels) > 0 {
			w.violate(fmt.Sprintf("stake not recoverable: UnbondedOracle succeeded and deleted the record while stake %s is still unbonding/delegated from the keyless delegate address (stranded)", rec.DelegateAmount))
		}
		delete(w.removed, o)
		w.gone[o] = &goneT{funded: sdkmath.ZeroInt()}
		if left := w.balOf(w.daddr(o)); left.IsPositive() {
			w.violate(fmt.Sprintf("stake not recoverable: UnbondedOracle succeeded but left %s on the keyless delegate address", left))
		}
		w.out.Nontrivial("unbond:ok")
	}
	w.out.Count("unbond:" + res)
	w.out.Nontrivial("unbond:" + res)
	w.emit(fmt.Sprintf("unbond %d", o), res)
}

func (w *world) opMkBatch() {
	ctx := w.ctx()
	n := w.nextBt
	batch := &types.OutgoingTxBatch{BatchNonce: n, BatchTimeout: 1 << 40, TokenContract: w.token, Block: uint64(ctx.BlockHeight()),
		FeeReceive: w.ext(common.HexToAddress("0x00000000000000000000000000000000000000f1")),
		Transactions: []*types.OutgoingTransferTx{{Id: n, Sender: w.oracles[0].AccAddress().String(), DestAddress: w.ext(common.HexToAddress("0x00000000000000000000000000000000000000d1")),
			Token: types.NewERC20Token(sdkmath.NewInt(10), w.token), Fee: types.NewERC20Token(sdkmath.NewInt(1), w.token)}}}
	res := kind(w.tx(func(ctx sdk.Context) error { return w.k.StoreBatch(ctx, batch) }), errTable, "other")
	if res == "ok" {
		w.nextBt++
	}
	w.out.Count("mkbatch:" + res)
	w.emit("mkbatch", res)
}

func (w *world) opMkCall() {
	res := kind(w.tx(func(ctx sdk.Context) error {
		_, err := w.k.AddOutgoingBridgeCall(ctx, common.Address{1}, common.Address{2}, nil, common.Address{3}, []byte{1, 2}, nil, 0)
		return err
	}), errTable, "other")
	w.out.Count("mkcall:" + res)
	w.emit("mkcall", res)
}

func (w *world) sign(e int, cp []byte, good bool) string {
	key := w.exts[e]
	if !good {
		key = w.exts[(e+1)%len(w.exts)]
	}
	sig, err := types.NewEthereumSignature(cp, key)
	if w.tron {
		sig, err = trontypes.NewTronSignature(cp, key)
	}
	if err != nil {
		panic(err)
	}
	return hex.EncodeToString(sig)
}

func (w *world) opConf(kd string, n uint64, e, b int, good bool) {
	ctx := w.ctx()
	gid := w.k.GetGravityID(ctx)
	var msg types.Confirm
	cp := []byte{}
	switch kd {
	case "os":
		if x := w.k.GetOracleSet(ctx, n); x != nil {
			cp, _ = x.GetCheckpoint(gid)
			if w.tron {
				cp, _ = trontypes.GetCheckpointOracleSet(x, gid)
			}
		}
		msg = &types.MsgOracleSetConfirm{Nonce: n, BridgerAddress: w.bridgers[b].String(), ExternalAddress: w.extAddr[e], Signature: w.sign(e, cp, good), ChainName: w.chain}
	case "batch":
		if x := w.k.GetOutgoingTxBatch(ctx, w.token, n); x != nil {
			cp, _ = x.GetCheckpoint(gid)
			if w.tron {
				cp, _ = trontypes.GetCheckpointConfirmBatch(x, gid)
			}
		}
		msg = &types.MsgConfirmBatch{Nonce: n, TokenContract: w.token, BridgerAddress: w.bridgers[b].String(), ExternalAddress: w.extAddr[e], Signature: w.sign(e, cp, good), ChainName: w.chain}
	case "call":
		if x, ok := w.k.GetOutgoingBridgeCallByNonce(ctx, n); ok {
			cp, _ = x.GetCheckpoint(gid)
			if w.tron {
				cp, _ = trontypes.GetCheckpointBridgeCall(x, gid)
			}
		}
		msg = &types.MsgBridgeCallConfirm{Nonce: n, BridgerAddress: w.bridgers[b].String(), ExternalAddress: w.extAddr[e], Signature: w.sign(e, cp, good), ChainName: w.chain}
	}
	// every second confirm goes through the application's message router (the registered crosschain Msg service picks the
	// chain's keeper by msg.ChainName and calls its msg server), the others through the keeper entry point
	w.confN++
	via := "keeper"
	var res string
	if hd := w.s.App.MsgServiceRouter().Handler(msg.(sdk.Msg)); w.confN%2 == 0 && hd != nil {
		via = "router"
		res = kind(w.tx(func(ctx sdk.Context) error { _, err := hd(ctx, msg.(sdk.Msg)); return err }), errTable, "other")
	} else {
		res = kind(w.tx(func(ctx sdk.Context) error { return w.k.ConfirmHandler(ctx, msg) }), errTable, "other")
	}
	w.out.Count("conf-via:" + via)
	w.out.Count("conf-" + kd + ":" + res)
	w.out.Nontrivial("conf-" + kd + ":" + res)
	g := 0
	if good {
		g = 1
	}
	w.emit(fmt.Sprintf("conf %s %d %d %d %d", kd, n, e, b, g), res)
}

func (w *world) opObserve(n uint64) {
	res := kind(w.tx(func(ctx sdk.Context) error {
		x := w.k.GetOracleSet(ctx, n)
		claim := &types.MsgOracleSetUpdatedClaim{OracleSetNonce: n}
		if x != nil {
			claim.Members = x.Members
		}
		return w.k.UpdateOracleSetExecuted(ctx, claim)
	}), errTable, "other")
	w.out.Count("observe:" + res)
	w.emit(fmt.Sprintf("observe %d", n), res)
}

type snapT struct {
	online map[int]types.Oracle
	objs   []objT
	confs  map[string]map[int]bool // "kind/nonce" → ext ids
}

func (w *world) snapshot() snapT {
	sn := snapT{online: map[int]types.Oracle{}, confs: map[string]map[int]bool{}}
	for _, o := range w.k.GetAllOracles(w.ctx(), true) {
		sn.online[w.oid(o.OracleAddress)] = o
	}
	sn.objs = w.objects()
	for _, x := range sn.objs {
		m := map[int]bool{}
		for _, f := range strings.Split(w.confExts(x.kind, x.nonce), ".") {
			if f != "" {
				var i int
				fmt.Sscan(f, &i)
				m[i] = true
			}
		}
		sn.confs[fmt.Sprintf("%s/%d", x.kind, x.nonce)] = m
	}
	return sn
}

// refreshStats records which branch of isNeedOracleSetRequest the coming end-blocker is about to take (distribution only)
func (w *world) refreshStats() {
	_ = hx.Try(func() error {
		ctx := w.ctx()
		latest := w.k.GetLatestOracleSet(ctx)
		if latest == nil {
			w.out.Count("refresh:no-latest-set")
			return nil
		}
		cur := w.k.GetCurrentOracleSet(ctx)
		d := types.BridgeValidators(cur.Members).PowerDiff(latest.Members)
		pct := w.pct.MustFloat64()
		switch {
		case d == 0:
			w.out.Count("refresh:diff=0")
		case d < pct/2:
			w.out.Count("refresh:0<diff<pct/2")
			w.out.Nontrivial("refresh:small-nonzero-diff")
		case d < pct*0.98:
			w.out.Count("refresh:pct/2<=diff<0.98pct")
		case d < pct:
			w.out.Count("refresh:0.98pct<=diff<pct")
			w.out.Nontrivial("refresh:just-below-threshold")
		case d <= pct*1.02:
			w.out.Count("refresh:pct<=diff<=1.02pct")
			w.out.Nontrivial("refresh:just-above-threshold")
		default:
			w.out.Count("refresh:diff>1.02pct")
		}
		return nil
	})
}

func (w *world) opBlock(dt int64) {
	sn := w.snapshot()
	h := uint64(w.ctx().BlockHeight())
	w.refreshStats()
	w.now = w.now.Add(time.Duration(dt) * time.Second)
	res := hx.Try(func() error { w.commitAt(w.now); return nil })
	op := fmt.Sprintf("block %d", dt)
	if res != "ok" {
		// FinalizeBlock panicked or returned an error: the chain halts here
		site := "other"
		switch {
		case strings.Contains(res, "decoding bech32 failed"), strings.Contains(res, "empty address string"):
			site = "SlashOracle:MustAccAddressFromBech32"
		case strings.Contains(res, "covert power diff to dec err"):
			site = "isNeedOracleSetRequest:LegacyNewDecFromStr"
		case strings.Contains(res, "nil pointer"):
			site = "isNeedOracleSetRequest:nil-latestOracleSet"
		case strings.Contains(res, "division by zero"):
			site = "GetCurrentOracleSet:QuoUint64"
		}
		w.dead = true
		aged := 0
		for _, x := range sn.objs {
			if x.height+w.window <= h {
				aged++
			}
		}
		w.violate(fmt.Sprintf("C07 block processing halts: FinalizeBlock %s at height %d (%d oracle set / batch / bridge call object(s) older than the signed window, %d online oracle(s)): %s", strings.SplitN(res, ":", 2)[0], h, aged, len(sn.online), site))
		w.out.Count("block:panic")
		w.out.Nontrivial("block:panic")
		if !w.tainted {
			w.out.Emit(op, "panic:"+site)
		}
		return
	}
	w.out.Count("block:ok")
	if f := w.afterCommit; f != nil {
		w.afterCommit = nil
		f()
	}
	// a few blocks after a successful unbond: nothing of the stake may turn up at, or still be bound from, the delegate
	// address of the deleted record (nobody holds a key for it)
	for _, id := range sortedIDs(w.gone) {
		g := w.gone[id]
		g.blocks++
		if _, found := w.k.GetOracle(w.ctx(), w.oracles[id].AccAddress()); !found {
			ubds, _ := w.s.App.StakingKeeper.GetUnbondingDelegations(w.ctx(), w.daddr(id), 10)
			dels, _ := w.s.App.StakingKeeper.GetDelegatorDelegations(w.ctx(), w.daddr(id), 10)
			held := w.balOf(w.daddr(id))
			if len(ubds) > 0 || len(dels) > 0 || held.GT(g.funded) {
				w.violate(fmt.Sprintf("stake not recoverable: %d block(s) after a successful UnbondedOracle deleted the record of oracle %d its keyless delegate address holds %s (harness funded %s), %d unbonding delegation(s), %d delegation(s): stranded", g.blocks, id, held, g.funded, len(ubds), len(dels)))
				delete(w.gone, id)
				continue
			}
		}
		if g.blocks >= 4 {
			delete(w.gone, id)
		}
	}
	// slashed only for a missed signing / confirmer never slashed
	for id, o := range sn.online {
		now, found := w.k.GetOracle(w.ctx(), o.GetOracle())
		if !found || now.Online {
			continue
		}
		if w.inBlockRemoved[o.OracleAddress] {
			if now.SlashTimes != o.SlashTimes {
				w.violate(fmt.Sprintf("penalty without a missed signing: oracle %d was removed by the governance proposal executed in this block and its slash_times moved from %d to %d", id, o.SlashTimes, now.SlashTimes))
			}
			continue
		}
		w.out.Nontrivial("block:slashed")
		missed, all := false, true
		for _, x := range sn.objs {
			conf := sn.confs[fmt.Sprintf("%s/%d", x.kind, x.nonce)][w.eid(o.ExternalAddress)]
			if !conf {
				all = false
			}
			old := x.height+w.window < h || (x.kind == "call" && x.height+w.window <= h)
			start := o.StartHeight
			if j, ok := w.joined[id]; ok {
				start = j // the height the PROPERTY implies: the latest (re-)join, not what the record says
			}
			if uint64(start) <= x.height && old && !conf {
				missed = true
			}
		}
		if !missed {
			w.violate(fmt.Sprintf("slashed without a missed signing: oracle %d went offline in the end-blocker although no oracle set / batch / bridge call created at or after the height it (re-)joined is older than the signed window and unconfirmed by it (confirmed everything=%v)", id, all))
		}
		if now.SlashTimes != o.SlashTimes+1 {
			w.violate("penalty charged more than once: slash_times did not advance by exactly one in the slashing block")
		}
	}
	w.emit(op, "ok")
}

func sortedIDs(m map[int]*goneT) []int {
	var ids []int
	for id := range m {
		ids = append(ids, id)
	}
	sort.Ints(ids)
	return ids
}

func (w *world) opValSlash(v int, num, den int64) {
	ctx := w.ctx()
	val, err := w.s.App.StakingKeeper.GetValidator(ctx, w.vals[v])
	if err != nil {
		return
	}
	cons, _ := val.GetConsAddr()
	power := val.ConsensusPower(sdk.DefaultPowerReduction)
	res := w.tx(func(ctx sdk.Context) error {
		_, err := w.s.App.StakingKeeper.Slash(ctx, cons, ctx.BlockHeight(), power, sdkmath.LegacyNewDec(num).QuoInt64(den))
		return err
	})
	w.out.Count("valslash:" + res)
	if !w.tainted {
		w.out.Emit(fmt.Sprintf("valslash %d %d %d", v, num, den), res+" ~")
	}
	w.tainted = true
	w.monitors("valslash", res)
}

// ---------------------------------------------------------------------------------------------------------
// world set-up

func newWorld(t *testing.T, out *hx.Out, rng *rand.Rand, mode string, cfg cfgT) *world {
	nval := 2 + rng.Intn(2)
	s := hx.NewSuite(t, nval)
	chain := cfg.chain
	if chain == "" {
		chain = "eth"
	}
	w := &world{t: t, s: s, k: keeperOf(s, chain), chain: chain, tron: chain == trontypes.ModuleName, env: cfg.env, txmode: cfg.env && cfg.txmode, out: out, rng: rng, mode: mode, nval: nval, now: baseTime, removed: map[int]bool{}, gone: map[int]*goneT{}, joined: map[int]int64{}}
	out.Count("world:chain=" + chain)
	w.ms = crosschainkeeper.NewMsgServerImpl(w.k)
	w.commitAt(w.now)
	ctx := w.ctx()
	// some worlds run with a staking unbonding time of a few seconds (shorter than the signed window in wall-clock terms):
	// an oracle can then leave completely while objects it is liable for are still inside the window
	unbSec := cfg.unb
	if unbSec == 0 && rng.Intn(4) == 0 {
		unbSec = int64(8 + rng.Intn(10))
	}
	if unbSec > 0 {
		sp, err := s.App.StakingKeeper.GetParams(ctx)
		if err != nil {
			t.Fatal(err)
		}
		sp.UnbondingTime = time.Duration(unbSec) * time.Second
		msg := &stakingtypes.MsgUpdateParams{Authority: authtypes.NewModuleAddress(govtypes.ModuleName).String(), Params: sp}
		if r := hx.Try(func() error {
			hd := s.App.MsgServiceRouter().Handler(msg)
			if hd == nil {
				return fmt.Errorf("unroutable")
			}
			_, err := hd(ctx, msg)
			return err
		}); r != "ok" {
			if err := s.App.StakingKeeper.SetParams(ctx, sp); err != nil {
				t.Fatal(err)
			}
		}
		out.Count("world:short-unbonding-time")
	}
	ut, err := s.App.StakingKeeper.UnbondingTime(ctx)
	if err != nil {
		t.Fatal(err)
	}
	w.unb = int64(ut / time.Second)
	w.pr = sdk.DefaultPowerReduction
	// params (through the keeper's validated setter, as MsgUpdateParams does)
	p := w.k.GetParams(ctx)
	w.window = uint64(2 + rng.Intn(4))
	if cfg.win > 0 {
		w.window = cfg.win
	}
	p.SignedWindow = w.window
	// the last two give oracles whose power (stake / powerReduction) is 0, or 0 until they top up
	thrChoices := []sdkmath.Int{w.pr.MulRaw(100), w.pr.MulRaw(10), w.pr.MulRaw(100).AddRaw(7), w.pr.MulRaw(3).QuoRaw(2), w.pr.MulRaw(100), w.pr.MulRaw(10), w.pr.QuoRaw(2), w.pr.SubRaw(1)}
	w.thr = thrChoices[rng.Intn(len(thrChoices))]
	w.mult = []int64{10, 2, 1, 5}[rng.Intn(4)]
	// OracleSetUpdatePowerChangePercent: default 10 %, plus boundary values (0 = refresh every block, 1 = cap)
	w.pct = []sdkmath.LegacyDec{p.OracleSetUpdatePowerChangePercent, p.OracleSetUpdatePowerChangePercent, sdkmath.LegacyNewDecWithPrec(5, 2),
		sdkmath.LegacyNewDecWithPrec(1, 3), sdkmath.LegacyNewDecWithPrec(1, 8), sdkmath.LegacyOneDec(), sdkmath.LegacyNewDecWithPrec(25, 2), sdkmath.LegacyZeroDec()}[rng.Intn(8)]
	if cfg.mult > 0 {
		w.mult = cfg.mult
	}
	if cfg.pct != nil {
		w.pct = *cfg.pct
	}
	if cfg.thr != nil {
		w.thr = *cfg.thr
	}
	p.OracleSetUpdatePowerChangePercent = w.pct
	p.DelegateThreshold = types.NewDelegateAmount(w.thr)
	p.DelegateMultiple = w.mult
	p.SlashFraction = []sdkmath.LegacyDec{sdkmath.LegacyNewDecWithPrec(8, 1), sdkmath.LegacyNewDecWithPrec(5, 1), sdkmath.LegacyNewDecWithPrec(1, 3), sdkmath.LegacyZeroDec(), sdkmath.LegacyOneDec(), sdkmath.LegacyNewDecWithPrec(333333333333333333, 18)}[rng.Intn(6)]
	if cfg.frac != nil {
		p.SlashFraction = *cfg.frac
	}
	if err := w.k.SetParams(ctx, &p); err != nil {
		t.Fatal(err)
	}
	w.k.SetLastObservedBlockHeight(ctx, 1000, uint64(ctx.BlockHeight()))
	n := 5 + rng.Intn(2)
	for i := 0; i < n; i++ {
		w.oracles = append(w.oracles, helpers.NewSigner(helpers.NewEthPrivKey()))
	}
	sort.Slice(w.oracles, func(i, j int) bool { return bytes.Compare(w.oracles[i].AccAddress(), w.oracles[j].AccAddress()) < 0 })
	bal0 := w.thr.MulRaw(w.mult).MulRaw(2).AddRaw(int64(rng.Intn(1000)))
	for _, o := range w.oracles {
		s.MintToken(o.AccAddress(), sdk.NewCoin(fxtypes.DefaultDenom, bal0))
	}
	for i := 0; i < n+2; i++ {
		bk := helpers.NewSigner(helpers.NewEthPrivKey())
		w.bkeys = append(w.bkeys, bk)
		w.bridgers = append(w.bridgers, bk.AccAddress())
		key, _ := ethcrypto.GenerateKey()
		w.exts = append(w.exts, key)
		w.extAddr = append(w.extAddr, types.ExternalAddrToStr(w.chain, ethcrypto.PubkeyToAddress(key.PublicKey).Bytes()))
	}
	w.vals = append(w.vals, s.ValAddr...)
	w.vals = append(w.vals, sdk.ValAddress(helpers.GenAccAddress()))
	w.token = w.ext(common.HexToAddress("0x00000000000000000000000000000000000000c1"))
	if w.env {
		w.envSetup()
	}
	w.nextBt = 1
	pct := p.OracleSetUpdatePowerChangePercent.MulInt(sdkmath.NewIntWithDecimal(1, 18)).TruncateInt()
	slashNum := p.SlashFraction.MulInt(sdkmath.NewIntWithDecimal(1, 18)).TruncateInt()
	out.Reset(w.thr.String(), fmt.Sprint(w.mult), slashNum.String(), fmt.Sprint(w.window), w.pr.String(), fmt.Sprint(w.unb), pct.String(),
		fmt.Sprint(nval), fmt.Sprint(n), bal0.String(), fmt.Sprint(ctx.BlockHeight()))
	return w
}

// ---------------------------------------------------------------------------------------------------------
// generators

func (w *world) pickAmt() sdkmath.Int {
	max := w.thr.MulRaw(w.mult)
	switch w.rng.Intn(10) {
	case 0:
		return w.thr.SubRaw(1)
	case 1:
		return max
	case 2:
		return max.AddRaw(1)
	case 3:
		return w.thr.AddRaw(int64(w.rng.Intn(1000)))
	case 4:
		return max.MulRaw(3)
	default:
		return w.thr
	}
}

// nudgeAmt: a top-up (whole power units) for online oracle `rec` whose effect on the normalised powers is a small
// non-zero change, or sits at the OracleSetUpdatePowerChangePercent boundary (±1 power unit)
func (w *world) nudgeAmt(rec types.Oracle) sdkmath.Int {
	total := sdkmath.ZeroInt()
	for _, o := range w.k.GetAllOracles(w.ctx(), true) {
		total = total.Add(o.GetPower())
	}
	p := rec.GetPower()
	unit := w.pr
	switch w.rng.Intn(6) {
	case 0:
		return unit
	case 1:
		return unit.MulRaw(int64(1 + w.rng.Intn(5)))
	case 2:
		return unit.AddRaw(int64(w.rng.Intn(1000)))
	}
	// Σ|Δ| ≈ 2·x·(T−p) / (T·(T+x)) = pct  ⇒  x = pct·T² / (2(T−p) − pct·T)
	T, rest := sdkmath.LegacyNewDecFromInt(total), sdkmath.LegacyNewDecFromInt(total.Sub(p))
	den := rest.MulInt64(2).Sub(w.pct.Mul(T))
	if !den.IsPositive() || w.pct.IsZero() {
		return unit
	}
	x := w.pct.Mul(T).Mul(T).Quo(den).TruncateInt().AddRaw(int64(w.rng.Intn(3)) - 1)
	if !x.IsPositive() {
		x = sdkmath.OneInt()
	}
	return x.Mul(unit)
}

func (w *world) opNudge() {
	var on []types.Oracle
	for _, o := range w.k.GetAllOracles(w.ctx(), true) {
		if w.oid(o.OracleAddress) >= 0 {
			on = append(on, o)
		}
	}
	if len(on) == 0 {
		return
	}
	rec := on[w.rng.Intn(len(on))]
	o := w.oid(rec.OracleAddress)
	amt := w.nudgeAmt(rec)
	if room := w.thr.MulRaw(w.mult).Sub(rec.DelegateAmount); amt.GT(room) && room.GTE(w.pr) && w.rng.Intn(4) > 0 {
		amt = room.Quo(w.pr).Mul(w.pr)
	}
	if have := w.balOf(w.oracles[o].AccAddress()); have.LT(amt) {
		w.s.MintToken(w.oracles[o].AccAddress(), sdk.NewCoin(fxtypes.DefaultDenom, amt))
		w.emit(fmt.Sprintf("mint %d %s", o, amt), "ok")
	}
	w.out.Count("nudge")
	w.opAdd(o, amt)
}

func (w *world) oracles0Bridger() string {
	if rec, ok := w.k.GetOracle(w.ctx(), w.oracles[0].AccAddress()); ok {
		return rec.BridgerAddress
	}
	return w.bridgers[0].String()
}

func (w *world) records() []types.Oracle { return w.k.GetAllOracles(w.ctx(), false) }

// confirmRound: diligent oracles confirm the pending objects (explicit ops)
func (w *world) confirmRound(diligent map[int]bool, prob float64) {
	for _, x := range w.objects() {
		for _, o := range w.records() {
			id := w.oid(o.OracleAddress)
			if !diligent[id] || w.rng.Float64() > prob {
				continue
			}
			e, b := w.eid(o.ExternalAddress), w.bid(o.BridgerAddress)
			if strings.Contains("."+w.confExts(x.kind, x.nonce)+".", fmt.Sprintf(".%d.", e)) {
				continue
			}
			w.opConf(x.kind, x.nonce, e, b, true)
		}
	}
}

func (w *world) sequence(length int) {
	rng := w.rng
	n := len(w.oracles)
	all := make([]int, n)
	for i := range all {
		all[i] = i
	}
	diligent := map[int]bool{}
	for i := 0; i < n; i++ {
		diligent[i] = rng.Intn(4) != 0
	}
	// approval + initial bonds
	appr := all
	if rng.Intn(4) == 0 {
		appr = all[:n-1]
	}
	w.opGov(appr)
	for i := 0; i < n; i++ {
		if rng.Intn(8) == 0 {
			continue
		}
		amt := w.thr
		if rng.Intn(3) == 0 {
			amt = w.pickAmt()
		}
		b, e := i, i
		if rng.Intn(10) == 0 {
			b = rng.Intn(len(w.bridgers))
		}
		if rng.Intn(10) == 0 {
			e = rng.Intn(len(w.extAddr))
		}
		w.opBond(i, b, e, rng.Intn(w.nval), amt)
	}
	for step := 0; step < length && !w.dead; step++ {
		r := rng.Intn(100)
		o := rng.Intn(n)
		switch {
		case r < 30:
			dt := int64(5)
			switch rng.Intn(12) {
			case 0:
				dt = w.unb + 1
			case 1:
				dt = w.unb / 2
			case 2:
				dt = w.unb
			}
			w.opBlock(dt)
			if !w.dead {
				w.confirmRound(diligent, 0.9)
			}
		case r < 36:
			w.opMkCall()
		case r < 42:
			w.opMkBatch()
		case r < 50:
			// governance: drop one or two, or re-approve everybody
			list := append([]int{}, all...)
			switch rng.Intn(5) {
			case 0:
				list = all
			case 1:
				rng.Shuffle(len(list), func(i, j int) { list[i], list[j] = list[j], list[i] })
				list = list[:n-2]
			default:
				k := rng.Intn(n)
				list = append(list[:k], list[k+1:]...)
			}
			if rng.Intn(3) == 0 {
				w.opGovInBlock(list) // as the message of a passed proposal, inside the gov end-blocker of a real block
			} else {
				w.opGov(list)
			}
		case r < 53:
			w.opNudge()
		case r < 58:
			if len(w.removed) > 0 && rng.Intn(2) == 0 { // prefer an oracle governance has removed
				var ids []int
				for id := range w.removed {
					ids = append(ids, id)
				}
				sort.Ints(ids)
				o = ids[rng.Intn(len(ids))]
			}
			if rng.Intn(2) == 0 { // prefer an oracle the end-blocker took offline (it has a penalty to pay)
				for _, rec := range w.records() {
					if !rec.Online && rec.SlashTimes > 0 && w.k.IsProposalOracle(w.ctx(), rec.OracleAddress) {
						o = w.oid(rec.OracleAddress)
						w.out.Count("add:target-slashed")
						break
					}
				}
			}
			amt := w.pickAmt()
			if rec, ok := w.k.GetOracle(w.ctx(), w.oracles[o].AccAddress()); ok && rng.Intn(3) > 0 {
				sl := rec.GetSlashAmount(w.k.GetSlashFraction(w.ctx()))
				amt = []sdkmath.Int{sl, sl.AddRaw(1), sl.AddRaw(int64(rng.Intn(100000))), sl.Add(w.thr), sdkmath.OneInt()}[rng.Intn(5)]
				if !amt.IsPositive() {
					amt = sdkmath.OneInt()
				}
			}
			w.opAdd(o, amt)
		case r < 61:
			w.opUnbond(o)
		case r < 64:
			ids := []int{}
			for id := range w.removed {
				ids = append(ids, id)
			}
			sort.Ints(ids)
			if len(ids) == 0 || !w.opUnbondNear(ids[rng.Intn(len(ids))], int64(rng.Intn(3))-1) {
				w.opUnbond(o)
			}
		case r < 69:
			w.opRedel(o, rng.Intn(len(w.vals)))
		case r < 74:
			w.opEditB(o, rng.Intn(len(w.bridgers)))
		case r < 78:
			w.opWithdraw(o)
		case r < 81:
			w.opFund(o, sdkmath.NewInt(int64(1+rng.Intn(1000))))
		case r < 86:
			w.opBond(o, rng.Intn(len(w.bridgers)), rng.Intn(len(w.extAddr)), rng.Intn(len(w.vals)), w.pickAmt())
		case r < 92:
			// malformed / boundary confirms
			objs := w.objects()
			recs := w.records()
			if len(objs) == 0 || len(recs) == 0 {
				continue
			}
			x := objs[rng.Intn(len(objs))]
			rec := recs[rng.Intn(len(recs))]
			e, b := w.eid(rec.ExternalAddress), w.bid(rec.BridgerAddress)
			nn := x.nonce
			good := true
			switch rng.Intn(5) {
			case 0:
				b = rng.Intn(len(w.bridgers))
			case 1:
				e = rng.Intn(len(w.extAddr))
			case 2:
				nn = x.nonce + 50
			case 3:
				good = false
			}
			w.opConf(x.kind, nn, e, b, good)
		case r < 95:
			sets := w.k.GetOracleSets(w.ctx())
			nn := uint64(1 + rng.Intn(3))
			if len(sets) > 0 && rng.Intn(4) > 0 {
				nn = sets[rng.Intn(len(sets))].Nonce
			}
			w.opObserve(nn)
		case r < 97:
			if w.mode == "c13" && step > length/2 {
				w.opValSlash(rng.Intn(w.nval), 1, int64(2+rng.Intn(9)))
			}
		default:
			w.confirmRound(diligent, 0.5)
		}
	}
}

// lifecycle: the complete bond → governance removal → maturity → unbond cycle, plus an aged unconfirmed bridge call
func (w *world) lifecycle(variant int) {
	n := len(w.oracles)
	all := make([]int, n)
	for i := range all {
		all[i] = i
	}
	w.opGov(all)
	// stake bounds at ±1 (always): below the threshold, one above the maximum, then exactly the maximum for one oracle
	max := w.thr.MulRaw(w.mult)
	w.opBond(0, 0, 0, 0, w.thr.SubRaw(1))
	w.opBond(0, 0, 0, 0, max.AddRaw(1))
	w.opBond(0, 0, 0, 0, max.Add(w.thr))
	for i := 0; i < n; i++ {
		if variant%9 == 5 && i == n-1 {
			continue // the late joiner
		}
		w.opBond(i, i, i, i%w.nval, w.thr)
	}
	dil := map[int]bool{}
	for i := 0; i < n; i++ {
		dil[i] = true
	}
	w.opAdd(1, max.Sub(w.thr).AddRaw(1)) // one above the maximum in total
	if variant%9 == 7 {
		delete(dil, 0) // oracle 0 never confirms anything, not even the first oracle set it is a member of
	}
	w.opBlock(5)
	w.confirmRound(dil, 1)
	if (variant/9)%2 == 1 { // the latest oracle set is observed on the external chain, then nothing changes for a while
		w.opObserve(w.k.GetLatestOracleSetNonce(w.ctx()))
	}
	switch variant % 9 {
	case 8: // slash → re-join → keep confirming everything created after the re-join → run past the signed window of the
		// objects created in / before the slashing block (incl. the oracle set the chain emits in the block of the slash)
		delete(dil, 0)
		if (variant/9)%2 == 0 {
			w.opMkCall()
		} else {
			w.opMkBatch()
		}
		slashed := false
		for i := uint64(0); i < w.window+3 && !w.dead && !slashed; i++ {
			w.opBlock(5)
			if w.dead {
				break
			}
			w.confirmRound(dil, 1)
			if rec, ok := w.k.GetOracle(w.ctx(), w.oracles[0].AccAddress()); ok && !rec.Online {
				slashed = true
			}
		}
		if slashed && !w.dead {
			if (variant/9)%2 == 1 {
				w.opBlock(5) // re-join one block later
				w.confirmRound(dil, 1)
			}
			rec, _ := w.k.GetOracle(w.ctx(), w.oracles[0].AccAddress())
			w.opAdd(0, rec.GetSlashAmount(w.k.GetSlashFraction(w.ctx())).AddRaw(1))
			join := uint64(w.ctx().BlockHeight())
			for i := uint64(0); i < w.window+4 && !w.dead; i++ {
				w.opBlock(5)
				if w.dead {
					break
				}
				w.confirmRound(dil, 1)
				for _, x := range w.objects() { // oracle 0 confirms exactly what was created at or after its re-join
					if x.height >= join && !strings.Contains("."+w.confExts(x.kind, x.nonce)+".", ".0.") {
						w.opConf(x.kind, x.nonce, 0, w.bid(w.oracles0Bridger()), true)
					}
				}
			}
		}
	case 6: // unbond transactions around the maturity of the unbonding entry: completion-1, =completion (inside the block,
		// before the staking end-blocker pays out), the block after; every second time the removal is the message of a passed
		// proposal executed by the gov end-blocker
		if w.rng.Intn(2) == 0 {
			w.opGovInBlock(all[1:])
		} else {
			w.opGov(all[1:])
		}
		w.opBlock(5)
		w.confirmRound(dil, 1)
		w.opUnbondNear(0, -1)
		if !w.dead {
			w.confirmRound(dil, 1)
			if !w.opUnbondNear(0, 0) { // entry already gone? then a plain attempt
				w.opUnbond(0)
			}
		}
		for i := 0; i < 3 && !w.dead; i++ {
			w.opTick(1)
			w.opUnbond(0)
			w.opBlock(0)
			w.confirmRound(dil, 1)
		}
	case 7: // an oracle that never confirms leaves COMPLETELY (removed, undelegation completes, record deleted) while the
		// oracle set it is a member of, and a batch / bridge call it is liable for, are still inside the signed window
		delete(dil, 0)
		w.opMkBatch()
		w.opMkCall()
		w.opGov(all[1:])
		w.opBlock(w.unb + 1)
		w.confirmRound(dil, 1)
		w.opUnbond(0)
		for i := uint64(0); i < w.window+3 && !w.dead; i++ {
			w.opBlock(5)
			if !w.dead {
				w.confirmRound(dil, 1)
			}
		}
	case 5: // late joiner: objects created before an oracle joined age unconfirmed by it; it confirms what was created after
		// (the last oracle account has not bonded yet: see the caller)
		w.opMkBatch()
		w.opMkCall()
		w.opBlock(5)
		w.confirmRound(dil, 1)
		late := n - 1
		w.opBond(late, late, late, late%w.nval, w.thr)
		rec, ok := w.k.GetOracle(w.ctx(), w.oracles[late].AccAddress())
		for i := uint64(0); i < w.window+3 && !w.dead; i++ {
			w.opBlock(5)
			if w.dead {
				break
			}
			delete(dil, late)
			w.confirmRound(dil, 1)
			if ok { // the late joiner confirms exactly the objects created at or after its start height
				for _, x := range w.objects() {
					if x.height >= uint64(rec.StartHeight) && !strings.Contains("."+w.confExts(x.kind, x.nonce)+".", fmt.Sprintf(".%d.", late)) {
						w.opConf(x.kind, x.nonce, late, late, true)
					}
				}
			}
		}
	case 3: // small relative power changes (whole power units, sized around the refresh threshold) with no slash in the block
		for r := 0; r < 7 && !w.dead; r++ {
			w.opNudge()
			w.opBlock(5)
			if !w.dead {
				w.confirmRound(dil, 1)
			}
		}
	case 4: // everybody confirms, then some oracles change their bridger before the signed window elapses
		w.opMkBatch()
		w.opMkCall()
		w.confirmRound(dil, 1)
		w.opEditB(0, n)
		if (variant/9)%2 == 0 {
			w.opEditB(1, n+1)
		}
		for i := uint64(0); i < w.window+3 && !w.dead; i++ {
			w.opBlock(5)
			if !w.dead {
				w.confirmRound(dil, 1)
			}
		}
	case 0: // removal, the removed oracle tries to top up / act, early unbond attempt, maturity, unbond
		w.opGov(all[1:])
		w.opAdd(0, sdkmath.OneInt())
		w.opAdd(0, w.pr)
		w.opEditB(0, n)
		w.opWithdraw(0)
		w.opBlock(5)
		w.confirmRound(dil, 1)
		if (variant/9)%2 == 0 {
			w.opUnbond(0)
		}
		w.opBlock(w.unb + 1)
		w.confirmRound(dil, 1)
		w.opUnbond(0)
		w.opUnbond(0)
		w.opBlock(5)
	case 1: // a bridge call nobody confirms ages past the signed window while oracle sets are confirmed
		w.opMkCall()
		for i := uint64(0); i < w.window+2 && !w.dead; i++ {
			w.opBlock(5)
			if !w.dead {
				for _, x := range w.objects() {
					if x.kind == "os" {
						for _, o := range w.records() {
							e := w.eid(o.ExternalAddress)
							if !strings.Contains("."+w.confExts("os", x.nonce)+".", fmt.Sprintf(".%d.", e)) {
								w.opConf("os", x.nonce, e, w.bid(o.BridgerAddress), true)
							}
						}
					}
				}
			}
		}
	case 2: // slashed oracle removed by governance, matures, unbonds paying the penalty; re-approval path
		delete(dil, 0)
		w.opMkBatch()
		for i := uint64(0); i < w.window+2 && !w.dead; i++ {
			w.opBlock(5)
			w.confirmRound(dil, 1)
		}
		w.opGov(all[1:])
		w.opBlock(w.unb + 1)
		w.confirmRound(dil, 1)
		if (variant/9)%2 == 0 {
			w.opGov(all)
			w.opAdd(0, w.thr)
			w.opBlock(5)
			w.opWithdraw(0)
		} else {
			// the removed, matured oracle asks for its rewards BEFORE it unbonds: refused (offline) — were it served, the matured
			// stake sitting at the delegate address, penalty included, would be swept out and the unbond could never pay
			w.opWithdraw(0)
			w.opUnbond(0)
		}
		w.opBlock(5)
	}
}

// capBoundary: five oracles with 1000 power units in total; governance tries to drop oracle 0, which holds 300 + k units
// (k = -1: one unit below 30 % → accepted; k = 0: exactly 30 % → refused; k = +1: refused), then drops a 175-unit oracle (17.5 %)
func (w *world) capBoundary(k int64) {
	all := []int{0, 1, 2, 3, 4}
	w.opGov(all)
	pw := func(n int64) sdkmath.Int { return w.pr.MulRaw(n) }
	w.opBond(0, 0, 0, 0, pw(300+k))
	for i := 1; i < 5; i++ {
		a := int64(175)
		if i == 1 {
			a -= k
		}
		w.opBond(i, i, i, i%w.nval, pw(a).AddRaw(int64(w.rng.Intn(1000)))) // sub-unit dust does not count as power
	}
	w.opBlock(5)
	w.opGov(all[1:])
	w.opBlock(5)
	w.opGov([]int{0, 1, 2, 3}) // oracle 4 (175 of the online power) leaves, and oracle 0 is (re-)listed
	w.opBlock(5)
	// an offline oracle's power does not count on either side: after the end-blocker slashed the non-confirming oracle 1
	// (nobody confirms anything here) the same kind of update is measured against what is still online
	for i := uint64(0); i < w.window+2 && !w.dead; i++ {
		w.opBlock(5)
	}
	if !w.dead {
		w.opGov([]int{0, 2, 3})
		w.opBlock(5)
	}
}

// shortfall: an oracle is penalised by the end-blocker, then its validator is slashed so hard that what is left of the stake
// does not cover the penalty, then governance removes it and the unbonding entry matures
func (w *world) shortfall() {
	all := []int{0, 1, 2, 3, 4}
	w.opGov(all)
	for i := 0; i < 5; i++ {
		v := 0
		if i > 0 {
			v = 1 % w.nval
		}
		w.opBond(i, i, i, v, w.thr)
	}
	dil := map[int]bool{1: true, 2: true, 3: true, 4: true}
	w.opMkCall()
	for i := uint64(0); i < w.window+3 && !w.dead; i++ {
		w.opBlock(5)
		w.confirmRound(dil, 1)
	}
	if w.dead {
		return
	}
	w.opValSlash(0, 9, 10)
	w.opGov(all[1:])
	w.opBlock(w.unb + 1)
	w.opBlock(5)
	w.opUnbond(0)
	// top the delegate address up by the shortfall: now the unbond must go through
	if rec, ok := w.k.GetOracle(w.ctx(), w.oracles[0].AccAddress()); ok {
		if short := rec.GetSlashAmount(w.k.GetSlashFraction(w.ctx())).Sub(w.balOf(w.daddr(0))); short.IsPositive() {
			w.s.MintToken(w.daddr(0), sdk.NewCoin(fxtypes.DefaultDenom, short))
			w.out.Count("shortfall:topped-up")
			rec0 := rec
			r := kind(w.tx(func(ctx sdk.Context) error {
				_, err := w.ms.UnbondedOracle(ctx, &types.MsgUnbondedOracle{OracleAddress: rec0.OracleAddress, ChainName: w.chain})
				return err
			}), errTable, "other")
			w.out.Count("shortfall:unbond-after-top-up:" + r)
			if r != "ok" {
				w.violate("stake not recoverable after a validator slash: UnbondedOracle still fails after the delegate address was topped up to the penalty (" + r + ")")
			}
		}
	}
	w.opBlock(5)
}

func runAll(t *testing.T, mode string) {
	seed := hx.Seed()
	rng := rand.New(rand.NewSource(seed))
	out := hx.NewOut()
	defer out.Close("correspondence: real eth crosschain module + real staking/bank (FinalizeBlock per `block`, block time moved past the unbonding period) vs Lean model, canonical registry/stake/slashing state after every op; monitors: registry one-to-one, bond bounds, penalty once, stake recoverable (dry-run UnbondedOracle after maturity), slashed only for missed signing, FinalizeBlock never panics. non-trivial = distinct (op, outcome) classes")
	nseq := hx.N(38, 400)
	const nLife = 18
	length := 28
	if hx.Tier() == "thorough" {
		length = 45
	}
	if os.Getenv("C13_LEN") != "" {
		fmt.Sscan(os.Getenv("C13_LEN"), &length)
	}
	for i := 0; i < nseq; i++ {
		cfg := cfgT{}
		if i < nLife && i%9 == 3 {
			cfg.mult = 10
			if i >= 9 {
				five := sdkmath.LegacyNewDecWithPrec(5, 2)
				cfg.pct = &five
			}
		}
		if i < nLife && i%9 == 8 {
			// slash → re-join: once with the tightest multiple (the re-join fits by one unit), once with room above the stake
			// and a penalty that is a proper part of it (what the re-joining oracle pays is penalty + new stake)
			cfg.mult = 2
			if i >= 9 {
				cfg.mult = 5
				half := sdkmath.LegacyNewDecWithPrec(5, 1)
				cfg.frac = &half
			}
		}
		if i < nLife && i%9 == 7 {
			cfg.win = 4
			if i >= 9 {
				cfg.unb = 10
			}
		}
		// C07: every registered chain module in turn (lifecycles and random sequences); C13: eth, every fifth world another chain
		if mode == "c07" {
			cfg.chain = allChains[i%len(allChains)]
		} else if i%5 == 4 {
			cfg.chain = allChains[(i/5)%len(allChains)]
		}
		w := newWorld(t, out, rng, mode, cfg)
		if i < nLife {
			w.lifecycle(i)
		} else {
			w.sequence(length)
		}
	}
	if mode == "c13" {
		// directed: the 30 % power-change cap at its boundary (one power unit below / exactly / one above), and a validator slash
		// that leaves less than the penalty
		hundred, eighty := sdk.DefaultPowerReduction.MulRaw(100), sdkmath.LegacyNewDecWithPrec(8, 1)
		for _, k := range []int64{-1, 0, 1} {
			w := newWorld(t, out, rng, mode, cfgT{thr: &hundred, mult: 10, win: 3})
			w.capBoundary(k)
		}
		w := newWorld(t, out, rng, mode, cfgT{thr: &hundred, mult: 2, win: 3, frac: &eighty, unb: 12})
		w.shortfall()
	}
	if mode == "c07" {
		// environment worlds: pool / batch / bridge-call / attestation traffic on every chain, a real block after every op
		nenv := hx.N(len(allChains), 6*len(allChains))
		for i := 0; i < nenv; i++ {
			// every second environment world delivers its claims and pool messages as signed transactions inside FinalizeBlock
			w := newWorld(t, out, rng, mode, cfgT{chain: allChains[i%len(allChains)], env: true, txmode: (i+i/len(allChains))%2 == 1})
			w.envSequence(hx.N(16, 40))
		}
		checkAppBlockers(t, out)
	}
	if mode == "c07" {
		runGov(t, out, rng) // gov half: real gov end-blocker (tally, deposits, expedited conversion) after every step
	}
	t.Logf("sequences=%d evaluations=%d violations=%d", out.Stats.Sequences, out.Stats.Evaluations, len(out.Stats.Violations))
}

func TestC13(t *testing.T) { runAll(t, "c13") }

func TestC07(t *testing.T) { runAll(t, "c07") }

var _ = stakingtypes.ModuleName
