package c13

// C07, "environment" worlds: the crosschain end-blocker of EVERY registered chain module (eth, bsc, polygon, avalanche,
// arbitrum, optimism, layer2, tron) under histories that contain pool / batch / bridge-call / attestation traffic:
//
//   * `mkbatch` is the REAL path: MsgSendToExternal into the pool, then MsgRequestBatch (BuildOutgoingTxBatch);
//   * `mkcall` is a real MsgBridgeCall where the router has it (falls back to Keeper.AddOutgoingBridgeCall);
//   * `event …` is one external-chain event voted in by the online oracles' bridgers through real MsgClaim messages (the
//     message router → RouterKeeper → the chain's message server → Attest): SendToFx, SendToExternal (batch executed: the
//     batch and every earlier batch of the token are deleted), BridgeCallResult (parked, then Keeper.ExecuteClaim: the
//     outgoing bridge call and its confirms are deleted), OracleSetUpdated (last observed oracle set), with external block
//     heights that sometimes jump past the batch / bridge-call timeouts (cleanupTimedOutBatches / cleanupTimeOutBridgeCall);
//     the op line carries what disappeared from the slashing-relevant state, the Lean model applies exactly that;
//   * a real FinalizeBlock + Commit follows EVERY op; a panic or an error there is the C07 violation.

import (
	"fmt"
	"sort"
	"strings"

	sdkmath "cosmossdk.io/math"
	abci "github.com/cometbft/cometbft/abci/types"
	clienttx "github.com/cosmos/cosmos-sdk/client/tx"
	codectypes "github.com/cosmos/cosmos-sdk/codec/types"
	sdk "github.com/cosmos/cosmos-sdk/types"
	"github.com/cosmos/cosmos-sdk/types/tx/signing"
	authsigning "github.com/cosmos/cosmos-sdk/x/auth/signing"
	"github.com/ethereum/go-ethereum/common"

	"github.com/functionx/fx-core/v8/testutil/helpers"
	fxtypes "github.com/functionx/fx-core/v8/types"
	crosschainkeeper "github.com/functionx/fx-core/v8/x/crosschain/keeper"
	"github.com/functionx/fx-core/v8/x/crosschain/types"

	"fxverif/harness/hx"
)

// allChains: the crosschain modules the harness can drive; compared with the REGENERATED list of modules whose EndBlock is the
// shared crosschain end-blocker (facts "C07.app": crosschainEndBlockers) in checkAppBlockers
var allChains = []string{"eth", "bsc", "polygon", "avalanche", "arbitrum", "optimism", "layer2", "tron"}

func keeperOf(s *hx.Suite, name string) crosschainkeeper.Keeper {
	switch name {
	case "eth":
		return s.App.EthKeeper
	case "bsc":
		return s.App.BscKeeper
	case "polygon":
		return s.App.PolygonKeeper
	case "avalanche":
		return s.App.AvalancheKeeper
	case "arbitrum":
		return s.App.ArbitrumKeeper
	case "optimism":
		return s.App.OptimismKeeper
	case "layer2":
		return s.App.Layer2Keeper
	case "tron":
		return s.App.TronKeeper
	}
	panic("unknown chain " + name)
}

// ext: an external-chain address in the text form of this world's chain (hex, or tron base58)
func (w *world) ext(a common.Address) string { return types.ExternalAddrToStr(w.chain, a.Bytes()) }

func (w *world) envSetup() {
	ctx := w.ctx()
	// FX itself is the bridged token (as on the real network); the module account holds what was "locked" on this chain
	_ = w.k.AddBridgeTokenExecuted(ctx, &types.MsgBridgeTokenClaim{TokenContract: w.token, Name: "Function X", Symbol: fxtypes.DefaultDenom, Decimals: 18, ChainName: w.chain})
	if c, ok := w.k.GetContractByBridgeDenom(ctx, fxtypes.DefaultDenom); ok {
		w.token = c
	}
	w.s.MintTokenToModule(w.chain, sdk.NewCoin(fxtypes.DefaultDenom, w.pr.MulRaw(1000)))
	w.user = helpers.NewSigner(helpers.NewEthPrivKey())
	w.s.MintToken(w.user.AccAddress(), sdk.NewCoin(fxtypes.DefaultDenom, w.pr.MulRaw(1000)))
	w.extH = 1000
	if w.txmode {
		// the accounts that sign transactions must exist (zero fee: the minimum gas price is a CheckTx rule)
		for _, b := range w.bridgers {
			w.s.MintToken(b, sdk.NewCoin(fxtypes.DefaultDenom, sdkmath.NewInt(1)))
		}
		w.out.Count("world:env-signed-txs")
	}
}

// ---------------------------------------------------------------------------------------------------------
// signed transactions inside FinalizeBlock (txmode worlds): claims and pool messages pass the real ante chain and baseapp's
// runTx (with its panic recovery) in the block whose end-blocker then runs on the state they left

// queue signs `msg` with `by` (SIGN_MODE_DIRECT, zero fee; sequence = account sequence + transactions this signer already has in the
// pending block) and appends it to the pending block; -1 when it cannot be built
func (w *world) queue(by *helpers.Signer, msg sdk.Msg) int {
	txc := w.s.App.GetTxConfig()
	ctx := w.ctx()
	txb := txc.NewTxBuilder()
	if err := txb.SetMsgs(msg); err != nil {
		return -1
	}
	txb.SetGasLimit(5_000_000)
	acc := w.s.App.AccountKeeper.GetAccount(ctx, by.AccAddress())
	if acc == nil {
		w.out.Count("tx:no-account")
		return -1
	}
	if w.txAhead == nil {
		w.txAhead = map[string]uint64{}
	}
	seq := acc.GetSequence() + w.txAhead[by.AccAddress().String()]
	pk := by.PrivKey().PubKey()
	mode := signing.SignMode_SIGN_MODE_DIRECT
	sig := signing.SignatureV2{PubKey: pk, Data: &signing.SingleSignatureData{SignMode: mode}, Sequence: seq}
	if err := txb.SetSignatures(sig); err != nil {
		return -1
	}
	sd := authsigning.SignerData{Address: by.AccAddress().String(), ChainID: ctx.ChainID(), AccountNumber: acc.GetAccountNumber(), Sequence: seq, PubKey: pk}
	sig, err := clienttx.SignWithPrivKey(ctx, mode, sd, txb, by.PrivKey(), txc, seq)
	if err != nil {
		return -1
	}
	if err := txb.SetSignatures(sig); err != nil {
		return -1
	}
	raw, err := txc.TxEncoder()(txb.GetTx())
	if err != nil {
		return -1
	}
	w.txAhead[by.AccAddress().String()]++
	w.txs = append(w.txs, raw)
	return len(w.txs) - 1
}

// txKind: result of transaction i of the block just finalized, as the error text the handlers produced (the ABCI log carries it)
func (w *world) txKind(i int) string {
	if i < 0 || i >= len(w.txRes) {
		return "err:not-delivered"
	}
	r := w.txRes[i]
	if r.Code == 0 {
		return "ok"
	}
	if strings.Contains(r.Log, "panic") || strings.Contains(r.Log, "runtime error") {
		return "panic:" + r.Log
	}
	return r.Log
}

func (w *world) signerOf(addr string) *helpers.Signer {
	for _, k := range w.bkeys {
		if k.AccAddress().String() == addr {
			return k
		}
	}
	for _, k := range w.oracles {
		if k.AccAddress().String() == addr {
			return k
		}
	}
	return nil
}

// txBlock: the block that carries the queued transactions; `then` runs after a successful commit and BEFORE the block's own op
// line: it writes the `intx …` line(s) of the ops the transactions carried
func (w *world) txBlock(then func()) {
	w.afterCommit = then
	w.txAhead = nil
	w.opBlock(5)
	w.afterCommit = nil
}

var _ = abci.ExecTxResult{}

// deliver: through the app's real message router when it has a route for the message, else the chain's message server
func (w *world) deliver(msg sdk.Msg, direct func(ctx sdk.Context) error) string {
	return w.tx(func(ctx sdk.Context) error {
		if hd := w.s.App.MsgServiceRouter().Handler(msg); hd != nil {
			_, err := hd(ctx, msg)
			return err
		}
		w.out.Count("deliver:no-route:" + sdk.MsgTypeURL(msg))
		if direct == nil {
			return fmt.Errorf("unroutable")
		}
		return direct(ctx)
	})
}

// afterOp: environment worlds run a block after every op
func (w *world) afterOp() {
	if w.env && !w.dead {
		w.opBlock(5)
	}
}

// envMkBatch: pool entry + batch request through the real handlers; the op line is the model's `mkbatch`
func (w *world) envMkBatch() {
	fee := sdk.NewCoin(fxtypes.DefaultDenom, sdkmath.NewInt(int64(1+w.rng.Intn(5))))
	send := &types.MsgSendToExternal{Sender: w.user.AccAddress().String(), Dest: w.ext(common.HexToAddress("0x00000000000000000000000000000000000000d1")),
		Amount: sdk.NewCoin(fxtypes.DefaultDenom, sdkmath.NewInt(int64(10+w.rng.Intn(50)))), BridgeFee: fee, ChainName: w.chain}
	if w.txmode {
		w.envMkBatchTx(send)
		return
	}
	r1 := w.deliver(send, func(ctx sdk.Context) error { _, err := w.ms.SendToExternal(ctx, send); return err })
	w.out.Count("env:send-to-external:" + short(r1))
	// the sender of a batch request must be a bridger or an approved oracle
	sender := w.oracles[0].AccAddress().String()
	for _, o := range w.k.GetAllOracles(w.ctx(), true) {
		sender = o.BridgerAddress
		break
	}
	req := &types.MsgRequestBatch{Sender: sender, Denom: fxtypes.DefaultDenom, MinimumFee: sdkmath.OneInt(),
		FeeReceive: w.ext(common.HexToAddress("0x00000000000000000000000000000000000000f1")), ChainName: w.chain, BaseFee: sdkmath.ZeroInt()}
	before := len(w.batchNonces())
	r2 := w.deliver(req, func(ctx sdk.Context) error { _, err := w.ms.RequestBatch(ctx, req); return err })
	res := kind(r2, errTable, "other")
	w.out.Count("env:request-batch:" + res)
	switch {
	case res == "ok" && len(w.batchNonces()) == before+1:
		w.out.Nontrivial("env:real-batch")
		w.emit("mkbatch", "ok")
	case res == "err:dup-block":
		w.emit("mkbatch", res)
	default:
		// nothing was built (empty pool, not profitable, no timeout height yet, sender not an oracle): no op for the model
		w.emit("event - - - =", "ok")
	}
	w.afterOp()
}

// envMkBatchTx: MsgSendToExternal (signed by the user) and MsgRequestBatch (signed by a bridger) as transactions of one block
func (w *world) envMkBatchTx(send *types.MsgSendToExternal) {
	sender := w.oracles[0].AccAddress().String()
	for _, o := range w.k.GetAllOracles(w.ctx(), true) {
		sender = o.BridgerAddress
		break
	}
	req := &types.MsgRequestBatch{Sender: sender, Denom: fxtypes.DefaultDenom, MinimumFee: sdkmath.OneInt(),
		FeeReceive: w.ext(common.HexToAddress("0x00000000000000000000000000000000000000f1")), ChainName: w.chain, BaseFee: sdkmath.ZeroInt()}
	before := len(w.batchNonces())
	i1 := w.queue(w.user, send)
	i2 := -1
	if by := w.signerOf(sender); by != nil {
		i2 = w.queue(by, req)
	}
	w.txBlock(func() {
		w.out.Count("env:tx:send-to-external:" + short(w.txKind(i1)))
		res := kind(w.txKind(i2), errTable, "other")
		w.out.Count("env:tx:request-batch:" + res)
		switch {
		case res == "ok" && len(w.batchNonces()) == before+1:
			w.out.Nontrivial("env:tx:real-batch")
			w.out.Emit("intx mkbatch", "ok ~")
		case res == "err:dup-block":
			w.out.Emit("intx mkbatch", res+" ~")
		default:
			w.out.Emit("intx event - - - =", "ok ~")
		}
	})
}

func (w *world) envMkCall() {
	w.opMkCall()
	w.afterOp()
}

func (w *world) batchNonces() []uint64 {
	var ns []uint64
	w.k.IterateOutgoingTxBatches(w.ctx(), func(b *types.OutgoingTxBatch) bool { ns = append(ns, b.BatchNonce); return false })
	sort.Slice(ns, func(i, j int) bool { return ns[i] < ns[j] })
	return ns
}

func (w *world) callNonces() []uint64 {
	var ns []uint64
	w.k.IterateOutgoingBridgeCalls(w.ctx(), func(c *types.OutgoingBridgeCall) bool { ns = append(ns, c.Nonce); return false })
	sort.Slice(ns, func(i, j int) bool { return ns[i] < ns[j] })
	return ns
}

func missing(before, after []uint64) []uint64 {
	in := map[uint64]bool{}
	for _, n := range after {
		in[n] = true
	}
	var res []uint64
	for _, n := range before {
		if !in[n] {
			res = append(res, n)
		}
	}
	return res
}

func dots(ns []uint64) string {
	if len(ns) == 0 {
		return "-"
	}
	var ss []string
	for _, n := range ns {
		ss = append(ss, fmt.Sprint(n))
	}
	return strings.Join(ss, ".")
}

// vote: every online oracle whose next admissible event nonce is `nonce` submits the claim through a real MsgClaim
func (w *world) vote(nonce uint64, mk func(bridger string) types.ExternalClaim) (votes int, panicked string) {
	for _, o := range w.k.GetAllOracles(w.ctx(), true) {
		if w.k.GetLastEventNonceByOracle(w.ctx(), o.GetOracle())+1 != nonce {
			continue
		}
		claim := mk(o.BridgerAddress)
		anyv, err := codectypes.NewAnyWithValue(claim)
		if err != nil {
			panic(err)
		}
		msg := &types.MsgClaim{ChainName: w.chain, BridgerAddress: o.BridgerAddress, Claim: anyv}
		if msg.ValidateBasic() != nil {
			w.out.Count("env:claim:vb-reject")
			continue
		}
		if w.txmode && !w.claimTxClosed {
			if by := w.signerOf(o.BridgerAddress); by != nil {
				if i := w.queue(by, msg); i >= 0 {
					w.claimTx = append(w.claimTx, i)
					votes++
				}
			}
			continue
		}
		r := w.deliver(msg, func(ctx sdk.Context) error { _, err := w.ms.Claim(ctx, msg); return err })
		w.out.Count("env:claim:" + short(r))
		if strings.HasPrefix(r, "panic") {
			panicked = r
		}
		if r == "ok" {
			votes++
		}
	}
	return votes, panicked
}

// opEvent: one external-chain event
func (w *world) opEvent(what string) {
	ctx := w.ctx()
	nonce := w.k.GetLastObservedEventNonce(ctx) + 1
	w.extH += uint64(1 + w.rng.Intn(3))
	switch w.rng.Intn(8) {
	case 0: // far ahead: past every batch / bridge-call timeout
		w.extH += 100_000_000
		w.out.Count("env:ext-height-jump")
	case 1: // exactly at / one past the earliest pending timeout
		var ts []uint64
		w.k.IterateOutgoingTxBatches(ctx, func(b *types.OutgoingTxBatch) bool { ts = append(ts, b.BatchTimeout); return false })
		w.k.IterateOutgoingBridgeCalls(ctx, func(c *types.OutgoingBridgeCall) bool { ts = append(ts, c.Timeout); return false })
		if len(ts) > 0 {
			sort.Slice(ts, func(i, j int) bool { return ts[i] < ts[j] })
			if t := ts[0] + uint64(w.rng.Intn(2)); t > w.extH {
				w.extH = t
				w.out.Count("env:ext-height-at-timeout")
			}
		}
	}
	h := w.extH
	bBefore, cBefore := w.batchNonces(), w.callNonces()
	obsBefore := w.k.GetLastObservedOracleSet(ctx)
	sender := w.ext(common.HexToAddress("0x00000000000000000000000000000000000000e1"))
	var executedBatch uint64
	var mk func(bridger string) types.ExternalClaim
	parked := false
	switch what {
	case "tofx":
		parked = true
		mk = func(b string) types.ExternalClaim {
			return &types.MsgSendToFxClaim{EventNonce: nonce, BlockHeight: h, TokenContract: w.token, Amount: sdkmath.NewInt(25), Sender: sender,
				Receiver: w.user.AccAddress().String(), BridgerAddress: b, ChainName: w.chain}
		}
	case "batchdone":
		n := uint64(1 + w.rng.Intn(3))
		if len(bBefore) > 0 && w.rng.Intn(5) > 0 {
			n = bBefore[w.rng.Intn(len(bBefore))]
		}
		executedBatch = n
		mk = func(b string) types.ExternalClaim {
			return &types.MsgSendToExternalClaim{EventNonce: nonce, BlockHeight: h, BatchNonce: n, TokenContract: w.token, BridgerAddress: b, ChainName: w.chain}
		}
	case "callresult":
		parked = true
		n := uint64(1 + w.rng.Intn(3))
		if len(cBefore) > 0 && w.rng.Intn(5) > 0 {
			n = cBefore[w.rng.Intn(len(cBefore))]
		}
		ok := w.rng.Intn(2) == 0
		mk = func(b string) types.ExternalClaim {
			return &types.MsgBridgeCallResultClaim{ChainName: w.chain, BridgerAddress: b, EventNonce: nonce, BlockHeight: h, Nonce: n, TxOrigin: sender, Success: ok, Cause: ""}
		}
	default: // "osupdated"
		var sets []*types.OracleSet
		sets = append(sets, w.k.GetOracleSets(ctx)...)
		var members []types.BridgeValidator
		n := uint64(0)
		if len(sets) > 0 {
			x := sets[w.rng.Intn(len(sets))]
			n = x.Nonce
			members = x.Members
		}
		mk = func(b string) types.ExternalClaim {
			return &types.MsgOracleSetUpdatedClaim{EventNonce: nonce, BlockHeight: h, OracleSetNonce: n, Members: members, BridgerAddress: b, ChainName: w.chain}
		}
	}
	if w.txmode && !w.claimTxClosed {
		w.opEventTx(what, nonce, mk, parked, executedBatch, bBefore, cBefore, obsBefore)
		return
	}
	votes, panicked := w.vote(nonce, mk)
	observed := w.k.GetLastObservedEventNonce(w.ctx()) == nonce
	if observed && parked {
		r := w.tx(func(ctx sdk.Context) error { return w.k.ExecuteClaim(ctx, nonce) })
		w.out.Count("env:execute-claim:" + short(r))
	}
	w.out.Count(fmt.Sprintf("env:event:%s:observed=%v", what, observed))
	if observed {
		w.out.Nontrivial("env:event:" + what)
	}
	if panicked != "" {
		w.out.Count("env:claim-panic:" + what)
	}
	_ = votes
	bGone, cGone := missing(bBefore, w.batchNonces()), missing(cBefore, w.callNonces())
	var bcGone []uint64
	for _, n := range bGone {
		if n == executedBatch && observed && what == "batchdone" {
			bcGone = append(bcGone, n) // DeleteBatchConfirm of the executed batch only
		}
	}
	if len(bGone) > 0 {
		w.out.Nontrivial("env:batches-removed")
	}
	if len(bGone) > len(bcGone) {
		w.out.Nontrivial("env:batches-cancelled-or-timed-out")
	}
	if len(cGone) > 0 {
		w.out.Nontrivial("env:bridge-calls-removed")
	}
	obs := "="
	after := w.k.GetLastObservedOracleSet(w.ctx())
	switch {
	case after == nil && obsBefore != nil:
		obs = "-"
	case after != nil && (obsBefore == nil || obsBefore.Nonce != after.Nonce):
		obs = fmt.Sprint(after.Nonce)
	}
	w.emit(fmt.Sprintf("event %s %s %s %s", dots(bGone), dots(bcGone), dots(cGone), obs), "ok")
	w.afterOp()
}

func obsWord(before, after *types.OracleSet) string {
	switch {
	case after == nil && before != nil:
		return "-"
	case after != nil && (before == nil || before.Nonce != after.Nonce):
		return fmt.Sprint(after.Nonce)
	}
	return "="
}

// opEventTx: the same external event, its claims delivered as SIGNED MsgClaim transactions inside the next block's FinalizeBlock
// (ante chain, baseapp runTx with its panic recovery, message router), the end-blocker of that very block running on what they left
func (w *world) opEventTx(what string, nonce uint64, mk func(bridger string) types.ExternalClaim, parked bool, executedBatch uint64,
	bBefore, cBefore []uint64, obsBefore *types.OracleSet) {
	w.claimTx = nil
	votes, _ := w.vote(nonce, mk)
	idx := w.claimTx
	observed := false
	w.txBlock(func() {
		undeliverable := 0
		for _, i := range idx {
			r := w.txKind(i)
			w.out.Count("env:tx:claim:" + short(r))
			if strings.Contains(r, "expected claim type") {
				// this snapshot: MsgClaim has no UnpackInterfaces, the decoded transaction carries an unresolved Any and ValidateBasic
				// rejects it (DESIGN §12) — no claim is deliverable as a transaction; the world falls back to the message router
				undeliverable++
			} else if r != "ok" && !strings.HasPrefix(r, "panic") {
				w.out.Count("env:tx:claim-error:" + clip(r, 90))
			}
			if strings.HasPrefix(r, "panic") {
				// a panic inside a message handler: recovered by baseapp's runTx, the transaction fails, the block goes on
				w.out.Count("env:tx:claim-panic-recovered:" + what)
				w.out.Nontrivial("env:tx:claim-panic-recovered:" + what)
			}
		}
		if undeliverable > 0 && undeliverable == len(idx) {
			w.claimTxClosed = true
			w.out.Count("env:tx:claim-undeliverable-as-transaction(no UnpackInterfaces):fallback-to-router")
		}
		observed = w.k.GetLastObservedEventNonce(w.ctx()) == nonce
		w.out.Count(fmt.Sprintf("env:tx:event:%s:observed=%v", what, observed))
		if observed {
			w.out.Nontrivial("env:tx:event:" + what)
		}
		bGone, cGone := missing(bBefore, w.batchNonces()), missing(cBefore, w.callNonces())
		var bcGone []uint64
		for _, n := range bGone {
			if n == executedBatch && observed && what == "batchdone" {
				bcGone = append(bcGone, n)
			}
		}
		if len(bGone) > 0 {
			w.out.Nontrivial("env:tx:batches-removed")
		}
		if len(cGone) > 0 {
			w.out.Nontrivial("env:tx:bridge-calls-removed")
		}
		w.out.Emit(fmt.Sprintf("intx event %s %s %s %s", dots(bGone), dots(bcGone), dots(cGone), obsWord(obsBefore, w.k.GetLastObservedOracleSet(w.ctx()))), "ok ~")
	})
	_ = votes
	if w.dead || !observed || !parked {
		return
	}
	// a parked claim is executed later (crosschain precompile `executeClaim`; here the keeper entry point), then one more block
	b2, c2, o2 := w.batchNonces(), w.callNonces(), w.k.GetLastObservedOracleSet(w.ctx())
	r := w.tx(func(ctx sdk.Context) error { return w.k.ExecuteClaim(ctx, nonce) })
	w.out.Count("env:tx:execute-claim:" + short(r))
	w.emit(fmt.Sprintf("event %s - %s %s", dots(missing(b2, w.batchNonces())), dots(missing(c2, w.callNonces())), obsWord(o2, w.k.GetLastObservedOracleSet(w.ctx()))), "ok")
	w.afterOp()
}

// envSequence: the oracle life cycle of `sequence`, interleaved with pool / batch / bridge-call / attestation traffic, a real
// block after every op
func (w *world) envSequence(length int) {
	rng := w.rng
	n := len(w.oracles)
	all := make([]int, n)
	for i := range all {
		all[i] = i
	}
	diligent := map[int]bool{}
	for i := 0; i < n; i++ {
		diligent[i] = rng.Intn(5) != 0
	}
	w.opGov(all)
	w.afterOp()
	for i := 0; i < n; i++ {
		w.opBond(i, i, i, rng.Intn(w.nval), w.thr)
	}
	w.afterOp()
	// an external height is needed before a batch can be built; a first deposit also funds nothing the model sees
	w.opEvent("tofx")
	for step := 0; step < length && !w.dead; step++ {
		o := rng.Intn(n)
		switch r := rng.Intn(100); {
		case r < 14:
			w.envMkBatch()
		case r < 24:
			w.envMkCall()
		case r < 34:
			if len(w.batchNonces()) == 0 && rng.Intn(4) > 0 {
				w.envMkBatch()
			} else {
				w.opEvent("batchdone")
			}
		case r < 44:
			if len(w.callNonces()) == 0 && rng.Intn(4) > 0 {
				w.envMkCall()
			} else {
				w.opEvent("callresult")
			}
		case r < 52:
			w.opEvent("osupdated")
		case r < 58:
			w.opEvent("tofx")
		case r < 72:
			w.confirmRound(diligent, 0.9)
			w.afterOp()
		case r < 77:
			list := append([]int{}, all...)
			if rng.Intn(3) > 0 {
				k := rng.Intn(n)
				list = append(list[:k], list[k+1:]...)
			}
			w.opGov(list)
			w.afterOp()
		case r < 82:
			amt := w.pickAmt()
			if rec, ok := w.k.GetOracle(w.ctx(), w.oracles[o].AccAddress()); ok && rng.Intn(3) > 0 {
				amt = rec.GetSlashAmount(w.k.GetSlashFraction(w.ctx())).AddRaw(int64(rng.Intn(3)))
				if !amt.IsPositive() {
					amt = sdkmath.OneInt()
				}
			}
			w.opAdd(o, amt)
			w.afterOp()
		case r < 85:
			w.opEditB(o, rng.Intn(len(w.bridgers)))
			w.afterOp()
		case r < 88:
			w.opUnbond(o)
			w.afterOp()
		case r < 91:
			w.opNudge()
			w.afterOp()
		case r < 94:
			w.opRedel(o, rng.Intn(len(w.vals)))
			w.afterOp()
		default:
			w.opBlock([]int64{5, w.unb + 1, w.unb}[rng.Intn(3)])
		}
	}
}

func clip(s string, n int) string {
	if len(s) > n {
		return s[:n]
	}
	return s
}
