package c13

// C07, gov half: the REAL x/gov end-blocker (fx wrapper keeper: Tally with custom quorum, deposits refund / burn, expedited
// conversion, proposal execution) driven through real MsgSubmitProposal / MsgDeposit / MsgVote / MsgVoteWeighted /
// MsgDelegate / MsgUndelegate / MsgUpdateParams / MsgUpdateCustomParams, with a real FinalizeBlock + Commit after every
// step.  A FinalizeBlock that panics or returns an error is a concrete violation (replay = the op lines).
//
// Op lines (same stream as the crosschain half; Driver/C13.lean answers them through Model/C07Gov.lean):
//   gparams … | gcustom … | gmint … | gdelegate d v amt | gundelegate d v amt | gsubmit … | gdeposit … | gvote pid voter opts
//        scene-setting on the real chain; the model answers `-`
//   gblock dt k {T pid bonded quorum veto thr burnQ burnV nv {tokens shares opts} nvot {opts nd {vi shares}}}
//        one block; for each of the k proposals the end-blocker is about to tally the line carries the tally INPUTS read
//        from the real staking / gov state; the model computes passes / burn / the four option totals with its own
//        LegacyDec arithmetic and the REGENERATED decision tail, and the answer is compared with what the real Tally says.

//   gescreset | gescd pid n | gescb {s:pid | p:pid[:m,m…]}   (m = n | f | s<amt> | i<amt> | d<pid>_<amt>)
//        the DEPOSIT ESCROW (Model/C07Escrow.lean, stateful): a deposit that entered the gov module account, and per block the
//        proposals the end-blocker settles (refund / burn) or passes (settle, then run the messages: nothing / fails / the gov
//        account PAYS amt / a deposit FROM the gov account) in queue order; the answer `balance deposits` (or `halt`) is compared
//        with the gov module account's real balance and the sum of the real deposit records after the block.

import (
	"fmt"
	"math/rand"
	"sort"
	"strings"
	"testing"
	"time"

	"cosmossdk.io/collections"
	sdkmath "cosmossdk.io/math"
	abci "github.com/cometbft/cometbft/abci/types"
	sdk "github.com/cosmos/cosmos-sdk/types"
	authtypes "github.com/cosmos/cosmos-sdk/x/auth/types"
	banktypes "github.com/cosmos/cosmos-sdk/x/bank/types"
	distrtypes "github.com/cosmos/cosmos-sdk/x/distribution/types"
	govtypes "github.com/cosmos/cosmos-sdk/x/gov/types"
	v1 "github.com/cosmos/cosmos-sdk/x/gov/types/v1"
	stakingkeeper "github.com/cosmos/cosmos-sdk/x/staking/keeper"
	stakingtypes "github.com/cosmos/cosmos-sdk/x/staking/types"

	"github.com/functionx/fx-core/v8/testutil/helpers"
	fxtypes "github.com/functionx/fx-core/v8/types"
	erc20types "github.com/functionx/fx-core/v8/x/erc20/types"
	fxgovtypes "github.com/functionx/fx-core/v8/x/gov/types"

	"fxverif/harness/hx"
)

type gworld struct {
	t      *testing.T
	s      *hx.Suite
	out    *hx.Out
	rng    *rand.Rand
	now    time.Time
	gov    string
	vals   []sdk.ValAddress
	voters []sdk.AccAddress // 0..nval-1: validator operator accounts; then plain delegators
	dead   bool
	nprop  int
	// proposal messages that move the gov module account's coins (kinds 4..8): amount, target proposal
	spendAmt int64
	target   uint64
	pmsgs    map[uint64]string // proposal id → escrow words of its messages
	pkind    map[uint64]int
	// set when a PASSED proposal's paying message left the gov account short of the open deposits (the later halt is its consequence)
	shortCause string
}

func (g *gworld) ctx() sdk.Context { return g.s.Ctx }

func finalizeAt(s *hx.Suite, t time.Time) error {
	h := s.Ctx.BlockHeight()
	if _, err := s.App.FinalizeBlock(&abci.RequestFinalizeBlock{Height: h, Time: t, ProposerAddress: s.Ctx.BlockHeader().ProposerAddress}); err != nil {
		return err
	}
	if _, err := s.App.Commit(); err != nil {
		return err
	}
	if _, err := s.App.ProcessProposal(&abci.RequestProcessProposal{Height: h + 1, Time: t, ProposerAddress: s.Ctx.BlockHeader().ProposerAddress}); err != nil {
		return err
	}
	s.Ctx = s.App.GetContextForFinalizeBlock(nil)
	return nil
}

// deliver: a message through the real router on a cache context, written only on success.
func (g *gworld) deliver(msg sdk.Msg) string {
	return hx.Try(func() error {
		c, write := g.ctx().CacheContext()
		hd := g.s.App.MsgServiceRouter().Handler(msg)
		if hd == nil {
			return fmt.Errorf("unroutable %T", msg)
		}
		if _, err := hd(c, msg); err != nil {
			return err
		}
		write()
		return nil
	})
}

func short(res string) string {
	if res == "ok" {
		return "ok"
	}
	if strings.HasPrefix(res, "panic:") {
		return "panic"
	}
	return "err"
}

func gcoins(n int64) sdk.Coins { return sdk.NewCoins(sdk.NewInt64Coin(fxtypes.DefaultDenom, n)) }

func decS(d sdkmath.LegacyDec) string { return d.BigInt().String() }

type gparamsT struct {
	quorum, thr, expThr, veto sdkmath.LegacyDec
	burnQ, burnV, burnPre     bool
	vp, expVp, depP           int64
}

func (g *gworld) opParams(m gparamsT) {
	p, _ := g.s.App.GovKeeper.Params.Get(g.ctx())
	p.MinDeposit, p.ExpeditedMinDeposit = gcoins(1000), gcoins(5000)
	d1, d2, d3 := time.Duration(m.depP)*time.Second, time.Duration(m.vp)*time.Second, time.Duration(m.expVp)*time.Second
	p.MaxDepositPeriod, p.VotingPeriod, p.ExpeditedVotingPeriod = &d1, &d2, &d3
	p.Quorum, p.Threshold, p.ExpeditedThreshold, p.VetoThreshold = m.quorum.String(), m.thr.String(), m.expThr.String(), m.veto.String()
	p.BurnVoteQuorum, p.BurnVoteVeto, p.BurnProposalDepositPrevote = m.burnQ, m.burnV, m.burnPre
	p.MinInitialDepositRatio = sdkmath.LegacyZeroDec().String()
	res := g.deliver(&v1.MsgUpdateParams{Authority: g.gov, Params: p})
	g.out.Count("gparams:" + short(res))
	g.out.Emit(fmt.Sprintf("gparams %s %s %s %s %d %d %d %v %v %v", decS(m.quorum), decS(m.thr), decS(m.expThr), decS(m.veto), m.vp, m.expVp, m.depP, m.burnQ, m.burnV, m.burnPre), "-")
}

func (g *gworld) opCustom(url string, quorum *sdkmath.LegacyDec, period int64) {
	msg := &fxgovtypes.MsgUpdateCustomParams{Authority: g.gov, MsgUrl: url}
	op := fmt.Sprintf("gcustom %s remove", url)
	if quorum != nil {
		msg.CustomParams = *fxgovtypes.NewCustomParams(sdkmath.LegacyZeroDec().String(), time.Duration(period)*time.Second, quorum.String())
		op = fmt.Sprintf("gcustom %s %s %d", url, decS(*quorum), period)
	}
	res := g.deliver(msg)
	g.out.Count("gcustom:" + short(res))
	g.out.Emit(op, "-")
}

func (g *gworld) opDelegate(d, v int, amt sdkmath.Int) {
	g.s.MintToken(g.voters[d], sdk.NewCoin(fxtypes.DefaultDenom, amt))
	res := g.deliver(stakingtypes.NewMsgDelegate(g.voters[d].String(), g.vals[v].String(), sdk.NewCoin(fxtypes.DefaultDenom, amt)))
	g.out.Count("gdelegate:" + short(res))
	g.out.Emit(fmt.Sprintf("gdelegate %d %d %s", d, v, amt), "-")
}

func (g *gworld) opUndelegate(d, v int, amt sdkmath.Int) {
	res := g.deliver(stakingtypes.NewMsgUndelegate(g.voters[d].String(), g.vals[v].String(), sdk.NewCoin(fxtypes.DefaultDenom, amt)))
	g.out.Count("gundelegate:" + short(res))
	g.out.Emit(fmt.Sprintf("gundelegate %d %d %s", d, v, amt), "-")
}

// proposal message kinds: 0 = erc20 MsgUpdateParams (succeeds), 1 = erc20 MsgToggleTokenConversion of an unknown token
// (handler fails → proposal FAILED, must not halt), 2 = two messages of kind 0, 3 = NO message at all (a text proposal: title and
// summary only — the per-message-type parameter lookups of the tally run with an empty message list)
// 4 = bank MsgSend{from: the gov module account} of spendAmt to a voter, 5 = distribution MsgFundCommunityPool{depositor: gov},
// 6 = MsgDeposit{depositor: gov} on proposal `target` (refused since 45d0bc2: FAILED), 7 = MsgSend followed by a MsgSend the account
// cannot pay (nothing may be written), 8 = MsgSubmitProposal{proposer: gov} with an initial deposit (refused likewise)
func (g *gworld) propMsgs(kindN int) []sdk.Msg {
	govAcc := authtypes.NewModuleAddress(govtypes.ModuleName)
	switch kindN {
	case 4:
		return []sdk.Msg{banktypes.NewMsgSend(govAcc, g.voters[len(g.voters)-1], gcoins(g.spendAmt))}
	case 5:
		return []sdk.Msg{&distrtypes.MsgFundCommunityPool{Amount: gcoins(g.spendAmt), Depositor: g.gov}}
	case 6:
		return []sdk.Msg{&v1.MsgDeposit{ProposalId: g.target, Depositor: g.gov, Amount: gcoins(g.spendAmt)}}
	case 7:
		return []sdk.Msg{banktypes.NewMsgSend(govAcc, g.voters[len(g.voters)-1], gcoins(g.spendAmt)), banktypes.NewMsgSend(govAcc, g.voters[len(g.voters)-1], gcoins(1_000_000_000_000))}
	case 8:
		inner, err := v1.NewMsgSubmitProposal(nil, gcoins(g.spendAmt), g.gov, "text proposal", "t", "s", false)
		if err != nil {
			g.t.Fatal(err)
		}
		return []sdk.Msg{inner}
	case 3:
		return []sdk.Msg{}
	case 1:
		return []sdk.Msg{&erc20types.MsgToggleTokenConversion{Authority: g.gov, Token: "nosuchtoken"}}
	case 2:
		m := &erc20types.MsgUpdateParams{Authority: g.gov, Params: erc20types.DefaultParams()}
		return []sdk.Msg{m, m}
	}
	return []sdk.Msg{&erc20types.MsgUpdateParams{Authority: g.gov, Params: erc20types.DefaultParams()}}
}

// escWords: what the messages of a proposal of this kind do to the escrow when they run (Model/C07Escrow.PMsg)
func (g *gworld) escWords(kindN int) string {
	switch kindN {
	case 3:
		return ""
	case 1:
		return "f"
	case 2:
		return "n,n"
	case 4, 5:
		return fmt.Sprintf("s%d", g.spendAmt)
	case 6:
		return fmt.Sprintf("d%d_%d", g.target, g.spendAmt)
	case 7:
		return fmt.Sprintf("s%d,s1000000000000", g.spendAmt)
	case 8:
		return fmt.Sprintf("d0_%d", g.spendAmt)
	}
	return "n"
}

// escrowReal: the gov module account's FX balance and the sum of all recorded deposits
func (g *gworld) escrowReal() (sdkmath.Int, sdkmath.Int) {
	bal := g.s.App.BankKeeper.GetBalance(g.ctx(), authtypes.NewModuleAddress(govtypes.ModuleName), fxtypes.DefaultDenom).Amount
	total := sdkmath.ZeroInt()
	_ = g.s.App.GovKeeper.Deposits.Walk(g.ctx(), nil, func(_ collections.Pair[uint64, sdk.AccAddress], d v1.Deposit) (bool, error) {
		total = total.Add(sdk.NewCoins(d.Amount...).AmountOf(fxtypes.DefaultDenom))
		return false, nil
	})
	return bal, total
}

func (g *gworld) escrowObs() string {
	b, t := g.escrowReal()
	return fmt.Sprintf("%s %s", b, t)
}

func (g *gworld) opSubmit(who int, expedited bool, initial int64, kindN int) uint64 {
	g.s.MintToken(g.voters[who], gcoins(initial)...)
	meta := ""
	if len(g.propMsgs(kindN)) == 0 {
		meta = "text proposal" // a proposal without messages must carry metadata
	}
	msg, err := v1.NewMsgSubmitProposal(g.propMsgs(kindN), gcoins(initial), g.voters[who].String(), meta, "t", "s", expedited)
	if err != nil {
		g.t.Fatal(err)
	}
	id, _ := g.s.App.GovKeeper.ProposalID.Peek(g.ctx())
	res := g.deliver(msg)
	g.out.Count("gsubmit:" + short(res))
	g.out.Count(fmt.Sprintf("gsubmit:messages=%d:%s", len(g.propMsgs(kindN)), short(res)))
	g.out.Emit(strings.TrimSpace(fmt.Sprintf("gsubmit %d %v %d %d %s", who, expedited, initial, kindN, g.escWords(kindN))), "-")
	if res != "ok" {
		return 0
	}
	g.nprop++
	g.pmsgs[id], g.pkind[id] = g.escWords(kindN), kindN
	if kindN >= 4 {
		g.out.Count(fmt.Sprintf("gsubmit:gov-account-message:kind=%d", kindN))
	}
	g.out.Emit(fmt.Sprintf("gescd %d %d", id, initial), g.escrowObs())
	return id
}

func (g *gworld) opDeposit(pid uint64, who int, n int64) {
	g.s.MintToken(g.voters[who], gcoins(n)...)
	res := g.deliver(&v1.MsgDeposit{ProposalId: pid, Depositor: g.voters[who].String(), Amount: gcoins(n)})
	g.out.Count("gdeposit:" + short(res))
	g.out.Emit(fmt.Sprintf("gdeposit %d %d %d", pid, who, n), "-")
	if res == "ok" {
		g.out.Emit(fmt.Sprintf("gescd %d %d", pid, n), g.escrowObs())
	}
}

var gOptNames = map[string]v1.VoteOption{"y": v1.OptionYes, "a": v1.OptionAbstain, "n": v1.OptionNo, "v": v1.OptionNoWithVeto}

// opts: "y" | "a" | "n" | "v" | weighted "a:0.5,y:0.5"
func (g *gworld) opVote(pid uint64, voter int, opts string) {
	var msg sdk.Msg
	if o, ok := gOptNames[opts]; ok {
		msg = v1.NewMsgVote(g.voters[voter], pid, o, "")
	} else {
		var w v1.WeightedVoteOptions
		for _, e := range strings.Split(opts, ",") {
			f := strings.SplitN(e, ":", 2)
			w = append(w, &v1.WeightedVoteOption{Option: gOptNames[f[0]], Weight: f[1]})
		}
		msg = v1.NewMsgVoteWeighted(g.voters[voter], pid, w, "")
	}
	res := g.deliver(msg)
	g.out.Count("gvote:" + short(res))
	g.out.Emit(fmt.Sprintf("gvote %d %d %s", pid, voter, opts), "-")
}

func optsWord(os []*v1.WeightedVoteOption) string {
	if len(os) == 0 {
		return "-"
	}
	var ss []string
	for _, o := range os {
		w, err := sdkmath.LegacyNewDecFromStr(o.Weight)
		if err != nil {
			w = sdkmath.LegacyZeroDec()
		}
		ss = append(ss, fmt.Sprintf("%d:%s", int32(o.Option), decS(w)))
	}
	return strings.Join(ss, ",")
}

type dueT struct {
	pid  uint64
	word string
	exp  bool
	cls  string
}

// due: proposals the end-blocker of the block at time `at` will tally, with the inputs of each tally read from real state
func (g *gworld) due(at time.Time) []dueT {
	ctx := g.ctx()
	k := g.s.App.GovKeeper
	sk := g.s.App.StakingKeeper
	var res []dueT
	rng := collections.NewPrefixUntilPairRange[time.Time, uint64](at)
	_ = k.ActiveProposalsQueue.Walk(ctx, rng, func(key collections.Pair[time.Time, uint64], _ uint64) (bool, error) {
		p, err := k.Proposals.Get(ctx, key.K2())
		if err != nil {
			return false, nil
		}
		type valT struct {
			op             string
			tokens, shares string
			vote           string
		}
		var vals []valT
		idx := map[string]int{}
		_ = sk.IterateBondedValidatorsByPower(ctx, func(_ int64, v stakingtypes.ValidatorI) bool {
			idx[v.GetOperator()] = len(vals)
			vals = append(vals, valT{v.GetOperator(), v.GetBondedTokens().String(), decS(v.GetDelegatorShares()), "-"})
			return false
		})
		var voters []string
		nvot, zeroPower := 0, 0
		deducted := map[int]sdkmath.LegacyDec{}
		vrng := collections.NewPrefixedPairRange[uint64, sdk.AccAddress](p.Id)
		_ = k.Votes.Walk(ctx, vrng, func(vk collections.Pair[uint64, sdk.AccAddress], vote v1.Vote) (bool, error) {
			voter := vk.K2()
			if i, ok := idx[sdk.ValAddress(voter).String()]; ok {
				vals[i].vote = optsWord(vote.Options)
			}
			var dels []string
			_ = sk.IterateDelegations(ctx, voter, func(_ int64, d stakingtypes.DelegationI) bool {
				if i, ok := idx[d.GetValidatorAddr()]; ok {
					dels = append(dels, fmt.Sprintf("%d %s", i, decS(d.GetShares())))
					if _, ok := deducted[i]; !ok {
						deducted[i] = sdkmath.LegacyZeroDec()
					}
					deducted[i] = deducted[i].Add(d.GetShares())
				}
				return false
			})
			if len(dels) == 0 {
				zeroPower++
			}
			voters = append(voters, strings.TrimSpace(fmt.Sprintf("%s %d %s", optsWord(vote.Options), len(dels), strings.Join(dels, " "))))
			nvot++
			return false, nil
		})
		// the hypotheses of the Lean theorem gov_tally_total, evaluated on the real staking state (they are SDK staking
		// invariants: bonded validators have positive shares; a validator's voting delegators hold at most its shares)
		hypOK := true
		_ = sk.IterateBondedValidatorsByPower(ctx, func(_ int64, v stakingtypes.ValidatorI) bool {
			i := idx[v.GetOperator()]
			if !v.GetDelegatorShares().IsPositive() || v.GetBondedTokens().IsNegative() {
				hypOK = false
			}
			if d, ok := deducted[i]; ok && d.GT(v.GetDelegatorShares()) {
				hypOK = false
			}
			return false
		})
		if hypOK {
			g.out.Count("gtally:theorem-hypotheses-hold")
		} else {
			g.out.Count("gtally:theorem-hypotheses-FAIL")
			g.out.Violate(fmt.Sprintf("C07 gov tally: the staking state of proposal %d's tally does not satisfy the hypotheses of gov_tally_total (a bonded validator without delegator shares, or voting delegators holding more shares than their validator)", p.Id))
		}
		params, _ := k.Params.Get(ctx)
		bonded, _ := sk.TotalBondedTokens(ctx)
		// the keeper's own per-message-type lookup, under recover: a lookup that cannot cope with this proposal (e.g. one without
		// messages) must show up as the tally's failure below, not as a crash of the harness
		quorumS := params.Quorum
		if r := hx.Try(func() error { quorumS = k.GetCustomMsgQuorum(ctx, params.Quorum, p); return nil }); r != "ok" {
			g.out.Count("gtally:custom-quorum-lookup-panics")
		}
		quorum, _ := sdkmath.LegacyNewDecFromStr(quorumS)
		veto, _ := sdkmath.LegacyNewDecFromStr(params.VetoThreshold)
		thrS := params.Threshold
		if p.Expedited {
			thrS = params.ExpeditedThreshold
		}
		thr, _ := sdkmath.LegacyNewDecFromStr(thrS)
		var vw []string
		for _, v := range vals {
			vw = append(vw, fmt.Sprintf("%s %s %s", v.tokens, v.shares, v.vote))
		}
		b := func(x bool) string {
			if x {
				return "1"
			}
			return "0"
		}
		word := strings.TrimSpace(fmt.Sprintf("T %d %s %s %s %s %s %s %d %s %d %s", p.Id, bonded, decS(quorum), decS(veto), decS(thr), b(params.BurnVoteQuorum), b(params.BurnVoteVeto),
			len(vals), strings.Join(vw, " "), nvot, strings.Join(voters, " ")))
		cls := fmt.Sprintf("voters=%d", min(nvot, 3))
		if nvot > 0 && zeroPower == nvot {
			cls = "only-zero-power-voters"
		}
		res = append(res, dueT{p.Id, strings.Join(strings.Fields(word), " "), p.Expedited, cls})
		return false, nil
	})
	return res
}

func (g *gworld) inactiveDue(at time.Time) int {
	n := 0
	rng := collections.NewPrefixUntilPairRange[time.Time, uint64](at)
	_ = g.s.App.GovKeeper.InactiveProposalsQueue.Walk(g.ctx(), rng, func(collections.Pair[time.Time, uint64], uint64) (bool, error) { n++; return false, nil })
	return n
}

// sameBlockSpender: does the KNOWN mechanism alone explain a refund that fails in this very block?  The events of the block are
// replayed with the arithmetic of the unchanged code (a tallied proposal's deposits are settled first; the messages of a passing
// one are committed only if all succeed; a payment needs the balance; a deposit from the gov account is refused): the answer is the
// passed proposal whose committed payment makes a LATER refund of the same block fail, or "" when the replay sees no failure.
func (g *gworld) sameBlockSpender(evs []string) string {
	bal, _ := g.escrowReal()
	deps := map[string]sdkmath.Int{}
	_ = g.s.App.GovKeeper.Deposits.Walk(g.ctx(), nil, func(key collections.Pair[uint64, sdk.AccAddress], d v1.Deposit) (bool, error) {
		k := fmt.Sprint(key.K1())
		if _, ok := deps[k]; !ok {
			deps[k] = sdkmath.ZeroInt()
		}
		deps[k] = deps[k].Add(sdk.NewCoins(d.Amount...).AmountOf(fxtypes.DefaultDenom))
		return false, nil
	})
	spender := ""
	for _, ev := range evs {
		f := strings.SplitN(ev, ":", 3)
		need, ok := deps[f[1]]
		if !ok {
			need = sdkmath.ZeroInt()
		}
		if bal.LT(need) {
			return spender
		}
		bal = bal.Sub(need)
		delete(deps, f[1])
		if f[0] != "p" || len(f) < 3 {
			continue
		}
		tmp, good := bal, true
		for _, m := range strings.Split(f[2], ",") {
			switch {
			case m == "n":
			case strings.HasPrefix(m, "s"):
				amt, ok := sdkmath.NewIntFromString(m[1:])
				if !ok || amt.GT(tmp) {
					good = false
				} else {
					tmp = tmp.Sub(amt)
				}
			default: // f, d…
				good = false
			}
		}
		if good && tmp.LT(bal) {
			spender = fmt.Sprintf("proposal %s in the same block: %s", f[1], f[2])
			bal = tmp
		}
	}
	return ""
}

func (g *gworld) inactiveDuePids(at time.Time) []uint64 {
	var ids []uint64
	rng := collections.NewPrefixUntilPairRange[time.Time, uint64](at)
	_ = g.s.App.GovKeeper.InactiveProposalsQueue.Walk(g.ctx(), rng, func(key collections.Pair[time.Time, uint64], _ uint64) (bool, error) {
		ids = append(ids, key.K2())
		return false, nil
	})
	return ids
}

func panicSite(res string) string {
	switch {
	case strings.Contains(res, "insufficient funds"):
		return "panic:refund or burn of deposits fails for lack of funds"
	case strings.Contains(res, "division by zero"):
		return "panic:Tally:Quo"
	case strings.Contains(res, "nil pointer"):
		return "panic:nil-dereference"
	}
	return "panic:other"
}

// opBlock: one real block at now+dt.  Before it, the real Tally is asked (on a discarded cache context, under recover) what
// it says for every proposal that is due; after it, the proposals must have left the queue with the matching status.
func (g *gworld) opBlock(dt int64) {
	at := g.now.Add(time.Duration(dt) * time.Second)
	due := g.due(at)
	nInactive := g.inactiveDue(at)
	k := g.s.App.GovKeeper
	var words, exp []string
	obs := ""
	type dryT struct{ passes, burn bool }
	dry := map[uint64]dryT{}
	for _, d := range due {
		words = append(words, d.word)
		p, _ := k.Proposals.Get(g.ctx(), d.pid)
		var passes, burn bool
		var tr v1.TallyResult
		r := hx.Try(func() error {
			c, _ := g.ctx().CacheContext()
			var err error
			passes, burn, tr, err = k.Tally(c, p)
			return err
		})
		g.out.Count("gtally:" + d.cls)
		if r != "ok" {
			if obs == "" {
				if strings.HasPrefix(r, "panic:") {
					obs = panicSite(r)
				} else {
					obs = "error:Tally"
				}
			}
			g.out.Violate(fmt.Sprintf("C07 gov tally does not complete: Tally of proposal %d %s (%s, expedited=%v): %s", d.pid, strings.SplitN(r, ":", 2)[0], d.cls, d.exp, strings.TrimPrefix(panicSite(r), "panic:")))
			continue
		}
		dry[d.pid] = dryT{passes, burn}
		b := func(x bool) string {
			if x {
				return "1"
			}
			return "0"
		}
		exp = append(exp, fmt.Sprintf("%d:%s%s:%s/%s/%s/%s", d.pid, b(passes), b(burn), tr.YesCount, tr.AbstainCount, tr.NoCount, tr.NoWithVetoCount))
		switch {
		case passes:
			g.out.Count("gtally:passes")
		case burn:
			g.out.Count("gtally:fails-burn")
		default:
			g.out.Count("gtally:fails")
		}
		yes, _ := sdkmath.NewIntFromString(tr.YesCount)
		abst, _ := sdkmath.NewIntFromString(tr.AbstainCount)
		no, _ := sdkmath.NewIntFromString(tr.NoCount)
		veto, _ := sdkmath.NewIntFromString(tr.NoWithVetoCount)
		switch {
		case yes.IsZero() && no.IsZero() && veto.IsZero() && abst.IsPositive():
			g.out.Count("gtally:all-abstain")
			g.out.Nontrivial("gtally:all-abstain")
		case yes.IsZero() && no.IsZero() && veto.IsZero() && abst.IsZero():
			g.out.Count("gtally:no-power")
			g.out.Nontrivial("gtally:no-power")
		case veto.IsPositive():
			g.out.Nontrivial("gtally:veto")
		}
	}
	if obs == "" {
		obs = strings.TrimSpace("ok " + strings.Join(exp, " "))
	}
	op := strings.TrimSpace(fmt.Sprintf("gblock %d %d %s", dt, len(due), strings.Join(words, " ")))
	// the escrow events of this block in the order of the end-blocker: the inactive queue (deposit periods over: refund or
	// burn), then the active queue (tallied: refund or burn unless an expedited proposal is converted; a passing one then runs
	// its messages)
	var evs []string
	escOK := true
	for _, pid := range g.inactiveDuePids(at) {
		evs = append(evs, fmt.Sprintf("s:%d", pid))
	}
	for _, d := range due {
		dr, ok := dry[d.pid]
		switch {
		case !ok:
			escOK = false
		case dr.passes && g.pmsgs[d.pid] != "":
			evs = append(evs, fmt.Sprintf("p:%d:%s", d.pid, g.pmsgs[d.pid]))
		case dr.passes:
			evs = append(evs, fmt.Sprintf("p:%d", d.pid))
		case !d.exp:
			evs = append(evs, fmt.Sprintf("s:%d", d.pid))
		}
		if ok && dr.passes && g.pkind[d.pid] >= 4 {
			g.out.Count(fmt.Sprintf("gblock:passes-with-gov-account-message:kind=%d", g.pkind[d.pid]))
			g.out.Nontrivial("gblock:passes-with-gov-account-message")
		}
	}
	escOp := strings.TrimSpace("gescb " + strings.Join(evs, " "))
	bal0, total0 := g.escrowReal()
	sameBlock := ""
	if escOK {
		sameBlock = g.sameBlockSpender(evs)
	}
	g.now = at
	res := hx.Try(func() error { return finalizeAt(g.s, g.now) })
	if res != "ok" {
		g.dead = true
		g.out.Emit(op, obs)
		site := strings.TrimPrefix(panicSite(res), "panic:")
		// the cause comes FIRST in the text: violations are grouped by the beginning of their description
		head := "C07 block processing halts"
		if strings.Contains(res, "insufficient funds") {
			if escOK {
				g.out.Emit(escOp, "halt")
			}
			if g.shortCause != "" {
				head = "C07 block processing halts, gov escrow spent by a proposal message (short since " + g.shortCause + ")"
			} else if sameBlock != "" {
				head = "C07 block processing halts, gov escrow spent by a proposal message (" + sameBlock + ", whose payment makes a later refund of this block fail)"
			} else {
				head = fmt.Sprintf("C07 block processing halts, a gov refund or burn fails although no passed proposal message had left the account short before this block (it held %s for %s of deposits)", bal0, total0)
			}
		}
		g.out.Violate(fmt.Sprintf("%s: FinalizeBlock %s with %d proposal(s) due for tally and %d deposit period(s) expiring (gov end-blocker): %s",
			head, strings.SplitN(res, ":", 2)[0], len(due), nInactive, site))
		g.out.Count("gblock:halt")
		return
	}
	g.out.Count("gblock:ok")
	if nInactive > 0 {
		g.out.Count("gblock:deposit-period-expired")
		g.out.Nontrivial("gblock:deposit-period-expired")
	}
	g.out.Emit(op, obs)
	if escOK && len(evs) > 0 {
		g.out.Emit(escOp, g.escrowObs())
	}
	// the deposit escrow, on the real state: the gov module account must cover the open deposits, or a later refund / burn fails
	// and the end-blocker halts
	bal, total := g.escrowReal()
	var spenders, statuses []string
	anyPassed := false
	for _, d := range due {
		p, err := k.Proposals.Get(g.ctx(), d.pid)
		if err != nil {
			continue
		}
		statuses = append(statuses, fmt.Sprintf("%d:%s", d.pid, strings.TrimPrefix(p.Status.String(), "PROPOSAL_STATUS_")))
		if p.Status == v1.StatusPassed {
			anyPassed = true
			if kd := g.pkind[d.pid]; kd == 4 || kd == 5 || kd == 7 {
				spenders = append(spenders, fmt.Sprintf("proposal %d kind %d: %s", d.pid, kd, g.pmsgs[d.pid]))
			}
		}
	}
	switch {
	case bal.LT(total) && len(spenders) > 0:
		g.shortCause = strings.Join(spenders, "; ")
		g.out.Violate(fmt.Sprintf("C07 block processing will halt: gov escrow spent by a proposal message: after the block the gov module account holds %s but the open deposits sum to %s (PASSED %s): the refund or burn of an open proposal fails and gov.EndBlocker returns the error",
			bal, total, g.shortCause))
		g.out.Count("gblock:escrow-short")
	case bal.LT(total) && g.shortCause == "":
		g.out.Violate(fmt.Sprintf("C07 block processing will halt: the gov module account holds %s but the open deposits sum to %s, and no PASSED proposal carried a paying message (due: %s): a deposit record without coins, or coins that left with a FAILED proposal",
			bal, total, strings.Join(statuses, " ")))
		g.out.Count("gblock:escrow-short-unexplained")
	case bal.LT(total):
		g.out.Count("gblock:escrow-short")
	default:
		g.out.Count("gblock:escrow-covered")
	}
	// nothing a FAILED (or rejected) proposal did may stay: in a block in which no proposal passed, the account's surplus over the
	// open deposits cannot shrink
	if !anyPassed && bal.Sub(total).LT(bal0.Sub(total0)) {
		g.out.Violate(fmt.Sprintf("C07 gov end-blocker: coins left the gov module account in a block in which no proposal passed (surplus over the open deposits %s → %s; due: %s): messages of a FAILED proposal were not discarded",
			bal0.Sub(total0), bal.Sub(total), strings.Join(statuses, " ")))
	}
	// the end-blocker must have acted on every due proposal exactly as the tally said
	for _, d := range due {
		dr, ok := dry[d.pid]
		if !ok {
			continue
		}
		p, err := k.Proposals.Get(g.ctx(), d.pid)
		if err != nil {
			g.out.Violate(fmt.Sprintf("C07 gov end-blocker lost tallied proposal %d", d.pid))
			continue
		}
		want := "rejected"
		switch {
		case dr.passes:
			want = "passed-or-failed"
		case d.exp:
			want = "voting"
		}
		got := map[v1.ProposalStatus]string{v1.StatusPassed: "passed-or-failed", v1.StatusFailed: "passed-or-failed", v1.StatusRejected: "rejected", v1.StatusVotingPeriod: "voting"}[p.Status]
		g.out.Count("gstatus:" + p.Status.String())
		if got != want {
			g.out.Violate(fmt.Sprintf("C07 gov end-blocker and Tally disagree: proposal %d is %s after the block, the tally said passes=%v (expedited=%v)", d.pid, p.Status, dr.passes, d.exp))
		}
		if p.Status != v1.StatusVotingPeriod {
			still := false
			_ = k.ActiveProposalsQueue.Walk(g.ctx(), nil, func(key collections.Pair[time.Time, uint64], _ uint64) (bool, error) {
				if key.K2() == d.pid {
					still = true
				}
				return false, nil
			})
			if still {
				g.out.Violate(fmt.Sprintf("C07 gov end-blocker left finished proposal %d in the active queue (it would be tallied again)", d.pid))
			}
		}
	}
}

func newGWorld(t *testing.T, out *hx.Out, rng *rand.Rand) *gworld {
	nval := 2 + rng.Intn(3)
	s := hx.NewSuite(t, nval)
	g := &gworld{t: t, s: s, out: out, rng: rng, now: baseTime, gov: authtypes.NewModuleAddress(govtypes.ModuleName).String()}
	g.vals = append(g.vals, s.ValAddr...)
	sort.Slice(g.vals, func(i, j int) bool { return g.vals[i].String() < g.vals[j].String() })
	for _, v := range g.vals {
		g.voters = append(g.voters, sdk.AccAddress(v))
	}
	for i := 0; i < 4; i++ {
		g.voters = append(g.voters, helpers.GenAccAddress())
	}
	if err := finalizeAt(s, g.now); err != nil {
		t.Fatal(err)
	}
	g.pmsgs, g.pkind = map[uint64]string{}, map[uint64]int{}
	g.spendAmt = 1
	out.Reset()
	out.Emit("gescreset", g.escrowObs())
	return g
}

func dec(s string) sdkmath.LegacyDec { return sdkmath.LegacyMustNewDecFromStr(s) }

func (g *gworld) baseParams() gparamsT {
	return gparamsT{quorum: dec("0.4"), thr: dec("0.5"), expThr: dec("0.667"), veto: dec("0.334"), vp: 20, expVp: 10, depP: 30, burnV: true}
}

func (g *gworld) randomParams() gparamsT {
	rng := g.rng
	m := g.baseParams()
	m.quorum = []sdkmath.LegacyDec{dec("0.4"), dec("0"), dec("1"), dec("0.334"), dec("0.000000000000000001"), dec("0.5"), dec("0.25")}[rng.Intn(7)]
	m.thr = []sdkmath.LegacyDec{dec("0.5"), dec("0.000000000000000001"), dec("0.9"), dec("0.333333333333333333")}[rng.Intn(4)]
	m.expThr = []sdkmath.LegacyDec{dec("0.667"), dec("1"), m.thr.Add(dec("0.000000000000000001"))}[rng.Intn(3)]
	if !m.expThr.GT(m.thr) {
		m.expThr = dec("1")
	}
	m.veto = []sdkmath.LegacyDec{dec("0.334"), dec("0.000000000000000001"), dec("1"), dec("0.5")}[rng.Intn(4)]
	m.burnQ, m.burnV, m.burnPre = rng.Intn(2) == 0, rng.Intn(2) == 0, rng.Intn(3) == 0
	return m
}

var gVoteWords = []string{"y", "a", "n", "v", "a", "a:0.5,y:0.5", "a:1", "y:0.333333333333333333,n:0.333333333333333333,a:0.333333333333333334",
	"v:0.334,y:0.666", "a:0.999999999999999999,n:0.000000000000000001", "y:0.7,n:0.3"}

func (g *gworld) setCustoms(q *sdkmath.LegacyDec, period int64) {
	for _, m := range [][]sdk.Msg{g.propMsgs(0), g.propMsgs(1)} {
		g.opCustom(sdk.MsgTypeURL(m[0]), q, period)
	}
}

// voting: submit a proposal that enters the voting period at once
func (g *gworld) voting(expedited bool, kindN int) uint64 {
	dep := int64(1000)
	if expedited {
		dep = 5000
	}
	return g.opSubmit(len(g.vals)+g.rng.Intn(2), expedited, dep, kindN)
}

// scenario: directed boundary cases of the tally; every one ends with the blocks that tally it
func (g *gworld) scenario(n int) {
	nv := len(g.vals)
	all := func(pid uint64, w string) {
		for i := 0; i < nv; i++ {
			g.opVote(pid, i, w)
		}
	}
	run := func(blocks int) {
		for i := 0; i < blocks && !g.dead; i++ {
			g.opBlock(11)
		}
	}
	m := g.baseParams()
	// carrier: a proposal whose message is signed by the gov module account and moves (or claims to deposit) its coins; it passes
	// while `target`'s deposit still sits in the account, then the target ends (deposit period over, or tallied)
	carrier := func(kind int, amt int64, target uint64) uint64 {
		g.spendAmt, g.target = amt, target
		pid := g.voting(false, kind)
		all(pid, "y")
		return pid
	}
	switch n % 15 {
	case 10: // bank MsgSend from the gov account for exactly the target's deposit; the target's deposit period then expires (refund)
		g.opParams(m)
		g.setCustoms(nil, 0)
		target := g.opSubmit(nv, false, 10, 3)
		carrier(4, 10, target)
		run(5)
	case 11: // MsgFundCommunityPool from the gov account, ONE base unit: the escrow is short by 1; prevote burn of the expired target
		m.burnPre = true
		g.opParams(m)
		g.setCustoms(nil, 0)
		target := g.opSubmit(nv+1, false, 998, 0)
		g.opDeposit(target, nv, 0+1)
		carrier(5, 1, target)
		run(5)
	case 12: // the target is in its voting period and is rejected by vote (refund) / vetoed (burn) after the carrier spent part of its deposit
		g.opParams(m)
		g.setCustoms(nil, 0)
		g.opBlock(5)
		target := g.voting(false, 0)
		all(target, []string{"n", "v"}[g.rng.Intn(2)])
		g.opBlock(1) // the carrier's voting period ends ... before the target's? no: it started later; use an expedited carrier (10 s)
		g.spendAmt, g.target = 600, target
		pid := g.voting(true, 4)
		all(pid, "y")
		run(4)
	case 14: // a lone proposal whose message pays away exactly its OWN deposit (and one paying a single base unit): its deposit is
		// refunded before the messages run, so the account is empty and the handler fails — FAILED, nothing moves
		g.opParams(m)
		g.setCustoms(nil, 0)
		carrier(4, 1000, 0)
		run(3)
		carrier(5, 1, 0)
		run(3)
	case 13: // refused or harmless: MsgDeposit / MsgSubmitProposal from the gov account (FAILED since 45d0bc2), a spend larger than the
		// balance (handler fails), a spend followed by a failing message (discarded), then everything is settled
		g.opParams(m)
		g.setCustoms(nil, 0)
		target := g.opSubmit(nv, false, 500, 3)
		carrier(6, 500, target)
		carrier(8, 700, 0)
		carrier(4, 1_000_000, target)
		carrier(7, 500, target)
		run(6)
	case 0: // quorum reached with ABSTAIN votes only
		g.opParams(m)
		g.setCustoms(nil, 0)
		pid := g.voting(false, 0)
		all(pid, "a")
		run(3)
	case 1: // nobody votes; quorum 0
		m.quorum = dec("0")
		g.opParams(m)
		g.setCustoms(nil, 0)
		g.voting(false, 0)
		g.voting(true, 1)
		g.voting(false, 3) // a proposal without any message
		run(5)
	case 2: // only voters without any delegation vote (total voting power 0), quorum 0 through the custom parameters
		g.opParams(m)
		z := dec("0")
		g.setCustoms(&z, 15)
		pid := g.voting(false, 0)
		g.opVote(pid, nv+2, "y")
		g.opVote(pid, nv+3, "a")
		run(3)
	case 3: // weighted abstain everywhere, dust delegations (1 base unit) voting
		g.opParams(m)
		g.setCustoms(nil, 0)
		g.opDelegate(nv, 0, sdkmath.OneInt())
		g.opDelegate(nv+1, 1%nv, sdkmath.NewInt(3))
		g.opBlock(1)
		pid := g.voting(false, 0)
		all(pid, "a:1")
		g.opVote(pid, nv, "a:0.5,y:0.5")
		g.opVote(pid, nv+1, "a:0.999999999999999999,n:0.000000000000000001")
		run(3)
	case 4: // expedited proposal, all abstain: converted to a regular one and tallied again
		g.opParams(m)
		g.setCustoms(nil, 0)
		pid := g.voting(true, 0)
		all(pid, "a")
		run(2)
		all(pid, "a")
		run(3)
	case 5: // deposit period expires (refund / burn), while another proposal is vetoed and burned
		m.burnPre = true
		g.opParams(m)
		g.setCustoms(nil, 0)
		g.opSubmit(nv, false, 10, 0)
		pid := g.voting(false, 1)
		all(pid, "v")
		run(4)
	case 6: // a validator votes and so do all of its delegators: nothing is left for the validator's own vote
		g.opParams(m)
		g.setCustoms(nil, 0)
		g.opDelegate(nv, 0, sdkmath.NewIntWithDecimal(5, 18))
		g.opBlock(1)
		pid := g.voting(false, 0)
		g.opVote(pid, 0, "a")
		g.opVote(pid, nv, "a")
		run(3)
	case 7: // the only voters undelegate everything before the tally
		g.opParams(m)
		z := dec("0")
		g.setCustoms(&z, 15)
		g.opDelegate(nv, 0, sdkmath.NewIntWithDecimal(2, 18))
		g.opBlock(1)
		pid := g.voting(false, 2)
		g.opVote(pid, nv, "a")
		g.opUndelegate(nv, 0, sdkmath.NewIntWithDecimal(2, 18))
		run(3)
	case 8: // passes; its message fails on execution (FAILED, not a halt); quorum exactly reached
		m.quorum = dec("0.5")
		g.opParams(m)
		g.setCustoms(nil, 0)
		pid := g.voting(false, 1)
		pid3 := g.voting(false, 3) // a text proposal (no message) that passes: nothing to execute
		for i := 0; i < (nv+1)/2; i++ {
			g.opVote(pid, i, "y")
			g.opVote(pid3, i, "y")
		}
		run(3)
	case 9: // abstain + exactly-at-threshold veto / yes
		m.veto, m.thr = dec("0.5"), dec("0.5")
		g.opParams(m)
		g.setCustoms(nil, 0)
		pid := g.voting(false, 0)
		for i := 0; i < nv; i++ {
			g.opVote(pid, i, []string{"v", "y", "a", "a"}[i%4])
		}
		run(3)
	}
}

func (g *gworld) inVoting() []uint64 {
	var ids []uint64
	_ = g.s.App.GovKeeper.ActiveProposalsQueue.Walk(g.ctx(), nil, func(key collections.Pair[time.Time, uint64], _ uint64) (bool, error) {
		ids = append(ids, key.K2())
		return false, nil
	})
	return ids
}

func (g *gworld) sequence(length int) {
	rng := g.rng
	nv := len(g.vals)
	g.opParams(g.randomParams())
	switch rng.Intn(3) {
	case 0:
		g.setCustoms(nil, 0)
	case 1:
		q := []sdkmath.LegacyDec{dec("0"), dec("0.25"), dec("1"), dec("0.5")}[rng.Intn(4)]
		g.setCustoms(&q, int64(5+rng.Intn(20)))
	}
	var open []uint64
	for step := 0; step < length && !g.dead; step++ {
		r := rng.Intn(100)
		switch {
		case r < 30:
			g.opBlock([]int64{1, 5, 11, 21, 31}[rng.Intn(5)])
		case r < 45:
			exp := rng.Intn(3) == 0
			var id uint64
			kind := rng.Intn(4)
			if rng.Intn(3) == 0 { // a message that moves the gov module account's coins: boundary amounts around the escrow
				kind = 4 + rng.Intn(5)
				bal, total := g.escrowReal()
				g.spendAmt = []int64{1, 10, 999, 1000, 1001, total.Int64(), bal.Int64() + 1000, bal.Int64() + 1001}[rng.Intn(8)]
				if g.spendAmt <= 0 {
					g.spendAmt = 1
				}
				g.target = 0
				if len(open) > 0 {
					g.target = open[rng.Intn(len(open))]
				}
			}
			if rng.Intn(4) == 0 {
				id = g.opSubmit(nv+rng.Intn(4), exp, int64(1+rng.Intn(999)), kind)
			} else {
				id = g.voting(exp, kind)
			}
			if id != 0 {
				open = append(open, id)
				if kind >= 4 && rng.Intn(2) == 0 { // let it pass
					for i := 0; i < nv; i++ {
						g.opVote(id, i, "y")
					}
				}
			}
		case r < 75:
			voting := g.inVoting()
			if len(voting) == 0 || rng.Intn(12) == 0 {
				voting = open
			}
			if len(voting) == 0 {
				continue
			}
			pid := voting[rng.Intn(len(voting))]
			w := gVoteWords[rng.Intn(len(gVoteWords))]
			if rng.Intn(2) == 0 { // everybody, mostly the same way
				for i := 0; i < len(g.voters); i++ {
					if rng.Intn(5) > 0 {
						g.opVote(pid, i, w)
					}
				}
			} else {
				g.opVote(pid, rng.Intn(len(g.voters)), w)
			}
		case r < 85:
			amt := []sdkmath.Int{sdkmath.OneInt(), sdkmath.NewInt(3), sdkmath.NewIntWithDecimal(1, 18), sdkmath.NewIntWithDecimal(7, 17), sdkmath.NewIntWithDecimal(25, 18)}[rng.Intn(5)]
			g.opDelegate(nv+rng.Intn(4), rng.Intn(nv), amt)
		case r < 91:
			d := nv + rng.Intn(4)
			v := rng.Intn(nv)
			if del, err := g.s.App.StakingKeeper.GetDelegation(g.ctx(), g.voters[d], g.vals[v]); err == nil {
				val, _ := g.s.App.StakingKeeper.GetValidator(g.ctx(), g.vals[v])
				tok := val.TokensFromShares(del.Shares).TruncateInt()
				if rng.Intn(2) == 0 && tok.GT(sdkmath.OneInt()) {
					tok = tok.QuoRaw(2)
				}
				if tok.IsPositive() {
					g.opUndelegate(d, v, tok)
				}
			}
		case r < 95:
			if len(open) > 0 {
				g.opDeposit(open[rng.Intn(len(open))], nv+rng.Intn(4), int64(1+rng.Intn(1200)))
			}
		default:
			g.opParams(g.randomParams())
		}
	}
	for i := 0; i < 4 && !g.dead; i++ {
		g.opBlock(31)
	}
}

func runGov(t *testing.T, out *hx.Out, rng *rand.Rand) {
	nscen := 15
	nseq := hx.N(16, 150)
	for i := 0; i < nscen; i++ {
		g := newGWorld(t, out, rng)
		g.scenario(i)
	}
	for i := 0; i < nseq; i++ {
		g := newGWorld(t, out, rng)
		g.sequence(30)
	}
}

var _ = stakingkeeper.NewMsgServerImpl
