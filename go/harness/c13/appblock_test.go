package c13

// C07, app level: the REGENERATED block pipeline (facts "C07.app", emitted by go/extract/c07app.go and classified / proved over in
// Model/C07 + Props/C07) is compared with the module manager of the real, running app: which registered modules implement a
// pre / begin / end blocker at run time, which of those are fx-core types, and in which order the manager runs them.  A blocker
// the translator did not see (so the Lean classification never covered it), or a chain module the harness does not drive, is a
// translator / coverage break reported as a violation.

import (
	"encoding/json"
	"fmt"
	"os"
	"reflect"
	"sort"
	"strings"
	"testing"

	sdk "github.com/cosmos/cosmos-sdk/types"

	"fxverif/harness/hx"
)

type appFactsT struct {
	Blockers []struct {
		Phase, Module, Embeds, Ret, Keeper string
		Declared                           bool
	} `json:"blockers"`
	FxModules []string `json:"fxModules"`
	Pre       []string `json:"pre"`
	Begin     []string `json:"begin"`
	End       []string `json:"end"`
}

const fxPkg = "github.com/functionx/fx-core/v8/x/"

func checkAppBlockers(t *testing.T, out *hx.Out) {
	fp := os.Getenv("VERIF_FACTS")
	if fp == "" {
		return
	}
	bz, err := os.ReadFile(fp)
	if err != nil {
		t.Fatal(err)
	}
	var all map[string]json.RawMessage
	if err := json.Unmarshal(bz, &all); err != nil {
		t.Fatal(err)
	}
	var f appFactsT
	if raw, ok := all["C07.app"]; !ok || json.Unmarshal(raw, &f) != nil {
		out.Violate("C07 app pipeline: the translator emitted no app-level facts (C07.app)")
		return
	}
	s := hx.NewSuite(t, 1)
	// run-time view: every registered module that implements a blocker, with the package of its concrete type
	type rt struct{ phase, name, pkg string }
	var have []rt
	for name, m := range s.App.GetModules() {
		pkg := reflect.TypeOf(m).PkgPath()
		for _, ph := range [][2]string{{"PreBlock", "pre"}, {"BeginBlock", "begin"}, {"EndBlock", "end"}} {
			if _, ok := reflect.TypeOf(m).MethodByName(ph[0]); ok {
				have = append(have, rt{ph[1], name, pkg})
			}
		}
	}
	sort.Slice(have, func(i, j int) bool { return have[i].phase+have[i].name < have[j].phase+have[j].name })
	fact := map[string]bool{}     // phase/module → listed by the translator
	declared := map[string]bool{} // phase/module → declared by the fx-core package itself
	for _, b := range f.Blockers {
		fact[b.Phase+"/"+b.Module] = true
		if b.Declared {
			declared[b.Phase+"/"+b.Module] = true
		}
	}
	nFx := 0
	seen := map[string]bool{}
	for _, h := range have {
		out.Count("app:runtime-blocker:" + h.phase)
		if !strings.HasPrefix(h.pkg, fxPkg) {
			continue
		}
		nFx++
		dir := strings.TrimPrefix(h.pkg, fxPkg)
		seen[h.phase+"/"+dir] = true
		out.Nontrivial("app:fx-blocker:" + h.phase + "/" + dir)
		if !fact[h.phase+"/"+dir] {
			out.Violate(fmt.Sprintf("C07 app pipeline: module %q (fx-core type %s) runs a %s-blocker the regenerated inventory does not list: it is not covered by any theorem", h.name, h.pkg, h.phase))
		}
	}
	for k := range declared {
		if !seen[k] {
			out.Violate(fmt.Sprintf("C07 app pipeline: the regenerated inventory lists a declared blocker %s that the running app's module manager does not have", k))
		}
	}
	// order: restricted to the fx-core modules, the regenerated order lists equal the manager's
	isFx := map[string]bool{}
	for _, m := range f.FxModules {
		isFx[m] = true
	}
	restrict := func(xs []string) string {
		var r []string
		for _, x := range xs {
			if isFx[x] {
				r = append(r, x)
			}
		}
		return strings.Join(r, ",")
	}
	if a, b := restrict(f.End), restrict(s.App.GetOrderEndBlockersModules()); a != b {
		out.Violate(fmt.Sprintf("C07 app pipeline: regenerated end-blocker order of the fx-core modules [%s] differs from the module manager's [%s]", a, b))
	}
	if a, b := restrict(f.Begin), restrict(s.App.GetOrderBeginBlockersModules()); a != b {
		out.Violate(fmt.Sprintf("C07 app pipeline: regenerated begin-blocker order of the fx-core modules [%s] differs from the module manager's [%s]", a, b))
	}
	if len(f.End) != len(s.App.GetOrderEndBlockersModules()) || len(f.Begin) != len(s.App.GetOrderBeginBlockersModules()) {
		out.Violate("C07 app pipeline: the regenerated order lists and the module manager's have different lengths")
	}
	// every module whose end-blocker is the shared crosschain keeper end-blocker is driven by this harness
	driven := map[string]bool{}
	for _, c := range allChains {
		driven[c] = true
	}
	n := 0
	for _, b := range f.Blockers {
		if b.Phase == "end" && b.Declared && b.Keeper == "crosschainkeeper.Keeper" {
			n++
			if !driven[b.Module] {
				out.Violate(fmt.Sprintf("C07 app pipeline: chain module %q runs the crosschain end-blocker but no sequence of the harness drives it", b.Module))
			}
		}
	}
	if n != len(allChains) {
		out.Violate(fmt.Sprintf("C07 app pipeline: %d modules run the crosschain end-blocker, the harness drives %d", n, len(allChains)))
	}
	out.Count(fmt.Sprintf("app:fx-runtime-blockers=%d", nFx))
	_ = sdk.AccAddress{}
}
