package c19

// Probe (not part of bin/check: run with VERIF_PROBE=1 go test -run TestC19ProbeForeignVoucherRefund ./c19):
// decides the seeder's side observation "a timeout / error ack of a plain (bank-originated) outbound transfer of a
// FOREIGN ibc/… voucher that is not registered as a bridge alias makes the hook return `alias ibc/… not found`, so
// MsgTimeout fails for ever".  Result recorded in fixes/C19-foreign-voucher-timeout.md.

import (
	"fmt"
	"math/rand"
	"os"
	"testing"

	sdkmath "cosmossdk.io/math"
	sdk "github.com/cosmos/cosmos-sdk/types"
	ibctransferkeeper "github.com/cosmos/ibc-go/v8/modules/apps/transfer/keeper"
	transfertypes "github.com/cosmos/ibc-go/v8/modules/apps/transfer/types"
	clienttypes "github.com/cosmos/ibc-go/v8/modules/core/02-client/types"
	channeltypes "github.com/cosmos/ibc-go/v8/modules/core/04-channel/types"

	erc20types "github.com/functionx/fx-core/v8/x/erc20/types"

	"fxverif/harness/hx"
)

func TestC19ProbeForeignVoucherRefund(t *testing.T) {
	if os.Getenv("VERIF_PROBE") == "" {
		t.Skip("probe only")
	}
	out := hx.NewOut()
	defer out.Close("probe")
	e := newEnv(t, out, rand.New(rand.NewSource(1)), map[string]bool{})
	out.Reset()
	e.setup([]int{0, 1, 2}, []int{1, 0, 2})
	s := e.s
	ch := e.chans[0]
	a := e.addr(1)
	acc := sdk.AccAddress(a.Bytes())
	mod, _ := s.App.IBCKeeper.Router.GetRoute(transfertypes.ModuleName)

	// outbound plain transfer of `denom` (trace path transfer/channel-0/<remote>) and its timeout
	try := func(label, denom, remote string) {
		seq, _ := s.App.IBCKeeper.ChannelKeeper.GetNextSequenceSend(s.Ctx, port, ch.id)
		ts := uint64(s.Ctx.BlockTime().UnixNano()) + 1e12
		msg := transfertypes.NewMsgTransfer(port, ch.id, sdk.NewCoin(denom, sdkmath.NewInt(10)), acc.String(), "cosmos1remote", clienttypes.ZeroHeight(), ts, "")
		if _, err := s.App.IBCTransferKeeper.Transfer(s.Ctx, msg); err != nil {
			fmt.Printf("PROBE %-42s send failed: %v\n", label, err)
			return
		}
		data := transfertypes.NewFungibleTokenPacketData(fmt.Sprintf("%s/%s/%s", port, ch.id, remote), "10", acc.String(), "cosmos1remote", "")
		packet := channeltypes.NewPacket(data.GetBytes(), seq, port, ch.id, port, ch.cp, clienttypes.ZeroHeight(), ts)
		cctx, write := s.Ctx.CacheContext()
		err := mod.OnTimeoutPacket(cctx, packet, nil)
		if err == nil {
			write()
		}
		fmt.Printf("PROBE %-42s timeout callback: err=%v  sender holds %s\n", label, err, s.App.BankKeeper.GetBalance(s.Ctx, acc, denom))
	}

	// (a) an unregistered foreign voucher WITHOUT bank metadata (only possible in hand-made state: ibc-go 8.5.1 writes
	// metadata whenever it mints a voucher, in InitGenesis and in MigrateDenomMetadata)
	s.App.IBCTransferKeeper.SetDenomTrace(s.Ctx, transfertypes.ParseDenomTrace(fmt.Sprintf("%s/%s/%s", port, ch.id, remoteX)))
	s.MintToken(acc, sdk.NewCoin(ch.vX, sdkmath.NewInt(100)))
	try("(a) voucher X, no bank metadata", ch.vX, remoteX)

	// (b) the same voucher after the transfer module's real metadata migration
	if err := ibctransferkeeper.NewMigrator(s.App.IBCTransferKeeper).MigrateDenomMetadata(s.Ctx); err != nil {
		panic(err)
	}
	try("(b) voucher X, metadata written by ibc-go", ch.vX, remoteX)

	// (c) a voucher with a token pair of its own, obtained the only way this tree allows: received to a hex account
	// (ERC-20), converted back to the bank coin with the real ConvertERC20
	e.recv(0, "V", "hex", 1, 50, "none", 0)
	if _, err := s.App.Erc20Keeper.ConvertERC20(s.Ctx, &erc20types.MsgConvertERC20{ContractAddress: ch.ercV.Hex(), Amount: sdkmath.NewInt(30), Receiver: acc.String(), Sender: a.Hex()}); err != nil {
		fmt.Println("PROBE ConvertERC20 failed:", err)
	}
	try("(c) voucher V (own pair), received + ConvertERC20", ch.vV, remoteV)
}
